(* Proofs/WrapHeapSimProofs.v — two heaps whose elements are pairwise related by a relation that preserves the node
   order evolve in lockstep under push, pop and extend (same shape, related elements). *)
From PasfmtVerif Require Import Model.WrapSearch.
From Coq Require Import Lia.

Definition opt_rel {A B} (R : A -> B -> Prop) (x : option A) (y : option B) : Prop :=
  match x, y with Some a, Some b => R a b | None, None => True | _, _ => False end.

Inductive pt_rel {A B} (R : A -> B -> Prop) : ptree A -> ptree B -> Prop :=
  | PR_leaf : pt_rel R PLeaf PLeaf
  | PR_node l1 x1 r1 l2 x2 r2 : pt_rel R l1 l2 -> opt_rel R x1 x2 -> pt_rel R r1 r2 -> pt_rel R (PNode l1 x1 r1) (PNode l2 x2 r2).

Lemma pt_get_rel {A B} (R : A -> B -> Prop) : forall t1 t2, pt_rel R t1 t2 -> forall p, opt_rel R (pt_get p t1) (pt_get p t2).
Proof.
  induction 1 as [|l1 x1 r1 l2 x2 r2 Hl IHl Hx Hr IHr]; intros p; [destruct p; exact I|].
  destruct p as [q|q|]; cbn [pt_get]; [apply IHr|apply IHl|exact Hx].
Qed.

Lemma pt_set_rel {A B} (R : A -> B -> Prop) p : forall v1 v2 t1 t2, pt_rel R t1 t2 -> opt_rel R v1 v2 -> pt_rel R (pt_set p v1 t1) (pt_set p v2 t2).
Proof.
  induction p as [q IH|q IH|]; intros v1 v2 t1 t2 Ht Hv; destruct Ht as [|l1 x1 r1 l2 x2 r2 Hl Hx Hr]; cbn [pt_set];
    constructor; try assumption; try exact I; try constructor; try (apply IH; [constructor|exact Hv]); try (apply IH; assumption).
Qed.

Section HeapSim.
Variable R : node -> node -> Prop.
Hypothesis Hord : forall a a' b b', R a a' -> R b b' -> node_gt a b = node_gt a' b'.

Lemma node_le_rel a a' b b' : R a a' -> R b b' -> node_le a b = node_le a' b'.
Proof. intros H1 H2. unfold node_le. rewrite (Hord a a' b b' H1 H2). reflexivity. Qed.

Ltac get2 t1 t2 Ht p a b Hab :=
  let H := fresh "Hg" in
  pose proof (pt_get_rel R t1 t2 Ht p) as H;
  destruct (pt_get p t1) as [a|]; destruct (pt_get p t2) as [b|]; cbn [opt_rel] in H; try contradiction; try rename H into Hab.

Lemma sift_up_rel p : forall e1 e2 t1 t2, pt_rel R t1 t2 -> R e1 e2 -> pt_rel R (sift_up p e1 t1) (sift_up p e2 t2).
Proof.
  induction p as [q IH|q IH|]; intros e1 e2 t1 t2 Ht He; cbn [sift_up].
  - get2 t1 t2 Ht q a b Hab.
    + rewrite (node_le_rel e1 e2 a b He Hab). destruct (node_le e2 b).
      * apply pt_set_rel; [exact Ht|exact He].
      * apply IH; [|exact He]. apply pt_set_rel; [exact Ht|exact Hab].
    + apply pt_set_rel; [exact Ht|exact He].
  - get2 t1 t2 Ht q a b Hab.
    + rewrite (node_le_rel e1 e2 a b He Hab). destruct (node_le e2 b).
      * apply pt_set_rel; [exact Ht|exact He].
      * apply IH; [|exact He]. apply pt_set_rel; [exact Ht|exact Hab].
    + apply pt_set_rel; [exact Ht|exact He].
  - apply pt_set_rel; [exact Ht|exact He].
Qed.

Definition heap_rel (h1 h2 : heap) : Prop := h_len h1 = h_len h2 /\ pt_rel R (h_data h1) (h_data h2).

Lemma heap_empty_rel : heap_rel heap_empty heap_empty.
Proof. split; [reflexivity|constructor]. Qed.

Lemma heap_push_rel x1 x2 h1 h2 : heap_rel h1 h2 -> R x1 x2 -> heap_rel (heap_push x1 h1) (heap_push x2 h2).
Proof.
  intros (Hl & Ht) Hx. unfold heap_push. rewrite Hl. destruct (N.succ (h_len h2)) as [|p]; [split; assumption|].
  split; [reflexivity|]. cbn [h_data]. apply sift_up_rel; assumption.
Qed.

Lemma descend_bottom_rel fuel : forall len p t1 t2, pt_rel R t1 t2 ->
  fst (descend_bottom fuel len p t1) = fst (descend_bottom fuel len p t2)
  /\ pt_rel R (snd (descend_bottom fuel len p t1)) (snd (descend_bottom fuel len p t2)).
Proof.
  induction fuel as [|f IH]; intros len p t1 t2 Ht; cbn [descend_bottom]; [split; [reflexivity|exact Ht]|].
  destruct (Pos.leb (xI p) len).
  - get2 t1 t2 Ht (xO p) a b Hab; [|split; [reflexivity|exact Ht]].
    get2 t1 t2 Ht (xI p) c d Hcd; [|split; [reflexivity|exact Ht]].
    rewrite (node_le_rel a b c d Hab Hcd). apply IH. apply pt_set_rel; [exact Ht|]. destruct (node_le b d); assumption.
  - destruct (Pos.eqb (xO p) len); [|split; [reflexivity|exact Ht]].
    get2 t1 t2 Ht (xO p) a b Hab; [|split; [reflexivity|exact Ht]].
    cbn [fst snd]. split; [reflexivity|]. apply pt_set_rel; [exact Ht|exact Hab].
Qed.

Definition pop_rel (r1 r2 : option (node * heap)) : Prop :=
  match r1, r2 with
  | Some (n1, h1), Some (n2, h2) => R n1 n2 /\ heap_rel h1 h2
  | None, None => True
  | _, _ => False
  end.

Lemma heap_pop_rel h1 h2 : heap_rel h1 h2 -> pop_rel (heap_pop h1) (heap_pop h2).
Proof.
  intros (Hl & Ht). unfold heap_pop. rewrite Hl. destruct (h_len h2) as [|last]; [exact I|].
  get2 (h_data h1) (h_data h2) Ht last i1 i2 Hi; [|exact I].
  assert (Ht' : pt_rel R (pt_set last None (h_data h1)) (pt_set last None (h_data h2))) by (apply pt_set_rel; [exact Ht|exact I]).
  destruct (Pos.pred_N last) as [|len'].
  - cbn. split; [exact Hi|]. split; [reflexivity|exact Ht'].
  - get2 (pt_set last None (h_data h1)) (pt_set last None (h_data h2)) Ht' 1%positive top1 top2 Htop; [|exact I].
    destruct (descend_bottom_rel (S (Pos.size_nat len')) len' 1%positive _ _ Ht') as (D1 & D2).
    destruct (descend_bottom (S (Pos.size_nat len')) len' 1%positive (pt_set last None (h_data h1))) as [pos1 t1'].
    destruct (descend_bottom (S (Pos.size_nat len')) len' 1%positive (pt_set last None (h_data h2))) as [pos2 t2'].
    cbn [fst snd] in *. subst pos2. cbn. split; [exact Htop|]. split; [reflexivity|]. cbn [h_data]. apply sift_up_rel; assumption.
Qed.

Lemma sift_down_rel fuel : forall len p e1 e2 t1 t2, pt_rel R t1 t2 -> R e1 e2 ->
  pt_rel R (sift_down fuel len p e1 t1) (sift_down fuel len p e2 t2).
Proof.
  induction fuel as [|f IH]; intros len p e1 e2 t1 t2 Ht He; cbn [sift_down]; [apply pt_set_rel; assumption|].
  destruct (Pos.leb (xI p) len).
  - get2 t1 t2 Ht (xO p) a b Hab; [|apply pt_set_rel; assumption].
    get2 t1 t2 Ht (xI p) c d Hcd; [|apply pt_set_rel; assumption].
    rewrite (node_le_rel a b c d Hab Hcd).
    assert (Hv : R (if node_le b d then c else a) (if node_le b d then d else b)) by (destruct (node_le b d); assumption).
    rewrite (node_le_rel _ _ e1 e2 Hv He). destruct (node_le (if node_le b d then d else b) e2); [apply pt_set_rel; assumption|].
    apply IH; [|exact He]. apply pt_set_rel; [exact Ht|exact Hv].
  - destruct (Pos.eqb (xO p) len); [|apply pt_set_rel; assumption].
    get2 t1 t2 Ht (xO p) a b Hab; [|apply pt_set_rel; assumption].
    rewrite (Hord a b e1 e2 Hab He). destruct (node_gt b e2); [|apply pt_set_rel; assumption].
    apply pt_set_rel; [apply pt_set_rel; assumption|exact He].
Qed.

Lemma rebuild_from_rel n : forall len t1 t2, pt_rel R t1 t2 -> pt_rel R (rebuild_from n len t1) (rebuild_from n len t2).
Proof.
  induction n as [|k IH]; intros len t1 t2 Ht; [exact Ht|].
  change (rebuild_from (S k) len t1) with
    (rebuild_from k len (match pt_get (Pos.of_nat (S k)) t1 with Some e => sift_down (S (Pos.size_nat len)) len (Pos.of_nat (S k)) e t1 | None => t1 end)).
  change (rebuild_from (S k) len t2) with
    (rebuild_from k len (match pt_get (Pos.of_nat (S k)) t2 with Some e => sift_down (S (Pos.size_nat len)) len (Pos.of_nat (S k)) e t2 | None => t2 end)).
  apply IH. get2 t1 t2 Ht (Pos.of_nat (S k)) a b Hab; [|exact Ht]. apply sift_down_rel; assumption.
Qed.

Lemma append_raw_rel l1 l2 : Forall2 R l1 l2 -> forall h1 h2, heap_rel h1 h2 -> heap_rel (append_raw l1 h1) (append_raw l2 h2).
Proof.
  induction 1 as [|x1 x2 r1 r2 Hx Hr IH]; intros h1 h2 (Hl & Ht); cbn [append_raw]; [split; assumption|].
  apply IH. split; cbn [h_len h_data]; rewrite Hl; [reflexivity|]. destruct (N.succ (h_len h2)); [exact Ht|]. apply pt_set_rel; [exact Ht|exact Hx].
Qed.

Lemma sift_up_each_rel l1 l2 : Forall2 R l1 l2 -> forall pos t1 t2, pt_rel R t1 t2 -> pt_rel R (sift_up_each l1 pos t1) (sift_up_each l2 pos t2).
Proof.
  induction 1 as [|x1 x2 r1 r2 Hx Hr IH]; intros pos t1 t2 Ht; cbn [sift_up_each]; [exact Ht|].
  apply IH. destruct (N.succ pos); [exact Ht|]. apply sift_up_rel; assumption.
Qed.

Lemma heap_extend_rel l1 l2 h1 h2 : Forall2 R l1 l2 -> heap_rel h1 h2 -> heap_rel (heap_extend l1 h1) (heap_extend l2 h2).
Proof.
  intros Hl Hh. unfold heap_extend. destruct Hl as [|x1 x2 r1 r2 Hx Hr]; [exact Hh|].
  pose proof (append_raw_rel (x1 :: r1) (x2 :: r2) (Forall2_cons _ _ Hx Hr) h1 h2 Hh) as (Al & At).
  destruct Hh as (Hlen & Ht). rewrite Al, Hlen.
  destruct (if h_len h2 <? h_len (append_raw (x2 :: r2) h2) - h_len h2 then true
            else if h_len (append_raw (x2 :: r2) h2) <=? 2048
                 then 2 * h_len (append_raw (x2 :: r2) h2) <? (h_len (append_raw (x2 :: r2) h2) - h_len h2) * N.log2 (h_len h2)
                 else 2 * h_len (append_raw (x2 :: r2) h2) <? (h_len (append_raw (x2 :: r2) h2) - h_len h2) * 11).
  - destruct (h_len (append_raw (x2 :: r2) h2)) as [|lp] eqn:E.
    + split; [rewrite Al, E; reflexivity|exact At].
    + split; [reflexivity|]. cbn [h_data]. apply rebuild_from_rel. exact At.
  - split; [reflexivity|]. cbn [h_data]. apply sift_up_each_rel; [constructor; assumption|exact At].
Qed.
End HeapSim.
