(* Proofs/WrapKidsProofs.v — where the child solutions of a solution come from.
   WrapSearchDeepProofs.sol_deep says that a child solution (k, s') is a solution of line k; it does not say which lines k can be.
   Here: every k is one of the lines that the record of some token lists as its child lines (tr_kids / lch_lines) — at every
   nesting depth and for whatever the cache holds.  The development follows WrapSearchDeepProofs step by step with the invariant
   "kids come from records" (kids_from) in the place of kids_ok; Pk is any property that the child lines listed in the records have
   (FormatEofProofs instantiates it with "line k has a parent"). *)
From PasfmtVerif Require Import Model.WrapSearch Model.WrapFormat Proofs.WrapSearchProofs.
From Coq Require Import Lia.

Section Kids.
Variable W : wsettings.
Variable lvs : list lview.
Variable fmain : nat.
Variable Pk : nat -> Prop.

(* the child lines a record lists have the property *)
Definition rec_from (r : trec) : Prop := forall lc k, tr_kids r = Some lc -> In k (lch_lines lc) -> Pk k.
Hypothesis Hviews : forall lv, In lv lvs -> Forall rec_from (lv_recs lv).

Inductive sol_from : solution -> Prop :=
  | SF s : (forall t k s', In t (sol_decs s) -> In (k, s') (td_kids t) -> Pk k /\ sol_from s') -> sol_from s.

Definition kids_ok (kids : list (nat * solution)) : Prop :=
  forall k s', In (k, s') kids -> Pk k /\ sol_from s'.
Definition cache_ok (st : sst) : Prop := forall key v, In (key, v) (ss_cache st) -> kids_ok v.
Definition node_deep (nd : node) : Prop := (forall t, In t (n_decs nd) -> kids_ok (td_kids t)) /\ Forall rec_from (n_rest nd).
Definition onode_deep (i : option node) : Prop := match i with Some ind => node_deep ind | None => True end.

Lemma kids_ok_nil : kids_ok [].
Proof. intros k s' []. Qed.

Lemma cache_find_ok key : forall c v, (forall k' v', In (k', v') c -> kids_ok v') -> cache_find key c = Some v -> kids_ok v.
Proof.
  induction c as [|[k' v'] r IH]; intros v Hc E; cbn [cache_find] in E; [discriminate|].
  destruct (ckey_eqb key k').
  - injection E as <-. apply (Hc k'). left; reflexivity.
  - apply IH; [|exact E]. intros k2 v2 H. apply (Hc k2). right; exact H.
Qed.

Variable child_solve : sst -> lview -> N * N -> first_decision -> sst * option solution.
Hypothesis Hchild : forall st lv' ws fd, In lv' lvs -> cache_ok st ->
  cache_ok (fst (child_solve st lv' ws fd)) /\ (forall s, snd (child_solve st lv' ws fd) = Some s -> sol_from s).

Lemma solve_children_deep opt base deind : forall kids st first lll acc,
  (forall k, In k kids -> Pk k) -> cache_ok st -> kids_ok acc ->
  cache_ok (fst (solve_children lvs child_solve st opt base deind kids first lll acc))
  /\ (forall l, snd (solve_children lvs child_solve st opt base deind kids first lll acc) = Some l -> kids_ok l).
Proof.
  induction kids as [|k rest IH]; intros st first lll acc Hk Hst Hacc; cbn [solve_children].
  - cbn [fst snd]. split; [exact Hst|]. intros l E. injection E as <-. intros k s' H. apply in_rev in H. exact (Hacc k s' H).
  - destruct (nth_error lvs k) as [lv'|] eqn:Ek; [|cbn; split; [exact Hst|discriminate]].
    match goal with |- context [child_solve st lv' ?ws ?fd] => destruct (Hchild st lv' ws fd (nth_error_In _ _ Ek) Hst) as (Hc1 & Hc2); destruct (child_solve st lv' ws fd) as [st1 r] end.
    cbn [fst snd] in *. destruct r as [s|]; [|cbn; split; [exact Hc1|discriminate]].
    apply IH; [intros k' Hk'; apply Hk; right; exact Hk'|exact Hc1|]. intros k2 s2 [H|H]; [|exact (Hacc k2 s2 H)]. injection H as <- <-.
    split; [apply Hk; left; reflexivity|apply Hc2; reflexivity].
Qed.

Lemma child_lines_solutions_deep st line_idx r gtoks tok_li ws decs d nli tll pc :
  rec_from r -> cache_ok st ->
  cache_ok (fst (child_lines_solutions W lvs child_solve st line_idx r gtoks tok_li ws decs d nli tll pc))
  /\ Forall kids_ok (snd (child_lines_solutions W lvs child_solve st line_idx r gtoks tok_li ws decs d nli tll pc)).
Proof.
  intros Hr Hst. unfold child_lines_solutions.
  destruct (tr_kids r) as [lc|] eqn:Ekids; [|cbn; split; [exact Hst|constructor; [exact kids_ok_nil|constructor]]].
  assert (Hlc : forall k, In k (lch_lines lc) -> Pk k) by (intros k Hk; exact (Hr lc k Ekids Hk)).
  destruct (match lch_lines lc with k :: _ => nth_error lvs k | [] => None end) as [first_child|];
    [|cbn; split; [exact Hst|constructor; [exact kids_ok_nil|constructor]]].
  match goal with |- context [fold_left ?F ?opts (st, [])] =>
    assert (Hfold : forall options acc, cache_ok (fst acc) -> Forall kids_ok (snd acc) ->
                      cache_ok (fst (fold_left F options acc)) /\ Forall kids_ok (snd (fold_left F options acc)));
    [|apply Hfold; [exact Hst|constructor]] end.
  induction options as [|opt options IH]; intros [st0 sols] H1 H2; cbn [fold_left]; [split; assumption|].
  cbn [fst snd] in H1, H2. apply IH.
  - destruct (cache_find _ (ss_cache st0)) as [s|]; [exact H1|].
    destruct opt as [|ii cc xx|ii cc xx];
      match goal with |- context [solve_children lvs child_solve st0 ?o ?b ?dd ?ks ?f ?l ?a] =>
        destruct (solve_children_deep o b dd ks st0 f l a Hlc H1 kids_ok_nil) as (Hs1 & Hs2);
        destruct (solve_children lvs child_solve st0 o b dd ks f l a) as [st1 res] end;
      cbn [fst snd] in *; destruct res as [s|]; cbn [fst]; try exact Hs1;
      intros key v [H|H]; [injection H as _ <-; apply Hs2; reflexivity|exact (Hs1 key v H)|injection H as _ <-; apply Hs2; reflexivity|exact (Hs1 key v H)|injection H as _ <-; apply Hs2; reflexivity|exact (Hs1 key v H)].
  - destruct (cache_find _ (ss_cache st0)) as [s|] eqn:Ec.
    + cbn [snd]. apply Forall_app; split; [exact H2|]. constructor; [|constructor]. eapply cache_find_ok; [exact H1|exact Ec].
    + destruct opt as [|ii cc xx|ii cc xx];
        match goal with |- context [solve_children lvs child_solve st0 ?o ?b ?dd ?ks ?f ?l ?a] =>
          destruct (solve_children_deep o b dd ks st0 f l a Hlc H1 kids_ok_nil) as (Hs1 & Hs2);
          destruct (solve_children lvs child_solve st0 o b dd ks f l a) as [st1 res] end;
        cbn [fst snd] in *; destruct res as [s|]; cbn [snd]; try exact H2;
        apply Forall_app; split; try exact H2; constructor; [apply Hs2; reflexivity|constructor|apply Hs2; reflexivity|constructor|apply Hs2; reflexivity|constructor].
Qed.

Variable lv : lview.
Notation potential' := (potential W lvs child_solve lv).
Notation both' := (both W lvs child_solve lv).
Notation walk_step' := (walk_step W lvs child_solve lv).
Notation walk' := (walk W lvs child_solve lv).

Lemma potential_deep st nd b : cache_ok st -> node_deep nd ->
  cache_ok (fst (potential' st nd b)) /\ Forall node_deep (snd (potential' st nd b)).
Proof.
  intros Hst (Hnd & Hrecs). unfold potential. destruct (n_rest nd) as [|r rest]; [cbn; split; [exact Hst|constructor]|].
  inversion Hrecs as [|? ? Hr Hrest]; subst.
  match goal with |- context [child_lines_solutions W lvs child_solve st ?a ?b ?c ?d ?e ?f ?g ?h ?i ?j] =>
    destruct (child_lines_solutions_deep st a b c d e f g h i j Hr Hst) as (H1 & H2);
    destruct (child_lines_solutions W lvs child_solve st a b c d e f g h i j) as [st' sols] end.
  cbn [fst snd] in *. split; [exact H1|].
  apply Forall_forall. intros n Hn. apply in_map_iff in Hn. destruct Hn as (kids & <- & Hk).
  split; [|exact Hrest].
  intros t [<-|Ht]; [cbn [td_kids]; rewrite Forall_forall in H2; exact (H2 kids Hk)|exact (Hnd t Ht)].
Qed.

Lemma both_deep st ind : cache_ok st -> node_deep ind ->
  cache_ok (fst (both' st ind)) /\ Forall node_deep (snd (both' st ind)).
Proof.
  intros Hst Hind. unfold both.
  destruct (potential_deep st ind true Hst Hind) as (A1 & A2). destruct (potential' st ind true) as [st1 a]. cbn [fst snd] in *.
  destruct (potential_deep st1 ind false A1 Hind) as (B1 & B2). destruct (potential' st1 ind false) as [st2 b]. cbn [fst snd] in *.
  split; [exact B1|apply Forall_app; split; assumption].
Qed.

Definition res_deep (r : walk_res) : Prop :=
  match r with W_push n => node_deep n | W_extend l => Forall node_deep l | W_dead | W_fuel => True end.
Definition step_deep (s : wstep) : Prop :=
  match s with
  | WS_stop r => res_deep r
  | WS_forward n i => node_deep n /\ onode_deep i
  | WS_restart n => node_deep n
  end.

Lemma finish_deep succ : Forall node_deep succ -> step_deep (finish succ).
Proof. intros H. unfold finish. destruct succ as [|n [|m l]]; cbn; try exact H. inversion H; assumption. Qed.

Lemma kept_deep li sols : Forall node_deep sols -> forall best acc, Forall node_deep acc ->
  Forall node_deep (snd (fold_left (fun (acc : list N * list node) (n : node) =>
                                    if n_pen n <? best_at (fst acc) li then (upd_at li (fun _ => n_pen n) (fst acc), snd acc ++ [n]) else acc)
                                 sols (best, acc))).
Proof.
  induction 1 as [|n l Hn Hl IH]; intros best acc Hacc; cbn [fold_left]; [exact Hacc|].
  cbn [fst snd]. destruct (n_pen n <? best_at best li).
  - apply IH. apply Forall_app; split; [exact Hacc|constructor; [exact Hn|constructor]].
  - apply IH. exact Hacc.
Qed.

Lemma walk_step_deep nd indiff best st :
  cache_ok st -> node_deep nd -> onode_deep indiff ->
  cache_ok (snd (walk_step' nd indiff best st)) /\ step_deep (fst (fst (walk_step' nd indiff best st))).
Proof.
  intros Hst Hnd Hind. unfold walk_step.
  destruct (if w_max W <? last_line_length_of nd then indiff else None) as [ind|] eqn:Eover.
  { assert (Hi : node_deep ind) by (destruct (w_max W <? last_line_length_of nd); [subst indiff; exact Hind|discriminate]).
    destruct (both_deep st ind Hst Hi) as (B1 & B2). destruct (both' st ind) as [st' succ]. cbn [fst snd] in *.
    split; [exact B1|apply finish_deep; exact B2]. }
  destruct (n_rest nd) as [|r rest] eqn:Hrest; [cbn; split; [exact Hst|exact Hnd]|].
  assert (Hafter : forall succ indiff' st', cache_ok st' -> Forall node_deep succ -> onode_deep indiff' ->
            let res := match succ with
                       | [n] => (WS_forward n indiff', best, st')
                       | _ => match indiff' with
                              | Some ind => let (st'', more) := both' st' ind in (finish (succ ++ more), best, st'')
                              | None => (finish succ, best, st')
                              end
                       end in
            cache_ok (snd res) /\ step_deep (fst (fst res))).
  { intros succ indiff' st' Hc Hs Hi.
    assert (Hgen : let res := match indiff' with
                              | Some ind => let (st'', more) := both' st' ind in (finish (succ ++ more), best, st'')
                              | None => (finish succ, best, st')
                              end in cache_ok (snd res) /\ step_deep (fst (fst res))).
    { destruct indiff' as [ind|]; [|cbn; split; [exact Hc|apply finish_deep; exact Hs]].
      destruct (both_deep st' ind Hc Hi) as (B1 & B2). destruct (both' st' ind) as [st'' more]. cbn [fst snd] in *.
      split; [exact B1|apply finish_deep; apply Forall_app; split; assumption]. }
    destruct succ as [|n [|m l]]; try exact Hgen. cbn. split; [exact Hc|split; [inversion Hs; assumption|exact Hi]]. }
  destruct (get_formatting_requirement (lv_type lv) (tr_win r) (tr_ty r) (tr_inv r) (tr_stk r) (n_data nd) (n_nli nd)).
  - destruct (potential_deep st nd false Hst Hnd) as (P1 & P2). destruct (potential' st nd false) as [st' succ]. cbn [fst snd] in *.
    apply Hafter; [exact P1|exact P2|]. destruct indiff as [ind|]; [exact Hind|exact Hnd].
  - destruct indiff as [ind|]; [|cbn; split; [exact Hst|exact I]].
    destruct (both_deep st ind Hst Hind) as (B1 & B2). destruct (both' st ind) as [st' succ]. cbn [fst snd] in *.
    split; [exact B1|apply finish_deep; exact B2].
  - destruct (potential_deep st nd true Hst Hnd) as (P1 & P2). destruct (potential' st nd true) as [st' sols]. cbn [fst snd] in *.
    pose proof (kept_deep (N.to_nat (n_nli nd)) sols P2 best [] (Forall_nil _)) as Hk.
    destruct (fold_left _ sols (best, [])) as [best' kept]. cbn [fst snd] in *.
    split; [exact P1|apply finish_deep; exact Hk].
  - destruct (potential_deep st nd false Hst Hnd) as (P1 & P2). destruct (potential' st nd false) as [st' succ]. cbn [fst snd] in *.
    apply Hafter; [exact P1|exact P2|exact Hind].
Qed.

Lemma walk_deep : forall f1 f2 nd indiff best st,
  cache_ok st -> node_deep nd -> onode_deep indiff ->
  cache_ok (snd (walk' f1 f2 nd indiff best st)) /\ res_deep (fst (fst (walk' f1 f2 nd indiff best st))).
Proof.
  induction f1 as [|f1 IH1]; induction f2 as [|f2 IH2]; intros nd indiff best st Hst Hnd Hind; try (cbn; split; [exact Hst|exact I]).
  - cbn [walk]. destruct (walk_step_deep nd indiff best st Hst Hnd Hind) as (S1 & S2).
    destruct (walk_step' nd indiff best st) as [[s best'] st']. cbn [fst snd] in *.
    destruct s as [r|n i|n]; cbn [fst snd]; [split; assumption| |split; [exact S1|exact I]]. destruct S2 as (Hn & Hi). apply IH2; assumption.
  - cbn [walk]. destruct (walk_step_deep nd indiff best st Hst Hnd Hind) as (S1 & S2).
    destruct (walk_step' nd indiff best st) as [[s best'] st']. cbn [fst snd] in *.
    destruct s as [r|n i|n]; cbn [fst snd]; [split; assumption| |].
    + destruct S2 as (Hn & Hi). apply IH2; assumption.
    + apply IH1; [exact S1|exact S2|exact I].
Qed.

Definition sol_kids_ok (s : solution) : Prop := forall t, In t (sol_decs s) -> kids_ok (td_kids t).

Lemma main_loop_deep : forall fuel h iter best st,
  cache_ok st -> heap_all node_deep h ->
  cache_ok (fst (main_loop W lvs child_solve lv fuel h iter best st))
  /\ (forall s, snd (main_loop W lvs child_solve lv fuel h iter best st) = SR_ok s -> sol_kids_ok s).
Proof.
  induction fuel as [|f IH]; intros h iter best st Hst Hh; cbn [main_loop]; [cbn; split; [exact Hst|discriminate]|].
  destruct (heap_pop h) as [[nd h']|] eqn:Epop; [|cbn; split; [exact Hst|discriminate]].
  destruct (heap_pop_all node_deep h nd h' Hh Epop) as (Hnd & Hh').
  destruct (w_iter W <? iter); [cbn; split; [exact Hst|discriminate]|].
  destruct (n_rest nd) as [|r rest] eqn:Hrest.
  - cbn [fst snd]. split; [exact Hst|]. intros s E. injection E as <-. intros t Ht. unfold solution_of_node in Ht. cbn [sol_decs] in Ht.
    apply in_rev in Ht. exact (proj1 Hnd t Ht).
  - destruct (best_at best (N.to_nat (N.pred (n_nli nd))) <? n_pen nd); [apply IH; assumption|].
    destruct (walk_deep (S (length (r :: rest))) (S (length (r :: rest))) nd None best st Hst Hnd I) as (W1 & W2).
    destruct (walk' (S (length (r :: rest))) (S (length (r :: rest))) nd None best st) as [[res best'] st''].
    cbn [fst snd] in *. destruct res as [n|l| |].
    + apply IH; [exact W1|apply heap_push_all; assumption].
    + apply IH; [exact W1|apply heap_extend_all; assumption].
    + apply IH; assumption.
    + cbn. split; [exact W1|discriminate].
Qed.

Lemma find_optimal_solution_deep st ws first :
  Forall rec_from (lv_recs lv) -> cache_ok st ->
  cache_ok (fst (find_optimal_solution W lvs fmain child_solve lv st ws first))
  /\ (forall s, snd (find_optimal_solution W lvs fmain child_solve lv st ws first) = SR_ok s -> sol_kids_ok s).
Proof.
  intros Hrecs Hst. unfold find_optimal_solution. destruct (lv_recs lv) as [|r rest].
  - cbn. split; [exact Hst|]. intros s E. injection E as <-. intros t [].
  - inversion Hrecs as [|? ? Hr Hrest]; subst.
    destruct (match first with FD_Break => _ | FD_Continue line_length can_break => _ end) as [[is_break lll] bcb].
    destruct (_ && negb is_break); [cbn; split; [exact Hst|discriminate]|].
    match goal with |- context [child_lines_solutions W lvs child_solve st ?a ?b ?c ?d ?e ?f ?g ?h ?i ?j] =>
      destruct (child_lines_solutions_deep st a b c d e f g h i j Hr Hst) as (H1 & H2);
      destruct (child_lines_solutions W lvs child_solve st a b c d e f g h i j) as [st1 sols] end.
    cbn [fst snd] in *. apply main_loop_deep; [exact H1|].
    apply heap_extend_all; [exact I|].
    apply Forall_forall. intros n Hn. apply in_map_iff in Hn. destruct Hn as (k & <- & _).
    split; [|exact Hrest].
    intros t [<-|[]]. cbn [td_kids]. unfold last_opt'. destruct (rev sols) as [|kk rr] eqn:Er; [exact kids_ok_nil|].
    rewrite Forall_forall in H2. apply H2. apply in_rev. rewrite Er. left; reflexivity.
Qed.
End Kids.

(* every solution `solve` returns for a line of the file, and everything it caches, has its child solutions, at every depth,
   on lines that the records list as child lines *)
Theorem solve_kids W lvs fmain Pk :
  (forall lv, In lv lvs -> Forall (rec_from Pk) (lv_recs lv)) ->
  forall depth st lv ws first, In lv lvs ->
  cache_ok Pk st ->
  cache_ok Pk (fst (solve W lvs fmain depth st lv ws first))
  /\ (forall s, snd (solve W lvs fmain depth st lv ws first) = Some s -> sol_from Pk s).
Proof.
  intros Hviews. induction depth as [|k IH]; intros st lv ws first Hin Hst; cbn [solve]; [cbn; split; [exact Hst|discriminate]|].
  destruct (find_optimal_solution_deep W lvs fmain Pk (solve W lvs fmain k) (fun st0 lv' ws0 fd Hi H => IH st0 lv' ws0 fd Hi H) lv st ws first (Hviews lv Hin) Hst) as (F1 & F2).
  destruct (find_optimal_solution W lvs fmain (solve W lvs fmain k) lv st ws first) as [st1 res]. cbn [fst snd] in *.
  split; [exact F1|]. intros s E. destruct res as [s1| | |]; try discriminate. injection E as <-.
  constructor. intros t k' s' Ht Hk. exact (F2 s1 eq_refl t Ht k' s' Hk).
Qed.

Lemma cache_ok_init Pk : cache_ok Pk sst_init.
Proof. intros key v []. Qed.

Print Assumptions solve_kids.
