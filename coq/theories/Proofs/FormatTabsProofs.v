(* Proofs/FormatTabsProofs.v — C10 for the composed model.

   format_settings_not_read: the stages in front of the line wrapper (lexer, parser, generics, both line consolidators, both ignorers,
   FormattingData::from, TokenSpacing, LowercaseKeywords, CommentFormatter, EofNewline) do not read the configuration at all: the state
   the wrapper receives is the same for every configuration.
   format_tabs_vs_spaces: two configurations that differ only in use_tabs (ci * tw <= 255), no string re-indentation on this input
   (format_multiline_strings off, or no multi-line literal), the wrap column at least WrapFileProofs.unconstrained_bound for both
   whitespace-unit widths: replacing every LEADING TAB of every line of the use_tabs = true output by tab_width spaces gives exactly the
   use_tabs = false output (expand_leading) — provided the text the formatter does not own has no line-leading tab of its own
   (tabs_clean: no token text starts with a tab or has a tab right after a LF; no ignored token's own whitespace contains a tab;
   decidable; without it the clause is false: such tabs are kept in the use_tabs = false output).
   The wrapper link is WrapFileProofs.olf_model_phase1_indep_wf / olf_model_indep_no_ml_wf (same counters under both unit widths), used
   with `parent earlier` (FormatTotalProofs), not parents_ok; the reconstructor link is ReconstructProofs.indentation_tabs_vs_spaces. *)
From Coq Require Import Lia.
From PasfmtVerif Require Import Model.Format Proofs.FormatProofs Proofs.FormatTotalProofs Proofs.FormatWrapProofs Proofs.FormatIgnoredProofs
  Proofs.FormatContentProofs Proofs.WrapApplyProofs Proofs.ReconstructProofs Proofs.WrapDepthProofs Proofs.WrapFileProofs
  Proofs.FormatRescanProofs Proofs.SpacingProofs.

(* ------------------------------------------------------------------ *)
(* 1. what does not read the configuration *)
Definition pre_wrap_kinds : list kstage :=
  [K_Lexer; K_Parser; K_Generics; K_CondDir; K_Deindent; K_Toggler; K_IgnoreAsm; K_Spacing; K_Lower; K_Comment; K_EofNewline].

Lemma apply_kstage_cfg_indep alnum cfgA cfgB k st : In k pre_wrap_kinds -> apply_kstage alnum cfgA k st = apply_kstage alnum cfgB k st.
Proof. intros H. destruct k; try reflexivity; cbn in H; repeat (destruct H as [H|H]; [discriminate H|]); destruct H. Qed.

Theorem format_settings_not_read alnum cfgA cfgB : forall ks st, incl ks pre_wrap_kinds ->
  run_kinds alnum cfgA ks st = run_kinds alnum cfgB ks st.
Proof.
  induction ks as [|k r IH]; intros st Hin; [reflexivity|]. cbn [run_kinds].
  rewrite (apply_kstage_cfg_indep alnum cfgA cfgB k st (Hin k (or_introl eq_refl))).
  destruct (apply_kstage alnum cfgB k st); [apply IH; intros x Hx; apply Hin; right; exact Hx|reflexivity].
Qed.

Lemma make_formatter_kinds_split : make_formatter_kinds = pre_wrap_kinds ++ [K_Wrap; K_Recon].
Proof. reflexivity. Qed.

(* ------------------------------------------------------------------ *)
(* 2. replacing the leading tabs of every line *)
Fixpoint expand_go (tw : N) (st : bool) (l : bytes) : bytes * bool :=
  match l with
  | [] => ([], st)
  | b :: t => if st && (b =? 9) then let (o, s') := expand_go tw true t in (nrepeat tw [32] ++ o, s')
              else let (o, s') := expand_go tw (b =? 10) t in (b :: o, s')
  end.
(* st = "only tabs so far on this line"; a line ends at LF *)
Definition expand_leading (tw : N) (l : bytes) : bytes := fst (expand_go tw true l).

Lemma expand_go_app tw : forall x st y,
  expand_go tw st (x ++ y) = (fst (expand_go tw st x) ++ fst (expand_go tw (snd (expand_go tw st x)) y), snd (expand_go tw (snd (expand_go tw st x)) y)).
Proof.
  induction x as [|b t IH]; intros st y; cbn [app expand_go fst snd]; [destruct (expand_go tw st y); reflexivity|].
  destruct (st && (b =? 9)).
  - rewrite (IH true y). destruct (expand_go tw true t) as [o s']. cbn [fst snd]. rewrite <- app_assoc. reflexivity.
  - rewrite (IH (b =? 10) y). destruct (expand_go tw (b =? 10) t) as [o s']. cbn [fst snd]. reflexivity.
Qed.

(* text in which no tab is a leading tab, whatever the state it is met in *)
Fixpoint clean_from (prev_lf : bool) (l : bytes) : bool :=
  match l with
  | [] => true
  | b :: t => negb (prev_lf && (b =? 9)) && clean_from (b =? 10) t
  end.
Definition text_clean (c : bytes) : bool := clean_from true c.      (* does not start with a tab, no tab right after a LF *)
Definition no_tab (w : bytes) : bool := forallb (fun b => negb (b =? 9)) w.

Lemma expand_go_clean tw : forall c st, (st = true -> clean_from true c = true) -> clean_from false c = true \/ st = true ->
  clean_from st c = true -> expand_go tw st c = (c, match c with [] => st | _ => (last c 0 =? 10) end).
Proof.
  induction c as [|b t IH]; intros st H1 H2 H3; [reflexivity|]. cbn [expand_go clean_from] in *.
  apply andb_true_iff in H3. destruct H3 as [Hb Ht]. apply negb_true_iff in Hb. rewrite Hb.
  rewrite (IH (b =? 10)); [|intros E; rewrite E in Ht; exact Ht|destruct (b =? 10); [right; reflexivity|left; exact Ht]|exact Ht].
  f_equal. destruct t as [|c t']; reflexivity.
Qed.

Lemma clean_from_weaken : forall c st, clean_from true c = true -> clean_from st c = true.
Proof. intros [|b t] st H; [reflexivity|]. cbn [clean_from] in *. apply andb_true_iff in H. destruct H as [Hb Ht]. rewrite Ht, andb_true_r.
  destruct st; [exact Hb|reflexivity]. Qed.

Lemma expand_text tw c st : text_clean c = true -> fst (expand_go tw st c) = c.
Proof.
  intros H. rewrite (expand_go_clean tw c st); [reflexivity|intros _; exact H| |apply clean_from_weaken, H].
  destruct st; [right; reflexivity|left; apply clean_from_weaken, H].
Qed.

Lemma no_tab_clean_from : forall w st, no_tab w = true -> clean_from st w = true.
Proof.
  induction w as [|b t IH]; intros st H; [reflexivity|]. cbn [no_tab forallb clean_from] in *.
  apply andb_true_iff in H. destruct H as [Hb Ht]. apply negb_true_iff in Hb. rewrite Hb, andb_false_r. cbn. apply IH, Ht.
Qed.
Lemma no_tab_clean w : no_tab w = true -> text_clean w = true.
Proof. apply no_tab_clean_from. Qed.

(* a run of tabs at the start of a line *)
Lemma expand_go_tabs tw : forall x, forallb (fun b => b =? 9) x = true -> expand_go tw true x = (expand_tabs tw x, true).
Proof.
  induction x as [|b t IH]; intros H; [reflexivity|]. cbn [forallb] in H. apply andb_true_iff in H. destruct H as [Hb Ht].
  cbn [expand_go]. rewrite Hb. cbn [andb]. rewrite (IH Ht). unfold expand_tabs. cbn [flat_map]. rewrite Hb. reflexivity.
Qed.

(* the configured line ending: no tab, ends with LF *)
Lemma expand_go_newlines tw nl : (nl = [10] \/ nl = [13; 10]) -> forall k st, (0 < k)%N ->
  expand_go tw st (nrepeat k nl) = (nrepeat k nl, true).
Proof.
  intros Hnl k st Hk. unfold nrepeat. destruct (N.to_nat k) as [|n] eqn:E; [lia|]. clear E Hk. revert st.
  induction n as [|n IH]; intros st.
  - cbn [repeat_app]. rewrite app_nil_r. destruct Hnl as [-> | ->]; cbn; rewrite ?andb_false_r; reflexivity.
  - change (repeat_app (S (S n)) nl) with (nl ++ repeat_app (S n) nl). rewrite expand_go_app.
    assert (H1 : expand_go tw st nl = (nl, true)) by (destruct Hnl as [-> | ->]; cbn; rewrite ?andb_false_r; reflexivity).
    rewrite H1. cbn [fst snd]. rewrite (IH true). reflexivity.
Qed.

Lemma expand_go_spaces tw : forall n st, fst (expand_go tw st (repeat_app n [32])) = repeat_app n [32].
Proof.
  induction n as [|n IH]; intros st; [reflexivity|]. cbn [repeat_app app expand_go]. rewrite andb_false_r.
  change (32 =? 10) with false. specialize (IH false). destruct (expand_go tw false (repeat_app n [32])) as [o s']. cbn [fst] in *. rewrite IH. reflexivity.
Qed.

Lemma expand_go_nspaces tw n st : fst (expand_go tw st (nrepeat n [32])) = nrepeat n [32].
Proof. apply expand_go_spaces. Qed.

Lemma no_tab_nrepeat n s : no_tab s = true -> no_tab (nrepeat n s) = true.
Proof. intros H. unfold nrepeat, no_tab in *. induction (N.to_nat n) as [|k IH]; [reflexivity|]. cbn [repeat_app]. rewrite forallb_app, H, IH. reflexivity. Qed.

(* ------------------------------------------------------------------ *)
(* 3. the reconstructor under the two settings *)
Definition rsT crlf tw ci := rs_of_config crlf true tw ci.
Definition rsS crlf tw ci := rs_of_config crlf false tw ci.

(* counters the wrapper can leave: indentation only on a token that starts a line *)
Definition cnt_ok (f : fmt) : Prop := (0 < f_nl f)%N \/ (f_ind f = 0%N /\ f_cont f = 0%N).
Definition tok_tabs_clean (p : ftoken) : bool :=
  text_clean (t_content (fst p)) && (if f_ignored (snd p) then no_tab (t_ws (fst p)) else true).

Lemma all_tabs_indent crlf tw ci ind cont :
  forallb (fun b => b =? 9) (nrepeat ind (rs_indent (rsT crlf tw ci)) ++ nrepeat cont (rs_cont (rsT crlf tw ci))) = true.
Proof.
  unfold rsT, rs_of_config, rs_new. cbn [rs_indent rs_cont]. rewrite forallb_app.
  assert (H : forall n (s : bytes), forallb (fun b => b =? 9) s = true -> forallb (fun b => b =? 9) (nrepeat n s) = true).
  { intros n s Hs. unfold nrepeat. induction (N.to_nat n) as [|k IH]; [reflexivity|]. cbn [repeat_app]. rewrite forallb_app, Hs, IH. reflexivity. }
  rewrite !H; try reflexivity. apply H. reflexivity.
Qed.

Lemma newline_T_S crlf tw ci : rs_newline (rsT crlf tw ci) = rs_newline (rsS crlf tw ci).
Proof. reflexivity. Qed.

Lemma nl_cases crlf tw ci : rs_newline (rsS crlf tw ci) = [10] \/ rs_newline (rsS crlf tw ci) = [13; 10].
Proof. unfold rsS, rs_of_config, rs_new. cbn [rs_newline]. destruct crlf; [right|left]; reflexivity. Qed.

Lemma no_tab_newline crlf tw ci : no_tab (rs_newline (rsS crlf tw ci)) = true.
Proof. destruct (nl_cases crlf tw ci) as [-> | ->]; reflexivity. Qed.

(* the whitespace in front of one token *)
Lemma emit_ws_expand crlf tw ci mb p st :
  (ci * tw <= 255)%N -> cnt_ok (snd p) -> tok_tabs_clean p = true ->
  fst (expand_go tw st (emit_ws (rsT crlf tw ci) mb p)) = emit_ws (rsS crlf tw ci) mb p
  /\ (snd (expand_go tw st (emit_ws (rsT crlf tw ci) mb p)) = true \/ True).
Proof.
  intros Hs Hc Hcl. split; [|right; exact I]. destruct p as [tok f]. cbn [fst snd] in *. unfold emit_ws.
  unfold tok_tabs_clean in Hcl. cbn [fst snd] in Hcl. apply andb_true_iff in Hcl. destruct Hcl as [_ Hws].
  destruct (f_ignored f).
  - rewrite newline_T_S. apply expand_text. apply no_tab_clean. unfold no_tab in *. rewrite forallb_app, Hws, andb_true_r.
    destruct (mb && negb (has_break (t_ws tok)) && negb (is_eof (t_ty tok))); [apply no_tab_newline|reflexivity].
  - set (nls := if mb && (f_nl f =? 0)%N && negb (is_eof (t_ty tok)) then 1%N else f_nl f).
    rewrite newline_T_S.
    destruct Hc as [Hnl|[Hi Hco]].
    + (* starts a line *)
      assert (Hk : (0 < nls)%N) by (subst nls; destruct (mb && (f_nl f =? 0)%N && negb (is_eof (t_ty tok))); lia).
      rewrite expand_go_app, (expand_go_newlines tw _ (nl_cases crlf tw ci) nls st Hk). cbn [fst snd].
      rewrite (app_assoc (nrepeat (f_ind f) (rs_indent (rsT crlf tw ci)))), expand_go_app, (expand_go_tabs tw _ (all_tabs_indent crlf tw ci (f_ind f) (f_cont f))). cbn [fst snd].
      unfold rsT, rsS. rewrite (indentation_tabs_vs_spaces crlf tw ci (f_ind f) (f_cont f) Hs), expand_go_nspaces, <- app_assoc. reflexivity.
    + rewrite Hi, Hco, !nrepeat_0. cbn [app].
      apply expand_text. apply no_tab_clean. unfold no_tab. rewrite forallb_app. apply andb_true_iff. split.
      * apply no_tab_nrepeat, no_tab_newline.
      * apply no_tab_nrepeat. reflexivity.
Qed.

Theorem recon_expand crlf tw ci : (ci * tw <= 255)%N -> forall l mb st,
  Forall (fun p => cnt_ok (snd p)) l -> forallb tok_tabs_clean l = true ->
  fst (expand_go tw st (recon (rsT crlf tw ci) mb l)) = recon (rsS crlf tw ci) mb l.
Proof.
  intros Hs. induction l as [|p r IH]; intros mb st Hc Hcl; [reflexivity|].
  inversion Hc as [|? ? Hc1 Hc2]; subst. cbn [forallb] in Hcl. apply andb_true_iff in Hcl. destruct Hcl as [Hp Hr].
  cbn [recon]. rewrite expand_go_app. cbn [fst].
  rewrite (proj1 (emit_ws_expand crlf tw ci mb p st Hs Hc1 Hp)). f_equal.
  rewrite expand_go_app. cbn [fst].
  assert (Ht : text_clean (t_content (fst p)) = true) by (unfold tok_tabs_clean in Hp; apply andb_true_iff in Hp; exact (proj1 Hp)).
  rewrite (expand_text tw _ _ Ht). f_equal. apply IH; assumption.
Qed.

(* ------------------------------------------------------------------ *)
(* 4. the wrapper leaves indentation only on tokens that start a line *)
Lemma apply_decision_cnt f d : cnt_ok (apply_decision f d).
Proof.
  destruct d as [first ind cont|]; unfold cnt_ok; cbn; [left|right; split; reflexivity].
  destruct first; [|lia]. unfold clamp12. destruct (N.ltb_spec (f_nl f) 1); [lia|]. destruct (N.ltb_spec 2 (f_nl f)); lia.
Qed.

Lemma olf_effect_cnt rs fm visits plan1 plan2 l i q :
  (forall j p, nth_error l j = Some p -> cnt_ok (snd p)) ->
  nth_error (olf_effect rs fm visits plan1 plan2 l) i = Some q -> cnt_ok (snd q).
Proof.
  intros Hl. unfold olf_effect.
  assert (Hplan : forall plan x, (forall j p, nth_error x j = Some p -> cnt_ok (snd p)) -> forall j p, nth_error (apply_plan plan x) j = Some p -> cnt_ok (snd p)).
  { intros plan x Hx j. exact (apply_plan_keep cnt_ok plan x j apply_decision_cnt (fun q Hq => Hx j q Hq)). }
  assert (Hz : forall x, (forall j p, nth_error x j = Some p -> cnt_ok (snd p)) -> forall j p, nth_error (zero_line_starts x) j = Some p -> cnt_ok (snd p)).
  { unfold zero_line_starts. induction x as [|[tok f] r IHx]; intros Hx j p Hp; [destruct j; discriminate Hp|].
    destruct j as [|j]; cbn [map nth_error] in Hp.
    - specialize (Hx O (tok, f) eq_refl). cbn [snd] in Hx. destruct (0 <? f_nl f)%N; injection Hp as <-; exact Hx.
    - exact (IHx (fun j' p' H' => Hx (S j') p' H') j p Hp). }
  set (a := zero_line_starts (apply_plan plan1 l)).
  assert (Ha : forall j p, nth_error a j = Some p -> cnt_ok (snd p)) by (apply Hz, Hplan, Hl).
  destruct fm; [|apply Ha].
  pose proof (ml_fold_snd rs visits (a, false) ) as Hb. fold (ml_stage rs visits a) in Hb.
  destruct (ml_stage rs visits a) as [b reflowed]. cbn [fst] in Hb.
  assert (Hbb : forall j p, nth_error b j = Some p -> cnt_ok (snd p)).
  { intros j p Hp. destruct (Hb j p Hp) as (p0 & Hp0 & E). rewrite <- E. exact (Ha j p0 Hp0). }
  destruct reflowed; [|apply Hbb].
  intros Hq. set (c := apply_plan plan2 b) in *.
  assert (Hc : forall j p, nth_error c j = Some p -> cnt_ok (snd p)) by (apply Hplan, Hbb).
  revert Hq. generalize (map (fun p : ftoken => f_sp (snd p)) l). intros sp. revert i sp.
  induction c as [|[tok f] r IH]; intros i sp Hq; [destruct sp; destruct i; discriminate|].
  destruct sp as [|s ss]; [exact (Hc i q Hq)|]. cbn [respace] in Hq. destruct i as [|i]; cbn [nth_error] in Hq.
  - injection Hq as <-. exact (Hc O (tok, f) eq_refl).
  - apply (IH (fun j p H => Hc (S j) p H) i ss Hq).
Qed.

(* ------------------------------------------------------------------ *)
(* 5. the vector handed to the wrapper carries no indentation yet *)
Definition flat (f : fmt) : Prop := f_ind f = 0%N /\ f_cont f = 0%N.

Lemma comment_tok_fmt alnum tok f : snd (comment_tok alnum (tok, f)) = f.
Proof.
  unfold comment_tok. destruct (f_ignored f); [reflexivity|].
  match goal with |- context [match ?r with Some _ => _ | None => _ end] => destruct r end; reflexivity.
Qed.

Lemma fm_l4_flat alnum segs j p : nth_error (fm_l4 alnum segs) j = Some p -> flat (snd p).
Proof.
  (* EofNewline *)
  assert (He : forall lines (l : list ftoken), (forall j (p : ftoken), nth_error l j = Some p -> flat (snd p)) -> forall j (p : ftoken), nth_error (eof_newline_lines lines l) j = Some p -> flat (snd p)).
  { unfold eof_newline_lines. induction lines as [|ln r IH]; intros l Hl; cbn [fold_left]; [exact Hl|]. apply IH.
    unfold bid. destruct (ll_type ln); try exact Hl. unfold eof_newline_once. destruct (rev l) as [|[tok f] r0] eqn:E; [exact Hl|].
    destruct (is_eof (t_ty tok)); [|exact Hl].
    assert (El : l = rev r0 ++ [(tok, f)]) by (rewrite <- (rev_involutive l), E; reflexivity).
    intros j0 p0 Hp0. destruct (PeanoNat.Nat.lt_ge_cases j0 (length (rev r0))) as [Hlt|Hge].
    - rewrite nth_error_app1 in Hp0 by exact Hlt. apply (Hl j0). rewrite El, nth_error_app1 by exact Hlt. exact Hp0.
    - rewrite nth_error_app2 in Hp0 by exact Hge. destruct (j0 - length (rev r0))%nat as [|k]; cbn in Hp0; [|destruct k; discriminate Hp0].
      injection Hp0 as <-. split; reflexivity. }
  unfold fm_l4. apply He. clear j p. intros j p Hp.
  unfold fm_l3, fm_l2, fm_l1, comment_formatter, lowercase_keywords in Hp. rewrite !nth_error_map in Hp.
  destruct (nth_error (token_spacing (fm_l0 segs)) j) as [[t1 f1]|] eqn:E1; [|discriminate Hp]. cbn [option_map] in Hp.
  assert (Hp' : p = comment_tok alnum (lowercase_tok (t1, f1))) by congruence. subst p. clear Hp.
  destruct (lowercase_tok (t1, f1)) as [t2 f2] eqn:E2. rewrite comment_tok_fmt.
  assert (Hf2 : f2 = f1) by (change f2 with (snd (t2, f2)); rewrite <- E2; apply FormatRescanProofs.lowercase_tok_fmt). subst f2.
  (* spacing: only the space counter *)
  pose proof (SpacingProofs.spacing_only_sp (fm_l0 segs)) as Hsp.
  assert (G : forall a b, Forall2 SpacingProofs.same_but_sp a b -> forall j q, nth_error a j = Some q -> exists q0, nth_error b j = Some q0 /\ f_ind (snd q) = f_ind (snd q0) /\ f_cont (snd q) = f_cont (snd q0)).
  { induction 1 as [|x y a b (Hf & n & Hs) _ IH]; intros j0 q Hq; [destruct j0; discriminate Hq|]. destruct j0 as [|j0]; cbn [nth_error] in *.
    - injection Hq as <-. exists y. split; [reflexivity|]. rewrite Hs. destruct (snd y); split; reflexivity.
    - exact (IH j0 q Hq). }
  destruct (G _ _ Hsp j (t1, f1) E1) as (q0 & H0 & Hi & Hc). cbn [snd] in Hi, Hc.
  unfold fm_l0 in H0. rewrite nth_error_map in H0. destruct (nth_error (combine (fm_toks segs) (fm_marks segs)) j) as [[tk m]|]; [|discriminate H0].
  cbn in H0. injection H0 as <-. cbn [snd] in *. split; [rewrite Hi|rewrite Hc]; reflexivity.
Qed.

Lemma fm_final_cnt alnum cfg segs j q : nth_error (fm_final alnum cfg segs) j = Some q -> cnt_ok (snd q).
Proof.
  unfold fm_final, fm_wrap. destruct (olf_model_is_effect (cfg_rs cfg) (cfg_ws cfg) (c_fms cfg) (fm_lines segs) (fm_l4 alnum segs)) as (p1 & p2 & ->).
  apply olf_effect_cnt. intros j0 p Hp. right. exact (fm_l4_flat alnum segs j0 p Hp).
Qed.

(* ------------------------------------------------------------------ *)
(* 6. C10, end to end *)
Definition with_tabs (cfg : fconfig) (b : bool) : fconfig :=
  mkCfg (c_wrap cfg) (c_begin_always cfg) (c_fms cfg) b (c_tab_width cfg) (c_cont cfg) (c_crlf cfg).

Definition width_unconstrained alnum (cfg : fconfig) (segs : list seg) : Prop :=
  (unconstrained_bound (map tokinfo_of (fm_l4 alnum segs)) (fm_lines segs) (w_indw (cfg_ws cfg)) (w_contw (cfg_ws cfg)) <= c_wrap cfg)%N.

Definition tabs_hyp alnum (cfg : fconfig) (segs : list seg) : Prop :=
  (c_cont cfg * c_tab_width cfg <= 255)%N
  /\ no_ml_rewrite cfg segs
  /\ width_unconstrained alnum (with_tabs cfg true) segs /\ width_unconstrained alnum (with_tabs cfg false) segs
  /\ forallb tok_tabs_clean (fm_final alnum (with_tabs cfg false) segs) = true.

Lemma fm_l4_no_ml alnum segs : (forall tok, In tok (fm_toks segs) -> is_ml_string (t_ty tok) = false) -> no_ml (fm_l4 alnum segs).
Proof.
  intros H p Hp. apply In_nth_error in Hp. destruct Hp as (j & Hj).
  assert (Hrel : pointwise stage_rel (fm_l0 segs) (fm_l4 alnum segs)).
  { unfold fm_l4, fm_l3, fm_l2, fm_l1. eapply pointwise_trans; [exact stage_rel_trans|apply spacing_stage|].
    eapply pointwise_trans; [exact stage_rel_trans|apply pointwise_map, lowercase_tok_stage|].
    eapply pointwise_trans; [exact stage_rel_trans|apply pointwise_map, comment_tok_stage|]. apply eof_newline_lines_stage. }
  assert (Hlt : (j < length (fm_l0 segs))%nat) by (rewrite <- (proj1 Hrel); apply nth_error_Some; congruence).
  destruct (nth_error (fm_l0 segs) j) as [p0|] eqn:E0; [|apply nth_error_None in E0; lia].
  destruct (proj2 Hrel j p0 E0) as (q & Hq & T & _). rewrite Hj in Hq. injection Hq as <-. rewrite T.
  unfold fm_l0 in E0. rewrite nth_error_map in E0. destruct (nth_error (combine (fm_toks segs) (fm_marks segs)) j) as [[tk m]|] eqn:Ec; [|discriminate E0].
  cbn in E0. injection E0 as <-. cbn [fst]. apply H. apply nth_error_In in Ec. apply in_combine_l in Ec. exact Ec.
Qed.

Theorem fm_final_tabs_indep alnum cfg segs :
  no_ml_rewrite cfg segs -> width_unconstrained alnum (with_tabs cfg true) segs -> width_unconstrained alnum (with_tabs cfg false) segs ->
  fm_final alnum (with_tabs cfg true) segs = fm_final alnum (with_tabs cfg false) segs.
Proof.
  intros Hn HT HS. unfold fm_final, fm_wrap. cbn [with_tabs c_fms].
  assert (Hwf : views_wf (mk_lviews (map tokinfo_of (fm_l4 alnum segs)) (fm_lines segs))) by (apply mk_lviews_wf_weak, fm_lines_parents_before).
  destruct (c_fms cfg) eqn:Ef.
  - destruct Hn as [Hn|Hn]; [congruence|].
    exact (proj1 (olf_model_indep_no_ml_wf (cfg_rs (with_tabs cfg true)) (cfg_rs (with_tabs cfg false)) (cfg_ws (with_tabs cfg true)) (cfg_ws (with_tabs cfg false))
                   (fm_lines segs) (fm_l4 alnum segs) eq_refl eq_refl Hwf (fm_l4_no_ml alnum segs Hn) HT HS)).
  - exact (proj1 (olf_model_phase1_indep_wf (cfg_rs (with_tabs cfg true)) (cfg_rs (with_tabs cfg false)) (cfg_ws (with_tabs cfg true)) (cfg_ws (with_tabs cfg false))
                   (fm_lines segs) (fm_l4 alnum segs) eq_refl eq_refl Hwf HT HS)).
Qed.

Theorem format_tabs_vs_spaces alnum cfg s outT :
  format_model alnum (with_tabs cfg true) s = inl outT ->
  (forall segs, lex_segments s = Some segs -> tabs_hyp alnum cfg segs) ->
  format_model alnum (with_tabs cfg false) s = inl (expand_leading (c_tab_width cfg) outT).
Proof.
  intros H Hh. apply format_model_spec in H. destruct H as (segs & Hl & Hp & _ & _ & ->).
  destruct (Hh segs Hl) as (Hs & Hn & HT & HS & Hcl).
  rewrite (format_total_if_parsed alnum (with_tabs cfg false) s segs Hl Hp). f_equal.
  unfold fm_out, reconstruct, expand_leading. rewrite (fm_final_tabs_indep alnum cfg segs Hn HT HS).
  symmetry. apply (recon_expand (c_crlf cfg) (c_tab_width cfg) (c_cont cfg) Hs); [|exact Hcl].
  apply Forall_forall. intros p Hp0. apply In_nth_error in Hp0. destruct Hp0 as (j & Hj). exact (fm_final_cnt alnum _ segs j p Hj).
Qed.

Print Assumptions format_settings_not_read.
Print Assumptions format_tabs_vs_spaces.

(* ------------------------------------------------------------------ *)
(* 7. the hypothesis is decidable; non-vacuity *)
Definition width_unconstrainedb alnum (cfg : fconfig) (segs : list seg) : bool :=
  (unconstrained_bound (map tokinfo_of (fm_l4 alnum segs)) (fm_lines segs) (w_indw (cfg_ws cfg)) (w_contw (cfg_ws cfg)) <=? c_wrap cfg)%N.

Definition tabs_hypb alnum (cfg : fconfig) (segs : list seg) : bool :=
  (c_cont cfg * c_tab_width cfg <=? 255)%N
  && (negb (c_fms cfg) || forallb (fun tok => negb (is_ml_string (t_ty tok))) (fm_toks segs))
  && width_unconstrainedb alnum (with_tabs cfg true) segs && width_unconstrainedb alnum (with_tabs cfg false) segs
  && forallb tok_tabs_clean (fm_final alnum (with_tabs cfg false) segs).

Lemma tabs_hypb_ok alnum cfg segs : tabs_hypb alnum cfg segs = true -> tabs_hyp alnum cfg segs.
Proof.
  unfold tabs_hypb, tabs_hyp. intros H.
  apply andb_true_iff in H. destruct H as [H H5]. apply andb_true_iff in H. destruct H as [H H4].
  apply andb_true_iff in H. destruct H as [H H3]. apply andb_true_iff in H. destruct H as [H1 H2].
  split; [apply N.leb_le; exact H1|]. split.
  - apply orb_true_iff in H2. destruct H2 as [H2|H2].
    + left. destruct (c_fms cfg); [discriminate|reflexivity].
    + right. intros tok Hin. rewrite forallb_forall in H2. specialize (H2 tok Hin). apply negb_true_iff in H2. exact H2.
  - split; [apply N.leb_le; exact H3|]. split; [apply N.leb_le; exact H4|exact H5].
Qed.

(* "BEGIN x:=1; END." at tab_width 4, continuation_indents 2, wrap column 10^6 *)
Example format_tabs_vs_spaces_example :
  let s := [66;69;71;73;78; 32; 120; 58;61; 49; 59; 32; 69;78;68; 46]%N in
  let cfg := mkCfg 1000000 false true false 4 2 false in
  match lex_segments s with
  | Some segs => tabs_hypb (fun _ => false) cfg segs = true
  | None => False
  end
  /\ format_model (fun _ => false) (with_tabs cfg true) s = inl [98;101;103;105;110; 10; 9; 120; 32; 58;61; 32; 49; 59; 10; 101;110;100; 46; 10]%N
  /\ format_model (fun _ => false) (with_tabs cfg false) s = inl [98;101;103;105;110; 10; 32;32;32;32; 120; 32; 58;61; 32; 49; 59; 10; 101;110;100; 46; 10]%N
  /\ expand_leading 4 [98;101;103;105;110; 10; 9; 120; 32; 58;61; 32; 49; 59; 10; 101;110;100; 46; 10]%N
     = [98;101;103;105;110; 10; 32;32;32;32; 120; 32; 58;61; 32; 49; 59; 10; 101;110;100; 46; 10]%N.
Proof. vm_compute. repeat split; reflexivity. Qed.

(* without tabs_clean the clause is false: a block comment with a tab-indented interior line keeps its tab under use_tabs = false *)
Example tabs_clean_needed :
  let s := [123; 10; 9; 120; 125]%N in      (* "{\n\tx}" *)
  let cfg := mkCfg 1000000 false true false 4 2 false in
  exists oT oS, format_model (fun _ => false) (with_tabs cfg true) s = inl oT /\ format_model (fun _ => false) (with_tabs cfg false) s = inl oS
                /\ expand_leading 4 oT <> oS.
Proof. eexists _, _. split; [vm_compute; reflexivity|]. split; [vm_compute; reflexivity|]. vm_compute. discriminate. Qed.
