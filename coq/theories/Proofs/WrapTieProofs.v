(* Proofs/WrapTieProofs.v — finding F43 on the search model: two solutions of EQUAL penalty, both within the narrower limit,
   and the limit decides which one the search returns.
   Witness (tools/trace2coq.py, from the implementation's trace of the input in known_findings.json, F43):
     begin begin begin begin
       while Self(not TList<string[10]>.Create)(Value.Resumeee[TMap<string[1 shl 3], Integer>.Create]) do begin end;
     end; end; end; end.
   use_tabs, continuation_indents = 1 (both whitespace units are one byte wide), begin_style = always_wrap.
   At max_line_length 70 the `while` line (line 4) breaks after `[`; at 73 before `(Value`.  Both solutions have penalty 12, and
   every length measured in either run is at most 70: clause 1 of C11 ("if the result for the wider limit fits the narrower
   one, the narrower one gives the same result") is false of the search as it is — it is a pruned best-first search whose
   choice among equally valued solutions follows the order of exploration. *)
From PasfmtVerif Require Import Model.WrapSearch Model.WrapFormat.

Definition tie_infos : list tokinfo :=
  [mkTI (TT_Keyword KK_Begin) 0 5 None;
   mkTI (TT_Keyword KK_Begin) 1 5 None;
   mkTI (TT_Keyword KK_Begin) 1 5 None;
   mkTI (TT_Keyword KK_Begin) 1 5 None;
   mkTI (TT_Keyword KK_While) 1 5 None;
   mkTI TT_Identifier 1 4 None;
   mkTI (TT_Op OK_LParen) 0 1 None;
   mkTI (TT_Keyword KK_Not) 0 3 None;
   mkTI TT_Identifier 1 5 None;
   mkTI (TT_Op (OK_LessThan ChK_Generic)) 0 1 None;
   mkTI (TT_Keyword KK_String) 0 6 None;
   mkTI (TT_Op OK_LBrack) 0 1 None;
   mkTI (TT_NumberLiteral NK_Decimal) 0 2 None;
   mkTI (TT_Op OK_RBrack) 0 1 None;
   mkTI (TT_Op (OK_GreaterThan ChK_Generic)) 0 1 None;
   mkTI (TT_Op OK_Dot) 0 1 None;
   mkTI TT_Identifier 0 6 None;
   mkTI (TT_Op OK_RParen) 0 1 None;
   mkTI (TT_Op OK_LParen) 0 1 None;
   mkTI TT_Identifier 0 5 None;
   mkTI (TT_Op OK_Dot) 0 1 None;
   mkTI TT_Identifier 0 8 None;
   mkTI (TT_Op OK_LBrack) 0 1 None;
   mkTI TT_Identifier 0 4 None;
   mkTI (TT_Op (OK_LessThan ChK_Generic)) 0 1 None;
   mkTI (TT_Keyword KK_String) 0 6 None;
   mkTI (TT_Op OK_LBrack) 0 1 None;
   mkTI (TT_NumberLiteral NK_Decimal) 0 1 None;
   mkTI (TT_Keyword KK_Shl) 1 3 None;
   mkTI (TT_NumberLiteral NK_Decimal) 1 1 None;
   mkTI (TT_Op OK_RBrack) 0 1 None;
   mkTI (TT_Op OK_Comma) 0 1 None;
   mkTI TT_Identifier 1 7 None;
   mkTI (TT_Op (OK_GreaterThan ChK_Generic)) 0 1 None;
   mkTI (TT_Op OK_Dot) 0 1 None;
   mkTI TT_Identifier 0 6 None;
   mkTI (TT_Op OK_RBrack) 0 1 None;
   mkTI (TT_Op OK_RParen) 0 1 None;
   mkTI (TT_Keyword KK_Do) 1 2 None;
   mkTI (TT_Keyword KK_Begin) 1 5 None;
   mkTI (TT_Keyword KK_End) 1 3 None;
   mkTI (TT_Op OK_Semicolon) 0 1 None;
   mkTI (TT_Keyword KK_End) 1 3 None;
   mkTI (TT_Op OK_Semicolon) 0 1 None;
   mkTI (TT_Keyword KK_End) 1 3 None;
   mkTI (TT_Op OK_Semicolon) 0 1 None;
   mkTI (TT_Keyword KK_End) 1 3 None;
   mkTI (TT_Op OK_Semicolon) 0 1 None;
   mkTI (TT_Keyword KK_End) 1 3 None;
   mkTI (TT_Op OK_Dot) 0 1 None;
   mkTI TT_Eof 0 0 None].
Definition tie_lines : list lline :=
  [mkLine LLT_Unknown 0 None [0]%nat;
   mkLine LLT_Unknown 1 None [1]%nat;
   mkLine LLT_Unknown 2 None [2]%nat;
   mkLine LLT_Unknown 3 None [3]%nat;
   mkLine LLT_Unknown 4 None [4; 5; 6; 7; 8; 9; 10; 11; 12; 13; 14; 15; 16; 17; 18; 19; 20; 21; 22; 23; 24; 25; 26; 27; 28; 29; 30; 31; 32; 33; 34; 35; 36; 37; 38]%nat;
   mkLine LLT_Unknown 1 (Some (4, 38)%nat) [39]%nat;
   mkLine LLT_Unknown 1 (Some (4, 38)%nat) [40; 41]%nat;
   mkLine LLT_Unknown 3 None [42; 43]%nat;
   mkLine LLT_Unknown 2 None [44; 45]%nat;
   mkLine LLT_Unknown 1 None [46; 47]%nat;
   mkLine LLT_Unknown 0 None [48; 49]%nat;
   mkLine LLT_Eof 0 None [50]%nat].

Definition tie_W (w : N) : wsettings := mkWS w 20000 true 1 1.

(* the outcome the search logs for a top-level line (the last one, as each is searched once per phase) *)
Definition penalty_of (st : sst) (line : nat) : option N :=
  fold_left (fun acc e => match e with
                          | Ev_S l (WS_ok p _ _) => if Nat.eqb l line then Some p else acc
                          | _ => acc
                          end) (rev (ss_log st)) None.
Definition decisions_of (st : sst) : list (N * option (bool * N * N)) :=
  flat_map (fun e => match e with Ev_D t d _ _ => [(t, d)] | _ => [] end) (rev (ss_log st)).
Definition lengths_of (st : sst) : list N :=
  flat_map (fun e => match e with Ev_D _ _ lll _ => [lll] | _ => [] end) (rev (ss_log st)).
Definition dec_eqb (a b : N * option (bool * N * N)) : bool :=
  (fst a =? fst b)%N &&
  match snd a, snd b with
  | None, None => true
  | Some (f, i, c), Some (f', i', c') => Bool.eqb f f' && (i =? i')%N && (c =? c')%N
  | _, _ => false
  end.
Fixpoint decs_eqb (a b : list (N * option (bool * N * N))) : bool :=
  match a, b with
  | [], [] => true
  | x :: a', y :: b' => dec_eqb x y && decs_eqb a' b'
  | _, _ => false
  end.

Definition tie_narrow : sst := wrap_phase1 (tie_W 70) tie_infos tie_lines.
Definition tie_wide : sst := wrap_phase1 (tie_W 73) tie_infos tie_lines.

Theorem equal_penalty_solutions_chosen_by_limit :
  ss_fuel_err tie_narrow = false /\ ss_fuel_err tie_wide = false /\
  penalty_of tie_narrow 4 = Some 12%N /\ penalty_of tie_wide 4 = Some 12%N /\
  forallb (fun l => (l <=? 70)%N) (lengths_of tie_narrow) = true /\
  forallb (fun l => (l <=? 70)%N) (lengths_of tie_wide) = true /\
  decs_eqb (decisions_of tie_narrow) (decisions_of tie_wide) = false.
Proof. vm_compute. repeat split; reflexivity. Qed.

(* where they differ: token 22 (`[`) is followed by a break at 70, token 18 (`(`) starts a line at 73 *)
Example tie_break_positions :
  In (23%N, Some (false, 4%N, 1%N)) (decisions_of tie_narrow) /\ In (23%N, None) (decisions_of tie_wide) /\
  In (18%N, None) (decisions_of tie_narrow) /\ In (18%N, Some (false, 4%N, 1%N)) (decisions_of tie_wide).
Proof. vm_compute. intuition. Qed.
