(* Proofs/FragmentProofs.v — the grammar model on a fragment of well-formed Delphi (Model/Fragment.v):
   for EVERY well-formed program of the fragment (any nesting depth, any number of statements) the model ends
   without error and produces exactly the expected logical lines.  Proof: symbolic execution of `run` on
   states of the shape `ST` (finished lines, one current line that is the last line, on top of a fixed rest
   `stk` of the current_line stack: the "frame") and, where the current line is not the last line (after a
   child line context has returned to its header line, on the arm lines of a case statement), of the shape
   `GS`; effect lemmas for the primitives.  A statement is executed at a POSITION: a context stack X with the
   context-ending test as a function E of the current token (`Pos`); `Pcore c` says what parse_structures does
   on the statement c at any position, up to its finished last line, by induction on c — the body of an
   if/while/case arm is the same statement at the position with a child line context on top (`pos_child`,
   `child_run` crosses from the frame of the header line to the frame of its child lines and back).  `Plist`
   is the statement-list loop of a block (generic in the kind of the block), `Parms` the loop over the arms
   of a case statement, `Phand` the loop over the handlers of an except block.  Tokens: while the pass index is k the
   state holds `mix k` (final types before k, lexed types from k on); re-typed tokens: `on` of a handler, and in the
   declaration sections `var`/`const` (DeclKind Section) and the `=` of a constant (EqKind Decl).
   Declaration sections in front of the main block (`member_run`, `members_run`, `section_run`, `decls_run`,
   `unit_run`, at the end of Section Frag): the theorems about units are in Proofs/FragmentUnitProofs.v. *)
From PasfmtVerif Require Import Model.Fragment Model.DirectiveTree Proofs.DirectiveTreeProofs Proofs.ParserKernelProofs Proofs.ParserGrammarProofs
  Proofs.ParserGrammarTypesProofs Proofs.ParserGrammarCoverProofs Proofs.ParserGrammarEofProofs Proofs.FragmentStructProofs.
Local Open Scope nat_scope.

Definition plain (t : RawTokenType) : Prop :=
  match t with
  | RTT_Identifier | RTT_Op OK_Semicolon | RTT_Op OK_Assign | RTT_Op OK_Dot | RTT_Keyword KK_Begin | RTT_Keyword KK_End
  | RTT_Keyword KK_Repeat | RTT_Keyword KK_Until | RTT_Keyword KK_Try | RTT_Keyword KK_Finally | RTT_Keyword KK_Except
  | RTT_Keyword KK_If | RTT_Keyword KK_Then | RTT_Keyword KK_Else | RTT_Keyword KK_While | RTT_Keyword KK_Do
  | RTT_Keyword KK_Case | RTT_Keyword KK_Of | RTT_Op OK_Colon | RTT_IdentifierOrKeyword KK_On | RTT_Keyword KK_On
  | RTT_Keyword (KK_Var _) | RTT_Keyword (KK_Const _) | RTT_Op (OK_Equal _)
  | RTT_Keyword KK_Type | RTT_Keyword KK_Record | RTT_Keyword KK_Class | RTT_IdentifierOrKeyword KK_Private | RTT_Keyword KK_Private
  | RTT_IdentifierOrKeyword KK_Public | RTT_Keyword KK_Public | RTT_Eof => True
  | _ => False
  end.

Lemma nth_error_seq0 n k : k < n -> nth_error (seq 0 n) k = Some k.
Proof. intros H. rewrite nth_error_nth' with (d := 0) by (rewrite seq_length; exact H). rewrite seq_nth by exact H. reflexivity. Qed.
Lemma nth_app_last {A} (l : list A) a d : nth (length l) (l ++ [a]) d = a.
Proof. rewrite app_nth2, Nat.sub_diag by lia. reflexivity. Qed.
Lemma upd_nth_app_last {A} (f : A -> A) l a : upd_nth (length l) f (l ++ [a]) = l ++ [f a].
Proof. induction l as [|x l IH]; cbn; [reflexivity|]. rewrite IH. reflexivity. Qed.
Lemma upd_nth_app_l {A} (f : A -> A) i l r : i < length l -> upd_nth i f (l ++ r) = upd_nth i f l ++ r.
Proof. revert i. induction l as [|x l IH]; intros [|i] H; cbn in *; try lia; [reflexivity|]. rewrite IH by lia. reflexivity. Qed.

Lemma skipn_seq m : forall z n, skipn m (seq z n) = seq (z + m) (n - m).
Proof.
  induction m as [|m IH]; intros z n; [rewrite Nat.add_0_r, Nat.sub_0_r; reflexivity|].
  destruct n as [|n]; [reflexivity|]. cbn [seq skipn]. rewrite IH. replace (S z + m) with (z + S m) by lia. reflexivity.
Qed.

Ltac len_tac := repeat (first [rewrite app_length | rewrite map_length | progress cbn [length]]); lia.
Scheme stmt_mut := Induction for stmt Sort Prop with stmts_mut := Induction for stmts Sort Prop
  with arms_mut := Induction for arms Sort Prop with handlers_mut := Induction for handlers Sort Prop.

(* the lines of the arms of a case statement (Fragment.arms_lines) split at the `end`/`else` line: the lines
   before it, the index of that line, and the child lines owed by the last arm *)
Fixpoint arms_pre (par : option (nat * nat)) (d : Z) (k li : nat) (a : arms) (pend : nat -> list lline) : list lline :=
  match a with
  | ANil => []
  | ACons c a' =>
      let e := k + 2 + length (render_stmt c) in
      mkLine LLT_CaseArm (lvl (d + 1)) par [k; k + 1] :: pend (li + 1)
      ++ arms_pre par d (e + 1) (li + 1 + length (pend (li + 1))) a' (fun i => sexpected (Some (li, k + 1)) 1 (k + 2) i [e] c ++ [stray])
  end.
Fixpoint arms_li (k li : nat) (a : arms) (pend : nat -> list lline) : nat :=
  match a with
  | ANil => li
  | ACons c a' =>
      let e := k + 2 + length (render_stmt c) in
      arms_li (e + 1) (li + 1 + length (pend (li + 1))) a' (fun i => sexpected (Some (li, k + 1)) 1 (k + 2) i [e] c ++ [stray])
  end.
Fixpoint arms_pend (k li : nat) (a : arms) (pend : nat -> list lline) : nat -> list lline :=
  match a with
  | ANil => pend
  | ACons c a' =>
      let e := k + 2 + length (render_stmt c) in
      arms_pend (e + 1) (li + 1 + length (pend (li + 1))) a' (fun i => sexpected (Some (li, k + 1)) 1 (k + 2) i [e] c ++ [stray])
  end.
Lemma arms_lines_eq : forall a par d k li pend tail,
  arms_lines par d k li a pend tail
  = arms_pre par d k li a pend ++ tail (k + length (render_arms a)) (arms_li k li a pend) (arms_pend k li a pend (arms_li k li a pend + 1)).
Proof.
  induction a as [|c a IH]; intros par d k li pend tail; cbn [arms_lines arms_pre arms_li arms_pend render_arms length app]; cbv zeta.
  - rewrite Nat.add_0_r. reflexivity.
  - rewrite IH. rewrite <- app_assoc. cbn [app]. do 3 f_equal.
    rewrite app_length. cbn [length]. f_equal. lia.
Qed.
Lemma arms_li_eq : forall a par d k li pend, arms_li k li a pend = li + length (arms_pre par d k li a pend).
Proof.
  induction a as [|c a IH]; intros par d k li pend; cbn [arms_pre arms_li length]; cbv zeta; [lia|].
  rewrite (IH par d). rewrite app_length. lia.
Qed.


Section Frag.
Variable T : list RawTokenType.
Hypothesis Tplain : Forall plain T.
Notation n := (length T).
Notation pass := (seq 0 (length T)).
Notation pstate := (pstate pass).

(* everything but the kernel core *)
Definition restv (s : pstate) :=
  (ps_toks pass s, ps_ctx pass s, ps_unfinished pass s, ps_cur_unfinished pass s,
   (ps_paren pass s, ps_brack pass s, ps_generic pass s), ps_attr pass s, ps_err pass s).
Definition levels := (N * N * N)%type.

(* the tokens the parser re-types (contextual keywords in keyword position): `fin` is the final type; while the
   pass index is k the tokens before k have their final types, the tokens from k on are as lexed *)
Definition fin (t : RawTokenType) : RawTokenType := retype t.
Definition mix (r : nat) : list RawTokenType := map fin (firstn r T) ++ skipn r T.
Definition tokfin (k : nat) : Prop := exists t, nth_error T k = Some t /\ fin t = t.
Lemma tokfin_lt k : tokfin k -> k < n.
Proof. intros (t & H & _). apply nth_error_Some. congruence. Qed.
Lemma mix_nth_ge r i : r <= i -> nth_error (mix r) i = nth_error T i.
Proof.
  intros H. unfold mix. rewrite <- (firstn_skipn r T) at 3.
  assert (Hl : length (firstn r T) <= i) by (rewrite firstn_length; lia).
  rewrite !nth_error_app2 by (rewrite ?map_length; exact Hl). rewrite map_length. reflexivity.
Qed.
Lemma fin_plain t : plain t -> plain (fin t).
Proof.
  destruct t as [o| |k0|k0| | | | | | |]; try exact (fun H => H).
  - destruct o; try exact (fun H => H). destruct k; exact (fun H => H).
  - destruct k0; exact (fun H => H).
  - destruct k0; try exact (fun H => H); match goal with d : DeclKind |- _ => destruct d; exact (fun H => H) end.
Qed.
Lemma mix_step k : tokfin k -> mix (S k) = mix k.
Proof.
  intros (t & Ht & Hf). unfold mix. revert k Ht. generalize T as l.
  induction l as [|a l IH]; intros [|k] Ht; cbn in Ht; try discriminate.
  - injection Ht as ->. cbn. rewrite Hf. reflexivity.
  - cbn [firstn skipn map app]. f_equal. apply IH, Ht.
Qed.

(* the frame: the rest of the current_line stack below the current line, and the parent of the child line
   context we are in (None outside child lines); both are constant along a statement list *)
Section Frame.
Variable stk : list nat.
Variable par : option (nat * nat).

(* the shape of the states met on the fragment: finished lines L (metas M), one current line c (meta mc)
   that is the last line and the only entry of the current_line stack, pass_index k *)
Definition ST (s : pstate) (k : nat) (L : list (list nat)) (c : list nat) (M : list lmeta) (mc : lmeta) (last : nat)
           (cx : list (pctx * bool)) (lv : levels) (at_ : list nat) : Prop :=
  kst pass s = mkK (L ++ [c]) (length L :: stk) k last /\ metas pass s = M ++ [mc] /\ length M = length L
  /\ restv s = (mix k, cx, [], false, lv, at_, None).

Lemma ST_err s k L c M mc last cx lv a : ST s k L c M mc last cx lv a -> has_err pass s = false.
Proof. intros (_ & _ & _ & R). unfold restv in R. unfold has_err. injection R as _ _ _ _ _ _ E. rewrite E. reflexivity. Qed.
Lemma ST_toks s k L c M mc last cx lv a : ST s k L c M mc last cx lv a -> ps_toks pass s = mix k.
Proof. intros (_ & _ & _ & R). unfold restv in R. congruence. Qed.
Lemma ST_ctx s k L c M mc last cx lv a : ST s k L c M mc last cx lv a -> ps_ctx pass s = cx.
Proof. intros (_ & _ & _ & R). unfold restv in R. congruence. Qed.
Lemma ST_pidx s k L c M mc last cx lv a : ST s k L c M mc last cx lv a -> pidx pass s = k.
Proof. intros (K & _). unfold pidx. rewrite K. reflexivity. Qed.
Lemma ST_cur_ref s k L c M mc last cx lv a : ST s k L c M mc last cx lv a -> cur_ref pass s = length L.
Proof. intros (K & _). unfold cur_ref. rewrite K. reflexivity. Qed.
Lemma ST_cur_toks s k L c M mc last cx lv a : ST s k L c M mc last cx lv a -> cur_toks pass s = c.
Proof. intros H. unfold cur_toks. rewrite (ST_cur_ref _ _ _ _ _ _ _ _ _ _ H). destruct H as (K & _). rewrite K. cbn. apply nth_app_last. Qed.
Lemma ST_at_start s k L c M mc last cx lv a : ST s k L c M mc last cx lv a -> at_start pass s = match c with [] => true | _ => false end.
Proof. intros H. unfold at_start. rewrite (ST_cur_toks _ _ _ _ _ _ _ _ _ _ H). reflexivity. Qed.
Lemma ST_cur_type s k L c M mc last cx lv a : ST s k L c M mc last cx lv a -> cur_type pass s = lm_type mc.
Proof.
  intros H. unfold cur_type. rewrite (ST_cur_ref _ _ _ _ _ _ _ _ _ _ H). destruct H as (_ & Mt & Ml & _). rewrite Mt, <- Ml.
  rewrite nth_app_last. reflexivity.
Qed.
Lemma ST_cur_index s k L c M mc last cx lv a : ST s k L c M mc last cx lv a -> k < n -> cur_index pass s = Some k.
Proof. intros H Hk. unfold cur_index. rewrite (ST_pidx _ _ _ _ _ _ _ _ _ _ H). apply nth_error_seq0, Hk. Qed.
Lemma ST_cur_tt s k L c M mc last cx lv a t : ST s k L c M mc last cx lv a -> nth_error T k = Some t ->
  cur_tt pass s = match t with RTT_Eof => None | _ => Some t end.
Proof.
  intros H Ht. assert (Hk : k < n) by (apply nth_error_Some; congruence).
  pose proof (ST_toks _ _ _ _ _ _ _ _ _ _ H) as Tk.
  unfold cur_tt, idx0. rewrite (ST_cur_index _ _ _ _ _ _ _ _ _ _ H Hk). unfold tt_at. rewrite Tk, (mix_nth_ge k k (le_n k)), Ht.
  destruct t; cbn [bind]; try reflexivity; rewrite (mix_nth_ge k k (le_n k)); exact Ht.
Qed.
Lemma ST_cur_tt_end s k L c M mc last cx lv a : ST s k L c M mc last cx lv a -> n <= k -> cur_tt pass s = None.
Proof. intros H Hk. apply cur_tt_past_end. rewrite seq_length, (ST_pidx _ _ _ _ _ _ _ _ _ _ H). exact Hk. Qed.

(* a token of the fragment is never an inline comment *)
Lemma plain_nth k t : nth_error T k = Some t -> plain t.
Proof. intros H. exact (proj1 (Forall_forall _ _) Tplain t (nth_error_In _ _ H)). Qed.
Lemma ST_not_inline s k L c M mc last cx lv a : ST s k L c M mc last cx lv a -> is_inline_comment (cur_tt pass s) = false.
Proof.
  intros H. destruct (nth_error T k) as [t|] eqn:E.
  - rewrite (ST_cur_tt _ _ _ _ _ _ _ _ _ _ _ H E). pose proof (plain_nth _ _ E) as P. destruct t; try reflexivity; contradiction.
  - rewrite (ST_cur_tt_end _ _ _ _ _ _ _ _ _ _ H); [reflexivity|]. apply nth_error_None, E.
Qed.

(* ---------------- effects of the primitives *)
Lemma restv_p_emit e m s : restv (p_emit pass e m s) = restv s.
Proof. unfold p_emit, guard. destruct (has_err pass s); reflexivity. Qed.
Lemma restv_p_set_meta i f s : restv (p_set_meta pass i f s) = restv s.
Proof. unfold p_set_meta, guard. destruct (has_err pass s); reflexivity. Qed.
Lemma metas_p_emit e m s : has_err pass s = false ->
  metas pass (p_emit pass e m s) = if appends e then metas pass s ++ [m] else metas pass s.
Proof. intros E. unfold p_emit, guard. rewrite E. unfold metas. cbn [ps_core set_core]. apply metas_emit. Qed.

(* next_token on a token of the fragment *)
Lemma next_token_ST s k L c M mc last cx lv a :
  ST s k L c M mc last cx lv a -> tokfin k -> ST (next_token pass s) (S k) L (c ++ [k]) M mc last cx lv a.
Proof.
  intros H Hkf. pose proof (tokfin_lt k Hkf) as Hk. pose proof (ST_err _ _ _ _ _ _ _ _ _ _ H) as E.
  destruct (nth_error T k) as [t|] eqn:Et; [|apply nth_error_None in Et; lia].
  pose proof (plain_nth _ _ Et) as P.
  assert (B : next_token_body pass s = p_emit pass KT lm0 s).
  { unfold next_token_body. rewrite (ST_cur_index _ _ _ _ _ _ _ _ _ _ H Hk).
    pose proof (ST_cur_tt _ _ _ _ _ _ _ _ _ _ _ H Et) as Ct.
    destruct t as [o| |k0|k0| | | | | | |]; try contradiction; try (destruct o; try contradiction); try (destruct k0; try contradiction);
      rewrite Ct; unfold track_levels; rewrite Ct; reflexivity. }
  assert (S1 : ST (p_emit pass KT lm0 s) (S k) L (c ++ [k]) M mc last cx lv a).
  { destruct H as (K & Mt & Ml & R). split; [|split; [|split]].
    - rewrite (kst_p_emit pass KT lm0 s E), K. cbn [k_step k_pi k_lines k_cur k_last k_top hd].
      rewrite (nth_error_seq0 _ _ Hk). rewrite upd_nth_app_last. reflexivity.
    - rewrite (metas_p_emit _ _ _ E). exact Mt.
    - exact Ml.
    - rewrite restv_p_emit, (mix_step k Hkf). exact R. }
  unfold next_token. replace (remaining pass s + 2) with (S (remaining pass s + 1)) by lia.
  cbn [next_token_go]. rewrite E, B. rewrite (ST_not_inline _ _ _ _ _ _ _ _ _ _ S1). exact S1.
Qed.

(* context operations *)
Lemma push_ctx_ST c0 s k L c M mc last cx lv a :
  ST s k L c M mc last cx lv a -> ST (push_ctx pass c0 s) k L c M mc last ((c0, false) :: cx) lv a.
Proof.
  intros H. pose proof (ST_err _ _ _ _ _ _ _ _ _ _ H) as E. destruct H as (K & Mt & Ml & R).
  unfold push_ctx, guard. rewrite E. unfold ST, kst, metas, restv in *. cbn. repeat split; try assumption.
  injection R as R1 R2 R3 R4 R5 R6 R7. rewrite R1, R2, R3, R4, R5, R6, R7. reflexivity.
Qed.
Lemma pop_ctx_ST s k L c M mc last x cx lv a :
  ST s k L c M mc last (x :: cx) lv a -> ST (pop_ctx pass s) k L c M mc last cx lv a.
Proof.
  intros H. pose proof (ST_err _ _ _ _ _ _ _ _ _ _ H) as E. destruct H as (K & Mt & Ml & R).
  unfold pop_ctx, guard. rewrite E. unfold ST, kst, metas, restv in *. cbn. repeat split; try assumption.
  injection R as R1 R2 R3 R4 R5 R6 R7. rewrite R1, R2, R3, R4, R5, R6, R7. reflexivity.
Qed.
Lemma update_statuses_ST j s k L c M mc last cx lv a :
  ST s k L c M mc last cx lv a -> ST (update_statuses pass j s) k L c M mc last (mark_ended j cx) lv a.
Proof.
  intros H. pose proof (ST_err _ _ _ _ _ _ _ _ _ _ H) as E. destruct H as (K & Mt & Ml & R).
  unfold update_statuses, guard. rewrite E. unfold ST, kst, metas, restv in *. cbn. repeat split; try assumption.
  injection R as R1 R2 R3 R4 R5 R6 R7. rewrite R1, R2, R3, R4, R5, R6, R7. reflexivity.
Qed.
Lemma set_line_type_ST ty s k L c M mc last cx lv a :
  ST s k L c M mc last cx lv a ->
  ST (set_line_type pass ty s) k L c M (mkLM (lm_parent mc) (lm_level mc) ty) last cx lv a.
Proof.
  intros H. pose proof (ST_err _ _ _ _ _ _ _ _ _ _ H) as E. pose proof (ST_cur_ref _ _ _ _ _ _ _ _ _ _ H) as Rf.
  destruct H as (K & Mt & Ml & R). unfold set_line_type. rewrite Rf. split; [|split; [|split]].
  - rewrite kst_p_set_meta. exact K.
  - rewrite (metas_p_set_meta pass _ _ _ E), Mt, <- Ml. apply (upd_nth_app_last (fun m => mkLM (lm_parent m) (lm_level m) ty)).
  - exact Ml.
  - rewrite restv_p_set_meta. exact R.
Qed.

(* finish_logical_line at the start of a line only resets the type *)
Lemma finish_empty_ST s k L M mc last cx lv a :
  ST s k L [] M mc last cx lv a ->
  ST (finish_logical_line pass s) k L [] M (mkLM (lm_parent mc) (lm_level mc) LLT_Unknown) last cx lv a.
Proof.
  intros H. unfold finish_logical_line, guard. rewrite (ST_err _ _ _ _ _ _ _ _ _ _ H), (ST_at_start _ _ _ _ _ _ _ _ _ _ H).
  apply set_line_type_ST, H.
Qed.

(* no token of the fragment is a portability keyword candidate: consolidate_portability_directives changes nothing *)
Lemma mix_plain r : Forall plain (mix r).
Proof.
  unfold mix. pose proof Tplain as TP. rewrite <- (firstn_skipn r T) in TP. apply Forall_app in TP. destruct TP as [P1 P2].
  apply Forall_app. split; [|exact P2]. apply Forall_map. eapply Forall_impl; [intros a Ha; apply fin_plain, Ha|exact P1].
Qed.
Lemma portability_go_noop : forall li (s : pstate), Forall plain (ps_toks pass s) -> portability_go pass li s = s.
Proof.
  induction li as [|p IH]; intros s Tk; cbn [portability_go]; (destruct (nth_error (cur_toks pass s) _) as [ti|]; [|reflexivity]); cbv zeta.
  all: repeat match goal with |- (if ?c then _ else _) = _ => destruct c; [reflexivity|] end.
  all: unfold tt_at; destruct (nth_error (ps_toks pass s) ti) as [t|] eqn:E; try reflexivity; try (apply IH, Tk).
  all: pose proof (proj1 (Forall_forall _ _) Tk t (nth_error_In _ _ E)) as P; destruct t as [o| |k0|k0| | | | | | |]; try contradiction; try reflexivity; try (apply IH, Tk).
  all: destruct k0; try contradiction; try reflexivity; try (apply IH, Tk).
Qed.
Lemma portability_noop_G (s : pstate) : Forall plain (ps_toks pass s) -> consolidate_portability_directives pass s = s.
Proof.
  intros Tk. unfold consolidate_portability_directives.
  destruct (cur_toks pass s) as [|t0 r] eqn:Ec; [unfold cur_line_tts; rewrite Ec; reflexivity|].
  match goal with |- (if ?c then _ else _) = _ => destruct c; [reflexivity|] end.
  cbn [length]. match goal with |- (if ?c then _ else _) = _ => destruct c end.
  - destruct (skip_trailing_comments pass s (length r)); [reflexivity|apply portability_go_noop, Tk].
  - apply portability_go_noop, Tk.
Qed.
Lemma portability_noop s k L c M mc last cx lv a :
  ST s k L c M mc last cx lv a -> consolidate_portability_directives pass s = s.
Proof. intros H. apply portability_noop_G. rewrite (ST_toks _ _ _ _ _ _ _ _ _ _ H). apply mix_plain. Qed.
Lemma inline_noop s f : is_inline_comment (cur_tt pass s) = false -> inline_comments_go pass (S f) s = s.
Proof.
  intros H. cbn [inline_comments_go]. destruct (has_err pass s); [reflexivity|].
  destruct (cur_index pass s); [|reflexivity]. rewrite H. reflexivity.
Qed.
Lemma get_context_level_ST s k L c M mc last cx lv a :
  ST s k L c M mc last cx lv a -> get_context_level pass s = (first_parent cx, clamp_u16 (plain_sum cx)).
Proof.
  intros H. unfold get_context_level. rewrite (ST_ctx _ _ _ _ _ _ _ _ _ _ H), ctx_level_go_spec. reflexivity.
Qed.

(* finish_logical_line on a non-empty line *)
Lemma finish_ST s k L c M mc last cx lv a :
  ST s k L c M mc last cx lv a -> c <> [] ->
  ST (finish_logical_line pass s) k (L ++ [c]) []
     (M ++ [mkLM (first_parent cx) (clamp_u16 (plain_sum cx)) (lm_type mc)])
     (mkLM None (clamp_u16 (plain_sum cx)) LLT_Unknown) (length L) cx lv a.
Proof.
  intros H Hc. pose proof (ST_err _ _ _ _ _ _ _ _ _ _ H) as E.
  unfold finish_logical_line, guard. rewrite E, (ST_at_start _ _ _ _ _ _ _ _ _ _ H).
  destruct c as [|c0 cr]; [contradiction|].
  rewrite (portability_noop _ _ _ _ _ _ _ _ _ _ H).
  replace (remaining pass s + 2) with (S (remaining pass s + 1)) by lia.
  rewrite (inline_noop s _ (ST_not_inline _ _ _ _ _ _ _ _ _ _ H)).
  rewrite (get_context_level_ST _ _ _ _ _ _ _ _ _ _ H).
  pose proof (ST_cur_ref _ _ _ _ _ _ _ _ _ _ H) as Rf.
  destruct H as (K & Mt & Ml & R).
  assert (U : ps_cur_unfinished pass s = false /\ ps_unfinished pass s = []) by (unfold restv in R; split; congruence).
  destruct U as [U1 U2]. rewrite U1, U2. cbn [fold_left].
  set (s2 := set_unfinished pass (ps_unfinished pass (set_unfinished pass [] false s)) false (set_unfinished pass [] false s)).
  assert (K2 : kst pass s2 = kst pass s) by reflexivity.
  assert (M2 : metas pass s2 = metas pass s) by reflexivity.
  assert (R2 : restv s2 = restv s) by (unfold restv in *; subst s2; cbn; injection R as R1 R2' R3 R4 R5 R6 R7; rewrite R3, R4; reflexivity).
  assert (E2 : has_err pass s2 = false) by exact E.
  assert (Rf2 : cur_ref pass s2 = length L) by exact Rf.
  rewrite Rf2.
  set (s3 := p_set_meta pass (length L) (fun m => mkLM (first_parent cx) (clamp_u16 (plain_sum cx)) (lm_type m)) s2).
  assert (E3 : has_err pass s3 = false) by (subst s3; rewrite has_err_p_set_meta; exact E2).
  split; [|split; [|split]].
  - rewrite (kst_p_emit pass KL _ s3 E3). subst s3. rewrite kst_p_set_meta, K2, K. cbn [k_step k_lines k_cur k_pi k_last k_top hd].
    rewrite app_length. cbn [length]. rewrite Nat.add_1_r. reflexivity.
  - rewrite (metas_p_emit _ _ _ E3). cbn [appends]. subst s3. rewrite (metas_p_set_meta pass _ _ _ E2), M2, Mt, <- Ml.
    rewrite (upd_nth_app_last (fun m => mkLM (first_parent cx) (clamp_u16 (plain_sum cx)) (lm_type m))). reflexivity.
  - rewrite !app_length. cbn [length]. lia.
  - rewrite restv_p_emit. subst s3. rewrite restv_p_set_meta, R2. exact R.
Qed.


(* ---------------- general versions (any line-stack shape), for take_separators_on_last_line *)
Lemma cur_index_G (s : pstate) k : pidx pass s = k -> k < n -> cur_index pass s = Some k.
Proof. intros P Hk. unfold cur_index. rewrite P. apply nth_error_seq0, Hk. Qed.
Lemma cur_tt_G (s : pstate) Tc k t : ps_toks pass s = Tc -> pidx pass s = k -> k < n -> nth_error Tc k = Some t ->
  cur_tt pass s = match t with RTT_Eof => None | _ => Some t end.
Proof.
  intros Tk P Hk Ht.
  unfold cur_tt, idx0. rewrite (cur_index_G s k P Hk). unfold tt_at. rewrite Tk, Ht.
  destruct t; cbn [bind]; try reflexivity; exact Ht.
Qed.
Lemma not_inline_G (s : pstate) Tc k : ps_toks pass s = Tc -> Forall plain Tc -> pidx pass s = k -> is_inline_comment (cur_tt pass s) = false.
Proof.
  intros Tk TP P. destruct (Nat.lt_ge_cases k n) as [Hk|Hk].
  - destruct (nth_error Tc k) as [t|] eqn:E.
    + rewrite (cur_tt_G s Tc k t Tk P Hk E). pose proof (proj1 (Forall_forall _ _) TP t (nth_error_In _ _ E)) as Pl. destruct t; try reflexivity; contradiction.
    + unfold cur_tt, idx0. rewrite (cur_index_G s k P Hk). unfold tt_at. rewrite Tk, E. reflexivity.
  - rewrite cur_tt_past_end; [reflexivity|]. rewrite seq_length, P. exact Hk.
Qed.
Lemma next_token_G (s : pstate) Tc k :
  has_err pass s = false -> ps_toks pass s = Tc -> Forall plain Tc -> pidx pass s = k -> k < n -> length Tc = n ->
  kst pass (next_token pass s) = k_step pass (kst pass s) KT /\ metas pass (next_token pass s) = metas pass s
  /\ restv (next_token pass s) = restv s.
Proof.
  intros E Tk TP P Hk Hlen.
  destruct (nth_error Tc k) as [t|] eqn:Et; [|apply nth_error_None in Et; lia].
  pose proof (proj1 (Forall_forall _ _) TP t (nth_error_In _ _ Et)) as Pl.
  assert (B : next_token_body pass s = p_emit pass KT lm0 s).
  { unfold next_token_body. rewrite (cur_index_G s k P Hk). pose proof (cur_tt_G s Tc k t Tk P Hk Et) as Ct.
    destruct t as [o| |k0|k0| | | | | | |]; try contradiction; try (destruct o; try contradiction); try (destruct k0; try contradiction);
      rewrite Ct; unfold track_levels; rewrite Ct; reflexivity. }
  set (s1 := p_emit pass KT lm0 s).
  assert (K1 : kst pass s1 = k_step pass (kst pass s) KT) by (apply kst_p_emit, E).
  assert (R1 : restv s1 = restv s) by apply restv_p_emit.
  assert (N1 : is_inline_comment (cur_tt pass s1) = false).
  { apply (not_inline_G s1 Tc (S k)); [unfold restv in R1; congruence|exact TP|]. unfold pidx. rewrite K1, k_pi_KT. fold (pidx pass s). rewrite P. reflexivity. }
  unfold next_token. replace (remaining pass s + 2) with (S (remaining pass s + 1)) by lia.
  cbn [next_token_go]. rewrite E, B. fold s1. rewrite N1. split; [exact K1|]. split; [|exact R1].
  subst s1. rewrite (metas_p_emit _ _ _ E). reflexivity.
Qed.
Lemma toks_plain_G (s : pstate) r : ps_toks pass s = mix r -> Forall plain (ps_toks pass s).
Proof. intros ->. apply mix_plain. Qed.
Lemma mix_length r : length (mix r) = n.
Proof. unfold mix. rewrite app_length, map_length, <- app_length, firstn_skipn. reflexivity. Qed.
Lemma mix_all : mix n = map fin T.
Proof. unfold mix. rewrite firstn_all, skipn_all, app_nil_r. reflexivity. Qed.
Lemma mix_0 : mix 0 = T.
Proof. reflexivity. Qed.
Lemma tokfin_semi k : nth_error T k = Some tSemi -> tokfin k.
Proof. intros H. exists tSemi. split; [exact H|reflexivity]. Qed.
Ltac tokfin_tac :=
  match goal with |- tokfin ?k =>
    match goal with H : nth_error T k = Some ?t |- _ => exists t; split; [exact H|try reflexivity] end end.

(* take_separators_on_last_line in front of one `;`: the `;` is appended to the last finished line *)
Lemma take_separators_ST lvl_ s k L M mc last cx lv a t' :
  ST s k L [] M mc last cx lv a ->
  nth_error T k = Some tSemi -> nth_error T (S k) = Some t' -> t' <> tSemi ->
  last < length L -> nth last L [] <> [] ->
  ST (take_separators_on_last_line pass lvl_ s) (S k) (upd_nth last (fun l => l ++ [k]) L) [] M mc last cx lv a.
Proof.
  intros H Hk Hk1 Hne Hl Hnl. pose proof (ST_err _ _ _ _ _ _ _ _ _ _ H) as E.
  assert (Hkn : k < n) by (apply nth_error_Some; congruence).
  unfold take_separators_on_last_line, guard. rewrite E, (ST_cur_tt _ _ _ _ _ _ _ _ _ _ _ H Hk). cbn [tSemi o_semicolon negb].
  destruct H as (K & Mt & Ml & R).
  set (s1 := p_emit pass KR lm0 s).
  assert (K1 : kst pass s1 = mkK (L ++ [[]]) (last :: length L :: stk) k last) by (subst s1; rewrite (kst_p_emit pass KR lm0 s E), K; reflexivity).
  assert (M1 : metas pass s1 = M ++ [mc]) by (subst s1; rewrite (metas_p_emit _ _ _ E); exact Mt).
  assert (R1 : restv s1 = (mix k, cx, [], false, lv, a, None)) by (subst s1; rewrite restv_p_emit; exact R).
  assert (A1 : at_start pass s1 = false).
  { unfold at_start, cur_toks, cur_ref. rewrite K1. cbn [k_top k_cur hd k_lines]. rewrite app_nth1 by exact Hl.
    destruct (nth last L []); [contradiction|reflexivity]. }
  rewrite A1.
  set (s2 := push_ctx pass (mkCtx CT_Utility true P_never lvl_) s1).
  assert (E1 : has_err pass s1 = false) by (unfold has_err; unfold restv in R1; injection R1 as _ _ _ _ _ _ X; rewrite X; reflexivity).
  assert (F2 : kst pass s2 = kst pass s1 /\ metas pass s2 = metas pass s1 /\ restv s2 = (mix k, (mkCtx CT_Utility true P_never lvl_, false) :: cx, [], false, lv, a, None)).
  { subst s2. unfold push_ctx, guard. rewrite E1. repeat split. unfold restv in *. cbn.
    injection R1 as X1 X2 X3 X4 X5 X6 X7. rewrite X1, X2, X3, X4, X5, X6, X7. reflexivity. }
  destruct F2 as (K2 & M2 & R2).
  assert (T2 : ps_toks pass s2 = mix k) by (unfold restv in R2; congruence).
  assert (Hk' : nth_error (mix k) k = Some tSemi) by (rewrite mix_nth_ge by lia; exact Hk).
  assert (Hkn1 : S k < n) by (apply nth_error_Some; congruence).
  assert (Hk1' : nth_error (mix k) (S k) = Some t') by (rewrite mix_nth_ge by lia; exact Hk1).
  assert (P2 : pidx pass s2 = k) by (unfold pidx; rewrite K2, K1; reflexivity).
  assert (E2 : has_err pass s2 = false) by (unfold has_err; unfold restv in R2; injection R2 as _ _ _ _ _ _ X; rewrite X; reflexivity).
  (* take_until: exactly one next_token *)
  destruct (next_token_G s2 (mix k) k E2 T2 (mix_plain k) P2 Hkn (mix_length k)) as (K3 & M3 & R3). set (s3 := next_token pass s2) in *.
  assert (T3 : ps_toks pass s3 = mix k) by (unfold restv in R3, R2; congruence).
  assert (P3 : pidx pass s3 = S k) by (unfold pidx; rewrite K3, k_pi_KT; fold (pidx pass s2); rewrite P2; reflexivity).
  assert (TU : take_until pass (no_more_separators pass) s2 = s3).
  { unfold take_until, simple_op_until, op_until.
    assert (Hrem : remaining pass s2 + 2 = S (S (remaining pass s2))) by lia. rewrite Hrem.
    cbn [op_until_go]. rewrite E2, (cur_tt_G s2 (mix k) k tSemi T2 P2 Hkn Hk'). cbn [tSemi].
    unfold no_more_separators at 1. rewrite (cur_tt_G s2 (mix k) k tSemi T2 P2 Hkn Hk'). cbn [tSemi o_semicolon negb].
    assert (IE : is_ending pass s2 = false).
    { unfold is_ending, ending_ctx. assert (C2 : ps_ctx pass s2 = (mkCtx CT_Utility true P_never lvl_, false) :: cx) by (unfold restv in R2; congruence).
      rewrite C2. reflexivity. }
    rewrite IE. fold s3.
    assert (E3 : has_err pass s3 = false).
    { unfold has_err. unfold restv in R3, R2. assert (X : ps_err pass s3 = None) by congruence. rewrite X. reflexivity. }
    rewrite E3. rewrite (cur_tt_G s3 (mix k) (S k) t' T3 P3 Hkn1 Hk1').
    destruct t' as [o| |k0|k0| | | | | | |]; try reflexivity;
      unfold no_more_separators; rewrite (cur_tt_G s3 (mix k) (S k) _ T3 P3 Hkn1 Hk1'); try reflexivity.
    destruct o; try reflexivity. exfalso. apply Hne. reflexivity. }
  rewrite TU.
  assert (E3 : has_err pass s3 = false).
  { unfold has_err. unfold restv in R3, R2. assert (X : ps_err pass s3 = None) by congruence. rewrite X. reflexivity. }
  set (s4 := pop_ctx pass s3).
  assert (F4 : kst pass s4 = kst pass s3 /\ metas pass s4 = metas pass s3 /\ restv s4 = (mix k, cx, [], false, lv, a, None)).
  { subst s4. unfold pop_ctx, guard. rewrite E3. repeat split. unfold restv in *. cbn.
    rewrite R2 in R3. injection R3 as X1 X2 X3 X4 X5 X6 X7. rewrite X1, X2, X3, X4, X5, X6, X7. reflexivity. }
  destruct F4 as (K4 & M4 & R4).
  assert (E4 : has_err pass s4 = false) by (unfold has_err; unfold restv in R4; injection R4 as _ _ _ _ _ _ X; rewrite X; reflexivity).
  split; [|split; [|split]].
  - rewrite (kst_p_emit pass Kr lm0 s4 E4), K4, K3, K2, K1. cbn [k_step k_pi k_lines k_cur k_last k_top hd pop_keep].
    rewrite (nth_error_seq0 _ _ Hkn). cbn [k_lines k_cur k_pi k_last pop_keep]. rewrite upd_nth_app_l by exact Hl.
    rewrite upd_nth_len. reflexivity.
  - rewrite (metas_p_emit _ _ _ E4). cbn [appends]. rewrite M4, M3, M2. exact M1.
  - rewrite upd_nth_len. exact Ml.
  - rewrite restv_p_emit, (mix_step k (tokfin_semi k Hk)). exact R4.
Qed.
(* ... and it does nothing in front of another token *)
Lemma take_separators_noop lvl_ s k L c M mc last cx lv a t :
  ST s k L c M mc last cx lv a -> nth_error T k = Some t -> t <> tSemi ->
  take_separators_on_last_line pass lvl_ s = s.
Proof.
  intros H Hk Hne. unfold take_separators_on_last_line, guard. rewrite (ST_err _ _ _ _ _ _ _ _ _ _ H), (ST_cur_tt _ _ _ _ _ _ _ _ _ _ _ H Hk).
  destruct t as [o| | | | | | | | | |]; try reflexivity. destruct o; try reflexivity. exfalso. apply Hne. reflexivity.
Qed.

(* the kinds of statement blocks of the fragment: they differ in the terminating keyword and in the kind of
   the statement contexts inside (`except` blocks: SK_Except) *)
Inductive blk := KBegin | KRepeat | KTry | KFinally | KTryE | KExcept | KCase | KCaseE | KElse.
Definition cBlk (b : blk) : pctx :=
  match b with
  | KBegin => ctx (CT_StatementBlock BK_Begin) true P_end (L 1)
  | KRepeat => ctx (CT_StatementBlock BK_Repeat) true P_until (L 1)
  | KTry | KTryE => ctx (CT_StatementBlock BK_Try) true P_except_finally (L 1)
  | KFinally => ctx (CT_StatementBlock BK_Finally) true P_else_end (L 1)
  | KExcept => ctx (CT_StatementBlock BK_Except) true P_else_end (L 1)
  | KCase | KCaseE => ctx (CT_Statement SK_Case) true P_else_end (L 1)
  | KElse => ctx (CT_StatementBlock BK_Else) true P_end (L 1)
  end.
Definition sk_of (b : blk) : skind := match b with KExcept => SK_Except | KCase | KCaseE => SK_Case | _ => SK_Normal end.
(* the statement context of the statements of a block *)
Definition cStk (b : blk) : pctx := ctx (CT_Statement (sk_of b)) false P_semicolon (L 0).
Definition slc (b : blk) : call := C_stmt_list (CT_Statement (sk_of b)) false P_semicolon.
Definition tTerm (b : blk) : RawTokenType :=
  match b with KBegin | KFinally | KExcept | KCase | KElse => tEnd | KRepeat => tUntil | KTry => tFinally | KTryE => tExcept | KCaseE => tElse end.
Definition is_term (b : blk) (t : RawTokenType) : bool :=
  match t with
  | RTT_Keyword KK_End => match b with KBegin | KFinally | KExcept | KCase | KCaseE | KElse => true | _ => false end
  | RTT_Keyword KK_Until => match b with KRepeat => true | _ => false end
  | RTT_Keyword (KK_Finally | KK_Except) => match b with KTry | KTryE => true | _ => false end
  | RTT_Keyword KK_Else => match b with KFinally | KExcept | KCase | KCaseE => true | _ => false end
  | _ => false
  end.
Lemma is_term_term b : is_term b (tTerm b) = true. Proof. destruct b; reflexivity. Qed.
Lemma first_parent_blk b fl C : first_parent ((cBlk b, fl) :: C) = first_parent C. Proof. destruct b; reflexivity. Qed.
Lemma plain_sum_blk b fl C : plain_sum ((cBlk b, fl) :: C) = (1 + plain_sum C)%Z. Proof. destruct b; reflexivity. Qed.
Lemma cBlk_level b : clevel_parent (c_level (cBlk b)) = None. Proof. destruct b; reflexivity. Qed.
Definition cTop : pctx := ctx CT_TopLevelStatement true P_top_semicolon (L 0).
Definition cUt (l : clevel) : pctx := mkCtx CT_Utility true P_never l.

Lemma blk_pred_eval b s k L c M mc last cx lv a t :
  ST s k L c M mc last cx lv a -> nth_error T k = Some t -> eval_pred pass (c_pred (cBlk b)) s = is_term b t.
Proof.
  intros H Ht. pose proof (ST_cur_tt _ _ _ _ _ _ _ _ _ _ _ H Ht) as Ct. pose proof (plain_nth _ _ Ht) as P.
  destruct b; cbn [cBlk ctx c_pred eval_pred]; unfold o_kw_end; rewrite Ct;
    (destruct t as [o| |k0|k0| | | | | | |]; try contradiction; try reflexivity; destruct k0; try contradiction; reflexivity).
Qed.
Lemma cBlk_opaque b : c_opaque (cBlk b) = true. Proof. destruct b; reflexivity. Qed.

Section Blk.
Variable bk : blk.
Notation cSB := (cBlk bk).

Lemma ST_err_none s k L c M mc last cx lv a : ST s k L c M mc last cx lv a -> ps_err pass s = None.
Proof. intros (_ & _ & _ & R). unfold restv in R. congruence. Qed.

(* ---------------- unfolding `run` on error-free states *)
Notation RUN := (run pass []).
Lemma run_S f c s : has_err pass s = false ->
  RUN (S f) c s =
  match c with
  | C_structures => arm_structures pass (RUN f) s
  | C_statement => arm_statement pass (RUN f) s
  | C_with_ctx cx a => arm_with_ctx pass [] (RUN f) cx a s
  | C_stmt_list t op p => arm_stmt_list pass (RUN f) t op p s
  | C_stmt_block cx k => arm_stmt_block pass (RUN f) cx k s
  | C_top => arm_top pass (RUN f) s
  | C_block cx => arm_block pass (RUN f) cx s
  | C_line_section cx => arm_line_section pass (RUN f) cx s
  | C_if_then => arm_if_then pass (RUN f) s
  | C_do b => arm_do pass (RUN f) b s
  | C_case_statement => arm_case_statement pass (RUN f) s
  | C_case_arm p => arm_case_arm pass (RUN f) p s
  | _ => RUN (S f) c s
  end.
Proof. intros E. cbn [run]. rewrite E. destruct c; reflexivity. Qed.

(* ending contexts on the shapes of the fragment *)
Lemma ending_St_SB s k L c M mc last C lv a t :
  ST s k L c M mc last (((cStk bk), false) :: (cSB, false) :: C) lv a -> nth_error T k = Some t ->
  ending_ctx pass s = match t with RTT_Op OK_Semicolon => Some 1 | _ => if is_term bk t then Some 2 else None end.
Proof.
  intros H Ht. unfold ending_ctx. rewrite (ST_ctx _ _ _ _ _ _ _ _ _ _ H). cbn [ending_go cStk ctx c_pred c_opaque eval_pred].
  rewrite (blk_pred_eval bk _ _ _ _ _ _ _ _ _ _ _ H Ht), cBlk_opaque.
  rewrite (ST_cur_tt _ _ _ _ _ _ _ _ _ _ _ H Ht). pose proof (plain_nth _ _ Ht) as P.
  destruct t as [o| |k0|k0| | | | | | |]; try contradiction; try reflexivity.
  all: try (destruct o; try contradiction; reflexivity).
  all: try (destruct k0; try contradiction; cbn [o_semicolon]; destruct (is_term bk _); reflexivity).
Qed.
Lemma ending_St_ended s k L c M mc last r lv a :
  ST s k L c M mc last (((cStk bk), true) :: r) lv a -> ending_ctx pass s = Some 1.
Proof. intros H. unfold ending_ctx. rewrite (ST_ctx _ _ _ _ _ _ _ _ _ _ H). reflexivity. Qed.
Lemma is_ending_SB s k L c M mc last C lv a t :
  ST s k L c M mc last ((cSB, false) :: C) lv a -> nth_error T k = Some t -> is_ending pass s = is_term bk t.
Proof.
  intros H Ht. unfold is_ending, ending_ctx. rewrite (ST_ctx _ _ _ _ _ _ _ _ _ _ H). cbn [ending_go].
  rewrite (blk_pred_eval bk _ _ _ _ _ _ _ _ _ _ _ H Ht), cBlk_opaque. destruct (is_term bk t); reflexivity.
Qed.

(* next_tt: the next token of the pass (no comments in the fragment) *)
Lemma next_tt_ST s k L c M mc last cx lv a t :
  ST s k L c M mc last cx lv a -> nth_error T (S k) = Some t -> t <> RTT_Eof -> next_tt pass s = Some t.
Proof.
  intros H Ht Hne. assert (Hk : S k < n) by (apply nth_error_Some; congruence).
  unfold next_tt, idx_next. rewrite (ST_pidx _ _ _ _ _ _ _ _ _ _ H).
  assert (Sk : exists r, skipn (S k) pass = S k :: r).
  { rewrite skipn_seq. cbn [Nat.add]. destruct (length T - S k) eqn:Z; [lia|]. cbn [seq]. eauto. }
  destruct Sk as [r Sk].
  rewrite Sk. cbn [find]. unfold filt_at, tt_at. rewrite (ST_toks _ _ _ _ _ _ _ _ _ _ H), (mix_nth_ge k (S k)) by lia. rewrite Ht.
  pose proof (plain_nth _ _ Ht) as P.
  assert (F : tok_filter t = true) by (destruct t; try reflexivity; try contradiction; exfalso; apply Hne; reflexivity).
  rewrite F. cbn [bind]. rewrite (mix_nth_ge k (S k)) by lia. exact Ht.
Qed.

(* ---------------- parse_statement / parse_structures on `Identifier ;` *)
Lemma last_ctx_ST s k L c M mc last x fl r lv a : ST s k L c M mc last ((x, fl) :: r) lv a -> last_ctx pass s = Some x.
Proof. intros H. unfold last_ctx. rewrite (ST_ctx _ _ _ _ _ _ _ _ _ _ H). reflexivity. Qed.

(* ---------------- do_with_context with a Level context *)
Lemma with_ctx_structures f cx s : has_err pass s = false -> clevel_parent (c_level cx) = None ->
  RUN (S f) (C_with_ctx cx A_structures) s = pop_ctx pass (RUN f C_structures (push_ctx pass cx (finish_logical_line pass s))).
Proof. intros E P. rewrite (run_S _ _ _ E). unfold arm_with_ctx. rewrite P. reflexivity. Qed.
Lemma with_ctx_stmt_list f cx t s : has_err pass s = false -> clevel_parent (c_level cx) = None ->
  RUN (S f) (C_with_ctx cx (A_stmt_list t)) s
  = pop_ctx pass (RUN f (C_stmt_list t false P_semicolon) (push_ctx pass cx (finish_logical_line pass s))).
Proof. intros E P. rewrite (run_S _ _ _ E). unfold arm_with_ctx. rewrite P. reflexivity. Qed.
Lemma stmt_list_unfold f t op p s : has_err pass s = false ->
  RUN (S f) (C_stmt_list t op p) s =
  let s3 := take_separators_on_last_line pass (L 0) (finish_logical_line pass (RUN f (C_with_ctx (ctx t op p (L 0)) A_structures) s)) in
  if is_ending pass s3 || match cur_tt pass s3 with None => true | Some _ => false end then s3
  else RUN f (C_stmt_list t op p) s3.
Proof. intros E. rewrite (run_S _ _ _ E). reflexivity. Qed.

(* ---------------- nested blocks *)
Definition meta_of (l : lline) : lmeta := mkLM (ll_parent l) (ll_level l) (ll_type l).
Definition need (ss : stmts) : nat := 10 + 10 * length (render ss).
(* the tokens of `l` sit in T from position k on *)
Definition toks_at (k : nat) (l : list RawTokenType) : Prop := forall j t, nth_error l j = Some t -> nth_error T (k + j) = Some t.
(* what the statement-list loop does on ss inside the contexts (block bk :: C), from a line start at k *)
Definition Post (ss : stmts) (C : list (pctx * bool)) (f : nat) (s : pstate) (k : nat) (Ls : list (list nat)) (M : list lmeta)
           (lv : levels) (a : list nat) (li : nat) : Prop :=
  exists mc' last' fl, lm_type mc' = LLT_Unknown /\
    ST (RUN f (slc bk) s) (k + length (render ss))
       (Ls ++ map ll_toks (pexpected par (1 + plain_sum C) k li ss)) []
       (M ++ map meta_of (pexpected par (1 + plain_sum C) k li ss)) mc' last' ((cSB, fl) :: C) lv a.
Definition IHfor (ss : stmts) (C : list (pctx * bool)) : Prop :=
  forall f s k Ls M mc last lv a li, need ss <= f -> li = length Ls -> ST s k Ls [] M mc last ((cSB, false) :: C) lv a ->
  toks_at k (render ss ++ [tTerm bk]) -> Post ss C f s k Ls M lv a li.

Lemma take_until_ending pred s : has_err pass s = false -> cur_tt pass s <> None -> pred s = false ->
  is_ending pass s = true -> take_until pass pred s = s.
Proof.
  intros E Hc Hp He. unfold take_until, simple_op_until, op_until.
  replace (remaining pass s + 2) with (S (remaining pass s + 1)) by lia. cbn [op_until_go]. rewrite E.
  destruct (cur_tt pass s); [|congruence]. rewrite Hp, He. reflexivity.
Qed.
Lemma ST_lists s k Ls Ls' c M M' mc last cx lv a :
  ST s k Ls c M mc last cx lv a -> Ls = Ls' -> M = M' -> ST s k Ls' c M' mc last cx lv a.
Proof. intros H -> ->. exact H. Qed.

Lemma head_tok r : exists t', nth_error (render r ++ [tTerm bk]) 0 = Some t' /\ t' <> tSemi /\ t' <> RTT_Eof
  /\ (r = SNil -> t' = tTerm bk) /\ (r <> SNil -> is_term bk t' = false).
Proof.
  destruct r as [|c r]; cbn [render app].
  - exists (tTerm bk). split; [reflexivity|]. repeat split; try congruence; destruct bk; discriminate.
  - destruct c; cbn; eexists; (split; [reflexivity|]); repeat split; try discriminate; try congruence; destruct bk; reflexivity.
Qed.

Lemma toks_at_0 k l t : toks_at k l -> nth_error l 0 = Some t -> nth_error T k = Some t.
Proof. intros H H0. specialize (H 0 t H0). rewrite Nat.add_0_r in H. exact H. Qed.
Lemma toks_at_shift k m l1 l2 : toks_at k (l1 ++ l2) -> length l1 = m -> toks_at (k + m) l2.
Proof.
  intros H Hl j t Hj. specialize (H (m + j) t). rewrite nth_error_app2, <- Hl in H by lia.
  replace (length l1 + j - length l1) with j in H by lia. rewrite <- Nat.add_assoc, <- Hl. exact (H Hj).
Qed.
Lemma toks_at_prefix k l1 l2 : toks_at k (l1 ++ l2) -> toks_at k l1.
Proof. intros H j t Hj. apply H. rewrite nth_error_app1; [exact Hj|]. apply nth_error_Some. congruence. Qed.

Lemma loop_tail r C : IHfor r C ->
  forall f s3 k2 L2 M2 mc2 last2 lv a li, need r <= f -> li = length L2 -> lm_type mc2 = LLT_Unknown ->
  ST s3 k2 L2 [] M2 mc2 last2 ((cSB, false) :: C) lv a -> toks_at k2 (render r ++ [tTerm bk]) ->
  exists mc' last' fl, lm_type mc' = LLT_Unknown /\
    ST (if is_ending pass s3 || match cur_tt pass s3 with None => true | Some _ => false end then s3 else RUN f (slc bk) s3)
       (k2 + length (render r)) (L2 ++ map ll_toks (pexpected par (1 + plain_sum C) k2 li r)) []
       (M2 ++ map meta_of (pexpected par (1 + plain_sum C) k2 li r)) mc' last' ((cSB, fl) :: C) lv a.
Proof.
  intros IHr f s3 k2 L2 M2 mc2 last2 lv a li Hf Hli Hty H Ht.
  destruct (head_tok r) as (t' & H0 & N1 & NE & E1 & E2).
  pose proof (toks_at_0 _ _ _ Ht H0) as Hk. rewrite (is_ending_SB _ _ _ _ _ _ _ _ _ _ _ H Hk).
  destruct r as [|c' r'] eqn:Er.
  - rewrite (E1 eq_refl), is_term_term. cbn [orb render length pexpected map]. rewrite !app_nil_r, Nat.add_0_r. eauto.
  - rewrite (E2 ltac:(discriminate)).
    assert (Ct : cur_tt pass s3 = Some t').
    { rewrite (ST_cur_tt _ _ _ _ _ _ _ _ _ _ _ H Hk). destruct t'; try reflexivity. contradiction NE; reflexivity. }
    rewrite Ct. cbn [orb]. exact (IHr _ _ _ _ _ _ _ _ _ _ Hf Hli H Ht).
Qed.


(* level bookkeeping under a statement context on top of a block *)
Lemma first_parent_St_blk f1 f2 C : first_parent (((cStk bk), f1) :: (cSB, f2) :: C) = first_parent C.
Proof. destruct bk; reflexivity. Qed.
Lemma plain_sum_St_blk f1 f2 C : plain_sum (((cStk bk), f1) :: (cSB, f2) :: C) = (0 + (1 + plain_sum C))%Z.
Proof. destruct bk; reflexivity. Qed.
End Blk.


(* ================================================================== *)
(* the nested constructs; the outer block kind bk is arbitrary *)
Notation RUN := (run pass []).

(* ================================================================== *)
(* generic steps of parse_statement / parse_structures (any context on top) *)
Lemma ending_top_ended s k L c M mc last x r lv a :
  ST s k L c M mc last ((x, true) :: r) lv a -> ending_ctx pass s = Some 1.
Proof. intros H. unfold ending_ctx. rewrite (ST_ctx _ _ _ _ _ _ _ _ _ _ H). reflexivity. Qed.

Definition stmt_ctype (x : pctx) : Prop :=
  match c_type x with CT_Statement (SK_Normal | SK_Except) | CT_Utility | CT_BlockClause => True | _ => False end.

Lemma prelude_none s k L c M mc last x fl r lv a :
  ST s k L c M mc last ((x, fl) :: r) lv a -> ending_ctx pass s = None -> stmt_ctype x -> statement_prelude pass s = (s, true).
Proof.
  intros H E Hx. unfold statement_prelude. rewrite (last_ctx_ST _ _ _ _ _ _ _ _ _ _ _ _ H), E.
  destruct (at_start pass s); [|reflexivity]. unfold stmt_ctype in Hx. destruct (c_type x) as [| | | | | | | | | | | | | |bb|sk| | | |]; try contradiction; try reflexivity.
  destruct sk; try contradiction; reflexivity.
Qed.
Lemma prelude_some s k L c M mc last x fl r lv a j :
  ST s k L c M mc last ((x, fl) :: r) lv a -> ending_ctx pass s = Some j ->
  statement_prelude pass s = (update_statuses pass j s, false).
Proof. intros H E. unfold statement_prelude. rewrite (last_ctx_ST _ _ _ _ _ _ _ _ _ _ _ _ H), E. reflexivity. Qed.

Lemma statement_ident f s k L c M mc last x fl r lv a t1 :
  ST s k L c M mc last ((x, fl) :: r) lv a -> nth_error T k = Some tI -> nth_error T (S k) = Some t1 -> t1 <> RTT_Eof ->
  o_colon (Some t1) = false -> ending_ctx pass s = None -> stmt_ctype x ->
  RUN (S f) C_statement s = RUN f C_statement (next_token pass s).
Proof.
  intros H Hk Hk1 Hne O E Hx.
  rewrite (run_S _ C_statement _ (ST_err _ _ _ _ _ _ _ _ _ _ H)).
  unfold arm_statement. rewrite (ST_cur_tt _ _ _ _ _ _ _ _ _ _ _ H Hk). cbn [tI].
  rewrite (prelude_none _ _ _ _ _ _ _ _ _ _ _ _ H E Hx). cbn [negb starm_of tI].
  unfold st_label_cand, label_or_other. rewrite (next_tt_ST _ _ _ _ _ _ _ _ _ _ _ H Hk1 Hne).
  rewrite O, andb_false_r. reflexivity.
Qed.
Lemma statement_assign f s k L c M mc last x fl r lv a :
  ST s k L c M mc last ((x, fl) :: r) lv a -> nth_error T k = Some tAssign -> lm_type mc = LLT_Unknown ->
  ending_ctx pass s = None -> stmt_ctype x ->
  RUN (S f) C_statement s = RUN f C_statement (set_line_type pass LLT_Assignment (next_token pass s)).
Proof.
  intros H Hk Hty E Hx. assert (Hkn : tokfin (k)) by tokfin_tac.
  rewrite (run_S _ C_statement _ (ST_err _ _ _ _ _ _ _ _ _ _ H)).
  unfold arm_statement. rewrite (ST_cur_tt _ _ _ _ _ _ _ _ _ _ _ H Hk). cbn [tAssign].
  rewrite (prelude_none _ _ _ _ _ _ _ _ _ _ _ _ H E Hx). cbn [negb starm_of tAssign].
  cbv delta [st_assign t_loop] beta zeta.
  pose proof (next_token_ST _ _ _ _ _ _ _ _ _ _ H Hkn) as H2.
  rewrite (ST_cur_type _ _ _ _ _ _ _ _ _ _ H2), Hty. reflexivity.
Qed.
Lemma statement_stop f s k L c M mc last x fl r lv a t j :
  ST s k L c M mc last ((x, fl) :: r) lv a -> nth_error T k = Some t -> t <> RTT_Eof -> ending_ctx pass s = Some j ->
  RUN (S f) C_statement s = update_statuses pass j s.
Proof.
  intros H Hk Hne E. rewrite (run_S _ C_statement _ (ST_err _ _ _ _ _ _ _ _ _ _ H)).
  unfold arm_statement. rewrite (ST_cur_tt _ _ _ _ _ _ _ _ _ _ _ H Hk).
  destruct t; try (rewrite (prelude_some _ _ _ _ _ _ _ _ _ _ _ _ _ H E); reflexivity). contradiction Hne; reflexivity.
Qed.
Lemma structures_stop f s k L c M mc last cx lv a t j :
  ST s k L c M mc last cx lv a -> nth_error T k = Some t -> t <> RTT_Eof -> ending_ctx pass s = Some j ->
  RUN (S f) C_structures s = update_statuses pass j s.
Proof.
  intros H Hk Hne E. rewrite (run_S _ C_structures _ (ST_err _ _ _ _ _ _ _ _ _ _ H)).
  unfold arm_structures. rewrite (ST_cur_tt _ _ _ _ _ _ _ _ _ _ _ H Hk), E.
  destruct t; try reflexivity. contradiction Hne; reflexivity.
Qed.
Lemma structures_ident f s k L c M mc last cx lv a :
  ST s k L c M mc last cx lv a -> nth_error T k = Some tI -> ending_ctx pass s = None ->
  RUN (S f) C_structures s = RUN f C_structures (RUN f C_statement s).
Proof.
  intros H Hk E. rewrite (run_S _ C_structures _ (ST_err _ _ _ _ _ _ _ _ _ _ H)).
  unfold arm_structures. rewrite (ST_cur_tt _ _ _ _ _ _ _ _ _ _ _ H Hk), E. reflexivity.
Qed.
Lemma take_until_stop pred s : has_err pass s = false -> cur_tt pass s <> None -> pred s = true \/ is_ending pass s = true ->
  take_until pass pred s = s.
Proof.
  intros E Hc Hp. unfold take_until, simple_op_until, op_until.
  replace (remaining pass s + 2) with (S (remaining pass s + 1)) by lia. cbn [op_until_go]. rewrite E.
  destruct (cur_tt pass s); [|congruence]. destruct (pred s); [reflexivity|]. destruct Hp as [Hp|Hp]; [discriminate|]. rewrite Hp. reflexivity.
Qed.

(* entering a nested block after its opening keyword, in any context *)
Lemma open_block_G f s k Ls M mc last Y lv a bk' :
  ST s k Ls [] M mc last Y lv a -> tokfin k ->
  let s1 := push_ctx pass (cBlk bk') (finish_logical_line pass (next_token pass s)) in
  RUN (S (S f)) (C_stmt_block (cBlk bk') (sk_of bk')) (next_token pass s) = pop_ctx pass (RUN f (slc bk') s1)
  /\ ST s1 (S k) (Ls ++ [[k]]) [] (M ++ [mkLM (first_parent Y) (clamp_u16 (plain_sum Y)) (lm_type mc)])
        (mkLM None (clamp_u16 (plain_sum Y)) LLT_Unknown) (length Ls) ((cBlk bk', false) :: Y) lv a.
Proof.
  intros H Hkn s1.
  pose proof (next_token_ST _ _ _ _ _ _ _ _ _ _ H Hkn) as H2. cbn [app] in H2.
  split.
  - rewrite (run_S _ (C_stmt_block (cBlk bk') (sk_of bk')) _ (ST_err _ _ _ _ _ _ _ _ _ _ H2)). unfold arm_stmt_block.
    rewrite (with_ctx_stmt_list _ (cBlk bk') _ _ (ST_err _ _ _ _ _ _ _ _ _ _ H2) (cBlk_level bk')). reflexivity.
  - pose proof (finish_ST _ _ _ _ _ _ _ _ _ _ H2 ltac:(discriminate)) as H3.
    exact (push_ctx_ST (cBlk bk') _ _ _ _ _ _ _ _ _ _ H3).
Qed.

(* ---------------- the line section `Identifier then` / `Identifier do` of a header line *)
Inductive hk := HThen | HDo | HOf.
Definition cUtp (th : hk) : pctx := ctx CT_Utility true (match th with HThen => P_then | HDo => P_kw_do | HOf => P_of end) (ParserGrammar.L 0).
Definition tHd (th : hk) : RawTokenType := match th with HThen => tThen | HDo => tDo | HOf => tOf end.
Definition is_hd (th : hk) (t : RawTokenType) : bool :=
  match t, th with
  | RTT_Keyword KK_Then, HThen | RTT_Keyword KK_Do, HDo | RTT_Keyword KK_Of, HOf => true
  | _, _ => false
  end.
Lemma ending_Ut th s k L c M mc last r lv a t :
  ST s k L c M mc last ((cUtp th, false) :: r) lv a -> nth_error T k = Some t ->
  ending_ctx pass s = if is_hd th t then Some 1 else None.
Proof.
  intros H Ht. unfold ending_ctx. rewrite (ST_ctx _ _ _ _ _ _ _ _ _ _ H). cbn [ending_go cUtp ctx c_pred c_opaque].
  pose proof (ST_cur_tt _ _ _ _ _ _ _ _ _ _ _ H Ht) as Ct. pose proof (plain_nth _ _ Ht) as P.
  destruct th; cbn [eval_pred]; unfold cur_kk; rewrite Ct.
  all: destruct t as [o| |k0|k0| | | | | | |]; try contradiction; try reflexivity.
  all: try (destruct o; try contradiction; reflexivity).
  all: destruct k0; try contradiction; reflexivity.
Qed.
Lemma line_section_run th f s k L c M mc last r lv a :
  ST s k L c M mc last r lv a -> nth_error T k = Some tI -> nth_error T (S k) = Some (tHd th) -> 3 <= f ->
  ST (RUN f (C_line_section (cUtp th)) s) (S k) L (c ++ [k]) M mc last r lv a.
Proof.
  intros H Hk Hk1 Hf. destruct f as [|[|[|f]]]; try lia.
  assert (Hkn : tokfin (k)) by tokfin_tac.
  rewrite (run_S _ (C_line_section _) _ (ST_err _ _ _ _ _ _ _ _ _ _ H)). unfold arm_line_section.
  pose proof (push_ctx_ST (cUtp th) _ _ _ _ _ _ _ _ _ _ H) as H1.
  assert (E0 : ending_ctx pass (push_ctx pass (cUtp th) s) = None) by (rewrite (ending_Ut _ _ _ _ _ _ _ _ _ _ _ _ H1 Hk); reflexivity).
  rewrite (statement_ident _ _ _ _ _ _ _ _ _ _ _ _ _ _ H1 Hk Hk1 ltac:(destruct th; discriminate) ltac:(destruct th; reflexivity) E0 I).
  pose proof (next_token_ST _ _ _ _ _ _ _ _ _ _ H1 Hkn) as H2.
  assert (E1 : ending_ctx pass (next_token pass (push_ctx pass (cUtp th) s)) = Some 1)
    by (rewrite (ending_Ut _ _ _ _ _ _ _ _ _ _ _ _ H2 Hk1); destruct th; reflexivity).
  rewrite (statement_stop _ _ _ _ _ _ _ _ _ _ _ _ _ _ _ H2 Hk1 ltac:(destruct th; discriminate) E1).
  pose proof (update_statuses_ST 1 _ _ _ _ _ _ _ _ _ _ H2) as H3. cbn [mark_ended] in H3.
  exact (pop_ctx_ST _ _ _ _ _ _ _ _ _ _ _ H3).
Qed.

(* ---------------- the body of a child line context (parse_block with a parent) *)
Definition cCh (pe : bool) (p : nat * nat) : pctx :=
  ctx (CT_Statement SK_Normal) false (if pe then P_else else P_never) (CL_Parent p 1%N).

(* ================================================================== *)
(* statement positions: a context stack X on which a statement starts at the start of a line, with the
   context-ending test E as a function of the current token *)
Definition cur_is (s : pstate) (t : RawTokenType) : Prop := cur_tt pass s = match t with RTT_Eof => None | _ => Some t end.
Lemma ST_cur_is s k L c M mc last cx lv a t : ST s k L c M mc last cx lv a -> nth_error T k = Some t -> cur_is s t.
Proof. exact (ST_cur_tt s k L c M mc last cx lv a t). Qed.
Definition ends_as (X : list (pctx * bool)) (E : RawTokenType -> option nat) : Prop :=
  forall (s : pstate) t, cur_is s t -> plain t -> ending_go pass s X 0 = E t.
Definition starter (t : RawTokenType) : bool :=
  match t with
  | RTT_Identifier | RTT_Op OK_Assign | RTT_Keyword (KK_Begin | KK_Repeat | KK_Try | KK_If | KK_While | KK_Case) => true
  | _ => false
  end.
(* no type declaration context below (parse_structures asks for it at `case`) *)
Definition notd (C : list (pctx * bool)) : Prop :=
  existsb (fun c => match c_type (fst c) with CT_TypeDeclaration => true | _ => false end) C = false.
Lemma notd_St_blk bk f1 f2 C : notd C -> notd ((cStk bk, f1) :: (cBlk bk, f2) :: C).
Proof. unfold notd. intros H. destruct bk; cbn; exact H. Qed.
Record Pos0 (X : list (pctx * bool)) (E : RawTokenType -> option nat) : Prop := mkPos0 {
  pos_ends : ends_as X E;
  pos_start : forall t, starter t = true -> E t = None;
  pos_notd : notd X }.
Record Pos (X : list (pctx * bool)) (E : RawTokenType -> option nat) : Prop := mkPos {
  pos_0 : Pos0 X E;
  pos_top : exists x r, X = (x, false) :: r /\ stmt_ctype x }.
Lemma pos_ending X E s k L c M mc last lv a t : Pos0 X E -> ST s k L c M mc last X lv a -> nth_error T k = Some t ->
  ending_ctx pass s = E t.
Proof.
  intros P H Ht. unfold ending_ctx. rewrite (ST_ctx _ _ _ _ _ _ _ _ _ _ H).
  exact (pos_ends X E P s t (ST_cur_is _ _ _ _ _ _ _ _ _ _ _ H Ht) (plain_nth _ _ Ht)).
Qed.
Lemma ending_go_shift (s : pstate) : forall l d, ending_go pass s l (S d) = option_map S (ending_go pass s l d).
Proof.
  induction l as [|[c e] r IH]; intros d; cbn [ending_go]; [reflexivity|].
  destruct e; [reflexivity|]. destruct (eval_pred pass (c_pred c) s); [reflexivity|]. destruct (c_opaque c); [reflexivity|]. apply IH.
Qed.

(* the position of the statements of a block *)
Definition Xl (bk : blk) (C : list (pctx * bool)) := (cStk bk, false) :: (cBlk bk, false) :: C.
Definition El (bk : blk) (t : RawTokenType) : option nat :=
  match t with RTT_Op OK_Semicolon => Some 1 | _ => if is_term bk t then Some 2 else None end.
Lemma blk_pred_eval_G b (s : pstate) t : cur_is s t -> plain t -> eval_pred pass (c_pred (cBlk b)) s = is_term b t.
Proof.
  intros Ct P. unfold cur_is in Ct.
  destruct b; cbn [cBlk ctx c_pred eval_pred]; unfold o_kw_end; rewrite Ct;
    (destruct t as [o| |k0|k0| | | | | | |]; try contradiction; try reflexivity; destruct k0; try contradiction; reflexivity).
Qed.
Lemma ends_list bk C : ends_as (Xl bk C) (El bk).
Proof.
  intros s t Ct P. unfold Xl. cbn [ending_go cStk ctx c_pred c_opaque eval_pred].
  rewrite (blk_pred_eval_G bk s t Ct P), cBlk_opaque. unfold cur_is in Ct. rewrite Ct. unfold El.
  destruct t as [o| |k0|k0| | | | | | |]; try contradiction; try reflexivity.
  all: try (destruct o; try contradiction; reflexivity).
  all: try (destruct k0; try contradiction; cbn [o_semicolon]; destruct (is_term bk _); reflexivity).
Qed.
Lemma pos0_list bk C : notd C -> Pos0 (Xl bk C) (El bk).
Proof.
  intros Hnd. split; [apply ends_list| |apply notd_St_blk, Hnd].
  intros t St. unfold El. destruct t as [o| |k0|k0| | | | | | |]; try discriminate.
  all: try (destruct o; try discriminate); try (destruct k0; try discriminate); destruct bk; reflexivity.
Qed.
Lemma pos_list bk C : sk_of bk <> SK_Case -> notd C -> Pos (Xl bk C) (El bk).
Proof.
  intros Hsk Hnd. split; [apply pos0_list, Hnd|]. exists (cStk bk), ((cBlk bk, false) :: C). split; [reflexivity|].
  unfold stmt_ctype. cbn [cStk ctx c_type]. destruct bk; try exact I; exfalso; apply Hsk; reflexivity.
Qed.
(* a child line context on top of a position *)
Definition Ec (pe : bool) (E : RawTokenType -> option nat) (t : RawTokenType) : option nat :=
  if pe && o_kw_else (Some t) then Some 1 else option_map S (E t).
Lemma ends_child pe p X E : ends_as X E -> ends_as ((cCh pe p, false) :: X) (Ec pe E).
Proof.
  intros H s t Ct P. cbn [ending_go cCh ctx c_pred c_opaque]. rewrite ending_go_shift, (H s t Ct P). unfold Ec.
  unfold cur_is in Ct.
  destruct pe; cbn [eval_pred andb]; [|reflexivity]. rewrite Ct.
  destruct t as [o| |k0|k0| | | | | | |]; try contradiction; reflexivity.
Qed.
Lemma pos_child pe p X E : Pos0 X E -> Pos ((cCh pe p, false) :: X) (Ec pe E).
Proof.
  intros [H1 H2 H3]. split; [split|].
  - apply ends_child, H1.
  - intros t St. unfold Ec. rewrite (H2 t St). destruct t as [o| |k0|k0| | | | | | |]; try discriminate.
    all: try (destruct o; try discriminate); try (destruct k0; try discriminate); destruct pe; reflexivity.
  - unfold notd in *. cbn. exact H3.
  - exists (cCh pe p), X. split; [reflexivity|]. exact I.
Qed.
(* a transparent context that never ends by itself (BlockClause) on top of a position *)
Lemma ends_never x X E : c_pred x = P_never -> c_opaque x = false -> ends_as X E -> ends_as ((x, false) :: X) (fun t => option_map S (E t)).
Proof. intros Hp Ho H s t Ct P. cbn [ending_go]. rewrite Hp, Ho. cbn [eval_pred]. rewrite ending_go_shift, (H s t Ct P). reflexivity. Qed.

(* levels: marking contexts as ended and popping a level-0 context do not change the level of a line *)
Lemma first_parent_mark : forall j X, first_parent (mark_ended j X) = first_parent X.
Proof. induction j as [|j IH]; intros [|[c e] r]; cbn [mark_ended first_parent]; try reflexivity. rewrite IH. reflexivity. Qed.
Lemma plain_sum_mark : forall j X, plain_sum (mark_ended j X) = plain_sum X.
Proof. induction j as [|j IH]; intros [|[c e] r]; cbn [mark_ended plain_sum]; try reflexivity. rewrite IH. reflexivity. Qed.
Lemma mark_ended_cons j x fl r : mark_ended (S j) ((x, fl) :: r) = (x, true) :: mark_ended j r.
Proof. reflexivity. Qed.
Lemma mark_ended_idem j X : mark_ended 1 (mark_ended (S j) X) = mark_ended (S j) X.
Proof. destruct X as [|[c e] r]; reflexivity. Qed.
Definition lvl0 (X : list (pctx * bool)) : Prop := exists x fl r, X = (x, fl) :: r /\ c_level x = CL_Level 0%Z.
Definition optpop (pp : bool) (s : pstate) : pstate := if pp then pop_ctx pass s else s.
Definition optpopc (pp : bool) (cx : list (pctx * bool)) : list (pctx * bool) := if pp then tl cx else cx.
Lemma optpop_level pp j X : (pp = true -> lvl0 X) ->
  first_parent (optpopc pp (mark_ended j X)) = first_parent X /\ plain_sum (optpopc pp (mark_ended j X)) = plain_sum X.
Proof.
  intros Hl. destruct pp; cbn [optpopc]; [|split; [apply first_parent_mark|apply plain_sum_mark]].
  destruct (Hl eq_refl) as (x & fl & r & -> & Hx). destruct j as [|j]; cbn [mark_ended tl first_parent plain_sum]; rewrite Hx;
    rewrite ?first_parent_mark, ?plain_sum_mark; split; reflexivity.
Qed.
Lemma lvl0_list bk C : lvl0 (Xl bk C).
Proof. exists (cStk bk), false, ((cBlk bk, false) :: C). split; reflexivity. Qed.
(* finishing the line of a statement, after an optional pop of the statement context *)
Lemma fin_open pp X j s k L c M mc last lv a : (pp = true -> lvl0 X) -> ST s k L c M mc last (mark_ended j X) lv a -> c <> [] ->
  ST (finish_logical_line pass (optpop pp s)) k (L ++ [c]) []
     (M ++ [mkLM (first_parent X) (clamp_u16 (plain_sum X)) (lm_type mc)]) (mkLM None (clamp_u16 (plain_sum X)) LLT_Unknown) (length L)
     (optpopc pp (mark_ended j X)) lv a.
Proof.
  intros Hl H Hc. destruct (optpop_level pp j X Hl) as [E1 E2]. rewrite <- E1, <- E2.
  destruct pp; cbn [optpop optpopc] in *.
  - destruct (Hl eq_refl) as (x & fl & r & -> & _). destruct j; cbn [mark_ended] in H |- *;
      exact (finish_ST _ _ _ _ _ _ _ _ _ _ (pop_ctx_ST _ _ _ _ _ _ _ _ _ _ _ H) Hc).
  - exact (finish_ST _ _ _ _ _ _ _ _ _ _ H Hc).
Qed.
Lemma fin_closed pp X j s k L M mc last lv a : (pp = true -> lvl0 X) -> ST s k L [] M mc last (mark_ended j X) lv a ->
  ST (finish_logical_line pass (optpop pp s)) k L [] M (mkLM (lm_parent mc) (lm_level mc) LLT_Unknown) last (optpopc pp (mark_ended j X)) lv a.
Proof.
  intros Hl H. destruct pp; cbn [optpop optpopc] in *.
  - destruct (Hl eq_refl) as (x & fl & r & -> & _). destruct j; cbn [mark_ended] in H |- *;
      exact (finish_empty_ST _ _ _ _ _ _ _ _ _ (pop_ctx_ST _ _ _ _ _ _ _ _ _ _ _ H)).
  - exact (finish_empty_ST _ _ _ _ _ _ _ _ _ H).
Qed.

(* ---------------- the statements without child lines, at any position *)
Lemma core_simple X E pp f s k L M mc last lv a tf j :
  Pos X E -> (pp = true -> lvl0 X) -> ST s k L [] M mc last X lv a ->
  nth_error T k = Some tI -> nth_error T (S k) = Some tf -> E tf = Some (S j) -> tf <> RTT_Eof -> o_colon (Some tf) = false -> 4 <= f ->
  ST (finish_logical_line pass (optpop pp (RUN f C_structures s))) (S k) (L ++ [[k]]) []
     (M ++ [mkLM (first_parent X) (clamp_u16 (plain_sum X)) (lm_type mc)]) (mkLM None (clamp_u16 (plain_sum X)) LLT_Unknown) (length L)
     (optpopc pp (mark_ended (S j) X)) lv a.
Proof.
  intros [P0 (x & r & -> & Hx)] Hl H Hk Hk1 Ej HnE Oc Hf. destruct f as [|[|[|[|f]]]]; try lia.
  assert (Hkn : tokfin (k)) by tokfin_tac.
  assert (E0 : ending_ctx pass s = None) by (rewrite (pos_ending _ _ _ _ _ _ _ _ _ _ _ _ P0 H Hk); apply (pos_start _ _ P0); reflexivity).
  rewrite (structures_ident _ _ _ _ _ _ _ _ _ _ _ H Hk E0).
  rewrite (statement_ident _ _ _ _ _ _ _ _ _ _ _ _ _ _ H Hk Hk1 HnE Oc E0 Hx).
  pose proof (next_token_ST _ _ _ _ _ _ _ _ _ _ H Hkn) as H1. cbn [app] in H1.
  assert (E1 : ending_ctx pass (next_token pass s) = Some (S j)) by (rewrite (pos_ending _ _ _ _ _ _ _ _ _ _ _ _ P0 H1 Hk1); exact Ej).
  rewrite (statement_stop _ _ _ _ _ _ _ _ _ _ _ _ _ _ _ H1 Hk1 HnE E1).
  pose proof (update_statuses_ST (S j) _ _ _ _ _ _ _ _ _ _ H1) as H2.
  assert (Et : ending_ctx pass (update_statuses pass (S j) (next_token pass s)) = Some 1) by (cbn [mark_ended] in H2; exact (ending_top_ended _ _ _ _ _ _ _ _ _ _ _ H2)).
  rewrite (structures_stop _ _ _ _ _ _ _ _ _ _ _ _ _ H2 Hk1 HnE Et).
  pose proof (update_statuses_ST 1 _ _ _ _ _ _ _ _ _ _ H2) as H3. rewrite mark_ended_idem in H3.
  exact (fin_open pp _ _ _ _ _ _ _ _ _ _ _ Hl H3 ltac:(discriminate)).
Qed.

Lemma core_assign X E pp f s k L M mc last lv a tf j :
  Pos X E -> (pp = true -> lvl0 X) -> ST s k L [] M mc last X lv a -> lm_type mc = LLT_Unknown ->
  nth_error T k = Some tI -> nth_error T (S k) = Some tAssign -> nth_error T (S (S k)) = Some tI ->
  nth_error T (S (S (S k))) = Some tf -> E tf = Some (S j) -> tf <> RTT_Eof -> o_colon (Some tf) = false -> 6 <= f ->
  ST (finish_logical_line pass (optpop pp (RUN f C_structures s))) (S (S (S k))) (L ++ [[k; S k; S (S k)]]) []
     (M ++ [mkLM (first_parent X) (clamp_u16 (plain_sum X)) LLT_Assignment]) (mkLM None (clamp_u16 (plain_sum X)) LLT_Unknown) (length L)
     (optpopc pp (mark_ended (S j) X)) lv a.
Proof.
  intros [P0 (x & r & -> & Hx)] Hl H Hty Hk Hk1 Hk2 Hk3 Ej HnE Oc Hf. destruct f as [|[|[|[|[|[|f]]]]]]; try lia.
  assert (Hkn : tokfin (k)) by tokfin_tac.
  assert (Hkn1 : tokfin (S k)) by tokfin_tac.
  assert (Hkn2 : tokfin (S (S k))) by tokfin_tac.
  assert (E0 : ending_ctx pass s = None) by (rewrite (pos_ending _ _ _ _ _ _ _ _ _ _ _ _ P0 H Hk); apply (pos_start _ _ P0); reflexivity).
  rewrite (structures_ident _ _ _ _ _ _ _ _ _ _ _ H Hk E0).
  rewrite (statement_ident _ _ _ _ _ _ _ _ _ _ _ _ _ _ H Hk Hk1 ltac:(discriminate) eq_refl E0 Hx).
  pose proof (next_token_ST _ _ _ _ _ _ _ _ _ _ H Hkn) as H1. cbn [app] in H1.
  assert (E1 : ending_ctx pass (next_token pass s) = None) by (rewrite (pos_ending _ _ _ _ _ _ _ _ _ _ _ _ P0 H1 Hk1); apply (pos_start _ _ P0); reflexivity).
  rewrite (statement_assign _ _ _ _ _ _ _ _ _ _ _ _ _ H1 Hk1 Hty E1 Hx).
  pose proof (next_token_ST _ _ _ _ _ _ _ _ _ _ H1 Hkn1) as H2. cbn [app] in H2.
  pose proof (set_line_type_ST LLT_Assignment _ _ _ _ _ _ _ _ _ _ H2) as H3.
  match type of H3 with ST ?y _ _ _ _ _ _ _ _ _ => set (s3 := y) in * end.
  assert (E2 : ending_ctx pass s3 = None) by (rewrite (pos_ending _ _ _ _ _ _ _ _ _ _ _ _ P0 H3 Hk2); apply (pos_start _ _ P0); reflexivity).
  rewrite (statement_ident _ _ _ _ _ _ _ _ _ _ _ _ _ _ H3 Hk2 Hk3 HnE Oc E2 Hx).
  pose proof (next_token_ST _ _ _ _ _ _ _ _ _ _ H3 Hkn2) as H4. cbn [app] in H4.
  assert (E3 : ending_ctx pass (next_token pass s3) = Some (S j)) by (rewrite (pos_ending _ _ _ _ _ _ _ _ _ _ _ _ P0 H4 Hk3); exact Ej).
  rewrite (statement_stop _ _ _ _ _ _ _ _ _ _ _ _ _ _ _ H4 Hk3 HnE E3).
  pose proof (update_statuses_ST (S j) _ _ _ _ _ _ _ _ _ _ H4) as H5.
  assert (Et : ending_ctx pass (update_statuses pass (S j) (next_token pass s3)) = Some 1) by (cbn [mark_ended] in H5; exact (ending_top_ended _ _ _ _ _ _ _ _ _ _ _ H5)).
  rewrite (structures_stop _ _ _ _ _ _ _ _ _ _ _ _ _ H5 Hk3 HnE Et).
  pose proof (update_statuses_ST 1 _ _ _ _ _ _ _ _ _ _ H5) as H6. rewrite mark_ended_idem in H6.
  exact (fin_open pp _ _ _ _ _ _ _ _ _ _ _ Hl H6 ltac:(discriminate)).
Qed.


(* ---------------- begin/end, repeat/until, try/finally|except/end at any position *)
(* a closing keyword on a line of its own, in front of the token that ends the statement *)
Lemma close_kw X E f s e Lx Mx mcb lastb lv a tf j tk :
  Pos0 X E -> ST s e Lx [] Mx mcb lastb X lv a -> lm_type mcb = LLT_Unknown ->
  nth_error T e = Some tk -> fin tk = tk -> nth_error T (S e) = Some tf -> E tf = Some (S j) -> tf <> RTT_Eof -> 1 <= f ->
  ST (RUN f C_structures (finish_logical_line pass (take_until pass (no_more_separators pass) (next_token pass s))))
     (S e) (Lx ++ [[e]]) [] (Mx ++ [mkLM (first_parent X) (clamp_u16 (plain_sum X)) LLT_Unknown])
     (mkLM None (clamp_u16 (plain_sum X)) LLT_Unknown) (length Lx) (mark_ended (S j) X) lv a.
Proof.
  intros P0 H Ty He Hfk Hs Ej HnE Hf. destruct f as [|f]; [lia|].
  assert (Hen : tokfin e) by (exists tk; split; [exact He|exact Hfk]).
  pose proof (next_token_ST _ _ _ _ _ _ _ _ _ _ H Hen) as H7. cbn [app] in H7.
  assert (Ct : cur_tt pass (next_token pass s) = Some tf).
  { rewrite (ST_cur_tt _ _ _ _ _ _ _ _ _ _ _ H7 Hs). destruct tf; try reflexivity. contradiction HnE; reflexivity. }
  assert (E7 : ending_ctx pass (next_token pass s) = Some (S j)) by (rewrite (pos_ending _ _ _ _ _ _ _ _ _ _ _ _ P0 H7 Hs); exact Ej).
  rewrite (take_until_stop _ _ (ST_err _ _ _ _ _ _ _ _ _ _ H7)).
  2: { rewrite Ct. discriminate. }
  2: { right. unfold is_ending. rewrite E7. reflexivity. }
  pose proof (finish_ST _ _ _ _ _ _ _ _ _ _ H7 ltac:(discriminate)) as H8. rewrite Ty in H8.
  assert (E8 : ending_ctx pass (finish_logical_line pass (next_token pass s)) = Some (S j)) by (rewrite (pos_ending _ _ _ _ _ _ _ _ _ _ _ _ P0 H8 Hs); exact Ej).
  rewrite (structures_stop _ _ _ _ _ _ _ _ _ _ _ _ _ H8 Hs HnE E8).
  exact (update_statuses_ST (S j) _ _ _ _ _ _ _ _ _ _ H8).
Qed.

Lemma core_block X E pp b f s k L M mc last lv a tf j :
  Pos X E -> (pp = true -> lvl0 X) -> IHfor KBegin b X -> first_parent X = par ->
  ST s k L [] M mc last X lv a -> lm_type mc = LLT_Unknown ->
  nth_error T k = Some tBegin -> toks_at (S k) (render b ++ [tEnd]) ->
  nth_error T (S (S k + length (render b))) = Some tf -> E tf = Some (S j) -> tf <> RTT_Eof -> o_dot (Some tf) = false ->
  8 + need b <= f ->
  let e := S k + length (render b) in
  let lb := pexpected par (1 + plain_sum X) (S k) (S (length L)) b in
  ST (finish_logical_line pass (optpop pp (RUN f C_structures s))) (S e) (L ++ [k] :: map ll_toks lb ++ [[e]]) []
     (M ++ mkLM par (lvl (plain_sum X)) LLT_Unknown :: map meta_of lb ++ [mkLM par (lvl (plain_sum X)) LLT_Unknown])
     (mkLM None (lvl (plain_sum X)) LLT_Unknown) (length L + S (length lb)) (optpopc pp (mark_ended (S j) X)) lv a.
Proof.
  intros [P0 _] Hl IHb Hp H Hty Hk Hb Hfo Ej HnE Od Hf e lb.
  assert (Hkn : tokfin (k)) by tokfin_tac.
  destruct f as [|[|[|[|f]]]]; try lia.
  assert (E0 : ending_ctx pass s = None) by (rewrite (pos_ending _ _ _ _ _ _ _ _ _ _ _ _ P0 H Hk); apply (pos_start _ _ P0); reflexivity).
  rewrite (run_S _ C_structures _ (ST_err _ _ _ _ _ _ _ _ _ _ H)).
  unfold arm_structures. rewrite (ST_cur_tt _ _ _ _ _ _ _ _ _ _ _ H Hk), E0. cbn [tBegin sarm_of].
  cbv delta [sa_begin stmt_block] beta.
  change (ctx (CT_StatementBlock BK_Begin) true P_end (ParserGrammar.L 1)) with (cBlk KBegin).
  destruct (open_block_G (S f) _ _ _ _ _ _ _ _ _ KBegin H Hkn) as [Eq H4]. cbn [sk_of] in Eq. rewrite Eq. clear Eq.
  rewrite Hty, Hp in H4.
  pose proof (fun Hli => IHb (S f) _ _ _ _ _ _ _ _ (S (length L)) ltac:(lia) Hli H4 Hb) as IHb'.
  destruct (IHb' ltac:(rewrite app_length; cbn [length]; lia)) as (mcb & lastb & flb & Tyb & H5). fold lb in H5.
  pose proof (pop_ctx_ST _ _ _ _ _ _ _ _ _ _ _ H5) as H6. fold e in H6.
  match type of H6 with ST ?x _ _ _ _ _ _ _ _ _ => set (sB := x) in * end.
  assert (He : nth_error T e = Some tEnd).
  { specialize (Hb (length (render b)) tEnd). rewrite nth_error_app2, Nat.sub_diag in Hb by lia. exact (Hb eq_refl). }
  assert (Hen : tokfin (e)) by tokfin_tac.
  cbv zeta. rewrite (ST_cur_tt _ _ _ _ _ _ _ _ _ _ _ H6 He). cbn [tEnd o_kw_end].
  pose proof (next_token_ST _ _ _ _ _ _ _ _ _ _ H6 Hen) as H7.
  assert (Ct7 : cur_tt pass (next_token pass sB) = Some tf).
  { rewrite (ST_cur_tt _ _ _ _ _ _ _ _ _ _ _ H7 Hfo). destruct tf; try reflexivity. contradiction HnE; reflexivity. }
  rewrite Ct7, Od. unfold s_loop.
  pose proof (close_kw X E (S (S (S f))) _ _ _ _ _ _ _ _ _ _ tEnd P0 H6 Tyb He eq_refl Hfo Ej HnE ltac:(lia)) as H9. rewrite Hp in H9.
  pose proof (fin_closed pp _ _ _ _ _ _ _ _ _ _ Hl H9) as H10. cbn [lm_parent lm_level] in H10.
  assert (EL : length ((L ++ [[k]]) ++ map ll_toks lb) = length L + S (length lb)) by (rewrite !app_length, map_length; cbn [length]; lia).
  rewrite EL in H10.
  eapply ST_lists; [exact H10| |].
  - repeat (progress (cbn [app]; rewrite <- ?app_assoc)). reflexivity.
  - repeat (progress (cbn [app]; rewrite <- ?app_assoc)). reflexivity.
Qed.

Definition cBC : pctx := ctx CT_BlockClause false P_never (ParserGrammar.L 0).
Lemma core_repeat X E pp b f s k L M mc last lv a tf j :
  Pos X E -> (pp = true -> lvl0 X) -> IHfor KRepeat b X -> first_parent X = par ->
  ST s k L [] M mc last X lv a -> lm_type mc = LLT_Unknown ->
  nth_error T k = Some tRepeat -> toks_at (S k) (render b ++ [tUntil]) ->
  nth_error T (S (S k + length (render b))) = Some tI ->
  nth_error T (S (S (S k + length (render b)))) = Some tf -> E tf = Some (S j) -> tf <> RTT_Eof -> o_colon (Some tf) = false ->
  8 + need b <= f ->
  let e := S k + length (render b) in
  let lb := pexpected par (1 + plain_sum X) (S k) (S (length L)) b in
  ST (finish_logical_line pass (optpop pp (RUN f C_structures s))) (S (S e)) (L ++ [k] :: map ll_toks lb ++ [[e; S e]]) []
     (M ++ mkLM par (lvl (plain_sum X)) LLT_Unknown :: map meta_of lb ++ [mkLM par (lvl (plain_sum X)) LLT_Unknown])
     (mkLM None (lvl (plain_sum X)) LLT_Unknown) (length L + S (length lb)) (optpopc pp (mark_ended (S j) X)) lv a.
Proof.
  intros [P0 (x0 & r0 & EX & Hx0)] Hl IHb Hp H Hty Hk Hb Hi Hfo Ej HnE Oc Hf e lb.
  assert (Hkn : tokfin (k)) by tokfin_tac.
  destruct f as [|[|[|[|f]]]]; try lia.
  assert (E0 : ending_ctx pass s = None) by (rewrite (pos_ending _ _ _ _ _ _ _ _ _ _ _ _ P0 H Hk); apply (pos_start _ _ P0); reflexivity).
  rewrite (run_S _ C_structures _ (ST_err _ _ _ _ _ _ _ _ _ _ H)).
  unfold arm_structures. rewrite (ST_cur_tt _ _ _ _ _ _ _ _ _ _ _ H Hk), E0. cbn [tRepeat sarm_of].
  cbv delta [sa_repeat stmt_block] beta.
  change (ctx (CT_StatementBlock BK_Repeat) true P_until (ParserGrammar.L 1)) with (cBlk KRepeat).
  destruct (open_block_G (S f) _ _ _ _ _ _ _ _ _ KRepeat H Hkn) as [Eq H4]. cbn [sk_of] in Eq. rewrite Eq. clear Eq.
  rewrite Hty, Hp in H4.
  pose proof (fun Hli => IHb (S f) _ _ _ _ _ _ _ _ (S (length L)) ltac:(lia) Hli H4 Hb) as IHb'.
  destruct (IHb' ltac:(rewrite app_length; cbn [length]; lia)) as (mcb & lastb & flb & Tyb & H5). fold lb in H5.
  pose proof (pop_ctx_ST _ _ _ _ _ _ _ _ _ _ _ H5) as H6. fold e in H6.
  match type of H6 with ST ?x _ _ _ _ _ _ _ _ _ => set (sB := x) in * end.
  assert (He : nth_error T e = Some tUntil).
  { specialize (Hb (length (render b)) tUntil). rewrite nth_error_app2, Nat.sub_diag in Hb by lia. exact (Hb eq_refl). }
  assert (Hen : tokfin (e)) by tokfin_tac.
  assert (Hen1 : tokfin (S e)) by (exists tI; split; [exact Hi|reflexivity]).
  cbv zeta.
  (* `until` Identifier, inside a BlockClause context *)
  pose proof (next_token_ST _ _ _ _ _ _ _ _ _ _ H6 Hen) as H7. cbn [app] in H7.
  change (ctx CT_BlockClause false P_never (ParserGrammar.L 0)) with cBC.
  pose proof (push_ctx_ST cBC _ _ _ _ _ _ _ _ _ _ H7) as H8.
  match type of H8 with ST ?x _ _ _ _ _ _ _ _ _ => set (s8 := x) in * end.
  assert (EB : ends_as ((cBC, false) :: X) (fun t => option_map S (E t))) by (apply ends_never; [reflexivity|reflexivity|exact (pos_ends _ _ P0)]).
  assert (E8 : ending_ctx pass s8 = None).
  { unfold ending_ctx. rewrite (ST_ctx _ _ _ _ _ _ _ _ _ _ H8), (EB s8 tI (ST_cur_is _ _ _ _ _ _ _ _ _ _ _ H8 Hi) I).
    rewrite (pos_start _ _ P0 tI eq_refl). reflexivity. }
  rewrite (statement_ident _ _ _ _ _ _ _ _ _ _ _ _ _ _ H8 Hi Hfo HnE Oc E8 I).
  pose proof (next_token_ST _ _ _ _ _ _ _ _ _ _ H8 Hen1) as H9. cbn [app] in H9.
  assert (E9 : ending_ctx pass (next_token pass s8) = Some (S (S j))).
  { unfold ending_ctx. rewrite (ST_ctx _ _ _ _ _ _ _ _ _ _ H9), (EB _ tf (ST_cur_is _ _ _ _ _ _ _ _ _ _ _ H9 Hfo) (plain_nth _ _ Hfo)), Ej. reflexivity. }
  rewrite (statement_stop _ _ _ _ _ _ _ _ _ _ _ _ _ _ _ H9 Hfo HnE E9).
  pose proof (update_statuses_ST (S (S j)) _ _ _ _ _ _ _ _ _ _ H9) as H10. rewrite mark_ended_cons in H10.
  pose proof (pop_ctx_ST _ _ _ _ _ _ _ _ _ _ _ H10) as H11.
  match type of H11 with ST ?x _ _ _ _ _ _ _ _ _ => set (s11 := x) in * end.
  assert (Top : exists r1, mark_ended (S j) X = (x0, true) :: r1) by (rewrite EX; cbn [mark_ended]; eauto).
  destruct Top as [r1 Top].
  assert (Ct : cur_tt pass s11 = Some tf).
  { rewrite (ST_cur_tt _ _ _ _ _ _ _ _ _ _ _ H11 Hfo). destruct tf; try reflexivity. contradiction HnE; reflexivity. }
  assert (E11 : ending_ctx pass s11 = Some 1) by (rewrite Top in H11; exact (ending_top_ended _ _ _ _ _ _ _ _ _ _ _ H11)).
  rewrite (take_until_stop _ _ (ST_err _ _ _ _ _ _ _ _ _ _ H11)).
  2: { rewrite Ct. discriminate. }
  2: { right. unfold is_ending. rewrite E11. reflexivity. }
  pose proof (finish_ST _ _ _ _ _ _ _ _ _ _ H11 ltac:(discriminate)) as H12.
  rewrite first_parent_mark, plain_sum_mark, Tyb, Hp in H12.
  unfold s_loop.
  assert (E12 : ending_ctx pass (finish_logical_line pass s11) = Some 1) by (rewrite Top in H12; exact (ending_top_ended _ _ _ _ _ _ _ _ _ _ _ H12)).
  rewrite (structures_stop _ _ _ _ _ _ _ _ _ _ _ _ _ H12 Hfo HnE E12).
  pose proof (update_statuses_ST 1 _ _ _ _ _ _ _ _ _ _ H12) as H13. rewrite mark_ended_idem in H13.
  pose proof (fin_closed pp _ _ _ _ _ _ _ _ _ _ Hl H13) as H14. cbn [lm_parent lm_level] in H14.
  assert (EL : length ((L ++ [[k]]) ++ map ll_toks lb) = length L + S (length lb)) by (rewrite !app_length, map_length; cbn [length]; lia).
  rewrite EL in H14.
  eapply ST_lists; [exact H14| |].
  - repeat (progress (cbn [app]; rewrite <- ?app_assoc)). reflexivity.
  - repeat (progress (cbn [app]; rewrite <- ?app_assoc)). reflexivity.
Qed.

(* try b finally|except c end: the two variants differ in the block kinds only *)
Lemma core_try (ex : bool) X E pp b (rc : list RawTokenType) (needc : nat) (lcf : nat -> nat -> list lline) f s k L M mc last lv a tf j :
  let k1 := if ex then KTryE else KTry in let k2 := if ex then KExcept else KFinally in
  Pos X E -> (pp = true -> lvl0 X) -> IHfor k1 b X ->
  (forall f s k Ls M mc last lv a li, needc <= f -> li = length Ls -> ST s k Ls [] M mc last ((cBlk k2, false) :: X) lv a ->
     toks_at k (rc ++ [tTerm k2]) ->
     exists mc' last' fl, lm_type mc' = LLT_Unknown /\
       ST (RUN f (slc k2) s) (k + length rc) (Ls ++ map ll_toks (lcf k li)) [] (M ++ map meta_of (lcf k li)) mc' last' ((cBlk k2, fl) :: X) lv a) ->
  first_parent X = par ->
  ST s k L [] M mc last X lv a -> lm_type mc = LLT_Unknown ->
  nth_error T k = Some tTry -> toks_at (S k) (render b ++ [tTerm k1]) ->
  toks_at (S (S k + length (render b))) (rc ++ [tEnd]) ->
  nth_error T (S (S (S k + length (render b)) + length rc)) = Some tf -> E tf = Some (S j) -> tf <> RTT_Eof ->
  8 + need b + needc <= f ->
  let m := S k + length (render b) in
  let e := S m + length rc in
  let lb := pexpected par (1 + plain_sum X) (S k) (S (length L)) b in
  let lc := lcf (S m) (S (length L) + length lb + 1) in
  ST (finish_logical_line pass (optpop pp (RUN f C_structures s))) (S e)
     (L ++ [k] :: map ll_toks lb ++ [m] :: map ll_toks lc ++ [[e]]) []
     (M ++ mkLM par (lvl (plain_sum X)) LLT_Unknown :: map meta_of lb ++ mkLM par (lvl (plain_sum X)) LLT_Unknown :: map meta_of lc
        ++ [mkLM par (lvl (plain_sum X)) LLT_Unknown])
     (mkLM None (lvl (plain_sum X)) LLT_Unknown) (length L + S (length lb) + S (length lc)) (optpopc pp (mark_ended (S j) X)) lv a.
Proof.
  intros k1 k2 [P0 _] Hl IHb IHc Hp H Hty Hk Hb Hcn Hfo Ej HnE Hf m e lb lc.
  assert (Hkn : tokfin (k)) by tokfin_tac.
  destruct f as [|[|[|[|f]]]]; try lia.
  assert (E0 : ending_ctx pass s = None) by (rewrite (pos_ending _ _ _ _ _ _ _ _ _ _ _ _ P0 H Hk); apply (pos_start _ _ P0); reflexivity).
  rewrite (run_S _ C_structures _ (ST_err _ _ _ _ _ _ _ _ _ _ H)).
  unfold arm_structures. rewrite (ST_cur_tt _ _ _ _ _ _ _ _ _ _ _ H Hk), E0. cbn [tTry sarm_of].
  cbv delta [sa_try stmt_block] beta.
  destruct ex; subst k1 k2.
  all: match goal with |- context [cBlk ?K] => idtac | _ => idtac end.
  - (* try … except … end *)
    change (ctx (CT_StatementBlock BK_Try) true P_except_finally (ParserGrammar.L 1)) with (cBlk KTryE).
    destruct (open_block_G (S f) _ _ _ _ _ _ _ _ _ KTryE H Hkn) as [Eq H4]. cbn [sk_of] in Eq. rewrite Eq. clear Eq.
    rewrite Hty, Hp in H4.
    pose proof (fun Hli => IHb (S f) _ _ _ _ _ _ _ _ (S (length L)) ltac:(lia) Hli H4 Hb) as IHb'.
    destruct (IHb' ltac:(rewrite app_length; cbn [length]; lia)) as (mcb & lastb & flb & Tyb & H5). fold lb in H5.
    pose proof (pop_ctx_ST _ _ _ _ _ _ _ _ _ _ _ H5) as H6. fold m in H6.
    match type of H6 with ST ?x _ _ _ _ _ _ _ _ _ => set (sB := x) in * end.
    assert (Hm : nth_error T m = Some tExcept).
    { specialize (Hb (length (render b)) tExcept). rewrite nth_error_app2, Nat.sub_diag in Hb by lia. exact (Hb eq_refl). }
    assert (Hmn : tokfin (m)) by tokfin_tac.
    cbv zeta. rewrite (ST_cur_tt _ _ _ _ _ _ _ _ _ _ _ H6 Hm). cbn [tExcept].
    change (ctx (CT_StatementBlock BK_Except) true P_else_end (ParserGrammar.L 1)) with (cBlk KExcept).
    destruct (open_block_G (S f) _ _ _ _ _ _ _ _ _ KExcept H6 Hmn) as [Eq2 H4']. cbn [sk_of] in Eq2. rewrite Eq2. clear Eq2.
    rewrite Tyb, Hp in H4'. fold m in Hcn.
    pose proof (fun Hli => IHc (S f) _ _ _ _ _ _ _ _ (S (length L) + length lb + 1) ltac:(lia) Hli H4' Hcn) as IHc'.
    destruct (IHc' ltac:(rewrite !app_length, map_length; cbn [length]; lia)) as (mcc & lastc & flc & Tyc & H5'). fold lc in H5'.
    pose proof (pop_ctx_ST _ _ _ _ _ _ _ _ _ _ _ H5') as H6'. fold e in H6'.
    match type of H6' with ST ?x _ _ _ _ _ _ _ _ _ => set (sC := x) in * end.
    assert (He : nth_error T e = Some tEnd).
    { specialize (Hcn (length rc) tEnd). rewrite nth_error_app2, Nat.sub_diag in Hcn by lia. exact (Hcn eq_refl). }
    rewrite (ST_cur_tt _ _ _ _ _ _ _ _ _ _ _ H6' He). cbn [tEnd o_kw_else]. unfold s_loop.
    pose proof (close_kw X E (S (S (S f))) _ _ _ _ _ _ _ _ _ _ tEnd P0 H6' Tyc He eq_refl Hfo Ej HnE ltac:(lia)) as H9. rewrite Hp in H9.
    pose proof (fin_closed pp _ _ _ _ _ _ _ _ _ _ Hl H9) as H10. cbn [lm_parent lm_level] in H10.
    assert (EL : length ((((L ++ [[k]]) ++ map ll_toks lb) ++ [[m]]) ++ map ll_toks lc) = length L + S (length lb) + S (length lc))
      by (rewrite !app_length, !map_length; cbn [length]; lia).
    rewrite EL in H10.
    eapply ST_lists; [exact H10| |]; repeat (progress (cbn [app]; rewrite <- ?app_assoc)); reflexivity.
  - (* try … finally … end *)
    change (ctx (CT_StatementBlock BK_Try) true P_except_finally (ParserGrammar.L 1)) with (cBlk KTry).
    destruct (open_block_G (S f) _ _ _ _ _ _ _ _ _ KTry H Hkn) as [Eq H4]. cbn [sk_of] in Eq. rewrite Eq. clear Eq.
    rewrite Hty, Hp in H4.
    pose proof (fun Hli => IHb (S f) _ _ _ _ _ _ _ _ (S (length L)) ltac:(lia) Hli H4 Hb) as IHb'.
    destruct (IHb' ltac:(rewrite app_length; cbn [length]; lia)) as (mcb & lastb & flb & Tyb & H5). fold lb in H5.
    pose proof (pop_ctx_ST _ _ _ _ _ _ _ _ _ _ _ H5) as H6. fold m in H6.
    match type of H6 with ST ?x _ _ _ _ _ _ _ _ _ => set (sB := x) in * end.
    assert (Hm : nth_error T m = Some tFinally).
    { specialize (Hb (length (render b)) tFinally). rewrite nth_error_app2, Nat.sub_diag in Hb by lia. exact (Hb eq_refl). }
    assert (Hmn : tokfin (m)) by tokfin_tac.
    cbv zeta. rewrite (ST_cur_tt _ _ _ _ _ _ _ _ _ _ _ H6 Hm). cbn [tFinally].
    change (ctx (CT_StatementBlock BK_Finally) true P_else_end (ParserGrammar.L 1)) with (cBlk KFinally).
    destruct (open_block_G (S f) _ _ _ _ _ _ _ _ _ KFinally H6 Hmn) as [Eq2 H4']. cbn [sk_of] in Eq2. rewrite Eq2. clear Eq2.
    rewrite Tyb, Hp in H4'. fold m in Hcn.
    pose proof (fun Hli => IHc (S f) _ _ _ _ _ _ _ _ (S (length L) + length lb + 1) ltac:(lia) Hli H4' Hcn) as IHc'.
    destruct (IHc' ltac:(rewrite !app_length, map_length; cbn [length]; lia)) as (mcc & lastc & flc & Tyc & H5'). fold lc in H5'.
    pose proof (pop_ctx_ST _ _ _ _ _ _ _ _ _ _ _ H5') as H6'. fold e in H6'.
    match type of H6' with ST ?x _ _ _ _ _ _ _ _ _ => set (sC := x) in * end.
    assert (He : nth_error T e = Some tEnd).
    { specialize (Hcn (length rc) tEnd). rewrite nth_error_app2, Nat.sub_diag in Hcn by lia. exact (Hcn eq_refl). }
    rewrite (ST_cur_tt _ _ _ _ _ _ _ _ _ _ _ H6' He). cbn [tEnd o_kw_else]. unfold s_loop.
    pose proof (close_kw X E (S (S (S f))) _ _ _ _ _ _ _ _ _ _ tEnd P0 H6' Tyc He eq_refl Hfo Ej HnE ltac:(lia)) as H9. rewrite Hp in H9.
    pose proof (fin_closed pp _ _ _ _ _ _ _ _ _ _ Hl H9) as H10. cbn [lm_parent lm_level] in H10.
    assert (EL : length ((((L ++ [[k]]) ++ map ll_toks lb) ++ [[m]]) ++ map ll_toks lc) = length L + S (length lb) + S (length lc))
      by (rewrite !app_length, !map_length; cbn [length]; lia).
    rewrite EL in H10.
    eapply ST_lists; [exact H10| |]; repeat (progress (cbn [app]; rewrite <- ?app_assoc)); reflexivity.
Qed.

End Frame.
Ltac tokfin_tac :=
  match goal with |- tokfin ?k =>
    match goal with H : nth_error T k = Some ?t |- _ => exists t; split; [exact H|try reflexivity] end end.


(* ================================================================== *)
(* states of any line-stack shape: lines Ls, current_line stack cs (the current line need not be the last
   line: after a child line context returns, the current line is the header line again) *)
Notation RUN := (run pass []).
Definition GS (s : pstate) (k : nat) (Ls : list (list nat)) (cs : list nat) (M : list lmeta) (last : nat)
           (cx : list (pctx * bool)) (lv : levels) (at_ : list nat) : Prop :=
  kst pass s = mkK Ls cs k last /\ metas pass s = M /\ length M = length Ls /\ restv s = (mix k, cx, [], false, lv, at_, None).
Lemma ST_GS stk s k L c M mc last cx lv a :
  ST stk s k L c M mc last cx lv a -> GS s k (L ++ [c]) (length L :: stk) (M ++ [mc]) last cx lv a.
Proof. intros (K & Mt & Ml & R). split; [exact K|split; [exact Mt|split; [|exact R]]]. rewrite !app_length, Ml. reflexivity. Qed.
Lemma GS_ST stk s k LL cs MM last cx lv a L c M mc :
  GS s k LL cs MM last cx lv a -> LL = L ++ [c] -> MM = M ++ [mc] -> cs = length L :: stk -> ST stk s k L c M mc last cx lv a.
Proof.
  intros (K & Mt & Ml & R) -> -> ->. split; [exact K|split; [exact Mt|split; [|exact R]]].
  rewrite !app_length in Ml. cbn [length] in Ml. lia.
Qed.
Lemma GS_lists s k Ls Ls' cs M M' last cx lv a :
  GS s k Ls cs M last cx lv a -> Ls = Ls' -> M = M' -> GS s k Ls' cs M' last cx lv a.
Proof. intros H -> ->. exact H. Qed.
Lemma GS_err s k Ls cs M last cx lv a : GS s k Ls cs M last cx lv a -> has_err pass s = false.
Proof. intros (_ & _ & _ & R). unfold restv in R. unfold has_err. injection R as _ _ _ _ _ _ E. rewrite E. reflexivity. Qed.
Lemma GS_toks s k Ls cs M last cx lv a : GS s k Ls cs M last cx lv a -> ps_toks pass s = mix k.
Proof. intros (_ & _ & _ & R). unfold restv in R. congruence. Qed.
Lemma GS_ctx s k Ls cs M last cx lv a : GS s k Ls cs M last cx lv a -> ps_ctx pass s = cx.
Proof. intros (_ & _ & _ & R). unfold restv in R. congruence. Qed.
Lemma GS_pidx s k Ls cs M last cx lv a : GS s k Ls cs M last cx lv a -> pidx pass s = k.
Proof. intros (K & _). unfold pidx. rewrite K. reflexivity. Qed.
Lemma GS_cur_ref s k Ls h cs M last cx lv a : GS s k Ls (h :: cs) M last cx lv a -> cur_ref pass s = h.
Proof. intros (K & _). unfold cur_ref. rewrite K. reflexivity. Qed.
Lemma GS_cur_tt s k Ls cs M last cx lv a t : GS s k Ls cs M last cx lv a -> nth_error T k = Some t ->
  cur_tt pass s = match t with RTT_Eof => None | _ => Some t end.
Proof.
  intros H Ht. assert (Hk : k < n) by (apply nth_error_Some; congruence).
  apply (cur_tt_G s (mix k) k t (GS_toks _ _ _ _ _ _ _ _ _ H) (GS_pidx _ _ _ _ _ _ _ _ _ H) Hk). rewrite mix_nth_ge by lia. exact Ht.
Qed.

Lemma emit_KC_GS m s k Ls cs M last cx lv a : GS s k Ls cs M last cx lv a ->
  GS (p_emit pass KC m s) k (Ls ++ [[]]) (length Ls :: cs) (M ++ [m]) (length Ls) cx lv a.
Proof.
  intros H. pose proof (GS_err _ _ _ _ _ _ _ _ _ H) as E. destruct H as (K & Mt & Ml & R). split; [|split; [|split]].
  - rewrite (kst_p_emit pass KC m s E), K. reflexivity.
  - rewrite (metas_p_emit _ _ _ E), Mt. reflexivity.
  - rewrite !app_length, Ml. reflexivity.
  - rewrite restv_p_emit. exact R.
Qed.
Lemma emit_Kc_GS s k Ls cs M last cx lv a : GS s k Ls cs M last cx lv a ->
  GS (p_emit pass Kc lm0 s) k Ls (pop_keep cs) M last cx lv a.
Proof.
  intros H. pose proof (GS_err _ _ _ _ _ _ _ _ _ H) as E. destruct H as (K & Mt & Ml & R). split; [|split; [|split]].
  - rewrite (kst_p_emit pass Kc lm0 s E), K. reflexivity.
  - rewrite (metas_p_emit _ _ _ E), Mt. reflexivity.
  - exact Ml.
  - rewrite restv_p_emit. exact R.
Qed.
Lemma next_token_GS s k Ls h cs M last cx lv a : GS s k Ls (h :: cs) M last cx lv a -> tokfin k ->
  GS (next_token pass s) (S k) (upd_nth h (fun l => l ++ [k]) Ls) (h :: cs) M last cx lv a.
Proof.
  intros H Hkf. pose proof (tokfin_lt k Hkf) as Hk.
  destruct (next_token_G s (mix k) k (GS_err _ _ _ _ _ _ _ _ _ H) (GS_toks _ _ _ _ _ _ _ _ _ H) (mix_plain k) (GS_pidx _ _ _ _ _ _ _ _ _ H) Hk (mix_length k)) as (K1 & M1 & R1).
  destruct H as (K & Mt & Ml & R). split; [|split; [|split]].
  - rewrite K1, K. cbn [k_step k_pi k_lines k_cur k_last k_top hd]. rewrite (nth_error_seq0 _ _ Hk). reflexivity.
  - rewrite M1. exact Mt.
  - rewrite upd_nth_len. exact Ml.
  - rewrite R1, (mix_step k Hkf). exact R.
Qed.

(* take_separators_on_last_line in front of one `;`, any line-stack shape *)
Lemma take_separators_GS lvl_ s k Ls h cs M last cx lv a t' :
  GS s k Ls (h :: cs) M last cx lv a ->
  nth_error T k = Some tSemi -> nth_error T (S k) = Some t' -> t' <> tSemi ->
  nth last Ls [] <> [] ->
  GS (take_separators_on_last_line pass lvl_ s) (S k) (upd_nth last (fun l => l ++ [k]) Ls) (h :: cs) M last cx lv a.
Proof.
  intros H Hk Hk1 Hne Hnl. pose proof (GS_err _ _ _ _ _ _ _ _ _ H) as E.
  assert (Hkn : k < n) by (apply nth_error_Some; congruence).
  unfold take_separators_on_last_line, guard. rewrite E, (GS_cur_tt _ _ _ _ _ _ _ _ _ _ H Hk). cbn [tSemi o_semicolon negb].
  destruct H as (K & Mt & Ml & R).
  set (s1 := p_emit pass KR lm0 s).
  assert (K1 : kst pass s1 = mkK Ls (last :: h :: cs) k last) by (subst s1; rewrite (kst_p_emit pass KR lm0 s E), K; reflexivity).
  assert (M1 : metas pass s1 = M) by (subst s1; rewrite (metas_p_emit _ _ _ E); exact Mt).
  assert (R1 : restv s1 = (mix k, cx, [], false, lv, a, None)) by (subst s1; rewrite restv_p_emit; exact R).
  assert (A1 : at_start pass s1 = false).
  { unfold at_start, cur_toks, cur_ref. rewrite K1. cbn [k_top k_cur hd k_lines].
    destruct (nth last Ls []); [contradiction|reflexivity]. }
  rewrite A1.
  set (s2 := push_ctx pass (mkCtx CT_Utility true P_never lvl_) s1).
  assert (E1 : has_err pass s1 = false) by (unfold has_err; unfold restv in R1; injection R1 as _ _ _ _ _ _ X; rewrite X; reflexivity).
  assert (F2 : kst pass s2 = kst pass s1 /\ metas pass s2 = metas pass s1 /\ restv s2 = (mix k, (mkCtx CT_Utility true P_never lvl_, false) :: cx, [], false, lv, a, None)).
  { subst s2. unfold push_ctx, guard. rewrite E1. repeat split. unfold restv in *. cbn.
    injection R1 as X1 X2 X3 X4 X5 X6 X7. rewrite X1, X2, X3, X4, X5, X6, X7. reflexivity. }
  destruct F2 as (K2 & M2 & R2).
  assert (T2 : ps_toks pass s2 = mix k) by (unfold restv in R2; congruence).
  assert (Hk' : nth_error (mix k) k = Some tSemi) by (rewrite mix_nth_ge by lia; exact Hk).
  assert (Hkn1 : S k < n) by (apply nth_error_Some; congruence).
  assert (Hk1' : nth_error (mix k) (S k) = Some t') by (rewrite mix_nth_ge by lia; exact Hk1).
  assert (P2 : pidx pass s2 = k) by (unfold pidx; rewrite K2, K1; reflexivity).
  assert (E2 : has_err pass s2 = false) by (unfold has_err; unfold restv in R2; injection R2 as _ _ _ _ _ _ X; rewrite X; reflexivity).
  destruct (next_token_G s2 (mix k) k E2 T2 (mix_plain k) P2 Hkn (mix_length k)) as (K3 & M3 & R3). set (s3 := next_token pass s2) in *.
  assert (T3 : ps_toks pass s3 = mix k) by (unfold restv in R3, R2; congruence).
  assert (P3 : pidx pass s3 = S k) by (unfold pidx; rewrite K3, k_pi_KT; fold (pidx pass s2); rewrite P2; reflexivity).
  assert (TU : take_until pass (no_more_separators pass) s2 = s3).
  { unfold take_until, simple_op_until, op_until.
    assert (Hrem : remaining pass s2 + 2 = S (S (remaining pass s2))) by lia. rewrite Hrem.
    cbn [op_until_go]. rewrite E2, (cur_tt_G s2 (mix k) k tSemi T2 P2 Hkn Hk'). cbn [tSemi].
    unfold no_more_separators at 1. rewrite (cur_tt_G s2 (mix k) k tSemi T2 P2 Hkn Hk'). cbn [tSemi o_semicolon negb].
    assert (IE : is_ending pass s2 = false).
    { unfold is_ending, ending_ctx. assert (C2 : ps_ctx pass s2 = (mkCtx CT_Utility true P_never lvl_, false) :: cx) by (unfold restv in R2; congruence).
      rewrite C2. reflexivity. }
    rewrite IE. fold s3.
    assert (E3 : has_err pass s3 = false).
    { unfold has_err. unfold restv in R3, R2. assert (X : ps_err pass s3 = None) by congruence. rewrite X. reflexivity. }
    rewrite E3. rewrite (cur_tt_G s3 (mix k) (S k) t' T3 P3 Hkn1 Hk1').
    destruct t' as [o| |k0|k0| | | | | | |]; try reflexivity;
      unfold no_more_separators; rewrite (cur_tt_G s3 (mix k) (S k) _ T3 P3 Hkn1 Hk1'); try reflexivity.
    destruct o; try reflexivity. exfalso. apply Hne. reflexivity. }
  rewrite TU.
  assert (E3 : has_err pass s3 = false).
  { unfold has_err. unfold restv in R3, R2. assert (X : ps_err pass s3 = None) by congruence. rewrite X. reflexivity. }
  set (s4 := pop_ctx pass s3).
  assert (F4 : kst pass s4 = kst pass s3 /\ metas pass s4 = metas pass s3 /\ restv s4 = (mix k, cx, [], false, lv, a, None)).
  { subst s4. unfold pop_ctx, guard. rewrite E3. repeat split. unfold restv in *. cbn.
    rewrite R2 in R3. injection R3 as X1 X2 X3 X4 X5 X6 X7. rewrite X1, X2, X3, X4, X5, X6, X7. reflexivity. }
  destruct F4 as (K4 & M4 & R4).
  assert (E4 : has_err pass s4 = false) by (unfold has_err; unfold restv in R4; injection R4 as _ _ _ _ _ _ X; rewrite X; reflexivity).
  split; [|split; [|split]].
  - rewrite (kst_p_emit pass Kr lm0 s4 E4), K4, K3, K2, K1. cbn [k_step k_pi k_lines k_cur k_last k_top hd pop_keep].
    rewrite (nth_error_seq0 _ _ Hkn). reflexivity.
  - rewrite (metas_p_emit _ _ _ E4). cbn [appends]. rewrite M4, M3, M2. exact M1.
  - rewrite upd_nth_len. exact Ml.
  - rewrite restv_p_emit, (mix_step k (tokfin_semi k Hk)). exact R4.
Qed.

(* finish_logical_line on a non-empty current line, any line-stack shape *)
Lemma finish_GS s k Ls h cs M last cx lv a : GS s k Ls (h :: cs) M last cx lv a -> nth h Ls [] <> [] ->
  GS (finish_logical_line pass s) k (Ls ++ [[]]) (length Ls :: cs)
     (upd_nth h (fun m => mkLM (first_parent cx) (clamp_u16 (plain_sum cx)) (lm_type m)) M ++ [mkLM None (clamp_u16 (plain_sum cx)) LLT_Unknown])
     h cx lv a.
Proof.
  intros H Hc. pose proof (GS_err _ _ _ _ _ _ _ _ _ H) as E.
  pose proof (GS_cur_ref _ _ _ _ _ _ _ _ _ _ H) as Rf.
  assert (A : at_start pass s = false).
  { unfold at_start, cur_toks. rewrite Rf. destruct H as (K & _). rewrite K. cbn [k_lines]. destruct (nth h Ls []); [contradiction|reflexivity]. }
  unfold finish_logical_line, guard. rewrite E, A.
  rewrite (portability_noop_G s (toks_plain_G s k (GS_toks _ _ _ _ _ _ _ _ _ H))).
  replace (remaining pass s + 2) with (S (remaining pass s + 1)) by lia.
  rewrite (inline_noop s _ (not_inline_G s (mix k) k (GS_toks _ _ _ _ _ _ _ _ _ H) (mix_plain k) (GS_pidx _ _ _ _ _ _ _ _ _ H))).
  assert (GL : get_context_level pass s = (first_parent cx, clamp_u16 (plain_sum cx))).
  { unfold get_context_level. rewrite (GS_ctx _ _ _ _ _ _ _ _ _ H), ctx_level_go_spec. reflexivity. }
  rewrite GL.
  destruct H as (K & Mt & Ml & R).
  assert (U : ps_cur_unfinished pass s = false /\ ps_unfinished pass s = []) by (unfold restv in R; split; congruence).
  destruct U as [U1 U2]. rewrite U1, U2. cbn [fold_left].
  set (s2 := set_unfinished pass (ps_unfinished pass (set_unfinished pass [] false s)) false (set_unfinished pass [] false s)).
  assert (K2 : kst pass s2 = kst pass s) by reflexivity.
  assert (M2 : metas pass s2 = metas pass s) by reflexivity.
  assert (R2 : restv s2 = restv s) by (unfold restv in *; subst s2; cbn; injection R as R1 R2' R3 R4 R5 R6 R7; rewrite R3, R4; reflexivity).
  assert (E2 : has_err pass s2 = false) by exact E.
  assert (Rf2 : cur_ref pass s2 = h) by exact Rf.
  rewrite Rf2.
  set (s3 := p_set_meta pass h (fun m => mkLM (first_parent cx) (clamp_u16 (plain_sum cx)) (lm_type m)) s2).
  assert (E3 : has_err pass s3 = false) by (subst s3; rewrite has_err_p_set_meta; exact E2).
  split; [|split; [|split]].
  - rewrite (kst_p_emit pass KL _ s3 E3). subst s3. rewrite kst_p_set_meta, K2, K. reflexivity.
  - rewrite (metas_p_emit _ _ _ E3). cbn [appends]. subst s3. rewrite (metas_p_set_meta pass _ _ _ E2), M2, Mt. reflexivity.
  - rewrite !app_length, upd_nth_len. cbn [length]. lia.
  - rewrite restv_p_emit. subst s3. rewrite restv_p_set_meta, R2. exact R.
Qed.

(* list surgery *)
Lemma upd_nth_mid_eq {A} (f : A -> A) i (l l1 : list A) x l2 : l = l1 ++ x :: l2 -> length l1 = i -> upd_nth i f l = l1 ++ f x :: l2.
Proof. intros -> <-. induction l1 as [|y l1 IH]; cbn; [reflexivity|]. rewrite IH. reflexivity. Qed.
Lemma nth_mid_eq {A} i (l l1 : list A) x l2 d : l = l1 ++ x :: l2 -> length l1 = i -> nth i l d = x.
Proof. intros -> <-. rewrite app_nth2, Nat.sub_diag by lia. reflexivity. Qed.
Lemma nth_upd_nth_ne i j (x : list nat) (l : list (list nat)) : nth i l [] <> [] -> nth i (upd_nth j (fun c => c ++ x) l) [] <> [].
Proof.
  revert i j. induction l as [|y l IH]; intros i j H; [destruct i; contradiction|].
  destruct j as [|j]; destruct i as [|i]; cbn in *; try exact H.
  - destruct y; [contradiction|discriminate].
  - apply IH, H.
Qed.

(* ================================================================== *)
(* more primitives on states of any line-stack shape (for the arm lines of a case statement: the current
   line of an arm is followed by the child lines of the previous arm) *)
Lemma push_ctx_GS c0 s k Ls cs M last cx lv a :
  GS s k Ls cs M last cx lv a -> GS (push_ctx pass c0 s) k Ls cs M last ((c0, false) :: cx) lv a.
Proof.
  intros H. pose proof (GS_err _ _ _ _ _ _ _ _ _ H) as E. destruct H as (K & Mt & Ml & R).
  unfold push_ctx, guard. rewrite E. unfold GS, kst, metas, restv in *. cbn. repeat split; try assumption.
  injection R as R1 R2 R3 R4 R5 R6 R7. rewrite R1, R2, R3, R4, R5, R6, R7. reflexivity.
Qed.
Lemma pop_ctx_GS s k Ls cs M last x cx lv a :
  GS s k Ls cs M last (x :: cx) lv a -> GS (pop_ctx pass s) k Ls cs M last cx lv a.
Proof.
  intros H. pose proof (GS_err _ _ _ _ _ _ _ _ _ H) as E. destruct H as (K & Mt & Ml & R).
  unfold pop_ctx, guard. rewrite E. unfold GS, kst, metas, restv in *. cbn. repeat split; try assumption.
  injection R as R1 R2 R3 R4 R5 R6 R7. rewrite R1, R2, R3, R4, R5, R6, R7. reflexivity.
Qed.
Lemma update_statuses_GS j s k Ls cs M last cx lv a :
  GS s k Ls cs M last cx lv a -> GS (update_statuses pass j s) k Ls cs M last (mark_ended j cx) lv a.
Proof.
  intros H. pose proof (GS_err _ _ _ _ _ _ _ _ _ H) as E. destruct H as (K & Mt & Ml & R).
  unfold update_statuses, guard. rewrite E. unfold GS, kst, metas, restv in *. cbn. repeat split; try assumption.
  injection R as R1 R2 R3 R4 R5 R6 R7. rewrite R1, R2, R3, R4, R5, R6, R7. reflexivity.
Qed.
Lemma set_line_type_GS ty s k Ls h cs M last cx lv a :
  GS s k Ls (h :: cs) M last cx lv a ->
  GS (set_line_type pass ty s) k Ls (h :: cs) (upd_nth h (fun m => mkLM (lm_parent m) (lm_level m) ty) M) last cx lv a.
Proof.
  intros H. pose proof (GS_err _ _ _ _ _ _ _ _ _ H) as E. pose proof (GS_cur_ref _ _ _ _ _ _ _ _ _ _ H) as Rf.
  destruct H as (K & Mt & Ml & R). unfold set_line_type. rewrite Rf. split; [|split; [|split]].
  - rewrite kst_p_set_meta. exact K.
  - rewrite (metas_p_set_meta pass _ _ _ E), Mt. reflexivity.
  - rewrite upd_nth_len. exact Ml.
  - rewrite restv_p_set_meta. exact R.
Qed.
Lemma GS_at_start s k Ls h cs M last cx lv a : GS s k Ls (h :: cs) M last cx lv a ->
  at_start pass s = match nth h Ls [] with [] => true | _ :: _ => false end.
Proof. intros H. unfold at_start, cur_toks. rewrite (GS_cur_ref _ _ _ _ _ _ _ _ _ _ H). destruct H as (K & _). rewrite K. reflexivity. Qed.
Lemma GS_cur_type s k Ls h cs M last cx lv a : GS s k Ls (h :: cs) M last cx lv a -> cur_type pass s = lm_type (nth h M lm0).
Proof. intros H. unfold cur_type. rewrite (GS_cur_ref _ _ _ _ _ _ _ _ _ _ H). destruct H as (_ & Mt & _). rewrite Mt. reflexivity. Qed.
Lemma finish_empty_GS s k Ls h cs M last cx lv a : GS s k Ls (h :: cs) M last cx lv a -> nth h Ls [] = [] ->
  GS (finish_logical_line pass s) k Ls (h :: cs) (upd_nth h (fun m => mkLM (lm_parent m) (lm_level m) LLT_Unknown) M) last cx lv a.
Proof.
  intros H Hn. unfold finish_logical_line, guard. rewrite (GS_err _ _ _ _ _ _ _ _ _ H), (GS_at_start _ _ _ _ _ _ _ _ _ _ H), Hn.
  apply set_line_type_GS, H.
Qed.
Lemma next_tt_GS s k Ls cs M last cx lv a t :
  GS s k Ls cs M last cx lv a -> nth_error T (S k) = Some t -> t <> RTT_Eof -> next_tt pass s = Some t.
Proof.
  intros H Ht Hne. assert (Hk : S k < n) by (apply nth_error_Some; congruence).
  unfold next_tt, idx_next. rewrite (GS_pidx _ _ _ _ _ _ _ _ _ H).
  assert (Sk : exists r, skipn (S k) pass = S k :: r).
  { rewrite skipn_seq. cbn [Nat.add]. destruct (length T - S k) eqn:Z; [lia|]. cbn [seq]. eauto. }
  destruct Sk as [r Sk].
  rewrite Sk. cbn [find]. unfold filt_at, tt_at. rewrite (GS_toks _ _ _ _ _ _ _ _ _ H), (mix_nth_ge k (S k)) by lia. rewrite Ht.
  pose proof (plain_nth _ _ Ht) as P.
  assert (F : tok_filter t = true) by (destruct t; try reflexivity; try contradiction; exfalso; apply Hne; reflexivity).
  rewrite F. cbn [bind]. rewrite (mix_nth_ge k (S k)) by lia. exact Ht.
Qed.
Lemma take_separators_noop_G lvl_ (s : pstate) : o_semicolon (cur_tt pass s) = false -> take_separators_on_last_line pass lvl_ s = s.
Proof. intros H. unfold take_separators_on_last_line, guard. destruct (has_err pass s); [reflexivity|]. rewrite H. reflexivity. Qed.
Lemma caret_noop_G (s : pstate) : Forall plain (ps_toks pass s) -> consolidate_current_caret_to_type pass s = s.
Proof.
  intros Tk. unfold consolidate_current_caret_to_type, upd_cur. destruct (idx0 pass s) as [i|]; [|reflexivity].
  unfold tt_at. destruct (nth_error (ps_toks pass s) i) as [t|] eqn:E; [|reflexivity].
  pose proof (proj1 (Forall_forall _ _) Tk t (nth_error_In _ _ E)) as P.
  destruct t as [o| | | | | | | | | |]; try reflexivity. destruct o; try reflexivity; contradiction.
Qed.
Lemma GS_cur_is s k Ls cs M last cx lv a t : GS s k Ls cs M last cx lv a -> nth_error T k = Some t -> cur_is s t.
Proof. exact (GS_cur_tt s k Ls cs M last cx lv a t). Qed.
Lemma is_ending_G_blk bk0 (s : pstate) C t : ps_ctx pass s = (cBlk bk0, false) :: C -> cur_is s t -> plain t ->
  is_ending pass s = is_term bk0 t.
Proof.
  intros Hc Ct P. unfold is_ending, ending_ctx. rewrite Hc. cbn [ending_go].
  rewrite (blk_pred_eval_G bk0 s t Ct P), cBlk_opaque. destruct (is_term bk0 t); reflexivity.
Qed.
Lemma ending_G_ended (s : pstate) x r : ps_ctx pass s = (x, true) :: r -> ending_ctx pass s = Some 1.
Proof. intros Hc. unfold ending_ctx. rewrite Hc. reflexivity. Qed.
Lemma statement_stop_G f (s : pstate) t x fl r j : has_err pass s = false -> cur_is s t -> t <> RTT_Eof ->
  ps_ctx pass s = (x, fl) :: r -> ending_ctx pass s = Some j -> RUN (S f) C_statement s = update_statuses pass j s.
Proof.
  intros E Ct Hne Hc En. rewrite (run_S _ C_statement _ E). unfold arm_statement. unfold cur_is in Ct. rewrite Ct.
  assert (Pr : statement_prelude pass s = (update_statuses pass j s, false)).
  { unfold statement_prelude, last_ctx. rewrite Hc, En. reflexivity. }
  destruct t; try (rewrite Pr; reflexivity). contradiction Hne; reflexivity.
Qed.
Lemma structures_stop_G f (s : pstate) t j : has_err pass s = false -> cur_is s t -> t <> RTT_Eof ->
  ending_ctx pass s = Some j -> RUN (S f) C_structures s = update_statuses pass j s.
Proof.
  intros E Ct Hne En. rewrite (run_S _ C_structures _ E). unfold arm_structures. unfold cur_is in Ct. rewrite Ct, En.
  destruct t; try reflexivity. contradiction Hne; reflexivity.
Qed.

(* ---------------- if Identifier then body ; *)
Lemma GS_last_is_ended s k Ls cs M last x fl r lv a : GS s k Ls cs M last ((x, fl) :: r) lv a -> last_is_ended pass s = Some fl.
Proof. intros H. unfold last_is_ended. rewrite (GS_ctx _ _ _ _ _ _ _ _ _ H). reflexivity. Qed.
Lemma GS_cs s k Ls cs cs' M last cx lv a : GS s k Ls cs M last cx lv a -> cs = cs' -> GS s k Ls cs' M last cx lv a.
Proof. intros H <-. exact H. Qed.

(* ================================================================== *)
(* what parse_structures does on one statement at a position, up to the finished last line (Pcore), by
   induction on the statement; self-terminating statements (if/while) take the `;` that follows them *)
Definition selfterm (c : stmt) : bool := match c with TIf _ | TIfElse _ _ | TWhile _ => true | _ => false end.
Definition is_semi (t : RawTokenType) : bool := match t with RTT_Op OK_Semicolon => true | _ => false end.
Definition need_stmt (c : stmt) : nat := 10 + 10 * length (render_stmt c).
(* the line of the statement that takes the `;` *)
Definition splits (par : option (nat * nat)) (d : Z) (k li : nat) (c : stmt) (lastf : nat) (L : list (list nat)) : Prop :=
  exists init ty l post, l <> [] /\ (forall sm, sexpected par d k li sm c = init ++ mkLine ty (lvl d) par (l ++ sm) :: post)
  /\ lastf = length L + length init.
Lemma splits_upd par d k li c lastf (L R : list (list nat)) e : splits par d k li c lastf L ->
  upd_nth lastf (fun l => l ++ [e]) (L ++ map ll_toks (sexpected par d k li [] c) ++ R) = L ++ map ll_toks (sexpected par d k li [e] c) ++ R
  /\ nth lastf (L ++ map ll_toks (sexpected par d k li [] c) ++ R) [] <> []
  /\ map meta_of (sexpected par d k li [] c) = map meta_of (sexpected par d k li [e] c).
Proof.
  intros (init & ty & l & post & Hl & Hs & ->). rewrite (Hs []), (Hs [e]), app_nil_r. rewrite !map_app. cbn [map ll_toks meta_of ll_parent ll_level ll_type].
  split; [|split; [|reflexivity]].
  - rewrite (upd_nth_mid_eq _ _ _ (L ++ map ll_toks init) l (map ll_toks post ++ R)).
    + repeat (progress (cbn [app]; rewrite <- ?app_assoc)). reflexivity.
    + repeat (progress (cbn [app]; rewrite <- ?app_assoc)). reflexivity.
    + rewrite app_length, map_length. reflexivity.
  - rewrite (nth_mid_eq _ _ (L ++ map ll_toks init) l (map ll_toks post ++ R)); [exact Hl| |].
    + repeat (progress (cbn [app]; rewrite <- ?app_assoc)). reflexivity.
    + rewrite app_length, map_length. reflexivity.
Qed.

Definition Pcore (c : stmt) : Prop :=
  forall stk X E pp f s k L M mc last lv a tf j t2,
  Pos X E -> (pp = true -> lvl0 X) -> ST stk s k L [] M mc last X lv a -> lm_type mc = LLT_Unknown ->
  wf_stmt c = true -> (tf = tElse -> closed c = true) ->
  toks_at k (render_stmt c ++ [tf]) -> tf = tSemi \/ tf = tElse -> E tf = Some (S j) ->
  (tf = tSemi -> nth_error T (S (k + length (render_stmt c))) = Some t2 /\ t2 <> tSemi /\ t2 <> RTT_Eof) ->
  need_stmt c <= f ->
  let cons := selfterm c && is_semi tf in
  let e := k + length (render_stmt c) in
  let SL := sexpected (first_parent X) (plain_sum X) k (length L) (if cons then [e] else []) c in
  exists lastf,
  ST stk (finish_logical_line pass (optpop pp (RUN f C_structures s))) (if cons then S e else e)
     (L ++ map ll_toks SL) [] (M ++ map meta_of SL) (mkLM None (lvl (plain_sum X)) LLT_Unknown) lastf
     (optpopc pp (mark_ended (S j) X)) lv a
  /\ (selfterm c = false -> splits (first_parent X) (plain_sum X) k (length L) c lastf L).

(* ---------------- parse_block with a parent: the child lines of one body *)
Lemma child_run stk pe p c X E f s k LL h MM last0 lv a tf j' t2 :
  Pcore c -> Pos0 X E -> GS s k LL (h :: stk) MM last0 X lv a ->
  wf_stmt c = true -> (tf = tElse -> closed c = true) ->
  toks_at k (render_stmt c ++ [tf]) -> tf = tSemi \/ tf = tElse -> Ec pe E tf = Some (S j') ->
  (tf = tSemi -> nth_error T (S (k + length (render_stmt c))) = Some t2 /\ t2 <> tSemi /\ t2 <> RTT_Eof) ->
  2 + need_stmt c <= f ->
  let cons := selfterm c && is_semi tf in
  let e := k + length (render_stmt c) in
  let SL := sexpected (Some p) 1 k (length LL) (if cons then [e] else []) c in
  exists lastf,
  GS (RUN f (C_block (cCh pe p)) s) (if cons then S e else e)
     (LL ++ map ll_toks SL ++ [[]]) (h :: stk) (MM ++ map meta_of SL ++ [mkLM None (lvl 1) LLT_Unknown]) lastf (mark_ended j' X) lv a
  /\ (selfterm c = false -> splits (Some p) 1 k (length LL) c lastf LL).
Proof.
  intros IH P0 H Hwf Hcl Ht Htf Ej Hn Hf cons e SL. destruct f as [|[|f]]; try lia.
  rewrite (run_S _ (C_block _) _ (GS_err _ _ _ _ _ _ _ _ _ H)). unfold arm_block.
  rewrite (run_S _ (C_with_ctx _ _) _ (GS_err _ _ _ _ _ _ _ _ _ H)). unfold arm_with_ctx.
  cbn [cCh ctx c_level clevel_parent]. fold (cCh pe p).
  pose proof (emit_KC_GS (mkLM (Some p) 0%N LLT_Unknown) _ _ _ _ _ _ _ _ _ H) as G1.
  pose proof (GS_ST (h :: stk) _ _ _ _ _ _ _ _ _ LL [] MM _ G1 eq_refl eq_refl eq_refl) as S1.
  pose proof (push_ctx_ST (h :: stk) (cCh pe p) _ _ _ _ _ _ _ _ _ _ S1) as S2.
  destruct (IH (h :: stk) _ _ false f _ _ _ _ _ _ _ _ tf j' t2 (pos_child pe p X E P0) ltac:(discriminate) S2 eq_refl Hwf Hcl Ht Htf Ej Hn ltac:(lia))
    as (lastf & S3 & Hsp).
  cbv zeta in S3. cbn [optpop optpopc first_parent plain_sum cCh ctx c_level mark_ended] in S3, Hsp.
  change (Z.of_N 1) with 1%Z in S3, Hsp. fold cons e in S3. fold SL in S3.
  pose proof (pop_ctx_ST (h :: stk) _ _ _ _ _ _ _ _ _ _ _ S3) as S4.
  pose proof (emit_Kc_GS _ _ _ _ _ _ _ _ _ (ST_GS _ _ _ _ _ _ _ _ _ _ _ S4)) as G5.
  cbn [pop_keep] in G5.
  exists lastf. split; [|exact Hsp].
  eapply GS_lists; [exact G5| |]; repeat (progress (cbn [app]; rewrite <- ?app_assoc)); reflexivity.
Qed.

(* ... followed by take_separators_on_last_line: the `;` (if it follows and has not been taken by the body)
   goes to the last line of the body *)
Lemma child_sep stk pe lvl_ p c X E f s k LL h MM last0 lv a tf j' t2 :
  Pcore c -> Pos0 X E -> GS s k LL (h :: stk) MM last0 X lv a ->
  wf_stmt c = true -> (tf = tElse -> closed c = true) ->
  toks_at k (render_stmt c ++ [tf]) -> tf = tSemi \/ tf = tElse -> Ec pe E tf = Some (S j') ->
  (tf = tSemi -> nth_error T (S (k + length (render_stmt c))) = Some t2 /\ t2 <> tSemi /\ t2 <> RTT_Eof) ->
  2 + need_stmt c <= f ->
  let e := k + length (render_stmt c) in
  let SL := sexpected (Some p) 1 k (length LL) (if is_semi tf then [e] else []) c in
  exists lastf,
  GS (take_separators_on_last_line pass lvl_ (RUN f (C_block (cCh pe p)) s)) (if is_semi tf then S e else e)
     (LL ++ map ll_toks SL ++ [[]]) (h :: stk) (MM ++ map meta_of SL ++ [mkLM None (lvl 1) LLT_Unknown]) lastf (mark_ended j' X) lv a.
Proof.
  intros IH P0 H Hwf Hcl Ht Htf Ej Hn Hf e SL.
  destruct (child_run stk pe p c X E f _ _ _ _ _ _ _ _ tf j' t2 IH P0 H Hwf Hcl Ht Htf Ej Hn Hf) as (lastf & G1 & Hsp).
  cbv zeta in G1. fold e in G1.
  assert (Hte : nth_error T e = Some tf).
  { specialize (Ht (length (render_stmt c)) tf). rewrite nth_error_app2, Nat.sub_diag in Ht by lia. exact (Ht eq_refl). }
  exists lastf. subst SL.
  destruct Htf as [-> | ->]; cbn [is_semi tSemi tElse] in *.
  - destruct (Hn eq_refl) as (Ht2 & N2 & _).
    destruct (selfterm c) eqn:Sf; cbn [andb] in G1.
    + rewrite take_separators_noop_G; [exact G1|].
      rewrite (GS_cur_tt _ _ _ _ _ _ _ _ _ _ G1 Ht2). destruct t2 as [o| | | | | | | | | |]; try reflexivity. destruct o; try reflexivity. contradiction N2; reflexivity.
    + destruct (splits_upd _ _ _ _ _ _ LL [[]] e (Hsp eq_refl)) as (U1 & U2 & U3).
      pose proof (take_separators_GS lvl_ _ _ _ _ _ _ _ _ _ _ t2 G1 Hte Ht2 N2 U2) as G2. rewrite U1, U3 in G2. exact G2.
  - rewrite andb_false_r in G1. rewrite take_separators_noop_G; [exact G1|].
    rewrite (GS_cur_tt _ _ _ _ _ _ _ _ _ _ G1 Hte). reflexivity.
Qed.

(* ... and the end of the statement that owns the child lines: the `;` (if it follows and has not been taken
   by the body) goes to the last line of the body, the header line is finished, parse_structures returns *)
Lemma child_final stk pe lvl_ p c X E pp f f1 s k LL h MM last0 lv a tf j t2 :
  Pcore c -> Pos X E -> (pp = true -> lvl0 X) ->
  GS s k LL (h :: stk) MM last0 X lv a -> nth h LL [] <> [] -> h < length LL ->
  wf_stmt c = true -> (tf = tElse -> closed c = true) ->
  toks_at k (render_stmt c ++ [tf]) -> tf = tSemi \/ tf = tElse -> E tf = Some (S j) -> (pe = true -> tf = tSemi) ->
  (tf = tSemi -> nth_error T (S (k + length (render_stmt c))) = Some t2 /\ t2 <> tSemi /\ t2 <> RTT_Eof) ->
  2 + need_stmt c <= f ->
  let e := k + length (render_stmt c) in
  let SL := sexpected (Some p) 1 k (length LL) (if is_semi tf then [e] else []) c in
  ST stk (finish_logical_line pass (optpop pp (RUN (S f1) C_structures
            (finish_logical_line pass (take_separators_on_last_line pass lvl_ (RUN f (C_block (cCh pe p)) s))))))
     (if is_semi tf then S e else e) (LL ++ map ll_toks SL ++ [[]]) []
     (upd_nth h (fun m => mkLM (first_parent X) (lvl (plain_sum X)) (lm_type m)) MM ++ map meta_of SL ++ [mkLM None (lvl 1) LLT_Unknown])
     (mkLM None (lvl (plain_sum X)) LLT_Unknown) h (optpopc pp (mark_ended (S j) X)) lv a.
Proof.
  intros IH [P0 (x0 & r0 & EX & _)] Hl H Hnh Hh Hwf Hcl Ht Htf Ej Hpe Hn Hf e SL.
  assert (Ml : length MM = length LL) by (destruct H as (_ & _ & Ml & _); exact Ml).
  assert (Ej' : Ec pe E tf = Some (S (S j))).
  { unfold Ec. rewrite Ej. destruct pe; [rewrite (Hpe eq_refl)|]; reflexivity. }
  destruct (child_sep stk pe lvl_ p c X E f _ _ _ _ _ _ _ _ tf (S j) t2 IH P0 H Hwf Hcl Ht Htf Ej' Hn Hf) as (lastf & G2).
  cbv zeta in G2. fold e in G2.
  assert (Hte : nth_error T e = Some tf).
  { specialize (Ht (length (render_stmt c)) tf). rewrite nth_error_app2, Nat.sub_diag in Ht by lia. exact (Ht eq_refl). }
  pose proof (finish_GS _ _ _ _ _ _ _ _ _ _ G2) as G3.
  rewrite app_nth1 in G3 by exact Hh. specialize (G3 Hnh).
  rewrite first_parent_mark, plain_sum_mark in G3.
  rewrite upd_nth_app_l in G3 by lia.
  pose proof (GS_ST stk _ _ _ _ _ _ _ _ _ _ _ _ _ G3 eq_refl eq_refl eq_refl) as S3.
  (* back in parse_structures: the statement context (or the child context around) has ended *)
  assert (Hcur : exists tc, nth_error T (if is_semi tf then S e else e) = Some tc /\ tc <> RTT_Eof).
  { destruct Htf as [-> | ->]; cbn [is_semi tSemi tElse].
    - destruct (Hn eq_refl) as (Ht2 & _ & N3). exists t2. split; assumption.
    - exists tElse. split; [exact Hte|discriminate]. }
  destruct Hcur as (tc & Htc & HnE).
  assert (Et : ending_ctx pass (finish_logical_line pass (take_separators_on_last_line pass lvl_ (RUN f (C_block (cCh pe p)) s))) = Some 1).
  { rewrite EX in S3. cbn [mark_ended] in S3. exact (ending_top_ended stk _ _ _ _ _ _ _ _ _ _ _ S3). }
  rewrite (structures_stop stk _ _ _ _ _ _ _ _ _ _ _ _ _ S3 Htc HnE Et).
  pose proof (update_statuses_ST stk 1 _ _ _ _ _ _ _ _ _ _ S3) as S4. rewrite mark_ended_idem in S4.
  pose proof (fin_closed stk pp _ _ _ _ _ _ _ _ _ _ Hl S4) as S5. cbn [lm_parent lm_level] in S5.
  eapply (ST_lists stk); [exact S5| |]; repeat (progress (cbn [app]; rewrite <- ?app_assoc)); reflexivity.
Qed.


(* ---------------- if Identifier then c *)
Lemma Pcore_if c : Pcore c -> Pcore (TIf c).
Proof.
  intros IH stk X E pp f s k L M mc last lv a tf j t2 HP Hl H Hty Hwf Hcl Ht Htf Ej Hn Hf cons e SL.
  destruct Htf as [-> | ->]; [|specialize (Hcl eq_refl); discriminate].
  destruct (Hn eq_refl) as (Ht2 & N2 & N3).
  pose proof HP as [P0 (x0 & r0 & EX & _)].
  cbn [render_stmt] in Ht. unfold need_stmt in Hf. cbn [render_stmt length] in Hf, e.
  assert (Eq : (tIf :: tI :: tThen :: render_stmt c) ++ [tSemi] = [tIf; tI; tThen] ++ (render_stmt c ++ [tSemi])) by reflexivity.
  rewrite Eq in Ht.
  pose proof (Ht 0 _ eq_refl) as Hk. rewrite Nat.add_0_r in Hk.
  pose proof (Ht 1 _ eq_refl) as Hk1. replace (k + 1) with (S k) in Hk1 by lia.
  pose proof (Ht 2 _ eq_refl) as Hk2. replace (k + 2) with (S (S k)) in Hk2 by lia.
  assert (Hb : toks_at (S (S (S k))) (render_stmt c ++ [tSemi])).
  { replace (S (S (S k))) with (k + 3) by lia. apply (toks_at_shift k 3 [tIf; tI; tThen]); [exact Ht|reflexivity]. }
  assert (Hkn : tokfin (k)) by tokfin_tac.
  assert (Hkn2 : tokfin (S (S k))) by tokfin_tac.
  assert (Ml : length M = length L) by (destruct H as (_ & _ & Ml & _); exact Ml).
  destruct f as [|[|[|[|f]]]]; try lia.
  assert (E0 : ending_ctx pass s = None) by (rewrite (pos_ending stk _ _ _ _ _ _ _ _ _ _ _ _ P0 H Hk); apply (pos_start _ _ P0); reflexivity).
  rewrite (run_S _ C_structures _ (ST_err stk _ _ _ _ _ _ _ _ _ _ H)).
  unfold arm_structures. rewrite (ST_cur_tt stk _ _ _ _ _ _ _ _ _ _ _ H Hk), E0. cbn [tIf sarm_of].
  unfold sa_if, s_loop.
  rewrite (run_S _ C_if_then _ (ST_err stk _ _ _ _ _ _ _ _ _ _ H)). unfold arm_if_then.
  change (ctx CT_Utility true P_then (ParserGrammar.L 0)) with (cUtp HThen).
  pose proof (next_token_ST stk _ _ _ _ _ _ _ _ _ _ H Hkn) as H2. cbn [app] in H2.
  pose proof (line_section_run stk HThen (S (S f)) _ _ _ _ _ _ _ _ _ _ H2 Hk1 Hk2 ltac:(lia)) as H3. cbn [app] in H3.
  match type of H3 with ST _ ?x _ _ _ _ _ _ _ _ _ => set (s3 := x) in * end.
  cbv zeta.
  assert (CK : cur_kk pass s3 = Some KK_Then) by (unfold cur_kk; rewrite (ST_cur_tt stk _ _ _ _ _ _ _ _ _ _ _ H3 Hk2); reflexivity).
  rewrite CK.
  assert (LP : line_parent_of_current pass s3 = Some (length L, S (S k))).
  { unfold line_parent_of_current. rewrite (ST_cur_index stk _ _ _ _ _ _ _ _ _ _ H3 (tokfin_lt _ Hkn2)), (ST_cur_ref stk _ _ _ _ _ _ _ _ _ _ H3). reflexivity. }
  rewrite LP.
  pose proof (next_token_ST stk _ _ _ _ _ _ _ _ _ _ H3 Hkn2) as H4. cbn [app] in H4.
  change (ctx (CT_Statement SK_Normal) false P_else (CL_Parent (length L, S (S k)) 1%N)) with (cCh true (length L, S (S k))).
  pose proof (ST_GS stk _ _ _ _ _ _ _ _ _ _ H4) as G4.
  set (s4 := next_token pass s3) in *.
  assert (Hn' : tSemi = tSemi -> nth_error T (S (S (S (S k)) + length (render_stmt c))) = Some t2 /\ t2 <> tSemi /\ t2 <> RTT_Eof).
  { intros _. replace (S (S (S (S k)) + length (render_stmt c))) with (S (k + S (S (S (length (render_stmt c)))))) by lia. repeat split; assumption. }
  (* no else branch: the context of the statement has ended at the `;` *)
  destruct (child_run stk true (length L, S (S k)) c X E (S (S f)) _ _ _ _ _ _ _ _ tSemi (S j) t2 IH P0 G4 Hwf ltac:(discriminate) Hb (or_introl eq_refl)
              ltac:(unfold Ec; rewrite Ej; reflexivity) Hn' ltac:(unfold need_stmt; lia)) as (lastc & G5 & _).
  rewrite EX, mark_ended_cons in G5.
  rewrite (GS_last_is_ended _ _ _ _ _ _ _ _ _ _ _ G5). clear G5.
  pose proof (child_final stk true (CL_Parent (length L, S (S k)) 1%N) (length L, S (S k)) c X E pp (S (S f)) (S (S f)) _ _ _ _ _ _ _ _ tSemi j t2
                IH HP Hl G4) as CF.
  rewrite nth_app_last in CF.
  specialize (CF ltac:(discriminate) ltac:(rewrite app_length; cbn [length]; lia) Hwf ltac:(discriminate) Hb (or_introl eq_refl) Ej (fun _ => eq_refl) Hn'
                ltac:(unfold need_stmt; lia)).
  cbv zeta in CF. cbn [is_semi tSemi] in CF.
  rewrite <- Ml, upd_nth_app_last in CF. cbn [lm_type] in CF. rewrite Ml in CF.
  exists (length L). split; [|discriminate].
  subst cons SL. cbn [selfterm is_semi tSemi andb sexpected].
  replace (k + 1) with (S k) by lia. replace (k + 2) with (S (S k)) by lia. replace (k + 3) with (S (S (S k))) by lia.
  replace (length L + 1) with (length (L ++ [[k; S k; S (S k)]])) by (rewrite app_length; reflexivity).
  replace e with (S (S (S k)) + length (render_stmt c)) by (unfold e; lia).
  eapply (ST_lists stk); [exact CF| |].
  - cbn [map ll_toks]. rewrite map_app. cbn [map ll_toks stray]. repeat (progress (cbn [app]; rewrite <- ?app_assoc)). reflexivity.
  - cbn [map meta_of ll_parent ll_level ll_type]. rewrite map_app. cbn [map meta_of stray ll_parent ll_level ll_type].
    rewrite Hty. repeat (progress (cbn [app]; rewrite <- ?app_assoc)). reflexivity.
Qed.


(* ---------------- while Identifier do c *)
Lemma Pcore_while c : Pcore c -> Pcore (TWhile c).
Proof.
  intros IH stk X E pp f s k L M mc last lv a tf j t2 HP Hl H Hty Hwf Hcl Ht Htf Ej Hn Hf cons e SL.
  pose proof HP as [P0 (x0 & r0 & EX & _)].
  cbn [render_stmt] in Ht. unfold need_stmt in Hf. cbn [render_stmt length] in Hf, e.
  assert (Eq : (tWhile :: tI :: tDo :: render_stmt c) ++ [tf] = [tWhile; tI; tDo] ++ (render_stmt c ++ [tf])) by reflexivity.
  rewrite Eq in Ht.
  pose proof (Ht 0 _ eq_refl) as Hk. rewrite Nat.add_0_r in Hk.
  pose proof (Ht 1 _ eq_refl) as Hk1. replace (k + 1) with (S k) in Hk1 by lia.
  pose proof (Ht 2 _ eq_refl) as Hk2. replace (k + 2) with (S (S k)) in Hk2 by lia.
  assert (Hb : toks_at (S (S (S k))) (render_stmt c ++ [tf])).
  { replace (S (S (S k))) with (k + 3) by lia. apply (toks_at_shift k 3 [tWhile; tI; tDo]); [exact Ht|reflexivity]. }
  assert (Hkn : tokfin (k)) by tokfin_tac.
  assert (Hkn2 : tokfin (S (S k))) by tokfin_tac.
  assert (Ml : length M = length L) by (destruct H as (_ & _ & Ml & _); exact Ml).
  destruct f as [|[|[|[|f]]]]; try lia.
  assert (E0 : ending_ctx pass s = None) by (rewrite (pos_ending stk _ _ _ _ _ _ _ _ _ _ _ _ P0 H Hk); apply (pos_start _ _ P0); reflexivity).
  rewrite (run_S _ C_structures _ (ST_err stk _ _ _ _ _ _ _ _ _ _ H)).
  unfold arm_structures. rewrite (ST_cur_tt stk _ _ _ _ _ _ _ _ _ _ _ H Hk), E0. cbn [tWhile sarm_of].
  unfold sa_do, s_loop.
  rewrite (run_S _ (C_do false) _ (ST_err stk _ _ _ _ _ _ _ _ _ _ H)). unfold arm_do.
  change (ctx CT_Utility true P_kw_do (ParserGrammar.L 0)) with (cUtp HDo).
  pose proof (next_token_ST stk _ _ _ _ _ _ _ _ _ _ H Hkn) as H2. cbn [app] in H2.
  pose proof (set_line_type_ST stk LLT_Unknown _ _ _ _ _ _ _ _ _ _ H2) as H2'. cbn [lm_parent lm_level] in H2'.
  pose proof (line_section_run stk HDo (S (S f)) _ _ _ _ _ _ _ _ _ _ H2' Hk1 Hk2 ltac:(lia)) as H3. cbn [app] in H3.
  match type of H3 with ST _ ?x _ _ _ _ _ _ _ _ _ => set (s3 := x) in * end.
  cbv zeta.
  assert (CK : cur_kk pass s3 = Some KK_Do) by (unfold cur_kk; rewrite (ST_cur_tt stk _ _ _ _ _ _ _ _ _ _ _ H3 Hk2); reflexivity).
  rewrite CK.
  assert (LP : line_parent_of_current pass s3 = Some (length L, S (S k))).
  { unfold line_parent_of_current. rewrite (ST_cur_index stk _ _ _ _ _ _ _ _ _ _ H3 (tokfin_lt _ Hkn2)), (ST_cur_ref stk _ _ _ _ _ _ _ _ _ _ H3). reflexivity. }
  rewrite LP.
  pose proof (next_token_ST stk _ _ _ _ _ _ _ _ _ _ H3 Hkn2) as H4. cbn [app] in H4.
  change (ctx (CT_Statement SK_Normal) false P_never (CL_Parent (length L, S (S k)) 1%N)) with (cCh false (length L, S (S k))).
  pose proof (ST_GS stk _ _ _ _ _ _ _ _ _ _ H4) as G4.
  set (s4 := next_token pass s3) in *.
  assert (Hn' : tf = tSemi -> nth_error T (S (S (S (S k)) + length (render_stmt c))) = Some t2 /\ t2 <> tSemi /\ t2 <> RTT_Eof).
  { intros Etf. destruct (Hn Etf) as (Ht2 & N2 & N3).
    replace (S (S (S (S k)) + length (render_stmt c))) with (S (k + S (S (S (length (render_stmt c)))))) by lia. repeat split; assumption. }
  pose proof (child_final stk false (CL_Parent (length L, S (S k)) 1%N) (length L, S (S k)) c X E pp (S (S f)) (S (S f)) _ _ _ _ _ _ _ _ tf j t2
                IH HP Hl G4) as CF.
  rewrite nth_app_last in CF.
  specialize (CF ltac:(discriminate) ltac:(rewrite app_length; cbn [length]; lia) Hwf Hcl Hb Htf Ej ltac:(discriminate) Hn'
                ltac:(unfold need_stmt; lia)).
  cbv zeta in CF.
  rewrite <- Ml, upd_nth_app_last in CF. cbn [lm_type] in CF. rewrite Ml in CF.
  exists (length L). split; [|discriminate].
  subst cons SL. cbn [selfterm andb sexpected].
  replace (k + 1) with (S k) by lia. replace (k + 2) with (S (S k)) by lia. replace (k + 3) with (S (S (S k))) by lia.
  replace (length L + 1) with (length (L ++ [[k; S k; S (S k)]])) by (rewrite app_length; reflexivity).
  replace e with (S (S (S k)) + length (render_stmt c)) by (unfold e; lia).
  eapply (ST_lists stk); [exact CF| |].
  - cbn [map ll_toks]. rewrite map_app. cbn [map ll_toks stray]. repeat (progress (cbn [app]; rewrite <- ?app_assoc)). reflexivity.
  - cbn [map meta_of ll_parent ll_level ll_type]. rewrite map_app. cbn [map meta_of stray ll_parent ll_level ll_type].
    repeat (progress (cbn [app]; rewrite <- ?app_assoc)). reflexivity.
Qed.

(* ---------------- if Identifier then c1 else c2 *)
Lemma Pcore_ifelse c1 c2 : Pcore c1 -> Pcore c2 -> Pcore (TIfElse c1 c2).
Proof.
  intros IH1 IH2 stk X E pp f s k L M mc last lv a tf j t2 HP Hl H Hty Hwf Hcl Ht Htf Ej Hn Hf cons e SL.
  cbn [wf_stmt] in Hwf. apply andb_prop in Hwf. destruct Hwf as [Hwf Hwf2]. apply andb_prop in Hwf. destruct Hwf as [Hc1 Hwf1].
  cbn [closed] in Hcl.
  pose proof HP as [P0 (x0 & r0 & EX & _)].
  cbn [render_stmt] in Ht. unfold need_stmt in Hf. cbn [render_stmt length] in Hf, e.
  rewrite app_length in Hf. cbn [length] in Hf.
  assert (Eq : (tIf :: tI :: tThen :: render_stmt c1 ++ tElse :: render_stmt c2) ++ [tf]
               = [tIf; tI; tThen] ++ (render_stmt c1 ++ [tElse]) ++ (render_stmt c2 ++ [tf])).
  { cbn [app]. rewrite <- !app_assoc. reflexivity. }
  rewrite Eq in Ht.
  pose proof (Ht 0 _ eq_refl) as Hk. rewrite Nat.add_0_r in Hk.
  pose proof (Ht 1 _ eq_refl) as Hk1. replace (k + 1) with (S k) in Hk1 by lia.
  pose proof (Ht 2 _ eq_refl) as Hk2. replace (k + 2) with (S (S k)) in Hk2 by lia.
  assert (Ht3 : toks_at (S (S (S k))) ((render_stmt c1 ++ [tElse]) ++ render_stmt c2 ++ [tf])).
  { replace (S (S (S k))) with (k + 3) by lia. apply (toks_at_shift k 3 [tIf; tI; tThen]); [exact Ht|reflexivity]. }
  assert (Hb1 : toks_at (S (S (S k))) (render_stmt c1 ++ [tElse])) by (eapply toks_at_prefix; exact Ht3).
  set (el := S (S (S k)) + length (render_stmt c1)).
  assert (Hb2 : toks_at (S el) (render_stmt c2 ++ [tf])).
  { replace (S el) with (S (S (S k)) + length (render_stmt c1 ++ [tElse])) by (rewrite app_length; cbn [length]; unfold el; lia).
    apply (toks_at_shift _ _ (render_stmt c1 ++ [tElse])); [exact Ht3|reflexivity]. }
  assert (Hte : nth_error T el = Some tElse).
  { specialize (Hb1 (length (render_stmt c1)) tElse). rewrite nth_error_app2, Nat.sub_diag in Hb1 by lia. exact (Hb1 eq_refl). }
  assert (Heln : tokfin (el)) by tokfin_tac.
  assert (Hkn : tokfin (k)) by tokfin_tac.
  assert (Hkn2 : tokfin (S (S k))) by tokfin_tac.
  assert (Ml : length M = length L) by (destruct H as (_ & _ & Ml & _); exact Ml).
  destruct f as [|[|[|[|f]]]]; try lia.
  assert (E0 : ending_ctx pass s = None) by (rewrite (pos_ending stk _ _ _ _ _ _ _ _ _ _ _ _ P0 H Hk); apply (pos_start _ _ P0); reflexivity).
  rewrite (run_S _ C_structures _ (ST_err stk _ _ _ _ _ _ _ _ _ _ H)).
  unfold arm_structures. rewrite (ST_cur_tt stk _ _ _ _ _ _ _ _ _ _ _ H Hk), E0. cbn [tIf sarm_of].
  unfold sa_if, s_loop.
  rewrite (run_S _ C_if_then _ (ST_err stk _ _ _ _ _ _ _ _ _ _ H)). unfold arm_if_then.
  change (ctx CT_Utility true P_then (ParserGrammar.L 0)) with (cUtp HThen).
  pose proof (next_token_ST stk _ _ _ _ _ _ _ _ _ _ H Hkn) as H2. cbn [app] in H2.
  pose proof (line_section_run stk HThen (S (S f)) _ _ _ _ _ _ _ _ _ _ H2 Hk1 Hk2 ltac:(lia)) as H3. cbn [app] in H3.
  match type of H3 with ST _ ?x _ _ _ _ _ _ _ _ _ => set (s3 := x) in * end.
  cbv zeta.
  assert (CK : cur_kk pass s3 = Some KK_Then) by (unfold cur_kk; rewrite (ST_cur_tt stk _ _ _ _ _ _ _ _ _ _ _ H3 Hk2); reflexivity).
  rewrite CK.
  assert (LP : line_parent_of_current pass s3 = Some (length L, S (S k))).
  { unfold line_parent_of_current. rewrite (ST_cur_index stk _ _ _ _ _ _ _ _ _ _ H3 (tokfin_lt _ Hkn2)), (ST_cur_ref stk _ _ _ _ _ _ _ _ _ _ H3). reflexivity. }
  rewrite LP.
  pose proof (next_token_ST stk _ _ _ _ _ _ _ _ _ _ H3 Hkn2) as H4. cbn [app] in H4.
  change (ctx (CT_Statement SK_Normal) false P_else (CL_Parent (length L, S (S k)) 1%N)) with (cCh true (length L, S (S k))).
  pose proof (ST_GS stk _ _ _ _ _ _ _ _ _ _ H4) as G4.
  set (s4 := next_token pass s3) in *.
  (* the then branch stops in front of `else`; the context of the statement has not ended *)
  destruct (child_run stk true (length L, S (S k)) c1 X E (S (S f)) _ _ _ _ _ _ _ _ tElse 0 t2 IH1 P0 G4 Hwf1 (fun _ => Hc1) Hb1 (or_intror eq_refl)
              ltac:(reflexivity) ltac:(discriminate) ltac:(unfold need_stmt; lia)) as (lastc & G5 & _).
  cbv zeta in G5. cbn [is_semi tElse] in G5. rewrite andb_false_r in G5. cbn [mark_ended] in G5. fold el in G5.
  match type of G5 with GS ?x _ _ _ _ _ _ _ _ => set (s5 := x) in * end.
  pose proof G5 as G5'. rewrite EX in G5'. rewrite (GS_last_is_ended _ _ _ _ _ _ _ _ _ _ _ G5'). clear G5'.
  assert (CK5 : cur_kk pass s5 = Some KK_Else) by (unfold cur_kk; rewrite (GS_cur_tt _ _ _ _ _ _ _ _ _ _ G5 Hte); reflexivity).
  rewrite CK5.
  assert (LP5 : line_parent_of_current pass s5 = Some (length L, el)).
  { unfold line_parent_of_current. rewrite (cur_index_G s5 el (GS_pidx _ _ _ _ _ _ _ _ _ G5) (tokfin_lt _ Heln)), (GS_cur_ref _ _ _ _ _ _ _ _ _ _ G5). reflexivity. }
  rewrite LP5.
  pose proof (next_token_GS _ _ _ _ _ _ _ _ _ _ G5 Heln) as G6.
  change (ctx (CT_Statement SK_Normal) false P_never (CL_Parent (length L, el) 1%N)) with (cCh false (length L, el)).
  set (SL1 := sexpected (Some (length L, S (S k))) 1 (S (S (S k))) (length (L ++ [[k; S k; S (S k)]])) [] c1) in *.
  rewrite (upd_nth_mid_eq _ _ _ L [k; S k; S (S k)] (map ll_toks SL1 ++ [[]])) in G6
    by (try reflexivity; rewrite <- app_assoc; reflexivity).
  cbn [app] in G6.
  set (s6 := next_token pass s5) in *.
  assert (Hn' : tf = tSemi -> nth_error T (S (S el + length (render_stmt c2))) = Some t2 /\ t2 <> tSemi /\ t2 <> RTT_Eof).
  { intros Etf. destruct (Hn Etf) as (Ht2 & N2 & N3). cbn [render_stmt length] in Ht2. rewrite app_length in Ht2. cbn [length] in Ht2.
    replace (S (S el + length (render_stmt c2))) with (S (k + S (S (S (length (render_stmt c1) + S (length (render_stmt c2))))))) by (unfold el; lia).
    repeat split; assumption. }
  pose proof (child_final stk false (CL_Parent (length L, el) 1%N) (length L, el) c2 X E pp (S (S f)) (S (S f)) _ _ _ _ _ _ _ _ tf j t2
                IH2 HP Hl G6) as CF.
  rewrite (nth_mid_eq _ _ L [k; S k; S (S k); el] (map ll_toks SL1 ++ [[]])) in CF by reflexivity.
  specialize (CF ltac:(discriminate) ltac:(rewrite app_length; cbn [length]; lia) Hwf2 Hcl Hb2 Htf Ej ltac:(discriminate) Hn'
                ltac:(unfold need_stmt; lia)).
  cbv zeta in CF.
  rewrite upd_nth_app_l in CF by (rewrite app_length; cbn [length]; lia).
  rewrite <- Ml, upd_nth_app_last in CF. cbn [lm_type] in CF. rewrite Ml in CF.
  exists (length L). split; [|discriminate].
  subst cons SL. cbn [selfterm andb sexpected]. cbv zeta.
  replace (k + 1) with (S k) by lia. replace (k + 2) with (S (S k)) by lia. replace (k + 3) with (S (S (S k))) by lia.
  fold el. replace (el + 1) with (S el) by lia.
  replace (length L + 1) with (length (L ++ [[k; S k; S (S k)]])) by (rewrite app_length; reflexivity).
  fold SL1.
  replace e with (S el + length (render_stmt c2)) by (unfold e, el; rewrite app_length; cbn [length]; lia).
  match goal with |- context [sexpected (Some (length L, el)) 1 (S el) ?li _ c2] =>
    replace li with (length (L ++ [k; S k; S (S k); el] :: map ll_toks SL1 ++ [[]])) by (rewrite !app_length; cbn [length]; rewrite !app_length, map_length; cbn [length]; lia) end.
  eapply (ST_lists stk); [exact CF| |].
  - cbn [map ll_toks]. rewrite !map_app. cbn [map ll_toks stray]. repeat (progress (cbn [app]; rewrite <- ?app_assoc)). reflexivity.
  - cbn [map meta_of ll_parent ll_level ll_type]. rewrite !map_app. cbn [map meta_of stray ll_parent ll_level ll_type].
    rewrite Hty. repeat (progress (cbn [app]; rewrite <- ?app_assoc)). reflexivity.
Qed.


(* ---------------- one arm of a case statement: `Identifier : c ;` *)
Lemma iter_arm stk bkc c X E f s k L0 PL M0 mcur MP last lv a t' :
  sk_of bkc = SK_Case -> Pcore c -> Pos0 X E ->
  GS s k (L0 ++ [] :: PL) (length L0 :: stk) (M0 ++ mcur :: MP) last ((cBlk bkc, false) :: X) lv a ->
  length M0 = length L0 -> wf_stmt c = true ->
  nth_error T k = Some tI -> nth_error T (S k) = Some tColon -> toks_at (S (S k)) (render_stmt c ++ [tSemi]) ->
  nth_error T (S (S (S k) + length (render_stmt c))) = Some t' -> t' <> tSemi -> t' <> RTT_Eof ->
  30 + need_stmt c <= f ->
  let e := S (S k) + length (render_stmt c) in
  let h := length (L0 ++ [k; S k] :: PL) in
  let pb := sexpected (Some (length L0, S k)) 1 (S (S k)) (S h) [e] c ++ [stray] in
  exists last',
  GS (take_separators_on_last_line pass (CL_Level 0%Z) (finish_logical_line pass (RUN f (C_with_ctx (cStk bkc) A_structures) s)))
     (S e) ((L0 ++ [k; S k] :: PL) ++ [] :: map ll_toks pb) (h :: stk)
     ((M0 ++ mkLM (first_parent X) (lvl (plain_sum X + 1)) LLT_CaseArm :: MP) ++ mkLM None (lvl (plain_sum X + 1)) LLT_Unknown :: map meta_of pb)
     last' ((cBlk bkc, false) :: X) lv a.
Proof.
  intros Hskc IHc P0 H Hm0 Hwf Hk Hk1 Hb He1 Hne HnE Hf e h pb.
  assert (Hkn : tokfin (k)) by tokfin_tac.
  assert (Hkn1 : tokfin (S k)) by tokfin_tac.
  assert (Pk : plain tI) by exact I. assert (Pc : plain tColon) by exact I.
  assert (Hnd : notd X) by exact (pos_notd _ _ P0).
  pose proof (pos0_list bkc X Hnd) as PA.
  destruct f as [|[|[|[|[|[|f]]]]]]; try lia.
  rewrite (with_ctx_structures _ (cStk bkc) s (GS_err _ _ _ _ _ _ _ _ _ H) eq_refl).
  (* the empty current line; the statement context of the arm *)
  pose proof (finish_empty_GS _ _ _ _ _ _ _ _ _ _ H (nth_mid_eq _ _ L0 [] PL [] eq_refl eq_refl)) as G0.
  rewrite (upd_nth_mid_eq _ _ _ M0 mcur MP eq_refl Hm0) in G0.
  pose proof (push_ctx_GS (cStk bkc) _ _ _ _ _ _ _ _ _ G0) as G1.
  match type of G1 with GS ?x _ _ _ _ _ _ _ _ => set (s1 := x) in * end.
  assert (En1 : ending_ctx pass s1 = None).
  { unfold ending_ctx. rewrite (GS_ctx _ _ _ _ _ _ _ _ _ G1). fold (Xl bkc X).
    rewrite (pos_ends _ _ PA s1 tI (GS_cur_is _ _ _ _ _ _ _ _ _ _ G1 Hk) Pk). apply (pos_start _ _ PA). reflexivity. }
  rewrite (run_S _ C_structures _ (GS_err _ _ _ _ _ _ _ _ _ G1)).
  unfold arm_structures. rewrite (GS_cur_tt _ _ _ _ _ _ _ _ _ _ G1 Hk), En1. cbn [tI sarm_of].
  unfold sa_other, s_other, s_loop.
  (* parse_statement: the label of the arm; the line becomes a CaseArm line *)
  rewrite (run_S _ C_statement _ (GS_err _ _ _ _ _ _ _ _ _ G1)).
  unfold arm_statement. rewrite (GS_cur_tt _ _ _ _ _ _ _ _ _ _ G1 Hk). cbn [tI].
  assert (As1 : at_start pass s1 = true).
  { rewrite (GS_at_start _ _ _ _ _ _ _ _ _ _ G1), (nth_mid_eq _ _ L0 [] PL [] eq_refl eq_refl). reflexivity. }
  assert (Pr1 : statement_prelude pass s1 = (set_line_type pass LLT_CaseArm s1, true)).
  { unfold statement_prelude, last_ctx. rewrite (GS_ctx _ _ _ _ _ _ _ _ _ G1), En1, As1. cbn [cStk ctx c_type]. rewrite Hskc. reflexivity. }
  rewrite Pr1. cbn [negb starm_of tI].
  pose proof (set_line_type_GS LLT_CaseArm _ _ _ _ _ _ _ _ _ _ G1) as G1'.
  rewrite (upd_nth_mid_eq _ _ _ M0 _ MP eq_refl Hm0) in G1'. cbn [lm_parent lm_level] in G1'.
  match type of G1' with GS ?x _ _ _ _ _ _ _ _ => set (s1' := x) in * end.
  unfold st_label_cand, label_or_other.
  assert (Lx : is_label_ctx_excluded pass s1' = true).
  { unfold is_label_ctx_excluded, last_ctype, last_ctx. rewrite (GS_ctx _ _ _ _ _ _ _ _ _ G1'). cbn [option_map cStk ctx c_type]. rewrite Hskc. reflexivity. }
  rewrite Lx, andb_false_r. unfold t_other, t_loop.
  pose proof (next_token_GS _ _ _ _ _ _ _ _ _ _ G1' Hkn) as G2.
  rewrite (upd_nth_mid_eq _ _ _ L0 [] PL eq_refl eq_refl) in G2. cbn [app] in G2.
  match type of G2 with GS ?x _ _ _ _ _ _ _ _ => set (s2 := x) in * end.
  (* the colon: the arm line is finished, then the body is a child line context *)
  assert (En2 : ending_ctx pass s2 = None).
  { unfold ending_ctx. rewrite (GS_ctx _ _ _ _ _ _ _ _ _ G2). fold (Xl bkc X).
    rewrite (pos_ends _ _ PA s2 tColon (GS_cur_is _ _ _ _ _ _ _ _ _ _ G2 Hk1) Pc). unfold El. destruct bkc; reflexivity. }
  rewrite (run_S _ C_statement _ (GS_err _ _ _ _ _ _ _ _ _ G2)).
  unfold arm_statement. rewrite (GS_cur_tt _ _ _ _ _ _ _ _ _ _ G2 Hk1). cbn [tColon].
  assert (Pr2 : statement_prelude pass s2 = (s2, true)).
  { unfold statement_prelude, last_ctx. rewrite (GS_ctx _ _ _ _ _ _ _ _ _ G2), En2.
    rewrite (GS_at_start _ _ _ _ _ _ _ _ _ _ G2), (nth_mid_eq _ _ L0 [k] PL [] eq_refl eq_refl). reflexivity. }
  rewrite Pr2. cbn [negb starm_of tColon]. unfold st_colon.
  assert (LP : line_parent_of_current pass s2 = Some (length L0, S k)).
  { unfold line_parent_of_current. rewrite (cur_index_G s2 (S k) (GS_pidx _ _ _ _ _ _ _ _ _ G2) (tokfin_lt _ Hkn1)), (GS_cur_ref _ _ _ _ _ _ _ _ _ _ G2). reflexivity. }
  rewrite LP.
  pose proof (next_token_GS _ _ _ _ _ _ _ _ _ _ G2 Hkn1) as G3.
  rewrite (upd_nth_mid_eq _ _ _ L0 [k] PL eq_refl eq_refl) in G3. cbn [app] in G3.
  match type of G3 with GS ?x _ _ _ _ _ _ _ _ => set (s3 := x) in * end.
  assert (Ct3 : cur_type pass s3 = LLT_CaseArm).
  { rewrite (GS_cur_type _ _ _ _ _ _ _ _ _ _ G3), (nth_mid_eq _ _ M0 _ MP lm0 eq_refl Hm0). reflexivity. }
  rewrite Ct3. cbn [llt_is LogicalLineType_eqb LogicalLineType_idx Nat.eqb].
  pose proof (finish_GS _ _ _ _ _ _ _ _ _ _ G3) as G4.
  rewrite (nth_mid_eq _ _ L0 [k; S k] PL [] eq_refl eq_refl) in G4. specialize (G4 ltac:(discriminate)).
  rewrite (upd_nth_mid_eq _ _ _ M0 _ MP eq_refl Hm0) in G4. cbn [lm_type] in G4.
  fold h in G4.
  rewrite (first_parent_St_blk bkc), (plain_sum_St_blk bkc) in G4.
  replace (clamp_u16 (0 + (1 + plain_sum X))) with (lvl (plain_sum X + 1)) in G4 by (unfold lvl; f_equal; lia).
  match type of G4 with GS ?x _ _ _ _ _ _ _ _ => set (s4 := x) in * end.
  (* the body; the `;` joins its last line *)
  rewrite (run_S _ (C_case_arm _) _ (GS_err _ _ _ _ _ _ _ _ _ G4)). unfold arm_case_arm.
  change (ctx (CT_Statement SK_Normal) false P_never (CL_Parent (length L0, S k) 1%N)) with (cCh false (length L0, S k)).
  fold (Xl bkc X) in G4.
  destruct (child_sep stk false (CL_Parent (length L0, S k) 1%N) (length L0, S k) c (Xl bkc X) (El bkc) (S f) _ _ _ _ _ _ _ _ tSemi 1 t'
              IHc PA G4 Hwf ltac:(discriminate) Hb (or_introl eq_refl) eq_refl (fun _ => conj He1 (conj Hne HnE)) ltac:(lia)) as (last5 & G5).
  cbv zeta in G5. cbn [is_semi tSemi] in G5. fold e in G5.
  replace (length ((L0 ++ [k; S k] :: PL) ++ [[]])) with (S h) in G5 by (unfold h; rewrite !app_length; cbn [length]; lia).
  unfold Xl in G5. cbn [mark_ended] in G5.
  set (SL := sexpected (Some (length L0, S k)) 1 (S (S k)) (S h) [e] c) in *.
  match type of G5 with GS ?x _ _ _ _ _ _ _ _ => set (s5 := x) in * end.
  pose proof (finish_empty_GS _ _ _ _ _ _ _ _ _ _ G5) as G7.
  rewrite (nth_mid_eq _ _ (L0 ++ [k; S k] :: PL) [] (map ll_toks SL ++ [[]]) []) in G7
    by (try reflexivity; rewrite <- !app_assoc; reflexivity).
  specialize (G7 eq_refl).
  assert (Hlen : length ((M0 ++ mkLM (first_parent X) (lvl (plain_sum X + 1)) LLT_CaseArm :: MP)) = h).
  { destruct H as (_ & _ & Ml & _). unfold h. rewrite !app_length in *. cbn [length] in *. lia. }
  rewrite (upd_nth_mid_eq _ h _ (M0 ++ mkLM (first_parent X) (lvl (plain_sum X + 1)) LLT_CaseArm :: MP) (mkLM None (lvl (plain_sum X + 1)) LLT_Unknown)
             (map meta_of SL ++ [mkLM None (lvl 1) LLT_Unknown])) in G7
    by (try exact Hlen; repeat (progress (cbn [app]; rewrite <- ?app_assoc)); reflexivity).
  cbn [lm_parent lm_level] in G7.
  match type of G7 with GS ?x _ _ _ _ _ _ _ _ => set (s7 := x) in * end.
  rewrite (caret_noop_G s7 (toks_plain_G s7 _ (GS_toks _ _ _ _ _ _ _ _ _ G7))). unfold t_loop.
  (* back in parse_statement and parse_structures: the statement context has ended *)
  rewrite (statement_stop_G _ s7 t' _ _ _ 1 (GS_err _ _ _ _ _ _ _ _ _ G7) (GS_cur_is _ _ _ _ _ _ _ _ _ _ G7 He1) HnE
             (GS_ctx _ _ _ _ _ _ _ _ _ G7) (ending_G_ended s7 _ _ (GS_ctx _ _ _ _ _ _ _ _ _ G7))).
  pose proof (update_statuses_GS 1 _ _ _ _ _ _ _ _ _ G7) as G8. cbn [mark_ended] in G8.
  match type of G8 with GS ?x _ _ _ _ _ _ _ _ => set (s8 := x) in * end.
  rewrite (structures_stop_G _ s8 t' 1 (GS_err _ _ _ _ _ _ _ _ _ G8) (GS_cur_is _ _ _ _ _ _ _ _ _ _ G8 He1) HnE
             (ending_G_ended s8 _ _ (GS_ctx _ _ _ _ _ _ _ _ _ G8))).
  pose proof (update_statuses_GS 1 _ _ _ _ _ _ _ _ _ G8) as G9. cbn [mark_ended] in G9.
  pose proof (pop_ctx_GS _ _ _ _ _ _ _ _ _ _ G9) as G10.
  pose proof (finish_empty_GS _ _ _ _ _ _ _ _ _ _ G10) as G11.
  rewrite (nth_mid_eq _ _ (L0 ++ [k; S k] :: PL) [] (map ll_toks SL ++ [[]]) []) in G11
    by (try reflexivity; rewrite <- !app_assoc; reflexivity).
  specialize (G11 eq_refl).
  rewrite (upd_nth_mid_eq _ h _ (M0 ++ mkLM (first_parent X) (lvl (plain_sum X + 1)) LLT_CaseArm :: MP) (mkLM None (lvl (plain_sum X + 1)) LLT_Unknown)
             (map meta_of SL ++ [mkLM None (lvl 1) LLT_Unknown])) in G11
    by (try exact Hlen; repeat (progress (cbn [app]; rewrite <- ?app_assoc)); reflexivity).
  cbn [lm_parent lm_level] in G11.
  match type of G11 with GS ?x _ _ _ _ _ _ _ _ => set (s11 := x) in * end.
  rewrite (take_separators_noop_G _ s11).
  2: { rewrite (GS_cur_tt _ _ _ _ _ _ _ _ _ _ G11 He1). destruct t' as [o| | | | | | | | | |]; try reflexivity. destruct o; try reflexivity. exfalso. apply Hne. reflexivity. }
  eexists. eapply GS_lists; [exact G11| |].
  - unfold pb. fold SL. rewrite map_app. cbn [map ll_toks stray]. repeat (progress (cbn [app]; rewrite <- ?app_assoc)). reflexivity.
  - unfold pb. fold SL. rewrite map_app. cbn [map meta_of stray ll_parent ll_level ll_type]. repeat (progress (cbn [app]; rewrite <- ?app_assoc)). reflexivity.
Qed.

(* ---------------- the arms of a case statement: the statement-list loop of the case block *)
Definition need_arms (a : arms) : nat := 20 + 10 * length (render_arms a).
Definition Parms (a : arms) : Prop :=
  forall stk bkc X E f s k L0 PL M0 mcur MP last lv a0 pend,
  sk_of bkc = SK_Case -> Pos0 X E ->
  GS s k (L0 ++ [] :: PL) (length L0 :: stk) (M0 ++ mcur :: MP) last ((cBlk bkc, false) :: X) lv a0 ->
  length M0 = length L0 -> PL = map ll_toks (pend (length L0 + 1)) -> MP = map meta_of (pend (length L0 + 1)) ->
  wf_arms a = true -> toks_at k (render_arms a ++ [tTerm bkc]) -> need_arms a <= f ->
  let par := first_parent X in
  let d := plain_sum X in
  let j := arms_li k (length L0) a pend in
  exists mc' last' fl, lm_type mc' = LLT_Unknown /\
    GS (RUN f (slc bkc) s) (k + length (render_arms a))
       (L0 ++ map ll_toks (arms_pre par d k (length L0) a pend) ++ [] :: map ll_toks (arms_pend k (length L0) a pend (j + 1)))
       (j :: stk)
       (M0 ++ map meta_of (arms_pre par d k (length L0) a pend) ++ mc' :: map meta_of (arms_pend k (length L0) a pend (j + 1)))
       last' ((cBlk bkc, fl) :: X) lv a0.
Lemma arms_nil_run : Parms ANil.
Proof.
  intros stk bkc X E f s k L0 PL M0 mcur MP last lv a0 pend Hskc P0 H Hm0 HPL HMP Hwf Ht Hf par d j.
  pose proof (pos0_list bkc X (pos_notd _ _ P0)) as PA.
  unfold need_arms in Hf. cbn [render_arms length app] in *. subst j. cbn [arms_li arms_pre arms_pend map app].
  pose proof (toks_at_0 _ _ _ Ht eq_refl) as Hk.
  assert (Pt : plain (tTerm bkc)) by exact (plain_nth _ _ Hk).
  assert (HnE : tTerm bkc <> RTT_Eof) by (destruct bkc; discriminate).
  destruct f as [|[|[|f]]]; try lia.
  unfold slc. rewrite (stmt_list_unfold _ _ _ _ _ (GS_err _ _ _ _ _ _ _ _ _ H)). cbv zeta.
  change (ctx (CT_Statement (sk_of bkc)) false P_semicolon (ParserGrammar.L 0)) with (cStk bkc).
  rewrite (with_ctx_structures _ (cStk bkc) s (GS_err _ _ _ _ _ _ _ _ _ H) eq_refl).
  pose proof (finish_empty_GS _ _ _ _ _ _ _ _ _ _ H (nth_mid_eq _ _ L0 [] PL [] eq_refl eq_refl)) as G0.
  rewrite (upd_nth_mid_eq _ _ _ M0 mcur MP eq_refl Hm0) in G0.
  pose proof (push_ctx_GS (cStk bkc) _ _ _ _ _ _ _ _ _ G0) as G1.
  match type of G1 with GS ?x _ _ _ _ _ _ _ _ => set (s1 := x) in * end.
  assert (En1 : ending_ctx pass s1 = Some 2).
  { unfold ending_ctx. rewrite (GS_ctx _ _ _ _ _ _ _ _ _ G1). fold (Xl bkc X).
    rewrite (pos_ends _ _ PA s1 (tTerm bkc) (GS_cur_is _ _ _ _ _ _ _ _ _ _ G1 Hk) Pt). unfold El. destruct bkc; reflexivity. }
  rewrite (structures_stop_G _ s1 (tTerm bkc) 2 (GS_err _ _ _ _ _ _ _ _ _ G1) (GS_cur_is _ _ _ _ _ _ _ _ _ _ G1 Hk) HnE En1).
  pose proof (update_statuses_GS 2 _ _ _ _ _ _ _ _ _ G1) as G2. cbn [mark_ended] in G2.
  pose proof (pop_ctx_GS _ _ _ _ _ _ _ _ _ _ G2) as G3.
  pose proof (finish_empty_GS _ _ _ _ _ _ _ _ _ _ G3 (nth_mid_eq _ _ L0 [] PL [] eq_refl eq_refl)) as G4.
  rewrite (upd_nth_mid_eq _ _ _ M0 _ MP eq_refl Hm0) in G4. cbn [lm_parent lm_level] in G4.
  match type of G4 with GS ?x _ _ _ _ _ _ _ _ => set (s4 := x) in * end.
  rewrite (take_separators_noop_G _ s4) by (rewrite (GS_cur_tt _ _ _ _ _ _ _ _ _ _ G4 Hk); destruct bkc; reflexivity).
  assert (IE : is_ending pass s4 = true) by (unfold is_ending, ending_ctx; rewrite (GS_ctx _ _ _ _ _ _ _ _ _ G4); reflexivity).
  rewrite IE. cbn [orb]. rewrite Nat.add_0_r.
  eexists _, _, _. split.
  2: { eapply GS_lists; [exact G4| rewrite HPL; reflexivity | rewrite HMP; reflexivity]. }
  reflexivity.
Qed.

Lemma arms_cons_run c a' : Pcore c -> Parms a' -> Parms (ACons c a').
Proof.
  intros Qc IHa stk bkc X E f s k L0 PL M0 mcur MP last lv a0 pend Hskc P0 H Hm0 HPL HMP Hwf Ht Hf par d j.
  cbn [wf_arms] in Hwf. apply andb_prop in Hwf. destruct Hwf as [Hwc Hwa].
  unfold need_arms in Hf. cbn [render_arms length] in Hf. rewrite !app_length in Hf. cbn [length] in Hf.
  cbn [render_arms] in Ht.
  assert (Eq : (tI :: tColon :: render_stmt c ++ tSemi :: render_arms a') ++ [tTerm bkc]
               = [tI; tColon] ++ (render_stmt c ++ [tSemi]) ++ (render_arms a' ++ [tTerm bkc])).
  { cbn [app]. rewrite <- !app_assoc. reflexivity. }
  rewrite Eq in Ht.
  pose proof (Ht 0 _ eq_refl) as Hk. rewrite Nat.add_0_r in Hk.
  pose proof (Ht 1 _ eq_refl) as Hk1.
  assert (Ht2 : toks_at (k + 2) ((render_stmt c ++ [tSemi]) ++ render_arms a' ++ [tTerm bkc])).
  { apply (toks_at_shift k 2 [tI; tColon]); [exact Ht|reflexivity]. }
  assert (Hb : toks_at (k + 2) (render_stmt c ++ [tSemi])) by (eapply toks_at_prefix; exact Ht2).
  set (e := k + 2 + length (render_stmt c)).
  assert (Htr : toks_at (e + 1) (render_arms a' ++ [tTerm bkc])).
  { replace (e + 1) with (k + 2 + length (render_stmt c ++ [tSemi])) by (rewrite app_length; cbn [length]; unfold e; lia).
    apply (toks_at_shift _ _ (render_stmt c ++ [tSemi])); [exact Ht2|reflexivity]. }
  assert (Ht' : exists t', nth_error (render_arms a' ++ [tTerm bkc]) 0 = Some t' /\ t' <> tSemi /\ t' <> RTT_Eof
                /\ ((a' = ANil /\ t' = tTerm bkc) \/ (a' <> ANil /\ t' = tI))).
  { destruct a' as [|c2 a2]; cbn; eexists; (split; [reflexivity|]); repeat split; try discriminate; try (destruct bkc; discriminate).
    - left. split; reflexivity.
    - right. split; [discriminate|reflexivity]. }
  destruct Ht' as (t' & H0 & N1 & NE & Hcase).
  pose proof (toks_at_0 _ _ _ Htr H0) as He1.
  destruct f as [|f]; [lia|].
  unfold slc. rewrite (stmt_list_unfold _ _ _ _ _ (GS_err _ _ _ _ _ _ _ _ _ H)). cbv zeta.
  change (ctx (CT_Statement (sk_of bkc)) false P_semicolon (ParserGrammar.L 0)) with (cStk bkc).
  change (ParserGrammar.L 0) with (CL_Level 0%Z).
  replace (k + 1) with (S k) in Hk1 by lia. replace (k + 2) with (S (S k)) in Hb by lia.
  replace (e + 1) with (S (S (S k) + length (render_stmt c))) in He1 by (unfold e; lia).
  destruct (iter_arm stk bkc c X E f _ _ _ _ _ _ _ _ _ _ t' Hskc Qc P0 H Hm0 Hwc Hk Hk1 Hb He1 N1 NE ltac:(unfold need_stmt; lia)) as (last1 & G).
  cbv zeta in G.
  (* the forms of Fragment.arms_lines *)
  replace (S (S (S k) + length (render_stmt c))) with (e + 1) in G by (unfold e; lia).
  replace (S (S k) + length (render_stmt c)) with e in G by (unfold e; lia).
  replace (S (S k)) with (k + 2) in G by lia. replace (S k) with (k + 1) in G by lia.
  replace (S (length (L0 ++ [k; k + 1] :: PL))) with (length (L0 ++ [k; k + 1] :: PL) + 1) in G by lia.
  set (h := length (L0 ++ [k; k + 1] :: PL)) in *.
  assert (Hh : h = length L0 + 1 + length (pend (length L0 + 1))).
  { unfold h. rewrite HPL, app_length. cbn [length]. rewrite map_length. lia. }
  match type of G with GS ?x _ _ _ _ _ _ _ _ => set (s3 := x) in * end.
  assert (IE : is_ending pass s3 = is_term bkc t').
  { apply (is_ending_G_blk bkc s3 _ t' (GS_ctx _ _ _ _ _ _ _ _ _ G)); [|exact (plain_nth _ _ He1)].
    apply (GS_cur_is _ _ _ _ _ _ _ _ _ _ G). replace (e + 1) with (S (S (S k) + length (render_stmt c))) by (unfold e; lia). exact He1. }
  rewrite IE.
  subst j d par. cbn [arms_li arms_pre arms_pend]. cbv zeta. fold e. rewrite <- Hh.
  destruct Hcase as [[Ea Et]|[Ea Et]].
  - (* the last arm *)
    subst a' t'. rewrite is_term_term. cbn [orb arms_li arms_pre arms_pend render_arms].
    replace (k + length (tI :: tColon :: render_stmt c ++ [tSemi])) with (e + 1) by (cbn [length]; rewrite app_length; cbn [length]; unfold e; lia).
    eexists _, _, _. split; [|eapply GS_lists; [exact G| |]]; cycle 1.
    + rewrite HPL. cbn [map ll_toks]. rewrite ?app_nil_r, ?map_app. cbn [map]. repeat (progress (cbn [app]; rewrite <- ?app_assoc)). reflexivity.
    + rewrite HMP. cbn [map meta_of ll_parent ll_level ll_type]. rewrite ?app_nil_r, ?map_app. cbn [map].
      repeat (progress (cbn [app]; rewrite <- ?app_assoc)). reflexivity.
    + reflexivity.
  - (* another arm follows *)
    subst t'. assert (X0 : is_term bkc tI = false) by (destruct bkc; reflexivity). rewrite X0. clear X0.
    assert (Ct : cur_tt pass s3 = Some tI).
    { refine (GS_cur_tt _ _ _ _ _ _ _ _ _ tI G _). replace (e + 1) with (S (S (S k) + length (render_stmt c))) by (unfold e; lia). exact He1. }
    rewrite Ct. cbn [orb].
    set (pend' := fun i : nat => sexpected (Some (length L0, k + 1)) 1 (k + 2) i [e] c ++ [stray]).
    assert (Hlen : length (M0 ++ mkLM (first_parent X) (lvl (plain_sum X + 1)) LLT_CaseArm :: MP) = length (L0 ++ [k; k + 1] :: PL)).
    { rewrite !app_length. cbn [length]. rewrite HPL, HMP, !map_length. lia. }
    destruct (IHa stk bkc X E f s3 (e + 1) (L0 ++ [k; k + 1] :: PL) (map ll_toks (pend' (h + 1)))
                (M0 ++ mkLM (first_parent X) (lvl (plain_sum X + 1)) LLT_CaseArm :: MP) _ (map meta_of (pend' (h + 1))) _ _ _ pend'
                Hskc P0 G Hlen eq_refl eq_refl Hwa Htr ltac:(unfold need_arms; lia))
      as (mc' & last' & fl & Ty & G').
    cbv zeta in G'. fold h in G'.
    exists mc', last', fl. split; [exact Ty|].
    cbn [render_arms].
    replace (k + length (tI :: tColon :: render_stmt c ++ tSemi :: render_arms a')) with (e + 1 + length (render_arms a'))
      by (cbn [length]; rewrite app_length; cbn [length]; unfold e; lia).
    eapply GS_lists; [exact G'| |].
    + rewrite HPL. cbn [map ll_toks]. rewrite !map_app. repeat (progress (cbn [app]; rewrite <- ?app_assoc)). reflexivity.
    + rewrite HMP. cbn [map meta_of ll_parent ll_level ll_type]. rewrite !map_app. repeat (progress (cbn [app]; rewrite <- ?app_assoc)). reflexivity.
Qed.


(* ---------------- the statements without child lines as instances of Pcore *)
Definition Plist (ss : stmts) : Prop :=
  forall stk par bk C, sk_of bk <> SK_Case -> notd C -> first_parent C = par -> wf ss = true -> IHfor stk par bk ss C.
Lemma tf_not_eof tf : tf = tSemi \/ tf = tElse -> tf <> RTT_Eof /\ o_colon (Some tf) = false /\ o_dot (Some tf) = false.
Proof. intros [-> | ->]; repeat split; discriminate. Qed.
Lemma sk_normal_not_case bk : sk_of bk = SK_Normal -> sk_of bk <> SK_Case. Proof. intros ->. discriminate. Qed.

Lemma Pcore_simple : Pcore TSimple.
Proof.
  intros stk X E pp f s k L M mc last lv a tf j t2 HP Hl H Hty Hwf Hcl Ht Htf Ej Hn Hf cons e SL.
  destruct (tf_not_eof tf Htf) as (NE & Oc & _).
  pose proof (Ht 0 _ eq_refl) as Hk. rewrite Nat.add_0_r in Hk.
  pose proof (Ht 1 _ eq_refl) as Hk1. replace (k + 1) with (S k) in Hk1 by lia.
  unfold need_stmt in Hf. cbn [render_stmt length] in Hf.
  pose proof (core_simple stk X E pp f _ _ _ _ _ _ _ _ tf j HP Hl H Hk Hk1 Ej NE Oc ltac:(lia)) as H1. rewrite Hty in H1.
  exists (length L). subst cons e SL. cbn [selfterm andb render_stmt length sexpected map ll_toks meta_of ll_parent ll_level ll_type].
  replace (k + 1) with (S k) by lia. split; [exact H1|].
  intros _. exists [], LLT_Unknown, [k], []. split; [discriminate|]. split; [reflexivity|]. cbn [length]. lia.
Qed.
Lemma Pcore_assign : Pcore TAssign.
Proof.
  intros stk X E pp f s k L M mc last lv a tf j t2 HP Hl H Hty Hwf Hcl Ht Htf Ej Hn Hf cons e SL.
  destruct (tf_not_eof tf Htf) as (NE & Oc & _).
  pose proof (Ht 0 _ eq_refl) as Hk. rewrite Nat.add_0_r in Hk.
  pose proof (Ht 1 _ eq_refl) as Hk1. replace (k + 1) with (S k) in Hk1 by lia.
  pose proof (Ht 2 _ eq_refl) as Hk2. replace (k + 2) with (S (S k)) in Hk2 by lia.
  pose proof (Ht 3 _ eq_refl) as Hk3. replace (k + 3) with (S (S (S k))) in Hk3 by lia.
  unfold need_stmt in Hf. cbn [render_stmt length] in Hf.
  pose proof (core_assign stk X E pp f _ _ _ _ _ _ _ _ tf j HP Hl H Hty Hk Hk1 Hk2 Hk3 Ej NE Oc ltac:(lia)) as H1.
  exists (length L). subst cons e SL. cbn [selfterm andb render_stmt length sexpected map ll_toks meta_of ll_parent ll_level ll_type app].
  replace (k + 1) with (S k) by lia. replace (k + 2) with (S (S k)) by lia. replace (k + 3) with (S (S (S k))) by lia.
  split; [exact H1|].
  intros _. exists [], LLT_Assignment, [k; S k; S (S k)], []. split; [discriminate|]. split; [|cbn [length]; lia].
  intros sm. cbn [sexpected app]. replace (k + 1) with (S k) by lia. replace (k + 2) with (S (S k)) by lia. reflexivity.
Qed.
Lemma Pcore_block b : Plist b -> Pcore (TBlock b).
Proof.
  intros IHb stk X E pp f s k L M mc last lv a tf j t2 HP Hl H Hty Hwf Hcl Ht Htf Ej Hn Hf cons e SL.
  destruct (tf_not_eof tf Htf) as (NE & _ & Od).
  cbn [render_stmt wf_stmt] in *. unfold need_stmt in Hf. cbn [render_stmt length] in Hf. rewrite app_length in Hf. cbn [length] in Hf.
  assert (Eq : (tBegin :: render b ++ [tEnd]) ++ [tf] = [tBegin] ++ (render b ++ [tEnd]) ++ [tf]) by (cbn [app]; rewrite <- !app_assoc; reflexivity).
  rewrite Eq in Ht.
  pose proof (Ht 0 _ eq_refl) as Hk. rewrite Nat.add_0_r in Hk.
  assert (Htb : toks_at (S k) (render b ++ [tEnd])).
  { replace (S k) with (k + 1) by lia. eapply toks_at_prefix. apply (toks_at_shift k 1 [tBegin]); [exact Ht|reflexivity]. }
  assert (Hts : toks_at (S (S k + length (render b))) [tf]).
  { replace (S (S k + length (render b))) with (k + 1 + length (render b ++ [tEnd])) by (rewrite app_length; cbn [length]; lia).
    apply (toks_at_shift (k + 1) _ (render b ++ [tEnd])); [|reflexivity]. apply (toks_at_shift k 1 [tBegin]); [exact Ht|reflexivity]. }
  pose proof (toks_at_0 _ _ _ Hts eq_refl) as Hfo.
  pose proof HP as [P0 _].
  pose proof (core_block stk (first_parent X) X E pp b f _ _ _ _ _ _ _ _ tf j HP Hl
                (IHb stk _ KBegin X ltac:(discriminate) (pos_notd _ _ P0) eq_refl Hwf) eq_refl H Hty Hk Htb Hfo Ej NE Od ltac:(unfold need; lia)) as H1.
  cbv zeta in H1.
  eexists. subst cons e SL. cbn [selfterm andb sexpected render_stmt length]. cbv zeta. split.
  - replace (k + 1) with (S k) by lia. replace (length L + 1) with (S (length L)) by lia.
    replace (plain_sum X + 1)%Z with (1 + plain_sum X)%Z by lia.
    replace (k + S (length (render b ++ [tEnd]))) with (S (S k + length (render b))) by (rewrite app_length; cbn [length]; lia).
    eapply (ST_lists stk); [exact H1| |]; cbn [map]; repeat (rewrite map_app; cbn [map]); cbn [map app ll_toks];
      repeat (progress (cbn [app]; rewrite <- ?app_assoc)); reflexivity.
  - intros _. exists (mkLine LLT_Unknown (lvl (plain_sum X)) (first_parent X) [k] :: pexpected (first_parent X) (plain_sum X + 1) (k + 1) (length L + 1) b),
      LLT_Unknown, [k + 1 + length (render b)], []. split; [discriminate|]. split; [intros sm; reflexivity|].
    cbn [length]. rewrite ?app_length. replace (k + 1) with (S k) by lia. replace (length L + 1) with (S (length L)) by lia.
    replace (plain_sum X + 1)%Z with (1 + plain_sum X)%Z by lia. lia.
Qed.
Lemma Pcore_repeat b : Plist b -> Pcore (TRepeat b).
Proof.
  intros IHb stk X E pp f s k L M mc last lv a tf j t2 HP Hl H Hty Hwf Hcl Ht Htf Ej Hn Hf cons e SL.
  destruct (tf_not_eof tf Htf) as (NE & Oc & _).
  cbn [render_stmt wf_stmt] in *. unfold need_stmt in Hf. cbn [render_stmt length] in Hf. rewrite app_length in Hf. cbn [length] in Hf.
  assert (Eq : (tRepeat :: render b ++ [tUntil; tI]) ++ [tf] = [tRepeat] ++ (render b ++ [tUntil]) ++ [tI; tf]) by (cbn [app]; rewrite <- !app_assoc; reflexivity).
  rewrite Eq in Ht.
  pose proof (Ht 0 _ eq_refl) as Hk. rewrite Nat.add_0_r in Hk.
  assert (Htb : toks_at (S k) (render b ++ [tUntil])).
  { replace (S k) with (k + 1) by lia. eapply toks_at_prefix. apply (toks_at_shift k 1 [tRepeat]); [exact Ht|reflexivity]. }
  assert (Hts : toks_at (S (S k + length (render b))) [tI; tf]).
  { replace (S (S k + length (render b))) with (k + 1 + length (render b ++ [tUntil])) by (rewrite app_length; cbn [length]; lia).
    apply (toks_at_shift (k + 1) _ (render b ++ [tUntil])); [|reflexivity]. apply (toks_at_shift k 1 [tRepeat]); [exact Ht|reflexivity]. }
  pose proof (toks_at_0 _ _ _ Hts eq_refl) as Hi.
  pose proof (Hts 1 _ eq_refl) as Hfo. replace (S (S k + length (render b)) + 1) with (S (S (S k + length (render b)))) in Hfo by lia.
  pose proof HP as [P0 _].
  pose proof (core_repeat stk (first_parent X) X E pp b f _ _ _ _ _ _ _ _ tf j HP Hl
                (IHb stk _ KRepeat X ltac:(discriminate) (pos_notd _ _ P0) eq_refl Hwf) eq_refl H Hty Hk Htb Hi Hfo Ej NE Oc ltac:(unfold need; lia)) as H1.
  cbv zeta in H1.
  eexists. subst cons e SL. cbn [selfterm andb sexpected render_stmt length]. cbv zeta. split.
  - replace (k + 1) with (S k) by lia. replace (length L + 1) with (S (length L)) by lia.
    replace (plain_sum X + 1)%Z with (1 + plain_sum X)%Z by lia.
    replace (S k + length (render b) + 1) with (S (S k + length (render b))) by lia.
    replace (k + S (length (render b ++ [tUntil; tI]))) with (S (S (S k + length (render b)))) by (rewrite app_length; cbn [length]; lia).
    eapply (ST_lists stk); [exact H1| |]; cbn [map]; repeat (rewrite map_app; cbn [map]); cbn [map app ll_toks];
      repeat (progress (cbn [app]; rewrite <- ?app_assoc)); reflexivity.
  - intros _. exists (mkLine LLT_Unknown (lvl (plain_sum X)) (first_parent X) [k] :: pexpected (first_parent X) (plain_sum X + 1) (k + 1) (length L + 1) b),
      LLT_Unknown, [k + 1 + length (render b); k + 1 + length (render b) + 1], []. split; [discriminate|]. split; [intros sm; reflexivity|].
    cbn [length]. rewrite ?app_length. replace (k + 1) with (S k) by lia. replace (length L + 1) with (S (length L)) by lia.
    replace (plain_sum X + 1)%Z with (1 + plain_sum X)%Z by lia. lia.
Qed.
Lemma Pcore_try (ex : bool) b c : Plist b -> Plist c -> Pcore (if ex then TTryExcept b c else TTry b c).
Proof.
  intros IHb IHc stk X E pp f s k L M mc last lv a tf j t2 HP Hl H Hty Hwf Hcl Ht Htf Ej Hn Hf cons e SL.
  destruct (tf_not_eof tf Htf) as (NE & _ & _).
  set (tm := if ex then tExcept else tFinally).
  assert (Er : render_stmt (if ex then TTryExcept b c else TTry b c) = tTry :: render b ++ tm :: render c ++ [tEnd]) by (destruct ex; reflexivity).
  assert (Ew : wf b = true /\ wf c = true) by (destruct ex; cbn [wf_stmt] in Hwf; apply andb_prop in Hwf; exact Hwf).
  destruct Ew as [Hwb Hwc].
  unfold need_stmt in Hf. rewrite Er in Ht, Hf. cbn [length] in Hf. rewrite !app_length in Hf. cbn [length] in Hf. rewrite app_length in Hf. cbn [length] in Hf.
  assert (Eq : (tTry :: render b ++ tm :: render c ++ [tEnd]) ++ [tf] = [tTry] ++ (render b ++ [tm]) ++ (render c ++ [tEnd]) ++ [tf]).
  { cbn [app]. rewrite <- !app_assoc. cbn [app]. rewrite <- !app_assoc. reflexivity. }
  rewrite Eq in Ht.
  pose proof (Ht 0 _ eq_refl) as Hk. rewrite Nat.add_0_r in Hk.
  assert (Htb : toks_at (S k) (render b ++ [tm])).
  { replace (S k) with (k + 1) by lia. eapply toks_at_prefix. apply (toks_at_shift k 1 [tTry]); [exact Ht|reflexivity]. }
  set (m := S k + length (render b)).
  assert (Ht2 : toks_at (S m) ((render c ++ [tEnd]) ++ [tf])).
  { replace (S m) with (k + 1 + length (render b ++ [tm])) by (rewrite app_length; cbn [length]; unfold m; lia).
    apply (toks_at_shift (k + 1) _ (render b ++ [tm])); [|reflexivity]. apply (toks_at_shift k 1 [tTry]); [exact Ht|reflexivity]. }
  assert (Htc : toks_at (S m) (render c ++ [tEnd])) by (eapply toks_at_prefix; exact Ht2).
  assert (Hts : toks_at (S (S m + length (render c))) [tf]).
  { replace (S (S m + length (render c))) with (S m + length (render c ++ [tEnd])) by (rewrite app_length; cbn [length]; lia).
    apply (toks_at_shift (S m) _ (render c ++ [tEnd])); [exact Ht2|reflexivity]. }
  pose proof (toks_at_0 _ _ _ Hts eq_refl) as Hfo.
  pose proof HP as [P0 _].
  assert (Tm : tTerm (if ex then KTryE else KTry) = tm) by (destruct ex; reflexivity).
  pose proof (core_try stk (first_parent X) ex X E pp b (render c) (need c) (fun k li => pexpected (first_parent X) (1 + plain_sum X) k li c) f _ _ _ _ _ _ _ _ tf j HP Hl
                (IHb stk _ (if ex then KTryE else KTry) X ltac:(destruct ex; discriminate) (pos_notd _ _ P0) eq_refl Hwb)
                (IHc stk _ (if ex then KExcept else KFinally) X ltac:(destruct ex; discriminate) (pos_notd _ _ P0) eq_refl Hwc) eq_refl H Hty Hk) as H1.
  cbv zeta in H1. rewrite Tm in H1. specialize (H1 Htb Htc Hfo Ej NE ltac:(unfold need; lia)). fold m in H1.
  assert (Es : forall sm, sexpected (first_parent X) (plain_sum X) k (length L) sm (if ex then TTryExcept b c else TTry b c)
               = sexpected (first_parent X) (plain_sum X) k (length L) sm (TTry b c)) by (destruct ex; reflexivity).
  eexists. subst cons e SL.
  assert (Sf : selfterm (if ex then TTryExcept b c else TTry b c) = false) by (destruct ex; reflexivity). rewrite Sf. cbn [andb].
  rewrite Es, Er. cbn [sexpected]. cbv zeta. split.
  - replace (k + 1) with (S k) by lia. replace (length L + 1) with (S (length L)) by lia.
    replace (plain_sum X + 1)%Z with (1 + plain_sum X)%Z by lia. fold m. replace (m + 1) with (S m) by lia.
    replace (k + length (tTry :: render b ++ tm :: render c ++ [tEnd])) with (S (S m + length (render c)))
      by (cbn [length]; rewrite !app_length; cbn [length]; rewrite app_length; cbn [length]; unfold m; lia).
    eapply (ST_lists stk); [exact H1| |]; cbn [map]; repeat (rewrite map_app; cbn [map]); cbn [map app ll_toks];
      repeat (progress (cbn [app]; rewrite <- ?app_assoc)); reflexivity.
  - intros _.
    exists (mkLine LLT_Unknown (lvl (plain_sum X)) (first_parent X) [k] :: pexpected (first_parent X) (plain_sum X + 1) (k + 1) (length L + 1) b
            ++ mkLine LLT_Unknown (lvl (plain_sum X)) (first_parent X) [k + 1 + length (render b)]
            :: pexpected (first_parent X) (plain_sum X + 1) (k + 1 + length (render b) + 1)
                 (length L + 1 + length (pexpected (first_parent X) (plain_sum X + 1) (k + 1) (length L + 1) b) + 1) c),
      LLT_Unknown, [k + 1 + length (render b) + 1 + length (render c)], []. split; [discriminate|]. split.
    + intros sm. rewrite Es. cbn [sexpected]. cbv zeta. cbn [app]. rewrite <- app_assoc. cbn [app]. reflexivity.
    + cbn [length]. rewrite ?app_length. cbn [length]. replace (k + 1) with (S k) by lia. replace (length L + 1) with (S (length L)) by lia.
      replace (plain_sum X + 1)%Z with (1 + plain_sum X)%Z by lia. fold m. replace (m + 1) with (S m) by lia. lia.
Qed.


(* ---------------- case Identifier of arms [else stmts] end *)
Lemma in_type_decl_false stk s k L c M mc last X lv a :
  ST stk s k L c M mc last X lv a -> notd X -> is_in_type_decl pass s = false.
Proof. intros H Hnd. unfold is_in_type_decl, any_ctype. rewrite (ST_ctx stk _ _ _ _ _ _ _ _ _ _ H). exact Hnd. Qed.
(* finishing a non-empty current line that need not be the last line, after an optional pop *)
Lemma fin_gs pp X j (s : pstate) k Ls h cs M last lv a : (pp = true -> lvl0 X) ->
  GS s k Ls (h :: cs) M last (mark_ended j X) lv a -> nth h Ls [] <> [] ->
  GS (finish_logical_line pass (optpop pp s)) k (Ls ++ [[]]) (length Ls :: cs)
     (upd_nth h (fun m => mkLM (first_parent X) (clamp_u16 (plain_sum X)) (lm_type m)) M ++ [mkLM None (clamp_u16 (plain_sum X)) LLT_Unknown])
     h (optpopc pp (mark_ended j X)) lv a.
Proof.
  intros Hl H Hn. destruct (optpop_level pp j X Hl) as [E1 E2]. rewrite <- E1, <- E2.
  destruct pp; cbn [optpop optpopc] in *.
  - destruct (Hl eq_refl) as (x & fl & r & -> & _). destruct j; cbn [mark_ended] in H |- *;
      exact (finish_GS _ _ _ _ _ _ _ _ _ _ (pop_ctx_GS _ _ _ _ _ _ _ _ _ _ H) Hn).
  - exact (finish_GS _ _ _ _ _ _ _ _ _ _ H Hn).
Qed.

(* the header line, the case block and its arms: the state in front of `end`/`else` *)
Lemma case_head stk bkc a X E f s k L M mc last lv a0 :
  bkc = KCase \/ bkc = KCaseE -> Parms a -> Pos X E ->
  ST stk s k L [] M mc last X lv a0 -> wf_arms a = true ->
  nth_error T k = Some tCase -> nth_error T (S k) = Some tI -> nth_error T (S (S k)) = Some tOf ->
  toks_at (S (S (S k))) (render_arms a ++ [tTerm bkc]) -> 10 + need_arms a <= f ->
  let par := first_parent X in let d := plain_sum X in
  let ke := S (S (S k)) + length (render_arms a) in
  let pre := arms_pre par d (S (S (S k))) (length L + 1) a (fun _ => []) in
  let j := arms_li (S (S (S k))) (length L + 1) a (fun _ => []) in
  let pl := arms_pend (S (S (S k))) (length L + 1) a (fun _ => []) (j + 1) in
  let s5 := finish_logical_line pass (next_token pass (RUN (S f) (C_line_section (cUtp HOf)) (set_line_type pass LLT_CaseHeader (next_token pass s)))) in
  exists mc' last',  lm_type mc' = LLT_Unknown /\
    cur_tt pass (RUN (S f) (C_line_section (cUtp HOf)) (set_line_type pass LLT_CaseHeader (next_token pass s))) = Some tOf /\
    GS (RUN (S f) (C_stmt_block (cBlk KCase) SK_Case) s5) ke
       (L ++ [k; S k; S (S k)] :: map ll_toks pre ++ [] :: map ll_toks pl) (j :: stk)
       (M ++ mkLM par (lvl d) LLT_CaseHeader :: map meta_of pre ++ mc' :: map meta_of pl) last' X lv a0
    /\ j = length L + 1 + length pre.
Proof.
  intros Hbk IHa [P0 _] H Hwf Hk Hk1 Hk2 Hb Hf par d ke pre j pl s5.
  assert (Hkn : tokfin (k)) by tokfin_tac.
  assert (Hkn2 : tokfin (S (S k))) by tokfin_tac.
  assert (Ml : length M = length L) by (destruct H as (_ & _ & Ml & _); exact Ml).
  destruct f as [|[|[|f]]]; try lia.
  destruct Hbk as [-> | ->].
  {
    pose proof (next_token_ST stk _ _ _ _ _ _ _ _ _ _ H Hkn) as H2. cbn [app] in H2.
    pose proof (set_line_type_ST stk LLT_CaseHeader _ _ _ _ _ _ _ _ _ _ H2) as H2'. cbn [lm_parent lm_level] in H2'.
    pose proof (line_section_run stk HOf (S (S (S (S f)))) _ _ _ _ _ _ _ _ _ _ H2' Hk1 Hk2 ltac:(lia)) as H3. cbn [app] in H3.
    match type of H3 with ST _ ?x _ _ _ _ _ _ _ _ _ => set (s3 := x) in * end.
    pose proof (next_token_ST stk _ _ _ _ _ _ _ _ _ _ H3 Hkn2) as H4. cbn [app] in H4.
    pose proof (finish_ST stk _ _ _ _ _ _ _ _ _ _ H4 ltac:(discriminate)) as H5. cbn [lm_type] in H5.
    fold par in H5. change (clamp_u16 (plain_sum X)) with (lvl d) in H5.
    change (cBlk KCase) with (cBlk KCase).
    rewrite (run_S _ (C_stmt_block (cBlk KCase) SK_Case) _ (ST_err stk _ _ _ _ _ _ _ _ _ _ H5)). unfold arm_stmt_block.
    rewrite (with_ctx_stmt_list _ (cBlk KCase) _ _ (ST_err stk _ _ _ _ _ _ _ _ _ _ H5) eq_refl).
    change (C_stmt_list (CT_Statement SK_Case) false P_semicolon) with (slc KCase).
    pose proof (finish_empty_ST stk _ _ _ _ _ _ _ _ _ H5) as H6. cbn [lm_parent lm_level] in H6.
    pose proof (push_ctx_ST stk (cBlk KCase) _ _ _ _ _ _ _ _ _ _ H6) as H7.
    pose proof (ST_GS stk _ _ _ _ _ _ _ _ _ _ H7) as G7.
    assert (Hl0 : length (M ++ [mkLM par (lvl d) LLT_CaseHeader]) = length (L ++ [[k; S k; S (S k)]])) by (rewrite !app_length, Ml; reflexivity).
    destruct (IHa stk KCase X E (S (S f)) _ (S (S (S k))) (L ++ [[k; S k; S (S k)]]) [] (M ++ [mkLM par (lvl d) LLT_CaseHeader]) _ [] _ _ _
                (fun _ => []) eq_refl P0 G7 Hl0 eq_refl eq_refl Hwf Hb ltac:(lia)) as (mc' & last' & fl & Ty & G8).
    cbv zeta in G8. fold ke in G8.
    replace (length (L ++ [[k; S k; S (S k)]])) with (length L + 1) in G8 by (rewrite app_length; reflexivity).
    fold par d in G8. fold pre in G8. fold j in G8. fold pl in G8.
    pose proof (pop_ctx_GS _ _ _ _ _ _ _ _ _ _ G8) as G9.
    exists mc', last'. split; [exact Ty|]. split; [rewrite (ST_cur_tt stk _ _ _ _ _ _ _ _ _ _ _ H3 Hk2); reflexivity|]. split.
    - eapply GS_lists; [exact G9| |]; repeat (progress (cbn [app]; rewrite <- ?app_assoc)); reflexivity.
    - unfold j, pre. rewrite (arms_li_eq a par d). lia.
  }
  {
    pose proof (next_token_ST stk _ _ _ _ _ _ _ _ _ _ H Hkn) as H2. cbn [app] in H2.
    pose proof (set_line_type_ST stk LLT_CaseHeader _ _ _ _ _ _ _ _ _ _ H2) as H2'. cbn [lm_parent lm_level] in H2'.
    pose proof (line_section_run stk HOf (S (S (S (S f)))) _ _ _ _ _ _ _ _ _ _ H2' Hk1 Hk2 ltac:(lia)) as H3. cbn [app] in H3.
    match type of H3 with ST _ ?x _ _ _ _ _ _ _ _ _ => set (s3 := x) in * end.
    pose proof (next_token_ST stk _ _ _ _ _ _ _ _ _ _ H3 Hkn2) as H4. cbn [app] in H4.
    pose proof (finish_ST stk _ _ _ _ _ _ _ _ _ _ H4 ltac:(discriminate)) as H5. cbn [lm_type] in H5.
    fold par in H5. change (clamp_u16 (plain_sum X)) with (lvl d) in H5.
    change (cBlk KCase) with (cBlk KCaseE).
    rewrite (run_S _ (C_stmt_block (cBlk KCaseE) SK_Case) _ (ST_err stk _ _ _ _ _ _ _ _ _ _ H5)). unfold arm_stmt_block.
    rewrite (with_ctx_stmt_list _ (cBlk KCaseE) _ _ (ST_err stk _ _ _ _ _ _ _ _ _ _ H5) eq_refl).
    change (C_stmt_list (CT_Statement SK_Case) false P_semicolon) with (slc KCaseE).
    pose proof (finish_empty_ST stk _ _ _ _ _ _ _ _ _ H5) as H6. cbn [lm_parent lm_level] in H6.
    pose proof (push_ctx_ST stk (cBlk KCaseE) _ _ _ _ _ _ _ _ _ _ H6) as H7.
    pose proof (ST_GS stk _ _ _ _ _ _ _ _ _ _ H7) as G7.
    assert (Hl0 : length (M ++ [mkLM par (lvl d) LLT_CaseHeader]) = length (L ++ [[k; S k; S (S k)]])) by (rewrite !app_length, Ml; reflexivity).
    destruct (IHa stk KCaseE X E (S (S f)) _ (S (S (S k))) (L ++ [[k; S k; S (S k)]]) [] (M ++ [mkLM par (lvl d) LLT_CaseHeader]) _ [] _ _ _
                (fun _ => []) eq_refl P0 G7 Hl0 eq_refl eq_refl Hwf Hb ltac:(lia)) as (mc' & last' & fl & Ty & G8).
    cbv zeta in G8. fold ke in G8.
    replace (length (L ++ [[k; S k; S (S k)]])) with (length L + 1) in G8 by (rewrite app_length; reflexivity).
    fold par d in G8. fold pre in G8. fold j in G8. fold pl in G8.
    pose proof (pop_ctx_GS _ _ _ _ _ _ _ _ _ _ G8) as G9.
    exists mc', last'. split; [exact Ty|]. split; [rewrite (ST_cur_tt stk _ _ _ _ _ _ _ _ _ _ _ H3 Hk2); reflexivity|]. split.
    - eapply GS_lists; [exact G9| |]; repeat (progress (cbn [app]; rewrite <- ?app_assoc)); reflexivity.
    - unfold j, pre. rewrite (arms_li_eq a par d). lia.
  }
Qed.

Lemma Pcore_case a : Parms a -> Pcore (TCase a).
Proof.
  intros IHa stk X E pp f s k L M mc last lv a0 tf j0 t2 HP Hl H Hty Hwf Hcl Ht Htf Ej Hn Hf cons e SL.
  destruct (tf_not_eof tf Htf) as (NE & _ & _).
  pose proof HP as [P0 _].
  cbn [render_stmt wf_stmt] in *. unfold need_stmt in Hf. cbn [render_stmt length] in Hf. rewrite app_length in Hf. cbn [length] in Hf.
  assert (Eq : (tCase :: tI :: tOf :: render_arms a ++ [tEnd]) ++ [tf] = [tCase; tI; tOf] ++ (render_arms a ++ [tEnd]) ++ [tf])
    by (cbn [app]; rewrite <- !app_assoc; reflexivity).
  rewrite Eq in Ht.
  pose proof (Ht 0 _ eq_refl) as Hk. rewrite Nat.add_0_r in Hk.
  pose proof (Ht 1 _ eq_refl) as Hk1. replace (k + 1) with (S k) in Hk1 by lia.
  pose proof (Ht 2 _ eq_refl) as Hk2. replace (k + 2) with (S (S k)) in Hk2 by lia.
  assert (Ht3 : toks_at (S (S (S k))) ((render_arms a ++ [tEnd]) ++ [tf])).
  { replace (S (S (S k))) with (k + 3) by lia. apply (toks_at_shift k 3 [tCase; tI; tOf]); [exact Ht|reflexivity]. }
  assert (Hb : toks_at (S (S (S k))) (render_arms a ++ [tTerm KCase])) by (eapply toks_at_prefix; exact Ht3).
  set (ke := S (S (S k)) + length (render_arms a)).
  assert (Hts : toks_at (S ke) [tf]).
  { replace (S ke) with (S (S (S k)) + length (render_arms a ++ [tEnd])) by (rewrite app_length; cbn [length]; unfold ke; lia).
    apply (toks_at_shift _ _ (render_arms a ++ [tEnd])); [exact Ht3|reflexivity]. }
  pose proof (toks_at_0 _ _ _ Hts eq_refl) as Hfo.
  assert (Hke : nth_error T ke = Some tEnd).
  { specialize (Hb (length (render_arms a)) tEnd). rewrite nth_error_app2, Nat.sub_diag in Hb by lia. exact (Hb eq_refl). }
  assert (Hken : tokfin (ke)) by tokfin_tac.
  destruct f as [|[|[|f]]]; try lia.
  assert (E0 : ending_ctx pass s = None) by (rewrite (pos_ending stk _ _ _ _ _ _ _ _ _ _ _ _ P0 H Hk); apply (pos_start _ _ P0); reflexivity).
  rewrite (run_S _ C_structures _ (ST_err stk _ _ _ _ _ _ _ _ _ _ H)).
  unfold arm_structures. rewrite (ST_cur_tt stk _ _ _ _ _ _ _ _ _ _ _ H Hk), E0. cbn [tCase sarm_of].
  unfold sa_case. rewrite (in_type_decl_false stk _ _ _ _ _ _ _ _ _ _ H (pos_notd _ _ P0)). unfold s_loop.
  rewrite (run_S _ C_case_statement _ (ST_err stk _ _ _ _ _ _ _ _ _ _ H)). unfold arm_case_statement.
  change (ctx CT_Utility true P_of (ParserGrammar.L 0)) with (cUtp HOf).
  destruct (case_head stk KCase a X E f _ _ _ _ _ _ _ _ (or_introl eq_refl) IHa HP H Hwf Hk Hk1 Hk2 Hb ltac:(unfold need_arms; lia)) as (mc' & last' & Ty & Cof & G9 & Hj).
  cbv zeta in G9. cbv zeta. rewrite Cof. cbn [tOf o_kw_of]. cbv delta [stmt_block] beta.
  change (ctx (CT_Statement SK_Case) true P_else_end (ParserGrammar.L 1)) with (cBlk KCase).
  fold ke in G9.
  set (pre := arms_pre (first_parent X) (plain_sum X) (S (S (S k))) (length L + 1) a (fun _ => [])) in *.
  set (j := arms_li (S (S (S k))) (length L + 1) a (fun _ => [])) in *.
  set (pl := arms_pend (S (S (S k))) (length L + 1) a (fun _ => []) (j + 1)) in *.
  match type of G9 with GS ?x _ _ _ _ _ _ _ _ => set (s9 := x) in * end.
  rewrite (GS_cur_tt _ _ _ _ _ _ _ _ _ _ G9 Hke). cbn [tEnd o_kw_else].
  rewrite (GS_cur_tt _ _ _ _ _ _ _ _ _ _ G9 Hke). cbn [tEnd o_kw_end].
  (* `end` joins the line that is current after the last arm *)
  pose proof (next_token_GS _ _ _ _ _ _ _ _ _ _ G9 Hken) as G10.
  rewrite (upd_nth_mid_eq _ _ _ (L ++ [k; S k; S (S k)] :: map ll_toks pre) [] (map ll_toks pl)) in G10
    by (try (repeat (progress (cbn [app]; rewrite <- ?app_assoc)); reflexivity); rewrite app_length; cbn [length]; rewrite map_length; lia).
  cbn [app] in G10.
  match type of G10 with GS ?x _ _ _ _ _ _ _ _ => set (s10 := x) in * end.
  assert (En10 : ending_ctx pass s10 = Some (S j0)).
  { unfold ending_ctx. rewrite (GS_ctx _ _ _ _ _ _ _ _ _ G10).
    rewrite (pos_ends _ _ P0 s10 tf (GS_cur_is _ _ _ _ _ _ _ _ _ _ G10 Hfo) (plain_nth _ _ Hfo)). exact Ej. }
  rewrite (structures_stop_G _ s10 tf (S j0) (GS_err _ _ _ _ _ _ _ _ _ G10) (GS_cur_is _ _ _ _ _ _ _ _ _ _ G10 Hfo) NE En10).
  pose proof (update_statuses_GS (S j0) _ _ _ _ _ _ _ _ _ G10) as G11.
  pose proof (fin_gs pp X (S j0) _ _ _ _ _ _ _ _ _ Hl G11) as G13.
  rewrite (nth_mid_eq _ _ (L ++ [k; S k; S (S k)] :: map ll_toks pre) [ke] (map ll_toks pl) []) in G13
    by (try (repeat (progress (cbn [app]; rewrite <- ?app_assoc)); reflexivity); rewrite app_length; cbn [length]; rewrite map_length; lia).
  specialize (G13 ltac:(discriminate)).
  rewrite (upd_nth_mid_eq _ _ _ (M ++ mkLM (first_parent X) (lvl (plain_sum X)) LLT_CaseHeader :: map meta_of pre) mc' (map meta_of pl)) in G13
    by (try (repeat (progress (cbn [app]; rewrite <- ?app_assoc)); reflexivity); rewrite app_length; cbn [length]; rewrite map_length;
        destruct H as (_ & _ & Ml & _); lia).
  rewrite Ty in G13.
  pose proof (GS_ST stk _ _ _ _ _ _ _ _ _ _ _ _ _ G13 eq_refl eq_refl eq_refl) as S13.
  exists j. subst cons e SL. cbn [selfterm andb sexpected render_stmt length]. rewrite arms_lines_eq. cbv beta. split.
  - replace (k + 1) with (S k) by lia. replace (k + 2) with (S (S k)) by lia. replace (k + 3) with (S (S (S k))) by lia.
    fold pre j pl ke.
    replace (k + S (S (S (length (render_arms a ++ [tEnd]))))) with (S ke) by (rewrite app_length; cbn [length]; unfold ke; lia).
    eapply (ST_lists stk); [exact S13| |]; cbn [map]; repeat (rewrite map_app; cbn [map]); cbn [map app ll_toks meta_of ll_parent ll_level ll_type];
      repeat (progress (cbn [app]; rewrite <- ?app_assoc)); reflexivity.
  - intros _.
    exists (mkLine LLT_CaseHeader (lvl (plain_sum X)) (first_parent X) [k; k + 1; k + 2] :: arms_pre (first_parent X) (plain_sum X) (k + 3) (length L + 1) a (fun _ => [])),
      LLT_Unknown, [k + 3 + length (render_arms a)],
      (arms_pend (k + 3) (length L + 1) a (fun _ => []) (arms_li (k + 3) (length L + 1) a (fun _ => []) + 1)).
    split; [discriminate|]. split.
    + intros sm. cbn [sexpected]. rewrite arms_lines_eq. reflexivity.
    + cbn [length]. replace (k + 3) with (S (S (S k))) by lia. fold pre. lia.
Qed.


Lemma Pcore_caseelse a el : Parms a -> Plist el -> Pcore (TCaseElse a el).
Proof.
  intros IHa IHe stk X E pp f s k L M mc last lv a0 tf j0 t2 HP Hl H Hty Hwf Hcl Ht Htf Ej Hn Hf cons e SL.
  destruct (tf_not_eof tf Htf) as (NE & _ & _).
  pose proof HP as [P0 _].
  cbn [render_stmt wf_stmt] in *. apply andb_prop in Hwf. destruct Hwf as [Hwa Hwe].
  unfold need_stmt in Hf. cbn [render_stmt length] in Hf. rewrite !app_length in Hf. cbn [length] in Hf. rewrite app_length in Hf. cbn [length] in Hf.
  assert (Eq : (tCase :: tI :: tOf :: render_arms a ++ tElse :: render el ++ [tEnd]) ++ [tf]
               = [tCase; tI; tOf] ++ (render_arms a ++ [tElse]) ++ (render el ++ [tEnd]) ++ [tf]).
  { cbn [app]. rewrite <- !app_assoc. cbn [app]. rewrite <- !app_assoc. reflexivity. }
  rewrite Eq in Ht.
  pose proof (Ht 0 _ eq_refl) as Hk. rewrite Nat.add_0_r in Hk.
  pose proof (Ht 1 _ eq_refl) as Hk1. replace (k + 1) with (S k) in Hk1 by lia.
  pose proof (Ht 2 _ eq_refl) as Hk2. replace (k + 2) with (S (S k)) in Hk2 by lia.
  assert (Ht3 : toks_at (S (S (S k))) ((render_arms a ++ [tElse]) ++ (render el ++ [tEnd]) ++ [tf])).
  { replace (S (S (S k))) with (k + 3) by lia. apply (toks_at_shift k 3 [tCase; tI; tOf]); [exact Ht|reflexivity]. }
  assert (Hb : toks_at (S (S (S k))) (render_arms a ++ [tTerm KCaseE])) by (eapply toks_at_prefix; exact Ht3).
  set (ke := S (S (S k)) + length (render_arms a)).
  assert (Ht4 : toks_at (S ke) ((render el ++ [tEnd]) ++ [tf])).
  { replace (S ke) with (S (S (S k)) + length (render_arms a ++ [tElse])) by (rewrite app_length; cbn [length]; unfold ke; lia).
    apply (toks_at_shift _ _ (render_arms a ++ [tElse])); [exact Ht3|reflexivity]. }
  assert (Hbe : toks_at (S ke) (render el ++ [tTerm KElse])) by (eapply toks_at_prefix; exact Ht4).
  set (kee := S ke + length (render el)).
  assert (Hts : toks_at (S kee) [tf]).
  { replace (S kee) with (S ke + length (render el ++ [tEnd])) by (rewrite app_length; cbn [length]; unfold kee; lia).
    apply (toks_at_shift _ _ (render el ++ [tEnd])); [exact Ht4|reflexivity]. }
  pose proof (toks_at_0 _ _ _ Hts eq_refl) as Hfo.
  assert (Hke : nth_error T ke = Some tElse).
  { specialize (Hb (length (render_arms a)) tElse). rewrite nth_error_app2, Nat.sub_diag in Hb by lia. exact (Hb eq_refl). }
  assert (Hken : tokfin (ke)) by tokfin_tac.
  assert (Hkee : nth_error T kee = Some tEnd).
  { specialize (Hbe (length (render el)) tEnd). rewrite nth_error_app2, Nat.sub_diag in Hbe by lia. exact (Hbe eq_refl). }
  assert (Hkeen : tokfin (kee)) by tokfin_tac.
  assert (Ml : length M = length L) by (destruct H as (_ & _ & Ml & _); exact Ml).
  destruct f as [|[|[|[|f]]]]; try lia.
  assert (E0 : ending_ctx pass s = None) by (rewrite (pos_ending stk _ _ _ _ _ _ _ _ _ _ _ _ P0 H Hk); apply (pos_start _ _ P0); reflexivity).
  rewrite (run_S _ C_structures _ (ST_err stk _ _ _ _ _ _ _ _ _ _ H)).
  unfold arm_structures. rewrite (ST_cur_tt stk _ _ _ _ _ _ _ _ _ _ _ H Hk), E0. cbn [tCase sarm_of].
  unfold sa_case. rewrite (in_type_decl_false stk _ _ _ _ _ _ _ _ _ _ H (pos_notd _ _ P0)). unfold s_loop.
  rewrite (run_S _ C_case_statement _ (ST_err stk _ _ _ _ _ _ _ _ _ _ H)). unfold arm_case_statement.
  change (ctx CT_Utility true P_of (ParserGrammar.L 0)) with (cUtp HOf).
  destruct (case_head stk KCaseE a X E (S f) _ _ _ _ _ _ _ _ (or_intror eq_refl) IHa HP H Hwa Hk Hk1 Hk2 Hb ltac:(unfold need_arms; lia)) as (mc' & last' & Ty & Cof & G9 & Hj).
  cbv zeta in G9. cbv zeta. rewrite Cof. cbn [tOf o_kw_of]. cbv delta [stmt_block] beta.
  change (ctx (CT_Statement SK_Case) true P_else_end (ParserGrammar.L 1)) with (cBlk KCase).
  fold ke in G9.
  set (pre := arms_pre (first_parent X) (plain_sum X) (S (S (S k))) (length L + 1) a (fun _ => [])) in *.
  set (j := arms_li (S (S (S k))) (length L + 1) a (fun _ => [])) in *.
  set (pl := arms_pend (S (S (S k))) (length L + 1) a (fun _ => []) (j + 1)) in *.
  match type of G9 with GS ?x _ _ _ _ _ _ _ _ => set (s9 := x) in * end.
  rewrite (GS_cur_tt _ _ _ _ _ _ _ _ _ _ G9 Hke). cbn [tElse o_kw_else].
  (* `else` joins the line that is current after the last arm; the else block *)
  pose proof (next_token_GS _ _ _ _ _ _ _ _ _ _ G9 Hken) as G10.
  rewrite (upd_nth_mid_eq _ _ _ (L ++ [k; S k; S (S k)] :: map ll_toks pre) [] (map ll_toks pl)) in G10
    by (try (repeat (progress (cbn [app]; rewrite <- ?app_assoc)); reflexivity); rewrite app_length; cbn [length]; rewrite map_length; lia).
  cbn [app] in G10.
  pose proof (finish_GS _ _ _ _ _ _ _ _ _ _ G10) as G11.
  rewrite (nth_mid_eq _ _ (L ++ [k; S k; S (S k)] :: map ll_toks pre) [ke] (map ll_toks pl) []) in G11
    by (try (repeat (progress (cbn [app]; rewrite <- ?app_assoc)); reflexivity); rewrite app_length; cbn [length]; rewrite map_length; lia).
  specialize (G11 ltac:(discriminate)).
  rewrite (upd_nth_mid_eq _ _ _ (M ++ mkLM (first_parent X) (lvl (plain_sum X)) LLT_CaseHeader :: map meta_of pre) mc' (map meta_of pl)) in G11
    by (try (repeat (progress (cbn [app]; rewrite <- ?app_assoc)); reflexivity); rewrite app_length; cbn [length]; rewrite map_length; lia).
  rewrite Ty in G11.
  pose proof (GS_ST stk _ _ _ _ _ _ _ _ _ _ _ _ _ G11 eq_refl eq_refl eq_refl) as S11.
  match type of S11 with ST _ ?x _ _ _ _ _ _ _ _ _ => set (s11 := x) in * end.
  change (ctx (CT_StatementBlock BK_Else) true P_end (ParserGrammar.L 1)) with (cBlk KElse).
  rewrite (run_S _ (C_stmt_block (cBlk KElse) SK_Normal) _ (ST_err stk _ _ _ _ _ _ _ _ _ _ S11)). unfold arm_stmt_block.
  rewrite (with_ctx_stmt_list _ (cBlk KElse) _ _ (ST_err stk _ _ _ _ _ _ _ _ _ _ S11) eq_refl).
  change (C_stmt_list (CT_Statement SK_Normal) false P_semicolon) with (slc KElse).
  pose proof (finish_empty_ST stk _ _ _ _ _ _ _ _ _ S11) as S12. cbn [lm_parent lm_level] in S12.
  pose proof (push_ctx_ST stk (cBlk KElse) _ _ _ _ _ _ _ _ _ _ S12) as S13.
  pose proof (fun Hli => IHe stk _ KElse X ltac:(discriminate) (pos_notd _ _ P0) eq_refl Hwe f _ _ _ _ _ _ _ _ (j + 1 + length pl) ltac:(unfold need; lia) Hli S13 Hbe) as IHe'.
  destruct (IHe' ltac:(rewrite Hj; len_tac)) as (mcb & lastb & flb & Tyb & S14).
  set (le := pexpected (first_parent X) (1 + plain_sum X) (S ke) (j + 1 + length pl) el) in *. fold kee in S14.
  pose proof (pop_ctx_ST stk _ _ _ _ _ _ _ _ _ _ _ S14) as S15.
  match type of S15 with ST _ ?x _ _ _ _ _ _ _ _ _ => set (s15 := x) in * end.
  rewrite (ST_cur_tt stk _ _ _ _ _ _ _ _ _ _ _ S15 Hkee). cbn [tEnd o_kw_end].
  pose proof (next_token_ST stk _ _ _ _ _ _ _ _ _ _ S15 Hkeen) as S16. cbn [app] in S16.
  assert (E16 : ending_ctx pass (next_token pass s15) = Some (S j0)) by (rewrite (pos_ending stk _ _ _ _ _ _ _ _ _ _ _ _ P0 S16 Hfo); exact Ej).
  rewrite (structures_stop stk _ _ _ _ _ _ _ _ _ _ _ _ _ S16 Hfo NE E16).
  pose proof (update_statuses_ST stk (S j0) _ _ _ _ _ _ _ _ _ _ S16) as S17.
  pose proof (fin_open stk pp _ _ _ _ _ _ _ _ _ _ _ Hl S17 ltac:(discriminate)) as S18. rewrite Tyb in S18.
  eexists. subst cons e SL. cbn [selfterm andb sexpected render_stmt length]. rewrite arms_lines_eq. cbv beta zeta. split.
  - replace (k + 1) with (S k) by lia. replace (k + 2) with (S (S k)) by lia. replace (k + 3) with (S (S (S k))) by lia.
    fold pre j pl ke. replace (ke + 1) with (S ke) by lia. replace (plain_sum X + 1)%Z with (1 + plain_sum X)%Z by lia. fold le kee.
    replace (k + S (S (S (length (render_arms a ++ tElse :: render el ++ [tEnd]))))) with (S kee)
      by (rewrite !app_length; cbn [length]; rewrite app_length; cbn [length]; unfold kee, ke; lia).
    eapply (ST_lists stk); [exact S18| |]; cbn [map]; repeat (rewrite map_app; cbn [map]); cbn [map app ll_toks meta_of ll_parent ll_level ll_type];
      repeat (progress (cbn [app]; rewrite <- ?app_assoc)); reflexivity.
  - intros _.
    set (pre' := arms_pre (first_parent X) (plain_sum X) (k + 3) (length L + 1) a (fun _ => [])).
    set (j' := arms_li (k + 3) (length L + 1) a (fun _ => [])).
    set (pl' := arms_pend (k + 3) (length L + 1) a (fun _ => []) (j' + 1)).
    set (le' := pexpected (first_parent X) (plain_sum X + 1) (k + 3 + length (render_arms a) + 1) (j' + 1 + length pl') el).
    exists (mkLine LLT_CaseHeader (lvl (plain_sum X)) (first_parent X) [k; k + 1; k + 2] :: pre'
            ++ mkLine LLT_Unknown (lvl (plain_sum X)) (first_parent X) [k + 3 + length (render_arms a)] :: pl' ++ le'),
      LLT_Unknown, [k + 3 + length (render_arms a) + 1 + length (render el)], [].
    split; [discriminate|]. split.
    + intros sm. cbn [sexpected]. rewrite arms_lines_eq. cbv beta zeta. fold pre' j' pl' le'.
      repeat (progress (cbn [app]; rewrite <- ?app_assoc)). reflexivity.
    + subst pre' j' pl' le'. replace (k + 3) with (S (S (S k))) by lia. fold pre j pl ke. replace (ke + 1) with (S ke) by lia.
      replace (plain_sum X + 1)%Z with (1 + plain_sum X)%Z by lia. fold le.
      len_tac.
Qed.


(* ---------------- the statement-list loop: one statement and its `;` *)
Ltac fix_li r H4 :=
  match type of H4 with context [pexpected _ _ _ ?li1 r] =>
    match goal with |- context [pexpected _ _ _ ?li2 r] => replace li1 with li2 in H4 by len_tac end end.

Lemma plist_nil : Plist SNil.
Proof.
  intros stk par bk C Hsk Hnd HC Hwf f s k Ls M mc last lv a li Hf Hli H Ht; subst li; unfold Post.
    unfold need in Hf. cbn [render length] in *. destruct f as [|[|[|f]]]; try lia.
    pose proof (toks_at_0 _ _ _ Ht eq_refl) as Hk.
    assert (Hnt : tTerm bk <> tSemi) by (destruct bk; discriminate).
    assert (Hct : cur_tt pass (push_ctx pass (cStk bk) (finish_logical_line pass s)) = Some (tTerm bk) -> True) by auto.
    unfold slc. rewrite (stmt_list_unfold _ _ _ _ _ (ST_err stk _ _ _ _ _ _ _ _ _ _ H)). cbv zeta.
    change (ctx (CT_Statement (sk_of bk)) false P_semicolon (ParserGrammar.L 0)) with (cStk bk).
    rewrite (with_ctx_structures _ (cStk bk) s (ST_err stk _ _ _ _ _ _ _ _ _ _ H) eq_refl).
    pose proof (finish_empty_ST stk _ _ _ _ _ _ _ _ _ H) as H0.
    pose proof (push_ctx_ST stk (cStk bk) _ _ _ _ _ _ _ _ _ _ H0) as H1.
    rewrite (run_S _ C_structures _ (ST_err stk _ _ _ _ _ _ _ _ _ _ H1)).
    unfold arm_structures. rewrite (ST_cur_tt stk _ _ _ _ _ _ _ _ _ _ _ H1 Hk).
    rewrite (ending_St_SB stk bk _ _ _ _ _ _ _ _ _ _ _ H1 Hk).
    assert (X : match tTerm bk with RTT_Eof => None | _ => Some (tTerm bk) end = Some (tTerm bk)) by (destruct bk; reflexivity). rewrite X. clear X.
    assert (X : match tTerm bk with RTT_Op OK_Semicolon => Some 1 | _ => if is_term bk (tTerm bk) then Some 2 else None end = Some 2) by (destruct bk; reflexivity). rewrite X. clear X.
    pose proof (update_statuses_ST stk 2 _ _ _ _ _ _ _ _ _ _ H1) as H2. cbn [mark_ended] in H2.
    pose proof (pop_ctx_ST stk _ _ _ _ _ _ _ _ _ _ _ H2) as H3.
    pose proof (finish_empty_ST stk _ _ _ _ _ _ _ _ _ H3) as H4.
    rewrite (take_separators_noop stk _ _ _ _ _ _ _ _ _ _ _ (tTerm bk) H4 Hk) by exact Hnt.
    assert (IE : is_ending pass (finish_logical_line pass (pop_ctx pass (update_statuses pass 2 (push_ctx pass (cStk bk) (finish_logical_line pass s))))) = true).
    { unfold is_ending, ending_ctx. rewrite (ST_ctx stk _ _ _ _ _ _ _ _ _ _ H4). reflexivity. }
    rewrite IE. cbn [orb pexpected map]. rewrite !app_nil_r, Nat.add_0_r. eexists _, _, _. split; [|exact H4]. reflexivity.
Qed.

Lemma plist_cons c r : Pcore c -> Plist r -> Plist (SCons c r).
Proof.
  intros Pc IHr stk par bk C Hsk Hnd HC Hwf f s k Ls M mc last lv a li Hf Hli H Ht; subst li; unfold Post.
  cbn [wf] in Hwf. apply andb_prop in Hwf. destruct Hwf as [Hwc Hwr].
  unfold need in Hf. cbn [render length] in *. rewrite app_length in Hf. cbn [length] in Hf. destruct f as [|[|f]]; try lia.
  assert (Eq : (render_stmt c ++ tSemi :: render r) ++ [tTerm bk] = (render_stmt c ++ [tSemi]) ++ (render r ++ [tTerm bk])).
  { rewrite <- !app_assoc. reflexivity. }
  rewrite Eq in Ht.
  assert (Hb : toks_at k (render_stmt c ++ [tSemi])) by (eapply toks_at_prefix; exact Ht).
  set (e := k + length (render_stmt c)).
  assert (Htr : toks_at (S e) (render r ++ [tTerm bk])).
  { replace (S e) with (k + length (render_stmt c ++ [tSemi])) by (rewrite app_length; cbn [length]; unfold e; lia).
    apply (toks_at_shift _ _ (render_stmt c ++ [tSemi])); [exact Ht|reflexivity]. }
  assert (He : nth_error T e = Some tSemi).
  { specialize (Hb (length (render_stmt c)) tSemi). rewrite nth_error_app2, Nat.sub_diag in Hb by lia. exact (Hb eq_refl). }
  destruct (head_tok bk r) as (t2 & H0 & N1 & NE & _). pose proof (toks_at_0 _ _ _ Htr H0) as Ht2.
  unfold slc. rewrite (stmt_list_unfold _ _ _ _ _ (ST_err stk _ _ _ _ _ _ _ _ _ _ H)). cbv zeta.
  change (ctx (CT_Statement (sk_of bk)) false P_semicolon (ParserGrammar.L 0)) with (cStk bk).
  rewrite (with_ctx_structures _ (cStk bk) s (ST_err stk _ _ _ _ _ _ _ _ _ _ H) eq_refl).
  pose proof (finish_empty_ST stk _ _ _ _ _ _ _ _ _ H) as H0'.
  pose proof (push_ctx_ST stk (cStk bk) _ _ _ _ _ _ _ _ _ _ H0') as H1. fold (Xl bk C) in H1.
  destruct (Pc stk (Xl bk C) (El bk) true f _ _ _ _ _ _ _ _ tSemi 0 t2 (pos_list bk C Hsk Hnd) (fun _ => lvl0_list bk C) H1 eq_refl Hwc
              ltac:(discriminate) Hb (or_introl eq_refl) eq_refl (fun _ => conj Ht2 (conj N1 NE)) ltac:(unfold need_stmt; lia)) as (lastf & S1 & Hsp).
  cbv zeta in S1. fold e in S1. cbn [optpop optpopc mark_ended Xl tl is_semi tSemi] in S1.
  unfold Xl in S1, Hsp. rewrite (first_parent_St_blk bk), (plain_sum_St_blk bk), HC in S1, Hsp.
  replace (0 + (1 + plain_sum C))%Z with (1 + plain_sum C)%Z in S1, Hsp by lia.
  set (d := (1 + plain_sum C)%Z) in *.
  (* the `;` *)
  assert (S2 : ST stk (take_separators_on_last_line pass (CL_Level 0%Z) (finish_logical_line pass (pop_ctx pass (RUN f C_structures
                  (push_ctx pass (cStk bk) (finish_logical_line pass s)))))) (S e)
                 (Ls ++ map ll_toks (sexpected par d k (length Ls) [e] c)) [] (M ++ map meta_of (sexpected par d k (length Ls) [e] c))
                 (mkLM None (lvl d) LLT_Unknown) lastf ((cBlk bk, false) :: C) lv a).
  { destruct (selfterm c) eqn:Sf; cbn [andb] in S1.
    - rewrite (take_separators_noop stk _ _ _ _ _ _ _ _ _ _ _ t2 S1 Ht2 N1). exact S1.
    - destruct (splits_upd _ _ _ _ _ _ Ls [] e (Hsp eq_refl)) as (U1 & U2 & U3). rewrite !app_nil_r in U1, U2.
      pose proof (take_separators_ST stk (CL_Level 0%Z) _ _ _ _ _ _ _ _ _ t2 S1 He Ht2 N1) as S2.
      assert (Hlt : lastf < length (Ls ++ map ll_toks (sexpected par d k (length Ls) [] c))).
      { destruct (Hsp eq_refl) as (init & ty & l & post & _ & Hs & ->). rewrite (Hs []), app_length, map_length, app_length. cbn [length]. lia. }
      specialize (S2 Hlt U2). rewrite U1, U3 in S2. rewrite ?app_nil_r in S2. exact S2. }
  clear S1.
  pose proof (fun Hty => loop_tail stk par bk r C (IHr stk par bk C Hsk Hnd HC Hwr) (S f) _ _ _ _ _ _ _ _ _ ltac:(unfold need; lia) eq_refl Hty S2 Htr) as LT.
  destruct (LT eq_refl) as (mc' & last' & fl & Ty & H4).
  exists mc', last', fl. split; [exact Ty|].
  cbn [pexpected]. cbv zeta. fold e. replace (e + 1) with (S e) by lia.
  replace (k + length (render_stmt c ++ tSemi :: render r)) with (S e + length (render r)) by (rewrite app_length; cbn [length]; unfold e; lia).
  change (CL_Level 0%Z) with (ParserGrammar.L 0) in H4.
  fix_li r H4.
  eapply (ST_lists stk); [exact H4| |]; rewrite !map_app; repeat (progress (cbn [app]; rewrite <- ?app_assoc)); reflexivity.
Qed.


(* ================================================================== *)
(* exception handlers: `on Identifier : Identifier do c ;` in an except block; `on` is re-typed *)
Lemma mix_retype k t : nth_error T k = Some t -> mix (S k) = upd_nth k (fun _ => fin t) (mix k).
Proof.
  intros Ht. unfold mix. revert k Ht. generalize T as l.
  induction l as [|a l IH]; intros [|k] Ht; cbn in Ht; try discriminate.
  - injection Ht as ->. reflexivity.
  - cbn [firstn skipn map app upd_nth]. f_equal. apply IH, Ht.
Qed.
Lemma retype_next_ST stk s k L c M mc last cx lv a kw :
  ST stk s k L c M mc last cx lv a -> nth_error T k = Some (RTT_IdentifierOrKeyword kw) ->
  fin (RTT_IdentifierOrKeyword kw) = RTT_Keyword kw ->
  has_err pass (consolidate_current_keyword pass s) = false /\
  ST stk (next_token pass (consolidate_current_keyword pass s)) (S k) L (c ++ [k]) M mc last cx lv a.
Proof.
  intros H Hk Hf. pose proof (ST_err stk _ _ _ _ _ _ _ _ _ _ H) as E.
  assert (Hkn : k < n) by (apply nth_error_Some; congruence).
  assert (Tk : ps_toks pass s = mix k) by exact (ST_toks stk _ _ _ _ _ _ _ _ _ _ H).
  assert (Ec : consolidate_current_keyword pass s = set_toks pass (mix (S k)) s).
  { unfold consolidate_current_keyword, upd_cur, idx0. rewrite (ST_cur_index stk _ _ _ _ _ _ _ _ _ _ H Hkn).
    unfold tt_at. rewrite Tk, (mix_nth_ge k k (le_n k)), Hk. cbn [bind]. rewrite (mix_nth_ge k k (le_n k)), Hk. cbn [bind].
    unfold set_tok, guard. rewrite E, Tk, (mix_retype k _ Hk), Hf. reflexivity. }
  rewrite Ec. set (s' := set_toks pass (mix (S k)) s).
  assert (E' : has_err pass s' = false) by exact E.
  split; [exact E'|].
  destruct (next_token_G s' (mix (S k)) k E' eq_refl (mix_plain (S k)) (ST_pidx stk _ _ _ _ _ _ _ _ _ _ H) Hkn (mix_length (S k))) as (K1 & M1 & R1).
  destruct H as (K & Mt & Ml & R). split; [|split; [|split]].
  - rewrite K1. change (kst pass s') with (kst pass s). rewrite K. cbn [k_step k_pi k_lines k_cur k_last k_top hd].
    rewrite (nth_error_seq0 _ _ Hkn). rewrite upd_nth_app_last. reflexivity.
  - rewrite M1. exact Mt.
  - exact Ml.
  - rewrite R1. unfold restv in *. subst s'. cbn. injection R as R1' R2 R3 R4 R5 R6 R7. rewrite R2, R3, R4, R5, R6, R7. reflexivity.
Qed.

(* the line section `Identifier : Identifier do` of a handler header *)
Lemma line_section_on stk f s k L c M mc last r lv a :
  ST stk s k L c M mc last r lv a -> c <> [] -> lm_type mc = LLT_Unknown ->
  nth_error T k = Some tI -> nth_error T (S k) = Some tColon -> nth_error T (S (S k)) = Some tI -> nth_error T (S (S (S k))) = Some tDo ->
  6 <= f ->
  ST stk (RUN f (C_line_section (cUtp HDo)) s) (S (S (S k))) L (c ++ [k; S k; S (S k)]) M mc last r lv a.
Proof.
  intros H Hc Hty Hk Hk1 Hk2 Hk3 Hf. destruct f as [|[|[|[|[|[|f]]]]]]; try lia.
  assert (Hkn : tokfin k) by tokfin_tac. assert (Hkn1 : tokfin (S k)) by tokfin_tac. assert (Hkn2 : tokfin (S (S k))) by tokfin_tac.
  rewrite (run_S _ (C_line_section _) _ (ST_err stk _ _ _ _ _ _ _ _ _ _ H)). unfold arm_line_section.
  pose proof (push_ctx_ST stk (cUtp HDo) _ _ _ _ _ _ _ _ _ _ H) as H1.
  match type of H1 with ST _ ?x _ _ _ _ _ _ _ _ _ => set (s1 := x) in * end.
  assert (E1 : ending_ctx pass s1 = None) by (rewrite (ending_Ut stk _ _ _ _ _ _ _ _ _ _ _ _ H1 Hk); reflexivity).
  (* Identifier (not at the start of the line) *)
  rewrite (run_S _ C_statement _ (ST_err stk _ _ _ _ _ _ _ _ _ _ H1)).
  unfold arm_statement. rewrite (ST_cur_tt stk _ _ _ _ _ _ _ _ _ _ _ H1 Hk). cbn [tI].
  rewrite (prelude_none stk _ _ _ _ _ _ _ _ _ _ _ _ H1 E1 I). cbn [negb starm_of tI].
  unfold st_label_cand, label_or_other. rewrite (ST_at_start stk _ _ _ _ _ _ _ _ _ _ H1).
  destruct c as [|c0 cr]; [contradiction|]. cbn [andb]. unfold t_other, t_loop.
  pose proof (next_token_ST stk _ _ _ _ _ _ _ _ _ _ H1 Hkn) as H2.
  match type of H2 with ST _ ?x _ _ _ _ _ _ _ _ _ => set (s2 := x) in * end.
  (* the colon *)
  assert (E2 : ending_ctx pass s2 = None) by (rewrite (ending_Ut stk _ _ _ _ _ _ _ _ _ _ _ _ H2 Hk1); reflexivity).
  rewrite (run_S _ C_statement _ (ST_err stk _ _ _ _ _ _ _ _ _ _ H2)).
  unfold arm_statement. rewrite (ST_cur_tt stk _ _ _ _ _ _ _ _ _ _ _ H2 Hk1). cbn [tColon].
  rewrite (prelude_none stk _ _ _ _ _ _ _ _ _ _ _ _ H2 E2 I). cbn [negb starm_of tColon]. unfold st_colon.
  assert (LP : line_parent_of_current pass s2 = Some (length L, S k)).
  { unfold line_parent_of_current. rewrite (ST_cur_index stk _ _ _ _ _ _ _ _ _ _ H2 (tokfin_lt _ Hkn1)), (ST_cur_ref stk _ _ _ _ _ _ _ _ _ _ H2). reflexivity. }
  rewrite LP.
  pose proof (next_token_ST stk _ _ _ _ _ _ _ _ _ _ H2 Hkn1) as H3.
  match type of H3 with ST _ ?x _ _ _ _ _ _ _ _ _ => set (s3 := x) in * end.
  rewrite (ST_cur_type stk _ _ _ _ _ _ _ _ _ _ H3), Hty. cbn [llt_is LogicalLineType_eqb LogicalLineType_idx Nat.eqb].
  assert (LC : last_ctype pass s3 = Some CT_Utility) by (unfold last_ctype; rewrite (last_ctx_ST stk _ _ _ _ _ _ _ _ _ _ _ _ H3); reflexivity).
  rewrite LC. unfold t_loop.
  rewrite (caret_noop_G s3 (toks_plain_G s3 _ (ST_toks stk _ _ _ _ _ _ _ _ _ _ H3))).
  (* Identifier, then `do` ends the section *)
  assert (E3 : ending_ctx pass s3 = None) by (rewrite (ending_Ut stk _ _ _ _ _ _ _ _ _ _ _ _ H3 Hk2); reflexivity).
  rewrite (statement_ident stk _ _ _ _ _ _ _ _ _ _ _ _ _ _ H3 Hk2 Hk3 ltac:(discriminate) eq_refl E3 I).
  pose proof (next_token_ST stk _ _ _ _ _ _ _ _ _ _ H3 Hkn2) as H4.
  assert (E4 : ending_ctx pass (next_token pass s3) = Some 1) by (rewrite (ending_Ut stk _ _ _ _ _ _ _ _ _ _ _ _ H4 Hk3); reflexivity).
  rewrite (statement_stop stk _ _ _ _ _ _ _ _ _ _ _ _ _ _ _ H4 Hk3 ltac:(discriminate) E4).
  pose proof (update_statuses_ST stk 1 _ _ _ _ _ _ _ _ _ _ H4) as H5. cbn [mark_ended] in H5.
  pose proof (pop_ctx_ST stk _ _ _ _ _ _ _ _ _ _ _ H5) as H6.
  rewrite <- !app_assoc in H6. cbn [app] in H6. exact H6.
Qed.

(* one handler in the statement-list loop of an except block *)
Lemma iter_on stk par c C f s k Ls M mc last lv a t2 :
  Pcore c -> notd C -> first_parent C = par ->
  ST stk s k Ls [] M mc last ((cBlk KExcept, false) :: C) lv a -> wf_stmt c = true ->
  toks_at k ([tOn; tI; tColon; tI; tDo] ++ (render_stmt c ++ [tSemi])) ->
  nth_error T (S (k + 5 + length (render_stmt c))) = Some t2 -> t2 <> tSemi -> t2 <> RTT_Eof ->
  30 + need_stmt c <= f ->
  let d := (1 + plain_sum C)%Z in
  let e := k + 5 + length (render_stmt c) in
  let SL := mkLine LLT_Unknown (lvl d) par [k; k + 1; k + 2; k + 3; k + 4]
            :: sexpected (Some (length Ls, k + 4)) 1 (k + 5) (length Ls + 1) [e] c ++ [stray] in
  ST stk (take_separators_on_last_line pass (CL_Level 0%Z) (finish_logical_line pass (RUN f (C_with_ctx (cStk KExcept) A_structures) s)))
     (S e) (Ls ++ map ll_toks SL) [] (M ++ map meta_of SL) (mkLM None (lvl d) LLT_Unknown) (length Ls) ((cBlk KExcept, false) :: C) lv a.
Proof.
  intros IH Hnd HC H Hwf Ht Ht2 N2 N3 Hf d e SL.
  pose proof (Ht 0 _ eq_refl) as Hk. rewrite Nat.add_0_r in Hk.
  pose proof (Ht 1 _ eq_refl) as Hk1. replace (k + 1) with (S k) in Hk1 by lia.
  pose proof (Ht 2 _ eq_refl) as Hk2. replace (k + 2) with (S (S k)) in Hk2 by lia.
  pose proof (Ht 3 _ eq_refl) as Hk3. replace (k + 3) with (S (S (S k))) in Hk3 by lia.
  pose proof (Ht 4 _ eq_refl) as Hk4. replace (k + 4) with (S (S (S (S k)))) in Hk4 by lia.
  assert (Hb : toks_at (S (S (S (S (S k))))) (render_stmt c ++ [tSemi])).
  { replace (S (S (S (S (S k))))) with (k + 5) by lia. apply (toks_at_shift k 5 [tOn; tI; tColon; tI; tDo]); [exact Ht|reflexivity]. }
  assert (Hkn4 : tokfin (S (S (S (S k))))) by tokfin_tac.
  assert (Ml : length M = length Ls) by (destruct H as (_ & _ & Ml & _); exact Ml).
  pose proof (pos_list KExcept C ltac:(discriminate) Hnd) as HP. pose proof HP as [P0 _].
  destruct f as [|[|[|[|[|f]]]]]; try lia.
  rewrite (with_ctx_structures _ (cStk KExcept) s (ST_err stk _ _ _ _ _ _ _ _ _ _ H) eq_refl).
  pose proof (finish_empty_ST stk _ _ _ _ _ _ _ _ _ H) as H0.
  pose proof (push_ctx_ST stk (cStk KExcept) _ _ _ _ _ _ _ _ _ _ H0) as H1. fold (Xl KExcept C) in H1.
  match type of H1 with ST _ ?x _ _ _ _ _ _ _ _ _ => set (s1 := x) in * end.
  assert (E0 : ending_ctx pass s1 = None) by (rewrite (pos_ending stk _ _ _ _ _ _ _ _ _ _ _ _ P0 H1 Hk); reflexivity).
  rewrite (run_S _ C_structures _ (ST_err stk _ _ _ _ _ _ _ _ _ _ H1)).
  unfold arm_structures. rewrite (ST_cur_tt stk _ _ _ _ _ _ _ _ _ _ _ H1 Hk), E0. cbn [tOn sarm_of].
  unfold sa_on. assert (LC : last_ctype pass s1 = Some (CT_Statement SK_Except)) by (unfold last_ctype; rewrite (last_ctx_ST stk _ _ _ _ _ _ _ _ _ _ _ _ H1); reflexivity).
  rewrite LC. unfold s_loop.
  destruct (retype_next_ST stk _ _ _ _ _ _ _ _ _ _ KK_On H1 Hk eq_refl) as [Ec H2]. cbn [app] in H2.
  rewrite (run_S _ (C_do false) _ Ec). unfold arm_do.
  change (ctx CT_Utility true P_kw_do (ParserGrammar.L 0)) with (cUtp HDo).
  pose proof (set_line_type_ST stk LLT_Unknown _ _ _ _ _ _ _ _ _ _ H2) as H2'. cbn [lm_parent lm_level] in H2'.
  pose proof (line_section_on stk (S (S f)) _ _ _ _ _ _ _ _ _ _ H2' ltac:(discriminate) eq_refl Hk1 Hk2 Hk3 Hk4 ltac:(lia)) as H3. cbn [app] in H3.
  match type of H3 with ST _ ?x _ _ _ _ _ _ _ _ _ => set (s3 := x) in * end.
  cbv zeta.
  assert (CK : cur_kk pass s3 = Some KK_Do) by (unfold cur_kk; rewrite (ST_cur_tt stk _ _ _ _ _ _ _ _ _ _ _ H3 Hk4); reflexivity).
  rewrite CK.
  assert (LP : line_parent_of_current pass s3 = Some (length Ls, S (S (S (S k))))).
  { unfold line_parent_of_current. rewrite (ST_cur_index stk _ _ _ _ _ _ _ _ _ _ H3 (tokfin_lt _ Hkn4)), (ST_cur_ref stk _ _ _ _ _ _ _ _ _ _ H3). reflexivity. }
  rewrite LP.
  pose proof (next_token_ST stk _ _ _ _ _ _ _ _ _ _ H3 Hkn4) as H4. cbn [app] in H4.
  change (ctx (CT_Statement SK_Normal) false P_never (CL_Parent (length Ls, S (S (S (S k)))) 1%N)) with (cCh false (length Ls, S (S (S (S k))))).
  pose proof (ST_GS stk _ _ _ _ _ _ _ _ _ _ H4) as G4.
  set (s4 := next_token pass s3) in *.
  assert (Hn' : tSemi = tSemi -> nth_error T (S (S (S (S (S (S k)))) + length (render_stmt c))) = Some t2 /\ t2 <> tSemi /\ t2 <> RTT_Eof).
  { intros _. replace (S (S (S (S (S (S k)))) + length (render_stmt c))) with (S (k + 5 + length (render_stmt c))) by lia. repeat split; assumption. }
  pose proof (child_final stk false (CL_Parent (length Ls, S (S (S (S k)))) 1%N) (length Ls, S (S (S (S k)))) c (Xl KExcept C) (El KExcept) true
                (S (S f)) (S (S f)) _ _ _ _ _ _ _ _ tSemi 0 t2 IH HP (fun _ => lvl0_list KExcept C) G4) as CF.
  rewrite nth_app_last in CF.
  specialize (CF ltac:(discriminate) ltac:(rewrite app_length; cbn [length]; lia) Hwf ltac:(discriminate) Hb (or_introl eq_refl) eq_refl ltac:(discriminate) Hn'
                ltac:(lia)).
  cbv zeta in CF. cbn [is_semi tSemi optpop optpopc mark_ended Xl tl] in CF.
  rewrite <- Ml, upd_nth_app_last in CF. cbn [lm_type] in CF. rewrite Ml in CF.
  unfold Xl in CF. rewrite (first_parent_St_blk KExcept), (plain_sum_St_blk KExcept), HC in CF.
  replace (0 + (1 + plain_sum C))%Z with d in CF by (unfold d; lia).
  match type of CF with ST _ ?x _ _ _ _ _ _ _ _ _ => set (s9 := x) in * end.
  rewrite (take_separators_noop stk _ _ _ _ _ _ _ _ _ _ _ t2 CF).
  2: { replace (S (S (S (S (S (S k)))) + length (render_stmt c))) with (S (k + 5 + length (render_stmt c))) by lia. exact Ht2. }
  2: exact N2.
  subst SL. replace (k + 1) with (S k) by lia. replace (k + 2) with (S (S k)) by lia. replace (k + 3) with (S (S (S k))) by lia.
  replace (k + 4) with (S (S (S (S k)))) by lia. replace (k + 5) with (S (S (S (S (S k))))) by lia.
  replace (length Ls + 1) with (length (Ls ++ [[k; S k; S (S k); S (S (S k)); S (S (S (S k)))]])) by (rewrite app_length; reflexivity).
  replace (S e) with (S (S (S (S (S (S k)))) + length (render_stmt c))) by (unfold e; lia).
  replace e with (S (S (S (S (S k)))) + length (render_stmt c)) by (unfold e; lia).
  eapply (ST_lists stk); [exact CF| |].
  - cbn [map ll_toks]. rewrite map_app. cbn [map ll_toks stray]. repeat (progress (cbn [app]; rewrite <- ?app_assoc)). reflexivity.
  - cbn [map meta_of ll_parent ll_level ll_type]. rewrite map_app. cbn [map meta_of stray ll_parent ll_level ll_type].
    repeat (progress (cbn [app]; rewrite <- ?app_assoc)). reflexivity.
Qed.

(* the statement-list loop of an except block over its handlers *)
Definition needh (h : handlers) : nat := 10 + 10 * length (render_handlers h).
Definition IHforH stk par (h : handlers) (C : list (pctx * bool)) : Prop :=
  forall f s k Ls M mc last lv a li, needh h <= f -> li = length Ls -> ST stk s k Ls [] M mc last ((cBlk KExcept, false) :: C) lv a ->
  toks_at k (render_handlers h ++ [tTerm KExcept]) ->
  exists mc' last' fl, lm_type mc' = LLT_Unknown /\
    ST stk (RUN f (slc KExcept) s) (k + length (render_handlers h))
       (Ls ++ map ll_toks (hexpected par (1 + plain_sum C) k li h)) [] (M ++ map meta_of (hexpected par (1 + plain_sum C) k li h))
       mc' last' ((cBlk KExcept, fl) :: C) lv a.
Definition Phand (h : handlers) : Prop :=
  forall stk par C, notd C -> first_parent C = par -> wf_handlers h = true -> IHforH stk par h C.
Lemma phand_nil : Phand HNil.
Proof.
  intros stk par C Hnd HC Hwf f s k Ls M mc last lv a li Hf Hli H Ht.
  exact (plist_nil stk par KExcept C ltac:(discriminate) Hnd HC eq_refl f s k Ls M mc last lv a li Hf Hli H Ht).
Qed.
Lemma phand_cons c r : Pcore c -> Phand r -> Phand (HCons c r).
Proof.
  intros Pc IHr stk par C Hnd HC Hwf f s k Ls M mc last lv a li Hf Hli H Ht; subst li.
  cbn [wf_handlers] in Hwf. apply andb_prop in Hwf. destruct Hwf as [Hwc Hwr].
  unfold needh in Hf. cbn [render_handlers length] in *. rewrite app_length in Hf. cbn [length] in Hf. destruct f as [|f]; try lia.
  assert (Eq : (tOn :: tI :: tColon :: tI :: tDo :: render_stmt c ++ tSemi :: render_handlers r) ++ [tEnd]
               = ([tOn; tI; tColon; tI; tDo] ++ (render_stmt c ++ [tSemi])) ++ (render_handlers r ++ [tEnd])).
  { cbn [app]. rewrite <- !app_assoc. reflexivity. }
  cbn [tTerm] in Ht. rewrite Eq in Ht.
  assert (Hb : toks_at k ([tOn; tI; tColon; tI; tDo] ++ (render_stmt c ++ [tSemi]))) by (eapply toks_at_prefix; exact Ht).
  set (e := k + 5 + length (render_stmt c)).
  assert (Htr : toks_at (S e) (render_handlers r ++ [tEnd])).
  { replace (S e) with (k + length ([tOn; tI; tColon; tI; tDo] ++ (render_stmt c ++ [tSemi]))) by (cbn [app length]; rewrite app_length; cbn [length]; unfold e; lia).
    apply (toks_at_shift _ _ ([tOn; tI; tColon; tI; tDo] ++ (render_stmt c ++ [tSemi]))); [exact Ht|reflexivity]. }
  assert (Ht' : exists t2, nth_error (render_handlers r ++ [tEnd]) 0 = Some t2 /\ t2 <> tSemi /\ t2 <> RTT_Eof
                /\ ((r = HNil /\ t2 = tEnd) \/ (r <> HNil /\ t2 = tOn))).
  { destruct r as [|c2 r2]; cbn; eexists; (split; [reflexivity|]); repeat split; try discriminate.
    - left. split; reflexivity.
    - right. split; [discriminate|reflexivity]. }
  destruct Ht' as (t2 & H0 & N1 & NE & Hcase).
  pose proof (toks_at_0 _ _ _ Htr H0) as Ht2.
  unfold slc. rewrite (stmt_list_unfold _ _ _ _ _ (ST_err stk _ _ _ _ _ _ _ _ _ _ H)). cbv zeta.
  change (ctx (CT_Statement (sk_of KExcept)) false P_semicolon (ParserGrammar.L 0)) with (cStk KExcept).
  change (ParserGrammar.L 0) with (CL_Level 0%Z).
  pose proof (iter_on stk par c C f _ _ _ _ _ _ _ _ t2 Pc Hnd HC H Hwc Hb Ht2 N1 NE ltac:(unfold need_stmt; lia)) as S2.
  cbv zeta in S2. fold e in S2.
  match type of S2 with ST _ ?x _ _ _ _ _ _ _ _ _ => set (s3 := x) in * end.
  rewrite (is_ending_SB stk KExcept _ _ _ _ _ _ _ _ _ _ _ S2 Ht2).
  cbn [hexpected]. cbv zeta. fold e.
  set (SL := mkLine LLT_Unknown (lvl (1 + plain_sum C)) par [k; k + 1; k + 2; k + 3; k + 4]
             :: sexpected (Some (length Ls, k + 4)) 1 (k + 5) (length Ls + 1) [e] c ++ [stray]) in *.
  replace (k + S (S (S (S (S (length (render_stmt c ++ tSemi :: render_handlers r))))))) with (S e + length (render_handlers r))
    by (rewrite app_length; cbn [length]; unfold e; lia).
  replace (e + 1) with (S e) by lia.
  destruct Hcase as [[-> ->]|[Hr ->]].
  - (* the last handler *)
    cbn [is_term tEnd orb hexpected map render_handlers length]. rewrite !app_nil_r, Nat.add_0_r.
    eexists _, _, _. split; [|exact S2]. reflexivity.
  - cbn [is_term tOn]. rewrite (ST_cur_tt stk _ _ _ _ _ _ _ _ _ _ _ S2 Ht2). cbn [tOn orb].
    pose proof (fun Hli => IHr stk par C Hnd HC Hwr f _ _ _ _ _ _ _ _ (length Ls + length SL) ltac:(unfold needh; lia) Hli S2 Htr) as IH'.
    destruct (IH' ltac:(rewrite app_length, map_length; reflexivity)) as (mc' & last' & fl & Ty & H4).
    exists mc', last', fl. split; [exact Ty|].
    eapply (ST_lists stk); [exact H4| |]; rewrite !map_app; repeat (progress (cbn [app]; rewrite <- ?app_assoc)); reflexivity.
Qed.

Lemma Pcore_tryon b h : Plist b -> Phand h -> Pcore (TTryOn b h).
Proof.
  intros IHb IHh stk X E pp f s k L M mc last lv a tf j t2 HP Hl H Hty Hwf Hcl Ht Htf Ej Hn Hf cons e SL.
  destruct (tf_not_eof tf Htf) as (NE & _ & _).
  cbn [render_stmt wf_stmt] in *. apply andb_prop in Hwf. destruct Hwf as [Hwb Hwh].
  unfold need_stmt in Hf. cbn [render_stmt length] in Hf. rewrite !app_length in Hf. cbn [length] in Hf. rewrite app_length in Hf. cbn [length] in Hf.
  assert (Eq : (tTry :: render b ++ tExcept :: render_handlers h ++ [tEnd]) ++ [tf] = [tTry] ++ (render b ++ [tExcept]) ++ (render_handlers h ++ [tEnd]) ++ [tf]).
  { cbn [app]. rewrite <- !app_assoc. cbn [app]. rewrite <- !app_assoc. reflexivity. }
  rewrite Eq in Ht.
  pose proof (Ht 0 _ eq_refl) as Hk. rewrite Nat.add_0_r in Hk.
  assert (Htb : toks_at (S k) (render b ++ [tExcept])).
  { replace (S k) with (k + 1) by lia. eapply toks_at_prefix. apply (toks_at_shift k 1 [tTry]); [exact Ht|reflexivity]. }
  set (m := S k + length (render b)).
  assert (Ht2 : toks_at (S m) ((render_handlers h ++ [tEnd]) ++ [tf])).
  { replace (S m) with (k + 1 + length (render b ++ [tExcept])) by (rewrite app_length; cbn [length]; unfold m; lia).
    apply (toks_at_shift (k + 1) _ (render b ++ [tExcept])); [|reflexivity]. apply (toks_at_shift k 1 [tTry]); [exact Ht|reflexivity]. }
  assert (Htc : toks_at (S m) (render_handlers h ++ [tEnd])) by (eapply toks_at_prefix; exact Ht2).
  assert (Hts : toks_at (S (S m + length (render_handlers h))) [tf]).
  { replace (S (S m + length (render_handlers h))) with (S m + length (render_handlers h ++ [tEnd])) by (rewrite app_length; cbn [length]; lia).
    apply (toks_at_shift (S m) _ (render_handlers h ++ [tEnd])); [exact Ht2|reflexivity]. }
  pose proof (toks_at_0 _ _ _ Hts eq_refl) as Hfo.
  pose proof HP as [P0 _].
  pose proof (core_try stk (first_parent X) true X E pp b (render_handlers h) (needh h) (fun k li => hexpected (first_parent X) (1 + plain_sum X) k li h)
                f _ _ _ _ _ _ _ _ tf j HP Hl
                (IHb stk _ KTryE X ltac:(discriminate) (pos_notd _ _ P0) eq_refl Hwb)
                (IHh stk _ X (pos_notd _ _ P0) eq_refl Hwh) eq_refl H Hty Hk) as H1.
  cbv zeta in H1. cbn [tTerm] in H1. specialize (H1 Htb Htc Hfo Ej NE ltac:(unfold need, needh; lia)). fold m in H1.
  eexists. subst cons e SL. cbn [selfterm andb sexpected render_stmt length]. cbv zeta. split.
  - replace (k + 1) with (S k) by lia. replace (length L + 1) with (S (length L)) by lia.
    replace (plain_sum X + 1)%Z with (1 + plain_sum X)%Z by lia. fold m. replace (m + 1) with (S m) by lia.
    replace (k + S (length (render b ++ tExcept :: render_handlers h ++ [tEnd]))) with (S (S m + length (render_handlers h)))
      by (rewrite !app_length; cbn [length]; rewrite app_length; cbn [length]; unfold m; lia).
    eapply (ST_lists stk); [exact H1| |]; cbn [map]; repeat (rewrite map_app; cbn [map]); cbn [map app ll_toks];
      repeat (progress (cbn [app]; rewrite <- ?app_assoc)); reflexivity.
  - intros _.
    exists (mkLine LLT_Unknown (lvl (plain_sum X)) (first_parent X) [k] :: pexpected (first_parent X) (plain_sum X + 1) (k + 1) (length L + 1) b
            ++ mkLine LLT_Unknown (lvl (plain_sum X)) (first_parent X) [k + 1 + length (render b)]
            :: hexpected (first_parent X) (plain_sum X + 1) (k + 1 + length (render b) + 1)
                 (length L + 1 + length (pexpected (first_parent X) (plain_sum X + 1) (k + 1) (length L + 1) b) + 1) h),
      LLT_Unknown, [k + 1 + length (render b) + 1 + length (render_handlers h)], []. split; [discriminate|]. split.
    + intros sm. cbn [sexpected]. cbv zeta. cbn [app]. rewrite <- app_assoc. cbn [app]. reflexivity.
    + cbn [length]. rewrite ?app_length. cbn [length]. replace (k + 1) with (S k) by lia. replace (length L + 1) with (S (length L)) by lia.
      replace (plain_sum X + 1)%Z with (1 + plain_sum X)%Z by lia. fold m. replace (m + 1) with (S m) by lia. lia.
Qed.

(* ---------------- every statement list of the fragment *)
Theorem stmts_run : forall ss, Plist ss.
Proof.
  apply (stmts_mut Pcore Plist Parms Phand).
  - exact Pcore_simple.
  - exact Pcore_assign.
  - exact Pcore_block.
  - exact Pcore_repeat.
  - intros b IHb c IHc. exact (Pcore_try false b c IHb IHc).
  - intros b IHb c IHc. exact (Pcore_try true b c IHb IHc).
  - intros b IHb h IHh. exact (Pcore_tryon b h IHb IHh).
  - exact Pcore_if.
  - intros c1 H1 c2 H2. exact (Pcore_ifelse c1 c2 H1 H2).
  - exact Pcore_while.
  - exact Pcore_case.
  - intros a Ha e He. exact (Pcore_caseelse a e Ha He).
  - exact plist_nil.
  - intros c Hc r Hr. exact (plist_cons c r Hc Hr).
  - exact arms_nil_run.
  - intros c Hc r Hr. exact (arms_cons_run c r Hc Hr).
  - exact phand_nil.
  - intros c Hc r Hr. exact (phand_cons c r Hc Hr).
Qed.

(* ---------------- a whole program: [declarations] `begin` ss `end` `.` Eof *)
(* the top level: parse_file's outer loop around the one top-level parse_structures call *)
Definition top_tail (f : nat) (sX : pstate) : pstate :=
  let s3 := take_separators_on_last_line pass (ParserGrammar.L 0) (finish_logical_line pass (pop_ctx pass sX)) in
  let s4 := if is_ending pass s3 || match cur_tt pass s3 with None => true | Some _ => false end then s3
            else RUN f (C_stmt_list CT_TopLevelStatement true P_top_semicolon) s3 in
  finish_logical_line pass (set_line_type pass LLT_Eof (next_token pass (finish_logical_line pass s4))).
Lemma top_head f s0 : has_err pass s0 = false ->
  RUN (S (S (S f))) C_top s0 = top_tail (S f) (RUN f C_structures (push_ctx pass cTop (finish_logical_line pass s0))).
Proof.
  intros E. rewrite (run_S _ C_top _ E). unfold arm_top. cbv zeta.
  rewrite (stmt_list_unfold _ _ _ _ _ E). cbv zeta.
  change (ctx CT_TopLevelStatement true P_top_semicolon (ParserGrammar.L 0)) with cTop.
  rewrite (with_ctx_structures _ cTop s0 E eq_refl). reflexivity.
Qed.
(* the end of the file: parse_structures has returned in front of Eof *)
Lemma top_tail_run f sX k L M mc last lv a :
  ST [] sX k L [] M mc last [(cTop, false)] lv a -> nth_error T k = Some RTT_Eof -> n = S k ->
  exists mc' last',
  ST [] (top_tail f sX) n (L ++ [[k]]) [] (M ++ [mkLM None 0%N LLT_Eof]) mc' last' [] lv a.
Proof.
  intros H9 HtE Hn. unfold top_tail. cbv zeta.
  assert (Hen2 : tokfin k) by (exists RTT_Eof; split; [exact HtE|reflexivity]).
  pose proof (pop_ctx_ST (@nil nat) _ _ _ _ _ _ _ _ _ _ _ H9) as H10.
  pose proof (finish_empty_ST (@nil nat) _ _ _ _ _ _ _ _ _ H10) as H11.
  rewrite (take_separators_noop (@nil nat) _ _ _ _ _ _ _ _ _ _ _ RTT_Eof H11 HtE) by discriminate.
  rewrite (ST_cur_tt (@nil nat) _ _ _ _ _ _ _ _ _ _ _ H11 HtE). rewrite orb_true_r.
  pose proof (finish_empty_ST (@nil nat) _ _ _ _ _ _ _ _ _ H11) as H12.
  pose proof (next_token_ST (@nil nat) _ _ _ _ _ _ _ _ _ _ H12 Hen2) as H13. cbn [app] in H13.
  pose proof (set_line_type_ST (@nil nat) LLT_Eof _ _ _ _ _ _ _ _ _ _ H13) as H14.
  pose proof (finish_ST (@nil nat) _ _ _ _ _ _ _ _ _ _ H14 ltac:(discriminate)) as H15.
  cbn [first_parent plain_sum lm_type] in H15. change (clamp_u16 0) with 0%N in H15.
  rewrite <- Hn in H15. eexists _, _. exact H15.
Qed.
(* the main block `begin` ss `end` `.` inside the top-level parse_structures loop *)
Lemma main_core ss f s1 K Ls M mc last lv a :
  wf ss = true -> ST [] s1 K Ls [] M mc last [(cTop, false)] lv a -> lm_type mc = LLT_Unknown ->
  nth_error T K = Some tBegin -> toks_at (S K) (render ss ++ [tEnd]) ->
  nth_error T (S (S K + length (render ss))) = Some tDot ->
  nth_error T (S (S (S K + length (render ss)))) = Some RTT_Eof ->
  8 + need ss <= f ->
  let e := S K + length (render ss) in
  exists last',
    ST [] (RUN f C_structures s1) (S (S e))
       (Ls ++ [K] :: map ll_toks (pexpected None 1 (S K) (S (length Ls)) ss) ++ [[e; S e]]) []
       (M ++ mkLM None 0%N LLT_Unknown :: map meta_of (pexpected None 1 (S K) (S (length Ls)) ss) ++ [mkLM None 0%N LLT_Unknown])
       (mkLM None 0%N LLT_Unknown) last' [(cTop, false)] lv a.
Proof.
  intros Hwf H1 Hty Ht0 Htb HtD HtE Hf e.
  destruct f as [|[|[|f]]]; try lia.
  assert (H0n : tokfin K) by tokfin_tac.
  rewrite (run_S _ C_structures _ (ST_err (@nil nat) _ _ _ _ _ _ _ _ _ _ H1)).
  unfold arm_structures. rewrite (ST_cur_tt (@nil nat) _ _ _ _ _ _ _ _ _ _ _ H1 Ht0). cbn [tBegin].
  assert (E1 : ending_ctx pass s1 = None).
  { unfold ending_ctx. rewrite (ST_ctx (@nil nat) _ _ _ _ _ _ _ _ _ _ H1). cbn [ending_go cTop ctx c_pred c_opaque eval_pred].
    rewrite (ST_cur_tt (@nil nat) _ _ _ _ _ _ _ _ _ _ _ H1 Ht0). reflexivity. }
  rewrite E1. cbn [sarm_of tBegin]. cbv delta [sa_begin stmt_block] beta.
  pose proof (next_token_ST (@nil nat) _ _ _ _ _ _ _ _ _ _ H1 H0n) as H2. cbn [app] in H2.
  change (ctx (CT_StatementBlock BK_Begin) true P_end (ParserGrammar.L 1)) with (cBlk KBegin).
  rewrite (run_S _ (C_stmt_block (cBlk KBegin) SK_Normal) _ (ST_err (@nil nat) _ _ _ _ _ _ _ _ _ _ H2)). unfold arm_stmt_block.
  rewrite (with_ctx_stmt_list _ (cBlk KBegin) _ _ (ST_err (@nil nat) _ _ _ _ _ _ _ _ _ _ H2) eq_refl).
  pose proof (finish_ST (@nil nat) _ _ _ _ _ _ _ _ _ _ H2 ltac:(discriminate)) as H3.
  cbn [first_parent plain_sum cTop ctx c_level ParserGrammar.L app length] in H3. rewrite Hty in H3.
  change (clamp_u16 (0 + 0)) with 0%N in H3.
  pose proof (push_ctx_ST (@nil nat) (cBlk KBegin) _ _ _ _ _ _ _ _ _ _ H3) as H4.
  pose proof (fun Hli => stmts_run ss [] None KBegin [(cTop, false)] ltac:(discriminate) eq_refl eq_refl Hwf f _ _ _ _ _ _ _ _ (S (length Ls)) ltac:(lia) Hli H4 Htb) as SRn.
  destruct (SRn ltac:(rewrite app_length; cbn [length]; lia)) as (mcb & lastb & flb & Tyb & H5).
  change (C_stmt_list (CT_Statement SK_Normal) false P_semicolon) with (slc KBegin).
  cbn [plain_sum cTop ctx c_level ParserGrammar.L] in H5. change (1 + (0 + 0))%Z with 1%Z in H5.
  pose proof (pop_ctx_ST (@nil nat) _ _ _ _ _ _ _ _ _ _ _ H5) as H6.
  fold e in H6.
  match type of H6 with ST _ ?x _ _ _ _ _ _ _ _ _ => set (sB := x) in * end.
  assert (He : nth_error T e = Some tEnd).
  { specialize (Htb (length (render ss)) tEnd). rewrite nth_error_app2, Nat.sub_diag in Htb by lia. exact (Htb eq_refl). }
  assert (Hen : tokfin e) by tokfin_tac. assert (Hen1 : tokfin (S e)) by (exists tDot; split; [exact HtD|reflexivity]).
  rewrite (ST_cur_tt (@nil nat) _ _ _ _ _ _ _ _ _ _ _ H6 He). cbn [tEnd o_kw_end].
  pose proof (next_token_ST (@nil nat) _ _ _ _ _ _ _ _ _ _ H6 Hen) as H7. cbn [app] in H7.
  rewrite (ST_cur_tt (@nil nat) _ _ _ _ _ _ _ _ _ _ _ H7 HtD). cbn [tDot o_dot].
  pose proof (next_token_ST (@nil nat) _ _ _ _ _ _ _ _ _ _ H7 Hen1) as H8. cbn [app] in H8.
  pose proof (finish_ST (@nil nat) _ _ _ _ _ _ _ _ _ _ H8 ltac:(discriminate)) as H9.
  cbn [first_parent plain_sum cTop ctx c_level ParserGrammar.L] in H9. rewrite Tyb in H9.
  change (clamp_u16 (0 + 0)) with 0%N in H9.
  unfold s_loop.
  rewrite (run_S _ C_structures _ (ST_err (@nil nat) _ _ _ _ _ _ _ _ _ _ H9)).
  unfold arm_structures. rewrite (ST_cur_tt (@nil nat) _ _ _ _ _ _ _ _ _ _ _ H9 HtE).
  eexists. eapply (ST_lists []).
  - exact H9.
  - cbn [app]. repeat (progress (cbn [app]; rewrite <- ?app_assoc)). reflexivity.
  - cbn [app]. repeat (progress (cbn [app]; rewrite <- ?app_assoc)). reflexivity.
Qed.
Theorem prog_run ss f s0 mc0 last0 lv a :
  wf ss = true -> ST [] s0 0 [] [] [] mc0 last0 [] lv a ->
  nth_error T 0 = Some tBegin -> toks_at 1 (render ss ++ [tEnd]) ->
  nth_error T (S (S (length (render ss)))) = Some tDot ->
  nth_error T (S (S (S (length (render ss))))) = Some RTT_Eof ->
  n = S (S (S (S (length (render ss))))) ->
  12 + need ss <= f ->
  let e := S (length (render ss)) in
  exists mc' last',
    ST [] (RUN f C_top s0) n
       ([0] :: map ll_toks (pexpected None 1 1 1 ss) ++ [[e; S e]; [S (S e)]]) []
       (mkLM None 0%N LLT_Unknown :: map meta_of (pexpected None 1 1 1 ss) ++ [mkLM None 0%N LLT_Unknown; mkLM None 0%N LLT_Eof])
       mc' last' [] lv a.
Proof.
  intros Hwf H Ht0 Htb HtD HtE Hn Hf e.
  destruct f as [|[|[|f]]]; try lia.
  rewrite (top_head f s0 (ST_err (@nil nat) _ _ _ _ _ _ _ _ _ _ H)).
  pose proof (finish_empty_ST (@nil nat) _ _ _ _ _ _ _ _ _ H) as H0.
  pose proof (push_ctx_ST (@nil nat) cTop _ _ _ _ _ _ _ _ _ _ H0) as H1.
  destruct (main_core ss f _ 0 [] [] _ _ _ _ Hwf H1 eq_refl Ht0 Htb HtD HtE ltac:(lia)) as (last1 & H9).
  cbv zeta in H9. fold e in H9.
  destruct (top_tail_run (S f) _ _ _ _ _ _ _ _ H9 HtE ltac:(unfold e; lia)) as (mc' & last' & H15).
  exists mc', last'. eapply (ST_lists []); [exact H15| |]; repeat (progress (cbn [app]; rewrite <- ?app_assoc)); reflexivity.
Qed.

(* ================================================================== *)
(* declaration sections in front of the main block: `var` (x : T ;)*, `const` (c = d ;)* *)
(* re-typing the current token and consuming it *)
Lemma upd_cur_next_ST stk g s k L c M mc last cx lv a t :
  ST stk s k L c M mc last cx lv a -> nth_error T k = Some t -> t <> RTT_Eof -> g t = Some (fin t) ->
  has_err pass (upd_cur pass g s) = false /\
  ST stk (next_token pass (upd_cur pass g s)) (S k) L (c ++ [k]) M mc last cx lv a.
Proof.
  intros H Hk HnE Hg. pose proof (ST_err stk _ _ _ _ _ _ _ _ _ _ H) as E.
  assert (Hkn : k < n) by (apply nth_error_Some; congruence).
  assert (Tk : ps_toks pass s = mix k) by exact (ST_toks stk _ _ _ _ _ _ _ _ _ _ H).
  assert (Ec : upd_cur pass g s = set_toks pass (mix (S k)) s).
  { unfold upd_cur, idx0. rewrite (ST_cur_index stk _ _ _ _ _ _ _ _ _ _ H Hkn).
    unfold tt_at. rewrite Tk, (mix_nth_ge k k (le_n k)), Hk.
    assert (X : match t with RTT_Eof => @None nat | _ => Some k end = Some k) by (destruct t; try reflexivity; contradiction HnE; reflexivity).
    rewrite X. rewrite (mix_nth_ge k k (le_n k)), Hk. cbn [bind]. rewrite Hg.
    unfold set_tok, guard. rewrite E, Tk, (mix_retype k _ Hk). reflexivity. }
  rewrite Ec. set (s' := set_toks pass (mix (S k)) s).
  assert (E' : has_err pass s' = false) by exact E.
  split; [exact E'|].
  destruct (next_token_G s' (mix (S k)) k E' eq_refl (mix_plain (S k)) (ST_pidx stk _ _ _ _ _ _ _ _ _ _ H) Hkn (mix_length (S k))) as (K1 & M1 & R1).
  destruct H as (K & Mt & Ml & R). split; [|split; [|split]].
  - rewrite K1. change (kst pass s') with (kst pass s). rewrite K. cbn [k_step k_pi k_lines k_cur k_last k_top hd].
    rewrite (nth_error_seq0 _ _ Hkn). rewrite upd_nth_app_last. reflexivity.
  - rewrite M1. exact Mt.
  - exact Ml.
  - rewrite R1. unfold restv in *. subst s'. cbn. injection R as R1' R2 R3 R4 R5 R6 R7. rewrite R2, R3, R4, R5, R6, R7. reflexivity.
Qed.
(* take_until no_more_separators in front of one `;` that does not end a context: the `;` is consumed *)
Lemma take_until_semi stk s k L c M mc last cx lv a t' :
  ST stk s k L c M mc last cx lv a -> nth_error T k = Some tSemi -> nth_error T (S k) = Some t' -> t' <> tSemi ->
  ending_ctx pass s = None ->
  take_until pass (no_more_separators pass) s = next_token pass s.
Proof.
  intros H Hk Hk1 Hne En. pose proof (ST_err stk _ _ _ _ _ _ _ _ _ _ H) as E.
  pose proof (next_token_ST stk _ _ _ _ _ _ _ _ _ _ H (tokfin_semi k Hk)) as H1.
  unfold take_until, simple_op_until, op_until.
  assert (Hrem : remaining pass s + 2 = S (S (remaining pass s))) by lia. rewrite Hrem.
  cbn [op_until_go]. rewrite E, (ST_cur_tt stk _ _ _ _ _ _ _ _ _ _ _ H Hk). cbn [tSemi].
  unfold no_more_separators at 1. rewrite (ST_cur_tt stk _ _ _ _ _ _ _ _ _ _ _ H Hk). cbn [tSemi o_semicolon negb].
  unfold is_ending. rewrite En.
  rewrite (ST_err stk _ _ _ _ _ _ _ _ _ _ H1), (ST_cur_tt stk _ _ _ _ _ _ _ _ _ _ _ H1 Hk1).
  destruct t' as [o| |k0|k0| | | | | | |]; try reflexivity;
    unfold no_more_separators; rewrite (ST_cur_tt stk _ _ _ _ _ _ _ _ _ _ _ H1 Hk1); try reflexivity.
  destruct o; try reflexivity. exfalso. apply Hne. reflexivity.
Qed.

(* the members of a declaration block *)
Definition cDecl : pctx := ctx CT_DeclarationBlock true P_declaration_section (ParserGrammar.L 1).
Definition Xd : list (pctx * bool) := [(cDecl, false); (cTop, false)].
Definition is_sect (t : RawTokenType) : bool :=
  match t with RTT_Keyword (KK_Var _ | KK_Const _ | KK_Begin) => true | _ => false end.
Lemma declsec_eq (s : pstate) t : cur_tt pass s = Some t -> t <> RTT_Keyword KK_Class ->
  declaration_section pass s =
  match t with
  | RTT_Keyword kk | RTT_IdentifierOrKeyword kk =>
      match kk with
      | KK_Exports | KK_Begin | KK_Asm | KK_Class | KK_Property | KK_Function | KK_Procedure | KK_Constructor
      | KK_Destructor | KK_End | KK_Implementation | KK_Initialization | KK_Finalization => true
      | KK_Strict | KK_Private | KK_Protected | KK_Public | KK_Published | KK_Automated => is_in_type_decl pass s
      | _ => KeywordKind_is_decl_section kk
      end
  | _ => false
  end.
Proof.
  intros Hc Hn. unfold declaration_section. rewrite Hc.
  destruct (prev_tt pass s) as [[o| |k0|k0| | | | | | |]|]; try reflexivity.
  - destruct o; try reflexivity. destruct t as [o| |k1|k1| | | | | | |]; try reflexivity. destruct k1; try reflexivity. contradiction Hn; reflexivity.
  - destruct k0; try reflexivity. destruct t as [o| |k1|k1| | | | | | |]; try reflexivity. destruct k1; try reflexivity. contradiction Hn; reflexivity.
Qed.
Lemma ending_Xd stk s k L c M mc last lv a t :
  ST stk s k L c M mc last Xd lv a -> nth_error T k = Some t -> (is_sect t = true \/ t = tI \/ t = tColon \/ t = tEq \/ t = tSemi) ->
  ending_ctx pass s = if is_sect t then Some 1 else None.
Proof.
  intros H Ht Hc. unfold ending_ctx. rewrite (ST_ctx stk _ _ _ _ _ _ _ _ _ _ H). unfold Xd. cbn [ending_go cDecl ctx c_pred c_opaque eval_pred].
  assert (HnE : t <> RTT_Eof) by (destruct Hc as [Hc|[->|[->|[->| ->]]]]; try discriminate; intros ->; discriminate).
  assert (Ct : cur_tt pass s = Some t).
  { rewrite (ST_cur_tt stk _ _ _ _ _ _ _ _ _ _ _ H Ht). destruct t; try reflexivity. contradiction HnE; reflexivity. }
  rewrite (declsec_eq s t Ct) by (destruct Hc as [Hc|[->|[->|[->| ->]]]]; try discriminate; intros ->; discriminate).
  destruct Hc as [Hc|[->|[->|[->| ->]]]]; try reflexivity.
  destruct t as [o| |k0|k0| | | | | | |]; try discriminate. destruct k0; try discriminate; reflexivity.
Qed.

Lemma mix_nth_lt r i : i < r -> nth_error (mix r) i = option_map fin (nth_error T i).
Proof.
  intros H. unfold mix. destruct (Nat.lt_ge_cases i n) as [Hi|Hi].
  - rewrite nth_error_app1 by (rewrite map_length, firstn_length; lia).
    rewrite nth_error_map. f_equal. rewrite <- (firstn_skipn r T) at 2. rewrite nth_error_app1 by (rewrite firstn_length; lia). reflexivity.
  - rewrite (proj2 (nth_error_None T i) Hi). cbn. apply nth_error_None. rewrite app_length, map_length, <- app_length, firstn_skipn. exact Hi.
Qed.
Lemma prelude_ns stk s k L c M mc last x fl r lv a :
  ST stk s k L c M mc last ((x, fl) :: r) lv a -> ending_ctx pass s = None -> c <> [] -> statement_prelude pass s = (s, true).
Proof.
  intros H E Hc. unfold statement_prelude. rewrite (last_ctx_ST stk _ _ _ _ _ _ _ _ _ _ _ _ H), E, (ST_at_start stk _ _ _ _ _ _ _ _ _ _ H).
  destruct c; [contradiction|reflexivity].
Qed.
Lemma Xd_ctype stk s k L c M mc last lv a : ST stk s k L c M mc last Xd lv a -> last_ctype pass s = Some CT_DeclarationBlock.
Proof. intros H. unfold last_ctype. rewrite (last_ctx_ST stk _ _ _ _ _ _ _ _ _ _ _ _ H). reflexivity. Qed.
Lemma Xd_none stk s k L c M mc last lv a t :
  ST stk s k L c M mc last Xd lv a -> nth_error T k = Some t -> (t = tI \/ t = tColon \/ t = tEq \/ t = tSemi) -> ending_ctx pass s = None.
Proof. intros H Hk Ht. rewrite (ending_Xd stk _ _ _ _ _ _ _ _ _ _ H Hk (or_intror Ht)). destruct Ht as [->|[->|[->| ->]]]; reflexivity. Qed.

(* the name that starts a member: the line becomes a Declaration line *)
Lemma decl_name stk f s k L M mc last lv a :
  ST stk s k L [] M mc last Xd lv a -> nth_error T k = Some tI ->
  RUN (S f) C_statement s = RUN f C_statement (next_token pass (set_line_type pass LLT_Declaration s)).
Proof.
  intros H Hk. pose proof (Xd_none stk _ _ _ _ _ _ _ _ _ _ H Hk ltac:(left; reflexivity)) as E0.
  rewrite (run_S _ C_statement _ (ST_err stk _ _ _ _ _ _ _ _ _ _ H)).
  unfold arm_statement. rewrite (ST_cur_tt stk _ _ _ _ _ _ _ _ _ _ _ H Hk). cbn [tI].
  assert (Pr : statement_prelude pass s = (set_line_type pass LLT_Declaration s, true)).
  { unfold statement_prelude. rewrite (last_ctx_ST stk _ _ _ _ _ _ _ _ _ _ _ _ H), E0, (ST_at_start stk _ _ _ _ _ _ _ _ _ _ H). reflexivity. }
  rewrite Pr. cbn [negb starm_of tI].
  pose proof (set_line_type_ST stk LLT_Declaration _ _ _ _ _ _ _ _ _ _ H) as H0.
  unfold st_label_cand, label_or_other.
  assert (Lx : is_label_ctx_excluded pass (set_line_type pass LLT_Declaration s) = true).
  { unfold is_label_ctx_excluded. rewrite (Xd_ctype stk _ _ _ _ _ _ _ _ _ H0). reflexivity. }
  rewrite Lx, andb_false_r. reflexivity.
Qed.
Lemma decl_ident stk f s k L c M mc last lv a :
  ST stk s k L c M mc last Xd lv a -> c <> [] -> nth_error T k = Some tI ->
  RUN (S f) C_statement s = RUN f C_statement (next_token pass s).
Proof.
  intros H Hc Hk. pose proof (Xd_none stk _ _ _ _ _ _ _ _ _ _ H Hk ltac:(left; reflexivity)) as E0.
  rewrite (run_S _ C_statement _ (ST_err stk _ _ _ _ _ _ _ _ _ _ H)).
  unfold arm_statement. rewrite (ST_cur_tt stk _ _ _ _ _ _ _ _ _ _ _ H Hk). cbn [tI].
  rewrite (prelude_ns stk _ _ _ _ _ _ _ _ _ _ _ _ H E0 Hc). cbn [negb starm_of tI].
  unfold st_label_cand, label_or_other.
  rewrite (ST_at_start stk _ _ _ _ _ _ _ _ _ _ H). destruct c; [contradiction|reflexivity].
Qed.
Lemma decl_colon stk f s k L c M mc last lv a :
  ST stk s k L c M mc last Xd lv a -> c <> [] -> lm_type mc = LLT_Declaration -> nth_error T k = Some tColon -> nth_error T (S k) = Some tI ->
  RUN (S f) C_statement s = RUN f C_statement (next_token pass s).
Proof.
  intros H Hc Hty Hk Hk1. pose proof (Xd_none stk _ _ _ _ _ _ _ _ _ _ H Hk ltac:(right; left; reflexivity)) as E0.
  rewrite (run_S _ C_statement _ (ST_err stk _ _ _ _ _ _ _ _ _ _ H)).
  unfold arm_statement. rewrite (ST_cur_tt stk _ _ _ _ _ _ _ _ _ _ _ H Hk). cbn [tColon].
  rewrite (prelude_ns stk _ _ _ _ _ _ _ _ _ _ _ _ H E0 Hc). cbn [negb starm_of tColon].
  unfold st_colon.
  assert (LP : line_parent_of_current pass s = Some (length L, k)).
  { unfold line_parent_of_current. rewrite (ST_cur_index stk _ _ _ _ _ _ _ _ _ _ H ltac:(apply nth_error_Some; congruence)), (ST_cur_ref stk _ _ _ _ _ _ _ _ _ _ H). reflexivity. }
  rewrite LP.
  pose proof (next_token_ST stk _ _ _ _ _ _ _ _ _ _ H ltac:(exists tColon; split; [exact Hk|reflexivity])) as H2.
  rewrite (ST_cur_type stk _ _ _ _ _ _ _ _ _ _ H2), Hty. cbn [llt_is LogicalLineType_eqb LogicalLineType_idx Nat.eqb].
  rewrite (Xd_ctype stk _ _ _ _ _ _ _ _ _ H2), (ST_cur_tt stk _ _ _ _ _ _ _ _ _ _ _ H2 Hk1). cbn [tI]. unfold t_loop.
  rewrite (caret_noop_G _ (toks_plain_G _ _ (ST_toks stk _ _ _ _ _ _ _ _ _ _ H2))). reflexivity.
Qed.
(* the `=` of a constant: re-typed to a declaration `=` *)
Lemma decl_eq stk f s k k0 L M mc last lv a :
  ST stk s k L [k0] M mc last Xd lv a -> k0 < k -> nth_error T k0 = Some tI -> nth_error T k = Some tEq ->
  exists s', RUN (S f) C_statement s = RUN f C_statement s' /\ ST stk s' (S k) L [k0; k] M mc last Xd lv a.
Proof.
  intros H Hlt Hk0 Hk. pose proof (Xd_none stk _ _ _ _ _ _ _ _ _ _ H Hk ltac:(right; right; left; reflexivity)) as E0.
  rewrite (run_S _ C_statement _ (ST_err stk _ _ _ _ _ _ _ _ _ _ H)).
  unfold arm_statement. rewrite (ST_cur_tt stk _ _ _ _ _ _ _ _ _ _ _ H Hk). cbn [tEq].
  rewrite (prelude_ns stk _ _ _ _ _ _ _ _ _ _ _ _ H E0 ltac:(discriminate)). cbn [negb starm_of].
  unfold st_equal. rewrite (Xd_ctype stk _ _ _ _ _ _ _ _ _ H).
  assert (CL : cur_line_tts pass s = [tI]).
  { unfold cur_line_tts. rewrite (ST_cur_toks stk _ _ _ _ _ _ _ _ _ _ H). cbn [flat_map]. unfold tt_at.
    rewrite (ST_toks stk _ _ _ _ _ _ _ _ _ _ H), (mix_nth_lt k k0 Hlt), Hk0. reflexivity. }
  rewrite CL. cbn [existsb tI negb andb orb].
  destruct (upd_cur_next_ST stk (fun _ => Some (RTT_Op (OK_Equal EK_Decl))) _ _ _ _ _ _ _ _ _ _ tEq H Hk ltac:(discriminate) eq_refl) as [Eu H2].
  cbn [app] in H2. unfold set_current_token_type.
  rewrite (Xd_ctype stk _ _ _ _ _ _ _ _ _ H2). unfold t_loop. eexists. split; [reflexivity|exact H2].
Qed.
Lemma decl_semi stk f s k L c M mc last lv a t' :
  ST stk s k L c M mc last Xd lv a -> c <> [] -> nth_error T k = Some tSemi -> nth_error T (S k) = Some t' -> t' <> tSemi ->
  RUN (S f) C_statement s = finish_logical_line pass (next_token pass s).
Proof.
  intros H Hc Hk Hk1 Hne. pose proof (Xd_none stk _ _ _ _ _ _ _ _ _ _ H Hk ltac:(right; right; right; reflexivity)) as E0.
  rewrite (run_S _ C_statement _ (ST_err stk _ _ _ _ _ _ _ _ _ _ H)).
  unfold arm_statement. rewrite (ST_cur_tt stk _ _ _ _ _ _ _ _ _ _ _ H Hk). cbn [tSemi].
  rewrite (prelude_ns stk _ _ _ _ _ _ _ _ _ _ _ _ H E0 Hc). cbn [negb starm_of].
  unfold st_semicolon. rewrite (take_until_semi stk _ _ _ _ _ _ _ _ _ _ _ H Hk Hk1 Hne E0). reflexivity.
Qed.
(* one member `Identifier : Identifier ;` or `Identifier = Identifier ;` *)
Lemma member_run (cst : bool) stk f s k L M mc last lv a t' :
  ST stk s k L [] M mc last Xd lv a ->
  nth_error T k = Some tI -> nth_error T (S k) = Some (if cst then tEq else tColon) -> nth_error T (S (S k)) = Some tI ->
  nth_error T (S (S (S k))) = Some tSemi -> nth_error T (S (S (S (S k)))) = Some t' -> t' <> tSemi -> 4 <= f ->
  ST stk (RUN f C_statement s) (S (S (S (S k)))) (L ++ [[k; S k; S (S k); S (S (S k))]]) []
     (M ++ [mkLM None 1%N LLT_Declaration]) (mkLM None 1%N LLT_Unknown) (length L) Xd lv a.
Proof.
  intros H Hk Hk1 Hk2 Hk3 Hk4 Hne Hf. destruct f as [|[|[|[|f]]]]; try lia.
  assert (Hkn : tokfin k) by tokfin_tac. assert (Hkn2 : tokfin (S (S k))) by tokfin_tac.
  rewrite (decl_name stk _ _ _ _ _ _ _ _ _ H Hk).
  pose proof (set_line_type_ST stk LLT_Declaration _ _ _ _ _ _ _ _ _ _ H) as H0.
  pose proof (next_token_ST stk _ _ _ _ _ _ _ _ _ _ H0 Hkn) as H1. cbn [app] in H1.
  assert (S2 : exists s2, RUN (S (S (S f))) C_statement (next_token pass (set_line_type pass LLT_Declaration s)) = RUN (S (S f)) C_statement s2 /\
               ST stk s2 (S (S k)) L [k; S k] M (mkLM (lm_parent mc) (lm_level mc) LLT_Declaration) last Xd lv a).
  { destruct cst.
    - exact (decl_eq stk _ _ _ _ _ _ _ _ _ _ H1 (Nat.lt_succ_diag_r k) Hk Hk1).
    - eexists. split; [exact (decl_colon stk _ _ _ _ _ _ _ _ _ _ H1 ltac:(discriminate) eq_refl Hk1 Hk2)|].
      exact (next_token_ST stk _ _ _ _ _ _ _ _ _ _ H1 ltac:(exists tColon; split; [exact Hk1|reflexivity])). }
  destruct S2 as (s2 & -> & H2).
  rewrite (decl_ident stk _ _ _ _ _ _ _ _ _ _ H2 ltac:(discriminate) Hk2).
  pose proof (next_token_ST stk _ _ _ _ _ _ _ _ _ _ H2 Hkn2) as H3. cbn [app] in H3.
  rewrite (decl_semi stk _ _ _ _ _ _ _ _ _ _ _ H3 ltac:(discriminate) Hk3 Hk4 Hne).
  pose proof (next_token_ST stk _ _ _ _ _ _ _ _ _ _ H3 (tokfin_semi _ Hk3)) as H4. cbn [app] in H4.
  pose proof (finish_ST stk _ _ _ _ _ _ _ _ _ _ H4 ltac:(discriminate)) as H5.
  exact H5.
Qed.

(* the members of one section, up to the keyword that starts the next section or the main block *)
Lemma is_sect_ne t : is_sect t = true -> t <> RTT_Eof /\ t <> tSemi.
Proof. intros H. split; intros ->; discriminate. Qed.
Lemma members_run (cst : bool) stk n : forall f s k L M mc last lv a t',
  ST stk s k L [] M mc last Xd lv a -> lm_type mc = LLT_Unknown ->
  toks_at k (render_members [tI; (if cst then tEq else tColon); tI; tSemi] n ++ [t']) -> is_sect t' = true -> n + 5 <= f ->
  exists mc' last', lm_type mc' = LLT_Unknown /\
  ST stk (RUN f C_structures s) (k + 4 * n) (L ++ map ll_toks (member_lines k n)) []
     (M ++ map meta_of (member_lines k n)) mc' last' (mark_ended 1 Xd) lv a.
Proof.
  induction n as [|n IH]; intros f s k L M mc last lv a t' H Hty Ht Hs Hf.
  - destruct f as [|f]; [lia|]. cbn [render_members app] in Ht. pose proof (toks_at_0 _ _ _ Ht eq_refl) as Hk.
    destruct (is_sect_ne _ Hs) as [HnE _].
    pose proof (ending_Xd stk _ _ _ _ _ _ _ _ _ _ H Hk (or_introl Hs)) as E. rewrite Hs in E.
    rewrite (structures_stop stk _ _ _ _ _ _ _ _ _ _ _ _ _ H Hk HnE E).
    cbn [member_lines map Nat.mul]. rewrite !app_nil_r, Nat.add_0_r.
    exists mc, last. split; [exact Hty|]. exact (update_statuses_ST stk 1 _ _ _ _ _ _ _ _ _ _ H).
  - destruct f as [|f]; [lia|]. cbn [render_members] in Ht.
    assert (Hk : nth_error T k = Some tI) by exact (toks_at_0 _ _ _ Ht eq_refl).
    assert (Hk1 : nth_error T (S k) = Some (if cst then tEq else tColon)) by (rewrite <- Nat.add_1_r; exact (Ht 1 _ eq_refl)).
    assert (Hk2 : nth_error T (S (S k)) = Some tI) by (replace (S (S k)) with (k + 2) by lia; exact (Ht 2 _ eq_refl)).
    assert (Hk3 : nth_error T (S (S (S k))) = Some tSemi) by (replace (S (S (S k))) with (k + 3) by lia; exact (Ht 3 _ eq_refl)).
    assert (Hk4 : exists t4, nth_error T (S (S (S (S k)))) = Some t4 /\ t4 <> tSemi).
    { replace (S (S (S (S k)))) with (k + 4) by lia. destruct n as [|n'].
      - exists t'. split; [exact (Ht 4 _ eq_refl)|exact (proj2 (is_sect_ne _ Hs))].
      - exists tI. split; [exact (Ht 4 _ eq_refl)|discriminate]. }
    destruct Hk4 as (t4 & Hk4 & Hne4).
    pose proof (Xd_none stk _ _ _ _ _ _ _ _ _ _ H Hk ltac:(left; reflexivity)) as E0.
    rewrite (structures_ident stk _ _ _ _ _ _ _ _ _ _ _ H Hk E0).
    pose proof (member_run cst stk f _ _ _ _ _ _ _ _ _ H Hk Hk1 Hk2 Hk3 Hk4 Hne4 ltac:(lia)) as H1.
    assert (Ht' : toks_at (k + 4) (render_members [tI; (if cst then tEq else tColon); tI; tSemi] n ++ [t'])).
    { apply (toks_at_shift k 4 [tI; (if cst then tEq else tColon); tI; tSemi]); [exact Ht|reflexivity]. }
    replace (S (S (S (S k)))) with (k + 4) in H1 by lia.
    destruct (IH f _ _ _ _ _ _ _ _ t' H1 eq_refl Ht' Hs ltac:(lia)) as (mc' & last' & Ty' & H2).
    exists mc', last'. split; [exact Ty'|].
    cbn [member_lines map ll_toks meta_of].
    replace (k + 4 * S n) with (k + 4 + 4 * n) by lia.
    replace (k + 1) with (S k) by lia. replace (k + 2) with (S (S k)) by lia. replace (k + 3) with (S (S (S k))) by lia.
    rewrite <- !app_assoc in H2. cbn [app] in H2. exact H2.
Qed.

Lemma with_ctx_block f cx s : has_err pass s = false -> clevel_parent (c_level cx) = None ->
  RUN (S (S f)) (C_block cx) s
  = pop_ctx pass (finish_logical_line pass (RUN f C_structures (push_ctx pass cx (finish_logical_line pass s)))).
Proof.
  intros E P. rewrite (run_S _ _ _ E). unfold arm_block. rewrite (run_S _ _ _ E). unfold arm_with_ctx. rewrite P. reflexivity.
Qed.
Lemma cTop_ctype s k L c M mc last lv a : ST [] s k L c M mc last [(cTop, false)] lv a -> last_ctype pass s = Some CT_TopLevelStatement.
Proof. intros H. unfold last_ctype. rewrite (last_ctx_ST [] _ _ _ _ _ _ _ _ _ _ _ _ H). reflexivity. Qed.
(* one section: its keyword on a line of level 0, its members on lines of level 1 *)
Lemma section_run (cst : bool) n f s K L M mc last lv a t' :
  ST [] s K L [] M mc last [(cTop, false)] lv a -> lm_type mc = LLT_Unknown ->
  nth_error T K = Some (if cst then tConst else tVar) ->
  toks_at (S K) (render_members [tI; (if cst then tEq else tColon); tI; tSemi] n ++ [t']) -> is_sect t' = true -> n + 7 <= f ->
  exists s' mc' last', RUN (S f) C_structures s = RUN f C_structures s' /\ lm_type mc' = LLT_Unknown /\
    ST [] s' (S K + 4 * n) (L ++ [K] :: map ll_toks (member_lines (S K) n)) []
       (M ++ mkLM None 0%N LLT_Unknown :: map meta_of (member_lines (S K) n)) mc' last' [(cTop, false)] lv a.
Proof.
  intros H Hty HK Ht Hs Hf. destruct f as [|[|f]]; try lia.
  assert (HnE : (if cst then tConst else tVar) <> RTT_Eof) by (destruct cst; discriminate).
  rewrite (run_S _ C_structures _ (ST_err [] _ _ _ _ _ _ _ _ _ _ H)).
  unfold arm_structures. rewrite (ST_cur_tt [] _ _ _ _ _ _ _ _ _ _ _ H HK).
  assert (E1 : ending_ctx pass s = None).
  { unfold ending_ctx. rewrite (ST_ctx [] _ _ _ _ _ _ _ _ _ _ H). cbn [ending_go cTop ctx c_pred c_opaque eval_pred].
    rewrite (ST_cur_tt [] _ _ _ _ _ _ _ _ _ _ _ H HK). destruct cst; reflexivity. }
  assert (Ea : match (if cst then tConst else tVar) with RTT_Eof => None | _ => Some (if cst then tConst else tVar) end
               = Some (if cst then tConst else tVar)) by (destruct cst; reflexivity).
  rewrite Ea, E1.
  assert (Sa : sarm_of (if cst then tConst else tVar) = SA_decl (if cst then KK_Const DK_Other else KK_Var DK_Other)) by (destruct cst; reflexivity).
  rewrite Sa. unfold sa_decl. rewrite (cTop_ctype _ _ _ _ _ _ _ _ _ H).
  destruct (upd_cur_next_ST [] (fun t => match t with
                    | RTT_Keyword (KK_Const _) => Some (RTT_Keyword (KK_Const DK_Section))
                    | RTT_Keyword (KK_Var _) => Some (RTT_Keyword (KK_Var DK_Section))
                    | _ => None end) _ _ _ _ _ _ _ _ _ _ _ H HK HnE ltac:(destruct cst; reflexivity)) as [Eu H2].
  cbn [app] in H2. unfold set_current_decl_kind. cbv zeta.
  match type of H2 with ST _ ?x _ _ _ _ _ _ _ _ _ => set (s2 := x) in * end.
  rewrite (cTop_ctype _ _ _ _ _ _ _ _ _ H2).
  pose proof (finish_ST [] _ _ _ _ _ _ _ _ _ _ H2 ltac:(discriminate)) as H3.
  cbn [first_parent plain_sum cTop ctx c_level ParserGrammar.L app length] in H3. rewrite Hty in H3.
  change (clamp_u16 (0 + 0)) with 0%N in H3.
  assert (Ct : ctx (match (if cst then KK_Const DK_Other else KK_Var DK_Other) with KK_Type => CT_TypeBlock | _ => CT_DeclarationBlock end)
                   true P_declaration_section (ParserGrammar.L 1) = cDecl) by (destruct cst; reflexivity).
  rewrite Ct.
  rewrite (with_ctx_block f cDecl _ (ST_err [] _ _ _ _ _ _ _ _ _ _ H3) eq_refl).
  pose proof (finish_empty_ST [] _ _ _ _ _ _ _ _ _ H3) as H4.
  pose proof (push_ctx_ST [] cDecl _ _ _ _ _ _ _ _ _ _ H4) as H5. fold Xd in H5.
  destruct (members_run cst [] n f _ _ _ _ _ _ _ _ t' H5 eq_refl Ht Hs ltac:(lia)) as (mc' & last' & Ty' & H6).
  pose proof (finish_empty_ST [] _ _ _ _ _ _ _ _ _ H6) as H7.
  pose proof (pop_ctx_ST [] _ _ _ _ _ _ _ _ _ _ _ H7) as H8.
  eexists _, _, _. split; [reflexivity|]. split; [|eapply (ST_lists []); [exact H8| |]].
  - reflexivity.
  - rewrite <- app_assoc. reflexivity.
  - rewrite <- app_assoc. reflexivity.
Qed.

(* all the sections in front of the main block *)
Fixpoint dneed (ds : list decl) : nat := match ds with [] => 0 | dc :: r => Nat.max (decl_n dc) (dneed r) end.
Lemma render_members_length m j : length (render_members m j) = j * length m.
Proof. induction j as [|j IH]; cbn [render_members Nat.mul]; [reflexivity|]. rewrite app_length, IH. reflexivity. Qed.
Lemma render_decl_length dc : length (render_decl dc) = 1 + 4 * decl_n dc.
Proof. destruct dc; cbn [render_decl decl_n length]; rewrite render_members_length; cbn [length]; lia. Qed.
Lemma decls_head r t' : is_sect t' = true -> exists t'' rest, render_decls r ++ [t'] = t'' :: rest /\ is_sect t'' = true.
Proof.
  intros H. destruct r as [|[j|j] r]; cbn [render_decls render_decl app].
  - exists t', []. split; [reflexivity|exact H].
  - eexists _, _. split; [reflexivity|reflexivity].
  - eexists _, _. split; [reflexivity|reflexivity].
Qed.
Lemma decls_run ds : forall f s K L M mc last lv a t',
  ST [] s K L [] M mc last [(cTop, false)] lv a -> lm_type mc = LLT_Unknown ->
  toks_at K (render_decls ds ++ [t']) -> is_sect t' = true -> dneed ds + 7 <= f ->
  exists s' mc' last', RUN (length ds + f) C_structures s = RUN f C_structures s' /\ lm_type mc' = LLT_Unknown /\
    ST [] s' (K + length (render_decls ds)) (L ++ map ll_toks (decl_lines K ds)) []
       (M ++ map meta_of (decl_lines K ds)) mc' last' [(cTop, false)] lv a.
Proof.
  induction ds as [|dc r IH]; intros f s K L M mc last lv a t' H Hty Ht Hs Hf.
  - exists s, mc, last. split; [reflexivity|]. split; [exact Hty|]. cbn [render_decls decl_lines map length]. rewrite !app_nil_r, Nat.add_0_r. exact H.
  - cbn [dneed] in Hf. cbn [render_decls] in Ht. rewrite <- app_assoc in Ht.
    destruct (decls_head r t' Hs) as (t'' & rest & Er & Hs'').
    set (cst := match dc with DVar _ => false | DConst _ => true end).
    assert (Erd : render_decl dc = (if cst then tConst else tVar) :: render_members [tI; (if cst then tEq else tColon); tI; tSemi] (decl_n dc))
      by (destruct dc; reflexivity).
    rewrite Erd in Ht. cbn [app] in Ht.
    assert (HK : nth_error T K = Some (if cst then tConst else tVar)) by exact (toks_at_0 _ _ _ Ht eq_refl).
    assert (Ht1 : toks_at (S K) (render_members [tI; (if cst then tEq else tColon); tI; tSemi] (decl_n dc) ++ [t''])).
    { rewrite <- Nat.add_1_r. rewrite Er in Ht.
      apply (toks_at_prefix _ _ rest).
      apply (toks_at_shift K 1 [if cst then tConst else tVar]); [|reflexivity]. cbn [app]. rewrite <- app_assoc. exact Ht. }
    assert (Ht2 : toks_at (S K + 4 * decl_n dc) (render_decls r ++ [t'])).
    { replace (S K + 4 * decl_n dc) with (K + (1 + 4 * decl_n dc)) by lia.
      apply (toks_at_shift K _ ((if cst then tConst else tVar) :: render_members [tI; (if cst then tEq else tColon); tI; tSemi] (decl_n dc))); [exact Ht|].
      cbn [length]. rewrite render_members_length. cbn [length]. lia. }
    cbn [length]. replace (S (length r) + f) with (S (length r + f)) by lia.
    destruct (section_run cst (decl_n dc) (length r + f) _ _ _ _ _ _ _ _ t'' H Hty HK Ht1 Hs'' ltac:(lia)) as (s1 & mc1 & last1 & Eq1 & Ty1 & H1).
    rewrite Eq1.
    destruct (IH f _ _ _ _ _ _ _ _ t' H1 Ty1 Ht2 Hs ltac:(lia)) as (s2 & mc2 & last2 & Eq2 & Ty2 & H2).
    exists s2, mc2, last2. split; [exact Eq2|]. split; [exact Ty2|].
    replace (K + length (render_decls (dc :: r))) with (S K + 4 * decl_n dc + length (render_decls r))
      by (cbn [render_decls]; rewrite app_length, render_decl_length; lia).
    eapply (ST_lists []); [exact H2| |].
    + cbn [decl_lines map ll_toks]. rewrite map_app, <- !app_assoc. cbn [app].
      replace (K + 1) with (S K) by lia. replace (S K + 4 * decl_n dc) with (K + 1 + 4 * decl_n dc) by lia. reflexivity.
    + cbn [decl_lines map meta_of ll_parent ll_level ll_type]. rewrite map_app, <- !app_assoc. cbn [app].
      replace (K + 1) with (S K) by lia. replace (S K + 4 * decl_n dc) with (K + 1 + 4 * decl_n dc) by lia. reflexivity.
Qed.

Lemma prog_toks K ss : toks_at K (render_prog ss) ->
  nth_error T K = Some tBegin /\ toks_at (S K) (render ss ++ [tEnd]) /\
  nth_error T (S (S K + length (render ss))) = Some tDot /\ nth_error T (S (S (S K + length (render ss)))) = Some RTT_Eof.
Proof.
  intros H. unfold render_prog in H. split; [exact (toks_at_0 _ _ _ H eq_refl)|].
  assert (H1 : toks_at (S K) (render ss ++ [tEnd; tDot; RTT_Eof])).
  { rewrite <- Nat.add_1_r. apply (toks_at_shift K 1 [tBegin]); [exact H|reflexivity]. }
  split; [|split].
  - apply (toks_at_prefix _ _ [tDot; RTT_Eof]). rewrite <- app_assoc. exact H1.
  - replace (S (S K + length (render ss))) with (S K + S (length (render ss))) by lia. apply H1.
    rewrite nth_error_app2 by lia. replace (S (length (render ss)) - length (render ss)) with 1 by lia. reflexivity.
  - replace (S (S (S K + length (render ss)))) with (S K + S (S (length (render ss)))) by lia. apply H1.
    rewrite nth_error_app2 by lia. replace (S (S (length (render ss))) - length (render ss)) with 2 by lia. reflexivity.
Qed.
Lemma decl_lines_toks_length K ds : length (map ll_toks (decl_lines K ds)) = length (decl_lines K ds).
Proof. apply map_length. Qed.
(* a unit: the sections, then the main block *)
Theorem unit_run ds ss f s0 mc0 last0 lv a :
  wf ss = true -> ST [] s0 0 [] [] [] mc0 last0 [] lv a ->
  toks_at 0 (render_unit ds ss) -> n = length (render_unit ds ss) ->
  dneed ds + 7 <= f -> 8 + need ss <= f ->
  exists mc' last',
    ST [] (RUN (S (S (S (length ds + f)))) C_top s0) n (map ll_toks (pexpected_unit ds ss)) []
       (map meta_of (pexpected_unit ds ss)) mc' last' [] lv a.
Proof.
  intros Hwf H Ht Hn Hfd Hfs.
  rewrite (top_head (length ds + f) s0 (ST_err (@nil nat) _ _ _ _ _ _ _ _ _ _ H)).
  pose proof (finish_empty_ST (@nil nat) _ _ _ _ _ _ _ _ _ H) as H0.
  pose proof (push_ctx_ST (@nil nat) cTop _ _ _ _ _ _ _ _ _ _ H0) as H1.
  unfold render_unit in Ht.
  assert (Htp : toks_at (length (render_decls ds)) (render_prog ss)) by exact (toks_at_shift 0 _ _ _ Ht eq_refl).
  destruct (prog_toks _ _ Htp) as (Ht0 & Htb & HtD & HtE).
  assert (Htd : toks_at 0 (render_decls ds ++ [tBegin])).
  { apply (toks_at_prefix _ _ (render ss ++ [tEnd; tDot; RTT_Eof])). rewrite <- app_assoc. exact Ht. }
  destruct (decls_run ds f _ 0 [] [] _ _ _ _ tBegin H1 eq_refl Htd eq_refl Hfd) as (s2 & mc2 & last2 & Eq2 & Ty2 & H2).
  rewrite Eq2. cbn [app Nat.add] in H2.
  destruct (main_core ss f _ _ _ _ _ _ _ _ Hwf H2 Ty2 Ht0 Htb HtD HtE Hfs) as (last3 & H9).
  cbv zeta in H9.
  destruct (top_tail_run (S (length ds + f)) _ _ _ _ _ _ _ _ H9 HtE
              ltac:(rewrite Hn; unfold render_unit; rewrite app_length; unfold render_prog; cbn [length]; rewrite app_length; cbn [length]; lia)) as (mc' & last' & H15).
  exists mc', last'. eapply (ST_lists []); [exact H15| |].
  - unfold pexpected_unit, main_lines. cbv zeta. rewrite map_length. rewrite !map_app. cbn [map ll_toks]. rewrite map_app. cbn [map ll_toks].
    rewrite <- !app_assoc. cbn [app]. rewrite <- !app_assoc. cbn [app]. rewrite !Nat.add_1_r.
    replace (S (length (render_decls ds)) + length (render ss) + 2) with (S (S (S (length (render_decls ds)) + length (render ss)))) by lia.
    reflexivity.
  - unfold pexpected_unit, main_lines. cbv zeta. rewrite map_length. rewrite !map_app. cbn [map meta_of ll_parent ll_level ll_type]. rewrite map_app.
    cbn [map meta_of ll_parent ll_level ll_type].
    rewrite <- !app_assoc. cbn [app]. rewrite <- !app_assoc. cbn [app]. rewrite !Nat.add_1_r. reflexivity.
Qed.



(* ================================================================== *)
(* declaration sections in front of the main block: `var` (x : T ;)*, `const` (c = d ;)* *)
(* re-typing the current token and consuming it *)
(* take_until no_more_separators in front of one `;` that does not end a context: the `;` is consumed *)

(* re-typing that does not apply to the current token *)
Lemma upd_cur_none stk g s k L c M mc last cx lv a t :
  ST stk s k L c M mc last cx lv a -> nth_error T k = Some t -> g t = None -> upd_cur pass g s = s.
Proof.
  intros H Hk Hg. assert (Hkn : k < n) by (apply nth_error_Some; congruence).
  unfold upd_cur, idx0. rewrite (ST_cur_index stk _ _ _ _ _ _ _ _ _ _ H Hkn). unfold tt_at.
  rewrite (ST_toks stk _ _ _ _ _ _ _ _ _ _ H), (mix_nth_ge k k (le_n k)), Hk.
  destruct t; try reflexivity; cbn [bind]; rewrite (mix_nth_ge k k (le_n k)), Hk; cbn [bind]; rewrite Hg; reflexivity.
Qed.
(* the token in front of the current one *)
Lemma prev_tt_ST stk s k L c M mc last cx lv a t :
  ST stk s (S k) L c M mc last cx lv a -> nth_error T k = Some t -> t <> RTT_Eof -> S k < n -> prev_tt pass s = Some (fin t).
Proof.
  intros H Ht HnE Hk. unfold prev_tt, idx_prev. rewrite (ST_pidx stk _ _ _ _ _ _ _ _ _ _ H), seq_length.
  rewrite (proj2 (Nat.ltb_lt _ _) Hk).
  assert (Fs : firstn (S k) (seq 0 (length T)) = seq 0 k ++ [k]).
  { assert (E : seq 0 (length T) = seq 0 (S k) ++ seq (S k) (length T - S k)) by (rewrite <- seq_app; f_equal; lia).
    rewrite E, firstn_app, seq_length, Nat.sub_diag, firstn_all2 by (rewrite seq_length; lia). rewrite firstn_O, app_nil_r.
    rewrite seq_S. reflexivity. }
  rewrite Fs, rev_app_distr. cbn [rev app find]. unfold filt_at, tt_at.
  rewrite (ST_toks stk _ _ _ _ _ _ _ _ _ _ H), (mix_nth_lt (S k) k (Nat.lt_succ_diag_r k)), Ht. cbn [option_map].
  pose proof (fin_plain _ (plain_nth _ _ Ht)) as P.
  assert (F : tok_filter (fin t) = true).
  { pose proof (plain_nth _ _ Ht) as P0. destruct t as [o| |k0|k0| | | | | | |]; try reflexivity; try contradiction.
    - destruct o; try reflexivity; try contradiction. match goal with e : EqKind |- _ => destruct e; reflexivity end.
    - destruct k0; try reflexivity; contradiction.
    - destruct k0; try reflexivity; try contradiction; match goal with d : DeclKind |- _ => destruct d; reflexivity end. }
  rewrite F. cbn [bind]. rewrite (mix_nth_lt (S k) k (Nat.lt_succ_diag_r k)), Ht. reflexivity.
Qed.
Lemma prev_plain stk s k L c M mc last cx lv a t : ST stk s k L c M mc last cx lv a -> prev_tt pass s = Some t -> plain t.
Proof.
  intros H Hp. unfold prev_tt in Hp. destruct (idx_prev pass s) as [i|]; [|discriminate]. cbn [bind] in Hp. unfold tt_at in Hp.
  rewrite (ST_toks stk _ _ _ _ _ _ _ _ _ _ H) in Hp. exact (proj1 (Forall_forall _ _) (mix_plain k) t (nth_error_In _ _ Hp)).
Qed.

(* ---------------- the contexts of declarations *)
Definition cType : pctx := ctx CT_TypeBlock true P_declaration_section (ParserGrammar.L 1).
Definition cTD : pctx := ctx CT_TypeDeclaration true P_end (ParserGrammar.L 0).
Definition cVis : pctx := ctx CT_VisibilityBlock true P_visibility_block_ending (ParserGrammar.L 1).
Definition Xt : list (pctx * bool) := [(cType, false); (cTop, false)].
(* the keywords that start a section or the main block *)
Definition is_sect2 (t : RawTokenType) : bool :=
  match t with RTT_Keyword (KK_Var _ | KK_Const _ | KK_Type | KK_Begin) => true | _ => false end.
Lemma is_sect2_ne t : is_sect2 t = true -> t <> RTT_Eof /\ t <> tSemi /\ t <> RTT_Keyword KK_Class.
Proof. intros H. repeat split; intros ->; discriminate. Qed.
Lemma ST_cur_some stk s k L c M mc last cx lv a t :
  ST stk s k L c M mc last cx lv a -> nth_error T k = Some t -> t <> RTT_Eof -> cur_tt pass s = Some t.
Proof. intros H Ht HnE. rewrite (ST_cur_tt stk _ _ _ _ _ _ _ _ _ _ _ H Ht). destruct t; try reflexivity. contradiction HnE; reflexivity. Qed.
(* a declaration or type block: ended by a section keyword, by nothing else of the fragment *)
Definition dtop (x : pctx) : Prop := x = cDecl \/ x = cType.
Lemma ending_D stk s k L c M mc last x r lv a t :
  ST stk s k L c M mc last ((x, false) :: r) lv a -> dtop x -> nth_error T k = Some t ->
  (is_sect2 t = true \/ t = tI \/ t = tColon \/ t = tEq \/ t = tSemi \/ t = tRecord) ->
  ending_ctx pass s = if is_sect2 t then Some 1 else None.
Proof.
  intros H Hx Ht Hc. unfold ending_ctx. rewrite (ST_ctx stk _ _ _ _ _ _ _ _ _ _ H).
  assert (Ep : eval_pred pass (c_pred x) s = declaration_section pass s /\ c_opaque x = true) by (destruct Hx as [-> | ->]; split; reflexivity).
  cbn [ending_go]. destruct Ep as [-> ->].
  assert (HnE : t <> RTT_Eof /\ t <> RTT_Keyword KK_Class) by (destruct Hc as [Hc|[->|[->|[->|[->| ->]]]]]; split; try discriminate; intros ->; discriminate).
  rewrite (declsec_eq s t (ST_cur_some stk _ _ _ _ _ _ _ _ _ _ _ H Ht (proj1 HnE)) (proj2 HnE)).
  destruct Hc as [Hc|[->|[->|[->|[->| ->]]]]]; try reflexivity.
  destruct t as [o| |k0|k0| | | | | | |]; try discriminate. destruct k0; try discriminate; reflexivity.
Qed.
(* a visibility block: ended by a visibility keyword or `end` *)
Definition is_vend (t : RawTokenType) : bool :=
  match t with RTT_IdentifierOrKeyword (KK_Private | KK_Public) | RTT_Keyword KK_End => true | _ => false end.
Lemma is_vend_cases t : plain t -> is_vend t = true -> t = tPrivate \/ t = tPublic \/ t = tEnd.
Proof.
  intros P H. destruct t as [o| |k0|k0| | | | | | |]; try discriminate; destruct k0; try discriminate; try contradiction; auto.
Qed.
Lemma ending_V stk s k L c M mc last r lv a t :
  ST stk s k L c M mc last ((cVis, false) :: r) lv a -> nth_error T k = Some t ->
  (is_vend t = true \/ t = tI \/ t = tColon \/ t = tSemi) ->
  ending_ctx pass s = if is_vend t then Some 1 else None.
Proof.
  intros H Ht Hc. unfold ending_ctx. rewrite (ST_ctx stk _ _ _ _ _ _ _ _ _ _ H).
  cbn [ending_go cVis ctx c_pred c_opaque eval_pred]. unfold visibility_specifier, cur_kk.
  assert (HnE : t <> RTT_Eof) by (destruct Hc as [Hc|[->|[->| ->]]]; try discriminate; intros ->; discriminate).
  rewrite (ST_cur_some stk _ _ _ _ _ _ _ _ _ _ _ H Ht HnE).
  destruct Hc as [Hc|[->|[->| ->]]]; try reflexivity.
  destruct (is_vend_cases t (plain_nth _ _ Ht) Hc) as [->|[->| ->]]; reflexivity.
Qed.
(* the contexts in which members `Identifier : Identifier ;` / `Identifier = Identifier ;` are read *)
Definition mtop (x : pctx) : Prop := x = cDecl \/ x = cVis.
Lemma ending_M stk s k L c M mc last x r lv a t :
  ST stk s k L c M mc last ((x, false) :: r) lv a -> mtop x -> nth_error T k = Some t ->
  (t = tI \/ t = tColon \/ t = tEq /\ x = cDecl \/ t = tSemi) -> ending_ctx pass s = None.
Proof.
  intros H [-> | ->] Ht Hc.
  - rewrite (ending_D stk _ _ _ _ _ _ _ _ _ _ _ _ H (or_introl eq_refl) Ht); destruct Hc as [->|[->|[[-> _]| ->]]]; try reflexivity; auto 7.
  - destruct Hc as [->|[->|[[_ Hx]| ->]]]; try discriminate;
      rewrite (ending_V stk _ _ _ _ _ _ _ _ _ _ _ H Ht); try reflexivity; auto.
Qed.
Lemma mtop_ctype stk s k L c M mc last x r lv a : ST stk s k L c M mc last ((x, false) :: r) lv a -> mtop x ->
  last_ctype pass s = Some (c_type x) /\ (c_type x = CT_DeclarationBlock \/ c_type x = CT_VisibilityBlock).
Proof. intros H Hx. unfold last_ctype. rewrite (last_ctx_ST stk _ _ _ _ _ _ _ _ _ _ _ _ H). split; [reflexivity|]. destruct Hx as [-> | ->]; auto. Qed.

(* the name that starts a member: the line becomes a Declaration line *)
Lemma gdecl_name stk f s k L M mc last x r lv a :
  ST stk s k L [] M mc last ((x, false) :: r) lv a -> mtop x -> nth_error T k = Some tI ->
  RUN (S f) C_statement s = RUN f C_statement (next_token pass (set_line_type pass LLT_Declaration s)).
Proof.
  intros H Hx Hk. pose proof (ending_M stk _ _ _ _ _ _ _ _ _ _ _ _ H Hx Hk ltac:(left; reflexivity)) as E0.
  rewrite (run_S _ C_statement _ (ST_err stk _ _ _ _ _ _ _ _ _ _ H)).
  unfold arm_statement. rewrite (ST_cur_tt stk _ _ _ _ _ _ _ _ _ _ _ H Hk). cbn [tI].
  assert (Pr : statement_prelude pass s = (set_line_type pass LLT_Declaration s, true)).
  { unfold statement_prelude. rewrite (last_ctx_ST stk _ _ _ _ _ _ _ _ _ _ _ _ H), E0, (ST_at_start stk _ _ _ _ _ _ _ _ _ _ H).
    destruct Hx as [-> | ->]; reflexivity. }
  rewrite Pr. cbn [negb starm_of tI].
  pose proof (set_line_type_ST stk LLT_Declaration _ _ _ _ _ _ _ _ _ _ H) as H0.
  unfold st_label_cand, label_or_other.
  assert (Lx : is_label_ctx_excluded pass (set_line_type pass LLT_Declaration s) = true).
  { unfold is_label_ctx_excluded. destruct (mtop_ctype stk _ _ _ _ _ _ _ _ _ _ _ H0 Hx) as [-> [-> | ->]]; reflexivity. }
  rewrite Lx, andb_false_r. reflexivity.
Qed.
Lemma gdecl_ident stk f s k L c M mc last x r lv a :
  ST stk s k L c M mc last ((x, false) :: r) lv a -> mtop x -> c <> [] -> nth_error T k = Some tI ->
  RUN (S f) C_statement s = RUN f C_statement (next_token pass s).
Proof.
  intros H Hx Hc Hk. pose proof (ending_M stk _ _ _ _ _ _ _ _ _ _ _ _ H Hx Hk ltac:(left; reflexivity)) as E0.
  rewrite (run_S _ C_statement _ (ST_err stk _ _ _ _ _ _ _ _ _ _ H)).
  unfold arm_statement. rewrite (ST_cur_tt stk _ _ _ _ _ _ _ _ _ _ _ H Hk). cbn [tI].
  rewrite (prelude_ns stk _ _ _ _ _ _ _ _ _ _ _ _ H E0 Hc). cbn [negb starm_of tI].
  unfold st_label_cand, label_or_other.
  rewrite (ST_at_start stk _ _ _ _ _ _ _ _ _ _ H). destruct c; [contradiction|reflexivity].
Qed.
Lemma gdecl_colon stk f s k L c M mc last x r lv a :
  ST stk s k L c M mc last ((x, false) :: r) lv a -> mtop x -> c <> [] -> lm_type mc = LLT_Declaration ->
  nth_error T k = Some tColon -> nth_error T (S k) = Some tI ->
  RUN (S f) C_statement s = RUN f C_statement (next_token pass s).
Proof.
  intros H Hx Hc Hty Hk Hk1. pose proof (ending_M stk _ _ _ _ _ _ _ _ _ _ _ _ H Hx Hk ltac:(right; left; reflexivity)) as E0.
  rewrite (run_S _ C_statement _ (ST_err stk _ _ _ _ _ _ _ _ _ _ H)).
  unfold arm_statement. rewrite (ST_cur_tt stk _ _ _ _ _ _ _ _ _ _ _ H Hk). cbn [tColon].
  rewrite (prelude_ns stk _ _ _ _ _ _ _ _ _ _ _ _ H E0 Hc). cbn [negb starm_of tColon].
  unfold st_colon.
  assert (LP : line_parent_of_current pass s = Some (length L, k)).
  { unfold line_parent_of_current. rewrite (ST_cur_index stk _ _ _ _ _ _ _ _ _ _ H ltac:(apply nth_error_Some; congruence)), (ST_cur_ref stk _ _ _ _ _ _ _ _ _ _ H). reflexivity. }
  rewrite LP.
  pose proof (next_token_ST stk _ _ _ _ _ _ _ _ _ _ H ltac:(exists tColon; split; [exact Hk|reflexivity])) as H2.
  rewrite (ST_cur_type stk _ _ _ _ _ _ _ _ _ _ H2), Hty. cbn [llt_is LogicalLineType_eqb LogicalLineType_idx Nat.eqb].
  rewrite (ST_cur_tt stk _ _ _ _ _ _ _ _ _ _ _ H2 Hk1). cbn [tI]. unfold t_loop.
  rewrite (caret_noop_G _ (toks_plain_G _ _ (ST_toks stk _ _ _ _ _ _ _ _ _ _ H2))).
  destruct (mtop_ctype stk _ _ _ _ _ _ _ _ _ _ _ H2 Hx) as [-> [-> | ->]]; reflexivity.
Qed.
(* the `=` of a constant or of a type: re-typed to a declaration `=`; t2 is the token after it *)
Lemma gdecl_eq stk f s k k0 L M mc last x r lv a t2 :
  ST stk s k L [k0] M mc last ((x, false) :: r) lv a -> dtop x -> k0 < k -> nth_error T k0 = Some tI -> nth_error T k = Some tEq ->
  nth_error T (S k) = Some t2 -> (t2 = tI \/ t2 = tRecord \/ t2 = tClass) ->
  exists s', RUN (S f) C_statement s = RUN f C_statement s' /\ ST stk s' (S k) L [k0; k] M mc last ((x, false) :: r) lv a.
Proof.
  intros H Hx Hlt Hk0 Hk Hk2 Ht2.
  pose proof (ending_D stk _ _ _ _ _ _ _ _ _ _ _ _ H Hx Hk ltac:(right; right; right; left; reflexivity)) as E0. cbn [is_sect2 tEq] in E0.
  rewrite (run_S _ C_statement _ (ST_err stk _ _ _ _ _ _ _ _ _ _ H)).
  unfold arm_statement. rewrite (ST_cur_tt stk _ _ _ _ _ _ _ _ _ _ _ H Hk). cbn [tEq].
  rewrite (prelude_ns stk _ _ _ _ _ _ _ _ _ _ _ _ H E0 ltac:(discriminate)). cbn [negb starm_of].
  unfold st_equal.
  assert (LC : forall s1 k1 L1 c1 M1 mc1 last1, ST stk s1 k1 L1 c1 M1 mc1 last1 ((x, false) :: r) lv a -> last_ctype pass s1 = Some (c_type x)).
  { intros s1 k1 L1 c1 M1 mc1 last1 H1. unfold last_ctype. rewrite (last_ctx_ST stk _ _ _ _ _ _ _ _ _ _ _ _ H1). reflexivity. }
  rewrite (LC _ _ _ _ _ _ _ H).
  assert (CL : cur_line_tts pass s = [tI]).
  { unfold cur_line_tts. rewrite (ST_cur_toks stk _ _ _ _ _ _ _ _ _ _ H). cbn [flat_map]. unfold tt_at.
    rewrite (ST_toks stk _ _ _ _ _ _ _ _ _ _ H), (mix_nth_lt k k0 Hlt), Hk0. reflexivity. }
  rewrite CL. cbn [existsb tI negb andb orb].
  destruct (upd_cur_next_ST stk (fun _ => Some (RTT_Op (OK_Equal EK_Decl))) _ _ _ _ _ _ _ _ _ _ tEq H Hk ltac:(discriminate) eq_refl) as [Eu H2].
  cbn [app] in H2. unfold set_current_token_type.
  assert (B : match c_type x with CT_DeclarationBlock | CT_TypeBlock | CT_Statement _ => true | _ => false end = true) by (destruct Hx as [-> | ->]; reflexivity).
  rewrite B. cbn [andb].
  rewrite (LC _ _ _ _ _ _ _ H2). unfold t_loop. eexists. split; [|exact H2].
  destruct Hx as [-> | ->]; [reflexivity|]. cbn [cType ctx c_type].
  rewrite (ST_cur_tt stk _ _ _ _ _ _ _ _ _ _ _ H2 Hk2). destruct Ht2 as [->|[-> | ->]]; reflexivity.
Qed.
Lemma gdecl_semi stk f s k L c M mc last x r lv a t' :
  ST stk s k L c M mc last ((x, false) :: r) lv a -> mtop x -> c <> [] -> nth_error T k = Some tSemi -> nth_error T (S k) = Some t' -> t' <> tSemi ->
  RUN (S f) C_statement s = finish_logical_line pass (next_token pass s).
Proof.
  intros H Hx Hc Hk Hk1 Hne. pose proof (ending_M stk _ _ _ _ _ _ _ _ _ _ _ _ H Hx Hk ltac:(right; right; right; reflexivity)) as E0.
  rewrite (run_S _ C_statement _ (ST_err stk _ _ _ _ _ _ _ _ _ _ H)).
  unfold arm_statement. rewrite (ST_cur_tt stk _ _ _ _ _ _ _ _ _ _ _ H Hk). cbn [tSemi].
  rewrite (prelude_ns stk _ _ _ _ _ _ _ _ _ _ _ _ H E0 Hc). cbn [negb starm_of].
  unfold st_semicolon. rewrite (take_until_semi stk _ _ _ _ _ _ _ _ _ _ _ H Hk Hk1 Hne E0). reflexivity.
Qed.
(* one member `Identifier : Identifier ;` or (in a const section) `Identifier = Identifier ;` *)
Lemma gmember_run (cst : bool) stk f s k L M mc last x r lv a t' :
  ST stk s k L [] M mc last ((x, false) :: r) lv a -> mtop x -> (cst = true -> x = cDecl) ->
  nth_error T k = Some tI -> nth_error T (S k) = Some (if cst then tEq else tColon) -> nth_error T (S (S k)) = Some tI ->
  nth_error T (S (S (S k))) = Some tSemi -> nth_error T (S (S (S (S k)))) = Some t' -> t' <> tSemi -> 4 <= f ->
  ST stk (RUN f C_statement s) (S (S (S (S k)))) (L ++ [[k; S k; S (S k); S (S (S k))]]) []
     (M ++ [mkLM (first_parent ((x, false) :: r)) (clamp_u16 (plain_sum ((x, false) :: r))) LLT_Declaration])
     (mkLM None (clamp_u16 (plain_sum ((x, false) :: r))) LLT_Unknown) (length L) ((x, false) :: r) lv a.
Proof.
  intros H Hx Hcx Hk Hk1 Hk2 Hk3 Hk4 Hne Hf. destruct f as [|[|[|[|f]]]]; try lia.
  assert (Hkn : tokfin k) by tokfin_tac. assert (Hkn2 : tokfin (S (S k))) by tokfin_tac.
  rewrite (gdecl_name stk _ _ _ _ _ _ _ _ _ _ _ H Hx Hk).
  pose proof (set_line_type_ST stk LLT_Declaration _ _ _ _ _ _ _ _ _ _ H) as H0.
  pose proof (next_token_ST stk _ _ _ _ _ _ _ _ _ _ H0 Hkn) as H1. cbn [app] in H1.
  assert (S2 : exists s2, RUN (S (S (S f))) C_statement (next_token pass (set_line_type pass LLT_Declaration s)) = RUN (S (S f)) C_statement s2 /\
               ST stk s2 (S (S k)) L [k; S k] M (mkLM (lm_parent mc) (lm_level mc) LLT_Declaration) last ((x, false) :: r) lv a).
  { destruct cst.
    - rewrite (Hcx eq_refl) in *. exact (gdecl_eq stk _ _ _ _ _ _ _ _ _ _ _ _ tI H1 (or_introl eq_refl) (Nat.lt_succ_diag_r k) Hk Hk1 Hk2 (or_introl eq_refl)).
    - eexists. split; [exact (gdecl_colon stk _ _ _ _ _ _ _ _ _ _ _ _ H1 Hx ltac:(discriminate) eq_refl Hk1 Hk2)|].
      exact (next_token_ST stk _ _ _ _ _ _ _ _ _ _ H1 ltac:(exists tColon; split; [exact Hk1|reflexivity])). }
  destruct S2 as (s2 & -> & H2).
  rewrite (gdecl_ident stk _ _ _ _ _ _ _ _ _ _ _ _ H2 Hx ltac:(discriminate) Hk2).
  pose proof (next_token_ST stk _ _ _ _ _ _ _ _ _ _ H2 Hkn2) as H3. cbn [app] in H3.
  rewrite (gdecl_semi stk _ _ _ _ _ _ _ _ _ _ _ _ _ H3 Hx ltac:(discriminate) Hk3 Hk4 Hne).
  pose proof (next_token_ST stk _ _ _ _ _ _ _ _ _ _ H3 (tokfin_semi _ Hk3)) as H4. cbn [app] in H4.
  exact (finish_ST stk _ _ _ _ _ _ _ _ _ _ H4 ltac:(discriminate)).
Qed.

(* the token t' ends the context on top of X *)
Definition ends_at (X : list (pctx * bool)) (t' : RawTokenType) : Prop :=
  t' <> RTT_Eof /\ t' <> tSemi /\
  forall stk s k L c M mc last lv a, ST stk s k L c M mc last X lv a -> nth_error T k = Some t' -> ending_ctx pass s = Some 1.
Lemma ends_D x r t' : dtop x -> is_sect2 t' = true -> ends_at ((x, false) :: r) t'.
Proof.
  intros Hx Hs. destruct (is_sect2_ne _ Hs) as (H1 & H2 & _). split; [exact H1|]. split; [exact H2|].
  intros stk s k L c M mc last lv a H Hk. rewrite (ending_D stk _ _ _ _ _ _ _ _ _ _ _ _ H Hx Hk (or_introl Hs)), Hs. reflexivity.
Qed.
Lemma ends_V r t' : is_vend t' = true -> ends_at ((cVis, false) :: r) t'.
Proof.
  intros Hs. split; [intros ->; discriminate|]. split; [intros ->; discriminate|].
  intros stk s k L c M mc last lv a H Hk. rewrite (ending_V stk _ _ _ _ _ _ _ _ _ _ _ H Hk (or_introl Hs)), Hs. reflexivity.
Qed.
(* the members of one block, up to the token that ends it *)
Lemma gmembers_run (cst : bool) stk n : forall f s k L M mc last x r lv a t',
  ST stk s k L [] M mc last ((x, false) :: r) lv a -> mtop x -> (cst = true -> x = cDecl) -> lm_type mc = LLT_Unknown ->
  first_parent ((x, false) :: r) = None ->
  toks_at k (render_members [tI; (if cst then tEq else tColon); tI; tSemi] n ++ [t']) -> ends_at ((x, false) :: r) t' -> n + 5 <= f ->
  exists mc' last', lm_type mc' = LLT_Unknown /\
  ST stk (RUN f C_structures s) (k + 4 * n) (L ++ map ll_toks (member_lines_at (clamp_u16 (plain_sum ((x, false) :: r))) k n)) []
     (M ++ map meta_of (member_lines_at (clamp_u16 (plain_sum ((x, false) :: r))) k n)) mc' last' (mark_ended 1 ((x, false) :: r)) lv a.
Proof.
  induction n as [|n IH]; intros f s k L M mc last x r lv a t' H Hx Hcx Hty Hfp Ht Hs Hf.
  - destruct f as [|f]; [lia|]. cbn [render_members app] in Ht. pose proof (toks_at_0 _ _ _ Ht eq_refl) as Hk.
    destruct Hs as (HnE & _ & Hs).
    rewrite (structures_stop stk _ _ _ _ _ _ _ _ _ _ _ _ _ H Hk HnE (Hs _ _ _ _ _ _ _ _ _ _ H Hk)).
    cbn [member_lines_at map Nat.mul]. rewrite !app_nil_r, Nat.add_0_r.
    exists mc, last. split; [exact Hty|]. exact (update_statuses_ST stk 1 _ _ _ _ _ _ _ _ _ _ H).
  - destruct f as [|f]; [lia|]. cbn [render_members] in Ht.
    assert (Hk : nth_error T k = Some tI) by exact (toks_at_0 _ _ _ Ht eq_refl).
    assert (Hk1 : nth_error T (S k) = Some (if cst then tEq else tColon)) by (rewrite <- Nat.add_1_r; exact (Ht 1 _ eq_refl)).
    assert (Hk2 : nth_error T (S (S k)) = Some tI) by (replace (S (S k)) with (k + 2) by lia; exact (Ht 2 _ eq_refl)).
    assert (Hk3 : nth_error T (S (S (S k))) = Some tSemi) by (replace (S (S (S k))) with (k + 3) by lia; exact (Ht 3 _ eq_refl)).
    assert (Hk4 : exists t4, nth_error T (S (S (S (S k)))) = Some t4 /\ t4 <> tSemi).
    { replace (S (S (S (S k)))) with (k + 4) by lia. destruct n as [|n'].
      - exists t'. split; [exact (Ht 4 _ eq_refl)|exact (proj1 (proj2 Hs))].
      - exists tI. split; [exact (Ht 4 _ eq_refl)|discriminate]. }
    destruct Hk4 as (t4 & Hk4 & Hne4).
    pose proof (ending_M stk _ _ _ _ _ _ _ _ _ _ _ _ H Hx Hk ltac:(left; reflexivity)) as E0.
    rewrite (structures_ident stk _ _ _ _ _ _ _ _ _ _ _ H Hk E0).
    pose proof (gmember_run cst stk f _ _ _ _ _ _ _ _ _ _ _ H Hx Hcx Hk Hk1 Hk2 Hk3 Hk4 Hne4 ltac:(lia)) as H1.
    rewrite Hfp in H1.
    assert (Ht' : toks_at (k + 4) (render_members [tI; (if cst then tEq else tColon); tI; tSemi] n ++ [t'])).
    { apply (toks_at_shift k 4 [tI; (if cst then tEq else tColon); tI; tSemi]); [exact Ht|reflexivity]. }
    replace (S (S (S (S k)))) with (k + 4) in H1 by lia.
    destruct (IH f _ _ _ _ _ _ _ _ _ _ t' H1 Hx Hcx eq_refl Hfp Ht' Hs ltac:(lia)) as (mc' & last' & Ty' & H2).
    exists mc', last'. split; [exact Ty'|].
    cbn [member_lines_at map ll_toks meta_of ll_parent ll_level ll_type].
    replace (k + 4 * S n) with (k + 4 + 4 * n) by lia.
    replace (k + 1) with (S k) by lia. replace (k + 2) with (S (S k)) by lia. replace (k + 3) with (S (S (S k))) by lia.
    rewrite <- !app_assoc in H2. cbn [app] in H2. exact H2.
Qed.

(* ---------------- type sections: `Identifier = record|class ... end ;` *)
Definition Xc : list (pctx * bool) := (cTD, false) :: Xt.
Definition Xv : list (pctx * bool) := (cVis, false) :: Xc.
(* the name of a type *)
Lemma tdef_name stk f s k L M mc last lv a :
  ST stk s k L [] M mc last Xt lv a -> nth_error T k = Some tI -> nth_error T (S k) = Some tEq ->
  RUN (S f) C_statement s = RUN f C_statement (next_token pass (set_line_type pass LLT_Declaration s)).
Proof.
  intros H Hk Hk1.
  pose proof (ending_D stk _ _ _ _ _ _ _ _ _ _ _ _ H (or_intror eq_refl) Hk ltac:(right; left; reflexivity)) as E0. cbn [is_sect2 tI] in E0.
  rewrite (run_S _ C_statement _ (ST_err stk _ _ _ _ _ _ _ _ _ _ H)).
  unfold arm_statement. rewrite (ST_cur_tt stk _ _ _ _ _ _ _ _ _ _ _ H Hk). cbn [tI].
  assert (Pr : statement_prelude pass s = (set_line_type pass LLT_Declaration s, true)).
  { unfold statement_prelude. rewrite (last_ctx_ST stk _ _ _ _ _ _ _ _ _ _ _ _ H), E0, (ST_at_start stk _ _ _ _ _ _ _ _ _ _ H). reflexivity. }
  rewrite Pr. cbn [negb starm_of tI].
  pose proof (set_line_type_ST stk LLT_Declaration _ _ _ _ _ _ _ _ _ _ H) as H0.
  unfold st_label_cand, label_or_other.
  rewrite (next_tt_ST stk _ _ _ _ _ _ _ _ _ _ _ H0 Hk1 ltac:(discriminate)). cbn [tEq o_colon]. rewrite andb_false_r. reflexivity.
Qed.
(* `record` / `class` after the `=`: the line of the name is finished and the body is read *)
Lemma tdef_struct stk f s k L c M mc last lv a tk t3 :
  ST stk s (S k) L c M mc last Xt lv a -> c <> [] -> nth_error T k = Some tEq -> nth_error T (S k) = Some tk -> (tk = tRecord \/ tk = tClass) ->
  nth_error T (S (S k)) = Some t3 -> is_body_start t3 ->
  RUN (S f) C_statement s = st_struct_type_body pass (RUN f) (next_token pass s).
Proof.
  intros H Hc Hk0 Hk Htk Hk3 Ht3.
  assert (HnE : tk <> RTT_Eof) by (destruct Htk as [-> | ->]; discriminate).
  assert (Hn : S (S k) < n) by (apply nth_error_Some; congruence).
  assert (E0 : ending_ctx pass s = None).
  { destruct Htk as [-> | ->].
    - rewrite (ending_D stk _ _ _ _ _ _ _ _ _ _ _ _ H (or_intror eq_refl) Hk); [reflexivity|auto 8].
    - unfold ending_ctx. rewrite (ST_ctx stk _ _ _ _ _ _ _ _ _ _ H). cbn [Xt ending_go cType ctx c_pred c_opaque eval_pred].
      unfold declaration_section. rewrite (prev_tt_ST stk _ _ _ _ _ _ _ _ _ _ _ H Hk0 ltac:(discriminate) ltac:(lia)), (ST_cur_tt stk _ _ _ _ _ _ _ _ _ _ _ H Hk).
      reflexivity. }
  rewrite (run_S _ C_statement _ (ST_err stk _ _ _ _ _ _ _ _ _ _ H)).
  unfold arm_statement. rewrite (ST_cur_some stk _ _ _ _ _ _ _ _ _ _ _ H Hk HnE).
  rewrite (prelude_ns stk _ _ _ _ _ _ _ _ _ _ _ _ H E0 Hc). cbn [negb].
  assert (Sa : starm_of tk = ST_struct_type) by (destruct Htk as [-> | ->]; reflexivity). rewrite Sa.
  pose proof (next_token_ST stk _ _ _ _ _ _ _ _ _ _ H ltac:(exists tk; split; [exact Hk|destruct Htk as [-> | ->]; reflexivity])) as H1.
  assert (HnE3 : t3 <> RTT_Eof) by (destruct Ht3 as [->|[->|[->| ->]]]; discriminate).
  pose proof (ST_cur_some stk _ _ _ _ _ _ _ _ _ _ _ H1 Hk3 HnE3) as C1.
  cbv iota. exact (st_struct_type_plain pass _ _ _ C1 Ht3).
Qed.

(* `end ;` after the body of a record or class *)
Lemma o_semicolon_ne t : t <> tSemi -> o_semicolon (Some t) = false.
Proof. intros H. destruct t as [o| | | | | | | | | |]; try reflexivity. destruct o; try reflexivity. contradiction H; reflexivity. Qed.
Lemma tdef_tail stk p s ke L M mc last lv a t' :
  ST stk s ke L [] M mc last Xt lv a -> lm_type mc = LLT_Unknown ->
  nth_error T ke = Some tEnd -> nth_error T (S ke) = Some tSemi -> nth_error T (S (S ke)) = Some t' -> (t' = tI \/ is_sect2 t' = true) ->
  ST stk (finish_logical_line pass (take_until pass (no_more_separators pass)
            (simple_op_until pass (after_semicolon pass) (keyword_consolidator pass p) (next_token pass (finish_logical_line pass s)))))
     (S (S ke)) (L ++ [[ke; S ke]]) [] (M ++ [mkLM None 1%N LLT_Unknown]) (mkLM None 1%N LLT_Unknown) (length L) Xt lv a.
Proof.
  intros H Hty He Hs Ht' Hc.
  assert (Hne : t' <> tSemi /\ t' <> RTT_Eof) by (destruct Hc as [-> | Hc]; [split; discriminate|destruct (is_sect2_ne _ Hc) as (A & B & _); split; assumption]).
  destruct Hne as [Hne HnE].
  assert (Hn : S (S ke) < n) by (apply nth_error_Some; congruence).
  pose proof (finish_empty_ST stk _ _ _ _ _ _ _ _ _ H) as H1.
  pose proof (next_token_ST stk _ _ _ _ _ _ _ _ _ _ H1 ltac:(exists tEnd; split; [exact He|reflexivity])) as H2. cbn [app] in H2.
  pose proof (next_token_ST stk _ _ _ _ _ _ _ _ _ _ H2 (tokfin_semi _ Hs)) as H3. cbn [app] in H3.
  match type of H2 with ST _ ?x _ _ _ _ _ _ _ _ _ => set (s2 := x) in * end.
  assert (E2 : ending_ctx pass s2 = None).
  { rewrite (ending_D stk _ _ _ _ _ _ _ _ _ _ _ _ H2 (or_intror eq_refl) Hs); [reflexivity|auto 8]. }
  assert (Eq : simple_op_until pass (after_semicolon pass) (keyword_consolidator pass p) s2 = next_token pass s2).
  { unfold simple_op_until, op_until.
    assert (Hrem : remaining pass s2 + 2 = S (S (remaining pass s2))) by lia. rewrite Hrem.
    cbn [op_until_go]. rewrite (ST_err stk _ _ _ _ _ _ _ _ _ _ H2), (ST_cur_tt stk _ _ _ _ _ _ _ _ _ _ _ H2 Hs). cbn [tSemi].
    unfold after_semicolon at 1. rewrite (prev_tt_ST stk _ _ _ _ _ _ _ _ _ _ _ H2 He ltac:(discriminate) ltac:(lia)). cbn [fin retype tEnd o_semicolon andb].
    unfold is_ending. rewrite E2.
    unfold keyword_consolidator. rewrite !(ST_cur_tt stk _ _ _ _ _ _ _ _ _ _ _ H2 Hs). cbn [tSemi].
    rewrite (ST_err stk _ _ _ _ _ _ _ _ _ _ H3), (ST_cur_some stk _ _ _ _ _ _ _ _ _ _ _ H3 Ht' HnE).
    unfold after_semicolon. rewrite (prev_tt_ST stk _ _ _ _ _ _ _ _ _ _ _ H3 Hs ltac:(discriminate) Hn).
    rewrite (ST_cur_some stk _ _ _ _ _ _ _ _ _ _ _ H3 Ht' HnE), (o_semicolon_ne _ Hne). reflexivity. }
  rewrite Eq.
  rewrite (take_until_stop _ _ (ST_err stk _ _ _ _ _ _ _ _ _ _ H3)).
  2: { rewrite (ST_cur_some stk _ _ _ _ _ _ _ _ _ _ _ H3 Ht' HnE). discriminate. }
  2: { left. unfold no_more_separators. rewrite (ST_cur_some stk _ _ _ _ _ _ _ _ _ _ _ H3 Ht' HnE), (o_semicolon_ne _ Hne). reflexivity. }
  pose proof (finish_ST stk _ _ _ _ _ _ _ _ _ _ H3 ltac:(discriminate)) as H4. cbn [lm_type] in H4.
  exact H4.
Qed.


(* ---------------- the visibility sections of a class, up to its `end` *)
Fixpoint vneed (vs : list (bool * nat)) : nat := match vs with [] => 0 | (_, j) :: r => Nat.max j (vneed r) end.
Lemma vsecs_head r : exists t'' rest, render_vsecs r ++ [tEnd] = t'' :: rest /\ is_vend t'' = true.
Proof. destruct r as [|[[|] j] r]; cbn [render_vsecs app]; eexists _, _; split; reflexivity. Qed.
Lemma render_fields_length j : length (render_fields j) = 4 * j.
Proof. unfold render_fields. rewrite render_members_length. cbn [length]. lia. Qed.
Lemma prev_not_strict stk s k L c M mc last cx lv a :
  ST stk s k L c M mc last cx lv a ->
  match prev_tt pass s with Some (RTT_IdentifierOrKeyword KK_Strict) => consolidate_prev_keyword pass s | _ => s end = s.
Proof.
  intros H. destruct (prev_tt pass s) as [t|] eqn:Ep; [|reflexivity]. pose proof (prev_plain stk _ _ _ _ _ _ _ _ _ _ _ H Ep) as P.
  destruct t as [o| |k0|k0| | | | | | |]; try reflexivity. destruct k0; try reflexivity; contradiction.
Qed.
Lemma vsecs_run stk vs : forall f s k L M mc last lv a,
  ST stk s k L [] M mc last Xc lv a -> lm_type mc = LLT_Unknown -> toks_at k (render_vsecs vs ++ [tEnd]) ->
  vneed vs + 7 + length vs <= f ->
  exists mc' last', lm_type mc' = LLT_Unknown /\
    ST stk (RUN f C_structures s) (k + length (render_vsecs vs)) (L ++ map ll_toks (vsec_lines k vs)) []
       (M ++ map meta_of (vsec_lines k vs)) mc' last' (mark_ended 1 Xc) lv a.
Proof.
  induction vs as [|[pv j] r IH]; intros f s k L M mc last lv a H Hty Ht Hf.
  - destruct f as [|f]; [lia|]. cbn [render_vsecs app] in Ht. pose proof (toks_at_0 _ _ _ Ht eq_refl) as Hk.
    assert (E : ending_ctx pass s = Some 1).
    { unfold ending_ctx. rewrite (ST_ctx stk _ _ _ _ _ _ _ _ _ _ H). cbn [Xc ending_go cTD ctx c_pred c_opaque eval_pred].
      rewrite (ST_cur_tt stk _ _ _ _ _ _ _ _ _ _ _ H Hk). reflexivity. }
    rewrite (structures_stop stk _ _ _ _ _ _ _ _ _ _ _ _ _ H Hk ltac:(discriminate) E).
    cbn [render_vsecs vsec_lines map length]. rewrite !app_nil_r, Nat.add_0_r.
    exists mc, last. split; [exact Hty|]. exact (update_statuses_ST stk 1 _ _ _ _ _ _ _ _ _ _ H).
  - cbn [vneed length] in Hf. destruct f as [|[|[|f]]]; try lia. cbn [render_vsecs app] in Ht. rewrite <- app_assoc in Ht.
    set (tv := if pv then tPrivate else tPublic) in *.
    assert (Hk : nth_error T k = Some tv) by exact (toks_at_0 _ _ _ Ht eq_refl).
    assert (HnE : tv <> RTT_Eof) by (unfold tv; destruct pv; discriminate).
    destruct (vsecs_head r) as (t'' & rest & Er & Hv'').
    assert (Ht1 : toks_at (S k) (render_members [tI; tColon; tI; tSemi] j ++ [t''])).
    { rewrite <- Nat.add_1_r. apply (toks_at_prefix _ _ rest). rewrite <- app_assoc. cbn [app]. rewrite <- Er.
      apply (toks_at_shift k 1 [tv]); [|reflexivity]. exact Ht. }
    assert (Ht2 : toks_at (S k + 4 * j) (render_vsecs r ++ [tEnd])).
    { replace (S k + 4 * j) with (k + (1 + 4 * j)) by lia.
      apply (toks_at_shift k _ (tv :: render_fields j)); [exact Ht|].
      cbn [length]. rewrite render_fields_length. lia. }
    rewrite (run_S _ C_structures _ (ST_err stk _ _ _ _ _ _ _ _ _ _ H)).
    unfold arm_structures. rewrite (ST_cur_some stk _ _ _ _ _ _ _ _ _ _ _ H Hk HnE).
    assert (E1 : ending_ctx pass s = None).
    { unfold ending_ctx. rewrite (ST_ctx stk _ _ _ _ _ _ _ _ _ _ H). cbn [Xc ending_go cTD ctx c_pred c_opaque eval_pred].
      rewrite (ST_cur_some stk _ _ _ _ _ _ _ _ _ _ _ H Hk HnE). unfold tv. destruct pv; reflexivity. }
    rewrite E1.
    assert (Sa : sarm_of tv = SA_visibility) by (unfold tv; destruct pv; reflexivity). rewrite Sa.
    unfold sa_visibility.
    assert (It : is_in_type_decl pass s = true) by (unfold is_in_type_decl, any_ctype; rewrite (ST_ctx stk _ _ _ _ _ _ _ _ _ _ H); reflexivity).
    rewrite It, (prev_not_strict stk _ _ _ _ _ _ _ _ _ _ H).
    destruct (upd_cur_next_ST stk (fun t => match t with RTT_IdentifierOrKeyword k0 => Some (RTT_Keyword k0) | _ => None end)
                _ _ _ _ _ _ _ _ _ _ _ H Hk HnE ltac:(unfold tv; destruct pv; reflexivity)) as [Eu H2].
    cbn [app] in H2. unfold consolidate_current_keyword.
    pose proof (finish_ST stk _ _ _ _ _ _ _ _ _ _ H2 ltac:(discriminate)) as H3. rewrite Hty in H3.
    change (first_parent Xc) with (@None (nat * nat)) in H3. change (clamp_u16 (plain_sum Xc)) with 1%N in H3.
    change (ctx CT_VisibilityBlock true P_visibility_block_ending (ParserGrammar.L 1)) with cVis.
    rewrite (with_ctx_block f cVis _ (ST_err stk _ _ _ _ _ _ _ _ _ _ H3) eq_refl).
    pose proof (finish_empty_ST stk _ _ _ _ _ _ _ _ _ H3) as H4.
    pose proof (push_ctx_ST stk cVis _ _ _ _ _ _ _ _ _ _ H4) as H5.
    destruct (gmembers_run false stk j f _ _ _ _ _ _ _ _ _ _ t'' H5 (or_intror eq_refl) ltac:(discriminate) eq_refl eq_refl Ht1 (ends_V _ _ Hv'') ltac:(lia))
      as (mc6 & last6 & Ty6 & H6).
    change (clamp_u16 (plain_sum ((cVis, false) :: Xc))) with 2%N in H6.
    pose proof (finish_empty_ST stk _ _ _ _ _ _ _ _ _ H6) as H7.
    change (mark_ended 1 ((cVis, false) :: Xc)) with ((cVis, true) :: Xc) in H7.
    pose proof (pop_ctx_ST stk _ _ _ _ _ _ _ _ _ _ _ H7) as H8.
    unfold s_loop.
    destruct (IH (S (S f)) _ _ _ _ _ _ _ _ H8 eq_refl Ht2 ltac:(lia)) as (mc' & last' & Ty' & H9).
    exists mc', last'. split; [exact Ty'|].
    replace (k + length (render_vsecs ((pv, j) :: r))) with (S k + 4 * j + length (render_vsecs r))
      by (cbn [render_vsecs length]; rewrite app_length, render_fields_length; lia).
    eapply (ST_lists stk); [exact H9| |].
    + cbn [vsec_lines map ll_toks]. rewrite map_app, <- !app_assoc. cbn [app].
      replace (k + 1) with (S k) by lia. replace (S k + 4 * j) with (k + 1 + 4 * j) by lia. reflexivity.
    + cbn [vsec_lines map meta_of ll_parent ll_level ll_type]. rewrite map_app, <- !app_assoc. cbn [app].
      replace (k + 1) with (S k) by lia. replace (S k + 4 * j) with (k + 1 + 4 * j) by lia. reflexivity.
Qed.

(* ---------------- one type definition `Identifier = record|class fields sections end ;` *)
Lemma body_head n0 vs rest : exists t3 rest', render_fields n0 ++ render_vsecs vs ++ tEnd :: rest = t3 :: rest' /\ is_body_start t3.
Proof.
  destruct n0 as [|n0]; [|eexists _, _; split; [reflexivity|left; reflexivity]].
  destruct vs as [|[[|] j] r]; cbn [render_fields render_members render_vsecs app]; eexists _, _; (split; [reflexivity|]); unfold is_body_start; auto.
Qed.
Lemma tbody_run stk tk n0 vs f s k L M mc last lv a t' :
  ST stk s k L [] M mc last Xt lv a -> (tk = tRecord \/ tk = tClass) ->
  toks_at k (tI :: tEq :: tk :: render_fields n0 ++ render_vsecs vs ++ [tEnd; tSemi; t']) -> (t' = tI \/ is_sect2 t' = true) ->
  n0 + 5 <= f -> vneed vs + 7 + length vs <= f ->
  let e := k + 3 + 4 * n0 + length (render_vsecs vs) in
  let bl := member_lines_at 2%N (k + 3) n0 ++ vsec_lines (k + 3 + 4 * n0) vs in
  exists last',
    ST stk (RUN (S (S (S f))) C_statement s) (e + 2) (L ++ [k; k + 1; k + 2] :: map ll_toks bl ++ [[e; e + 1]]) []
       (M ++ mkLM None 1%N LLT_Declaration :: map meta_of bl ++ [mkLM None 1%N LLT_Unknown]) (mkLM None 1%N LLT_Unknown) last' Xt lv a.
Proof.
  intros H Htk Ht Hc Hf1 Hf2 e bl.
  assert (Hk : nth_error T k = Some tI) by exact (toks_at_0 _ _ _ Ht eq_refl).
  assert (Hk1 : nth_error T (S k) = Some tEq) by (rewrite <- Nat.add_1_r; exact (Ht 1 _ eq_refl)).
  assert (Hk2 : nth_error T (S (S k)) = Some tk) by (replace (S (S k)) with (k + 2) by lia; exact (Ht 2 _ eq_refl)).
  assert (Ht3 : toks_at (S (S (S k))) (render_fields n0 ++ render_vsecs vs ++ [tEnd; tSemi; t'])).
  { replace (S (S (S k))) with (k + 3) by lia. apply (toks_at_shift k 3 [tI; tEq; tk]); [exact Ht|reflexivity]. }
  destruct (body_head n0 vs [tSemi; t']) as (t3 & rest3 & E3 & B3).
  assert (Hk3 : nth_error T (S (S (S k))) = Some t3) by (apply (toks_at_0 _ (render_fields n0 ++ render_vsecs vs ++ [tEnd; tSemi; t'])); [exact Ht3|rewrite E3; reflexivity]).
  assert (HnE3 : t3 <> RTT_Eof) by (destruct B3 as [->|[->|[->| ->]]]; discriminate).
  (* the name and the `=` *)
  rewrite (tdef_name stk _ _ _ _ _ _ _ _ _ H Hk Hk1).
  pose proof (set_line_type_ST stk LLT_Declaration _ _ _ _ _ _ _ _ _ _ H) as H0.
  pose proof (next_token_ST stk _ _ _ _ _ _ _ _ _ _ H0 ltac:(exists tI; split; [exact Hk|reflexivity])) as H1. cbn [app] in H1.
  destruct (gdecl_eq stk (S f) _ _ _ _ _ _ _ _ _ _ _ tk H1 (or_intror eq_refl) (Nat.lt_succ_diag_r k) Hk Hk1 Hk2
              ltac:(destruct Htk as [-> | ->]; auto)) as (s2 & Eq2 & H2).
  rewrite Eq2.
  (* record / class *)
  rewrite (tdef_struct stk f _ _ _ _ _ _ _ _ _ tk t3 H2 ltac:(discriminate) Hk1 Hk2 Htk Hk3 B3).
  pose proof (next_token_ST stk _ _ _ _ _ _ _ _ _ _ H2 ltac:(exists tk; split; [exact Hk2|destruct Htk as [-> | ->]; reflexivity])) as H3. cbn [app] in H3.
  unfold st_struct_type_body. cbv zeta.
  pose proof (finish_ST stk _ _ _ _ _ _ _ _ _ _ H3 ltac:(discriminate)) as H4. cbn [lm_type] in H4.
  change (first_parent Xt) with (@None (nat * nat)) in H4. change (clamp_u16 (plain_sum Xt)) with 1%N in H4.
  pose proof (push_ctx_ST stk cTD _ _ _ _ _ _ _ _ _ _ H4) as H5.
  pose proof (push_ctx_ST stk cVis _ _ _ _ _ _ _ _ _ _ H5) as H6.
  change (ctx CT_TypeDeclaration true P_end (ParserGrammar.L 0)) with cTD.
  change (ctx CT_VisibilityBlock true P_visibility_block_ending (ParserGrammar.L 1)) with cVis.
  match type of H6 with ST _ ?x _ _ _ _ _ _ _ _ _ => set (s6 := x) in * end.
  rewrite (ST_cur_some stk _ _ _ _ _ _ _ _ _ _ _ H6 Hk3 HnE3).
  assert (G : match t3 with RTT_Op OK_LBrack => match next_tt pass s6 with Some (RTT_TextLiteral _) => true | _ => false end | _ => false end = false)
    by (destruct B3 as [->|[->|[->| ->]]]; reflexivity).
  rewrite G.
  (* the fields in front of the first visibility keyword *)
  destruct (vsecs_head vs) as (t4 & rest4 & E4 & V4).
  assert (Ht4 : toks_at (S (S (S k))) (render_members [tI; tColon; tI; tSemi] n0 ++ [t4])).
  { apply (toks_at_prefix _ _ (rest4 ++ [tSemi; t'])). rewrite <- app_assoc. cbn [app]. rewrite app_comm_cons, <- E4, <- app_assoc. exact Ht3. }
  destruct (gmembers_run false stk n0 f _ _ _ _ _ _ _ _ _ _ t4 H6 (or_intror eq_refl) ltac:(discriminate) eq_refl eq_refl Ht4 (ends_V _ _ V4) Hf1)
    as (mc7 & last7 & Ty7 & H7).
  change (clamp_u16 (plain_sum ((cVis, false) :: (cTD, false) :: Xt))) with 2%N in H7.
  change (mark_ended 1 ((cVis, false) :: (cTD, false) :: Xt)) with ((cVis, true) :: Xc) in H7.
  pose proof (pop_ctx_ST stk _ _ _ _ _ _ _ _ _ _ _ H7) as H8.
  (* the visibility sections *)
  assert (Ht5 : toks_at (S (S (S k)) + 4 * n0) (render_vsecs vs ++ [tEnd])).
  { apply (toks_at_prefix _ _ [tSemi; t']). rewrite <- app_assoc. cbn [app].
    apply (toks_at_shift _ _ (render_fields n0)); [exact Ht3|apply render_fields_length]. }
  destruct (vsecs_run stk vs f _ _ _ _ _ _ _ _ H8 Ty7 Ht5 Hf2) as (mc9 & last9 & Ty9 & H9).
  change (mark_ended 1 Xc) with ((cTD, true) :: Xt) in H9.
  pose proof (pop_ctx_ST stk _ _ _ _ _ _ _ _ _ _ _ H9) as H10.
  (* `end ;` *)
  assert (He : toks_at (S (S (S k)) + 4 * n0 + length (render_vsecs vs)) [tEnd; tSemi; t']).
  { apply (toks_at_shift _ _ (render_vsecs vs)); [|reflexivity].
    apply (toks_at_shift _ _ (render_fields n0)); [exact Ht3|apply render_fields_length]. }
  replace (S (S (S k)) + 4 * n0 + length (render_vsecs vs)) with e in * by (unfold e; lia).
  assert (He0 : nth_error T e = Some tEnd) by exact (toks_at_0 _ _ _ He eq_refl).
  assert (He1 : nth_error T (S e) = Some tSemi) by (rewrite <- Nat.add_1_r; exact (He 1 _ eq_refl)).
  assert (He2 : nth_error T (S (S e)) = Some t') by (replace (S (S e)) with (e + 2) by lia; exact (He 2 _ eq_refl)).
  pose proof (fun p => tdef_tail stk p _ _ _ _ _ _ _ _ t' H10 Ty9 He0 He1 He2 Hc) as H11.
  eexists. replace (e + 2) with (S (S e)) by lia. eapply (ST_lists stk); [exact (H11 _)| |].
  - unfold bl. rewrite map_app, <- !app_assoc. cbn [app]. rewrite <- ?app_assoc. cbn [app].
    replace (k + 1) with (S k) by lia. replace (k + 2) with (S (S k)) by lia. replace (k + 3) with (S (S (S k))) by lia.
    replace (e + 1) with (S e) by lia. reflexivity.
  - unfold bl. rewrite map_app, <- !app_assoc. cbn [app]. rewrite <- ?app_assoc. cbn [app].
    replace (k + 3) with (S (S (S k))) by lia. reflexivity.
Qed.

(* ---------------- the type definitions of a `type` section *)
Definition tneed (td : tdef) : nat :=
  match td with TRec j => j + 7 | TCls n0 vs => Nat.max (n0 + 5) (vneed vs + 7 + length vs) end.
Fixpoint tsneed (ts : list tdef) : nat := match ts with [] => 0 | td :: r => Nat.max (tneed td + 3) (tsneed r) end.
Lemma tdef_run stk td f s k L M mc last lv a t' :
  ST stk s k L [] M mc last Xt lv a -> toks_at k (render_tdef td ++ [t']) -> (t' = tI \/ is_sect2 t' = true) -> tneed td <= f ->
  exists last',
    ST stk (RUN (S (S (S f))) C_statement s) (k + length (render_tdef td)) (L ++ map ll_toks (tdef_lines k td)) []
       (M ++ map meta_of (tdef_lines k td)) (mkLM None 1%N LLT_Unknown) last' Xt lv a.
Proof.
  intros H Ht Hc Hf. destruct td as [j|n0 vs]; cbn [tneed] in Hf.
  - assert (Ht' : toks_at k (tI :: tEq :: tRecord :: render_fields j ++ render_vsecs [] ++ [tEnd; tSemi; t'])).
    { cbn [render_tdef app render_vsecs] in Ht |- *. rewrite <- app_assoc in Ht. exact Ht. }
    destruct (tbody_run stk tRecord j [] f _ _ _ _ _ _ _ _ t' H (or_introl eq_refl) Ht' Hc ltac:(lia) ltac:(cbn [vneed length]; lia)) as (last' & H1).
    cbv zeta in H1. cbn [render_vsecs vsec_lines length] in H1. rewrite app_nil_r, Nat.add_0_r in H1.
    exists last'.
    assert (El : length (render_tdef (TRec j)) = 3 + 4 * j + 2) by (cbn [render_tdef length]; rewrite app_length, render_fields_length; cbn [length]; lia).
    replace (k + length (render_tdef (TRec j))) with (k + 3 + 4 * j + 2) by lia.
    unfold tdef_lines. rewrite El. replace (k + (3 + 4 * j + 2) - 2) with (k + 3 + 4 * j) by lia.
    eapply (ST_lists stk); [exact H1| |].
    + cbn [map ll_toks]. rewrite map_app. reflexivity.
    + cbn [map meta_of ll_parent ll_level ll_type]. rewrite map_app. reflexivity.
  - assert (Ht' : toks_at k (tI :: tEq :: tClass :: render_fields n0 ++ render_vsecs vs ++ [tEnd; tSemi; t'])).
    { cbn [render_tdef app] in Ht |- *. rewrite <- !app_assoc in Ht. exact Ht. }
    destruct (tbody_run stk tClass n0 vs f _ _ _ _ _ _ _ _ t' H (or_intror eq_refl) Ht' Hc ltac:(lia) ltac:(lia)) as (last' & H1).
    cbv zeta in H1. exists last'.
    assert (El : length (render_tdef (TCls n0 vs)) = 3 + 4 * n0 + length (render_vsecs vs) + 2)
      by (cbn [render_tdef length]; rewrite !app_length, render_fields_length; cbn [length]; lia).
    replace (k + length (render_tdef (TCls n0 vs))) with (k + 3 + 4 * n0 + length (render_vsecs vs) + 2) by lia.
    unfold tdef_lines. rewrite El. replace (k + (3 + 4 * n0 + length (render_vsecs vs) + 2) - 2) with (k + 3 + 4 * n0 + length (render_vsecs vs)) by lia.
    eapply (ST_lists stk); [exact H1| |].
    + cbn [map ll_toks]. rewrite !map_app. reflexivity.
    + cbn [map meta_of ll_parent ll_level ll_type]. rewrite !map_app. reflexivity.
Qed.
Lemma tdefs_head r t' : is_sect2 t' = true -> exists t'' rest, render_tdefs r ++ [t'] = t'' :: rest /\ (t'' = tI \/ is_sect2 t'' = true).
Proof.
  intros H. destruct r as [|[j|n0 vs] r]; cbn [render_tdefs render_tdef app]; eexists _, _; (split; [reflexivity|]); auto.
Qed.
Lemma tdefs_run stk ts : forall f s k L M mc last lv a t',
  ST stk s k L [] M mc last Xt lv a -> lm_type mc = LLT_Unknown -> toks_at k (render_tdefs ts ++ [t']) -> is_sect2 t' = true ->
  tsneed ts + length ts + 1 <= f ->
  exists mc' last', lm_type mc' = LLT_Unknown /\
    ST stk (RUN f C_structures s) (k + length (render_tdefs ts)) (L ++ map ll_toks (tdefs_lines k ts)) []
       (M ++ map meta_of (tdefs_lines k ts)) mc' last' (mark_ended 1 Xt) lv a.
Proof.
  induction ts as [|td r IH]; intros f s k L M mc last lv a t' H Hty Ht Hs Hf.
  - destruct f as [|f]; [lia|]. cbn [render_tdefs app] in Ht. pose proof (toks_at_0 _ _ _ Ht eq_refl) as Hk.
    destruct (ends_D cType [(cTop, false)] t' (or_intror eq_refl) Hs) as (HnE & _ & He).
    rewrite (structures_stop stk _ _ _ _ _ _ _ _ _ _ _ _ _ H Hk HnE (He _ _ _ _ _ _ _ _ _ _ H Hk)).
    cbn [render_tdefs tdefs_lines map length]. rewrite !app_nil_r, Nat.add_0_r.
    exists mc, last. split; [exact Hty|]. exact (update_statuses_ST stk 1 _ _ _ _ _ _ _ _ _ _ H).
  - cbn [tsneed length] in Hf. destruct f as [|[|[|[|f]]]]; try lia. cbn [render_tdefs] in Ht. rewrite <- app_assoc in Ht.
    destruct (tdefs_head r t' Hs) as (t'' & rest & Er & Hc'').
    assert (Hk : nth_error T k = Some tI) by (apply (toks_at_0 _ _ _ Ht); destruct td; reflexivity).
    assert (Ht1 : toks_at k (render_tdef td ++ [t''])).
    { apply (toks_at_prefix _ _ rest). rewrite <- app_assoc. cbn [app]. rewrite <- Er. exact Ht. }
    assert (Ht2 : toks_at (k + length (render_tdef td)) (render_tdefs r ++ [t'])) by exact (toks_at_shift _ _ _ _ Ht eq_refl).
    pose proof (ending_D stk _ _ _ _ _ _ _ _ _ _ _ _ H (or_intror eq_refl) Hk ltac:(right; left; reflexivity)) as E0. cbn [is_sect2 tI] in E0.
    rewrite (structures_ident stk _ _ _ _ _ _ _ _ _ _ _ H Hk E0).
    destruct (tdef_run stk td f _ _ _ _ _ _ _ _ t'' H Ht1 Hc'' ltac:(lia)) as (last1 & H1).
    destruct (IH (S (S (S f))) _ _ _ _ _ _ _ _ t' H1 eq_refl Ht2 Hs ltac:(lia)) as (mc' & last' & Ty' & H2).
    exists mc', last'. split; [exact Ty'|].
    replace (k + length (render_tdefs (td :: r))) with (k + length (render_tdef td) + length (render_tdefs r))
      by (cbn [render_tdefs]; rewrite app_length; lia).
    eapply (ST_lists stk); [exact H2| |]; cbn [tdefs_lines]; rewrite map_app, app_assoc; reflexivity.
Qed.

(* ---------------- one section `var` / `const` / `type`, all sections, the unit *)
Definition usneed (dc : udecl) : nat :=
  match dc with UVar j | UConst j => j + 5 | UType ts => tsneed ts + length ts + 1 end.
Fixpoint udneed (ds : list udecl) : nat := match ds with [] => 0 | dc :: r => Nat.max (usneed dc) (udneed r) end.
Lemma usection_run dc f s K L M mc last lv a t' :
  ST [] s K L [] M mc last [(cTop, false)] lv a -> lm_type mc = LLT_Unknown ->
  toks_at K (render_udecl dc ++ [t']) -> is_sect2 t' = true -> usneed dc <= f ->
  exists s' mc' last', RUN (S (S (S f))) C_structures s = RUN (S (S f)) C_structures s' /\ lm_type mc' = LLT_Unknown /\
    ST [] s' (K + length (render_udecl dc)) (L ++ [K] :: map ll_toks (usection_lines (S K) dc)) []
       (M ++ mkLM None 0%N LLT_Unknown :: map meta_of (usection_lines (S K) dc)) mc' last' [(cTop, false)] lv a.
Proof.
  intros H Hty Ht Hs Hf.
  set (tk := match dc with UVar _ => tVar | UConst _ => tConst | UType _ => tType end).
  set (cx := match dc with UType _ => cType | _ => cDecl end).
  assert (HK : nth_error T K = Some tk) by (apply (toks_at_0 _ _ _ Ht); destruct dc; reflexivity).
  assert (HnE : tk <> RTT_Eof) by (unfold tk; destruct dc; discriminate).
  rewrite (run_S _ C_structures _ (ST_err [] _ _ _ _ _ _ _ _ _ _ H)).
  unfold arm_structures. rewrite (ST_cur_some [] _ _ _ _ _ _ _ _ _ _ _ H HK HnE).
  assert (E1 : ending_ctx pass s = None).
  { unfold ending_ctx. rewrite (ST_ctx [] _ _ _ _ _ _ _ _ _ _ H). cbn [ending_go cTop ctx c_pred c_opaque eval_pred].
    rewrite (ST_cur_some [] _ _ _ _ _ _ _ _ _ _ _ H HK HnE). unfold tk. destruct dc; reflexivity. }
  rewrite E1.
  assert (Sa : sarm_of tk = SA_decl (match dc with UVar _ => KK_Var DK_Other | UConst _ => KK_Const DK_Other | UType _ => KK_Type end))
    by (unfold tk; destruct dc; reflexivity).
  rewrite Sa. unfold sa_decl. rewrite (cTop_ctype _ _ _ _ _ _ _ _ _ H).
  assert (S2 : exists s2, next_token pass (set_current_decl_kind pass DK_Section s) = s2 /\ ST [] s2 (S K) L [K] M mc last [(cTop, false)] lv a).
  { unfold set_current_decl_kind. destruct dc as [j|j|ts].
    - destruct (upd_cur_next_ST [] (fun t => match t with
                    | RTT_Keyword (KK_Const _) => Some (RTT_Keyword (KK_Const DK_Section))
                    | RTT_Keyword (KK_Var _) => Some (RTT_Keyword (KK_Var DK_Section))
                    | _ => None end) _ _ _ _ _ _ _ _ _ _ _ H HK HnE eq_refl) as [_ H2]. eexists. split; [reflexivity|exact H2].
    - destruct (upd_cur_next_ST [] (fun t => match t with
                    | RTT_Keyword (KK_Const _) => Some (RTT_Keyword (KK_Const DK_Section))
                    | RTT_Keyword (KK_Var _) => Some (RTT_Keyword (KK_Var DK_Section))
                    | _ => None end) _ _ _ _ _ _ _ _ _ _ _ H HK HnE eq_refl) as [_ H2]. eexists. split; [reflexivity|exact H2].
    - rewrite (upd_cur_none [] _ _ _ _ _ _ _ _ _ _ _ _ H HK eq_refl). eexists. split; [reflexivity|].
      exact (next_token_ST [] _ _ _ _ _ _ _ _ _ _ H ltac:(exists tType; split; [exact HK|reflexivity])). }
  destruct S2 as (s2 & -> & H2). cbv zeta.
  rewrite (cTop_ctype _ _ _ _ _ _ _ _ _ H2).
  pose proof (finish_ST [] _ _ _ _ _ _ _ _ _ _ H2 ltac:(discriminate)) as H3.
  cbn [first_parent plain_sum cTop ctx c_level ParserGrammar.L app length] in H3. rewrite Hty in H3.
  change (clamp_u16 (0 + 0)) with 0%N in H3.
  assert (Ct : ctx (match (match dc with UVar _ => KK_Var DK_Other | UConst _ => KK_Const DK_Other | UType _ => KK_Type end) with
                    KK_Type => CT_TypeBlock | _ => CT_DeclarationBlock end) true P_declaration_section (ParserGrammar.L 1) = cx)
    by (unfold cx; destruct dc; reflexivity).
  rewrite Ct.
  assert (Px : clevel_parent (c_level cx) = None) by (unfold cx; destruct dc; reflexivity).
  rewrite (with_ctx_block f cx _ (ST_err [] _ _ _ _ _ _ _ _ _ _ H3) Px).
  pose proof (finish_empty_ST [] _ _ _ _ _ _ _ _ _ H3) as H4.
  pose proof (push_ctx_ST [] cx _ _ _ _ _ _ _ _ _ _ H4) as H5.
  assert (Ht1 : toks_at (S K) (match dc with UVar j => render_members [tI; tColon; tI; tSemi] j | UConst j => render_members [tI; tEq; tI; tSemi] j
                                | UType ts => render_tdefs ts end ++ [t'])).
  { rewrite <- Nat.add_1_r. apply (toks_at_shift K 1 [tk]); [|reflexivity]. destruct dc; exact Ht. }
  assert (S6 : exists mc6 last6, lm_type mc6 = LLT_Unknown /\
               ST [] (RUN f C_structures (push_ctx pass cx (finish_logical_line pass (finish_logical_line pass s2))))
                  (K + length (render_udecl dc)) ((L ++ [[K]]) ++ map ll_toks (usection_lines (S K) dc)) []
                  ((M ++ [mkLM None 0%N LLT_Unknown]) ++ map meta_of (usection_lines (S K) dc)) mc6 last6 (mark_ended 1 ((cx, false) :: [(cTop, false)])) lv a).
  { destruct dc as [j|j|ts]; cbn [usneed] in Hf; unfold cx in *.
    - destruct (gmembers_run false [] j f _ _ _ _ _ _ _ _ _ _ t' H5 (or_introl eq_refl) ltac:(discriminate) eq_refl eq_refl Ht1
                  (ends_D cDecl _ t' (or_introl eq_refl) Hs) Hf) as (mc6 & last6 & Ty6 & H6).
      exists mc6, last6. split; [exact Ty6|]. cbn [render_udecl length usection_lines]. unfold render_fields. rewrite render_members_length. cbn [length].
      replace (K + S (j * 4)) with (S K + 4 * j) by lia. exact H6.
    - destruct (gmembers_run true [] j f _ _ _ _ _ _ _ _ _ _ t' H5 (or_introl eq_refl) ltac:(reflexivity) eq_refl eq_refl Ht1
                  (ends_D cDecl _ t' (or_introl eq_refl) Hs) Hf) as (mc6 & last6 & Ty6 & H6).
      exists mc6, last6. split; [exact Ty6|]. cbn [render_udecl length usection_lines]. rewrite render_members_length. cbn [length].
      replace (K + S (j * 4)) with (S K + 4 * j) by lia. exact H6.
    - destruct (tdefs_run [] ts f _ _ _ _ _ _ _ _ t' H5 eq_refl Ht1 Hs Hf) as (mc6 & last6 & Ty6 & H6).
      exists mc6, last6. split; [exact Ty6|]. cbn [render_udecl length usection_lines].
      replace (K + S (length (render_tdefs ts))) with (S K + length (render_tdefs ts)) by lia. exact H6. }
  destruct S6 as (mc6 & last6 & Ty6 & H6).
  pose proof (finish_empty_ST [] _ _ _ _ _ _ _ _ _ H6) as H7.
  change (mark_ended 1 [(cx, false); (cTop, false)]) with [(cx, true); (cTop, false)] in H7.
  pose proof (pop_ctx_ST [] _ _ _ _ _ _ _ _ _ _ _ H7) as H8.
  unfold s_loop. eexists _, _, _. split; [reflexivity|]. split; [|eapply (ST_lists []); [exact H8| |]].
  - reflexivity.
  - rewrite <- app_assoc. reflexivity.
  - rewrite <- app_assoc. reflexivity.
Qed.
Lemma udecls_head r t' : is_sect2 t' = true -> exists t'' rest, render_udecls r ++ [t'] = t'' :: rest /\ is_sect2 t'' = true.
Proof.
  intros H. destruct r as [|[j|j|ts] r]; cbn [render_udecls render_udecl app]; eexists _, _; (split; [reflexivity|]); auto.
Qed.
Lemma udecls_run ds : forall f s K L M mc last lv a t',
  ST [] s K L [] M mc last [(cTop, false)] lv a -> lm_type mc = LLT_Unknown ->
  toks_at K (render_udecls ds ++ [t']) -> is_sect2 t' = true -> udneed ds + 2 <= f ->
  exists s' mc' last', RUN (length ds + f) C_structures s = RUN f C_structures s' /\ lm_type mc' = LLT_Unknown /\
    ST [] s' (K + length (render_udecls ds)) (L ++ map ll_toks (udecl_lines K ds)) []
       (M ++ map meta_of (udecl_lines K ds)) mc' last' [(cTop, false)] lv a.
Proof.
  induction ds as [|dc r IH]; intros f s K L M mc last lv a t' H Hty Ht Hs Hf.
  - exists s, mc, last. split; [reflexivity|]. split; [exact Hty|]. cbn [render_udecls udecl_lines map length]. rewrite !app_nil_r, Nat.add_0_r. exact H.
  - cbn [udneed] in Hf. cbn [render_udecls] in Ht. rewrite <- app_assoc in Ht.
    destruct (udecls_head r t' Hs) as (t'' & rest & Er & Hs'').
    assert (Ht1 : toks_at K (render_udecl dc ++ [t''])).
    { apply (toks_at_prefix _ _ rest). rewrite <- app_assoc. cbn [app]. rewrite <- Er. exact Ht. }
    assert (Ht2 : toks_at (K + length (render_udecl dc)) (render_udecls r ++ [t'])) by exact (toks_at_shift _ _ _ _ Ht eq_refl).
    destruct f as [|[|f]]; try lia.
    cbn [length]. replace (S (length r) + S (S f)) with (S (S (S (length r + f)))) by lia.
    destruct (usection_run dc (length r + f) _ _ _ _ _ _ _ _ t'' H Hty Ht1 Hs'' ltac:(lia)) as (s1 & mc1 & last1 & Eq1 & Ty1 & H1).
    rewrite Eq1. replace (S (S (length r + f))) with (length r + S (S f)) by lia.
    destruct (IH (S (S f)) _ _ _ _ _ _ _ _ t' H1 Ty1 Ht2 Hs ltac:(lia)) as (s2 & mc2 & last2 & Eq2 & Ty2 & H2).
    exists s2, mc2, last2. split; [exact Eq2|]. split; [exact Ty2|].
    replace (K + length (render_udecls (dc :: r))) with (K + length (render_udecl dc) + length (render_udecls r))
      by (cbn [render_udecls]; rewrite app_length; lia).
    eapply (ST_lists []); [exact H2| |].
    + cbn [udecl_lines map ll_toks]. rewrite map_app, <- !app_assoc. cbn [app]. replace (K + 1) with (S K) by lia. reflexivity.
    + cbn [udecl_lines map meta_of ll_parent ll_level ll_type]. rewrite map_app, <- !app_assoc. cbn [app]. replace (K + 1) with (S K) by lia. reflexivity.
Qed.
(* a unit with var, const and type sections, then the main block *)
Theorem unit2_run ds ss f s0 mc0 last0 lv a :
  wf ss = true -> ST [] s0 0 [] [] [] mc0 last0 [] lv a ->
  toks_at 0 (render_unit2 ds ss) -> n = length (render_unit2 ds ss) ->
  udneed ds + 2 <= f -> 8 + need ss <= f ->
  exists mc' last',
    ST [] (RUN (S (S (S (length ds + f)))) C_top s0) n (map ll_toks (pexpected_unit2 ds ss)) []
       (map meta_of (pexpected_unit2 ds ss)) mc' last' [] lv a.
Proof.
  intros Hwf H Ht Hn Hfd Hfs.
  rewrite (top_head (length ds + f) s0 (ST_err (@nil nat) _ _ _ _ _ _ _ _ _ _ H)).
  pose proof (finish_empty_ST (@nil nat) _ _ _ _ _ _ _ _ _ H) as H0.
  pose proof (push_ctx_ST (@nil nat) cTop _ _ _ _ _ _ _ _ _ _ H0) as H1.
  unfold render_unit2 in Ht.
  assert (Htp : toks_at (length (render_udecls ds)) (render_prog ss)) by exact (toks_at_shift 0 _ _ _ Ht eq_refl).
  destruct (prog_toks _ _ Htp) as (Ht0 & Htb & HtD & HtE).
  assert (Htd : toks_at 0 (render_udecls ds ++ [tBegin])).
  { apply (toks_at_prefix _ _ (render ss ++ [tEnd; tDot; RTT_Eof])). rewrite <- app_assoc. exact Ht. }
  destruct (udecls_run ds f _ 0 [] [] _ _ _ _ tBegin H1 eq_refl Htd eq_refl Hfd) as (s2 & mc2 & last2 & Eq2 & Ty2 & H2).
  rewrite Eq2. cbn [app Nat.add] in H2.
  destruct (main_core ss f _ _ _ _ _ _ _ _ Hwf H2 Ty2 Ht0 Htb HtD HtE Hfs) as (last3 & H9).
  cbv zeta in H9.
  destruct (top_tail_run (S (length ds + f)) _ _ _ _ _ _ _ _ H9 HtE
              ltac:(rewrite Hn; unfold render_unit2; rewrite app_length; unfold render_prog; cbn [length]; rewrite app_length; cbn [length]; lia)) as (mc' & last' & H15).
  exists mc', last'. eapply (ST_lists []); [exact H15| |].
  - unfold pexpected_unit2, main_lines. cbv zeta. rewrite map_length. rewrite !map_app. cbn [map ll_toks]. rewrite map_app. cbn [map ll_toks].
    rewrite <- !app_assoc. cbn [app]. rewrite <- !app_assoc. cbn [app]. rewrite !Nat.add_1_r.
    replace (S (length (render_udecls ds)) + length (render ss) + 2) with (S (S (S (length (render_udecls ds)) + length (render ss)))) by lia.
    reflexivity.
  - unfold pexpected_unit2, main_lines. cbv zeta. rewrite map_length. rewrite !map_app. cbn [map meta_of ll_parent ll_level ll_type]. rewrite map_app.
    cbn [map meta_of ll_parent ll_level ll_type].
    rewrite <- !app_assoc. cbn [app]. rewrite <- !app_assoc. cbn [app]. rewrite !Nat.add_1_r. reflexivity.
Qed.


End Frag.

Lemma render_plain ss : Forall plain (render ss).
Proof.
  revert ss. apply (stmts_mut (fun c => Forall plain (render_stmt c)) (fun ss => Forall plain (render ss)) (fun a => Forall plain (render_arms a))
                            (fun h => Forall plain (render_handlers h)));
    cbn [render render_stmt render_arms render_handlers]; intros.
  all: repeat (first [ exact I | assumption | apply Forall_nil | apply Forall_cons | (apply Forall_app; split) ]).
Qed.

Lemma render_prog_plain ss : Forall plain (render_prog ss).
Proof.
  unfold render_prog. constructor; [exact I|]. apply Forall_app. split; [apply render_plain|]. repeat (constructor; [exact I|]). constructor.
Qed.
Lemma render_prog_length ss : length (render_prog ss) = S (S (S (S (length (render ss))))).
Proof. unfold render_prog. cbn [length]. rewrite app_length. cbn [length]. lia. Qed.

Lemma rebuild_lines E : map (fun p => mkLine (lm_type (snd p)) (lm_level (snd p)) (lm_parent (snd p)) (fst p))
                            (combine (map ll_toks E) (map meta_of E)) = E.
Proof. induction E as [|l E IH]; [reflexivity|]. cbn. rewrite IH. destruct l; reflexivity. Qed.
Lemma combine_app {A B} (l1 l1' : list A) (l2 l2' : list B) : length l1 = length l2 ->
  combine (l1 ++ l1') (l2 ++ l2') = combine l1 l2 ++ combine l1' l2'.
Proof. revert l2. induction l1 as [|a l1 IH]; intros [|b l2] H; cbn in *; try lia; [reflexivity|]. rewrite IH by lia. reflexivity. Qed.

Lemma pass_lines_ST T stk s k Ls c M mc last cx lv a :
  ST T stk s k Ls c M mc last cx lv a ->
  pass_lines (seq 0 (length T)) s =
  map (fun p => mkLine (lm_type (snd p)) (lm_level (snd p)) (lm_parent (snd p)) (fst p)) (combine Ls M)
  ++ [mkLine (lm_type mc) (lm_level mc) (lm_parent mc) c].
Proof.
  intros (K & Mt & Ml & _). unfold pass_lines. rewrite K, Mt. cbn [k_lines].
  rewrite combine_app by (symmetry; exact Ml). rewrite map_app. reflexivity.
Qed.

Lemma increasing_seq z m : increasing (seq z m).
Proof.
  revert z. induction m as [|m IH]; intros z; cbn; constructor; [apply IH|].
  apply Forall_forall. intros x Hx. apply in_seq in Hx. lia.
Qed.

(* the pass of a program of the fragment: no error, consumed, exactly the expected lines (followed by
   the empty line that is current at the end) *)
Theorem fragment_parse_pass ss : wf ss = true ->
  let T := render_prog ss in
  let pass := seq 0 (length T) in
  ps_err pass (parse_pass pass [] T []) = None /\ pidx pass (parse_pass pass [] T []) = length pass
  /\ ps_toks pass (parse_pass pass [] T []) = map fin T
  /\ exists el, ll_toks el = [] /\ pass_lines pass (parse_pass pass [] T []) = pexpected_prog ss ++ [el].
Proof.
  intros Hwf T pass.
  pose proof (render_prog_plain ss) as P. pose proof (render_prog_length ss) as Ln. fold T in P, Ln.
  assert (H0 : ST T [] (ps_init pass T []) 0 [] [] [] lm0 0 [] (0%N, 0%N, 0%N) []).
  { split; [reflexivity|]. split; [reflexivity|]. split; reflexivity. }
  assert (Ht0 : nth_error T 0 = Some tBegin) by reflexivity.
  assert (Htb : toks_at T 1 (render ss ++ [tEnd])).
  { intros j t Hj. change (nth_error (render ss ++ [tEnd; tDot; RTT_Eof]) j = Some t).
    replace (render ss ++ [tEnd; tDot; RTT_Eof]) with ((render ss ++ [tEnd]) ++ [tDot; RTT_Eof]) by (rewrite <- app_assoc; reflexivity).
    rewrite nth_error_app1; [exact Hj|]. apply nth_error_Some. congruence. }
  assert (HtD : nth_error T (S (S (length (render ss)))) = Some tDot).
  { change (nth_error (render ss ++ [tEnd; tDot; RTT_Eof]) (S (length (render ss))) = Some tDot).
    rewrite nth_error_app2 by lia. replace (S (length (render ss)) - length (render ss)) with 1 by lia. reflexivity. }
  assert (HtE : nth_error T (S (S (S (length (render ss))))) = Some RTT_Eof).
  { change (nth_error (render ss ++ [tEnd; tDot; RTT_Eof]) (S (S (length (render ss)))) = Some RTT_Eof).
    rewrite nth_error_app2 by lia. replace (S (S (length (render ss))) - length (render ss)) with 2 by lia. reflexivity. }
  assert (Hf : 12 + need ss <= run_fuel pass).
  { unfold run_fuel, need, pass. rewrite seq_length, Ln. lia. }
  unfold parse_pass. set (f := run_fuel pass) in *. clearbody f.
  destruct (prog_run T P ss f _ _ _ _ _ Hwf H0 Ht0 Htb HtD HtE Ln Hf) as (mc' & last' & H).
  fold pass in H. set (s := run pass [] f C_top (ps_init pass T [])) in *.
  split; [exact (ST_err_none T [] _ _ _ _ _ _ _ _ _ _ H)|]. split; [|split; [transitivity (mix T (length T)); [exact (ST_toks T [] _ _ _ _ _ _ _ _ _ _ H)|apply mix_all]|]].
  - transitivity (length T); [exact (ST_pidx T [] _ _ _ _ _ _ _ _ _ _ H)|unfold pass; rewrite seq_length; reflexivity].
  - exists (mkLine (lm_type mc') (lm_level mc') (lm_parent mc') []). split; [reflexivity|].
    etransitivity; [exact (pass_lines_ST T [] _ _ _ _ _ _ _ _ _ _ H)|]. f_equal.
    set (e := S (length (render ss))) in *.
    assert (EL : [0] :: map ll_toks (pexpected None 1 1 1 ss) ++ [[e; S e]; [S (S e)]] = map ll_toks (pexpected_prog ss)).
    { unfold pexpected_prog. cbv zeta. cbn [map ll_toks]. rewrite map_app. cbn [map ll_toks].
      change (1 + length (render ss)) with e. replace (e + 1) with (S e) by lia. replace (e + 2) with (S (S e)) by lia. reflexivity. }
    assert (EM : mkLM None 0%N LLT_Unknown :: map meta_of (pexpected None 1 1 1 ss) ++ [mkLM None 0%N LLT_Unknown; mkLM None 0%N LLT_Eof]
                 = map meta_of (pexpected_prog ss)).
    { unfold pexpected_prog. cbv zeta. cbn [map meta_of ll_parent ll_level ll_type]. rewrite map_app. reflexivity. }
    rewrite EL, EM. apply rebuild_lines.
Qed.

(* ================================================================== *)
(* parse_file on the fragment *)

Lemma lline_eqb_false_toks a b : ll_toks a <> ll_toks b -> lline_eqb a b = false.
Proof.
  intros H. unfold lline_eqb. destruct (nat_list_eqb (ll_toks a) (ll_toks b)) eqn:E; [|apply andb_false_r].
  apply nat_list_eqb_eq in E. contradiction.
Qed.
Lemma index_of_line_none l : forall acc k, (forall a, In a acc -> ll_toks a <> ll_toks l) -> index_of_line l acc k = None.
Proof.
  induction acc as [|a r IH]; intros k H; cbn; [reflexivity|].
  rewrite lline_eqb_false_toks by (intros E; apply (H a (or_introl eq_refl)); symmetry; exact E).
  apply IH. intros x Hx. apply H. right. exact Hx.
Qed.

(* consolidation of lines without a shared token whose parents are earlier non-empty lines: the non-empty
   lines, in order, with the parents renumbered (= `finalize`) *)
Definition cnt (pl : list lline) (i : nat) : nat := length (filter nonempty_line (firstn i pl)).
Definition remap (pl : list lline) (l : lline) : lline :=
  mkLine (ll_type l) (ll_level l) (match ll_parent l with Some (i, t) => Some (cnt pl i, t) | None => None end) (ll_toks l).
Lemma finalize_eq pl : finalize pl = map (remap pl) (filter nonempty_line pl).
Proof. reflexivity. Qed.
Fixpoint mp_go (c : nat) (l : list lline) : list (option nat) :=
  match l with [] => [] | x :: r => if nonempty_line x then Some c :: mp_go (S c) r else None :: mp_go c r end.
Lemma mp_go_app : forall a c b, mp_go c (a ++ b) = mp_go c a ++ mp_go (c + length (filter nonempty_line a)) b.
Proof.
  induction a as [|x a IH]; intros c b; cbn [app mp_go filter length]; [rewrite Nat.add_0_r; reflexivity|].
  destruct (nonempty_line x); cbn [length app]; rewrite IH; [replace (S c + length (filter nonempty_line a)) with (c + S (length (filter nonempty_line a))) by lia|]; reflexivity.
Qed.
Lemma nth_error_mp : forall l c i p, nth_error l i = Some p ->
  nth_error (mp_go c l) i = Some (if nonempty_line p then Some (c + cnt l i) else None).
Proof.
  induction l as [|a l IH]; intros c [|i] p H; cbn [nth_error] in H; try discriminate.
  - injection H as ->. cbn [mp_go]. unfold cnt. cbn [firstn filter length]. destruct (nonempty_line p); cbn [nth_error]; [rewrite Nat.add_0_r|]; reflexivity.
  - cbn [mp_go]. unfold cnt. cbn [firstn filter]. destruct (nonempty_line a) eqn:E; cbn [nth_error length]; rewrite (IH _ _ _ H); unfold cnt;
      destruct (nonempty_line p); try reflexivity; do 2 f_equal; lia.
Qed.
Lemma cnt_app_l pre rest i : i <= length pre -> cnt (pre ++ rest) i = cnt pre i.
Proof. intros H. unfold cnt. rewrite firstn_app. replace (i - length pre) with 0 by lia. cbn [firstn]. rewrite app_nil_r. reflexivity. Qed.

Definition seg_ok (pre seg : list lline) : Prop :=
  forall a x b, seg = a ++ x :: b -> nonempty_line x = true -> forall i t, ll_parent x = Some (i, t) ->
  exists p, nth_error (pre ++ a) i = Some p /\ nonempty_line p = true /\ In t (ll_toks p).
Definition par_in (pre : list lline) (par : option (nat * nat)) : Prop :=
  match par with None => True | Some (i, t) => exists p, nth_error pre i = Some p /\ nonempty_line p = true /\ In t (ll_toks p) end.
Lemma par_in_app pre a par : par_in pre par -> par_in (pre ++ a) par.
Proof.
  destruct par as [[i t]|]; [|exact (fun H => H)]. intros (p & H1 & H2 & H3). exists p. split; [|split; assumption].
  rewrite nth_error_app1; [exact H1|]. apply nth_error_Some. congruence.
Qed.
Lemma seg_ok_nil pre : seg_ok pre [].
Proof. intros a x b H. destruct a; discriminate. Qed.
Lemma seg_ok_cons pre x s : (nonempty_line x = true -> par_in pre (ll_parent x)) -> seg_ok (pre ++ [x]) s -> seg_ok pre (x :: s).
Proof.
  intros Hx Hs a y b E Hy i t Hp. destruct a as [|z a]; cbn [app] in E; injection E as -> ->.
  - specialize (Hx Hy). rewrite Hp in Hx. rewrite app_nil_r. exact Hx.
  - destruct (Hs a y b eq_refl Hy i t Hp) as (p & H1 & H2). exists p. split; [|exact H2]. rewrite <- app_assoc in H1. exact H1.
Qed.
Lemma seg_ok_app pre s1 s2 : seg_ok pre s1 -> seg_ok (pre ++ s1) s2 -> seg_ok pre (s1 ++ s2).
Proof.
  revert pre. induction s1 as [|x s1 IH]; intros pre H1 H2; cbn [app]; [rewrite app_nil_r in H2; exact H2|].
  apply seg_ok_cons.
  - intros Hx. destruct (ll_parent x) as [[i t]|] eqn:Ep; [|exact I].
    destruct (H1 [] x s1 eq_refl Hx i t Ep) as (p & Hp). rewrite app_nil_r in Hp. exists p. exact Hp.
  - apply IH.
    + intros a y b E Hy i t Hp. destruct (H1 (x :: a) y b ltac:(rewrite E; reflexivity) Hy i t Hp) as (p & Hq). exists p.
      rewrite <- app_assoc. exact Hq.
    + rewrite <- app_assoc. exact H2.
Qed.

Lemma consolidate_parents : forall rest pre pl, pl = pre ++ rest ->
  NoDup (concat (map ll_toks pl)) -> seg_ok pre rest ->
  fst (fold_left consolidate_step rest (map (remap pl) (filter nonempty_line pre), mp_go 0 pre))
  = map (remap pl) (filter nonempty_line pl).
Proof.
  induction rest as [|x rest IH]; intros pre pl Epl Hnd Hs; cbn [fold_left].
  - rewrite Epl, app_nil_r. reflexivity.
  - assert (Epl' : pl = (pre ++ [x]) ++ rest) by (rewrite <- app_assoc; exact Epl).
    assert (Hs' : seg_ok (pre ++ [x]) rest).
    { intros a y b E Hy i t Hp. destruct (Hs (x :: a) y b ltac:(rewrite E; reflexivity) Hy i t Hp) as (p & Hq). exists p.
      rewrite <- app_assoc. exact Hq. }
    specialize (IH (pre ++ [x]) pl Epl' Hnd Hs').
    rewrite filter_app, mp_go_app in IH. cbn [filter mp_go Nat.add] in IH.
    cbn [consolidate_step]. destruct (ll_toks x) as [|t0 r0] eqn:Et.
    + assert (Nx : nonempty_line x = false) by (unfold nonempty_line; rewrite Et; reflexivity).
      rewrite Nx, app_nil_r in IH. exact IH.
    + assert (Nx : nonempty_line x = true) by (unfold nonempty_line; rewrite Et; reflexivity).
      rewrite Nx in IH.
      assert (Ep : match ll_parent x with
                   | Some (pl0, pt) => match nth_error (mp_go 0 pre) pl0 with Some (Some li) => Some (li, pt) | _ => None end
                   | None => None end
                   = match ll_parent x with Some (i, t) => Some (cnt pl i, t) | None => None end).
      { destruct (ll_parent x) as [[i t]|] eqn:Ex; [|reflexivity].
        destruct (Hs [] x rest eq_refl Nx i t Ex) as (p & H1 & H2 & _). rewrite app_nil_r in H1.
        rewrite (nth_error_mp _ 0 _ _ H1), H2. cbn [Nat.add]. rewrite Epl, cnt_app_l; [reflexivity|].
        apply Nat.lt_le_incl, nth_error_Some. congruence. }
      rewrite Ep.
      assert (Ex : mkLine (ll_type x) (ll_level x) (match ll_parent x with Some (i, t) => Some (cnt pl i, t) | None => None end) (t0 :: r0) = remap pl x)
        by (unfold remap; rewrite Et; reflexivity).
      rewrite Ex.
      rewrite index_of_line_none.
      * rewrite map_length. rewrite map_app in IH. cbn [map] in IH. exact IH.
      * intros a Ha E. apply in_map_iff in Ha. destruct Ha as (a0 & <- & Ha). apply filter_In in Ha. destruct Ha as [Ha _].
        cbn [remap ll_toks] in E.
        rewrite Epl, map_app, concat_app in Hnd. cbn [map concat] in Hnd.
        apply (nodup_app_disj _ _ t0 Hnd).
        -- apply in_concat. exists (ll_toks a0). split; [apply in_map, Ha|]. rewrite E, Et. left. reflexivity.
        -- apply in_or_app. left. rewrite Et. left. reflexivity.
Qed.
Lemma consolidate_parents0 pl : NoDup (concat (map ll_toks pl)) -> seg_ok [] pl -> consolidate_pass_lines [] pl = finalize pl.
Proof. intros H1 H2. unfold consolidate_pass_lines. rewrite finalize_eq. exact (consolidate_parents pl [] pl eq_refl H1 H2). Qed.

(* the arms of a case statement: the lines before the `end`/`else` line are fine, and so are the child
   lines of the last arm wherever they are placed later *)
Definition ext (p q : list lline) : Prop := exists x, q = p ++ x.
Lemma ext_refl p : ext p p. Proof. exists []. rewrite app_nil_r. reflexivity. Qed.
Lemma ext_app p x : ext p (p ++ x). Proof. exists x. reflexivity. Qed.
Lemma ext_trans p q r : ext p q -> ext q r -> ext p r.
Proof. intros [x ->] [y ->]. exists (x ++ y). rewrite app_assoc. reflexivity. Qed.
Lemma par_in_ext p q par : ext p q -> par_in p par -> par_in q par.
Proof. intros [x ->]. apply par_in_app. Qed.
Definition Rarms (a : arms) : Prop :=
  forall par d k li pre pend, length pre = li -> par_in pre par ->
  (forall pre1, ext pre pre1 -> seg_ok pre1 (pend (length pre1))) ->
  seg_ok pre (arms_pre par d k li a pend)
  /\ (forall pre1, ext (pre ++ arms_pre par d k li a pend) pre1 -> seg_ok pre1 (arms_pend k li a pend (length pre1))).
Lemma seg_ok_stray pre : seg_ok pre [stray].
Proof. apply seg_ok_cons; [discriminate|apply seg_ok_nil]. Qed.
Lemma par_in_hdr pre li ty lv par toks t : length pre = li -> In t toks -> toks <> [] -> par_in (pre ++ [mkLine ty lv par toks]) (Some (li, t)).
Proof.
  intros Hl Hin Hne. eexists. split; [rewrite nth_error_app2, Hl, Nat.sub_diag by lia; reflexivity|]. split; [|exact Hin].
  unfold nonempty_line. cbn [ll_toks]. destruct toks; [contradiction|reflexivity].
Qed.
(* the expected pass lines: every parent is an earlier non-empty line holding the parent token *)
Lemma pexpected_seg_ok : forall ss par d k li pre, length pre = li -> par_in pre par -> seg_ok pre (pexpected par d k li ss).
Proof.
  apply (stmts_mut (fun c => forall par d k li sm pre, length pre = li -> par_in pre par -> seg_ok pre (sexpected par d k li sm c))
                   (fun ss => forall par d k li pre, length pre = li -> par_in pre par -> seg_ok pre (pexpected par d k li ss))
                   Rarms
                   (fun h => forall par d k li pre, length pre = li -> par_in pre par -> seg_ok pre (hexpected par d k li h)));
    cbn [sexpected pexpected hexpected]; cbv zeta.
  - intros par d k li sm pre Hl Hp. apply seg_ok_cons; [intros _; exact Hp|apply seg_ok_nil].
  - intros par d k li sm pre Hl Hp. apply seg_ok_cons; [intros _; exact Hp|apply seg_ok_nil].
  - intros b IHb par d k li sm pre Hl Hp. apply seg_ok_cons; [intros _; exact Hp|].
    apply seg_ok_app; [apply IHb; [len_tac|apply par_in_app, Hp]|].
    apply seg_ok_cons; [intros _; do 2 apply par_in_app; exact Hp|apply seg_ok_nil].
  - intros b IHb par d k li sm pre Hl Hp. apply seg_ok_cons; [intros _; exact Hp|].
    apply seg_ok_app; [apply IHb; [len_tac|apply par_in_app, Hp]|].
    apply seg_ok_cons; [intros _; do 2 apply par_in_app; exact Hp|apply seg_ok_nil].
  - intros b IHb c IHc par d k li sm pre Hl Hp. apply seg_ok_cons; [intros _; exact Hp|].
    apply seg_ok_app; [apply IHb; [len_tac|apply par_in_app, Hp]|].
    apply seg_ok_cons; [intros _; do 2 apply par_in_app; exact Hp|].
    apply seg_ok_app; [apply IHc; [len_tac|do 3 apply par_in_app; exact Hp]|].
    apply seg_ok_cons; [intros _; do 4 apply par_in_app; exact Hp|apply seg_ok_nil].
  - intros b IHb c IHc par d k li sm pre Hl Hp. apply seg_ok_cons; [intros _; exact Hp|].
    apply seg_ok_app; [apply IHb; [len_tac|apply par_in_app, Hp]|].
    apply seg_ok_cons; [intros _; do 2 apply par_in_app; exact Hp|].
    apply seg_ok_app; [apply IHc; [len_tac|do 3 apply par_in_app; exact Hp]|].
    apply seg_ok_cons; [intros _; do 4 apply par_in_app; exact Hp|apply seg_ok_nil].
  - intros b IHb h IHh par d k li sm pre Hl Hp. apply seg_ok_cons; [intros _; exact Hp|].
    apply seg_ok_app; [apply IHb; [len_tac|apply par_in_app, Hp]|].
    apply seg_ok_cons; [intros _; do 2 apply par_in_app; exact Hp|].
    apply seg_ok_app; [apply IHh; [len_tac|do 3 apply par_in_app; exact Hp]|].
    apply seg_ok_cons; [intros _; do 4 apply par_in_app; exact Hp|apply seg_ok_nil].
  - (* if *) intros c IHc par d k li sm pre Hl Hp. apply seg_ok_cons; [intros _; exact Hp|].
    apply seg_ok_app; [|apply seg_ok_stray].
    apply IHc; [len_tac|]. apply par_in_hdr; [exact Hl|right; right; left; reflexivity|discriminate].
  - (* if else *) intros c1 IH1 c2 IH2 par d k li sm pre Hl Hp. apply seg_ok_cons; [intros _; exact Hp|].
    apply seg_ok_app.
    + apply seg_ok_app; [|apply seg_ok_stray].
      apply IH1; [len_tac|]. apply par_in_hdr; [exact Hl|right; right; left; reflexivity|discriminate].
    + apply seg_ok_app; [|apply seg_ok_stray].
      apply IH2; [len_tac|]. apply par_in_app. apply par_in_hdr; [exact Hl|right; right; right; left; reflexivity|discriminate].
  - (* while *) intros c IHc par d k li sm pre Hl Hp. apply seg_ok_cons; [intros _; exact Hp|].
    apply seg_ok_app; [|apply seg_ok_stray].
    apply IHc; [len_tac|]. apply par_in_hdr; [exact Hl|right; right; left; reflexivity|discriminate].
  - (* case … end *)
    intros a IHa par d k li sm pre Hl Hp. rewrite arms_lines_eq. cbv beta.
    apply seg_ok_cons; [intros _; exact Hp|].
    destruct (IHa par d (k + 3) (li + 1) (pre ++ [mkLine LLT_CaseHeader (lvl d) par [k; k + 1; k + 2]]) (fun _ => [])
                ltac:(len_tac) (par_in_app _ _ _ Hp) (fun _ _ => seg_ok_nil _)) as [A1 A2].
    apply seg_ok_app; [exact A1|].
    apply seg_ok_cons; [intros _; do 2 apply par_in_app; exact Hp|].
    match goal with |- seg_ok ?p (arms_pend _ _ _ _ ?i) => replace i with (length p) by (rewrite (arms_li_eq a par d); len_tac) end.
    apply A2. rewrite <- app_assoc. apply ext_app.
  - (* case … else … end *)
    intros a IHa e IHe par d k li sm pre Hl Hp. rewrite arms_lines_eq. cbv beta zeta.
    apply seg_ok_cons; [intros _; exact Hp|].
    destruct (IHa par d (k + 3) (li + 1) (pre ++ [mkLine LLT_CaseHeader (lvl d) par [k; k + 1; k + 2]]) (fun _ => [])
                ltac:(len_tac) (par_in_app _ _ _ Hp) (fun _ _ => seg_ok_nil _)) as [A1 A2].
    apply seg_ok_app; [exact A1|].
    apply seg_ok_cons; [intros _; do 2 apply par_in_app; exact Hp|].
    apply seg_ok_app.
    + match goal with |- seg_ok ?p (arms_pend _ _ _ _ ?i) => replace i with (length p) by (rewrite (arms_li_eq a par d); len_tac) end.
      apply A2. rewrite <- app_assoc. apply ext_app.
    + apply seg_ok_app; [apply IHe; [rewrite (arms_li_eq a par d); len_tac|do 4 apply par_in_app; exact Hp]|].
      apply seg_ok_cons; [intros _; do 5 apply par_in_app; exact Hp|apply seg_ok_nil].
  - intros. apply seg_ok_nil.
  - intros c IHc r IHr par d k li pre Hl Hp.
    apply seg_ok_app; [apply IHc; [exact Hl|exact Hp]|]. apply IHr; [len_tac|apply par_in_app, Hp].
  - (* no arm *)
    intros par d k li pre pend Hl Hp Hpend. cbn [arms_pre arms_pend]. split; [apply seg_ok_nil|].
    intros pre1 He. apply Hpend. rewrite app_nil_r in He. exact He.
  - (* an arm *)
    intros c IHc a' IHa par d k li pre pend Hl Hp Hpend. cbn [arms_pre arms_pend]. cbv zeta.
    set (A := mkLine LLT_CaseArm (lvl (d + 1)) par [k; k + 1]).
    set (e := k + 2 + length (render_stmt c)).
    assert (Hl1 : length (pre ++ [A]) = li + 1) by len_tac.
    assert (P1 : seg_ok (pre ++ [A]) (pend (li + 1))) by (rewrite <- Hl1; apply Hpend, ext_app).
    destruct (IHa par d (e + 1) (li + 1 + length (pend (li + 1))) ((pre ++ [A]) ++ pend (li + 1))
                (fun i => sexpected (Some (li, k + 1)) 1 (k + 2) i [e] c ++ [stray])
                ltac:(len_tac) ltac:(do 2 apply par_in_app; exact Hp)) as [B1 B2].
    { intros pre1 He. apply seg_ok_app; [|apply seg_ok_stray]. apply IHc; [reflexivity|].
      apply (par_in_ext ((pre ++ [A]) ++ pend (li + 1)) pre1 _ He). apply par_in_app.
      apply par_in_hdr; [exact Hl|right; left; reflexivity|discriminate]. }
    split.
    + apply seg_ok_cons; [intros _; exact Hp|]. apply seg_ok_app; [exact P1|exact B1].
    + intros pre1 He. apply B2. destruct He as [x ->]. exists x. repeat (progress (cbn [app]; rewrite <- ?app_assoc)). reflexivity.
  - intros. apply seg_ok_nil.
  - intros c IHc r IHr par d k li pre Hl Hp.
    apply seg_ok_app.
    + apply seg_ok_cons; [intros _; exact Hp|]. apply seg_ok_app; [|apply seg_ok_stray].
      apply IHc; [len_tac|]. apply par_in_hdr; [exact Hl|do 4 right; left; reflexivity|discriminate].
    + apply IHr; [len_tac|apply par_in_app, Hp].
Qed.

Lemma pexpected_prog_seg_ok ss : seg_ok [] (pexpected_prog ss).
Proof.
  unfold pexpected_prog. cbv zeta. apply seg_ok_cons; [intros _; exact I|].
  apply seg_ok_app; [apply pexpected_seg_ok; [reflexivity|exact I]|].
  apply seg_ok_cons; [intros _; exact I|]. apply seg_ok_cons; [intros _; exact I|]. apply seg_ok_nil.
Qed.
Lemma filter_all {A} (p : A -> bool) l : Forall (fun x => p x = true) l -> filter p l = l.
Proof. induction 1 as [|x l Hx _ IH]; cbn; [reflexivity|]. rewrite Hx, IH. reflexivity. Qed.

Lemma cement_fin t : plain t -> cement (fin t) = fin t.
Proof.
  destruct t as [o| |k0|k0| | | | | | |]; try (cbn; reflexivity); try contradiction.
  - destruct o; try (cbn; reflexivity); try contradiction. destruct k; cbn; reflexivity.
  - destruct k0; try contradiction; cbn; reflexivity.
  - destruct k0; try (cbn; reflexivity); try contradiction; match goal with d : DeclKind |- _ => destruct d; cbn; reflexivity end.
Qed.
Lemma upd_nth_id {A} (f : A -> A) i : forall l, (forall x, In x l -> f x = x) -> upd_nth i f l = l.
Proof.
  revert i. induction i as [|i IH]; intros [|a l] H; cbn; try reflexivity.
  - rewrite H by (left; reflexivity). reflexivity.
  - rewrite IH; [reflexivity|]. intros x Hx. apply H. right. exact Hx.
Qed.
Lemma cement_fold_plain T : Forall (fun t => cement t = t) T -> forall pass, fold_left (fun ts p => upd_nth p cement ts) pass T = T.
Proof.
  intros P. induction pass as [|p r IH]; cbn [fold_left]; [reflexivity|].
  rewrite upd_nth_id; [exact IH|]. intros x Hx. exact (proj1 (Forall_forall _ _) P x Hx).
Qed.
Lemma directive_lines_plain : forall T k attr lv, Forall plain T -> directive_lines T k attr lv = [].
Proof.
  induction T as [|t T IH]; intros k attr lv P; cbn [directive_lines]; [reflexivity|].
  pose proof (Forall_inv P) as Pt. pose proof (Forall_inv_tail P) as P'.
  destruct (existsb (Nat.eqb k) attr); [apply IH, P'|].
  destruct t; try contradiction; apply IH, P'.
Qed.
Lemma plain_no_directive T : Forall plain T -> Forall (fun ty => cd_kind ty = None) T.
Proof. intros P. eapply Forall_impl; [|exact P]. intros t Ht. destruct t; try reflexivity; contradiction. Qed.

Lemma consolidate_nil_r X : consolidate_pass_lines X [] = X.
Proof. reflexivity. Qed.


(* THE THEOREM: for every program of the fragment — any nesting depth, any number of statements — the
   closed model of parse_file ends without error and returns EXACTLY the expected lines: every statement on
   its own line one level deeper than the `begin` line of its block, `end ;` at the level of its `begin`,
   the body of an `if`/`while`/case arm (any statement) as child lines (levels from 1, parent = the header line and its
   then/else/do/colon token),
   `end .` and the single Eof line (holding only the Eof token) at level 0 *)
Theorem fragment_parse_file ss : wf ss = true ->
  let r := parse_file_model (render_prog ss) [] in
  r_err r = None /\ r_lines r = expected_prog ss /\ r_toks r = map fin (render_prog ss).
Proof.
  intros Hwf. set (T := render_prog ss). pose proof (render_prog_plain ss) as P. fold T in P.
  unfold parse_file_model. rewrite (no_directives_single_identity_pass T (plain_no_directive T P)).
  unfold parse_file_with. cbn [parse_passes].
  destruct (fragment_parse_pass ss Hwf) as (He & Hpi & Htoks & el & Hel & Hpl). fold T in He, Hpi, Htoks, Hpl.
  set (pass := seq 0 (length T)) in *.
  pose proof (parse_pass_lines_wf pass [] T [] (increasing_seq 0 (length T))) as (_ & Hnd & _).
  set (s := parse_pass pass [] T []) in *. clearbody s.
  rewrite He.
  assert (PF : Forall plain (map fin T)) by (apply Forall_map; eapply Forall_impl; [intros a Ha; apply fin_plain, Ha|exact P]).
  assert (PC : Forall (fun t => cement t = t) (map fin T)) by (apply Forall_map; eapply Forall_impl; [intros a Ha; apply cement_fin, Ha|exact P]).
  rewrite Htoks, (cement_fold_plain (map fin T) PC pass), (directive_lines_plain (map fin T) 0 _ 0%N PF).
  cbn [r_err r_lines r_toks]. split; [reflexivity|]. split; [|reflexivity].
  rewrite consolidate_nil_r. rewrite Hpl in *. clear Hpl.
  assert (E1 : consolidate_pass_lines [] (pexpected_prog ss ++ [el]) = consolidate_pass_lines [] (pexpected_prog ss)).
  { unfold consolidate_pass_lines. rewrite fold_left_app. cbn [fold_left].
    destruct (fold_left consolidate_step (pexpected_prog ss) ([], [])) as [acc mp]. cbn [consolidate_step]. rewrite Hel. reflexivity. }
  rewrite E1. apply consolidate_parents0; [|apply pexpected_prog_seg_ok].
  rewrite map_app, concat_app in Hnd. cbn [map concat] in Hnd. rewrite Hel, app_nil_r in Hnd. exact Hnd.
Qed.
(* ---------------- the well-formedness clauses, read off the expected lines *)
Lemma pexpected_no_eof : forall ss par d k li, Forall (fun l => ll_type l <> LLT_Eof) (pexpected par d k li ss).
Proof.
  apply (stmts_mut (fun c => forall par d k li sm, Forall (fun l => ll_type l <> LLT_Eof) (sexpected par d k li sm c))
                   (fun ss => forall par d k li, Forall (fun l => ll_type l <> LLT_Eof) (pexpected par d k li ss))
                   (fun a => forall par d k li pend, (forall i, Forall (fun l => ll_type l <> LLT_Eof) (pend i)) ->
                             Forall (fun l => ll_type l <> LLT_Eof) (arms_pre par d k li a pend)
                             /\ forall i, Forall (fun l => ll_type l <> LLT_Eof) (arms_pend k li a pend i))
                   (fun h => forall par d k li, Forall (fun l => ll_type l <> LLT_Eof) (hexpected par d k li h)));
    cbn [sexpected pexpected arms_pre arms_pend hexpected]; cbv zeta; intros; rewrite ?arms_lines_eq.
  all: try match goal with IHa : forall par d k li pend, _ -> _ /\ _ |- Forall _ (_ :: arms_pre ?par ?d ?k ?li ?a ?pend ++ _) =>
             destruct (IHa par d k li pend (fun _ => Forall_nil _)) as [A1 A2] end.
  all: try match goal with IHa : forall par d k li pend, _ -> _ /\ _, Hp : forall i, Forall _ (?pend i) |- _ /\ _ =>
             split; [apply Forall_cons; [discriminate|]; apply Forall_app; split; [apply Hp|]; apply IHa; intros | apply IHa; intros] end.
  all: try (split; [apply Forall_nil|assumption]).
  all: repeat (first [ apply Forall_nil | (apply Forall_cons; [discriminate|]) | (apply Forall_app; split) | solve [auto] ]).
Qed.

Lemma remap_type pl l : ll_type (remap pl l) = ll_type l. Proof. reflexivity. Qed.
Lemma remap_toks pl l : ll_toks (remap pl l) = ll_toks l. Proof. reflexivity. Qed.

Corollary fragment_single_eof_line ss : wf ss = true ->
  let r := parse_file_model (render_prog ss) [] in
  exists pre, r_lines r = pre ++ [mkLine LLT_Eof 0%N None [S (S (S (length (render ss))))]]
    /\ Forall (fun l => ll_type l <> LLT_Eof) pre
    /\ nth_error (render_prog ss) (S (S (S (length (render ss))))) = Some RTT_Eof
    /\ length (render_prog ss) = S (S (S (S (length (render ss))))).
Proof.
  intros Hwf r. destruct (fragment_parse_file ss Hwf) as (_ & Hl & _). fold r in Hl.
  set (A := mkLine LLT_Unknown 0%N None [0] :: pexpected None 1 1 1 ss
          ++ [mkLine LLT_Unknown 0%N None [1 + length (render ss); 1 + length (render ss) + 1]]).
  set (x := mkLine LLT_Eof 0%N None [1 + length (render ss) + 2]).
  assert (EP : pexpected_prog ss = A ++ [x]).
  { unfold pexpected_prog, A, x. cbv zeta. cbn [app]. rewrite <- app_assoc. reflexivity. }
  exists (map (remap (pexpected_prog ss)) (filter nonempty_line A)).
  split; [|split; [|split]].
  - rewrite Hl. unfold expected_prog. rewrite finalize_eq. rewrite EP at 2. rewrite filter_app, map_app. f_equal.
    change (filter nonempty_line [x]) with [x]. cbn [map]. unfold remap, x. cbn [ll_type ll_level ll_parent ll_toks]. repeat f_equal. lia.
  - apply Forall_map. apply Forall_forall. intros l Hin. apply filter_In in Hin. destruct Hin as [Hin _]. rewrite remap_type.
    revert l Hin. apply Forall_forall. unfold A. constructor; [discriminate|]. apply Forall_app. split; [apply pexpected_no_eof|].
    constructor; [discriminate|constructor].
  - change (nth_error (render ss ++ [tEnd; tDot; RTT_Eof]) (S (S (length (render ss)))) = Some RTT_Eof).
    rewrite nth_error_app2 by lia. replace (S (S (length (render ss))) - length (render ss)) with 2 by lia. reflexivity.
  - apply render_prog_length.
Qed.

(* every parent is an earlier line that holds the parent token *)
Lemma nth_error_firstn_split {A} (l : list A) i p : nth_error l i = Some p -> exists l2, l = firstn i l ++ p :: l2.
Proof.
  intros H. destruct (nth_error_split l i H) as (l1 & l2 & E & Hl). exists l2. rewrite E at 2. f_equal.
  rewrite E, firstn_app, <- Hl, Nat.sub_diag, firstn_all. cbn [firstn]. rewrite app_nil_r. reflexivity.
Qed.
Lemma cnt_lt l i p : nth_error l i = Some p -> nonempty_line p = true -> cnt l i < length (filter nonempty_line l).
Proof.
  intros H Hp. destruct (nth_error_firstn_split l i p H) as (l2 & E). unfold cnt. rewrite E at 2.
  rewrite filter_app, app_length. cbn [filter]. rewrite Hp. cbn [length]. lia.
Qed.
Lemma nth_filter l i p : nth_error l i = Some p -> nonempty_line p = true -> nth_error (filter nonempty_line l) (cnt l i) = Some p.
Proof.
  intros H Hp. destruct (nth_error_firstn_split l i p H) as (l2 & E). unfold cnt. rewrite E at 1.
  rewrite filter_app. cbn [filter]. rewrite Hp. rewrite nth_error_app2, Nat.sub_diag by lia. reflexivity.
Qed.
Lemma parents_ok_finalize_go pl : forall rest pre, pl = pre ++ rest -> seg_ok pre rest ->
  parents_ok_from (finalize pl) (length (filter nonempty_line pre)) (map (remap pl) (filter nonempty_line rest)) = true.
Proof.
  induction rest as [|x rest IH]; intros pre Epl Hs; [reflexivity|].
  assert (Epl' : pl = (pre ++ [x]) ++ rest) by (rewrite <- app_assoc; exact Epl).
  assert (Hs' : seg_ok (pre ++ [x]) rest).
  { intros a y b E Hy i t Hp. destruct (Hs (x :: a) y b ltac:(rewrite E; reflexivity) Hy i t Hp) as (p & Hq). exists p.
    rewrite <- app_assoc. exact Hq. }
  specialize (IH (pre ++ [x]) Epl' Hs'). rewrite filter_app, app_length in IH. cbn [filter] in IH.
  cbn [filter]. destruct (nonempty_line x) eqn:Nx; cbn [length] in IH.
  - cbn [map parents_ok_from]. apply andb_true_intro. split; [|rewrite Nat.add_1_r in IH; exact IH].
    unfold remap at 1. cbn [ll_parent]. destruct (ll_parent x) as [[i t]|] eqn:Ex; [|reflexivity].
    destruct (Hs [] x rest eq_refl Nx i t Ex) as (p & H1 & H2 & H3). rewrite app_nil_r in H1.
    assert (Hi : i < length pre) by (apply nth_error_Some; congruence).
    assert (Hpl : nth_error pl i = Some p) by (rewrite Epl, nth_error_app1 by exact Hi; exact H1).
    apply andb_true_intro. split.
    + apply Nat.ltb_lt. rewrite Epl, cnt_app_l by lia. exact (cnt_lt _ _ _ H1 H2).
    + rewrite finalize_eq, (map_nth_error (remap pl) _ _ (nth_filter _ _ _ Hpl H2)). rewrite remap_toks.
      apply existsb_exists. exists t. split; [exact H3|apply Nat.eqb_refl].
  - rewrite Nat.add_0_r in IH. exact IH.
Qed.
Lemma parents_ok_finalize pl : seg_ok [] pl -> parents_ok (finalize pl) = true.
Proof. intros H. unfold parents_ok. rewrite finalize_eq at 2. exact (parents_ok_finalize_go pl pl [] eq_refl H). Qed.

(* the parents are well-formed: the parent line comes earlier and holds the parent token *)
Theorem fragment_parents_ok ss : wf ss = true -> parents_ok (r_lines (parse_file_model (render_prog ss) [])) = true.
Proof.
  intros Hwf. destruct (fragment_parse_file ss Hwf) as (_ & Hl & _). rewrite Hl. apply parents_ok_finalize, pexpected_prog_seg_ok.
Qed.
(* without `if`/`while`/`case` there are no child lines: no line has a parent *)
Lemma pexpected_child_free : forall ss d k li, child_free ss = true -> Forall (fun l => ll_parent l = None) (pexpected None d k li ss).
Proof.
  apply (stmts_mut (fun c => forall d k li sm, child_free_stmt c = true -> Forall (fun l => ll_parent l = None) (sexpected None d k li sm c))
                   (fun ss => forall d k li, child_free ss = true -> Forall (fun l => ll_parent l = None) (pexpected None d k li ss))
                   (fun _ => True) (fun _ => True));
    cbn [sexpected pexpected child_free_stmt child_free]; cbv zeta; intros; try exact I; try discriminate.
  all: repeat match goal with H : _ && _ = true |- _ => apply andb_prop in H; destruct H end.
  all: repeat (first [ apply Forall_nil | (apply Forall_cons; [reflexivity|]) | (apply Forall_app; split) | solve [auto] ]).
Qed.
Lemma child_free_wf : forall ss, child_free ss = true -> wf ss = true.
Proof.
  apply (stmts_mut (fun c => child_free_stmt c = true -> wf_stmt c = true) (fun ss => child_free ss = true -> wf ss = true) (fun _ => True) (fun _ => True));
    cbn [child_free_stmt child_free wf_stmt wf]; intros; try exact I; try discriminate; try reflexivity.
  all: repeat match goal with H : _ && _ = true |- _ => apply andb_prop in H; destruct H end.
  all: repeat (apply andb_true_intro; split); auto.
Qed.

Corollary fragment_no_parents ss : child_free ss = true ->
  Forall (fun l => ll_parent l = None) (r_lines (parse_file_model (render_prog ss) [])).
Proof.
  intros Hc. destruct (fragment_parse_file ss (child_free_wf ss Hc)) as (_ & Hl & _). rewrite Hl. unfold expected_prog. rewrite finalize_eq.
  apply Forall_map. apply Forall_forall. intros l Hin. apply filter_In in Hin. destruct Hin as [Hin _].
  assert (Hp : Forall (fun l => ll_parent l = None) (pexpected_prog ss)).
  { unfold pexpected_prog. cbv zeta. constructor; [reflexivity|]. apply Forall_app. split; [apply pexpected_child_free, Hc|].
    repeat (constructor; [reflexivity|]). constructor. }
  unfold remap. cbn [ll_parent]. rewrite (proj1 (Forall_forall _ _) Hp l Hin). reflexivity.
Qed.
(* ... and a body of an `if`/`while` is a child line of the header line (non-vacuity of the parents) *)
Example fragment_child_lines :
  let ss := SCons (TIfElse TSimple (TBlock (SCons (TWhile TAssign) SNil))) (SCons TSimple SNil) in
  wf ss = true /\
  map (fun l => (ll_level l, ll_parent l, ll_toks l)) (r_lines (parse_file_model (render_prog ss) []))
  = [(0%N, None, [0]); (1%N, None, [1; 2; 3; 5]); (1%N, Some (1, 3), [4]); (1%N, Some (1, 5), [6]);
     (2%N, Some (1, 5), [7; 8; 9]); (1%N, Some (4, 9), [10; 11; 12; 13]); (1%N, Some (1, 5), [14; 15]);
     (1%N, None, [16; 17]); (0%N, None, [18; 19]); (0%N, None, [20])].
Proof. split; vm_compute; reflexivity. Qed.
(* bodies that are if/while/case statements themselves: a chain of child lines *)
Example fragment_nested_bodies :
  let ss := SCons (TIf (TWhile (TIfElse TSimple (TCase (ACons (TIf TAssign) ANil))))) SNil in
  wf ss = true /\
  map (fun l => (ll_type l, ll_level l, ll_parent l, ll_toks l)) (r_lines (parse_file_model (render_prog ss) []))
  = map (fun l => (ll_type l, ll_level l, ll_parent l, ll_toks l)) (expected_prog ss)
  /\ map (fun l => (ll_level l, ll_parent l, ll_toks l)) (expected_prog ss)
  = [(0%N, None, [0]); (1%N, None, [1; 2; 3]); (1%N, Some (1, 3), [4; 5; 6]); (1%N, Some (2, 6), [7; 8; 9; 11]);
     (1%N, Some (3, 9), [10]); (1%N, Some (3, 11), [12; 13; 14]); (2%N, Some (3, 11), [15; 16]); (1%N, Some (3, 11), [24; 25]);
     (1%N, Some (6, 16), [17; 18; 19]); (1%N, Some (8, 19), [20; 21; 22; 23]); (0%N, None, [26; 27]); (0%N, None, [28])].
Proof. repeat split; vm_compute; reflexivity. Qed.
(* a case statement: the child lines of an arm come after the line that follows the arm line *)
Example fragment_case_lines :
  let ss := SCons (TCaseElse (ACons TSimple (ACons (TBlock (SCons TSimple SNil)) ANil)) (SCons TAssign SNil)) (SCons (TCase ANil) SNil) in
  map (fun l => (ll_type l, ll_level l, ll_parent l, ll_toks l)) (r_lines (parse_file_model (render_prog ss) []))
  = [(LLT_Unknown, 0%N, None, [0]); (LLT_CaseHeader, 1%N, None, [1; 2; 3]); (LLT_CaseArm, 2%N, None, [4; 5]);
     (LLT_CaseArm, 2%N, None, [8; 9]); (LLT_Unknown, 1%N, Some (2, 5), [6; 7]); (LLT_Unknown, 1%N, None, [15]);
     (LLT_Unknown, 1%N, Some (3, 9), [10]); (LLT_Unknown, 2%N, Some (3, 9), [11; 12]); (LLT_Unknown, 1%N, Some (3, 9), [13; 14]);
     (LLT_Assignment, 2%N, None, [16; 17; 18; 19]); (LLT_Unknown, 1%N, None, [20; 21]);
     (LLT_CaseHeader, 1%N, None, [22; 23; 24]); (LLT_Unknown, 1%N, None, [25; 26]);
     (LLT_Unknown, 0%N, None, [27; 28]); (LLT_Eof, 0%N, None, [29])].
Proof. vm_compute. reflexivity. Qed.
(* exception handlers: `on` (lexed as IdentifierOrKeyword) is re-typed to a keyword; the body of a handler is a child line *)
Example fragment_handlers :
  let ss := SCons (TTryOn (SCons TSimple SNil) (HCons TSimple (HCons (TIf TAssign) HNil))) SNil in
  wf ss = true /\
  map (fun l => (ll_level l, ll_parent l, ll_toks l)) (r_lines (parse_file_model (render_prog ss) []))
  = [(0%N, None, [0]); (1%N, None, [1]); (2%N, None, [2; 3]); (1%N, None, [4]); (2%N, None, [5; 6; 7; 8; 9]);
     (1%N, Some (4, 9), [10; 11]); (2%N, None, [12; 13; 14; 15; 16]); (1%N, Some (6, 16), [17; 18; 19]);
     (1%N, Some (7, 19), [20; 21; 22; 23]); (1%N, None, [24; 25]); (0%N, None, [26; 27]); (0%N, None, [28])]
  /\ nth_error (render_prog ss) 5 = Some (RTT_IdentifierOrKeyword KK_On)
  /\ nth_error (r_toks (parse_file_model (render_prog ss) [])) 5 = Some (RTT_Keyword KK_On)
  /\ r_toks (parse_file_model (render_prog ss) []) = map retype (render_prog ss).
Proof. repeat split; vm_compute; reflexivity. Qed.
(* non-vacuity: all statement forms, nested *)
Example fragment_example :
  let ss := SCons TSimple (SCons (TRepeat (SCons TAssign (SCons (TTry SNil (SCons TSimple SNil)) SNil)))
              (SCons (TTry (SCons (TBlock SNil) SNil) (SCons (TIf (TBlock (SCons TSimple SNil))) SNil))
                 (SCons (TBlock (SCons TAssign (SCons (TWhile TSimple) SNil)))
                    (SCons (TIfElse TAssign (TTryExcept (SCons TSimple SNil) (SCons TAssign SNil)))
                       (SCons (TCaseElse (ACons (TBlock (SCons (TCase (ACons TSimple ANil)) SNil)) (ACons (TWhile (TIf TAssign)) ANil)) (SCons (TIf TSimple) SNil)) SNil))))) in
  wf ss = true /\ r_lines (parse_file_model (render_prog ss) []) = expected_prog ss
  /\ child_free ss = false /\ child_free (SCons TSimple (SCons (TRepeat SNil) SNil)) = true
  /\ map (fun l => (ll_level l, ll_toks l)) (firstn 9 (expected_prog ss))
     = [(0%N, [0]); (1%N, [1; 2]); (1%N, [3]); (2%N, [4; 5; 6; 7]); (2%N, [8]); (2%N, [9]); (3%N, [10; 11]); (2%N, [12; 13]);
        (1%N, [14; 15; 16])].
Proof. repeat split; vm_compute; reflexivity. Qed.

