(* Proofs/FragmentProofs.v — the grammar model on a fragment of well-formed Delphi (Model/Fragment.v):
   for EVERY program of the fragment (any nesting depth, any number of statements) the model ends without
   error and produces exactly the expected logical lines.  Proof: symbolic execution of `run` on states of
   the shape `ST` (finished lines, one current line, one entry on the current_line stack), with effect
   lemmas for the primitives and an induction over the syntax tree for the statement-list loop (generic in
   the kind of the enclosing block: begin/end, repeat/until, try/finally, finally/end). *)
From PasfmtVerif Require Import Model.Fragment Model.DirectiveTree Proofs.DirectiveTreeProofs Proofs.ParserKernelProofs Proofs.ParserGrammarProofs
  Proofs.ParserGrammarTypesProofs Proofs.ParserGrammarCoverProofs Proofs.ParserGrammarEofProofs.
Local Open Scope nat_scope.

Definition plain (t : RawTokenType) : Prop :=
  match t with
  | RTT_Identifier | RTT_Op OK_Semicolon | RTT_Op OK_Assign | RTT_Op OK_Dot | RTT_Keyword KK_Begin | RTT_Keyword KK_End
  | RTT_Keyword KK_Repeat | RTT_Keyword KK_Until | RTT_Keyword KK_Try | RTT_Keyword KK_Finally | RTT_Eof => True
  | _ => False
  end.

Lemma nth_error_seq0 n k : k < n -> nth_error (seq 0 n) k = Some k.
Proof. intros H. rewrite nth_error_nth' with (d := 0) by (rewrite seq_length; exact H). rewrite seq_nth by exact H. reflexivity. Qed.
Lemma nth_app_last {A} (l : list A) a d : nth (length l) (l ++ [a]) d = a.
Proof. rewrite app_nth2, Nat.sub_diag by lia. reflexivity. Qed.
Lemma upd_nth_app_last {A} (f : A -> A) l a : upd_nth (length l) f (l ++ [a]) = l ++ [f a].
Proof. induction l as [|x l IH]; cbn; [reflexivity|]. rewrite IH. reflexivity. Qed.
Lemma upd_nth_app_l {A} (f : A -> A) i l r : i < length l -> upd_nth i f (l ++ r) = upd_nth i f l ++ r.
Proof. revert i. induction l as [|x l IH]; intros [|i] H; cbn in *; try lia; [reflexivity|]. rewrite IH by lia. reflexivity. Qed.

Lemma skipn_seq m : forall z n, skipn m (seq z n) = seq (z + m) (n - m).
Proof.
  induction m as [|m IH]; intros z n; [rewrite Nat.add_0_r, Nat.sub_0_r; reflexivity|].
  destruct n as [|n]; [reflexivity|]. cbn [seq skipn]. rewrite IH. replace (S z + m) with (z + S m) by lia. reflexivity.
Qed.

Section Frag.
Variable T : list RawTokenType.
Hypothesis Tplain : Forall plain T.
Notation n := (length T).
Notation pass := (seq 0 (length T)).
Notation pstate := (pstate pass).

(* everything but the kernel core *)
Definition restv (s : pstate) :=
  (ps_toks pass s, ps_ctx pass s, ps_unfinished pass s, ps_cur_unfinished pass s,
   (ps_paren pass s, ps_brack pass s, ps_generic pass s), ps_attr pass s, ps_err pass s).
Definition levels := (N * N * N)%type.

(* the shape of the states met on the fragment: finished lines L (metas M), one current line c (meta mc)
   that is the last line and the only entry of the current_line stack, pass_index k *)
Definition ST (s : pstate) (k : nat) (L : list (list nat)) (c : list nat) (M : list lmeta) (mc : lmeta) (last : nat)
           (cx : list (pctx * bool)) (lv : levels) (at_ : list nat) : Prop :=
  kst pass s = mkK (L ++ [c]) [length L] k last /\ metas pass s = M ++ [mc] /\ length M = length L
  /\ restv s = (T, cx, [], false, lv, at_, None).

Lemma ST_err s k L c M mc last cx lv a : ST s k L c M mc last cx lv a -> has_err pass s = false.
Proof. intros (_ & _ & _ & R). unfold restv in R. unfold has_err. injection R as _ _ _ _ _ _ E. rewrite E. reflexivity. Qed.
Lemma ST_toks s k L c M mc last cx lv a : ST s k L c M mc last cx lv a -> ps_toks pass s = T.
Proof. intros (_ & _ & _ & R). unfold restv in R. congruence. Qed.
Lemma ST_ctx s k L c M mc last cx lv a : ST s k L c M mc last cx lv a -> ps_ctx pass s = cx.
Proof. intros (_ & _ & _ & R). unfold restv in R. congruence. Qed.
Lemma ST_pidx s k L c M mc last cx lv a : ST s k L c M mc last cx lv a -> pidx pass s = k.
Proof. intros (K & _). unfold pidx. rewrite K. reflexivity. Qed.
Lemma ST_cur_ref s k L c M mc last cx lv a : ST s k L c M mc last cx lv a -> cur_ref pass s = length L.
Proof. intros (K & _). unfold cur_ref. rewrite K. reflexivity. Qed.
Lemma ST_cur_toks s k L c M mc last cx lv a : ST s k L c M mc last cx lv a -> cur_toks pass s = c.
Proof. intros H. unfold cur_toks. rewrite (ST_cur_ref _ _ _ _ _ _ _ _ _ _ H). destruct H as (K & _). rewrite K. cbn. apply nth_app_last. Qed.
Lemma ST_at_start s k L c M mc last cx lv a : ST s k L c M mc last cx lv a -> at_start pass s = match c with [] => true | _ => false end.
Proof. intros H. unfold at_start. rewrite (ST_cur_toks _ _ _ _ _ _ _ _ _ _ H). reflexivity. Qed.
Lemma ST_cur_type s k L c M mc last cx lv a : ST s k L c M mc last cx lv a -> cur_type pass s = lm_type mc.
Proof.
  intros H. unfold cur_type. rewrite (ST_cur_ref _ _ _ _ _ _ _ _ _ _ H). destruct H as (_ & Mt & Ml & _). rewrite Mt, <- Ml.
  rewrite nth_app_last. reflexivity.
Qed.
Lemma ST_cur_index s k L c M mc last cx lv a : ST s k L c M mc last cx lv a -> k < n -> cur_index pass s = Some k.
Proof. intros H Hk. unfold cur_index. rewrite (ST_pidx _ _ _ _ _ _ _ _ _ _ H). apply nth_error_seq0, Hk. Qed.
Lemma ST_cur_tt s k L c M mc last cx lv a t : ST s k L c M mc last cx lv a -> nth_error T k = Some t ->
  cur_tt pass s = match t with RTT_Eof => None | _ => Some t end.
Proof.
  intros H Ht. assert (Hk : k < n) by (apply nth_error_Some; congruence).
  pose proof (ST_toks _ _ _ _ _ _ _ _ _ _ H) as Tk.
  unfold cur_tt, idx0. rewrite (ST_cur_index _ _ _ _ _ _ _ _ _ _ H Hk). unfold tt_at. rewrite Tk, Ht.
  destruct t; cbn [bind]; try reflexivity; exact Ht.
Qed.
Lemma ST_cur_tt_end s k L c M mc last cx lv a : ST s k L c M mc last cx lv a -> n <= k -> cur_tt pass s = None.
Proof. intros H Hk. apply cur_tt_past_end. rewrite seq_length, (ST_pidx _ _ _ _ _ _ _ _ _ _ H). exact Hk. Qed.

(* a token of the fragment is never an inline comment *)
Lemma plain_nth k t : nth_error T k = Some t -> plain t.
Proof. intros H. exact (proj1 (Forall_forall _ _) Tplain t (nth_error_In _ _ H)). Qed.
Lemma ST_not_inline s k L c M mc last cx lv a : ST s k L c M mc last cx lv a -> is_inline_comment (cur_tt pass s) = false.
Proof.
  intros H. destruct (nth_error T k) as [t|] eqn:E.
  - rewrite (ST_cur_tt _ _ _ _ _ _ _ _ _ _ _ H E). pose proof (plain_nth _ _ E) as P. destruct t; try reflexivity; contradiction.
  - rewrite (ST_cur_tt_end _ _ _ _ _ _ _ _ _ _ H); [reflexivity|]. apply nth_error_None, E.
Qed.

(* ---------------- effects of the primitives *)
Lemma restv_p_emit e m s : restv (p_emit pass e m s) = restv s.
Proof. unfold p_emit, guard. destruct (has_err pass s); reflexivity. Qed.
Lemma restv_p_set_meta i f s : restv (p_set_meta pass i f s) = restv s.
Proof. unfold p_set_meta, guard. destruct (has_err pass s); reflexivity. Qed.
Lemma metas_p_emit e m s : has_err pass s = false ->
  metas pass (p_emit pass e m s) = if appends e then metas pass s ++ [m] else metas pass s.
Proof. intros E. unfold p_emit, guard. rewrite E. unfold metas. cbn [ps_core set_core]. apply metas_emit. Qed.

(* next_token on a token of the fragment *)
Lemma next_token_ST s k L c M mc last cx lv a :
  ST s k L c M mc last cx lv a -> k < n -> ST (next_token pass s) (S k) L (c ++ [k]) M mc last cx lv a.
Proof.
  intros H Hk. pose proof (ST_err _ _ _ _ _ _ _ _ _ _ H) as E.
  destruct (nth_error T k) as [t|] eqn:Et; [|apply nth_error_None in Et; lia].
  pose proof (plain_nth _ _ Et) as P.
  assert (B : next_token_body pass s = p_emit pass KT lm0 s).
  { unfold next_token_body. rewrite (ST_cur_index _ _ _ _ _ _ _ _ _ _ H Hk).
    pose proof (ST_cur_tt _ _ _ _ _ _ _ _ _ _ _ H Et) as Ct.
    destruct t as [o| |k0|k0| | | | | | |]; try contradiction; try (destruct o; try contradiction); try (destruct k0; try contradiction);
      rewrite Ct; unfold track_levels; rewrite Ct; reflexivity. }
  assert (S1 : ST (p_emit pass KT lm0 s) (S k) L (c ++ [k]) M mc last cx lv a).
  { destruct H as (K & Mt & Ml & R). split; [|split; [|split]].
    - rewrite (kst_p_emit pass KT lm0 s E), K. cbn [k_step k_pi k_lines k_cur k_last k_top hd].
      rewrite (nth_error_seq0 _ _ Hk). rewrite upd_nth_app_last. reflexivity.
    - rewrite (metas_p_emit _ _ _ E). exact Mt.
    - exact Ml.
    - rewrite restv_p_emit. exact R. }
  unfold next_token. replace (remaining pass s + 2) with (S (remaining pass s + 1)) by lia.
  cbn [next_token_go]. rewrite E, B. rewrite (ST_not_inline _ _ _ _ _ _ _ _ _ _ S1). exact S1.
Qed.

(* context operations *)
Lemma push_ctx_ST c0 s k L c M mc last cx lv a :
  ST s k L c M mc last cx lv a -> ST (push_ctx pass c0 s) k L c M mc last ((c0, false) :: cx) lv a.
Proof.
  intros H. pose proof (ST_err _ _ _ _ _ _ _ _ _ _ H) as E. destruct H as (K & Mt & Ml & R).
  unfold push_ctx, guard. rewrite E. unfold ST, kst, metas, restv in *. cbn. repeat split; try assumption.
  injection R as R1 R2 R3 R4 R5 R6 R7. rewrite R1, R2, R3, R4, R5, R6, R7. reflexivity.
Qed.
Lemma pop_ctx_ST s k L c M mc last x cx lv a :
  ST s k L c M mc last (x :: cx) lv a -> ST (pop_ctx pass s) k L c M mc last cx lv a.
Proof.
  intros H. pose proof (ST_err _ _ _ _ _ _ _ _ _ _ H) as E. destruct H as (K & Mt & Ml & R).
  unfold pop_ctx, guard. rewrite E. unfold ST, kst, metas, restv in *. cbn. repeat split; try assumption.
  injection R as R1 R2 R3 R4 R5 R6 R7. rewrite R1, R2, R3, R4, R5, R6, R7. reflexivity.
Qed.
Lemma update_statuses_ST j s k L c M mc last cx lv a :
  ST s k L c M mc last cx lv a -> ST (update_statuses pass j s) k L c M mc last (mark_ended j cx) lv a.
Proof.
  intros H. pose proof (ST_err _ _ _ _ _ _ _ _ _ _ H) as E. destruct H as (K & Mt & Ml & R).
  unfold update_statuses, guard. rewrite E. unfold ST, kst, metas, restv in *. cbn. repeat split; try assumption.
  injection R as R1 R2 R3 R4 R5 R6 R7. rewrite R1, R2, R3, R4, R5, R6, R7. reflexivity.
Qed.
Lemma set_line_type_ST ty s k L c M mc last cx lv a :
  ST s k L c M mc last cx lv a ->
  ST (set_line_type pass ty s) k L c M (mkLM (lm_parent mc) (lm_level mc) ty) last cx lv a.
Proof.
  intros H. pose proof (ST_err _ _ _ _ _ _ _ _ _ _ H) as E. pose proof (ST_cur_ref _ _ _ _ _ _ _ _ _ _ H) as Rf.
  destruct H as (K & Mt & Ml & R). unfold set_line_type. rewrite Rf. split; [|split; [|split]].
  - rewrite kst_p_set_meta. exact K.
  - rewrite (metas_p_set_meta pass _ _ _ E), Mt, <- Ml. apply (upd_nth_app_last (fun m => mkLM (lm_parent m) (lm_level m) ty)).
  - exact Ml.
  - rewrite restv_p_set_meta. exact R.
Qed.

(* finish_logical_line at the start of a line only resets the type *)
Lemma finish_empty_ST s k L M mc last cx lv a :
  ST s k L [] M mc last cx lv a ->
  ST (finish_logical_line pass s) k L [] M (mkLM (lm_parent mc) (lm_level mc) LLT_Unknown) last cx lv a.
Proof.
  intros H. unfold finish_logical_line, guard. rewrite (ST_err _ _ _ _ _ _ _ _ _ _ H), (ST_at_start _ _ _ _ _ _ _ _ _ _ H).
  apply set_line_type_ST, H.
Qed.

Lemma plain_not_eq_colon t : plain t -> match t with RTT_Op (OK_Equal _ | OK_Colon) => true | _ => false end = false.
Proof. destruct t as [o| | | | | | | | | |]; try reflexivity. destruct o; try reflexivity; contradiction. Qed.
Lemma portability_noop s k L c M mc last cx lv a :
  ST s k L c M mc last cx lv a -> consolidate_portability_directives pass s = s.
Proof.
  intros H. unfold consolidate_portability_directives.
  assert (X : existsb (fun t => match t with RTT_Op (OK_Equal _ | OK_Colon) => true | _ => false end) (cur_line_tts pass s) = false).
  { unfold cur_line_tts. induction (cur_toks pass s) as [|i r IH]; [reflexivity|]. cbn [flat_map]. rewrite existsb_app, IH, orb_false_r.
    unfold tt_at. rewrite (ST_toks _ _ _ _ _ _ _ _ _ _ H). destruct (nth_error T i) as [t|] eqn:E; [|reflexivity].
    cbn [existsb]. rewrite (plain_not_eq_colon _ (plain_nth _ _ E)). reflexivity. }
  rewrite X. reflexivity.
Qed.
Lemma inline_noop s f : is_inline_comment (cur_tt pass s) = false -> inline_comments_go pass (S f) s = s.
Proof.
  intros H. cbn [inline_comments_go]. destruct (has_err pass s); [reflexivity|].
  destruct (cur_index pass s); [|reflexivity]. rewrite H. reflexivity.
Qed.
Lemma get_context_level_ST s k L c M mc last cx lv a :
  ST s k L c M mc last cx lv a -> get_context_level pass s = (first_parent cx, clamp_u16 (plain_sum cx)).
Proof.
  intros H. unfold get_context_level. rewrite (ST_ctx _ _ _ _ _ _ _ _ _ _ H), ctx_level_go_spec. reflexivity.
Qed.

(* finish_logical_line on a non-empty line *)
Lemma finish_ST s k L c M mc last cx lv a :
  ST s k L c M mc last cx lv a -> c <> [] ->
  ST (finish_logical_line pass s) k (L ++ [c]) []
     (M ++ [mkLM (first_parent cx) (clamp_u16 (plain_sum cx)) (lm_type mc)])
     (mkLM None (clamp_u16 (plain_sum cx)) LLT_Unknown) (length L) cx lv a.
Proof.
  intros H Hc. pose proof (ST_err _ _ _ _ _ _ _ _ _ _ H) as E.
  unfold finish_logical_line, guard. rewrite E, (ST_at_start _ _ _ _ _ _ _ _ _ _ H).
  destruct c as [|c0 cr]; [contradiction|].
  rewrite (portability_noop _ _ _ _ _ _ _ _ _ _ H).
  replace (remaining pass s + 2) with (S (remaining pass s + 1)) by lia.
  rewrite (inline_noop s _ (ST_not_inline _ _ _ _ _ _ _ _ _ _ H)).
  rewrite (get_context_level_ST _ _ _ _ _ _ _ _ _ _ H).
  pose proof (ST_cur_ref _ _ _ _ _ _ _ _ _ _ H) as Rf.
  destruct H as (K & Mt & Ml & R).
  assert (U : ps_cur_unfinished pass s = false /\ ps_unfinished pass s = []) by (unfold restv in R; split; congruence).
  destruct U as [U1 U2]. rewrite U1, U2. cbn [fold_left].
  set (s2 := set_unfinished pass (ps_unfinished pass (set_unfinished pass [] false s)) false (set_unfinished pass [] false s)).
  assert (K2 : kst pass s2 = kst pass s) by reflexivity.
  assert (M2 : metas pass s2 = metas pass s) by reflexivity.
  assert (R2 : restv s2 = restv s) by (unfold restv in *; subst s2; cbn; injection R as R1 R2' R3 R4 R5 R6 R7; rewrite R3, R4; reflexivity).
  assert (E2 : has_err pass s2 = false) by exact E.
  assert (Rf2 : cur_ref pass s2 = length L) by exact Rf.
  rewrite Rf2.
  set (s3 := p_set_meta pass (length L) (fun m => mkLM (first_parent cx) (clamp_u16 (plain_sum cx)) (lm_type m)) s2).
  assert (E3 : has_err pass s3 = false) by (subst s3; rewrite has_err_p_set_meta; exact E2).
  split; [|split; [|split]].
  - rewrite (kst_p_emit pass KL _ s3 E3). subst s3. rewrite kst_p_set_meta, K2, K. cbn [k_step k_lines k_cur k_pi k_last k_top hd].
    rewrite app_length. cbn [length]. rewrite Nat.add_1_r. reflexivity.
  - rewrite (metas_p_emit _ _ _ E3). cbn [appends]. subst s3. rewrite (metas_p_set_meta pass _ _ _ E2), M2, Mt, <- Ml.
    rewrite (upd_nth_app_last (fun m => mkLM (first_parent cx) (clamp_u16 (plain_sum cx)) (lm_type m))). reflexivity.
  - rewrite !app_length. cbn [length]. lia.
  - rewrite restv_p_emit. subst s3. rewrite restv_p_set_meta, R2. exact R.
Qed.


(* ---------------- general versions (any line-stack shape), for take_separators_on_last_line *)
Lemma cur_index_G (s : pstate) k : pidx pass s = k -> k < n -> cur_index pass s = Some k.
Proof. intros P Hk. unfold cur_index. rewrite P. apply nth_error_seq0, Hk. Qed.
Lemma cur_tt_G (s : pstate) k t : ps_toks pass s = T -> pidx pass s = k -> nth_error T k = Some t ->
  cur_tt pass s = match t with RTT_Eof => None | _ => Some t end.
Proof.
  intros Tk P Ht. assert (Hk : k < n) by (apply nth_error_Some; congruence).
  unfold cur_tt, idx0. rewrite (cur_index_G s k P Hk). unfold tt_at. rewrite Tk, Ht.
  destruct t; cbn [bind]; try reflexivity; exact Ht.
Qed.
Lemma not_inline_G (s : pstate) k : ps_toks pass s = T -> pidx pass s = k -> is_inline_comment (cur_tt pass s) = false.
Proof.
  intros Tk P. destruct (nth_error T k) as [t|] eqn:E.
  - rewrite (cur_tt_G s k t Tk P E). pose proof (plain_nth _ _ E) as Pl. destruct t; try reflexivity; contradiction.
  - rewrite cur_tt_past_end; [reflexivity|]. rewrite seq_length, P. apply nth_error_None, E.
Qed.
Lemma next_token_G (s : pstate) k :
  has_err pass s = false -> ps_toks pass s = T -> pidx pass s = k -> k < n ->
  kst pass (next_token pass s) = k_step pass (kst pass s) KT /\ metas pass (next_token pass s) = metas pass s
  /\ restv (next_token pass s) = restv s.
Proof.
  intros E Tk P Hk.
  destruct (nth_error T k) as [t|] eqn:Et; [|apply nth_error_None in Et; lia].
  pose proof (plain_nth _ _ Et) as Pl.
  assert (B : next_token_body pass s = p_emit pass KT lm0 s).
  { unfold next_token_body. rewrite (cur_index_G s k P Hk). pose proof (cur_tt_G s k t Tk P Et) as Ct.
    destruct t as [o| |k0|k0| | | | | | |]; try contradiction; try (destruct o; try contradiction); try (destruct k0; try contradiction);
      rewrite Ct; unfold track_levels; rewrite Ct; reflexivity. }
  set (s1 := p_emit pass KT lm0 s).
  assert (K1 : kst pass s1 = k_step pass (kst pass s) KT) by (apply kst_p_emit, E).
  assert (R1 : restv s1 = restv s) by apply restv_p_emit.
  assert (N1 : is_inline_comment (cur_tt pass s1) = false).
  { apply (not_inline_G s1 (S k)); [unfold restv in R1; congruence|]. unfold pidx. rewrite K1, k_pi_KT. fold (pidx pass s). rewrite P. reflexivity. }
  unfold next_token. replace (remaining pass s + 2) with (S (remaining pass s + 1)) by lia.
  cbn [next_token_go]. rewrite E, B. fold s1. rewrite N1. split; [exact K1|]. split; [|exact R1].
  subst s1. rewrite (metas_p_emit _ _ _ E). reflexivity.
Qed.

(* take_separators_on_last_line in front of one `;`: the `;` is appended to the last finished line *)
Lemma take_separators_ST lvl_ s k L M mc last cx lv a t' :
  ST s k L [] M mc last cx lv a ->
  nth_error T k = Some tSemi -> nth_error T (S k) = Some t' -> t' <> tSemi ->
  last < length L -> nth last L [] <> [] ->
  ST (take_separators_on_last_line pass lvl_ s) (S k) (upd_nth last (fun l => l ++ [k]) L) [] M mc last cx lv a.
Proof.
  intros H Hk Hk1 Hne Hl Hnl. pose proof (ST_err _ _ _ _ _ _ _ _ _ _ H) as E.
  assert (Hkn : k < n) by (apply nth_error_Some; congruence).
  unfold take_separators_on_last_line, guard. rewrite E, (ST_cur_tt _ _ _ _ _ _ _ _ _ _ _ H Hk). cbn [tSemi o_semicolon negb].
  destruct H as (K & Mt & Ml & R).
  set (s1 := p_emit pass KR lm0 s).
  assert (K1 : kst pass s1 = mkK (L ++ [[]]) [last; length L] k last) by (subst s1; rewrite (kst_p_emit pass KR lm0 s E), K; reflexivity).
  assert (M1 : metas pass s1 = M ++ [mc]) by (subst s1; rewrite (metas_p_emit _ _ _ E); exact Mt).
  assert (R1 : restv s1 = (T, cx, [], false, lv, a, None)) by (subst s1; rewrite restv_p_emit; exact R).
  assert (A1 : at_start pass s1 = false).
  { unfold at_start, cur_toks, cur_ref. rewrite K1. cbn [k_top k_cur hd k_lines]. rewrite app_nth1 by exact Hl.
    destruct (nth last L []); [contradiction|reflexivity]. }
  rewrite A1.
  set (s2 := push_ctx pass (mkCtx CT_Utility true P_never lvl_) s1).
  assert (E1 : has_err pass s1 = false) by (unfold has_err; unfold restv in R1; injection R1 as _ _ _ _ _ _ X; rewrite X; reflexivity).
  assert (F2 : kst pass s2 = kst pass s1 /\ metas pass s2 = metas pass s1 /\ restv s2 = (T, (mkCtx CT_Utility true P_never lvl_, false) :: cx, [], false, lv, a, None)).
  { subst s2. unfold push_ctx, guard. rewrite E1. repeat split. unfold restv in *. cbn.
    injection R1 as X1 X2 X3 X4 X5 X6 X7. rewrite X1, X2, X3, X4, X5, X6, X7. reflexivity. }
  destruct F2 as (K2 & M2 & R2).
  assert (T2 : ps_toks pass s2 = T) by (unfold restv in R2; congruence).
  assert (P2 : pidx pass s2 = k) by (unfold pidx; rewrite K2, K1; reflexivity).
  assert (E2 : has_err pass s2 = false) by (unfold has_err; unfold restv in R2; injection R2 as _ _ _ _ _ _ X; rewrite X; reflexivity).
  (* take_until: exactly one next_token *)
  destruct (next_token_G s2 k E2 T2 P2 Hkn) as (K3 & M3 & R3). set (s3 := next_token pass s2) in *.
  assert (T3 : ps_toks pass s3 = T) by (unfold restv in R3, R2; congruence).
  assert (P3 : pidx pass s3 = S k) by (unfold pidx; rewrite K3, k_pi_KT; fold (pidx pass s2); rewrite P2; reflexivity).
  assert (TU : take_until pass (no_more_separators pass) s2 = s3).
  { unfold take_until, simple_op_until, op_until.
    assert (Hrem : remaining pass s2 + 2 = S (S (remaining pass s2))) by lia. rewrite Hrem.
    cbn [op_until_go]. rewrite E2, (cur_tt_G s2 k tSemi T2 P2 Hk). cbn [tSemi].
    unfold no_more_separators at 1. rewrite (cur_tt_G s2 k tSemi T2 P2 Hk). cbn [tSemi o_semicolon negb].
    assert (IE : is_ending pass s2 = false).
    { unfold is_ending, ending_ctx. assert (C2 : ps_ctx pass s2 = (mkCtx CT_Utility true P_never lvl_, false) :: cx) by (unfold restv in R2; congruence).
      rewrite C2. reflexivity. }
    rewrite IE. fold s3.
    assert (E3 : has_err pass s3 = false).
    { unfold has_err. unfold restv in R3, R2. assert (X : ps_err pass s3 = None) by congruence. rewrite X. reflexivity. }
    rewrite E3. rewrite (cur_tt_G s3 (S k) t' T3 P3 Hk1).
    destruct t' as [o| |k0|k0| | | | | | |]; try reflexivity;
      unfold no_more_separators; rewrite (cur_tt_G s3 (S k) _ T3 P3 Hk1); try reflexivity.
    destruct o; try reflexivity. exfalso. apply Hne. reflexivity. }
  rewrite TU.
  assert (E3 : has_err pass s3 = false).
  { unfold has_err. unfold restv in R3, R2. assert (X : ps_err pass s3 = None) by congruence. rewrite X. reflexivity. }
  set (s4 := pop_ctx pass s3).
  assert (F4 : kst pass s4 = kst pass s3 /\ metas pass s4 = metas pass s3 /\ restv s4 = (T, cx, [], false, lv, a, None)).
  { subst s4. unfold pop_ctx, guard. rewrite E3. repeat split. unfold restv in *. cbn.
    rewrite R2 in R3. injection R3 as X1 X2 X3 X4 X5 X6 X7. rewrite X1, X2, X3, X4, X5, X6, X7. reflexivity. }
  destruct F4 as (K4 & M4 & R4).
  assert (E4 : has_err pass s4 = false) by (unfold has_err; unfold restv in R4; injection R4 as _ _ _ _ _ _ X; rewrite X; reflexivity).
  split; [|split; [|split]].
  - rewrite (kst_p_emit pass Kr lm0 s4 E4), K4, K3, K2, K1. cbn [k_step k_pi k_lines k_cur k_last k_top hd pop_keep].
    rewrite (nth_error_seq0 _ _ Hkn). cbn [k_lines k_cur k_pi k_last pop_keep]. rewrite upd_nth_app_l by exact Hl.
    rewrite upd_nth_len. reflexivity.
  - rewrite (metas_p_emit _ _ _ E4). cbn [appends]. rewrite M4, M3, M2. exact M1.
  - rewrite upd_nth_len. exact Ml.
  - rewrite restv_p_emit. exact R4.
Qed.
(* ... and it does nothing in front of another token *)
Lemma take_separators_noop lvl_ s k L c M mc last cx lv a t :
  ST s k L c M mc last cx lv a -> nth_error T k = Some t -> t <> tSemi ->
  take_separators_on_last_line pass lvl_ s = s.
Proof.
  intros H Hk Hne. unfold take_separators_on_last_line, guard. rewrite (ST_err _ _ _ _ _ _ _ _ _ _ H), (ST_cur_tt _ _ _ _ _ _ _ _ _ _ _ H Hk).
  destruct t as [o| | | | | | | | | |]; try reflexivity. destruct o; try reflexivity. exfalso. apply Hne. reflexivity.
Qed.

(* the context-ending test, on the two context shapes of the fragment *)
Definition cSt : pctx := ctx (CT_Statement SK_Normal) false P_semicolon (L 0).
(* the four kinds of statement blocks of the fragment: they differ only in the terminating keyword *)
Inductive blk := KBegin | KRepeat | KTry | KFinally.
Definition cBlk (b : blk) : pctx :=
  match b with
  | KBegin => ctx (CT_StatementBlock BK_Begin) true P_end (L 1)
  | KRepeat => ctx (CT_StatementBlock BK_Repeat) true P_until (L 1)
  | KTry => ctx (CT_StatementBlock BK_Try) true P_except_finally (L 1)
  | KFinally => ctx (CT_StatementBlock BK_Finally) true P_else_end (L 1)
  end.
Definition tTerm (b : blk) : RawTokenType :=
  match b with KBegin | KFinally => tEnd | KRepeat => tUntil | KTry => tFinally end.
Definition is_term (b : blk) (t : RawTokenType) : bool :=
  match t with
  | RTT_Keyword KK_End => match b with KBegin | KFinally => true | _ => false end
  | RTT_Keyword KK_Until => match b with KRepeat => true | _ => false end
  | RTT_Keyword KK_Finally => match b with KTry => true | _ => false end
  | _ => false
  end.
Lemma is_term_term b : is_term b (tTerm b) = true. Proof. destruct b; reflexivity. Qed.
Lemma first_parent_blk b fl C : first_parent ((cBlk b, fl) :: C) = first_parent C. Proof. destruct b; reflexivity. Qed.
Lemma plain_sum_blk b fl C : plain_sum ((cBlk b, fl) :: C) = (1 + plain_sum C)%Z. Proof. destruct b; reflexivity. Qed.
Lemma cBlk_level b : clevel_parent (c_level (cBlk b)) = None. Proof. destruct b; reflexivity. Qed.
Definition cTop : pctx := ctx CT_TopLevelStatement true P_top_semicolon (L 0).
Definition cUt (l : clevel) : pctx := mkCtx CT_Utility true P_never l.

Lemma blk_pred_eval b s k L c M mc last cx lv a t :
  ST s k L c M mc last cx lv a -> nth_error T k = Some t -> eval_pred pass (c_pred (cBlk b)) s = is_term b t.
Proof.
  intros H Ht. pose proof (ST_cur_tt _ _ _ _ _ _ _ _ _ _ _ H Ht) as Ct. pose proof (plain_nth _ _ Ht) as P.
  destruct b; cbn [cBlk ctx c_pred eval_pred]; unfold o_kw_end; rewrite Ct;
    (destruct t as [o| |k0|k0| | | | | | |]; try contradiction; try reflexivity; destruct k0; try contradiction; reflexivity).
Qed.
Lemma cBlk_opaque b : c_opaque (cBlk b) = true. Proof. destruct b; reflexivity. Qed.

Section Blk.
Variable bk : blk.
Notation cSB := (cBlk bk).

Lemma ST_err_none s k L c M mc last cx lv a : ST s k L c M mc last cx lv a -> ps_err pass s = None.
Proof. intros (_ & _ & _ & R). unfold restv in R. congruence. Qed.

(* ---------------- unfolding `run` on error-free states *)
Notation RUN := (run pass []).
Lemma run_S f c s : has_err pass s = false ->
  RUN (S f) c s =
  match c with
  | C_structures => arm_structures pass (RUN f) s
  | C_statement => arm_statement pass (RUN f) s
  | C_with_ctx cx a => arm_with_ctx pass [] (RUN f) cx a s
  | C_stmt_list t op p => arm_stmt_list pass (RUN f) t op p s
  | C_stmt_block cx k => arm_stmt_block pass (RUN f) cx k s
  | C_top => arm_top pass (RUN f) s
  | _ => RUN (S f) c s
  end.
Proof. intros E. cbn [run]. rewrite E. destruct c; reflexivity. Qed.

(* ending contexts on the shapes of the fragment *)
Lemma ending_St_SB s k L c M mc last C lv a t :
  ST s k L c M mc last ((cSt, false) :: (cSB, false) :: C) lv a -> nth_error T k = Some t ->
  ending_ctx pass s = match t with RTT_Op OK_Semicolon => Some 1 | _ => if is_term bk t then Some 2 else None end.
Proof.
  intros H Ht. unfold ending_ctx. rewrite (ST_ctx _ _ _ _ _ _ _ _ _ _ H). cbn [ending_go cSt ctx c_pred c_opaque eval_pred].
  rewrite (blk_pred_eval bk _ _ _ _ _ _ _ _ _ _ _ H Ht), cBlk_opaque.
  rewrite (ST_cur_tt _ _ _ _ _ _ _ _ _ _ _ H Ht). pose proof (plain_nth _ _ Ht) as P.
  destruct t as [o| |k0|k0| | | | | | |]; try contradiction; try reflexivity.
  all: try (destruct o; try contradiction; reflexivity).
  all: try (destruct k0; try contradiction; cbn [o_semicolon]; destruct (is_term bk _); reflexivity).
Qed.
Lemma ending_St_ended s k L c M mc last r lv a :
  ST s k L c M mc last ((cSt, true) :: r) lv a -> ending_ctx pass s = Some 1.
Proof. intros H. unfold ending_ctx. rewrite (ST_ctx _ _ _ _ _ _ _ _ _ _ H). reflexivity. Qed.
Lemma is_ending_SB s k L c M mc last C lv a t :
  ST s k L c M mc last ((cSB, false) :: C) lv a -> nth_error T k = Some t -> is_ending pass s = is_term bk t.
Proof.
  intros H Ht. unfold is_ending, ending_ctx. rewrite (ST_ctx _ _ _ _ _ _ _ _ _ _ H). cbn [ending_go].
  rewrite (blk_pred_eval bk _ _ _ _ _ _ _ _ _ _ _ H Ht), cBlk_opaque. destruct (is_term bk t); reflexivity.
Qed.

(* next_tt: the next token of the pass (no comments in the fragment) *)
Lemma next_tt_ST s k L c M mc last cx lv a t :
  ST s k L c M mc last cx lv a -> nth_error T (S k) = Some t -> t <> RTT_Eof -> next_tt pass s = Some t.
Proof.
  intros H Ht Hne. assert (Hk : S k < n) by (apply nth_error_Some; congruence).
  unfold next_tt, idx_next. rewrite (ST_pidx _ _ _ _ _ _ _ _ _ _ H).
  assert (Sk : exists r, skipn (S k) pass = S k :: r).
  { rewrite skipn_seq. cbn [Nat.add]. destruct (length T - S k) eqn:Z; [lia|]. cbn [seq]. eauto. }
  destruct Sk as [r Sk].
  rewrite Sk. cbn [find]. unfold filt_at, tt_at. rewrite (ST_toks _ _ _ _ _ _ _ _ _ _ H), Ht.
  pose proof (plain_nth _ _ Ht) as P.
  assert (F : tok_filter t = true) by (destruct t; try reflexivity; try contradiction; exfalso; apply Hne; reflexivity).
  rewrite F. cbn [bind]. exact Ht.
Qed.

(* ---------------- parse_statement / parse_structures on `Identifier ;` *)
Lemma last_ctx_ST s k L c M mc last x fl r lv a : ST s k L c M mc last ((x, fl) :: r) lv a -> last_ctx pass s = Some x.
Proof. intros H. unfold last_ctx. rewrite (ST_ctx _ _ _ _ _ _ _ _ _ _ H). reflexivity. Qed.
Lemma prelude_continue s k L c M mc last C lv a t :
  ST s k L c M mc last ((cSt, false) :: (cSB, false) :: C) lv a -> nth_error T k = Some t ->
  t <> tSemi -> is_term bk t = false -> statement_prelude pass s = (s, true).
Proof.
  intros H Ht N1 N2. unfold statement_prelude. rewrite (last_ctx_ST _ _ _ _ _ _ _ _ _ _ _ _ H), (ending_St_SB _ _ _ _ _ _ _ _ _ _ _ H Ht), N2.
  pose proof (plain_nth _ _ Ht) as P.
  destruct t as [o| |k0|k0| | | | | | |]; try contradiction; try (destruct (at_start pass s); reflexivity).
  destruct o; try contradiction; try (destruct (at_start pass s); reflexivity).
Qed.
Lemma prelude_semicolon s k L c M mc last C lv a :
  ST s k L c M mc last ((cSt, false) :: (cSB, false) :: C) lv a -> nth_error T k = Some tSemi ->
  statement_prelude pass s = (update_statuses pass 1 s, false).
Proof.
  intros H Ht. unfold statement_prelude. rewrite (last_ctx_ST _ _ _ _ _ _ _ _ _ _ _ _ H), (ending_St_SB _ _ _ _ _ _ _ _ _ _ _ H Ht). reflexivity.
Qed.

(* parse_structures on `Identifier ;` inside a statement context: the identifier is consumed, the
   statement context is marked as ended in front of the `;` *)
Lemma structures_simple f s k L M mc last C lv a :
  ST s k L [] M mc last ((cSt, false) :: (cSB, false) :: C) lv a ->
  nth_error T k = Some tI -> nth_error T (S k) = Some tSemi -> 3 <= f ->
  ST (RUN f C_structures s) (S k) L [k] M mc last ((cSt, true) :: (cSB, false) :: C) lv a.
Proof.
  intros H Hk Hk1 Hf. destruct f as [|[|[|f]]]; try lia.
  assert (Hkn : k < n) by (apply nth_error_Some; congruence).
  rewrite (run_S _ _ _ (ST_err _ _ _ _ _ _ _ _ _ _ H)).
  unfold arm_structures. rewrite (ST_cur_tt _ _ _ _ _ _ _ _ _ _ _ H Hk). cbn [tI].
  rewrite (ending_St_SB _ _ _ _ _ _ _ _ _ _ _ H Hk). cbn [tI sarm_of].
  unfold sa_other, s_other, s_loop.
  (* parse_statement, first round: the identifier *)
  rewrite (run_S (S f) C_statement _ (ST_err _ _ _ _ _ _ _ _ _ _ H)).
  unfold arm_statement. rewrite (ST_cur_tt _ _ _ _ _ _ _ _ _ _ _ H Hk). cbn [tI].
  rewrite (prelude_continue _ _ _ _ _ _ _ _ _ _ _ H Hk) by (discriminate || reflexivity). cbn [negb starm_of tI].
  unfold st_label_cand, label_or_other. rewrite (ST_at_start _ _ _ _ _ _ _ _ _ _ H).
  rewrite (next_tt_ST _ _ _ _ _ _ _ _ _ _ _ H Hk1) by discriminate. cbn [tSemi o_colon andb].
  unfold t_other, t_loop.
  pose proof (next_token_ST _ _ _ _ _ _ _ _ _ _ H Hkn) as H1. cbn [app] in H1.
  (* second round: the `;` ends the statement context *)
  rewrite (run_S f C_statement _ (ST_err _ _ _ _ _ _ _ _ _ _ H1)).
  unfold arm_statement. rewrite (ST_cur_tt _ _ _ _ _ _ _ _ _ _ _ H1 Hk1). cbn [tSemi].
  rewrite (prelude_semicolon _ _ _ _ _ _ _ _ _ _ H1 Hk1). cbn [negb].
  pose proof (update_statuses_ST 1 _ _ _ _ _ _ _ _ _ _ H1) as H2. cbn [mark_ended] in H2.
  (* back in parse_structures: the ended context makes it return *)
  rewrite (run_S (S f) C_structures _ (ST_err _ _ _ _ _ _ _ _ _ _ H2)).
  unfold arm_structures. rewrite (ST_cur_tt _ _ _ _ _ _ _ _ _ _ _ H2 Hk1). cbn [tSemi].
  rewrite (ending_St_ended _ _ _ _ _ _ _ _ _ _ H2).
  pose proof (update_statuses_ST 1 _ _ _ _ _ _ _ _ _ _ H2) as H3. cbn [mark_ended] in H3. exact H3.
Qed.

(* ---------------- do_with_context with a Level context *)
Lemma with_ctx_structures f cx s : has_err pass s = false -> clevel_parent (c_level cx) = None ->
  RUN (S f) (C_with_ctx cx A_structures) s = pop_ctx pass (RUN f C_structures (push_ctx pass cx (finish_logical_line pass s))).
Proof. intros E P. rewrite (run_S _ _ _ E). unfold arm_with_ctx. rewrite P. reflexivity. Qed.
Lemma with_ctx_stmt_list f cx t s : has_err pass s = false -> clevel_parent (c_level cx) = None ->
  RUN (S f) (C_with_ctx cx (A_stmt_list t)) s
  = pop_ctx pass (RUN f (C_stmt_list t false P_semicolon) (push_ctx pass cx (finish_logical_line pass s))).
Proof. intros E P. rewrite (run_S _ _ _ E). unfold arm_with_ctx. rewrite P. reflexivity. Qed.
Lemma stmt_list_unfold f t op p s : has_err pass s = false ->
  RUN (S f) (C_stmt_list t op p) s =
  let s3 := take_separators_on_last_line pass (L 0) (finish_logical_line pass (RUN f (C_with_ctx (ctx t op p (L 0)) A_structures) s)) in
  if is_ending pass s3 || match cur_tt pass s3 with None => true | Some _ => false end then s3
  else RUN f (C_stmt_list t op p) s3.
Proof. intros E. rewrite (run_S _ _ _ E). reflexivity. Qed.

(* one iteration of the statement-list loop on `Identifier ;` *)
Lemma iter_simple f s k L M mc last C lv a t' :
  ST s k L [] M mc last ((cSB, false) :: C) lv a -> first_parent C = None ->
  nth_error T k = Some tI -> nth_error T (S k) = Some tSemi -> nth_error T (S (S k)) = Some t' -> t' <> tSemi ->
  4 <= f ->
  ST (take_separators_on_last_line pass (CL_Level 0%Z) (finish_logical_line pass (RUN f (C_with_ctx cSt A_structures) s)))
     (S (S k)) (L ++ [[k; S k]]) [] (M ++ [mkLM None (lvl (1 + plain_sum C)) LLT_Unknown])
     (mkLM None (lvl (1 + plain_sum C)) LLT_Unknown) (length L) ((cSB, false) :: C) lv a.
Proof.
  intros H HC Hk Hk1 Hk2 Hne Hf. destruct f as [|f]; [lia|].
  rewrite (with_ctx_structures f cSt s (ST_err _ _ _ _ _ _ _ _ _ _ H) eq_refl).
  pose proof (finish_empty_ST _ _ _ _ _ _ _ _ _ H) as H0.
  pose proof (push_ctx_ST cSt _ _ _ _ _ _ _ _ _ _ H0) as H1.
  pose proof (structures_simple f _ _ _ _ _ _ _ _ _ H1 Hk Hk1 ltac:(lia)) as H2.
  pose proof (pop_ctx_ST _ _ _ _ _ _ _ _ _ _ _ H2) as H3.
  pose proof (finish_ST _ _ _ _ _ _ _ _ _ _ H3 ltac:(discriminate)) as H4.
  rewrite first_parent_blk, plain_sum_blk, HC in H4. cbn [lm_type] in H4.
  pose proof (take_separators_ST (CL_Level 0%Z) _ _ _ _ _ _ _ _ _ t' H4 Hk1 Hk2 Hne) as H5.
  rewrite app_length in H5. cbn [length] in H5. rewrite nth_app_last in H5.
  specialize (H5 ltac:(lia) ltac:(discriminate)). rewrite upd_nth_app_last in H5. cbn [app] in H5.
  unfold lvl. exact H5.
Qed.


(* ---------------- `Identifier := Identifier ;` *)
Lemma structures_assign f s k Ls M mc last C lv a :
  ST s k Ls [] M mc last ((cSt, false) :: (cSB, false) :: C) lv a -> lm_type mc = LLT_Unknown ->
  nth_error T k = Some tI -> nth_error T (S k) = Some tAssign -> nth_error T (S (S k)) = Some tI ->
  nth_error T (S (S (S k))) = Some tSemi -> 5 <= f ->
  ST (RUN f C_structures s) (S (S (S k))) Ls [k; S k; S (S k)] M (mkLM (lm_parent mc) (lm_level mc) LLT_Assignment) last
     ((cSt, true) :: (cSB, false) :: C) lv a.
Proof.
  intros H Hty Hk Hk1 Hk2 Hk3 Hf. destruct f as [|[|[|[|[|f]]]]]; try lia.
  assert (Hkn : k < n) by (apply nth_error_Some; congruence).
  assert (Hkn1 : S k < n) by (apply nth_error_Some; congruence).
  assert (Hkn2 : S (S k) < n) by (apply nth_error_Some; congruence).
  rewrite (run_S _ _ _ (ST_err _ _ _ _ _ _ _ _ _ _ H)).
  unfold arm_structures. rewrite (ST_cur_tt _ _ _ _ _ _ _ _ _ _ _ H Hk). cbn [tI].
  rewrite (ending_St_SB _ _ _ _ _ _ _ _ _ _ _ H Hk). cbn [tI sarm_of].
  unfold sa_other, s_other, s_loop.
  (* round 1: identifier *)
  rewrite (run_S _ C_statement _ (ST_err _ _ _ _ _ _ _ _ _ _ H)).
  unfold arm_statement. rewrite (ST_cur_tt _ _ _ _ _ _ _ _ _ _ _ H Hk). cbn [tI].
  rewrite (prelude_continue _ _ _ _ _ _ _ _ _ _ _ H Hk) by (discriminate || reflexivity). cbn [negb starm_of tI].
  unfold st_label_cand, label_or_other. rewrite (ST_at_start _ _ _ _ _ _ _ _ _ _ H).
  rewrite (next_tt_ST _ _ _ _ _ _ _ _ _ _ _ H Hk1) by discriminate. cbn [tAssign o_colon andb].
  unfold t_other, t_loop.
  pose proof (next_token_ST _ _ _ _ _ _ _ _ _ _ H Hkn) as H1. cbn [app] in H1.
  (* round 2: `:=` sets the line type *)
  rewrite (run_S _ C_statement _ (ST_err _ _ _ _ _ _ _ _ _ _ H1)).
  unfold arm_statement. rewrite (ST_cur_tt _ _ _ _ _ _ _ _ _ _ _ H1 Hk1). cbn [tAssign].
  rewrite (prelude_continue _ _ _ _ _ _ _ _ _ _ _ H1 Hk1) by (discriminate || reflexivity). cbn [negb starm_of tAssign].
  cbv delta [st_assign t_loop] beta zeta.
  pose proof (next_token_ST _ _ _ _ _ _ _ _ _ _ H1 Hkn1) as H2. cbn [app] in H2.
  rewrite (ST_cur_type _ _ _ _ _ _ _ _ _ _ H2), Hty. cbn [llt_is LogicalLineType_eqb LogicalLineType_idx Nat.eqb].
  pose proof (set_line_type_ST LLT_Assignment _ _ _ _ _ _ _ _ _ _ H2) as H3.
  (* round 3: identifier, not at the start of the line *)
  rewrite (run_S _ C_statement _ (ST_err _ _ _ _ _ _ _ _ _ _ H3)).
  unfold arm_statement. rewrite (ST_cur_tt _ _ _ _ _ _ _ _ _ _ _ H3 Hk2). cbn [tI].
  rewrite (prelude_continue _ _ _ _ _ _ _ _ _ _ _ H3 Hk2) by (discriminate || reflexivity). cbn [negb starm_of tI].
  unfold st_label_cand, label_or_other. rewrite (ST_at_start _ _ _ _ _ _ _ _ _ _ H3). cbn [andb].
  unfold t_other, t_loop.
  pose proof (next_token_ST _ _ _ _ _ _ _ _ _ _ H3 Hkn2) as H4. cbn [app] in H4.
  (* round 4: `;` *)
  rewrite (run_S _ C_statement _ (ST_err _ _ _ _ _ _ _ _ _ _ H4)).
  unfold arm_statement. rewrite (ST_cur_tt _ _ _ _ _ _ _ _ _ _ _ H4 Hk3). cbn [tSemi].
  rewrite (prelude_semicolon _ _ _ _ _ _ _ _ _ _ H4 Hk3). cbn [negb].
  pose proof (update_statuses_ST 1 _ _ _ _ _ _ _ _ _ _ H4) as H5. cbn [mark_ended] in H5.
  rewrite (run_S _ C_structures _ (ST_err _ _ _ _ _ _ _ _ _ _ H5)).
  unfold arm_structures. rewrite (ST_cur_tt _ _ _ _ _ _ _ _ _ _ _ H5 Hk3). cbn [tSemi].
  rewrite (ending_St_ended _ _ _ _ _ _ _ _ _ _ H5).
  pose proof (update_statuses_ST 1 _ _ _ _ _ _ _ _ _ _ H5) as H6. cbn [mark_ended] in H6. exact H6.
Qed.
Lemma iter_assign f s k Ls M mc last C lv a t' :
  ST s k Ls [] M mc last ((cSB, false) :: C) lv a -> first_parent C = None ->
  nth_error T k = Some tI -> nth_error T (S k) = Some tAssign -> nth_error T (S (S k)) = Some tI ->
  nth_error T (S (S (S k))) = Some tSemi -> nth_error T (S (S (S (S k)))) = Some t' -> t' <> tSemi ->
  6 <= f ->
  ST (take_separators_on_last_line pass (CL_Level 0%Z) (finish_logical_line pass (RUN f (C_with_ctx cSt A_structures) s)))
     (S (S (S (S k)))) (Ls ++ [[k; S k; S (S k); S (S (S k))]]) [] (M ++ [mkLM None (lvl (1 + plain_sum C)) LLT_Assignment])
     (mkLM None (lvl (1 + plain_sum C)) LLT_Unknown) (length Ls) ((cSB, false) :: C) lv a.
Proof.
  intros H HC Hk Hk1 Hk2 Hk3 Hk4 Hne Hf. destruct f as [|f]; [lia|].
  rewrite (with_ctx_structures f cSt s (ST_err _ _ _ _ _ _ _ _ _ _ H) eq_refl).
  pose proof (finish_empty_ST _ _ _ _ _ _ _ _ _ H) as H0.
  pose proof (push_ctx_ST cSt _ _ _ _ _ _ _ _ _ _ H0) as H1.
  pose proof (structures_assign f _ _ _ _ _ _ _ _ _ H1 eq_refl Hk Hk1 Hk2 Hk3 ltac:(lia)) as H2.
  pose proof (pop_ctx_ST _ _ _ _ _ _ _ _ _ _ _ H2) as H3.
  pose proof (finish_ST _ _ _ _ _ _ _ _ _ _ H3 ltac:(discriminate)) as H4.
  rewrite first_parent_blk, plain_sum_blk, HC in H4. cbn [lm_type] in H4.
  pose proof (take_separators_ST (CL_Level 0%Z) _ _ _ _ _ _ _ _ _ t' H4 Hk3 Hk4 Hne) as H5.
  rewrite app_length in H5. cbn [length] in H5. rewrite nth_app_last in H5.
  specialize (H5 ltac:(lia) ltac:(discriminate)). rewrite upd_nth_app_last in H5. cbn [app] in H5.
  unfold lvl. exact H5.
Qed.

(* ---------------- nested blocks *)
Definition meta_of (l : lline) : lmeta := mkLM (ll_parent l) (ll_level l) (ll_type l).
Definition need (ss : stmts) : nat := 10 + 10 * length (render ss).
Definition stmt_list_call : call := C_stmt_list (CT_Statement SK_Normal) false P_semicolon.
(* the tokens of `l` sit in T from position k on *)
Definition toks_at (k : nat) (l : list RawTokenType) : Prop := forall j t, nth_error l j = Some t -> nth_error T (k + j) = Some t.
(* what the statement-list loop does on ss inside the contexts (block bk :: C), from a line start at k *)
Definition Post (ss : stmts) (C : list (pctx * bool)) (f : nat) (s : pstate) (k : nat) (Ls : list (list nat)) (M : list lmeta)
           (lv : levels) (a : list nat) : Prop :=
  exists mc' last' fl, lm_type mc' = LLT_Unknown /\
    ST (RUN f stmt_list_call s) (k + length (render ss))
       (Ls ++ map ll_toks (expected (1 + plain_sum C) k ss)) []
       (M ++ map meta_of (expected (1 + plain_sum C) k ss)) mc' last' ((cSB, fl) :: C) lv a.
Definition IHfor (ss : stmts) (C : list (pctx * bool)) : Prop :=
  forall f s k Ls M mc last lv a, need ss <= f -> ST s k Ls [] M mc last ((cSB, false) :: C) lv a ->
  toks_at k (render ss ++ [tTerm bk]) -> Post ss C f s k Ls M lv a.

Lemma take_until_ending pred s : has_err pass s = false -> cur_tt pass s <> None -> pred s = false ->
  is_ending pass s = true -> take_until pass pred s = s.
Proof.
  intros E Hc Hp He. unfold take_until, simple_op_until, op_until.
  replace (remaining pass s + 2) with (S (remaining pass s + 1)) by lia. cbn [op_until_go]. rewrite E.
  destruct (cur_tt pass s); [|congruence]. rewrite Hp, He. reflexivity.
Qed.
Lemma ST_lists s k Ls Ls' c M M' mc last cx lv a :
  ST s k Ls c M mc last cx lv a -> Ls = Ls' -> M = M' -> ST s k Ls' c M' mc last cx lv a.
Proof. intros H -> ->. exact H. Qed.

Lemma head_tok r : exists t', nth_error (render r ++ [tTerm bk]) 0 = Some t' /\ t' <> tSemi
  /\ (r = SNil -> t' = tTerm bk) /\ (r <> SNil -> is_term bk t' = false /\ t' <> RTT_Eof).
Proof.
  destruct r; cbn; eexists; (split; [reflexivity|]); repeat split; try discriminate; try congruence.
  all: try (destruct bk; discriminate).
Qed.
Lemma toks_at_0 k l t : toks_at k l -> nth_error l 0 = Some t -> nth_error T k = Some t.
Proof. intros H H0. specialize (H 0 t H0). rewrite Nat.add_0_r in H. exact H. Qed.
Lemma toks_at_shift k m l1 l2 : toks_at k (l1 ++ l2) -> length l1 = m -> toks_at (k + m) l2.
Proof.
  intros H Hl j t Hj. specialize (H (m + j) t). rewrite nth_error_app2, <- Hl in H by lia.
  replace (length l1 + j - length l1) with j in H by lia. rewrite <- Nat.add_assoc, <- Hl. exact (H Hj).
Qed.
Lemma toks_at_prefix k l1 l2 : toks_at k (l1 ++ l2) -> toks_at k l1.
Proof. intros H j t Hj. apply H. rewrite nth_error_app1; [exact Hj|]. apply nth_error_Some. congruence. Qed.

Lemma loop_tail r C : IHfor r C ->
  forall f s3 k2 L2 M2 mc2 last2 lv a, need r <= f -> lm_type mc2 = LLT_Unknown ->
  ST s3 k2 L2 [] M2 mc2 last2 ((cSB, false) :: C) lv a -> toks_at k2 (render r ++ [tTerm bk]) ->
  exists mc' last' fl, lm_type mc' = LLT_Unknown /\
    ST (if is_ending pass s3 || match cur_tt pass s3 with None => true | Some _ => false end then s3 else RUN f stmt_list_call s3)
       (k2 + length (render r)) (L2 ++ map ll_toks (expected (1 + plain_sum C) k2 r)) []
       (M2 ++ map meta_of (expected (1 + plain_sum C) k2 r)) mc' last' ((cSB, fl) :: C) lv a.
Proof.
  intros IHr f s3 k2 L2 M2 mc2 last2 lv a Hf Hty H Ht.
  destruct (head_tok r) as (t' & H0 & N1 & E1 & E2).
  pose proof (toks_at_0 _ _ _ Ht H0) as Hk. rewrite (is_ending_SB _ _ _ _ _ _ _ _ _ _ _ H Hk).
  destruct r as [|r'|r'|b' r'|b' r'|b' c' r'] eqn:Er.
  - rewrite (E1 eq_refl), is_term_term. cbn [orb render length expected map]. rewrite !app_nil_r, Nat.add_0_r. eauto.
  - destruct (E2 ltac:(discriminate)) as [F1 F2]. rewrite F1.
    assert (X : t' = tI) by (cbn in H0; congruence). subst t'.
    rewrite (ST_cur_tt _ _ _ _ _ _ _ _ _ _ _ H Hk). cbn [tI orb]. exact (IHr _ _ _ _ _ _ _ _ _ Hf H Ht).
  - destruct (E2 ltac:(discriminate)) as [F1 F2]. rewrite F1.
    assert (X : t' = tI) by (cbn in H0; congruence). subst t'.
    rewrite (ST_cur_tt _ _ _ _ _ _ _ _ _ _ _ H Hk). cbn [tI orb]. exact (IHr _ _ _ _ _ _ _ _ _ Hf H Ht).
  - destruct (E2 ltac:(discriminate)) as [F1 F2]. rewrite F1.
    assert (X : t' = tBegin) by (cbn in H0; congruence). subst t'.
    rewrite (ST_cur_tt _ _ _ _ _ _ _ _ _ _ _ H Hk). cbn [tBegin orb]. exact (IHr _ _ _ _ _ _ _ _ _ Hf H Ht).
  - destruct (E2 ltac:(discriminate)) as [F1 F2]. rewrite F1.
    assert (X : t' = tRepeat) by (cbn in H0; congruence). subst t'.
    rewrite (ST_cur_tt _ _ _ _ _ _ _ _ _ _ _ H Hk). cbn [tRepeat orb]. exact (IHr _ _ _ _ _ _ _ _ _ Hf H Ht).
  - destruct (E2 ltac:(discriminate)) as [F1 F2]. rewrite F1.
    assert (X : t' = tTry) by (cbn in H0; congruence). subst t'.
    rewrite (ST_cur_tt _ _ _ _ _ _ _ _ _ _ _ H Hk). cbn [tTry orb]. exact (IHr _ _ _ _ _ _ _ _ _ Hf H Ht).
Qed.

(* level bookkeeping under a statement context on top of a block *)
Lemma first_parent_St_blk f1 f2 C : first_parent ((cSt, f1) :: (cSB, f2) :: C) = first_parent C.
Proof. destruct bk; reflexivity. Qed.
Lemma plain_sum_St_blk f1 f2 C : plain_sum ((cSt, f1) :: (cSB, f2) :: C) = (0 + (1 + plain_sum C))%Z.
Proof. destruct bk; reflexivity. Qed.

(* `until Identifier` : parse_statement inside the BlockClause context *)
Definition cBC : pctx := ctx CT_BlockClause false P_never (ParserGrammar.L 0).
Lemma ending_BC s k Ls c M mc last C lv a t :
  ST s k Ls c M mc last ((cBC, false) :: (cSt, false) :: (cSB, false) :: C) lv a -> nth_error T k = Some t ->
  ending_ctx pass s = match t with RTT_Op OK_Semicolon => Some 2 | _ => if is_term bk t then Some 3 else None end.
Proof.
  intros H Ht. unfold ending_ctx. rewrite (ST_ctx _ _ _ _ _ _ _ _ _ _ H). cbn [ending_go cBC cSt ctx c_pred c_opaque eval_pred].
  rewrite (blk_pred_eval bk _ _ _ _ _ _ _ _ _ _ _ H Ht), cBlk_opaque.
  rewrite (ST_cur_tt _ _ _ _ _ _ _ _ _ _ _ H Ht). pose proof (plain_nth _ _ Ht) as P.
  destruct t as [o| |k0|k0| | | | | | |]; try contradiction; try reflexivity.
  all: try (destruct o; try contradiction; reflexivity).
  all: try (destruct k0; try contradiction; cbn [o_semicolon]; destruct (is_term bk _); reflexivity).
Qed.
Lemma statement_in_clause f s k Ls c M mc last C lv a :
  ST s k Ls c M mc last ((cBC, false) :: (cSt, false) :: (cSB, false) :: C) lv a -> c <> [] ->
  nth_error T k = Some tI -> nth_error T (S k) = Some tSemi -> 2 <= f ->
  ST (RUN f C_statement s) (S k) Ls (c ++ [k]) M mc last ((cBC, true) :: (cSt, true) :: (cSB, false) :: C) lv a.
Proof.
  intros H Hc Hk Hk1 Hf. destruct f as [|[|f]]; try lia.
  assert (Hkn : k < n) by (apply nth_error_Some; congruence).
  rewrite (run_S _ C_statement _ (ST_err _ _ _ _ _ _ _ _ _ _ H)).
  unfold arm_statement. rewrite (ST_cur_tt _ _ _ _ _ _ _ _ _ _ _ H Hk). cbn [tI].
  assert (P1 : statement_prelude pass s = (s, true)).
  { unfold statement_prelude. rewrite (last_ctx_ST _ _ _ _ _ _ _ _ _ _ _ _ H), (ending_BC _ _ _ _ _ _ _ _ _ _ _ H Hk). cbn [tI is_term].
    rewrite (ST_at_start _ _ _ _ _ _ _ _ _ _ H). destruct c; [contradiction|reflexivity]. }
  rewrite P1. cbn [negb starm_of tI]. unfold st_label_cand, label_or_other. rewrite (ST_at_start _ _ _ _ _ _ _ _ _ _ H).
  destruct c as [|c0 cr]; [contradiction|]. cbn [andb]. unfold t_other, t_loop.
  pose proof (next_token_ST _ _ _ _ _ _ _ _ _ _ H Hkn) as H1.
  rewrite (run_S _ C_statement _ (ST_err _ _ _ _ _ _ _ _ _ _ H1)).
  unfold arm_statement. rewrite (ST_cur_tt _ _ _ _ _ _ _ _ _ _ _ H1 Hk1). cbn [tSemi].
  assert (P2 : statement_prelude pass (next_token pass s) = (update_statuses pass 2 (next_token pass s), false)).
  { unfold statement_prelude. rewrite (last_ctx_ST _ _ _ _ _ _ _ _ _ _ _ _ H1), (ending_BC _ _ _ _ _ _ _ _ _ _ _ H1 Hk1). reflexivity. }
  rewrite P2. cbn [negb].
  pose proof (update_statuses_ST 2 _ _ _ _ _ _ _ _ _ _ H1) as H2. cbn [mark_ended] in H2. exact H2.
Qed.

(* the end of an iteration of the statement-list loop: the statement context has just ended in front of
   the `;` that follows the last finished line `ln`; the `;` is appended to that line *)
Lemma iter_close sX e' Ly ln Mx mcX C lv a t' :
  ST sX (S e') (Ly ++ [ln]) [] Mx mcX (length Ly) ((cSt, true) :: (cSB, false) :: C) lv a -> ln <> [] ->
  nth_error T (S e') = Some tSemi -> nth_error T (S (S e')) = Some t' -> t' <> tSemi ->
  ST (take_separators_on_last_line pass (CL_Level 0%Z) (finish_logical_line pass (pop_ctx pass sX)))
     (S (S e')) (Ly ++ [ln ++ [S e']]) [] Mx (mkLM (lm_parent mcX) (lm_level mcX) LLT_Unknown) (length Ly) ((cSB, false) :: C) lv a.
Proof.
  intros H Hln Hs Hs1 Hne.
  pose proof (pop_ctx_ST _ _ _ _ _ _ _ _ _ _ _ H) as H1.
  pose proof (finish_empty_ST _ _ _ _ _ _ _ _ _ H1) as H2.
  pose proof (take_separators_ST (CL_Level 0%Z) _ _ _ _ _ _ _ _ _ t' H2 Hs Hs1 Hne) as H3.
  rewrite app_length in H3. cbn [length] in H3. rewrite nth_app_last in H3.
  specialize (H3 ltac:(lia) Hln). rewrite upd_nth_app_last in H3. exact H3.
Qed.
(* a closing keyword (`end`) followed by `;` inside a statement context: the keyword makes a line of its
   own, parse_structures returns in front of the `;` with the statement context marked as ended *)
Lemma close_keyword f s e Lx Mx mcb lastb C lv a tk :
  ST s e Lx [] Mx mcb lastb ((cSt, false) :: (cSB, false) :: C) lv a -> lm_type mcb = LLT_Unknown ->
  first_parent C = None -> nth_error T e = Some tk -> nth_error T (S e) = Some tSemi -> 1 <= f ->
  ST (RUN f C_structures (finish_logical_line pass (take_until pass (no_more_separators pass) (next_token pass s))))
     (S e) (Lx ++ [[e]]) [] (Mx ++ [mkLM None (lvl (1 + plain_sum C)) LLT_Unknown])
     (mkLM None (lvl (1 + plain_sum C)) LLT_Unknown) (length Lx) ((cSt, true) :: (cSB, false) :: C) lv a.
Proof.
  intros H Ty HC He Hs Hf. destruct f as [|f]; [lia|].
  assert (Hen : e < n) by (apply nth_error_Some; congruence).
  pose proof (next_token_ST _ _ _ _ _ _ _ _ _ _ H Hen) as H7. cbn [app] in H7.
  rewrite (take_until_ending _ _ (ST_err _ _ _ _ _ _ _ _ _ _ H7)).
  2: { rewrite (ST_cur_tt _ _ _ _ _ _ _ _ _ _ _ H7 Hs). discriminate. }
  2: { unfold no_more_separators. rewrite (ST_cur_tt _ _ _ _ _ _ _ _ _ _ _ H7 Hs). reflexivity. }
  2: { unfold is_ending. rewrite (ending_St_SB _ _ _ _ _ _ _ _ _ _ _ H7 Hs). reflexivity. }
  pose proof (finish_ST _ _ _ _ _ _ _ _ _ _ H7 ltac:(discriminate)) as H8.
  rewrite first_parent_St_blk, plain_sum_St_blk, HC, Ty in H8.
  replace (clamp_u16 (0 + (1 + plain_sum C))) with (lvl (1 + plain_sum C)) in H8 by (unfold lvl; f_equal; lia).
  rewrite (run_S _ C_structures _ (ST_err _ _ _ _ _ _ _ _ _ _ H8)).
  unfold arm_structures. rewrite (ST_cur_tt _ _ _ _ _ _ _ _ _ _ _ H8 Hs). cbn [tSemi].
  rewrite (ending_St_SB _ _ _ _ _ _ _ _ _ _ _ H8 Hs). cbn [tSemi].
  pose proof (update_statuses_ST 1 _ _ _ _ _ _ _ _ _ _ H8) as H9. cbn [mark_ended] in H9. exact H9.
Qed.
(* entering a nested block after its opening keyword: the keyword makes a line at the statement level,
   the block context is pushed *)
Lemma open_block f s k Ls M mc last C lv a bk' :
  ST s k Ls [] M mc last ((cSt, false) :: (cSB, false) :: C) lv a -> lm_type mc = LLT_Unknown ->
  first_parent C = None -> k < n ->
  let s1 := push_ctx pass (cBlk bk') (finish_logical_line pass (next_token pass s)) in
  RUN (S (S f)) (C_stmt_block (cBlk bk') SK_Normal) (next_token pass s) = pop_ctx pass (RUN f stmt_list_call s1)
  /\ ST s1 (S k) (Ls ++ [[k]]) [] (M ++ [mkLM None (lvl (1 + plain_sum C)) LLT_Unknown])
        (mkLM None (lvl (1 + plain_sum C)) LLT_Unknown) (length Ls)
        ((cBlk bk', false) :: (cSt, false) :: (cSB, false) :: C) lv a.
Proof.
  intros H Ty HC Hkn s1.
  pose proof (next_token_ST _ _ _ _ _ _ _ _ _ _ H Hkn) as H2. cbn [app] in H2.
  split.
  - rewrite (run_S _ (C_stmt_block (cBlk bk') SK_Normal) _ (ST_err _ _ _ _ _ _ _ _ _ _ H2)). unfold arm_stmt_block.
    rewrite (with_ctx_stmt_list _ (cBlk bk') _ _ (ST_err _ _ _ _ _ _ _ _ _ _ H2) (cBlk_level bk')). reflexivity.
  - pose proof (finish_ST _ _ _ _ _ _ _ _ _ _ H2 ltac:(discriminate)) as H3.
    rewrite first_parent_St_blk, plain_sum_St_blk, HC, Ty in H3.
    replace (clamp_u16 (0 + (1 + plain_sum C))) with (lvl (1 + plain_sum C)) in H3 by (unfold lvl; f_equal; lia).
    exact (push_ctx_ST (cBlk bk') _ _ _ _ _ _ _ _ _ _ H3).
Qed.
End Blk.

(* ================================================================== *)
(* the nested constructs; the outer block kind bk is arbitrary *)
Notation RUN := (run pass []).
Ltac outer_open H Hk :=
  rewrite (with_ctx_structures _ cSt _ (ST_err _ _ _ _ _ _ _ _ _ _ H) eq_refl).

Lemma iter_block bk b f s k Ls M mc last C lv a t' :
  IHfor KBegin b ((cSt, false) :: (cBlk bk, false) :: C) ->
  ST s k Ls [] M mc last ((cBlk bk, false) :: C) lv a -> first_parent C = None ->
  nth_error T k = Some tBegin -> toks_at (S k) (render b ++ [tEnd]) ->
  nth_error T (S (S k + length (render b))) = Some tSemi ->
  nth_error T (S (S (S k + length (render b)))) = Some t' -> t' <> tSemi ->
  8 + need b <= f ->
  let e := S k + length (render b) in
  exists mc3, lm_type mc3 = LLT_Unknown /\
  ST (take_separators_on_last_line pass (CL_Level 0%Z) (finish_logical_line pass (RUN f (C_with_ctx cSt A_structures) s)))
     (S (S e)) (Ls ++ [k] :: map ll_toks (expected (1 + plain_sum C + 1) (S k) b) ++ [[e; S e]]) []
     (M ++ mkLM None (lvl (1 + plain_sum C)) LLT_Unknown :: map meta_of (expected (1 + plain_sum C + 1) (S k) b)
        ++ [mkLM None (lvl (1 + plain_sum C)) LLT_Unknown])
     mc3 (length Ls + S (length (expected (1 + plain_sum C + 1) (S k) b))) ((cBlk bk, false) :: C) lv a.
Proof.
  intros IHb H HC Hk Hb Hse Hse1 Hne Hf e.
  assert (Hkn : k < n) by (apply nth_error_Some; congruence).
  destruct f as [|[|[|[|f]]]]; try lia.
  rewrite (with_ctx_structures _ cSt s (ST_err _ _ _ _ _ _ _ _ _ _ H) eq_refl).
  pose proof (finish_empty_ST _ _ _ _ _ _ _ _ _ H) as H0.
  pose proof (push_ctx_ST cSt _ _ _ _ _ _ _ _ _ _ H0) as H1.
  rewrite (run_S _ C_structures _ (ST_err _ _ _ _ _ _ _ _ _ _ H1)).
  unfold arm_structures. rewrite (ST_cur_tt _ _ _ _ _ _ _ _ _ _ _ H1 Hk). cbn [tBegin].
  rewrite (ending_St_SB bk _ _ _ _ _ _ _ _ _ _ _ H1 Hk). cbn [tBegin is_term sarm_of].
  cbv delta [sa_begin stmt_block] beta.
  change (ctx (CT_StatementBlock BK_Begin) true P_end (ParserGrammar.L 1)) with (cBlk KBegin).
  destruct (open_block bk f _ _ _ _ _ _ _ _ _ KBegin H1 eq_refl HC Hkn) as [Eq H4]. rewrite Eq. clear Eq.
  destruct (IHb f _ _ _ _ _ _ _ _ ltac:(lia) H4 Hb) as (mcb & lastb & flb & Tyb & H5).
  rewrite plain_sum_St_blk in H5. replace (1 + (0 + (1 + plain_sum C)))%Z with (1 + plain_sum C + 1)%Z in H5 by lia.
  pose proof (pop_ctx_ST _ _ _ _ _ _ _ _ _ _ _ H5) as H6. fold e in H6.
  match type of H6 with ST ?x _ _ _ _ _ _ _ _ _ => set (sB := x) in * end.
  assert (He : nth_error T e = Some tEnd).
  { specialize (Hb (length (render b)) tEnd). rewrite nth_error_app2, Nat.sub_diag in Hb by lia. exact (Hb eq_refl). }
  assert (Hen : e < n) by (apply nth_error_Some; congruence).
  cbv zeta. rewrite (ST_cur_tt _ _ _ _ _ _ _ _ _ _ _ H6 He). cbn [tEnd o_kw_end].
  pose proof (next_token_ST _ _ _ _ _ _ _ _ _ _ H6 Hen) as H7.
  rewrite (ST_cur_tt _ _ _ _ _ _ _ _ _ _ _ H7 Hse). cbn [tSemi o_dot]. unfold s_loop.
  pose proof (close_keyword bk (S (S f)) _ _ _ _ _ _ _ _ _ tEnd H6 Tyb HC He Hse ltac:(lia)) as H9.
  pose proof (iter_close bk _ _ _ _ _ _ _ _ _ t' H9 ltac:(discriminate) Hse Hse1 Hne) as H12.
  assert (EL : length ((Ls ++ [[k]]) ++ map ll_toks (expected (1 + plain_sum C + 1) (S k) b)) = length Ls + S (length (expected (1 + plain_sum C + 1) (S k) b)))
    by (rewrite !app_length, map_length; cbn [length]; lia).
  rewrite EL in H12.
  eexists. split; [|eapply ST_lists; [exact H12| |]].
  - reflexivity.
  - cbn [app]. repeat (progress (cbn [app]; rewrite <- ?app_assoc)). reflexivity.
  - repeat (progress (cbn [app]; rewrite <- ?app_assoc)). reflexivity.
Qed.

Lemma iter_repeat bk b f s k Ls M mc last C lv a t' :
  IHfor KRepeat b ((cSt, false) :: (cBlk bk, false) :: C) ->
  ST s k Ls [] M mc last ((cBlk bk, false) :: C) lv a -> first_parent C = None ->
  nth_error T k = Some tRepeat -> toks_at (S k) (render b ++ [tUntil]) ->
  nth_error T (S (S k + length (render b))) = Some tI ->
  nth_error T (S (S (S k + length (render b)))) = Some tSemi ->
  nth_error T (S (S (S (S k + length (render b))))) = Some t' -> t' <> tSemi ->
  8 + need b <= f ->
  let e := S k + length (render b) in
  exists mc3 last3, lm_type mc3 = LLT_Unknown /\
  ST (take_separators_on_last_line pass (CL_Level 0%Z) (finish_logical_line pass (RUN f (C_with_ctx cSt A_structures) s)))
     (S (S (S e))) (Ls ++ [k] :: map ll_toks (expected (1 + plain_sum C + 1) (S k) b) ++ [[e; S e; S (S e)]]) []
     (M ++ mkLM None (lvl (1 + plain_sum C)) LLT_Unknown :: map meta_of (expected (1 + plain_sum C + 1) (S k) b)
        ++ [mkLM None (lvl (1 + plain_sum C)) LLT_Unknown])
     mc3 last3 ((cBlk bk, false) :: C) lv a.
Proof.
  intros IHb H HC Hk Hb Hi Hse Hse1 Hne Hf e.
  assert (Hkn : k < n) by (apply nth_error_Some; congruence).
  destruct f as [|[|[|[|f]]]]; try lia.
  rewrite (with_ctx_structures _ cSt s (ST_err _ _ _ _ _ _ _ _ _ _ H) eq_refl).
  pose proof (finish_empty_ST _ _ _ _ _ _ _ _ _ H) as H0.
  pose proof (push_ctx_ST cSt _ _ _ _ _ _ _ _ _ _ H0) as H1.
  rewrite (run_S _ C_structures _ (ST_err _ _ _ _ _ _ _ _ _ _ H1)).
  unfold arm_structures. rewrite (ST_cur_tt _ _ _ _ _ _ _ _ _ _ _ H1 Hk). cbn [tRepeat].
  rewrite (ending_St_SB bk _ _ _ _ _ _ _ _ _ _ _ H1 Hk). cbn [tRepeat is_term sarm_of].
  cbv delta [sa_repeat stmt_block] beta.
  change (ctx (CT_StatementBlock BK_Repeat) true P_until (ParserGrammar.L 1)) with (cBlk KRepeat).
  destruct (open_block bk f _ _ _ _ _ _ _ _ _ KRepeat H1 eq_refl HC Hkn) as [Eq H4]. rewrite Eq. clear Eq.
  destruct (IHb f _ _ _ _ _ _ _ _ ltac:(lia) H4 Hb) as (mcb & lastb & flb & Tyb & H5).
  rewrite plain_sum_St_blk in H5. replace (1 + (0 + (1 + plain_sum C)))%Z with (1 + plain_sum C + 1)%Z in H5 by lia.
  pose proof (pop_ctx_ST _ _ _ _ _ _ _ _ _ _ _ H5) as H6. fold e in H6.
  match type of H6 with ST ?x _ _ _ _ _ _ _ _ _ => set (sB := x) in * end.
  assert (He : nth_error T e = Some tUntil).
  { specialize (Hb (length (render b)) tUntil). rewrite nth_error_app2, Nat.sub_diag in Hb by lia. exact (Hb eq_refl). }
  assert (Hen : e < n) by (apply nth_error_Some; congruence).
  cbv zeta.
  (* `until` Identifier *)
  pose proof (next_token_ST _ _ _ _ _ _ _ _ _ _ H6 Hen) as H7. cbn [app] in H7.
  change (ctx CT_BlockClause false P_never (ParserGrammar.L 0)) with cBC.
  pose proof (push_ctx_ST cBC _ _ _ _ _ _ _ _ _ _ H7) as H8.
  pose proof (statement_in_clause bk (S (S f)) _ _ _ _ _ _ _ _ _ _ H8 ltac:(discriminate) Hi Hse ltac:(lia)) as H9. cbn [app] in H9.
  pose proof (pop_ctx_ST _ _ _ _ _ _ _ _ _ _ _ H9) as H10.
  rewrite (take_until_ending _ _ (ST_err _ _ _ _ _ _ _ _ _ _ H10)).
  2: { rewrite (ST_cur_tt _ _ _ _ _ _ _ _ _ _ _ H10 Hse). discriminate. }
  2: { unfold no_more_separators. rewrite (ST_cur_tt _ _ _ _ _ _ _ _ _ _ _ H10 Hse). reflexivity. }
  2: { unfold is_ending. rewrite (ending_St_ended _ _ _ _ _ _ _ _ _ _ H10). reflexivity. }
  pose proof (finish_ST _ _ _ _ _ _ _ _ _ _ H10 ltac:(discriminate)) as H11.
  rewrite (first_parent_St_blk bk), (plain_sum_St_blk bk), HC, Tyb in H11.
  replace (clamp_u16 (0 + (1 + plain_sum C))) with (lvl (1 + plain_sum C)) in H11 by (unfold lvl; f_equal; lia).
  unfold s_loop.
  rewrite (run_S _ C_structures _ (ST_err _ _ _ _ _ _ _ _ _ _ H11)).
  unfold arm_structures. rewrite (ST_cur_tt _ _ _ _ _ _ _ _ _ _ _ H11 Hse). cbn [tSemi].
  rewrite (ending_St_ended _ _ _ _ _ _ _ _ _ _ H11).
  pose proof (update_statuses_ST 1 _ _ _ _ _ _ _ _ _ _ H11) as H12. cbn [mark_ended] in H12.
  pose proof (iter_close bk _ _ _ _ _ _ _ _ _ t' H12 ltac:(discriminate) Hse Hse1 Hne) as H13.
  eexists _, _. split; [|eapply ST_lists; [exact H13| |]].
  - reflexivity.
  - cbn [app]. repeat (progress (cbn [app]; rewrite <- ?app_assoc)). reflexivity.
  - repeat (progress (cbn [app]; rewrite <- ?app_assoc)). reflexivity.
Qed.

Lemma iter_try bk b c f s k Ls M mc last C lv a t' :
  IHfor KTry b ((cSt, false) :: (cBlk bk, false) :: C) -> IHfor KFinally c ((cSt, false) :: (cBlk bk, false) :: C) ->
  ST s k Ls [] M mc last ((cBlk bk, false) :: C) lv a -> first_parent C = None ->
  nth_error T k = Some tTry -> toks_at (S k) (render b ++ [tFinally]) ->
  toks_at (S (S k + length (render b))) (render c ++ [tEnd]) ->
  nth_error T (S (S (S k + length (render b)) + length (render c))) = Some tSemi ->
  nth_error T (S (S (S (S k + length (render b)) + length (render c)))) = Some t' -> t' <> tSemi ->
  8 + need b + need c <= f ->
  let m := S k + length (render b) in
  let e := S m + length (render c) in
  exists mc3 last3, lm_type mc3 = LLT_Unknown /\
  ST (take_separators_on_last_line pass (CL_Level 0%Z) (finish_logical_line pass (RUN f (C_with_ctx cSt A_structures) s)))
     (S (S e))
     (Ls ++ [k] :: map ll_toks (expected (1 + plain_sum C + 1) (S k) b) ++ [m] :: map ll_toks (expected (1 + plain_sum C + 1) (S m) c) ++ [[e; S e]]) []
     (M ++ mkLM None (lvl (1 + plain_sum C)) LLT_Unknown :: map meta_of (expected (1 + plain_sum C + 1) (S k) b)
        ++ mkLM None (lvl (1 + plain_sum C)) LLT_Unknown :: map meta_of (expected (1 + plain_sum C + 1) (S m) c)
        ++ [mkLM None (lvl (1 + plain_sum C)) LLT_Unknown])
     mc3 last3 ((cBlk bk, false) :: C) lv a.
Proof.
  intros IHb IHc H HC Hk Hb Hcn Hse Hse1 Hne Hf m e.
  assert (Hkn : k < n) by (apply nth_error_Some; congruence).
  destruct f as [|[|[|[|f]]]]; try lia.
  rewrite (with_ctx_structures _ cSt s (ST_err _ _ _ _ _ _ _ _ _ _ H) eq_refl).
  pose proof (finish_empty_ST _ _ _ _ _ _ _ _ _ H) as H0.
  pose proof (push_ctx_ST cSt _ _ _ _ _ _ _ _ _ _ H0) as H1.
  rewrite (run_S _ C_structures _ (ST_err _ _ _ _ _ _ _ _ _ _ H1)).
  unfold arm_structures. rewrite (ST_cur_tt _ _ _ _ _ _ _ _ _ _ _ H1 Hk). cbn [tTry].
  rewrite (ending_St_SB bk _ _ _ _ _ _ _ _ _ _ _ H1 Hk). cbn [tTry is_term sarm_of].
  cbv delta [sa_try stmt_block] beta.
  change (ctx (CT_StatementBlock BK_Try) true P_except_finally (ParserGrammar.L 1)) with (cBlk KTry).
  destruct (open_block bk f _ _ _ _ _ _ _ _ _ KTry H1 eq_refl HC Hkn) as [Eq H4]. rewrite Eq. clear Eq.
  destruct (IHb f _ _ _ _ _ _ _ _ ltac:(lia) H4 Hb) as (mcb & lastb & flb & Tyb & H5).
  rewrite plain_sum_St_blk in H5. replace (1 + (0 + (1 + plain_sum C)))%Z with (1 + plain_sum C + 1)%Z in H5 by lia.
  pose proof (pop_ctx_ST _ _ _ _ _ _ _ _ _ _ _ H5) as H6. fold m in H6.
  match type of H6 with ST ?x _ _ _ _ _ _ _ _ _ => set (sB := x) in * end.
  assert (Hm : nth_error T m = Some tFinally).
  { specialize (Hb (length (render b)) tFinally). rewrite nth_error_app2, Nat.sub_diag in Hb by lia. exact (Hb eq_refl). }
  assert (Hmn : m < n) by (apply nth_error_Some; congruence).
  cbv zeta. rewrite (ST_cur_tt _ _ _ _ _ _ _ _ _ _ _ H6 Hm). cbn [tFinally].
  change (ctx (CT_StatementBlock BK_Finally) true P_else_end (ParserGrammar.L 1)) with (cBlk KFinally).
  (* `finally` and its block *)
  destruct (open_block bk f _ _ _ _ _ _ _ _ _ KFinally H6 Tyb HC Hmn) as [Eq2 H4'].
  fold m in Hcn. rewrite Eq2. clear Eq2.
  destruct (IHc f _ _ _ _ _ _ _ _ ltac:(lia) H4' Hcn) as (mcc & lastc & flc & Tyc & H5').
  rewrite plain_sum_St_blk in H5'. replace (1 + (0 + (1 + plain_sum C)))%Z with (1 + plain_sum C + 1)%Z in H5' by lia.
  pose proof (pop_ctx_ST _ _ _ _ _ _ _ _ _ _ _ H5') as H6'. fold e in H6'.
  match type of H6' with ST ?x _ _ _ _ _ _ _ _ _ => set (sC := x) in * end.
  assert (He : nth_error T e = Some tEnd).
  { specialize (Hcn (length (render c)) tEnd). rewrite nth_error_app2, Nat.sub_diag in Hcn by lia. exact (Hcn eq_refl). }
  rewrite (ST_cur_tt _ _ _ _ _ _ _ _ _ _ _ H6' He). cbn [tEnd o_kw_else]. unfold s_loop.
  pose proof (close_keyword bk (S (S f)) _ _ _ _ _ _ _ _ _ tEnd H6' Tyc HC He Hse ltac:(lia)) as H9.
  pose proof (iter_close bk _ _ _ _ _ _ _ _ _ t' H9 ltac:(discriminate) Hse Hse1 Hne) as H12.
  eexists _, _. split; [|eapply ST_lists; [exact H12| |]].
  - reflexivity.
  - cbn [app]. repeat (progress (cbn [app]; rewrite <- ?app_assoc)). reflexivity.
  - repeat (progress (cbn [app]; rewrite <- ?app_assoc)). reflexivity.
Qed.
Theorem stmts_run : forall ss bk C, first_parent C = None -> IHfor bk ss C.
Proof.
  induction ss as [|r IHr|r IHr|b IHb r IHr|b IHb r IHr|b IHb c IHc r IHr]; intros bk C HC f s k Ls M mc last lv a Hf H Ht; unfold Post.
  - (* no statement: the loop runs once, in front of `end` *)
    unfold need in Hf. cbn [render length] in *. destruct f as [|[|[|f]]]; try lia.
    pose proof (toks_at_0 _ _ _ Ht eq_refl) as Hk.
    assert (Hnt : tTerm bk <> tSemi) by (destruct bk; discriminate).
    assert (Hct : cur_tt pass (push_ctx pass cSt (finish_logical_line pass s)) = Some (tTerm bk) -> True) by auto.
    unfold stmt_list_call. rewrite (stmt_list_unfold _ _ _ _ _ (ST_err _ _ _ _ _ _ _ _ _ _ H)). cbv zeta.
    change (ctx (CT_Statement SK_Normal) false P_semicolon (ParserGrammar.L 0)) with cSt.
    rewrite (with_ctx_structures _ cSt s (ST_err _ _ _ _ _ _ _ _ _ _ H) eq_refl).
    pose proof (finish_empty_ST _ _ _ _ _ _ _ _ _ H) as H0.
    pose proof (push_ctx_ST cSt _ _ _ _ _ _ _ _ _ _ H0) as H1.
    rewrite (run_S _ C_structures _ (ST_err _ _ _ _ _ _ _ _ _ _ H1)).
    unfold arm_structures. rewrite (ST_cur_tt _ _ _ _ _ _ _ _ _ _ _ H1 Hk).
    rewrite (ending_St_SB bk _ _ _ _ _ _ _ _ _ _ _ H1 Hk).
    assert (X : match tTerm bk with RTT_Eof => None | _ => Some (tTerm bk) end = Some (tTerm bk)) by (destruct bk; reflexivity). rewrite X. clear X.
    assert (X : match tTerm bk with RTT_Op OK_Semicolon => Some 1 | _ => if is_term bk (tTerm bk) then Some 2 else None end = Some 2) by (destruct bk; reflexivity). rewrite X. clear X.
    pose proof (update_statuses_ST 2 _ _ _ _ _ _ _ _ _ _ H1) as H2. cbn [mark_ended] in H2.
    pose proof (pop_ctx_ST _ _ _ _ _ _ _ _ _ _ _ H2) as H3.
    pose proof (finish_empty_ST _ _ _ _ _ _ _ _ _ H3) as H4.
    rewrite (take_separators_noop _ _ _ _ _ _ _ _ _ _ _ (tTerm bk) H4 Hk) by exact Hnt.
    assert (IE : is_ending pass (finish_logical_line pass (pop_ctx pass (update_statuses pass 2 (push_ctx pass cSt (finish_logical_line pass s))))) = true).
    { unfold is_ending, ending_ctx. rewrite (ST_ctx _ _ _ _ _ _ _ _ _ _ H4). reflexivity. }
    rewrite IE. cbn [orb expected map]. rewrite !app_nil_r, Nat.add_0_r. eexists _, _, _. split; [|exact H4]. reflexivity.
  - (* Identifier ; *)
    unfold need in Hf. cbn [render length] in *. destruct f as [|f]; [lia|].
    pose proof (Ht 0 _ eq_refl) as Hk. rewrite Nat.add_0_r in Hk.
    pose proof (Ht 1 _ eq_refl) as Hk1. replace (k + 1) with (S k) in Hk1 by lia.
    assert (Htr : toks_at (S (S k)) (render r ++ [tTerm bk])).
    { replace (S (S k)) with (k + 2) by lia. apply (toks_at_shift k 2 [tI; tSemi]); [exact Ht|reflexivity]. }
    destruct (head_tok bk r) as (t' & H0 & N1 & _). pose proof (toks_at_0 _ _ _ Htr H0) as Hk2.
    unfold stmt_list_call. rewrite (stmt_list_unfold _ _ _ _ _ (ST_err _ _ _ _ _ _ _ _ _ _ H)). cbv zeta.
    change (ctx (CT_Statement SK_Normal) false P_semicolon (ParserGrammar.L 0)) with cSt.
    pose proof (iter_simple bk f _ _ _ _ _ _ _ _ _ t' H HC Hk Hk1 Hk2 N1 ltac:(lia)) as H3.
    assert (Hn : need r <= f) by (unfold need; lia).
    pose proof (fun Hty => loop_tail bk r C (IHr bk C HC) f _ _ _ _ _ _ _ _ Hn Hty H3 Htr) as LT.
    destruct (LT eq_refl) as (mc' & last' & fl & Ty & H4).
    exists mc', last', fl. split; [exact Ty|].
    cbn [expected map]. replace (k + 1) with (S k) by lia. replace (k + 2) with (S (S k)) by lia.
    replace (k + S (S (length (render r)))) with (S (S k) + length (render r)) by lia.
    rewrite <- !app_assoc in H4. cbn [app] in H4. exact H4.
  - (* Identifier := Identifier ; *)
    unfold need in Hf. cbn [render length] in *. destruct f as [|f]; [lia|].
    pose proof (Ht 0 _ eq_refl) as Hk. rewrite Nat.add_0_r in Hk.
    pose proof (Ht 1 _ eq_refl) as Hk1. replace (k + 1) with (S k) in Hk1 by lia.
    pose proof (Ht 2 _ eq_refl) as Hk2. replace (k + 2) with (S (S k)) in Hk2 by lia.
    pose proof (Ht 3 _ eq_refl) as Hk3. replace (k + 3) with (S (S (S k))) in Hk3 by lia.
    assert (Htr : toks_at (S (S (S (S k)))) (render r ++ [tTerm bk])).
    { replace (S (S (S (S k)))) with (k + 4) by lia. apply (toks_at_shift k 4 [tI; tAssign; tI; tSemi]); [exact Ht|reflexivity]. }
    destruct (head_tok bk r) as (t' & H0 & N1 & _). pose proof (toks_at_0 _ _ _ Htr H0) as Hk4.
    unfold stmt_list_call. rewrite (stmt_list_unfold _ _ _ _ _ (ST_err _ _ _ _ _ _ _ _ _ _ H)). cbv zeta.
    change (ctx (CT_Statement SK_Normal) false P_semicolon (ParserGrammar.L 0)) with cSt.
    pose proof (iter_assign bk f _ _ _ _ _ _ _ _ _ t' H HC Hk Hk1 Hk2 Hk3 Hk4 N1 ltac:(lia)) as H3.
    assert (Hn : need r <= f) by (unfold need; lia).
    pose proof (fun Hty => loop_tail bk r C (IHr bk C HC) f _ _ _ _ _ _ _ _ Hn Hty H3 Htr) as LT.
    destruct (LT eq_refl) as (mc' & last' & fl & Ty & H4).
    exists mc', last', fl. split; [exact Ty|].
    cbn [expected map]. replace (k + 1) with (S k) by lia. replace (k + 2) with (S (S k)) by lia.
    replace (k + 3) with (S (S (S k))) by lia. replace (k + 4) with (S (S (S (S k)))) by lia.
    replace (k + S (S (S (S (length (render r)))))) with (S (S (S (S k))) + length (render r)) by lia.
    rewrite <- !app_assoc in H4. cbn [app] in H4. exact H4.
  - (* begin b end ; *)
    unfold need in Hf. cbn [render length] in *. rewrite app_length in Hf. cbn [length] in Hf. destruct f as [|f]; [lia|].
    assert (Eq : (tBegin :: render b ++ tEnd :: tSemi :: render r) ++ [tTerm bk]
                 = [tBegin] ++ (render b ++ [tEnd]) ++ [tSemi] ++ (render r ++ [tTerm bk])).
    { cbn [app]. rewrite <- !app_assoc. reflexivity. }
    rewrite Eq in Ht.
    pose proof (Ht 0 _ eq_refl) as Hk. rewrite Nat.add_0_r in Hk.
    assert (Htb : toks_at (S k) (render b ++ [tEnd])).
    { replace (S k) with (k + 1) by lia. eapply toks_at_prefix. apply (toks_at_shift k 1 [tBegin]); [exact Ht|reflexivity]. }
    set (e := S k + length (render b)).
    assert (Hts : toks_at (S e) ([tSemi] ++ render r ++ [tTerm bk])).
    { replace (S e) with (k + 1 + length (render b ++ [tEnd])) by (rewrite app_length; cbn [length]; unfold e; lia).
      apply (toks_at_shift (k + 1) _ (render b ++ [tEnd])); [|reflexivity]. apply (toks_at_shift k 1 [tBegin]); [exact Ht|reflexivity]. }
    pose proof (toks_at_0 _ _ _ Hts eq_refl) as Hse.
    assert (Htr : toks_at (S (S e)) (render r ++ [tTerm bk])).
    { replace (S (S e)) with (S e + 1) by lia. apply (toks_at_shift (S e) 1 [tSemi]); [exact Hts|reflexivity]. }
    destruct (head_tok bk r) as (t' & H0 & N1 & _). pose proof (toks_at_0 _ _ _ Htr H0) as Hse1.
    unfold stmt_list_call. rewrite (stmt_list_unfold _ _ _ _ _ (ST_err _ _ _ _ _ _ _ _ _ _ H)). cbv zeta.
    change (ctx (CT_Statement SK_Normal) false P_semicolon (ParserGrammar.L 0)) with cSt.
    assert (HC' : first_parent ((cSt, false) :: (cBlk bk, false) :: C) = None) by (rewrite first_parent_St_blk; exact HC).
    destruct (iter_block bk b f _ _ _ _ _ _ _ _ _ t' (IHb KBegin _ HC') H HC Hk Htb Hse Hse1 N1 ltac:(unfold need; lia)) as (mc3 & Ty3 & H3).
    fold e in H3.
    destruct (loop_tail bk r C (IHr bk C HC) f _ _ _ _ _ _ _ _ ltac:(unfold need; lia) Ty3 H3 Htr) as (mc' & last' & fl & Ty & H4).
    exists mc', last', fl. split; [exact Ty|].
    cbn [expected]. cbv zeta. replace (k + 1) with (S k) by lia. fold e.
    replace (e + 1) with (S e) by lia. replace (e + 2) with (S (S e)) by lia.
    replace (k + S (length (render b ++ tEnd :: tSemi :: render r))) with (S (S e) + length (render r))
      by (rewrite app_length; cbn [length]; unfold e; lia).
    eapply ST_lists; [exact H4| |]; cbn [map]; repeat (rewrite map_app; cbn [map]); cbn [map app ll_toks]; repeat (progress (cbn [app]; rewrite <- ?app_assoc)); reflexivity.
  - (* repeat b until Identifier ; *)
    unfold need in Hf. cbn [render length] in *. rewrite app_length in Hf. cbn [length] in Hf. destruct f as [|f]; [lia|].
    assert (Eq : (tRepeat :: render b ++ tUntil :: tI :: tSemi :: render r) ++ [tTerm bk]
                 = [tRepeat] ++ (render b ++ [tUntil]) ++ [tI; tSemi] ++ (render r ++ [tTerm bk])).
    { cbn [app]. rewrite <- !app_assoc. reflexivity. }
    rewrite Eq in Ht.
    pose proof (Ht 0 _ eq_refl) as Hk. rewrite Nat.add_0_r in Hk.
    assert (Htb : toks_at (S k) (render b ++ [tUntil])).
    { replace (S k) with (k + 1) by lia. eapply toks_at_prefix. apply (toks_at_shift k 1 [tRepeat]); [exact Ht|reflexivity]. }
    set (e := S k + length (render b)).
    assert (Hts : toks_at (S e) ([tI; tSemi] ++ render r ++ [tTerm bk])).
    { replace (S e) with (k + 1 + length (render b ++ [tUntil])) by (rewrite app_length; cbn [length]; unfold e; lia).
      apply (toks_at_shift (k + 1) _ (render b ++ [tUntil])); [|reflexivity]. apply (toks_at_shift k 1 [tRepeat]); [exact Ht|reflexivity]. }
    pose proof (toks_at_0 _ _ _ Hts eq_refl) as Hi.
    pose proof (Hts 1 _ eq_refl) as Hse. replace (S e + 1) with (S (S e)) in Hse by lia.
    assert (Htr : toks_at (S (S (S e))) (render r ++ [tTerm bk])).
    { replace (S (S (S e))) with (S e + 2) by lia. apply (toks_at_shift (S e) 2 [tI; tSemi]); [exact Hts|reflexivity]. }
    destruct (head_tok bk r) as (t' & H0 & N1 & _). pose proof (toks_at_0 _ _ _ Htr H0) as Hse1.
    unfold stmt_list_call. rewrite (stmt_list_unfold _ _ _ _ _ (ST_err _ _ _ _ _ _ _ _ _ _ H)). cbv zeta.
    change (ctx (CT_Statement SK_Normal) false P_semicolon (ParserGrammar.L 0)) with cSt.
    assert (HC' : first_parent ((cSt, false) :: (cBlk bk, false) :: C) = None) by (rewrite first_parent_St_blk; exact HC).
    destruct (iter_repeat bk b f _ _ _ _ _ _ _ _ _ t' (IHb KRepeat _ HC') H HC Hk Htb Hi Hse Hse1 N1 ltac:(unfold need; lia)) as (mc3 & last3 & Ty3 & H3).
    fold e in H3.
    destruct (loop_tail bk r C (IHr bk C HC) f _ _ _ _ _ _ _ _ ltac:(unfold need; lia) Ty3 H3 Htr) as (mc' & last' & fl & Ty & H4).
    exists mc', last', fl. split; [exact Ty|].
    cbn [expected]. cbv zeta. replace (k + 1) with (S k) by lia. fold e.
    replace (e + 1) with (S e) by lia. replace (e + 2) with (S (S e)) by lia. replace (e + 3) with (S (S (S e))) by lia.
    replace (k + S (length (render b ++ tUntil :: tI :: tSemi :: render r))) with (S (S (S e)) + length (render r))
      by (rewrite app_length; cbn [length]; unfold e; lia).
    eapply ST_lists; [exact H4| |]; cbn [map]; repeat (rewrite map_app; cbn [map]); cbn [map app ll_toks]; repeat (progress (cbn [app]; rewrite <- ?app_assoc)); reflexivity.
  - (* try b finally c end ; *)
    unfold need in Hf. cbn [render length] in *. rewrite !app_length in Hf. cbn [length] in Hf. rewrite app_length in Hf. cbn [length] in Hf.
    destruct f as [|f]; [lia|].
    assert (Eq : (tTry :: render b ++ tFinally :: render c ++ tEnd :: tSemi :: render r) ++ [tTerm bk]
                 = [tTry] ++ (render b ++ [tFinally]) ++ (render c ++ [tEnd]) ++ [tSemi] ++ (render r ++ [tTerm bk])).
    { cbn [app]. rewrite <- !app_assoc. cbn [app]. rewrite <- !app_assoc. reflexivity. }
    rewrite Eq in Ht.
    pose proof (Ht 0 _ eq_refl) as Hk. rewrite Nat.add_0_r in Hk.
    assert (Htb : toks_at (S k) (render b ++ [tFinally])).
    { replace (S k) with (k + 1) by lia. eapply toks_at_prefix. apply (toks_at_shift k 1 [tTry]); [exact Ht|reflexivity]. }
    set (m := S k + length (render b)).
    assert (Ht2 : toks_at (S m) ((render c ++ [tEnd]) ++ [tSemi] ++ render r ++ [tTerm bk])).
    { replace (S m) with (k + 1 + length (render b ++ [tFinally])) by (rewrite app_length; cbn [length]; unfold m; lia).
      apply (toks_at_shift (k + 1) _ (render b ++ [tFinally])); [|reflexivity]. apply (toks_at_shift k 1 [tTry]); [exact Ht|reflexivity]. }
    assert (Htc : toks_at (S m) (render c ++ [tEnd])) by (eapply toks_at_prefix; exact Ht2).
    set (e := S m + length (render c)).
    assert (Hts : toks_at (S e) ([tSemi] ++ render r ++ [tTerm bk])).
    { replace (S e) with (S m + length (render c ++ [tEnd])) by (rewrite app_length; cbn [length]; unfold e; lia).
      apply (toks_at_shift (S m) _ (render c ++ [tEnd])); [exact Ht2|reflexivity]. }
    pose proof (toks_at_0 _ _ _ Hts eq_refl) as Hse.
    assert (Htr : toks_at (S (S e)) (render r ++ [tTerm bk])).
    { replace (S (S e)) with (S e + 1) by lia. apply (toks_at_shift (S e) 1 [tSemi]); [exact Hts|reflexivity]. }
    destruct (head_tok bk r) as (t' & H0 & N1 & _). pose proof (toks_at_0 _ _ _ Htr H0) as Hse1.
    unfold stmt_list_call. rewrite (stmt_list_unfold _ _ _ _ _ (ST_err _ _ _ _ _ _ _ _ _ _ H)). cbv zeta.
    change (ctx (CT_Statement SK_Normal) false P_semicolon (ParserGrammar.L 0)) with cSt.
    assert (HC' : first_parent ((cSt, false) :: (cBlk bk, false) :: C) = None) by (rewrite first_parent_St_blk; exact HC).
    destruct (iter_try bk b c f _ _ _ _ _ _ _ _ _ t' (IHb KTry _ HC') (IHc KFinally _ HC') H HC Hk Htb Htc Hse Hse1 N1 ltac:(unfold need; lia)) as (mc3 & last3 & Ty3 & H3).
    fold m in H3. fold e in H3.
    destruct (loop_tail bk r C (IHr bk C HC) f _ _ _ _ _ _ _ _ ltac:(unfold need; lia) Ty3 H3 Htr) as (mc' & last' & fl & Ty & H4).
    exists mc', last', fl. split; [exact Ty|].
    cbn [expected]. cbv zeta. replace (k + 1) with (S k) by lia. fold m. replace (m + 1) with (S m) by lia. fold e.
    replace (e + 1) with (S e) by lia. replace (e + 2) with (S (S e)) by lia.
    replace (k + S (length (render b ++ tFinally :: render c ++ tEnd :: tSemi :: render r))) with (S (S e) + length (render r))
      by (rewrite !app_length; cbn [length]; rewrite app_length; cbn [length]; unfold e, m; lia).
    eapply ST_lists; [exact H4| |]; cbn [map]; repeat (rewrite map_app; cbn [map]); cbn [map app ll_toks]; repeat (progress (cbn [app]; rewrite <- ?app_assoc)); reflexivity.
Qed.

(* ---------------- a whole program: `begin` ss `end` `.` Eof *)
Theorem prog_run ss f s0 mc0 last0 lv a :
  ST s0 0 [] [] [] mc0 last0 [] lv a ->
  nth_error T 0 = Some tBegin -> toks_at 1 (render ss ++ [tEnd]) ->
  nth_error T (S (S (length (render ss)))) = Some tDot ->
  nth_error T (S (S (S (length (render ss))))) = Some RTT_Eof ->
  n = S (S (S (S (length (render ss))))) ->
  8 + need ss <= f ->
  let e := S (length (render ss)) in
  exists mc' last',
    ST (RUN f C_top s0) n
       ([0] :: map ll_toks (expected 1 1 ss) ++ [[e; S e]; [S (S e)]]) []
       (mkLM None 0%N LLT_Unknown :: map meta_of (expected 1 1 ss) ++ [mkLM None 0%N LLT_Unknown; mkLM None 0%N LLT_Eof])
       mc' last' [] lv a.
Proof.
  intros H Ht0 Htb HtD HtE Hn Hf e.
  destruct f as [|[|[|[|[|[|[|f]]]]]]]; try lia.
  assert (H0n : 0 < n) by lia.
  rewrite (run_S _ C_top _ (ST_err _ _ _ _ _ _ _ _ _ _ H)). unfold arm_top. cbv zeta.
  (* the top-level loop: one iteration *)
  rewrite (stmt_list_unfold _ _ _ _ _ (ST_err _ _ _ _ _ _ _ _ _ _ H)). cbv zeta.
  change (ctx CT_TopLevelStatement true P_top_semicolon (ParserGrammar.L 0)) with cTop.
  rewrite (with_ctx_structures _ cTop s0 (ST_err _ _ _ _ _ _ _ _ _ _ H) eq_refl).
  pose proof (finish_empty_ST _ _ _ _ _ _ _ _ _ H) as H0.
  pose proof (push_ctx_ST cTop _ _ _ _ _ _ _ _ _ _ H0) as H1.
  rewrite (run_S _ C_structures _ (ST_err _ _ _ _ _ _ _ _ _ _ H1)).
  unfold arm_structures. rewrite (ST_cur_tt _ _ _ _ _ _ _ _ _ _ _ H1 Ht0). cbn [tBegin].
  assert (E1 : ending_ctx pass (push_ctx pass cTop (finish_logical_line pass s0)) = None).
  { unfold ending_ctx. rewrite (ST_ctx _ _ _ _ _ _ _ _ _ _ H1). cbn [ending_go cTop ctx c_pred c_opaque eval_pred].
    rewrite (ST_cur_tt _ _ _ _ _ _ _ _ _ _ _ H1 Ht0). reflexivity. }
  rewrite E1. cbn [sarm_of]. cbv delta [sa_begin stmt_block] beta.
  pose proof (next_token_ST _ _ _ _ _ _ _ _ _ _ H1 H0n) as H2. cbn [app] in H2.
  change (ctx (CT_StatementBlock BK_Begin) true P_end (ParserGrammar.L 1)) with (cBlk KBegin).
  rewrite (run_S _ (C_stmt_block (cBlk KBegin) SK_Normal) _ (ST_err _ _ _ _ _ _ _ _ _ _ H2)). unfold arm_stmt_block.
  rewrite (with_ctx_stmt_list _ (cBlk KBegin) _ _ (ST_err _ _ _ _ _ _ _ _ _ _ H2) eq_refl).
  pose proof (finish_ST _ _ _ _ _ _ _ _ _ _ H2 ltac:(discriminate)) as H3.
  cbn [first_parent plain_sum cTop ctx c_level ParserGrammar.L lm_type app length] in H3.
  change (clamp_u16 (0 + 0)) with 0%N in H3.
  pose proof (push_ctx_ST (cBlk KBegin) _ _ _ _ _ _ _ _ _ _ H3) as H4.
  destruct (stmts_run ss KBegin [(cTop, false)] eq_refl (S f) _ _ _ _ _ _ _ _ ltac:(lia) H4 Htb) as (mcb & lastb & flb & Tyb & H5).
  change (C_stmt_list (CT_Statement SK_Normal) false P_semicolon) with stmt_list_call.
  cbn [plain_sum cTop ctx c_level ParserGrammar.L] in H5. change (1 + (0 + 0))%Z with 1%Z in H5.
  pose proof (pop_ctx_ST _ _ _ _ _ _ _ _ _ _ _ H5) as H6.
  change (1 + length (render ss)) with e in H6.
  set (sB := pop_ctx pass (RUN (S f) stmt_list_call (push_ctx pass (cBlk KBegin) (finish_logical_line pass (next_token pass (push_ctx pass cTop (finish_logical_line pass s0))))))) in *.
  assert (He : nth_error T e = Some tEnd).
  { specialize (Htb (length (render ss)) tEnd). rewrite nth_error_app2, Nat.sub_diag in Htb by lia. exact (Htb eq_refl). }
  assert (Hen : e < n) by (unfold e; lia). assert (Hen1 : S e < n) by (unfold e; lia). assert (Hen2 : S (S e) < n) by (unfold e; lia).
  rewrite (ST_cur_tt _ _ _ _ _ _ _ _ _ _ _ H6 He). cbn [tEnd o_kw_end].
  pose proof (next_token_ST _ _ _ _ _ _ _ _ _ _ H6 Hen) as H7. cbn [app] in H7.
  rewrite (ST_cur_tt _ _ _ _ _ _ _ _ _ _ _ H7 HtD). cbn [tDot o_dot].
  pose proof (next_token_ST _ _ _ _ _ _ _ _ _ _ H7 Hen1) as H8. cbn [app] in H8.
  pose proof (finish_ST _ _ _ _ _ _ _ _ _ _ H8 ltac:(discriminate)) as H9.
  cbn [first_parent plain_sum cTop ctx c_level ParserGrammar.L] in H9. rewrite Tyb in H9.
  change (clamp_u16 (0 + 0)) with 0%N in H9.
  unfold s_loop.
  rewrite (run_S _ C_structures _ (ST_err _ _ _ _ _ _ _ _ _ _ H9)).
  unfold arm_structures. rewrite (ST_cur_tt _ _ _ _ _ _ _ _ _ _ _ H9 HtE).
  pose proof (pop_ctx_ST _ _ _ _ _ _ _ _ _ _ _ H9) as H10.
  pose proof (finish_empty_ST _ _ _ _ _ _ _ _ _ H10) as H11.
  rewrite (take_separators_noop _ _ _ _ _ _ _ _ _ _ _ RTT_Eof H11 HtE) by discriminate.
  rewrite (ST_cur_tt _ _ _ _ _ _ _ _ _ _ _ H11 HtE). rewrite orb_true_r.
  (* the Eof line *)
  pose proof (finish_empty_ST _ _ _ _ _ _ _ _ _ H11) as H12.
  pose proof (next_token_ST _ _ _ _ _ _ _ _ _ _ H12 Hen2) as H13. cbn [app] in H13.
  pose proof (set_line_type_ST LLT_Eof _ _ _ _ _ _ _ _ _ _ H13) as H14.
  pose proof (finish_ST _ _ _ _ _ _ _ _ _ _ H14 ltac:(discriminate)) as H15.
  cbn [first_parent plain_sum lm_type] in H15. change (clamp_u16 0) with 0%N in H15.
  assert (Hn' : S (S (S e)) = n) by (unfold e; lia). rewrite Hn' in H15.
  eexists _, _. eapply ST_lists.
  - exact H15.
  - cbn [app]. repeat (progress (cbn [app]; rewrite <- ?app_assoc)). reflexivity.
  - cbn [app]. repeat (progress (cbn [app]; rewrite <- ?app_assoc)). reflexivity.
Qed.

End Frag.

(* ================================================================== *)
(* instantiation: T := render_prog ss *)
Lemma render_plain ss : Forall plain (render ss).
Proof.
  induction ss as [|r IH|r IH|b IHb r IHr|b IHb r IHr|b IHb c IHc r IHr]; cbn [render].
  - constructor.
  - repeat (constructor; [exact I|]). exact IH.
  - repeat (constructor; [exact I|]). exact IH.
  - constructor; [exact I|]. apply Forall_app. split; [exact IHb|]. repeat (constructor; [exact I|]). exact IHr.
  - constructor; [exact I|]. apply Forall_app. split; [exact IHb|]. repeat (constructor; [exact I|]). exact IHr.
  - constructor; [exact I|]. apply Forall_app. split; [exact IHb|]. constructor; [exact I|].
    apply Forall_app. split; [exact IHc|]. repeat (constructor; [exact I|]). exact IHr.
Qed.
Lemma render_prog_plain ss : Forall plain (render_prog ss).
Proof.
  unfold render_prog. constructor; [exact I|]. apply Forall_app. split; [apply render_plain|]. repeat (constructor; [exact I|]). constructor.
Qed.
Lemma render_prog_length ss : length (render_prog ss) = S (S (S (S (length (render ss))))).
Proof. unfold render_prog. cbn [length]. rewrite app_length. cbn [length]. lia. Qed.

Lemma rebuild_lines E : map (fun p => mkLine (lm_type (snd p)) (lm_level (snd p)) (lm_parent (snd p)) (fst p))
                            (combine (map ll_toks E) (map meta_of E)) = E.
Proof. induction E as [|l E IH]; [reflexivity|]. cbn. rewrite IH. destruct l; reflexivity. Qed.
Lemma combine_app {A B} (l1 l1' : list A) (l2 l2' : list B) : length l1 = length l2 ->
  combine (l1 ++ l1') (l2 ++ l2') = combine l1 l2 ++ combine l1' l2'.
Proof. revert l2. induction l1 as [|a l1 IH]; intros [|b l2] H; cbn in *; try lia; [reflexivity|]. rewrite IH by lia. reflexivity. Qed.

Lemma pass_lines_ST T s k Ls c M mc last cx lv a :
  ST T s k Ls c M mc last cx lv a ->
  pass_lines (seq 0 (length T)) s =
  map (fun p => mkLine (lm_type (snd p)) (lm_level (snd p)) (lm_parent (snd p)) (fst p)) (combine Ls M)
  ++ [mkLine (lm_type mc) (lm_level mc) (lm_parent mc) c].
Proof.
  intros (K & Mt & Ml & _). unfold pass_lines. rewrite K, Mt. cbn [k_lines].
  rewrite combine_app by (symmetry; exact Ml). rewrite map_app. reflexivity.
Qed.

Lemma increasing_seq z m : increasing (seq z m).
Proof.
  revert z. induction m as [|m IH]; intros z; cbn; constructor; [apply IH|].
  apply Forall_forall. intros x Hx. apply in_seq in Hx. lia.
Qed.

(* the pass of a program of the fragment: no error, consumed, exactly the expected lines (followed by
   the empty line that is current at the end) *)
Theorem fragment_parse_pass ss :
  let T := render_prog ss in
  let pass := seq 0 (length T) in
  ps_err pass (parse_pass pass [] T []) = None /\ pidx pass (parse_pass pass [] T []) = length pass
  /\ ps_toks pass (parse_pass pass [] T []) = T
  /\ exists el, ll_toks el = [] /\ pass_lines pass (parse_pass pass [] T []) = expected_prog ss ++ [el].
Proof.
  intros T pass.
  pose proof (render_prog_plain ss) as P. pose proof (render_prog_length ss) as Ln. fold T in P, Ln.
  assert (H0 : ST T (ps_init pass T []) 0 [] [] [] lm0 0 [] (0%N, 0%N, 0%N) []).
  { split; [reflexivity|]. split; [reflexivity|]. split; reflexivity. }
  assert (Ht0 : nth_error T 0 = Some tBegin) by reflexivity.
  assert (Htb : toks_at T 1 (render ss ++ [tEnd])).
  { intros j t Hj. change (nth_error (render ss ++ [tEnd; tDot; RTT_Eof]) j = Some t).
    replace (render ss ++ [tEnd; tDot; RTT_Eof]) with ((render ss ++ [tEnd]) ++ [tDot; RTT_Eof]) by (rewrite <- app_assoc; reflexivity).
    rewrite nth_error_app1; [exact Hj|]. apply nth_error_Some. congruence. }
  assert (HtD : nth_error T (S (S (length (render ss)))) = Some tDot).
  { change (nth_error (render ss ++ [tEnd; tDot; RTT_Eof]) (S (length (render ss))) = Some tDot).
    rewrite nth_error_app2 by lia. replace (S (length (render ss)) - length (render ss)) with 1 by lia. reflexivity. }
  assert (HtE : nth_error T (S (S (S (length (render ss))))) = Some RTT_Eof).
  { change (nth_error (render ss ++ [tEnd; tDot; RTT_Eof]) (S (S (length (render ss)))) = Some RTT_Eof).
    rewrite nth_error_app2 by lia. replace (S (S (length (render ss))) - length (render ss)) with 2 by lia. reflexivity. }
  assert (Hf : 8 + need ss <= run_fuel pass).
  { unfold run_fuel, need, pass. rewrite seq_length, Ln. lia. }
  unfold parse_pass. set (f := run_fuel pass) in *. clearbody f.
  destruct (prog_run T P ss f _ _ _ _ _ H0 Ht0 Htb HtD HtE Ln Hf) as (mc' & last' & H).
  fold pass in H. set (s := run pass [] f C_top (ps_init pass T [])) in *.
  split; [exact (ST_err_none T _ _ _ _ _ _ _ _ _ _ H)|]. split; [|split; [exact (ST_toks T _ _ _ _ _ _ _ _ _ _ H)|]].
  - transitivity (length T); [exact (ST_pidx T _ _ _ _ _ _ _ _ _ _ H)|unfold pass; rewrite seq_length; reflexivity].
  - exists (mkLine (lm_type mc') (lm_level mc') (lm_parent mc') []). split; [reflexivity|].
    etransitivity; [exact (pass_lines_ST T _ _ _ _ _ _ _ _ _ _ H)|]. f_equal.
    set (e := S (length (render ss))) in *.
    assert (EL : [0] :: map ll_toks (expected 1 1 ss) ++ [[e; S e]; [S (S e)]] = map ll_toks (expected_prog ss)).
    { unfold expected_prog. cbv zeta. cbn [map ll_toks]. rewrite map_app. cbn [map ll_toks].
      change (1 + length (render ss)) with e. replace (e + 1) with (S e) by lia. replace (e + 2) with (S (S e)) by lia. reflexivity. }
    assert (EM : mkLM None 0%N LLT_Unknown :: map meta_of (expected 1 1 ss) ++ [mkLM None 0%N LLT_Unknown; mkLM None 0%N LLT_Eof]
                 = map meta_of (expected_prog ss)).
    { unfold expected_prog. cbv zeta. cbn [map meta_of ll_parent ll_level ll_type]. rewrite map_app. reflexivity. }
    rewrite EL, EM. apply rebuild_lines.
Qed.

(* ================================================================== *)
(* parse_file on the fragment *)
Definition nonempty_line (l : lline) : bool := match ll_toks l with [] => false | _ :: _ => true end.

Lemma lline_eqb_false_toks a b : ll_toks a <> ll_toks b -> lline_eqb a b = false.
Proof.
  intros H. unfold lline_eqb. destruct (nat_list_eqb (ll_toks a) (ll_toks b)) eqn:E; [|apply andb_false_r].
  apply nat_list_eqb_eq in E. contradiction.
Qed.
Lemma index_of_line_none l : forall acc k, (forall a, In a acc -> ll_toks a <> ll_toks l) -> index_of_line l acc k = None.
Proof.
  induction acc as [|a r IH]; intros k H; cbn; [reflexivity|].
  rewrite lline_eqb_false_toks by (intros E; apply (H a (or_introl eq_refl)); symmetry; exact E).
  apply IH. intros x Hx. apply H. right. exact Hx.
Qed.
(* consolidation of lines without parents and without a shared token: the non-empty lines, in order *)
Lemma consolidate_fresh : forall pl pre mapped,
  NoDup (concat (map ll_toks (pre ++ pl))) -> Forall (fun l => ll_toks l = [] \/ ll_parent l = None) pl ->
  fst (fold_left consolidate_step pl (filter nonempty_line pre, mapped)) = filter nonempty_line pre ++ filter nonempty_line pl.
Proof.
  induction pl as [|x pl IH]; intros pre mapped Hnd Hp; cbn [fold_left filter]; [rewrite app_nil_r; reflexivity|].
  pose proof (Forall_inv Hp) as Hx. pose proof (Forall_inv_tail Hp) as Hp'.
  assert (Hnd' : NoDup (concat (map ll_toks ((pre ++ [x]) ++ pl)))) by (rewrite <- app_assoc; exact Hnd).
  cbn [consolidate_step]. destruct (ll_toks x) as [|t r] eqn:Et.
  - assert (Nx : nonempty_line x = false) by (unfold nonempty_line; rewrite Et; reflexivity).
    specialize (IH (pre ++ [x]) (mapped ++ [None]) Hnd' Hp').
    rewrite filter_app in IH. cbn [filter] in IH. rewrite Nx, app_nil_r in IH. rewrite Nx. exact IH.
  - assert (Nx : nonempty_line x = true) by (unfold nonempty_line; rewrite Et; reflexivity).
    destruct Hx as [Hx|Hx]; [congruence|]. rewrite Hx.
    assert (Ex : mkLine (ll_type x) (ll_level x) None (t :: r) = x) by (destruct x; cbn in *; subst; reflexivity).
    rewrite Ex, Nx.
    rewrite index_of_line_none.
    + specialize (IH (pre ++ [x]) (mapped ++ [Some (length (filter nonempty_line pre))]) Hnd' Hp').
      rewrite filter_app in IH. cbn [filter] in IH. rewrite Nx in IH.
      rewrite IH, <- app_assoc. reflexivity.
    + intros a Ha E. apply filter_In in Ha. destruct Ha as [Ha _].
      rewrite map_app, concat_app in Hnd. cbn [map concat] in Hnd.
      apply (nodup_app_disj _ _ t Hnd).
      * apply in_concat. exists (ll_toks a). split; [apply in_map, Ha|]. rewrite E, Et. left. reflexivity.
      * apply in_or_app. left. rewrite Et. left. reflexivity.
Qed.
Lemma consolidate_fresh0 pl :
  NoDup (concat (map ll_toks pl)) -> Forall (fun l => ll_toks l = [] \/ ll_parent l = None) pl ->
  consolidate_pass_lines [] pl = filter nonempty_line pl.
Proof. intros H1 H2. unfold consolidate_pass_lines. apply (consolidate_fresh pl [] [] H1 H2). Qed.

Lemma expected_props : forall ss d k, Forall (fun l => nonempty_line l = true /\ ll_parent l = None) (expected d k ss).
Proof.
  induction ss as [|r IH|r IH|b IHb r IHr|b IHb r IHr|b IHb c IHc r IHr]; intros d k; cbn [expected]; cbv zeta.
  - constructor.
  - constructor; [split; reflexivity|apply IH].
  - constructor; [split; reflexivity|apply IH].
  - constructor; [split; reflexivity|]. apply Forall_app. split; [apply IHb|]. constructor; [split; reflexivity|apply IHr].
  - constructor; [split; reflexivity|]. apply Forall_app. split; [apply IHb|]. constructor; [split; reflexivity|apply IHr].
  - constructor; [split; reflexivity|]. apply Forall_app. split; [apply IHb|]. constructor; [split; reflexivity|].
    apply Forall_app. split; [apply IHc|]. constructor; [split; reflexivity|apply IHr].
Qed.
Lemma expected_prog_props ss : Forall (fun l => nonempty_line l = true /\ ll_parent l = None) (expected_prog ss).
Proof.
  unfold expected_prog. cbv zeta. constructor; [split; reflexivity|]. apply Forall_app. split; [apply expected_props|].
  repeat (constructor; [split; reflexivity|]). constructor.
Qed.
Lemma filter_all {A} (p : A -> bool) l : Forall (fun x => p x = true) l -> filter p l = l.
Proof. induction 1 as [|x l Hx _ IH]; cbn; [reflexivity|]. rewrite Hx, IH. reflexivity. Qed.

Lemma cement_plain t : plain t -> cement t = t.
Proof. destruct t; cbn; try reflexivity; contradiction. Qed.
Lemma upd_nth_id {A} (f : A -> A) i : forall l, (forall x, In x l -> f x = x) -> upd_nth i f l = l.
Proof.
  revert i. induction i as [|i IH]; intros [|a l] H; cbn; try reflexivity.
  - rewrite H by (left; reflexivity). reflexivity.
  - rewrite IH; [reflexivity|]. intros x Hx. apply H. right. exact Hx.
Qed.
Lemma cement_fold_plain T : Forall plain T -> forall pass, fold_left (fun ts p => upd_nth p cement ts) pass T = T.
Proof.
  intros P. induction pass as [|p r IH]; cbn [fold_left]; [reflexivity|].
  rewrite upd_nth_id; [exact IH|]. intros x Hx. apply cement_plain. exact (proj1 (Forall_forall _ _) P x Hx).
Qed.
Lemma directive_lines_plain : forall T k attr lv, Forall plain T -> directive_lines T k attr lv = [].
Proof.
  induction T as [|t T IH]; intros k attr lv P; cbn [directive_lines]; [reflexivity|].
  pose proof (Forall_inv P) as Pt. pose proof (Forall_inv_tail P) as P'.
  destruct (existsb (Nat.eqb k) attr); [apply IH, P'|].
  destruct t; try contradiction; apply IH, P'.
Qed.
Lemma plain_no_directive T : Forall plain T -> Forall (fun ty => cd_kind ty = None) T.
Proof. intros P. eapply Forall_impl; [|exact P]. intros t Ht. destruct t; try reflexivity; contradiction. Qed.

Lemma consolidate_nil_r X : consolidate_pass_lines X [] = X.
Proof. reflexivity. Qed.

(* THE THEOREM (stage 1): for every program of the fragment — any nesting depth, any number of
   statements — the closed model of parse_file ends without error and returns EXACTLY the expected lines:
   every statement on its own line one level deeper than the `begin` line of its block, `end ;` at the
   level of its `begin`, `end .` and the single Eof line (holding only the Eof token) at level 0, no parents *)
Theorem fragment_parse_file ss :
  let r := parse_file_model (render_prog ss) [] in
  r_err r = None /\ r_lines r = expected_prog ss /\ r_toks r = render_prog ss.
Proof.
  set (T := render_prog ss). pose proof (render_prog_plain ss) as P. fold T in P.
  unfold parse_file_model. rewrite (no_directives_single_identity_pass T (plain_no_directive T P)).
  unfold parse_file_with. cbn [parse_passes].
  destruct (fragment_parse_pass ss) as (He & Hpi & Htoks & el & Hel & Hpl). fold T in He, Hpi, Htoks, Hpl.
  set (pass := seq 0 (length T)) in *.
  pose proof (parse_pass_lines_wf pass [] T [] (increasing_seq 0 (length T))) as (_ & Hnd & _).
  set (s := parse_pass pass [] T []) in *. clearbody s.
  rewrite He.
  rewrite Htoks, (cement_fold_plain T P pass), (directive_lines_plain T 0 _ 0%N P).
  cbn [r_err r_lines r_toks]. split; [reflexivity|]. split; [|reflexivity].
  rewrite consolidate_nil_r.
  rewrite consolidate_fresh0.
  - rewrite Hpl, filter_app. cbn [filter]. unfold nonempty_line at 2. rewrite Hel, app_nil_r.
    apply filter_all. eapply Forall_impl; [|apply expected_prog_props]. intros l [H _]. exact H.
  - exact Hnd.
  - rewrite Hpl. apply Forall_app. split.
    + eapply Forall_impl; [|apply expected_prog_props]. intros l [_ H]. right. exact H.
    + constructor; [left; exact Hel|constructor].
Qed.

(* ---------------- the well-formedness clauses, read off the expected lines *)
Lemma expected_no_eof : forall ss d k, Forall (fun l => ll_type l <> LLT_Eof) (expected d k ss).
Proof.
  induction ss as [|r IH|r IH|b IHb r IHr|b IHb r IHr|b IHb c IHc r IHr]; intros d k; cbn [expected]; cbv zeta.
  - constructor.
  - constructor; [discriminate|apply IH].
  - constructor; [discriminate|apply IH].
  - constructor; [discriminate|]. apply Forall_app. split; [apply IHb|]. constructor; [discriminate|apply IHr].
  - constructor; [discriminate|]. apply Forall_app. split; [apply IHb|]. constructor; [discriminate|apply IHr].
  - constructor; [discriminate|]. apply Forall_app. split; [apply IHb|]. constructor; [discriminate|].
    apply Forall_app. split; [apply IHc|]. constructor; [discriminate|apply IHr].
Qed.
Corollary fragment_no_parents ss :
  Forall (fun l => ll_parent l = None) (r_lines (parse_file_model (render_prog ss) [])).
Proof.
  destruct (fragment_parse_file ss) as (_ & Hl & _). rewrite Hl.
  eapply Forall_impl; [|apply expected_prog_props]. intros l [_ H]. exact H.
Qed.
Corollary fragment_single_eof_line ss :
  let r := parse_file_model (render_prog ss) [] in
  exists pre, r_lines r = pre ++ [mkLine LLT_Eof 0%N None [S (S (S (length (render ss))))]]
    /\ Forall (fun l => ll_type l <> LLT_Eof) pre
    /\ nth_error (render_prog ss) (S (S (S (length (render ss))))) = Some RTT_Eof
    /\ length (render_prog ss) = S (S (S (S (length (render ss))))).
Proof.
  intros r. destruct (fragment_parse_file ss) as (_ & Hl & _). fold r in Hl.
  exists (mkLine LLT_Unknown 0%N None [0] :: expected 1 1 ss
          ++ [mkLine LLT_Unknown 0%N None [S (length (render ss)); S (S (length (render ss)))]]).
  split; [|split; [|split]].
  - rewrite Hl. unfold expected_prog. cbv zeta. cbn [app Nat.add]. rewrite <- app_assoc. cbn [app].
    replace (length (render ss) + 1) with (S (length (render ss))) by lia.
    replace (length (render ss) + 2) with (S (S (length (render ss)))) by lia. reflexivity.
  - constructor; [discriminate|]. apply Forall_app. split; [apply expected_no_eof|]. constructor; [discriminate|constructor].
  - change (nth_error (render ss ++ [tEnd; tDot; RTT_Eof]) (S (S (length (render ss)))) = Some RTT_Eof).
    rewrite nth_error_app2 by lia. replace (S (S (length (render ss))) - length (render ss)) with 2 by lia. reflexivity.
  - apply render_prog_length.
Qed.

(* non-vacuity: a program with three nesting levels, all statement forms *)
Example fragment_example :
  let ss := SSimple (SRepeat (SAssign (STry SNil (SSimple SNil) SNil)) (STry (SBlock SNil SNil) SNil (SBlock (SAssign SNil) SNil))) in
  r_lines (parse_file_model (render_prog ss) []) = expected_prog ss
  /\ map (fun l => (ll_level l, ll_toks l)) (firstn 9 (expected_prog ss))
     = [(0%N, [0]); (1%N, [1; 2]); (1%N, [3]); (2%N, [4; 5; 6; 7]); (2%N, [8]); (2%N, [9]); (3%N, [10; 11]); (2%N, [12; 13]);
        (1%N, [14; 15; 16])].
Proof. split; vm_compute; reflexivity. Qed.
