(* Proofs/WrapSpacesProofs.v — the spaces_before of a token whose formatting invariant is MustBreak are never read by the search.
   The only places a record's tr_sp is read: the "continue" alternative of get_token_line_length (potential .. false) and the
   first-token formulas of find_optimal_solution (FirstDecision::Continue, and Break on a MustNotBreak token).  A token whose
   invariant is Some MustBreak has requirement MustBreak or Invalid (map_can_break): no continue alternative; as the first token
   under FirstDecision::Continue the search returns "no solution" before the length is used; and an indifference node never
   stands at such a token (a node becomes the indifference node only where the requirement is Indifferent).
     rec_rel / view_rel:   two views that agree except in tr_sp of records with tr_inv = Some DR_MustBreak;
     solve_sp:             `solve` on related view lists: the same state (cache, log) and the same solution;
     wrap_phase_sp:        a whole phase;
     mk_lviews_sp:         the views of two token tables that agree except in ti_sp, where every differing token is MustBreak in
                           every line that contains it (the model's views: conditional-directive overlap is covered by "every");
     olf_model_sp:         olf_model .. false on two vectors that differ only in f_sp of such tokens: the same events, the same
                           out-of-fuel flag, and final vectors that agree in everything except f_sp of differing tokens that end
                           with f_nl = 0 (a token no solved line decides keeps its own spaces: an equality of the whole vectors
                           is false, e.g. for a token of a line without a solution). *)
From PasfmtVerif Require Import Model.WrapSearch Model.WrapFormat Proofs.WrapSearchProofs Proofs.WrapHeapSimProofs Proofs.WrapSimProofs
  Proofs.WrapEventsProofs Proofs.WrapTwoPhaseProofs.
From Coq Require Import Lia.

Definition MB : option DecisionRequirement := Some DR_MustBreak.

Definition set_sp (sp : N) (r : trec) : trec :=
  mkTR (tr_gidx r) (tr_ty r) (tr_win r) (tr_fprev r) (tr_inv r) (tr_stk r) sp (tr_len r) (tr_ml r) (tr_kids r).
Definition rec_rel (r r' : trec) : Prop := exists sp, r' = set_sp sp r /\ (sp = tr_sp r \/ tr_inv r = MB).
Definition view_rel (lv lv' : lview) : Prop :=
  exists recs', lv' = mkLV (lv_idx lv) (lv_type lv) (lv_level lv) (lv_top lv) (lv_gtoks lv) recs' (lv_count lv) /\ Forall2 rec_rel (lv_recs lv) recs'.
Definition node_rel (a b : node) : Prop :=
  n_ws a = n_ws b /\ n_decs a = n_decs b /\ n_nli a = n_nli b /\ n_data a = n_data b /\ n_pen a = n_pen b /\ Forall2 rec_rel (n_rest a) (n_rest b).
Definition hd_ok (a : node) : Prop := match n_rest a with r :: _ => tr_inv r <> MB | [] => True end.
Definition oind_rel (x y : option node) : Prop :=
  match x, y with Some a, Some b => node_rel a b /\ hd_ok a | None, None => True | _, _ => False end.

Lemma node_rel_ord a a' b b' : node_rel a a' -> node_rel b b' -> node_gt a b = node_gt a' b'.
Proof. intros (_ & _ & N1 & _ & P1 & _) (_ & _ & N2 & _ & P2 & _). unfold node_gt. rewrite N1, N2, P1, P2. reflexivity. Qed.

(* a MustBreak invariant leaves no continue alternative *)
Lemma req_mb lt win cur stk d nli : let q := get_formatting_requirement lt win cur MB stk d nli in q = DR_MustBreak \/ q = DR_Invalid.
Proof.
  cbv zeta. unfold get_formatting_requirement, MB. destruct stk as [|[ti top] stk']; [right; reflexivity|].
  unfold map_can_break. destruct (parents_support_break _ _ _); [left|right]; reflexivity.
Qed.

Section Sp.
Variable W : wsettings.
Variables lvs lvs' : list lview.
Hypothesis Hlvs : Forall2 view_rel lvs lvs'.
Variable fm : nat.
Variables cs cs' : sst -> lview -> N * N -> first_decision -> sst * option solution.
Hypothesis Hcs : forall st lv lv' ws fd, view_rel lv lv' -> cs st lv ws fd = cs' st lv' ws fd.

Lemma nth_views k : opt_rel view_rel (nth_error lvs k) (nth_error lvs' k).
Proof.
  assert (H : forall l l', Forall2 view_rel l l' -> forall k, opt_rel view_rel (nth_error l k) (nth_error l' k)).
  { induction 1 as [|a b l l' Hab Hl IH]; intros k0; destruct k0; cbn [nth_error opt_rel]; [exact I|exact I|exact Hab|apply IH]. }
  apply H. exact Hlvs.
Qed.

Lemma solve_children_sp opt base deind : forall kids st first lll acc,
  solve_children lvs cs st opt base deind kids first lll acc = solve_children lvs' cs' st opt base deind kids first lll acc.
Proof.
  induction kids as [|k rest IH]; intros st first lll acc; [reflexivity|]. cbn [solve_children].
  pose proof (nth_views k) as Hk. destruct (nth_error lvs k) as [lv|], (nth_error lvs' k) as [lv'|]; try contradiction; [|reflexivity].
  cbn [opt_rel] in Hk. assert (Hlev : lv_level lv' = lv_level lv) by (destruct Hk as (recs' & -> & _); reflexivity). rewrite Hlev.
  rewrite (Hcs st lv lv' _ _ Hk). destruct (cs' st lv' _ _) as [st1 r]. destruct r as [s|]; [apply IH|reflexivity].
Qed.

Lemma first_of_views lv lv' : view_rel lv lv' ->
  first_inv_must_break lv' = first_inv_must_break lv /\ first_tok_type lv' = first_tok_type lv /\ lv_type lv' = lv_type lv.
Proof.
  intros (recs' & -> & Hr). unfold first_inv_must_break, first_tok_type. cbn [lv_recs lv_type].
  destruct Hr as [|r r' l l' (sp & -> & _) _]; repeat split; reflexivity.
Qed.

Lemma cls_sp st line_idx r sp gtoks tok_li ws decs d nli tll pc :
  child_lines_solutions W lvs cs st line_idx r gtoks tok_li ws decs d nli tll pc
  = child_lines_solutions W lvs' cs' st line_idx (set_sp sp r) gtoks tok_li ws decs d nli tll pc.
Proof.
  rewrite !cls_unfold. cbn [set_sp tr_kids tr_stk tr_gidx]. destruct (tr_kids r) as [lc|]; [|reflexivity].
  assert (Hfc : opt_rel view_rel (match lch_lines lc with k :: _ => nth_error lvs k | [] => None end) (match lch_lines lc with k :: _ => nth_error lvs' k | [] => None end))
    by (destruct (lch_lines lc); [exact I|apply nth_views]).
  destruct (match lch_lines lc with k :: _ => nth_error lvs k | [] => None end) as [fc|], (match lch_lines lc with k :: _ => nth_error lvs' k | [] => None end) as [fc'|];
    try contradiction; [|reflexivity]. cbn [opt_rel] in Hfc. destruct (first_of_views fc fc' Hfc) as (F1 & F2 & _).
  assert (Hopts : forall sc, cls_options (w_bbb W) lvs' (tr_stk r) d nli ws lc fc' sc = cls_options (w_bbb W) lvs (tr_stk r) d nli ws lc fc sc).
  { intros sc. unfold cls_options. rewrite F1, F2.
    assert (Hex : existsb (fun k => match nth_error lvs' k with Some lv => lv_type lv IS LLT_CaseHeader | None => false end) (lch_lines lc)
                  = existsb (fun k => match nth_error lvs k with Some lv => lv_type lv IS LLT_CaseHeader | None => false end) (lch_lines lc)).
    { induction (lch_lines lc) as [|k ks IHk]; [reflexivity|]. cbn [existsb]. rewrite IHk. f_equal.
      pose proof (nth_views k) as Hk. destruct (nth_error lvs k) as [a|], (nth_error lvs' k) as [b|]; try contradiction; [|reflexivity].
      destruct (first_of_views a b Hk) as (_ & _ & ->). reflexivity. }
    rewrite Hex. reflexivity. }
  rewrite Hopts. apply fold_left_ext_all. intros [st0 sols] opt. unfold cls_step. destruct (cache_find _ (ss_cache st0)); [reflexivity|].
  rewrite solve_children_sp. reflexivity.
Qed.

Variables lv lv' : lview.
Hypothesis Hlv : view_rel lv lv'.

Lemma lv_same : lv_idx lv' = lv_idx lv /\ lv_type lv' = lv_type lv /\ lv_gtoks lv' = lv_gtoks lv.
Proof. destruct Hlv as (recs' & -> & _). repeat split. Qed.

Lemma potential_sp st nd nd' b : node_rel nd nd' -> (b = true \/ hd_ok nd) ->
  fst (potential W lvs cs lv st nd b) = fst (potential W lvs' cs' lv' st nd' b)
  /\ Forall2 node_rel (snd (potential W lvs cs lv st nd b)) (snd (potential W lvs' cs' lv' st nd' b)).
Proof.
  intros (E1 & E2 & E3 & E4 & E5 & Hr) Hb. unfold potential. destruct lv_same as (L1 & L2 & L3). rewrite L1, L2, L3, <- E1, <- E2, <- E3, <- E4, <- E5.
  unfold hd_ok in Hb. remember (n_rest nd) as R1 eqn:Q1. remember (n_rest nd') as R2 eqn:Q2.
  destruct Hr as [|r r' rest rest' (sp & -> & Hsp) Hrest]; [split; [reflexivity|constructor]|].
  cbn [set_sp tr_stk tr_win tr_ty].
  assert (Htll : token_line_length' W (n_ws nd) (n_decs nd) (if b then WBreak (get_continuation_count (tr_stk r) (update_contexts (lv_type lv) (tr_win r) (tr_ty r) (tr_stk r) (n_nli nd) b (n_data nd)) (n_nli nd)) else WContinue) (set_sp sp r)
                = token_line_length' W (n_ws nd) (n_decs nd) (if b then WBreak (get_continuation_count (tr_stk r) (update_contexts (lv_type lv) (tr_win r) (tr_ty r) (tr_stk r) (n_nli nd) b (n_data nd)) (n_nli nd)) else WContinue) r).
  { unfold token_line_length'. cbn [set_sp tr_ml tr_sp tr_len]. destruct (tr_ml r); [reflexivity|]. destruct b; [reflexivity|].
    destruct Hsp as [->|Hmb]; [reflexivity|]. destruct Hb as [Hb|Hb]; [discriminate|]. exfalso. apply Hb. exact Hmb. }
  rewrite Htll. unfold decision_penalty. cbn [set_sp tr_fprev tr_stk].
  rewrite <- cls_sp. destruct (child_lines_solutions W lvs cs st _ r _ _ _ _ _ _ _ _) as [st1 sols]. cbn [fst snd]. split; [reflexivity|].
  induction sols as [|k ks IHk]; cbn [map]; constructor; [|exact IHk].
  repeat split; try reflexivity. cbn [n_rest]. exact Hrest.
Qed.

Lemma both_sp st ind ind' : node_rel ind ind' -> hd_ok ind ->
  fst (both W lvs cs lv st ind) = fst (both W lvs' cs' lv' st ind')
  /\ Forall2 node_rel (snd (both W lvs cs lv st ind)) (snd (both W lvs' cs' lv' st ind')).
Proof.
  intros Hr Hh. unfold both.
  destruct (potential_sp st ind ind' true Hr (or_introl eq_refl)) as (A1 & A2).
  destruct (potential W lvs cs lv st ind true) as [st1 a], (potential W lvs' cs' lv' st ind' true) as [st1' a']. cbn [fst snd] in *. subst st1'.
  destruct (potential_sp st1 ind ind' false Hr (or_intror Hh)) as (B1 & B2).
  destruct (potential W lvs cs lv st1 ind false) as [st2 b], (potential W lvs' cs' lv' st1 ind' false) as [st2' b']. cbn [fst snd] in *.
  split; [exact B1|apply Forall2_app; assumption].
Qed.

Definition res_rel (r r' : walk_res) : Prop :=
  match r, r' with
  | W_push n, W_push n' => node_rel n n'
  | W_extend l, W_extend l' => Forall2 node_rel l l'
  | W_dead, W_dead | W_fuel, W_fuel => True
  | _, _ => False
  end.
Definition step_rel (s s' : wstep) : Prop :=
  match s, s' with
  | WS_stop r, WS_stop r' => res_rel r r'
  | WS_forward n i, WS_forward n' i' => node_rel n n' /\ oind_rel i i'
  | WS_restart n, WS_restart n' => node_rel n n'
  | _, _ => False
  end.

Lemma finish_sp l l' : Forall2 node_rel l l' -> step_rel (finish l) (finish l').
Proof. intros H. unfold finish. destruct H as [|a b r r' Hab Hr]; [constructor|]. destruct Hr as [|x y r2 r2' Hxy Hr2]; cbn; [exact Hab|]. constructor; [exact Hab|constructor; [exact Hxy|exact Hr2]]. Qed.

Lemma kept_sp li : forall sols sols', Forall2 node_rel sols sols' -> forall best acc acc', Forall2 node_rel acc acc' ->
  let F := fun (acc : list N * list node) (n : node) => if n_pen n <? best_at (fst acc) li then (upd_at li (fun _ => n_pen n) (fst acc), snd acc ++ [n]) else acc in
  fst (fold_left F sols (best, acc)) = fst (fold_left F sols' (best, acc')) /\ Forall2 node_rel (snd (fold_left F sols (best, acc))) (snd (fold_left F sols' (best, acc'))).
Proof.
  induction 1 as [|n n' l l' Hn Hl IH]; intros best acc acc' Hacc; cbn [fold_left]; [split; [reflexivity|exact Hacc]|].
  cbn [fst snd]. assert (Hp : n_pen n' = n_pen n) by (destruct Hn as (_ & _ & _ & _ & P & _); symmetry; exact P). rewrite Hp.
  destruct (n_pen n <? best_at best li); apply IH; [apply Forall2_app; [exact Hacc|constructor; [exact Hn|constructor]]|exact Hacc].
Qed.

Lemma walk_step_sp nd nd' indiff indiff' best st : node_rel nd nd' -> oind_rel indiff indiff' ->
  let a := walk_step W lvs cs lv nd indiff best st in let b := walk_step W lvs' cs' lv' nd' indiff' best st in
  snd a = snd b /\ snd (fst a) = snd (fst b) /\ step_rel (fst (fst a)) (fst (fst b)).
Proof.
  intros Hnd Hind. cbv zeta. unfold walk_step.
  assert (Hlll : last_line_length_of nd' = last_line_length_of nd) by (destruct Hnd as (_ & D & _); unfold last_line_length_of; rewrite D; reflexivity).
  rewrite Hlll.
  assert (Hboth : forall st0 i i', oind_rel (Some i) (Some i') ->
            let a := let (st1, succ) := both W lvs cs lv st0 i in (finish succ, best, st1) in
            let b := let (st1, succ) := both W lvs' cs' lv' st0 i' in (finish succ, best, st1) in
            snd a = snd b /\ snd (fst a) = snd (fst b) /\ step_rel (fst (fst a)) (fst (fst b))).
  { intros st0 i i' (Hr & Hh). cbv zeta. destruct (both_sp st0 i i' Hr Hh) as (B1 & B2).
    destruct (both W lvs cs lv st0 i) as [s1 su], (both W lvs' cs' lv' st0 i') as [s1' su']. cbn [fst snd] in *.
    split; [exact B1|split; [reflexivity|apply finish_sp; exact B2]]. }
  assert (Hafter : forall succ succ' i i' st0, Forall2 node_rel succ succ' -> oind_rel i i' ->
            let a := match succ with
                     | [n] => (WS_forward n i, best, st0)
                     | _ => match i with
                            | Some ind => let (st1, more) := both W lvs cs lv st0 ind in (finish (succ ++ more), best, st1)
                            | None => (finish succ, best, st0)
                            end
                     end in
            let b := match succ' with
                     | [n] => (WS_forward n i', best, st0)
                     | _ => match i' with
                            | Some ind => let (st1, more) := both W lvs' cs' lv' st0 ind in (finish (succ' ++ more), best, st1)
                            | None => (finish succ', best, st0)
                            end
                     end in
            snd a = snd b /\ snd (fst a) = snd (fst b) /\ step_rel (fst (fst a)) (fst (fst b))).
  { intros succ succ' i i' st0 Hs Hi. cbv zeta.
    assert (Hgen : let a := match i with
                            | Some ind => let (st1, more) := both W lvs cs lv st0 ind in (finish (succ ++ more), best, st1)
                            | None => (finish succ, best, st0)
                            end in
                   let b := match i' with
                            | Some ind => let (st1, more) := both W lvs' cs' lv' st0 ind in (finish (succ' ++ more), best, st1)
                            | None => (finish succ', best, st0)
                            end in
                   snd a = snd b /\ snd (fst a) = snd (fst b) /\ step_rel (fst (fst a)) (fst (fst b))).
    { cbv zeta. destruct i as [x|], i' as [x'|]; try contradiction.
      - destruct Hi as (Hr & Hh). destruct (both_sp st0 x x' Hr Hh) as (B1 & B2).
        destruct (both W lvs cs lv st0 x) as [s1 su], (both W lvs' cs' lv' st0 x') as [s1' su']. cbn [fst snd] in *.
        split; [exact B1|split; [reflexivity|apply finish_sp; apply Forall2_app; assumption]].
      - cbn [fst snd]. split; [reflexivity|split; [reflexivity|apply finish_sp; exact Hs]]. }
    destruct Hs as [|n n' r r' Hn Hr]; [exact Hgen|]. destruct Hr; [|exact Hgen].
    cbn [fst snd]. split; [reflexivity|split; [reflexivity|split; [exact Hn|exact Hi]]]. }
  assert (Hmain : let a := match n_rest nd with
                           | [] => (WS_stop (W_push nd), best, st)
                           | r :: _ =>
                               match get_formatting_requirement (lv_type lv) (tr_win r) (tr_ty r) (tr_inv r) (tr_stk r) (n_data nd) (n_nli nd) with
                               | DR_Invalid => match indiff with
                                               | Some ind => let (st1, succ) := both W lvs cs lv st ind in (finish succ, best, st1)
                                               | None => (WS_stop W_dead, best, st)
                                               end
                               | DR_MustBreak =>
                                   let (st1, sols) := potential W lvs cs lv st nd true in
                                   let '(best1, kept) := fold_left (fun (acc : list N * list node) (n : node) =>
                                       if n_pen n <? best_at (fst acc) (N.to_nat (n_nli nd)) then (upd_at (N.to_nat (n_nli nd)) (fun _ => n_pen n) (fst acc), snd acc ++ [n]) else acc) sols (best, []) in
                                   (finish kept, best1, st1)
                               | DR_MustNotBreak =>
                                   let (st1, succ) := potential W lvs cs lv st nd false in
                                   match succ with
                                   | [n] => (WS_forward n indiff, best, st1)
                                   | _ => match indiff with
                                          | Some ind => let (st2, more) := both W lvs cs lv st1 ind in (finish (succ ++ more), best, st2)
                                          | None => (finish succ, best, st1)
                                          end
                                   end
                               | DR_Indifferent =>
                                   let (st1, succ) := potential W lvs cs lv st nd false in
                                   match succ with
                                   | [n] => (WS_forward n (match indiff with Some _ => indiff | None => Some nd end), best, st1)
                                   | _ => match (match indiff with Some _ => indiff | None => Some nd end) with
                                          | Some ind => let (st2, more) := both W lvs cs lv st1 ind in (finish (succ ++ more), best, st2)
                                          | None => (finish succ, best, st1)
                                          end
                                   end
                               end
                           end in
                 let b := match n_rest nd' with
                           | [] => (WS_stop (W_push nd'), best, st)
                           | r :: _ =>
                               match get_formatting_requirement (lv_type lv') (tr_win r) (tr_ty r) (tr_inv r) (tr_stk r) (n_data nd') (n_nli nd') with
                               | DR_Invalid => match indiff' with
                                               | Some ind => let (st1, succ) := both W lvs' cs' lv' st ind in (finish succ, best, st1)
                                               | None => (WS_stop W_dead, best, st)
                                               end
                               | DR_MustBreak =>
                                   let (st1, sols) := potential W lvs' cs' lv' st nd' true in
                                   let '(best1, kept) := fold_left (fun (acc : list N * list node) (n : node) =>
                                       if n_pen n <? best_at (fst acc) (N.to_nat (n_nli nd')) then (upd_at (N.to_nat (n_nli nd')) (fun _ => n_pen n) (fst acc), snd acc ++ [n]) else acc) sols (best, []) in
                                   (finish kept, best1, st1)
                               | DR_MustNotBreak =>
                                   let (st1, succ) := potential W lvs' cs' lv' st nd' false in
                                   match succ with
                                   | [n] => (WS_forward n indiff', best, st1)
                                   | _ => match indiff' with
                                          | Some ind => let (st2, more) := both W lvs' cs' lv' st1 ind in (finish (succ ++ more), best, st2)
                                          | None => (finish succ, best, st1)
                                          end
                                   end
                               | DR_Indifferent =>
                                   let (st1, succ) := potential W lvs' cs' lv' st nd' false in
                                   match succ with
                                   | [n] => (WS_forward n (match indiff' with Some _ => indiff' | None => Some nd' end), best, st1)
                                   | _ => match (match indiff' with Some _ => indiff' | None => Some nd' end) with
                                          | Some ind => let (st2, more) := both W lvs' cs' lv' st1 ind in (finish (succ ++ more), best, st2)
                                          | None => (finish succ, best, st1)
                                          end
                                   end
                               end
                           end in
                 snd a = snd b /\ snd (fst a) = snd (fst b) /\ step_rel (fst (fst a)) (fst (fst b))).
  { cbv zeta. pose proof Hnd as (E1 & E2 & E3 & E4 & E5 & Hr). destruct lv_same as (_ & L2 & _). rewrite L2, <- E3, <- E4.
    assert (Hhd : forall r0 rest0, n_rest nd = r0 :: rest0 -> tr_inv r0 = MB ->
              get_formatting_requirement (lv_type lv) (tr_win r0) (tr_ty r0) (tr_inv r0) (tr_stk r0) (n_data nd) (n_nli nd) = DR_MustBreak
              \/ get_formatting_requirement (lv_type lv) (tr_win r0) (tr_ty r0) (tr_inv r0) (tr_stk r0) (n_data nd) (n_nli nd) = DR_Invalid)
      by (intros r0 rest0 _ ->; apply req_mb).
    remember (n_rest nd) as R1 eqn:Q1. remember (n_rest nd') as R2 eqn:Q2.
    destruct Hr as [|r r' rest rest' (sp & -> & Hsp) Hrest]; [cbn [fst snd]; split; [reflexivity|split; [reflexivity|exact Hnd]]|].
    cbn [set_sp tr_win tr_ty tr_inv tr_stk]. specialize (Hhd r rest eq_refl).
    assert (Hok : get_formatting_requirement (lv_type lv) (tr_win r) (tr_ty r) (tr_inv r) (tr_stk r) (n_data nd) (n_nli nd) = DR_Indifferent
                  \/ get_formatting_requirement (lv_type lv) (tr_win r) (tr_ty r) (tr_inv r) (tr_stk r) (n_data nd) (n_nli nd) = DR_MustNotBreak -> hd_ok nd).
    { intros Hq. unfold hd_ok. rewrite <- Q1. intros Hmb. destruct (Hhd Hmb) as [H1|H1]; destruct Hq as [H2|H2]; congruence. }
    destruct (get_formatting_requirement (lv_type lv) (tr_win r) (tr_ty r) (tr_inv r) (tr_stk r) (n_data nd) (n_nli nd)).
    - (* Indifferent *)
      specialize (Hok (or_introl eq_refl)).
      destruct (potential_sp st nd nd' false Hnd (or_intror Hok)) as (P1 & P2).
      destruct (potential W lvs cs lv st nd false) as [s1 su], (potential W lvs' cs' lv' st nd' false) as [s1' su']. cbn [fst snd] in P1, P2. subst s1'.
      apply (Hafter su su' (match indiff with Some _ => indiff | None => Some nd end) (match indiff' with Some _ => indiff' | None => Some nd' end) s1 P2).
      destruct indiff as [x|], indiff' as [x'|]; try contradiction; [exact Hind|split; [exact Hnd|exact Hok]].
    - (* Invalid *)
      destruct indiff as [x|], indiff' as [x'|]; try contradiction; [exact (Hboth st x x' Hind)|cbn [fst snd]; split; [reflexivity|split; [reflexivity|exact I]]].
    - (* MustBreak *)
      destruct (potential_sp st nd nd' true Hnd (or_introl eq_refl)) as (P1 & P2).
      destruct (potential W lvs cs lv st nd true) as [s1 su], (potential W lvs' cs' lv' st nd' true) as [s1' su']. cbn [fst snd] in P1, P2. subst s1'.
      destruct (kept_sp (N.to_nat (n_nli nd)) su su' P2 best [] [] (Forall2_nil _)) as (K1 & K2). cbv zeta in K1, K2.
      destruct (fold_left _ su (best, [])) as [b1 k1], (fold_left _ su' (best, [])) as [b1' k1']. cbn [fst snd] in *. subst b1'.
      split; [reflexivity|split; [reflexivity|apply finish_sp; exact K2]].
    - (* MustNotBreak *)
      specialize (Hok (or_intror eq_refl)).
      destruct (potential_sp st nd nd' false Hnd (or_intror Hok)) as (P1 & P2).
      destruct (potential W lvs cs lv st nd false) as [s1 su], (potential W lvs' cs' lv' st nd' false) as [s1' su']. cbn [fst snd] in P1, P2. subst s1'.
      exact (Hafter su su' indiff indiff' s1 P2 Hind). }
  destruct (w_max W <? last_line_length_of nd); [|exact Hmain].
  destruct indiff as [i|], indiff' as [i'|]; try contradiction; [exact (Hboth st i i' Hind)|exact Hmain].
Qed.

Lemma walk_sp : forall f1 f2 nd nd' indiff indiff' best st, node_rel nd nd' -> oind_rel indiff indiff' ->
  let a := walk W lvs cs lv f1 f2 nd indiff best st in let b := walk W lvs' cs' lv' f1 f2 nd' indiff' best st in
  snd a = snd b /\ snd (fst a) = snd (fst b) /\ res_rel (fst (fst a)) (fst (fst b)).
Proof.
  assert (Hz : forall f1 nd nd' indiff indiff' best st,
            let a := walk W lvs cs lv f1 0 nd indiff best st in let b := walk W lvs' cs' lv' f1 0 nd' indiff' best st in
            snd a = snd b /\ snd (fst a) = snd (fst b) /\ res_rel (fst (fst a)) (fst (fst b))).
  { intros f1 nd nd' indiff indiff' best st. destruct f1; cbn [walk fst snd res_rel]; split; [reflexivity|split; [reflexivity|exact I]|reflexivity|split; [reflexivity|exact I]]. }
  induction f1 as [|f1 IH1]; induction f2 as [|f2 IH2]; intros nd nd' indiff indiff' best st Hnd Hind; try apply Hz; cbv zeta; cbn [walk];
    destruct (walk_step_sp nd nd' indiff indiff' best st Hnd Hind) as (S1 & S2 & S3); cbv zeta in S1, S2, S3;
    destruct (walk_step W lvs cs lv nd indiff best st) as [[s b] st1], (walk_step W lvs' cs' lv' nd' indiff' best st) as [[s' b'] st1'];
    cbn [fst snd] in S1, S2, S3; subst st1' b'; destruct s as [r|n i|n], s' as [r'|n' i'|n']; try contradiction; cbn [step_rel] in S3.
  - split; [reflexivity|split; [reflexivity|exact S3]].
  - destruct S3 as (A & B). exact (IH2 n n' i i' b st1 A B).
  - cbn [fst snd res_rel]. split; [reflexivity|split; [reflexivity|exact I]].
  - split; [reflexivity|split; [reflexivity|exact S3]].
  - destruct S3 as (A & B). exact (IH2 n n' i i' b st1 A B).
  - assert (Hlen : length (n_rest n') = length (n_rest n)) by (destruct S3 as (_ & _ & _ & _ & _ & F); symmetry; exact (Forall2_len _ _ _ F)).
    rewrite Hlen. exact (IH1 (S (length (n_rest n))) n n' None None b st1 S3 I).
Qed.

Notation hrel := (heap_rel node_rel).

Lemma main_loop_sp : forall fuel h h' iter best st, hrel h h' ->
  main_loop W lvs cs lv fuel h iter best st = main_loop W lvs' cs' lv' fuel h' iter best st.
Proof.
  induction fuel as [|f IH]; intros h h' iter best st Hh; [reflexivity|]. cbn [main_loop].
  pose proof (heap_pop_rel node_rel node_rel_ord h h' Hh) as Hp. destruct lv_same as (L1 & _ & _). rewrite L1.
  destruct (heap_pop h) as [[nd h1]|], (heap_pop h') as [[nd' h1']|]; try contradiction; [|reflexivity]. destruct Hp as (Hnd & Hh1).
  destruct (w_iter W <? iter); [reflexivity|].
  pose proof Hnd as (E1 & E2 & E3 & E4 & E5 & Hr).
  remember (n_rest nd) as R1 eqn:Q1. remember (n_rest nd') as R2 eqn:Q2. destruct Hr as [|r r' rest rest' Hrr Hrest].
  - unfold solution_of_node. rewrite <- E1, <- E2, <- E5. reflexivity.
  - rewrite <- E3, <- E5. destruct (best_at best _ <? n_pen nd); [apply IH; exact Hh1|].
    assert (Hlen : length (r' :: rest') = length (r :: rest)) by (cbn [length]; rewrite (Forall2_len _ _ _ Hrest); reflexivity). rewrite Hlen.
    destruct (walk_sp (S (length (r :: rest))) (S (length (r :: rest))) nd nd' None None best st Hnd I) as (W1 & W2 & W3). cbv zeta in W1, W2, W3.
    destruct (walk W lvs cs lv _ _ nd None best st) as [[res b] st1], (walk W lvs' cs' lv' _ _ nd' None best st) as [[res' b'] st1'].
    cbn [fst snd] in W1, W2, W3. subst st1' b'. destruct res as [n|l| |], res' as [n'|l'| |]; try contradiction; cbn [res_rel] in W3.
    + apply IH. apply heap_push_rel; [exact node_rel_ord|exact Hh1|exact W3].
    + apply IH. apply heap_extend_rel; [exact node_rel_ord|exact W3|exact Hh1].
    + apply IH. exact Hh1.
    + reflexivity.
Qed.

Lemma fos_sp st ws first : find_optimal_solution W lvs fm cs lv st ws first = find_optimal_solution W lvs' fm cs' lv' st ws first.
Proof.
  unfold find_optimal_solution. destruct lv_same as (L1 & L2 & _). destruct Hlv as (recs' & Elv & Hr).
  assert (Hrecs : lv_recs lv' = recs') by (rewrite Elv; reflexivity). rewrite Hrecs, L1, L2.
  assert (Hlen : length recs' = length (lv_recs lv)) by (symmetry; exact (Forall2_len _ _ _ Hr)). rewrite Hlen.
  remember (lv_recs lv) as R1 eqn:Q1. destruct Hr as [|r r' rest rest' (sp & -> & Hsp) Hrest]; [reflexivity|]. cbn [set_sp tr_inv tr_ml tr_sp tr_len].
  assert (Hgo : forall (ib : bool) (lll : N) (bcb : bool),
            (let (st0, sols) := child_lines_solutions W lvs cs st (lv_idx lv) r [] 0 ws [TDec (if ib then WBreak 0 else WContinue) lll []]
                                  (dt_upd 1 (fun s => mkSt (s_broken s) bcb (s_child s) (s_oepl s) (s_bar s)) PLeaf) 1 lll 0 in
             main_loop W lvs cs lv fm (heap_extend (map (fun _ => mkNode ws [TDec (if ib then WBreak 0 else WContinue) lll (match last_opt' sols with Some k => k | None => [] end)] 1 rest
                          (dt_upd 1 (fun s => mkSt (s_broken s) bcb (s_child s) (s_oepl s) (s_bar s)) PLeaf) (decision_penalty W (lv_type lv) r 0 ib lll)) sols) heap_empty) 0
                       (repeat u64_max (length (r :: rest))) st0)
            = (let (st0, sols) := child_lines_solutions W lvs' cs' st (lv_idx lv) (set_sp sp r) [] 0 ws [TDec (if ib then WBreak 0 else WContinue) lll []]
                                  (dt_upd 1 (fun s => mkSt (s_broken s) bcb (s_child s) (s_oepl s) (s_bar s)) PLeaf) 1 lll 0 in
               main_loop W lvs' cs' lv' fm (heap_extend (map (fun _ => mkNode ws [TDec (if ib then WBreak 0 else WContinue) lll (match last_opt' sols with Some k => k | None => [] end)] 1 rest'
                          (dt_upd 1 (fun s => mkSt (s_broken s) bcb (s_child s) (s_oepl s) (s_bar s)) PLeaf) (decision_penalty W (lv_type lv) (set_sp sp r) 0 ib lll)) sols) heap_empty) 0
                       (repeat u64_max (length (r :: rest))) st0)).
  { intros ib lll bcb. rewrite <- cls_sp. destruct (child_lines_solutions W lvs cs st _ r _ _ _ _ _ _ _ _) as [st1 sols]. apply main_loop_sp.
    apply heap_extend_rel; [exact node_rel_ord| |apply heap_empty_rel].
    destruct (match last_opt' sols with Some k => k | None => [] end) as [|kk kr]; induction sols as [|k ks IHk]; cbn [map]; [constructor|constructor; [|exact IHk]|constructor|constructor; [|exact IHk]];
      (split; [reflexivity|split; [reflexivity|split; [reflexivity|split; [reflexivity|split; [reflexivity|exact Hrest]]]]]). }
  assert (Hsp' : tr_inv r <> MB -> sp = tr_sp r) by (intros Hn; destruct Hsp as [->|Hmb]; [reflexivity|contradiction]).
  unfold MB in Hsp'.
  destruct first as [|ll cb]; destruct (tr_inv r) as [[]|] eqn:Ei; unfold bid; cbn [negb andb]; try reflexivity;
    try (rewrite (Hsp' ltac:(discriminate)));
    first [exact (Hgo true _ true) | exact (Hgo false _ true) | exact (Hgo false _ cb)].
Qed.
End Sp.

(* `solve` on related view lists *)
Theorem solve_sp W lvs lvs' fm : Forall2 view_rel lvs lvs' ->
  forall depth st lv lv' ws fd, view_rel lv lv' -> solve W lvs fm depth st lv ws fd = solve W lvs' fm depth st lv' ws fd.
Proof.
  intros Hl. induction depth as [|k IH]; intros st lv lv' ws fd Hv; [reflexivity|]. cbn [solve].
  rewrite (fos_sp W lvs lvs' Hl fm (solve W lvs fm k) (solve W lvs' fm k) IH lv lv' Hv st ws fd). reflexivity.
Qed.
Print Assumptions solve_sp.

(* ------------------------------------------------------------------ *)
(* a top-level line, a phase *)
Lemma gtoks_of_sp lvs lvs' : Forall2 view_rel lvs lvs' -> forall k, gtoks_of lvs k = gtoks_of lvs' k.
Proof.
  intros Hl k. unfold gtoks_of. pose proof (nth_views lvs lvs' Hl k) as Hk.
  destruct (nth_error lvs k) as [a|], (nth_error lvs' k) as [b|]; try contradiction; [|reflexivity]. destruct Hk as (recs' & -> & _). reflexivity.
Qed.

Lemma format_top_sp W lvs lvs' fm depth st lv lv' : Forall2 view_rel lvs lvs' -> view_rel lv lv' ->
  format_top W lvs fm depth st lv = format_top W lvs' fm depth st lv'.
Proof.
  intros Hl Hv. unfold format_top. rewrite <- (solve_sp W lvs lvs' fm Hl depth st lv lv' _ _ Hv).
  destruct Hv as (recs' & -> & _). cbn [lv_type lv_gtoks lv_level].
  destruct (bid _); [reflexivity|]. destruct (solve W lvs fm depth st lv _ _) as [st1 r]. destruct r as [s|]; [|reflexivity].
  rewrite (recon_lvs_eq lvs lvs' (gtoks_of_sp lvs lvs' Hl)). reflexivity.
Qed.

Theorem wrap_phase_views_sp W lvs lvs' fm depth (which : lview -> bool) : Forall2 view_rel lvs lvs' ->
  (forall lv lv', view_rel lv lv' -> which lv = which lv') ->
  forall st, fold_left (fun st lv => if which lv then format_top W lvs fm depth st lv else st) lvs st
           = fold_left (fun st lv => if which lv then format_top W lvs' fm depth st lv else st) lvs' st.
Proof.
  intros Hl Hw. assert (Hgen : forall l l', Forall2 view_rel l l' -> forall st,
            fold_left (fun st lv => if which lv then format_top W lvs fm depth st lv else st) l st
            = fold_left (fun st lv => if which lv then format_top W lvs' fm depth st lv else st) l' st).
  { induction 1 as [|a b l l' Hab Hr IH]; intros st; [reflexivity|]. cbn [fold_left]. rewrite <- (Hw a b Hab), <- (format_top_sp W lvs lvs' fm depth st a b Hl Hab). apply IH. }
  exact (Hgen lvs lvs' Hl).
Qed.

(* ------------------------------------------------------------------ *)
(* the views of two token tables *)
Definition info_rel (a b : tokinfo) : Prop := ti_ty a = ti_ty b /\ ti_len a = ti_len b /\ ti_ml a = ti_ml b.
Definition sp_at (infos : list tokinfo) (g : N) : N := match nth_error infos (N.to_nat g) with Some i => ti_sp i | None => 0 end.

(* every record of the views about a token whose spaces differ has the invariant MustBreak (a token of two overlapping lines: in both) *)
Definition differing_are_must_break (infos infos' : list tokinfo) (lines : list lline) : Prop :=
  forall lv r, In lv (mk_lviews infos lines) -> In r (lv_recs lv) -> sp_at infos (tr_gidx r) <> sp_at infos' (tr_gidx r) -> tr_inv r = MB.

Lemma ti_get_rel infos infos' : Forall2 info_rel infos infos' -> forall g,
  opt_rel info_rel (ti_get (ti_build infos 0 PLeaf) g) (ti_get (ti_build infos' 0 PLeaf) g).
Proof.
  intros H g. rewrite !ti_get_infos. revert H. generalize (N.to_nat g). intros n H. revert n.
  induction H as [|a b l l' Hab Hl IH]; intros n; destruct n; cbn [nth_error opt_rel]; [exact I|exact I|exact Hab|apply IH].
Qed.

Lemma line_types_sp infos infos' : Forall2 info_rel infos infos' -> forall toks,
  line_types (ti_build infos 0 PLeaf) toks = line_types (ti_build infos' 0 PLeaf) toks.
Proof.
  intros H. induction toks as [|g r IH]; [reflexivity|]. cbn [line_types]. pose proof (ti_get_rel infos infos' H g) as Hg.
  destruct (ti_get (ti_build infos 0 PLeaf) g) as [a|], (ti_get (ti_build infos' 0 PLeaf) g) as [b|]; try contradiction; [|reflexivity].
  destruct Hg as (E & _). rewrite IH. f_equal. exact E.
Qed.

Lemma mk_recs_sp infos infos' kids li : Forall2 info_rel infos infos' -> forall toks prevtok win stacks,
  (forall r, In r (mk_recs (ti_build infos 0 PLeaf) toks prevtok win stacks kids li) -> sp_at infos (tr_gidx r) <> sp_at infos' (tr_gidx r) -> tr_inv r = MB) ->
  Forall2 rec_rel (mk_recs (ti_build infos 0 PLeaf) toks prevtok win stacks kids li) (mk_recs (ti_build infos' 0 PLeaf) toks prevtok win stacks kids li).
Proof.
  intros H. induction toks as [|g rest IH]; intros prevtok win stacks Hmb; [constructor|]. cbn [mk_recs] in *.
  pose proof (ti_get_rel infos infos' H g) as Hg. pose proof (ti_get_rel infos infos' H (g - 1)) as Hg1. pose proof (fun pt => ti_get_rel infos infos' H pt) as Hpt.
  assert (Esp : forall x, match ti_get (ti_build x 0 PLeaf) g with Some i => ti_sp i | None => 0 end = sp_at x g) by (intros x; unfold sp_at; rewrite ti_get_infos; reflexivity).
  assert (Ety : option_map ti_ty (ti_get (ti_build infos' 0 PLeaf) g) = option_map ti_ty (ti_get (ti_build infos 0 PLeaf) g)).
  { destruct (ti_get (ti_build infos 0 PLeaf) g) as [a|], (ti_get (ti_build infos' 0 PLeaf) g) as [b|]; try contradiction; [|reflexivity]. destruct Hg as (X1 & X2 & X3). cbn [option_map]. congruence. }
  assert (Ety1 : option_map ti_ty (ti_get (ti_build infos' 0 PLeaf) (g - 1)) = option_map ti_ty (ti_get (ti_build infos 0 PLeaf) (g - 1))).
  { destruct (ti_get (ti_build infos 0 PLeaf) (g - 1)) as [a|], (ti_get (ti_build infos' 0 PLeaf) (g - 1)) as [b|]; try contradiction; [|reflexivity]. destruct Hg1 as (X1 & X2 & X3). cbn [option_map]. congruence. }
  assert (Elen : match ti_get (ti_build infos' 0 PLeaf) g with Some i => ti_len i | None => 0 end = match ti_get (ti_build infos 0 PLeaf) g with Some i => ti_len i | None => 0 end).
  { destruct (ti_get (ti_build infos 0 PLeaf) g) as [a|], (ti_get (ti_build infos' 0 PLeaf) g) as [b|]; try contradiction; [|reflexivity]. destruct Hg as (X1 & X2 & X3). congruence. }
  assert (Eml : match ti_get (ti_build infos' 0 PLeaf) g with Some i => ti_ml i | None => None end = match ti_get (ti_build infos 0 PLeaf) g with Some i => ti_ml i | None => None end).
  { destruct (ti_get (ti_build infos 0 PLeaf) g) as [a|], (ti_get (ti_build infos' 0 PLeaf) g) as [b|]; try contradiction; [|reflexivity]. destruct Hg as (X1 & X2 & X3). congruence. }
  assert (Ek : match assoc_find (li, g) kids with
               | Some (pt, ls, dc) => Some (mkLCh pt (option_map ti_ty (ti_get (ti_build infos' 0 PLeaf) pt)) (rev ls) dc)
               | None => None
               end = match assoc_find (li, g) kids with
                     | Some (pt, ls, dc) => Some (mkLCh pt (option_map ti_ty (ti_get (ti_build infos 0 PLeaf) pt)) (rev ls) dc)
                     | None => None
                     end).
  { destruct (assoc_find (li, g) kids) as [[[pt ls] dc]|]; [|reflexivity]. specialize (Hpt pt).
    destruct (ti_get (ti_build infos 0 PLeaf) pt) as [a|], (ti_get (ti_build infos' 0 PLeaf) pt) as [b|]; try contradiction; [|reflexivity]. destruct Hpt as (X1 & X2 & X3). cbn [option_map]. congruence. }
  rewrite Ety, Ety1, Elen, Eml, Ek, !Esp in *. constructor.
  - exists (sp_at infos' g). split; [reflexivity|]. cbn [tr_sp tr_inv]. destruct (N.eq_dec (sp_at infos' g) (sp_at infos g)) as [e|ne]; [left; exact e|right].
    apply (Hmb _ (or_introl eq_refl)). cbn [tr_gidx]. intros e. apply ne. symmetry. exact e.
  - apply IH. intros r Hin. apply Hmb. right. exact Hin.
Qed.

Theorem mk_lviews_sp infos infos' lines : Forall2 info_rel infos infos' -> differing_are_must_break infos infos' lines ->
  Forall2 view_rel (mk_lviews infos lines) (mk_lviews infos' lines).
Proof.
  unfold differing_are_must_break, mk_lviews. intros H. generalize (get_line_children (map iline_of lines)). intros kids. generalize (map iline_of lines). intros ils. generalize 0%nat.
  induction ils as [|l r IH]; intros i Hmb; [constructor|]. cbn [mk_lviews_from] in *. constructor.
  - unfold mk_lview. rewrite <- (line_types_sp infos infos' H). eexists. split; [reflexivity|]. cbn [lv_recs].
    apply mk_recs_sp; [exact H|]. intros r0 Hin. apply (Hmb _ r0 (or_introl eq_refl)). exact Hin.
  - apply IH. intros lv r0 Hin. apply Hmb. right. exact Hin.
Qed.

Theorem wrap_phase1_sp W infos infos' lines : Forall2 info_rel infos infos' -> differing_are_must_break infos infos' lines ->
  wrap_phase1 W infos lines = wrap_phase1 W infos' lines.
Proof.
  intros H Hmb. unfold wrap_phase1, wrap_phase. apply wrap_phase_views_sp; [exact (mk_lviews_sp infos infos' lines H Hmb)|].
  intros lv lv' (recs' & -> & _). reflexivity.
Qed.

(* ------------------------------------------------------------------ *)
(* the whole wrapper (format_multiline_strings = false) on two vectors that differ only in spaces_before *)
Definition fmt_rel (f f' : fmt) : Prop := f_ignored f = f_ignored f' /\ f_nl f = f_nl f' /\ f_ind f = f_ind f' /\ f_cont f = f_cont f'.
Definition tok_rel (p q : ftoken) : Prop := fst p = fst q /\ fmt_rel (snd p) (snd q).
(* after the wrapper: the same token, the same counters, and the same spaces wherever the token starts a line *)
Definition out_rel (p q : ftoken) : Prop := fst p = fst q /\ fmt_rel (snd p) (snd q) /\ (f_nl (snd p) <> 0 -> snd p = snd q).

Lemma upd_ftok_rel g : (forall f f', fmt_rel f f' -> fmt_rel (g f) (g f')) ->
  forall l l', Forall2 tok_rel l l' -> forall i, Forall2 tok_rel (upd_ftok i g l) (upd_ftok i g l').
Proof.
  intros Hg. induction 1 as [|[t f] [t' f'] l l' (Ht & Hf) Hl IH]; intros i; [destruct i; constructor|].
  destruct i as [|i]; cbn [upd_ftok]; constructor; try assumption; [split; [exact Ht|exact (Hg f f' Hf)]|split; [exact Ht|exact Hf]|apply IH].
Qed.

Lemma apply_plan_rel p : forall l l', Forall2 tok_rel l l' -> Forall2 tok_rel (apply_plan p l) (apply_plan p l').
Proof.
  unfold apply_plan. induction p as [|pd r IH]; intros l l' H; [exact H|]. cbn [fold_left]. apply IH. apply upd_ftok_rel; [|exact H].
  intros f f' (A & B & C & D). destruct (snd pd) as [first ind cont|]; unfold fmt_rel, apply_decision; cbn [f_ignored f_nl f_ind f_cont]; rewrite ?A, ?B; repeat split; reflexivity.
Qed.

Lemma zero_line_starts_rel : forall l l', Forall2 tok_rel l l' -> Forall2 out_rel (zero_line_starts l) (zero_line_starts l').
Proof.
  unfold zero_line_starts. induction 1 as [|[t f] [t' f'] l l' (Ht & (A & B & C & D)) Hl IH]; cbn [map]; constructor; [|exact IH].
  cbn [fst snd] in *. subst t'. rewrite <- B. destruct (0 <? f_nl f) eqn:E.
  - unfold out_rel, fmt_rel. cbn [fst snd f_ignored f_nl f_ind f_cont]. rewrite A, B, C, D. repeat split; reflexivity.
  - apply N.ltb_ge in E. unfold out_rel, fmt_rel. cbn [fst snd]. repeat split; try assumption. intros Hn. lia.
Qed.

Lemma tokinfo_of_rel : forall l l', Forall2 tok_rel l l' -> Forall2 info_rel (map tokinfo_of l) (map tokinfo_of l').
Proof.
  induction 1 as [|[t f] [t' f'] l l' (Ht & _) Hl IH]; cbn [map]; constructor; [|exact IH]. cbn [fst] in Ht. subst t'. repeat split.
Qed.

(* olf_model .. false: the events and the out-of-fuel flag are equal; the final vectors agree in the tokens and all counters, and in the
   spaces at every token that starts a line.  (An equality of the vectors is false: a token no solved line decides - a line without a
   solution, an asm line - keeps the spaces it came with.) *)
Theorem olf_model_sp rs W lines l l' :
  Forall2 tok_rel l l' ->
  differing_are_must_break (map tokinfo_of l) (map tokinfo_of l') lines ->
  snd (fst (olf_model rs W false lines l)) = snd (fst (olf_model rs W false lines l'))
  /\ snd (olf_model rs W false lines l) = snd (olf_model rs W false lines l')
  /\ Forall2 out_rel (fst (fst (olf_model rs W false lines l))) (fst (fst (olf_model rs W false lines l'))).
Proof.
  intros Hl Hmb. unfold olf_model. cbn [fst snd].
  rewrite <- (wrap_phase1_sp W (map tokinfo_of l) (map tokinfo_of l') lines (tokinfo_of_rel l l' Hl) Hmb).
  split; [reflexivity|]. split; [reflexivity|]. apply zero_line_starts_rel. apply apply_plan_rel. exact Hl.
Qed.

(* with f_nl > 0 the whole format data is equal: the statement FormatIdemProofs needs at a token that starts a line *)
Corollary olf_model_sp_line_start rs W lines l l' t tok f tok' f' :
  Forall2 tok_rel l l' -> differing_are_must_break (map tokinfo_of l) (map tokinfo_of l') lines ->
  nth_error (fst (fst (olf_model rs W false lines l))) t = Some (tok, f) ->
  nth_error (fst (fst (olf_model rs W false lines l'))) t = Some (tok', f') ->
  tok = tok' /\ fmt_rel f f' /\ (f_nl f <> 0 -> f = f').
Proof.
  intros Hl Hmb E1 E2. destruct (olf_model_sp rs W lines l l' Hl Hmb) as (_ & _ & H). revert t E1 E2.
  induction H as [|p q r r' Hpq Hr IH]; intros t E1 E2; [destruct t; discriminate|].
  destruct t as [|t]; cbn [nth_error] in *; [|exact (IH t E1 E2)]. injection E1 as ->. injection E2 as ->. exact Hpq.
Qed.

(* ------------------------------------------------------------------ *)
(* non-vacuity: `A //c` + `B;` — token 2 (`B`) follows a line comment, its invariant is MustBreak; 3 or 7 spaces before it *)
Definition spx (sp : N) : list ftoken :=
  [(mkToken [] [65] TT_Identifier, mkFmt false 0 0 0 0);
   (mkToken [] [47; 47; 99] (TT_Comment CoK_InlineLine), mkFmt false 0 0 0 1);
   (mkToken [] [66] TT_Identifier, mkFmt false 1 0 0 sp);
   (mkToken [] [59] (TT_Op OK_Semicolon), mkFmt false 0 0 0 0);
   (mkToken [] [] TT_Eof, mkFmt false 1 0 0 0)].
Definition spx_lines : list lline := [mkLine LLT_Unknown 0 None [0; 1; 2; 3]%nat; mkLine LLT_Eof 0 None [4]%nat].
Definition spx_W : wsettings := mkWS 120 200 false 2 4.

Example spx_rel : Forall2 tok_rel (spx 3) (spx 7).
Proof. unfold spx. repeat constructor. Qed.

Example spx_must_break : differing_are_must_break (map tokinfo_of (spx 3)) (map tokinfo_of (spx 7)) spx_lines.
Proof.
  intros lv r Hlv Hr Hd. vm_compute in Hlv. destruct Hlv as [<-|[<-|[]]]; cbn [lv_recs] in Hr;
    repeat (destruct Hr as [<-|Hr]; [first [reflexivity|exfalso; apply Hd; reflexivity]|]); destruct Hr.
Qed.

Example spx_same_result :
  snd (fst (olf_model (mkRS [10] [32; 32] [32; 32; 32; 32]) spx_W false spx_lines (spx 3))) = snd (fst (olf_model (mkRS [10] [32; 32] [32; 32; 32; 32]) spx_W false spx_lines (spx 7)))
  /\ Forall2 out_rel (fst (fst (olf_model (mkRS [10] [32; 32] [32; 32; 32; 32]) spx_W false spx_lines (spx 3)))) (fst (fst (olf_model (mkRS [10] [32; 32] [32; 32; 32; 32]) spx_W false spx_lines (spx 7)))).
Proof. destruct (olf_model_sp (mkRS [10] [32; 32] [32; 32; 32; 32]) spx_W spx_lines (spx 3) (spx 7) spx_rel spx_must_break) as (A & _ & C). split; assumption. Qed.

(* the token is decided (a break), so here even the vectors are equal; and the hypothesis is needed: without MustBreak the spaces are read *)
Example spx_vectors_equal :
  fst (fst (olf_model (mkRS [10] [32; 32] [32; 32; 32; 32]) spx_W false spx_lines (spx 3))) = fst (fst (olf_model (mkRS [10] [32; 32] [32; 32; 32; 32]) spx_W false spx_lines (spx 7))).
Proof. vm_compute. reflexivity. Qed.

Print Assumptions solve_sp.
Print Assumptions olf_model_sp.
Print Assumptions olf_model_sp_line_start.
