(* Proofs/FormatRelayoutProofs.v — C06 for the composed model, as far as the stage theorems carry it.

   format_relayout: two inputs whose scans have the same token texts and raw kinds (seg_sim) format to the same output when
     - there is no `asm` keyword (then the parser does not read the layout: parse_file_model_wsnl_irrelevant),
     - the run ignores no token (then neither the asm ignorer nor the reconstructor reads the whitespace text: FormatWsProofs),
     - the leading whitespace of corresponding tokens gives the same newlines_before, and the same spaces_before wherever TokenSpacing
       reads it — SpacingProofs.layout_similar, stated on the vectors FormattingData::from produces (lay_similar): spaces are free
       between any two tokens outside the F4 gap class; the TEXT of the whitespace (tabs, spaces, CR, U+3000, order) is free everywhere.
   It holds for both phases of the wrapper and every configuration.

   What is NOT covered, and what each needs:
     1. the lexer link: that the re-laid-out text scans to the tokens of the original with the new blanks is a hypothesis
        (lex_segments s' = Some segs' with seg_sim): LexerRelayoutProofs.lex_relayout gives it only when every gap is a valid separator
        (gaps_ok: non-empty between ordinary tokens), not for files with adjacent tokens whose gaps are kept.
     2. turning a space into a single line break and back between two non-comment tokens (newlines_before 0 <-> 1): the counter is kept
        by every stage up to the wrapper (the congruences below would carry a relation on it), the first phase's events do not read
        it (WrapReadsProofs.olf_phase1_events_read) and a token the first phase DECIDES ends with counters that do not depend on it
        except through clamp12 (olf_phase1_counters_read; clamp12 0 = clamp12 1); what is missing is the same statement for the
        tokens the wrapper does not decide (lines without a solution, asm lines, children of voided lines keep newlines_before as read:
        there the clause is FALSE), i.e. the theorem needs "every token is decided" as a hypothesis, and for the second phase that the
        reflowed lines are decided again (respace reads 0 <? newlines_before of the state after the string stage, which is the first
        phase's result for decided tokens). *)
From Coq Require Import Lia.
From PasfmtVerif Require Import Model.Format Proofs.FormatProofs Proofs.FormatTotalProofs Proofs.FormatIgnoredProofs Proofs.FormatWsProofs
  Proofs.FormatCrlfProofs Proofs.SpacingProofs Proofs.WrapApplyProofs Proofs.ToggleProofs Proofs.GenericsProofs Proofs.ParserGrammarWsnlProofs.

Definition seg_sim (a b : seg) : Prop := seg_content b = seg_content a /\ seg_ty b = seg_ty a.

(* the tokens of the second vector with the formatting data of the first *)
Definition relaid (l l' : list ftoken) : list ftoken := map (fun pq : ftoken * ftoken => (fst (snd pq), snd (fst pq))) (combine l l').

(* same newlines_before; same spaces_before where TokenSpacing reads them *)
Definition lay_similar (segs segs' : list seg) : Prop := layout_similar (relaid (fm_l0 segs) (fm_l0 segs')) (fm_l0 segs').

Lemma sim_seg_tys segs segs' : Forall2 seg_sim segs segs' -> map seg_ty segs' = map seg_ty segs.
Proof. induction 1 as [|a b r r' (_ & Ht) _ IH]; [reflexivity|]. cbn [map]. rewrite Ht, IH. reflexivity. Qed.

Lemma tokens_of_sim segs segs' tys : Forall2 seg_sim segs segs' -> Forall2 tok_sim (tokens_of segs tys) (tokens_of segs' tys).
Proof.
  unfold tokens_of. intros H. revert tys. induction H as [|a b r r' (Hc & Ht) _ IH]; intros [|ty tys]; cbn [combine map]; try constructor; [|apply IH].
  cbn [fst snd]. split; cbn; [reflexivity|exact Hc].
Qed.

Section Relayout.
Variables segs segs' : list seg.
Hypothesis Hsim : Forall2 seg_sim segs segs'.
Hypothesis Hnoasm : no_asm (map seg_ty segs).
Hypothesis Hunmarked : forall m, In m (fm_marks segs) -> m = false.
Hypothesis Hlay : lay_similar segs segs'.

Lemma rl_tys : map seg_ty segs' = map seg_ty segs.
Proof. exact (sim_seg_tys segs segs' Hsim). Qed.

Lemma rl_parse : fm_parse segs' = fm_parse segs.
Proof. unfold fm_parse. rewrite rl_tys. apply parse_file_model_wsnl_irrelevant, Hnoasm. Qed.

Lemma rl_toks0 : Forall2 tok_sim (fm_toks0 segs) (fm_toks0 segs').
Proof. unfold fm_toks0. rewrite rl_parse. apply tokens_of_sim, Hsim. Qed.

Lemma sim_map_ty a b : Forall2 tok_sim a b -> map t_ty b = map t_ty a.
Proof. induction 1 as [|x y r r' (Ht & _) _ IH]; [reflexivity|]. cbn [map]. rewrite Ht, IH. reflexivity. Qed.

Lemma retype_sim a b tys : Forall2 tok_sim a b -> Forall2 tok_sim (Format.retype a tys) (Format.retype b tys).
Proof.
  unfold Format.retype. intros H. revert tys. induction H as [|x y r r' (Ht & Hc) _ IH]; intros [|ty tys]; cbn [combine map]; try constructor; [|apply IH].
  cbn [fst snd set_ty]. split; cbn; [reflexivity|exact Hc].
Qed.

Lemma rl_toks : Forall2 tok_sim (fm_toks segs) (fm_toks segs').
Proof. unfold fm_toks. rewrite (sim_map_ty _ _ rl_toks0). apply retype_sim, rl_toks0. Qed.

Lemma rl_tys2 : fm_tys segs' = fm_tys segs.
Proof. unfold fm_tys. apply sim_map_ty, rl_toks. Qed.

Lemma rl_lines0 : fm_lines0 segs' = fm_lines0 segs.
Proof. unfold fm_lines0, fm_lines_cd. rewrite rl_tys2, rl_parse. reflexivity. Qed.

(* the marks: none on either side *)
Lemma or_marks_all_false a b : length a = length b -> (forall m, In m (or_marks a b) -> m = false) ->
  (forall m, In m a -> m = false) /\ (forall m, In m b -> m = false).
Proof.
  unfold or_marks. revert b. induction a as [|x a IH]; intros [|y b] Hl H; cbn in Hl; try discriminate; [split; intros m []|].
  cbn [combine map] in H. pose proof (H _ (or_introl eq_refl)) as H0. cbn [fst snd] in H0. apply orb_false_iff in H0. destruct H0 as [-> ->].
  destruct (IH b ltac:(congruence) (fun m Hm => H m (or_intror Hm))) as [A B].
  split; intros m [<-|Hm]; auto.
Qed.

Lemma asm_fwd_false : forall l, (forall x, In x l -> snd x = false) -> forall m, In m (asm_fwd false l) -> m = false.
Proof.
  induction l as [|[tok b] r IH]; intros H m Hm; [destruct Hm|]. cbn [asm_fwd] in Hm.
  pose proof (H _ (or_introl eq_refl)) as Hb. cbn [snd] in Hb. subst b. rewrite andb_false_r in Hm. cbn [orb] in Hm.
  destruct Hm as [<-|Hm]; [reflexivity|]. apply (IH (fun x Hx => H x (or_intror Hx)) m Hm).
Qed.

Lemma asm_bwd_false : forall l, (forall x, In x l -> snd x = false) -> forall m, In m (asm_bwd l) -> m = false.
Proof.
  induction l as [|[tok b] r IH]; intros H m Hm; [destruct Hm|]. cbn [asm_bwd] in Hm.
  pose proof (H _ (or_introl eq_refl)) as Hb. cbn [snd] in Hb. subst b.
  assert (Hr : forall m0, In m0 (asm_bwd r) -> m0 = false) by (apply IH; intros x Hx; apply H; right; exact Hx).
  destruct Hm as [<-|Hm]; [|exact (Hr m Hm)].
  destruct r as [|[nt nb] r']; [rewrite andb_false_r; reflexivity|]. destruct (asm_bwd ((nt, nb) :: r')) as [|nm rest] eqn:E; [rewrite andb_false_r; reflexivity|].
  rewrite (Hr nm (or_introl eq_refl)), !andb_false_r. reflexivity.
Qed.

Lemma in_combine_snd_false {A} (a : list A) (b : list bool) : (forall m, In m b -> m = false) -> forall x, In x (combine a b) -> snd x = false.
Proof. intros H [t m] Hx. apply in_combine_r in Hx. exact (H m Hx). Qed.

Lemma asm_marks_none toks lines : (forall m, In m (asm_base toks lines) -> m = false) -> forall m, In m (asm_marks toks lines) -> m = false.
Proof. intros H. unfold asm_marks. apply asm_bwd_false, in_combine_snd_false, asm_fwd_false, in_combine_snd_false, H. Qed.

Lemma asm_base_le toks lines : (forall m, In m (asm_marks toks lines) -> m = false) -> forall m, In m (asm_base toks lines) -> m = false.
Proof.
  intros H m Hm. destruct m; [|reflexivity]. exfalso. unfold asm_base in Hm. apply in_map_iff in Hm. destruct Hm as (i & Hi & Hin). apply in_seq in Hin.
  destruct (nth_error toks i) as [tok|] eqn:Et; [|apply nth_error_None in Et; lia].
  destruct (asm_marks_spec toks lines i tok Et) as (m & Hm & Hup & _). specialize (Hup Hi). subst m.
  apply nth_error_In in Hm. discriminate (H _ Hm).
Qed.

Lemma rl_marks : fm_marks segs' = fm_marks segs.
Proof.
  assert (Hl0 : length (fm_toks0 segs') = length (fm_toks0 segs)) by (symmetry; exact (Forall2_length rl_toks0)).
  assert (Hl : length (fm_toks segs') = length (fm_toks segs)) by (symmetry; exact (Forall2_length rl_toks)).
  unfold fm_marks in *. rewrite rl_lines0, (toggle_marks_sim _ _ false rl_toks).
  set (z := map (fun _ : token => false) (fm_toks0 segs)). set (z' := map (fun _ : token => false) (fm_toks0 segs')).
  assert (Hz : z' = z).
  { subst z z'. revert Hl0. generalize (fm_toks0 segs) (fm_toks0 segs'). induction l as [|a l IH]; intros [|b l'] H; cbn in *; try discriminate; [reflexivity|]. f_equal. apply IH. congruence. }
  rewrite Hz. f_equal.
  (* both asm mark vectors are all false *)
  set (tg := or_marks z (toggle_marks false (fm_toks segs))) in *.
  assert (Hlen : length tg = length (asm_marks (fm_toks segs) (map line_view (fm_lines0 segs)))).
  { subst tg z. rewrite or_marks_length; rewrite ?map_length, ?toggle_marks_length, ?asm_marks_length, ?fm_toks0_length, ?fm_toks_length; reflexivity. }
  destruct (or_marks_all_false _ _ Hlen Hunmarked) as [_ Hasm].
  pose proof (asm_base_le _ _ Hasm) as Hbase.
  assert (Hbase' : forall m, In m (asm_base (fm_toks segs') (map line_view (fm_lines0 segs))) -> m = false) by (unfold asm_base in *; rewrite Hl; exact Hbase).
  pose proof (asm_marks_none _ _ Hbase') as Hasm'.
  assert (G : forall a b : list bool, length a = length b -> (forall m, In m a -> m = false) -> (forall m, In m b -> m = false) -> a = b).
  { induction a as [|x a IH]; intros [|y b] H Ha Hb; cbn in H; try discriminate; [reflexivity|].
    rewrite (Ha x (or_introl eq_refl)), (Hb y (or_introl eq_refl)). f_equal. apply IH; [congruence|intros m Hm; apply Ha; right; exact Hm|intros m Hm; apply Hb; right; exact Hm]. }
  apply G; [rewrite !asm_marks_length; exact Hl|exact Hasm'|exact Hasm].
Qed.

Lemma rl_lines : fm_lines segs' = fm_lines segs.
Proof. unfold fm_lines. rewrite rl_marks, rl_lines0. reflexivity. Qed.

(* FormattingData::from then TokenSpacing *)
Lemma l0_lengths : length (fm_l0 segs') = length (fm_l0 segs).
Proof. rewrite !fm_l0_length. symmetry. exact (Forall2_length Hsim). Qed.

Lemma l0_fst_sim : forall i, match nth_error (fm_l0 segs) i, nth_error (fm_l0 segs') i with
                             | Some p, Some q => tok_sim (fst p) (fst q) | None, None => True | _, _ => False end.
Proof.
  unfold fm_l0. rewrite rl_marks. pose proof rl_toks as H. revert H. generalize (fm_toks segs) (fm_toks segs') (fm_marks segs). intros a b ms H. revert ms.
  induction H as [|x y r r' Hxy _ IH]; intros [|m ms] [|i]; cbn [combine map nth_error]; try exact I; [exact Hxy|apply IH].
Qed.

Lemma relaid_ws : ws_sim (fm_l0 segs) (relaid (fm_l0 segs) (fm_l0 segs')).
Proof.
  unfold relaid. pose proof l0_lengths as Hl. pose proof l0_fst_sim as Hn. revert Hl Hn. generalize (fm_l0 segs) (fm_l0 segs').
  induction l as [|p r IH]; intros [|q r'] Hl Hn; cbn in Hl; try discriminate; [constructor|]. cbn [combine map]. constructor.
  - split; [exact (Hn O)|reflexivity].
  - apply IH; [congruence|]. intros i. exact (Hn (S i)).
Qed.

Lemma rl_l1 : ws_sim (fm_l1 segs) (fm_l1 segs').
Proof. unfold fm_l1. rewrite <- (spacing_layout_free _ _ Hlay). apply token_spacing_ws, relaid_ws. Qed.

Lemma rl_l4 alnum : ws_sim (fm_l4 alnum segs) (fm_l4 alnum segs').
Proof.
  unfold fm_l4, fm_l3, fm_l2. rewrite rl_lines. apply eof_newline_lines_ws.
  apply ws_sim_map; [apply comment_tok_ws|]. apply ws_sim_map; [apply lowercase_tok_ws|]. apply rl_l1.
Qed.

Lemma rl_final alnum cfg : ws_sim (fm_final alnum cfg segs) (fm_final alnum cfg segs').
Proof. unfold fm_final, fm_wrap. rewrite rl_lines. apply olf_model_ws, rl_l4. Qed.

Lemma rl_wrap_err alnum cfg : snd (fm_wrap alnum cfg segs') = snd (fm_wrap alnum cfg segs).
Proof. unfold fm_wrap. rewrite rl_lines. apply (proj2 (proj2 (olf_model_ws _ _ _ _ _ _ (rl_l4 alnum)))). Qed.
End Relayout.

(* C06, end to end (what holds of it: see the header) *)
Theorem format_relayout alnum cfg s s' segs segs' :
  lex_segments s = Some segs -> lex_segments s' = Some segs' ->
  Forall2 seg_sim segs segs' -> no_asm (map seg_ty segs) ->
  (forall m, In m (fm_marks segs) -> m = false) ->
  lay_similar segs segs' ->
  format_model alnum cfg s' = format_model alnum cfg s.
Proof.
  intros Hl Hl' Hsim Hna Hm Hlay. rewrite !format_model_eq, Hl, Hl'. rewrite (rl_parse segs segs' Hsim Hna).
  destruct (r_err (fm_parse segs)); [reflexivity|]. rewrite (rl_tys2 segs segs' Hsim Hna).
  destruct (expand_all_chk _ _); [|reflexivity]. rewrite (rl_wrap_err segs segs' Hsim Hna Hm Hlay).
  destruct (snd (fm_wrap alnum cfg segs)); [reflexivity|]. f_equal.
  unfold fm_out, reconstruct. apply recon_ws; [apply (rl_final segs segs' Hsim Hna Hm Hlay)|].
  apply Forall_forall. intros q Hq. apply In_nth_error in Hq. destruct Hq as (j & Hj).
  destruct (fm_stages_rel alnum cfg segs) as [L H].
  assert (Hlt : (j < length (fm_l0 segs))%nat) by (rewrite <- L; apply nth_error_Some; intros Hx; pose proof (eq_trans (eq_sym Hj) Hx) as Hy; discriminate Hy).
  destruct (nth_error (fm_l0 segs) j) as [p0|] eqn:E0; [|apply nth_error_None in E0; lia].
  destruct (H j p0 E0) as (q' & Hq' & _ & I & _). pose proof (eq_trans (eq_sym Hj) Hq') as Eq. injection Eq as <-. rewrite I.
  unfold fm_l0 in E0. rewrite nth_error_map in E0. destruct (nth_error (combine (fm_toks segs) (fm_marks segs)) j) as [[tk m]|] eqn:Ec; [|discriminate E0].
  cbn in E0. injection E0 as <-. cbn [snd]. apply nth_error_In in Ec. apply in_combine_r in Ec. rewrite (Hm m Ec). reflexivity.
Qed.

(* non-vacuity: tabs for spaces, CRLF for LF, three spaces for one, a space dropped in front of `;`, a space added in front of `end` *)
Example format_relayout_example :
  let s  := [98;101;103;105;110; 10; 32;32; 120; 32; 58;61; 32; 121; 32; 59; 10; 101;110;100; 46]%N in            (* begin\n  x := y ;\nend. *)
  let s' := [98;101;103;105;110; 13;10; 9;32; 120; 32;32;32; 58;61; 9; 121; 59; 10; 32; 101;110;100; 46]%N in   (* begin\r\n\t x   :=\ty;\n end. *)
  exists segs segs', lex_segments s = Some segs /\ lex_segments s' = Some segs' /\ Forall2 seg_sim segs segs' /\ no_asm (map seg_ty segs)
    /\ (forall m, In m (fm_marks segs) -> m = false) /\ lay_similar segs segs'
    /\ format_model (fun _ => false) (mkCfg 120 false true false 2 2 false) s' = inl [98;101;103;105;110; 10; 32;32; 120; 32; 58;61; 32; 121; 59; 10; 101;110;100; 46; 10]%N.
Proof.
  intros s s'. destruct (lex_segments s) as [segs|] eqn:E; [|vm_compute in E; discriminate]. destruct (lex_segments s') as [segs'|] eqn:E'; [|vm_compute in E'; discriminate].
  exists segs, segs'. split; [reflexivity|]. split; [reflexivity|].
  vm_compute in E. injection E as <-. vm_compute in E'. injection E' as <-.
  split; [repeat (constructor; [split; reflexivity|]); constructor|].
  split; [repeat (constructor; [cbn; try exact I; try discriminate|]); constructor|].
  split; [intros m Hm; vm_compute in Hm; repeat (destruct Hm as [<-|Hm]; [reflexivity|]); destruct Hm|].
  split; [|vm_compute; reflexivity].
  unfold lay_similar. vm_compute. repeat split; try reflexivity; auto.
Qed.

Print Assumptions format_relayout.
