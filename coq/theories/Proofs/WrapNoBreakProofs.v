(* Proofs/WrapNoBreakProofs.v — C11, the case where no break is needed.
   If from the first decision on the search can continue token after token — every requirement on the way is
   MustNotBreak or Indifferent, every step has exactly one successor, and no node on the way measures more than
   max_line_length (cpath) — then find_optimal_solution returns exactly that path: its solution is the node at the
   end of the path, found in at most 2 iterations, whatever the iteration limit (>= 1) and the heap do (fos_cpath).
   For a line without child lines the path is explicit (cont_end) and the condition is an executable check (cont_ok)
   that depends on max_line_length only through `length <= max_line_length`: so the line is laid out identically at
   every max_line_length at or above the one where the check holds (solve_all_continue, solve_all_continue_wider).
   The first decision is what FirstDecision says (a break of a top-level line costs its break penalty; nothing else is
   paid).
   Child lines: a token with child lines stays on the path only if its options yield ONE successor (e.g. the single
   option ContinueAll of an empty case arm `A:;` or of a one-line anonymous routine that was not broken); two options
   (a case arm `A: B;`, a variant-record `(`) put two nodes into the heap and are outside this statement. *)
From PasfmtVerif Require Import Model.WrapSearch Model.WrapFormat Proofs.WrapSearchProofs Proofs.WrapEventsProofs.
From Coq Require Import Lia.

Section Path.
Variable W : wsettings.
Variable lvs : list lview.
Variable fm : nat.
Variable cs : sst -> lview -> N * N -> first_decision -> sst * option solution.
Variable lv : lview.

Definition req_of (nd : node) (r : trec) : DecisionRequirement :=
  get_formatting_requirement (lv_type lv) (tr_win r) (tr_ty r) (tr_inv r) (tr_stk r) (n_data nd) (n_nli nd).

(* continue token after token while that is allowed, unambiguous and within the limit *)
Fixpoint cpath (fuel : nat) (nd : node) (st : sst) : option (node * sst) :=
  if w_max W <? last_line_length_of nd then None
  else match n_rest nd with
       | [] => Some (nd, st)
       | r :: _ =>
           match fuel with
           | O => None
           | S f =>
               match req_of nd r with
               | DR_MustNotBreak | DR_Indifferent =>
                   match potential W lvs cs lv st nd false with
                   | (st', [n]) => cpath f n st'
                   | _ => None
                   end
               | _ => None
               end
           end
       end.

Lemma walk_unfold f1 f2 nd indiff best st :
  walk W lvs cs lv f1 (S f2) nd indiff best st =
  let '(s, b, st') := walk_step W lvs cs lv nd indiff best st in
  match s with
  | WS_stop r => (r, b, st')
  | WS_forward n i => walk W lvs cs lv f1 f2 n i b st'
  | WS_restart n => match f1 with O => (W_fuel, b, st') | S f1' => walk W lvs cs lv f1' (S (length (n_rest n))) n None b st' end
  end.
Proof. destruct f1; reflexivity. Qed.

Lemma walk_cpath : forall fuel nd st nf st', cpath fuel nd st = Some (nf, st') ->
  forall f1 f2 indiff best, (fuel < f2)%nat -> walk W lvs cs lv f1 f2 nd indiff best st = (W_push nf, best, st').
Proof.
  induction fuel as [|f IH]; intros nd st nf st' H f1 f2 indiff best Hf; destruct f2 as [|f2]; try lia.
  - cbn [cpath] in H. destruct (w_max W <? last_line_length_of nd) eqn:Eo; [discriminate|].
    destruct (n_rest nd) as [|r rest] eqn:Er; [|discriminate]. injection H as <- <-.
    rewrite walk_unfold. unfold walk_step. rewrite Eo, Er. reflexivity.
  - cbn [cpath] in H. destruct (w_max W <? last_line_length_of nd) eqn:Eo; [discriminate|].
    destruct (n_rest nd) as [|r rest] eqn:Er.
    + injection H as <- <-. rewrite walk_unfold. unfold walk_step. rewrite Eo, Er. reflexivity.
    + unfold req_of in H.
      destruct (get_formatting_requirement (lv_type lv) (tr_win r) (tr_ty r) (tr_inv r) (tr_stk r) (n_data nd) (n_nli nd)) eqn:Ereq; try discriminate.
      * destruct (potential W lvs cs lv st nd false) as [s1 succ] eqn:Ep. destruct succ as [|n [|n2 l]]; try discriminate.
        assert (Hw : walk_step W lvs cs lv nd indiff best st = (WS_forward n (match indiff with Some _ => indiff | None => Some nd end), best, s1))
          by (unfold walk_step; rewrite Eo, Er, Ereq, Ep; reflexivity).
        rewrite walk_unfold, Hw. apply (IH n s1 nf st' H). lia.
      * destruct (potential W lvs cs lv st nd false) as [s1 succ] eqn:Ep. destruct succ as [|n [|n2 l]]; try discriminate.
        assert (Hw : walk_step W lvs cs lv nd indiff best st = (WS_forward n indiff, best, s1))
          by (unfold walk_step; rewrite Eo, Er, Ereq, Ep; reflexivity).
        rewrite walk_unfold, Hw. apply (IH n s1 nf st' H). lia.
Qed.

Lemma cpath_fuel : forall fuel nd st nf st', cpath fuel nd st = Some (nf, st') -> n_rest nf = [].
Proof.
  induction fuel as [|f IH]; intros nd st nf st' H; cbn [cpath] in H; destruct (w_max W <? last_line_length_of nd); try discriminate;
    destruct (n_rest nd) as [|r rest] eqn:Er; try discriminate; try (injection H as <- <-; exact Er).
  destruct (req_of nd r); try discriminate; destruct (potential W lvs cs lv st nd false) as [s1 [|n [|n2 l]]]; try discriminate; exact (IH n s1 nf st' H).
Qed.

(* a heap holding one node *)
Lemma heap_single_pop x : heap_pop (heap_extend [x] heap_empty) = Some (x, mkHeap 0 (pt_set 1 None (pt_set 1 (Some x) PLeaf))).
Proof. reflexivity. Qed.

Lemma heap_push_pop x t : heap_pop (heap_push x (mkHeap 0 t)) = Some (x, mkHeap 0 (pt_set 1 None (pt_set 1 (Some x) t))).
Proof. unfold heap_push, heap_pop. cbn [h_len h_data N.succ sift_up]. rewrite pt_get_set_same. reflexivity. Qed.

(* the main loop started on a heap that holds the single node nd0 *)
Lemma main_loop_cpath nd0 st nf st' fuel best :
  cpath (length (n_rest nd0)) nd0 st = Some (nf, st') -> (2 <= fuel)%nat -> 1 <= w_iter W ->
  (n_pen nd0 <= best_at best (N.to_nat (N.pred (n_nli nd0)))) ->
  main_loop W lvs cs lv fuel (heap_extend [nd0] heap_empty) 0 best st
  = (sst_log (Ev_S (lv_idx lv) (WS_ok (n_pen nf) (if match n_rest nd0 with [] => true | _ => false end then 1 else 2)
                                     (match n_decs nf with t :: _ => td_lll t | [] => 0 end))) st', SR_ok (solution_of_node nf)).
Proof.
  intros Hc Hf Hit Hbest. destruct fuel as [|[|fuel]]; try lia. cbn [main_loop]. rewrite heap_single_pop.
  replace (w_iter W <? 0) with false by (symmetry; apply N.ltb_ge; lia).
  destruct (n_rest nd0) as [|r rest] eqn:Er.
  - cbn [cpath length] in Hc. destruct (w_max W <? last_line_length_of nd0); [discriminate|]. rewrite Er in Hc. injection Hc as <- <-. reflexivity.
  - replace (best_at best (N.to_nat (N.pred (n_nli nd0))) <? n_pen nd0) with false by (symmetry; apply N.ltb_ge; exact Hbest).
    rewrite (walk_cpath (length (r :: rest)) nd0 st nf st' Hc (S (length (r :: rest))) (S (length (r :: rest))) None best ltac:(lia)).
    cbn [main_loop]. rewrite heap_push_pop. replace (w_iter W <? 0 + 1) with false by (symmetry; apply N.ltb_ge; lia).
    rewrite (cpath_fuel _ _ _ _ _ Hc). reflexivity.
Qed.
End Path.

(* ------------------------------------------------------------------ *)
(* lines without child lines: the path is explicit *)
Definition prev_len (decs : list tdec) : N :=
  match decs with t :: _ => match last_child_line_len (td_kids t) with Some l => l | None => td_lll t end | [] => 0 end.
Definition cont_tll (decs : list tdec) (r : trec) : N :=
  match tr_ml r with Some l => l | None => prev_len decs + tr_sp r + tr_len r end.

(* the node after continuing before the token r *)
Definition cstep (lt : LogicalLineType) (nd : node) (r : trec) : node :=
  mkNode (n_ws nd) (TDec WContinue (cont_tll (n_decs nd) r) [] :: n_decs nd) (N.succ (n_nli nd)) (tl (n_rest nd))
         (update_contexts lt (tr_win r) (tr_ty r) (tr_stk r) (n_nli nd) false (n_data nd)) (n_pen nd).

(* "every requirement on the way allows to continue and nothing measured exceeds M" *)
Fixpoint cont_ok (M : N) (lv : lview) (fuel : nat) (nd : node) : bool :=
  (last_line_length_of nd <=? M)
  && match n_rest nd with
     | [] => true
     | r :: _ =>
         match fuel with
         | O => false
         | S f => match req_of lv nd r with DR_MustNotBreak | DR_Indifferent => cont_ok M lv f (cstep (lv_type lv) nd r) | _ => false end
         end
     end.

Fixpoint cont_end (lv : lview) (fuel : nat) (nd : node) : node :=
  match n_rest nd with
  | [] => nd
  | r :: _ => match fuel with O => nd | S f => cont_end lv f (cstep (lv_type lv) nd r) end
  end.

Lemma cont_ok_mono lv M M' : M <= M' -> forall fuel nd, cont_ok M lv fuel nd = true -> cont_ok M' lv fuel nd = true.
Proof.
  intros HM. induction fuel as [|f IH]; intros nd H; cbn [cont_ok] in *; apply andb_true_iff in H; destruct H as (H1 & H2); apply andb_true_iff;
    (split; [apply N.leb_le in H1; apply N.leb_le; lia|]); destruct (n_rest nd) as [|r rest]; try exact H2.
  destruct (req_of lv nd r); try exact H2; apply IH; exact H2.
Qed.

Lemma cont_end_pen lv : forall fuel nd, n_pen (cont_end lv fuel nd) = n_pen nd.
Proof. induction fuel as [|f IH]; intros nd; cbn [cont_end]; destruct (n_rest nd); try reflexivity. rewrite IH. reflexivity. Qed.

Definition no_kids (r : trec) : Prop := tr_kids r = None.

Section NoKids.
Variable W : wsettings.
Variable lvs : list lview.
Variable fm : nat.
Variable cs : sst -> lview -> N * N -> first_decision -> sst * option solution.
Variable lv : lview.

Lemma potential_no_kids st nd r rest : n_rest nd = r :: rest -> no_kids r -> cont_tll (n_decs nd) r <= w_max W ->
  potential W lvs cs lv st nd false = (st, [cstep (lv_type lv) nd r]).
Proof.
  intros Er Hk Hl. unfold potential. rewrite Er. unfold child_lines_solutions. rewrite Hk. cbn [map fold_left].
  unfold cstep. rewrite Er. cbn [tl]. unfold decision_penalty.
  change (token_line_length' W (n_ws nd) (n_decs nd) WContinue r) with (cont_tll (n_decs nd) r).
  replace (w_max W <? cont_tll (n_decs nd) r) with false by (symmetry; apply N.ltb_ge; exact Hl).
  rewrite N.add_0_r. reflexivity.
Qed.

Lemma cpath_no_kids : forall fuel nd st, Forall no_kids (n_rest nd) -> cont_ok (w_max W) lv fuel nd = true ->
  cpath W lvs cs lv fuel nd st = Some (cont_end lv fuel nd, st).
Proof.
  induction fuel as [|f IH]; intros nd st Hnk H; cbn [cont_ok] in H; apply andb_true_iff in H; destruct H as (H1 & H2); apply N.leb_le in H1;
    cbn [cpath cont_end]; (replace (w_max W <? last_line_length_of nd) with false by (symmetry; apply N.ltb_ge; exact H1));
    destruct (n_rest nd) as [|r rest] eqn:Er; try reflexivity; try discriminate.
  inversion Hnk as [|? ? Hr Hrest]; subst.
  assert (Hnext : cont_ok (w_max W) lv f (cstep (lv_type lv) nd r) = true) by (destruct (req_of lv nd r); try discriminate; exact H2).
  assert (Hl : cont_tll (n_decs nd) r <= w_max W).
  { destruct f; cbn [cont_ok] in Hnext; apply andb_true_iff in Hnext; destruct Hnext as (Hn & _); apply N.leb_le in Hn;
      unfold last_line_length_of, cstep in Hn; cbn [n_decs td_lll td_kids last_child_line_len last_opt' rev] in Hn; lia. }
  fold (req_of lv nd r). rewrite (potential_no_kids st nd r rest Er Hr Hl).
  destruct (req_of lv nd r); try discriminate; apply IH; try exact Hnext; unfold cstep; cbn [n_rest]; rewrite Er; exact Hrest.
Qed.

(* the node find_optimal_solution starts from when the first token has no child lines; no w_max in it *)
Definition init_node (ws : N * N) (first : first_decision) (r : trec) (rest : list trec) : option node :=
  let inv := tr_inv r in
  let '(is_break, lll, base_can_break) :=
    match first with
    | FD_Break =>
        if inv IS Some DR_MustNotBreak then (false, match tr_ml r with Some l => l | None => tr_sp r + tr_len r end, true)
        else (true, match tr_ml r with Some l => l | None => lws_len W ws + tr_len r end, true)
    | FD_Continue line_length can_break =>
        (false, match tr_ml r with Some l => l | None => line_length + tr_sp r + tr_len r end, can_break)
    end in
  if (inv IS Some DR_MustBreak) && negb is_break then None
  else Some (mkNode ws [TDec (if is_break then WBreak 0 else WContinue) lll []] 1 rest
                    (dt_upd xH (fun s => mkSt (s_broken s) base_can_break (s_child s) (s_oepl s) (s_bar s)) PLeaf)
                    (if is_break then break_penalty (lv_type lv) (tr_fprev r) (tr_stk r) 0 else 0)).

Lemma break_penalty_le lt fp stk li : break_penalty lt fp stk li <= u64_max.
Proof. unfold break_penalty, u64_max. repeat match goal with |- context [if ?c then _ else _] => destruct c end; lia. Qed.

Theorem fos_all_continue st ws first r rest nd0 :
  lv_recs lv = r :: rest -> Forall no_kids (r :: rest) -> init_node ws first r rest = Some nd0 ->
  cont_ok (w_max W) lv (length rest) nd0 = true -> (2 <= fm)%nat -> 1 <= w_iter W ->
  find_optimal_solution W lvs fm cs lv st ws first
  = (sst_log (Ev_S (lv_idx lv) (WS_ok (n_pen nd0) (match rest with [] => 1 | _ => 2 end)
                                     (match n_decs (cont_end lv (length rest) nd0) with t :: _ => td_lll t | [] => 0 end))) st,
     SR_ok (solution_of_node (cont_end lv (length rest) nd0))).
Proof.
  intros Hrecs Hnk Hinit Hok Hfm Hit. inversion Hnk as [|? ? Hr Hrest]; subst.
  unfold find_optimal_solution. rewrite Hrecs. unfold init_node in Hinit.
  destruct (match first with FD_Break => _ | FD_Continue line_length can_break => _ end) as [[ib lll] bcb].
  destruct (bid _ && negb ib); [discriminate|]. injection Hinit as <-.
  unfold child_lines_solutions. rewrite Hr. cbn [map last_opt' rev app].
  assert (Hfit : lll <= w_max W).
  { destruct (length rest); cbn [cont_ok] in Hok; apply andb_true_iff in Hok; destruct Hok as (Hn & _); apply N.leb_le in Hn;
      unfold last_line_length_of in Hn; cbn [n_decs td_lll td_kids last_child_line_len last_opt' rev] in Hn; lia. }
  assert (Hpen : decision_penalty W (lv_type lv) r 0 ib lll = (if ib then break_penalty (lv_type lv) (tr_fprev r) (tr_stk r) 0 else 0)).
  { unfold decision_penalty. destruct ib; [reflexivity|]. replace (w_max W <? lll) with false by (symmetry; apply N.ltb_ge; exact Hfit). reflexivity. }
  rewrite Hpen.
  set (nd0 := mkNode ws [TDec (if ib then WBreak 0 else WContinue) lll []] 1 rest _ _) in *.
  pose proof (cpath_no_kids (length rest) nd0 st Hrest Hok) as Hc.
  pose proof (main_loop_cpath W lvs cs lv nd0 st (cont_end lv (length rest) nd0) st fm (repeat u64_max (length (r :: rest))) Hc Hfm Hit) as Hm.
  cbn [n_rest n_pen n_nli nd0] in Hm. rewrite Hm.
  - rewrite cont_end_pen. destruct rest; reflexivity.
  - cbn [length repeat best_at nth N.pred N.to_nat Pos.pred_N]. destruct ib; [apply break_penalty_le|unfold u64_max; lia].
Qed.
End NoKids.

(* ------------------------------------------------------------------ *)
(* the returned solution: the first decision, then only Continue, no child solutions *)
Lemma cont_end_decs lv : forall fuel nd, exists l, n_decs (cont_end lv fuel nd) = l ++ n_decs nd
                                          /\ Forall (fun t => td_dec t = WContinue /\ td_kids t = []) l.
Proof.
  induction fuel as [|f IH]; intros nd; cbn [cont_end]; destruct (n_rest nd) as [|r rest]; try (exists []; split; [reflexivity|constructor]).
  destruct (IH (cstep (lv_type lv) nd r)) as (l & H1 & H2). exists (l ++ [TDec WContinue (cont_tll (n_decs nd) r) []]).
  split; [rewrite H1; unfold cstep; cbn [n_decs]; rewrite <- app_assoc; reflexivity|].
  apply Forall_app. split; [exact H2|constructor; [split; reflexivity|constructor]].
Qed.

(* on `solve`, and for every wider limit *)
Theorem solve_all_continue W lvs fm k st lv ws first r rest nd0 :
  lv_recs lv = r :: rest -> Forall no_kids (r :: rest) -> init_node W lv ws first r rest = Some nd0 ->
  cont_ok (w_max W) lv (length rest) nd0 = true -> (2 <= fm)%nat -> 1 <= w_iter W ->
  solve W lvs fm (S k) st lv ws first
  = (sst_log (Ev_S (lv_idx lv) (WS_ok (n_pen nd0) (match rest with [] => 1 | _ => 2 end)
                                     (match n_decs (cont_end lv (length rest) nd0) with t :: _ => td_lll t | [] => 0 end))) st,
     Some (solution_of_node (cont_end lv (length rest) nd0))).
Proof.
  intros H1 H2 H3 H4 H5 H6. cbn [solve]. rewrite (fos_all_continue W lvs fm (solve W lvs fm k) lv st ws first r rest nd0 H1 H2 H3 H4 H5 H6). reflexivity.
Qed.

Definition same_but_max (W W' : wsettings) : Prop :=
  w_iter W = w_iter W' /\ w_bbb W = w_bbb W' /\ w_indw W = w_indw W' /\ w_contw W = w_contw W'.

Lemma init_node_same W W' lv ws first r rest : same_but_max W W' -> init_node W lv ws first r rest = init_node W' lv ws first r rest.
Proof. intros (_ & _ & Hi & Hc). unfold init_node, lws_len. rewrite Hi, Hc. reflexivity. Qed.

Theorem solve_all_continue_wider W W' lvs fm k st lv ws first r rest nd0 :
  same_but_max W W' -> w_max W <= w_max W' ->
  lv_recs lv = r :: rest -> Forall no_kids (r :: rest) -> init_node W lv ws first r rest = Some nd0 ->
  cont_ok (w_max W) lv (length rest) nd0 = true -> (2 <= fm)%nat -> 1 <= w_iter W ->
  solve W' lvs fm (S k) st lv ws first = solve W lvs fm (S k) st lv ws first.
Proof.
  intros Hs Hm H1 H2 H3 H4 H5 H6.
  rewrite (solve_all_continue W lvs fm k st lv ws first r rest nd0 H1 H2 H3 H4 H5 H6).
  apply (solve_all_continue W' lvs fm k st lv ws first r rest nd0 H1 H2); try assumption.
  - rewrite <- (init_node_same W W' lv ws first r rest Hs). exact H3.
  - exact (cont_ok_mono lv _ _ Hm _ _ H4).
  - destruct Hs as (Hi & _). rewrite <- Hi. exact H6.
Qed.

(* ------------------------------------------------------------------ *)
(* a whole phase: every top-level line has no child lines and fits unbroken *)
Definition top_first (lv : lview) : first_decision :=
  match lv_gtoks lv with g :: _ => if g =? 0 then FD_Continue 0 true else FD_Break | [] => FD_Break end.

Definition line_unbroken (W : wsettings) (lv : lview) : bool :=
  match lv_recs lv with
  | [] => true
  | r :: rest =>
      forallb (fun r0 => match tr_kids r0 with None => true | Some _ => false end) (r :: rest)
      && match init_node W lv (lv_level lv, 0) (top_first lv) r rest with
         | Some nd0 => cont_ok (w_max W) lv (length rest) nd0
         | None => false
         end
  end.

Lemma format_top_wider W W' lvs depth st lv : same_but_max W W' -> w_max W <= w_max W' -> 1 <= w_iter W ->
  line_unbroken W lv = true -> format_top W' lvs (main_fuel W') (S depth) st lv = format_top W lvs (main_fuel W) (S depth) st lv.
Proof.
  intros Hs Hm Hit Hl. unfold format_top. destruct (bid _); [reflexivity|]. fold (top_first lv).
  assert (Hfm : main_fuel W' = main_fuel W) by (unfold main_fuel; destruct Hs as (Hi & _); rewrite Hi; reflexivity). rewrite Hfm.
  unfold line_unbroken in Hl. destruct (lv_recs lv) as [|r rest] eqn:Er.
  - cbn [solve]. unfold find_optimal_solution. rewrite Er. reflexivity.
  - apply andb_true_iff in Hl. destruct Hl as (Hk & Hi). destruct (init_node W lv (lv_level lv, 0) (top_first lv) r rest) as [nd0|] eqn:Ei; [|discriminate].
    assert (Hnk : Forall no_kids (r :: rest)).
    { rewrite forallb_forall in Hk. apply Forall_forall. intros r0 Hr0. specialize (Hk r0 Hr0). unfold no_kids. destruct (tr_kids r0); [discriminate|reflexivity]. }
    rewrite (solve_all_continue_wider W W' lvs (main_fuel W) depth st lv (lv_level lv, 0) (top_first lv) r rest nd0 Hs Hm Er Hnk Ei Hi
               ltac:(unfold main_fuel; lia) Hit). reflexivity.
Qed.

(* "a file whose every line fits unbroken is laid out identically at every wrap_column at or above that limit" *)
Theorem wrap_phase1_wider W W' infos lines :
  same_but_max W W' -> w_max W <= w_max W' -> 1 <= w_iter W ->
  (forall lv, In lv (mk_lviews infos lines) -> lv_top lv = true -> line_unbroken W lv = true) ->
  wrap_phase1 W' infos lines = wrap_phase1 W infos lines.
Proof.
  intros Hs Hm Hit Hall. unfold wrap_phase1, wrap_phase. set (lvs := mk_lviews infos lines) in *.
  assert (Hgen : forall l0, (forall lv, In lv l0 -> lv_top lv = true -> line_unbroken W lv = true) -> forall st,
            fold_left (fun st0 lv => if lv_top lv then format_top W' lvs (main_fuel W') (S (length lines)) st0 lv else st0) l0 st
            = fold_left (fun st0 lv => if lv_top lv then format_top W lvs (main_fuel W) (S (length lines)) st0 lv else st0) l0 st).
  { induction l0 as [|lv r IH]; intros H0 st; [reflexivity|]. cbn [fold_left].
    destruct (lv_top lv) eqn:Et; [rewrite (format_top_wider W W' lvs (length lines) st lv Hs Hm Hit (H0 lv (or_introl eq_refl) Et))|];
      apply IH; intros lv' H'; apply H0; right; exact H'. }
  apply Hgen. exact Hall.
Qed.

Corollary olf_model_wider rs W W' lines l :
  same_but_max W W' -> w_max W <= w_max W' -> 1 <= w_iter W ->
  (forall lv, In lv (mk_lviews (map tokinfo_of l) lines) -> lv_top lv = true -> line_unbroken W lv = true) ->
  olf_model rs W' false lines l = olf_model rs W false lines l.
Proof. intros Hs Hm Hit Hall. unfold olf_model. rewrite (wrap_phase1_wider W W' _ lines Hs Hm Hit Hall). reflexivity. Qed.

Print Assumptions solve_all_continue_wider.
Print Assumptions olf_model_wider.

(* ------------------------------------------------------------------ *)
(* non-vacuity: a real file (tools/trace2coq.py nb nb.pas 120,0,1,0,2,2,0):
     procedure Foo;
     begin
       Result := Compute(Alpha, Beta) + Gamma;
       X := 1;
     end;                                                               *)
Definition nb_infos : list tokinfo :=
  [mkTI (TT_Keyword KK_Procedure) 0 9 None;
   mkTI TT_Identifier 1 3 None;
   mkTI (TT_Op OK_Semicolon) 0 1 None;
   mkTI (TT_Keyword KK_Begin) 1 5 None;
   mkTI TT_Identifier 1 6 None;
   mkTI (TT_Op OK_Assign) 1 2 None;
   mkTI TT_Identifier 1 7 None;
   mkTI (TT_Op OK_LParen) 0 1 None;
   mkTI TT_Identifier 0 5 None;
   mkTI (TT_Op OK_Comma) 0 1 None;
   mkTI TT_Identifier 1 4 None;
   mkTI (TT_Op OK_RParen) 0 1 None;
   mkTI (TT_Op OK_Plus) 1 1 None;
   mkTI TT_Identifier 1 5 None;
   mkTI (TT_Op OK_Semicolon) 0 1 None;
   mkTI TT_Identifier 1 1 None;
   mkTI (TT_Op OK_Assign) 1 2 None;
   mkTI (TT_NumberLiteral NK_Decimal) 1 1 None;
   mkTI (TT_Op OK_Semicolon) 0 1 None;
   mkTI (TT_Keyword KK_End) 1 3 None;
   mkTI (TT_Op OK_Semicolon) 0 1 None;
   mkTI TT_Eof 0 0 None].
Definition nb_lines : list lline :=
  [mkLine LLT_RoutineHeader 0 None [0; 1; 2]%nat;
   mkLine LLT_Unknown 0 None [3]%nat;
   mkLine LLT_Assignment 1 None [4; 5; 6; 7; 8; 9; 10; 11; 12; 13; 14]%nat;
   mkLine LLT_Assignment 1 None [15; 16; 17; 18]%nat;
   mkLine LLT_Unknown 0 None [19; 20]%nat;
   mkLine LLT_Eof 0 None [21]%nat].

Definition nb_W (max : N) : wsettings := mkWS max 20000 false 2 4.

(* every top-level line fits unbroken at 41 (the longest line is 41 wide), not at 40 *)
Example nb_unbroken_41 : forallb (fun lv => negb (lv_top lv) || line_unbroken (nb_W 41) lv) (mk_lviews nb_infos nb_lines) = true.
Proof. vm_compute. reflexivity. Qed.
Example nb_not_unbroken_40 : forallb (fun lv => negb (lv_top lv) || line_unbroken (nb_W 40) lv) (mk_lviews nb_infos nb_lines) = false.
Proof. vm_compute. reflexivity. Qed.

Example nb_same_layout_at_every_wider_limit : forall M, 41 <= M -> wrap_phase1 (nb_W M) nb_infos nb_lines = wrap_phase1 (nb_W 41) nb_infos nb_lines.
Proof.
  intros M HM. apply wrap_phase1_wider; [repeat split|exact HM|cbn; lia|].
  intros lv Hin Ht. pose proof nb_unbroken_41 as H. rewrite forallb_forall in H. specialize (H lv Hin). rewrite Ht in H. exact H.
Qed.

(* the decisions: the assignment line is one break (its first token) and ten Continues, penalty 3 *)
Example nb_line2 :
  match nth_error (mk_lviews nb_infos nb_lines) 2 with
  | Some lv => match solve (nb_W 41) (mk_lviews nb_infos nb_lines) (main_fuel (nb_W 41)) 7 sst_init lv (1, 0) FD_Break with
               | (_, Some s) => map td_dec (sol_decs s) = WBreak 0 :: repeat WContinue 10 /\ sol_pen s = 3 /\ sol_len s = 41
               | _ => False
               end
  | None => False
  end.
Proof. vm_compute. repeat split; reflexivity. Qed.
