(* Proofs/FormatIdemKindsProofs.v — C03: the raw kinds of the re-scanned output (hypothesis 2 of FormatIdemProofs) reduced to
     (2a) kinds_mod_flags: the kinds of the re-scan are those of the input up to the Individual / Inline flag of comments, and
     (2b) facts about the FIRST run: every token is decided (hypothesis 7, already there) and no Inline comment directly follows a
          `//` comment (no_inline_after_sl; such a pair exists only when the `//` comment is ended by a lone CR: the safety net of the
          reconstructor then puts the second comment on its own line and its kind does change — the residual condition).
   The flag itself is a theorem: in a scan a comment is Individual exactly when its blanks contain a LF or it is the first token
   (LexerKindsProofs.lexed_comment_flags); a decided comment token starts a line in the output exactly when it is Individual
   (WrapEventsProofs.phase1_final_breaks with formatting_invariant); the emitted blanks contain a LF exactly when the token starts a
   line or the safety net fires (emit_ws_lf). *)
From Coq Require Import Lia.
From PasfmtVerif Require Import Proofs.LexerProofs Proofs.LexerSpecProofs Proofs.LexerRelayoutProofs Proofs.LexerKindsProofs.
From PasfmtVerif Require Import Proofs.ParserGrammarTypesProofs Proofs.ParserGrammarWsnlProofs Proofs.WrapApplyProofs Proofs.WrapEventsProofs
  Model.Format Proofs.FormatProofs Proofs.FormatIgnoredProofs Proofs.FormatContentProofs Proofs.FormatRescanProofs Proofs.FmtDataProofs
  Proofs.FormatWsProofs Proofs.FormatIdemProofs.
Local Open Scope nat_scope.

Definition unflag (ty : RawTokenType) : RawTokenType := LexerRelayoutProofs.retype false ty.
Definition flagged (ty : RawTokenType) : bool :=
  match ty with RTT_Comment (CoK_InlineLine | CoK_IndividualLine | CoK_InlineBlock | CoK_IndividualBlock) => true | _ => false end.

Definition kinds_mod_flags (segs segs2 : list seg) : Prop :=
  map (fun sg => unflag (seg_ty sg)) segs2 = map (fun sg => unflag (seg_ty sg)) segs.

(* a comment after token 0 has a line break in front of it in the output iff it had one in the input *)
Definition breaks_kept (segs segs2 : list seg) : Prop :=
  forall i sg sg2, nth_error segs (S i) = Some sg -> nth_error segs2 (S i) = Some sg2 -> flagged (seg_ty sg) = true ->
  contains_byte 10%N (seg_ws sg2) = contains_byte 10%N (seg_ws sg).

Lemma retype_unflagged a b ty : flagged ty = false -> LexerRelayoutProofs.retype a ty = LexerRelayoutProofs.retype b ty.
Proof. destruct ty as [| | | | | | | |k| |]; try reflexivity. destruct k; try discriminate; reflexivity. Qed.

Theorem kinds_from_flags s out segs segs2 :
  lex_segments s = Some segs -> lex_segments out = Some segs2 ->
  kinds_mod_flags segs segs2 -> breaks_kept segs segs2 ->
  map seg_ty segs2 = map seg_ty segs.
Proof.
  intros Hl Hl2 Hk Hb.
  assert (Hlen : length segs2 = length segs) by (rewrite <- (map_length (fun sg => unflag (seg_ty sg)) segs2), Hk; apply map_length).
  apply list_eq_nth. intros i. rewrite !nth_error_map.
  destruct (nth_error segs i) as [[[ws c] ty]|] eqn:E.
  - destruct (nth_error segs2 i) as [[[ws2 c2] ty2]|] eqn:E2; [|apply nth_error_None in E2; assert (i < length segs) by (apply nth_error_Some; congruence); lia].
    cbn [option_map Format.seg_ty snd]. f_equal.
    pose proof (lexed_comment_flags s segs i ws c ty Hl E) as F1. pose proof (lexed_comment_flags out segs2 i ws2 c2 ty2 Hl2 E2) as F2.
    assert (K : unflag ty2 = unflag ty).
    { pose proof (f_equal (fun l => nth_error l i) Hk) as K. cbn beta in K. rewrite !nth_error_map, E, E2 in K. cbn in K. congruence. }
    unfold unflag in K. rewrite <- F2, <- (retype_retype _ false ty2), K, retype_retype. rewrite <- F1 at 2.
    destruct i as [|j]; [cbn [Nat.eqb]; rewrite !orb_true_r; reflexivity|]. cbn [Nat.eqb]. rewrite !orb_false_r.
    destruct (flagged ty) eqn:Ef; [|apply retype_unflagged, Ef].
    pose proof (Hb j _ _ E E2 Ef) as Hc. unfold seg_ws in Hc. cbn [fst] in Hc. rewrite Hc. reflexivity.
  - apply nth_error_None in E. assert (E2 : nth_error segs2 i = None) by (apply nth_error_None; lia). rewrite E2. reflexivity.
Qed.

(* ------------------------------------------------------------------ *)
(* the line break in front of a decided comment *)
Lemma contains10_count_lf (ws : bytes) : contains_byte 10%N ws = (0 <? count_lf ws)%N.
Proof.
  unfold contains_byte, count_lf. induction ws as [|a r IH]; [reflexivity|]. cbn [existsb filter].
  destruct (10 =? a)%N; [cbn [length orb]; symmetry; apply N.ltb_lt; lia|]. cbn [orb]. exact IH.
Qed.

Lemma emit_ws_lf cfg mb tok f : f_ignored f = false ->
  contains_byte 10%N (emit_ws (cfg_rs cfg) mb (tok, f)) = (0 <? emitted_nls mb tok f)%N.
Proof.
  intros Hf. destruct (cfg_rs_new cfg) as (crlf & tabs & iw & cw & ->). rewrite contains10_count_lf.
  pose proof (fmt_of_emit_ws crlf tabs iw cw mb tok f false Hf) as E. apply (f_equal f_nl) in E. unfold fmt_of_ws in E. cbn [f_nl] in E.
  unfold u16_sat in E. destruct (0 <? count_lf _)%N eqn:A, (0 <? emitted_nls mb tok f)%N eqn:B; try reflexivity;
    [apply N.ltb_lt in A; apply N.ltb_ge in B|apply N.ltb_ge in A; apply N.ltb_lt in B]; lia.
Qed.

Lemma glue_nth_S rs : forall l mb i p q, nth_error l i = Some p -> nth_error l (S i) = Some q ->
  nth_error (glue_list rs mb l) (S i) = Some (emit_ws rs (is_sl_comment (t_ty (fst p))) q).
Proof.
  induction l as [|x l IH]; intros mb [|i] p q Hp Hq; cbn in Hp; try discriminate.
  - injection Hp as ->. destruct l as [|y l']; [discriminate Hq|]. cbn in Hq. injection Hq as ->. reflexivity.
  - cbn [glue_list nth_error]. exact (IH _ i p q Hp Hq).
Qed.

Lemma l4_at alnum segs j tok : all_false (fm_marks segs) -> nth_error (fm_toks segs) j = Some tok ->
  exists p, nth_error (fm_l4 alnum segs) j = Some p /\ t_ty (fst p) = t_ty tok /\ f_ignored (snd p) = false.
Proof.
  intros Hm Ht. assert (Hj : j < length segs) by (rewrite <- (fm_toks_length segs); apply nth_error_Some; congruence).
  destruct (nth_error segs j) as [sg|] eqn:Es; [|apply nth_error_None in Es; lia].
  destruct (fm_l0_nth segs j sg false Es (mark_false segs j Hm Hj)) as (tok0 & H0 & _ & _).
  assert (tok0 = tok) by (destruct (fm_l0_nth_inv segs j _ _ H0) as (T & _); congruence). subst tok0.
  destruct (fm_l3_nth alnum segs j tok _ H0) as (n & H3). fold (norm_tok alnum (tok, set_sp (fmt_of_ws (seg_ws sg) false) n)) in H3.
  pose proof (fm_l4_nth alnum segs j _ H3) as H4. eexists. split; [exact H4|].
  destruct (eof_set _ _ _ _); [unfold eof_fmt; cbn [fst snd f_ignored]|]; rewrite norm_tok_ty, norm_tok_snd; split; reflexivity.
Qed.

(* the residual condition: no Inline comment directly after a `//` comment *)
Definition no_inline_after_sl (tys : list TokenType) : Prop :=
  forall i a b, nth_error tys i = Some a -> nth_error tys (S i) = Some b -> is_sl_comment a = true ->
  match b with TT_Comment (CoK_InlineLine | CoK_InlineBlock) => False | _ => True end.

Lemma inv_comment prev k cd :
  formatting_invariant (Some prev) (Some (TT_Comment k)) cd
  = match k with CoK_InlineLine | CoK_InlineBlock => Some DR_MustNotBreak | _ => Some DR_MustBreak end.
Proof. destruct k; destruct prev; try reflexivity; match goal with x : _ |- _ => destruct x; reflexivity end. Qed.

Theorem breaks_kept_first_run alnum cfg s segs segs2 :
  lex_segments s = Some segs ->
  map seg_ws segs2 = glue_list (cfg_rs cfg) false (fm_final alnum cfg segs) ->
  all_false (fm_marks segs) -> no_ml_rewrite cfg segs ->
  (forall i p, nth_error (fm_l4 alnum segs) i = Some p ->
     decs_for i (fm_plan1 alnum cfg segs) <> [] \/ eof_set (fm_lines segs) (length segs) i (t_ty (fst p)) = true) ->
  no_inline_after_sl (fm_tys segs) ->
  breaks_kept segs segs2.
Proof.
  intros Hl Hws Hm Hml Hdec Hnet i [[ws c] ty] sg2 E E2 Ef. cbn [Format.seg_ty snd] in Ef. unfold seg_ws at 2. cbn [fst].
  destruct ty as [| | | | | | | |k| |]; try discriminate Ef.
  pose proof (lexed_comment_flags s segs (S i) ws c _ Hl E) as F1. cbn [Nat.eqb] in F1. rewrite orb_false_r in F1.
  (* the two tokens *)
  destruct (fm_toks_class segs (S i) _ E) as (tok & Ht & _ & _ & Hcl). cbn [Format.seg_ty snd lex_class_of] in Hcl.
  assert (Ety : t_ty tok = TT_Comment k) by (destruct (t_ty tok); cbn in Hcl; try discriminate Hcl; congruence).
  assert (Hi : i < length (fm_toks segs)) by (assert (S i < length (fm_toks segs)) by (apply nth_error_Some; congruence); lia).
  destruct (nth_error (fm_toks segs) i) as [toki|] eqn:Eti; [|apply nth_error_None in Eti; lia].
  destruct (l4_at alnum segs (S i) tok Hm Ht) as (p & Hp & Tp & Ip). destruct (l4_at alnum segs i toki Hm Eti) as (pi & Hpi & Tpi & _).
  destruct (proj2 (wrap_same_tok alnum cfg segs Hml) (S i) p Hp) as ([tq fq] & Hq & Sq & Iq). cbn [fst snd] in Sq, Iq.
  destruct (proj2 (wrap_same_tok alnum cfg segs Hml) i pi Hpi) as (qi & Hqi & Sqi & _).
  (* the emitted blanks *)
  pose proof (glue_nth_S (cfg_rs cfg) _ false i qi (tq, fq) Hqi Hq) as Hg.
  assert (Hw2 : seg_ws sg2 = emit_ws (cfg_rs cfg) (is_sl_comment (t_ty (fst qi))) (tq, fq)).
  { pose proof (map_nth_error seg_ws (S i) segs2 E2) as M. rewrite Hws, Hg in M. congruence. }
  rewrite Hw2, (emit_ws_lf cfg _ tq fq) by (rewrite Iq; exact Ip).
  (* the decision *)
  assert (He : eof_set (fm_lines segs) (length segs) (S i) (t_ty (fst p)) = false) by (unfold eof_set; rewrite Tp, Ety; cbn [is_eof]; rewrite andb_false_r; reflexivity).
  destruct (Hdec (S i) p Hp) as [Hd|Hd]; [|rewrite He in Hd; discriminate].
  pose proof Hq as Hq1. rewrite (proj1 (fm_final_phase1 alnum cfg segs Hml)) in Hq1. unfold fm_plan1 in Hq1, Hd.
  destruct (phase1_final_breaks (cfg_ws cfg) (map tokinfo_of (fm_l4 alnum segs)) (fm_lines segs) (fm_l4 alnum segs) (S i) tq fq Hq1 Hd) as (cd & Hr).
  rewrite (map_nth_error tokinfo_of i _ Hpi), (map_nth_error tokinfo_of (S i) _ Hp) in Hr. cbn [option_map] in Hr.
  unfold tokinfo_of in Hr. cbn [ti_ty] in Hr. rewrite Tp, Ety, inv_comment in Hr.
  unfold emitted_nls.
  assert (Inl : forall k', k = k' -> (k' = CoK_InlineLine \/ k' = CoK_InlineBlock) -> (0 <? f_nl fq)%N = false -> contains_byte 10%N ws = false ->
            (0 <? (if is_sl_comment (t_ty (fst qi)) && (f_nl fq =? 0)%N && negb (is_eof (t_ty tq)) then 1 else f_nl fq))%N = false).
  { intros k' Ek Hk' Hr' _. apply N.ltb_ge in Hr'. assert (Enl : f_nl fq = 0%N) by lia. rewrite Enl. cbn [N.eqb].
    assert (Emb : is_sl_comment (t_ty (fst qi)) = false).
    { destruct (is_sl_comment (t_ty (fst qi))) eqn:Es; [|reflexivity]. exfalso. rewrite Sqi, Tpi in Es.
      pose proof (Hnet i (t_ty toki) (TT_Comment k) (map_nth_error t_ty i _ Eti)) as Hn. unfold fm_tys in Hn.
      rewrite (map_nth_error t_ty (S i) _ Ht), Ety in Hn. specialize (Hn eq_refl Es). rewrite Ek in Hn. destruct Hk' as [-> | ->]; exact Hn. }
    rewrite Emb. reflexivity. }
  assert (Ind : (0 <? f_nl fq)%N = true ->
            (0 <? (if is_sl_comment (t_ty (fst qi)) && (f_nl fq =? 0)%N && negb (is_eof (t_ty tq)) then 1 else f_nl fq))%N = true).
  { intros Hr'. pose proof Hr' as Hr2. apply N.ltb_lt in Hr2. assert (Ez : (f_nl fq =? 0)%N = false) by (apply N.eqb_neq; lia).
    rewrite Ez, andb_false_r. cbn [andb]. exact Hr'. }
  destruct k; try discriminate Ef; cbn [respects] in Hr; cbn [LexerRelayoutProofs.retype] in F1;
    destruct (contains_byte 10%N ws); try discriminate F1;
    first [ apply negb_true_iff in Hr; refine (Inl _ eq_refl _ Hr eq_refl); auto | exact (Ind Hr) ].
Qed.

(* ------------------------------------------------------------------ *)
(* C03 with the kinds of the re-scan asked up to the comment flags only *)
Definition idem_hyp_kinds alnum cfg (segs segs2 : list seg) : Prop :=
  map seg_ws segs2 = glue_list (cfg_rs cfg) false (fm_final alnum cfg segs)
  /\ map seg_content segs2 = map (fun p : ftoken => t_content (fst p)) (fm_final alnum cfg segs)
  /\ kinds_mod_flags segs segs2
  /\ no_asm (map seg_ty segs)
  /\ all_false (fm_marks segs)
  /\ no_ml_rewrite cfg segs
  /\ (forall i p, nth_error (fm_l4 alnum segs) i = Some p ->
        decs_for i (fm_plan1 alnum cfg segs) <> [] \/ eof_set (fm_lines segs) (length segs) i (t_ty (fst p)) = true)
  /\ no_inline_after_sl (fm_tys segs)
  /\ sp_list (fm_l4 alnum segs2) = sp_list (fm_l4 alnum segs).

Theorem format_idempotent_kinds alnum cfg s out :
  format_model alnum cfg s = inl out ->
  (forall segs, lex_segments s = Some segs ->
     exists segs2, lex_segments (fm_out alnum cfg segs) = Some segs2 /\ idem_hyp_kinds alnum cfg segs segs2) ->
  format_model alnum cfg out = inl out.
Proof.
  intros H Hh. apply (format_idempotent_min alnum cfg s out H). intros segs Hl.
  destruct (Hh segs Hl) as (segs2 & Hl2 & Hws & Hcs & Hk & Hna & Hm & Hml & Hdec & Hnet & Hsp).
  exists segs2. split; [exact Hl2|]. split; [|exact Hsp].
  split; [|split; [exact Hna|split; [exact Hm|split; [exact Hml|exact Hdec]]]].
  split; [exact Hws|]. split; [exact Hcs|].
  exact (kinds_from_flags s _ segs segs2 Hl Hl2 Hk (breaks_kept_first_run alnum cfg s segs segs2 Hl Hws Hm Hml Hdec Hnet)).
Qed.

(* the hypothesis as a boolean (Model/Format.v: idem_hypb_kinds) *)
Lemma unflag_raw_eq ty : unflag_raw ty = unflag ty.
Proof. destruct ty; reflexivity. Qed.

Lemma no_inline_after_slb_ok : forall tys, no_inline_after_slb tys = true -> no_inline_after_sl tys.
Proof.
  induction tys as [|a r IH]; intros H i x y Hx Hy Hs; [destruct i; discriminate Hx|]. cbn [no_inline_after_slb] in H.
  apply andb_true_iff in H. destruct H as [H1 H2]. destruct i as [|i].
  - cbn in Hx, Hy. injection Hx as <-. destruct r as [|b r']; [discriminate Hy|]. cbn in Hy. injection Hy as <-.
    rewrite Hs in H1. cbn [andb] in H1. apply negb_true_iff in H1. unfold is_inline_comment in H1.
    destruct b; try exact I. match goal with k : CommentKind |- _ => destruct k end; try exact I; discriminate H1.
  - exact (IH H2 i x y Hx Hy Hs).
Qed.

Theorem idem_hypb_kinds_ok alnum cfg segs : idem_hypb_kinds alnum cfg segs = true ->
  exists segs2, lex_segments (fm_out alnum cfg segs) = Some segs2 /\ idem_hyp_kinds alnum cfg segs segs2.
Proof.
  unfold idem_hypb_kinds, idem_hyp_checks_kinds. cbv zeta. change (reconstruct (cfg_rs cfg) (fm_final alnum cfg segs)) with (fm_out alnum cfg segs).
  destruct (lex_segments (fm_out alnum cfg segs)) as [segs2|]; [|discriminate].
  cbn [forallb]. intros H. exists segs2. split; [reflexivity|].
  apply andb_true_iff in H. destruct H as [_ H]. apply andb_true_iff in H. destruct H as [H1 H]. apply andb_true_iff in H1. destruct H1 as [H1 H1'].
  apply andb_true_iff in H. destruct H as [H2 H]. apply andb_true_iff in H. destruct H as [H3 H]. apply andb_true_iff in H. destruct H as [H4 H].
  apply andb_true_iff in H. destruct H as [H6 H]. apply andb_true_iff in H. destruct H as [H7 H]. apply andb_true_iff in H. destruct H as [H9 H].
  apply andb_true_iff in H. destruct H as [H8 _].
  assert (Hb : forall x y, bytes_eqb x y = true -> x = y) by (intros x y E; apply bytes_eqb_eq, E).
  split; [exact (list_eqb_eq _ Hb _ _ H1)|]. split; [exact (list_eqb_eq _ Hb _ _ H1')|].
  split.
  { unfold kinds_mod_flags. rewrite <- !(map_ext _ _ (fun sg => unflag_raw_eq (seg_ty sg))).
    apply (list_eqb_eq RawTokenType_eqb); [intros x y E; apply RawTokenType_eqb_eq, E|exact H2]. }
  split; [apply not_asmb_ok, H3|]. split; [apply forallb_negb_all_false, H4|].
  split.
  { apply orb_true_iff in H6. destruct H6 as [H6|H6]; [left; destruct (c_fms cfg); [discriminate|reflexivity]|right].
    intros tok Hin. rewrite forallb_forall in H6. specialize (H6 tok Hin). apply negb_true_iff in H6. exact H6. }
  split; [|split; [apply no_inline_after_slb_ok, H9|apply (list_eqb_eq N.eqb); [intros x y E; apply N.eqb_eq, E|exact H8]]].
  intros i p Hp. assert (Hi : (i < length segs)%nat) by (rewrite <- (fm_l4_length alnum segs); apply nth_error_Some; congruence).
  assert (Hml : length (decided_marks alnum cfg segs) = length segs) by (unfold decided_marks; rewrite marks_fold_length, map_length; reflexivity).
  destruct (nth_error (decided_marks alnum cfg segs) i) as [b|] eqn:Eb; [|apply nth_error_None in Eb; lia].
  pose proof (ToggleProofs.combine_nth_error _ _ i _ _ (ToggleProofs.combine_nth_error _ _ i _ _ (seq_nth_error (length segs) 0 i Hi) Eb) Hp) as Hc.
  rewrite forallb_forall in H7. specialize (H7 _ (nth_error_In _ _ Hc)). cbn [fst snd] in H7. cbn [plus] in H7.
  apply orb_true_iff in H7. destruct H7 as [H7|H7]; [|right; exact H7]. subst b.
  unfold decided_marks in Eb. destruct (marks_fold_spec _ _ _ Eb) as [E|E]; [|left; exact E].
  rewrite nth_error_map in E. destruct (nth_error segs i); discriminate E.
Qed.

Corollary format_idempotent_kinds_checked alnum cfg s out :
  format_model alnum cfg s = inl out ->
  (forall segs, lex_segments s = Some segs -> idem_hypb_kinds alnum cfg segs = true) ->
  format_model alnum cfg out = inl out.
Proof. intros H Hb. apply (format_idempotent_kinds alnum cfg s out H). intros segs E. apply idem_hypb_kinds_ok, Hb, E. Qed.

Print Assumptions format_idempotent_kinds_checked.
Print Assumptions kinds_from_flags.
Print Assumptions breaks_kept_first_run.
Print Assumptions format_idempotent_kinds.
