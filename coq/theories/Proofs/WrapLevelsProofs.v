(* Proofs/WrapLevelsProofs.v — hypothesis H-W1 of C05 as a theorem about the search model:
   the first token of a top-level logical line that the wrapper solves and breaks before starts a line at exactly `level`
   indentation units, no continuation, no spaces, one or two line breaks.
     solve_ws:               the solution `solve` returns starts at the whitespace it was called with (format_line:
                             (level, 0); a child line: what its ChildLineOption carries);
     wrap_phase_levels:      every decision event `Ev_D t (Some (true, ind, cont))` — the break before the FIRST token of a
                             solved line — in the log of a phase belongs to a line that starts with t, and if that line is a
                             top-level line then ind = its level and cont = 0 (child lines: lv_top = false, their events
                             carry the whitespace of their option);
     olf_phase1_line_starts: in the final vector of phase 1, a token whose LAST decision is such a first-token break and
                             which starts only top-level lines of level L has f_ind = L, f_cont = 0, f_sp = 0, 1 <= f_nl <= 2
                             (conditional directives: a token can be decided by several lines, the last decision wins —
                             hence "last decision").
     olf_phase1_line_starts_lines: the same with the condition on the lines (starts_top: every line that starts with token t
                             has no parent, is not the Eof line, has level L);
     olf_line_starts:        both settings of format_multiline_strings: the last decision over the plan of phase 1 and the plan of
                             the reflow of phase 2 (olf_plan1 ++ olf_plan2);
     option_ws, cls_options_ws, solve_children_ws: what each ChildLineOption carries (continued in WrapChildLevelsProofs.v).
   When the first decision is not a break: format_line chooses FirstDecision::Continue {0, can_break} for the file's first
   token (token 0), and a first token whose invariant is MustNotBreak (token 0, an inline comment) continues even under
   FirstDecision::Break (first_dec); the unit `levels` skips exactly these. *)
From PasfmtVerif Require Import Model.WrapSearch Model.WrapFormat Proofs.WrapSearchProofs Proofs.WrapSearchDeepProofs Proofs.WrapDepthProofs
  Proofs.WrapEventsProofs Proofs.WrapKidsProofs.
From Coq Require Import Lia.

(* ------------------------------------------------------------------ *)
(* a node property that every successor inherits holds of the node the solution is read from *)
Section NodeInv.
Variable W : wsettings.
Variable lvs : list lview.
Variable fm : nat.
Variable cs : sst -> lview -> N * N -> first_decision -> sst * option solution.
Variable lv : lview.
Variable P : node -> Prop.
Hypothesis Hpot : forall st nd b, P nd -> Forall P (snd (potential W lvs cs lv st nd b)).

Lemma both_P st ind : P ind -> Forall P (snd (both W lvs cs lv st ind)).
Proof.
  intros H. unfold both. pose proof (Hpot st ind true H) as A. destruct (potential W lvs cs lv st ind true) as [st1 a].
  pose proof (Hpot st1 ind false H) as B. destruct (potential W lvs cs lv st1 ind false) as [st2 b]. cbn [snd] in *. apply Forall_app. split; assumption.
Qed.

Definition oP (x : option node) : Prop := match x with Some n => P n | None => True end.
Definition res_P (r : walk_res) : Prop := match r with W_push n => P n | W_extend l => Forall P l | _ => True end.
Definition step_P (s : wstep) : Prop := match s with WS_stop r => res_P r | WS_forward n x => P n /\ oP x | WS_restart n => P n end.

Lemma finish_P l : Forall P l -> step_P (finish l).
Proof. intros H. unfold finish. destruct l as [|n [|n2 l']]; cbn; try exact H. inversion H; assumption. Qed.

Lemma kept_P li sols : Forall P sols -> forall best acc, Forall P acc ->
  Forall P (snd (fold_left (fun (acc : list N * list node) (n : node) =>
                              if n_pen n <? best_at (fst acc) li then (upd_at li (fun _ => n_pen n) (fst acc), snd acc ++ [n]) else acc) sols (best, acc))).
Proof.
  induction 1 as [|n l Hn Hl IH]; intros best acc Hacc; cbn [fold_left]; [exact Hacc|]. cbn [fst snd].
  destruct (n_pen n <? best_at best li); apply IH; [apply Forall_app; split; [exact Hacc|constructor; [exact Hn|constructor]]|exact Hacc].
Qed.

Lemma walk_step_P nd indiff best st : P nd -> oP indiff -> step_P (fst (fst (walk_step W lvs cs lv nd indiff best st))).
Proof.
  intros Hnd Hind. unfold walk_step.
  destruct (if w_max W <? last_line_length_of nd then indiff else None) as [ind|] eqn:Eo.
  { assert (Hi : P ind) by (destruct (w_max W <? last_line_length_of nd); [subst indiff; exact Hind|discriminate]).
    pose proof (both_P st ind Hi) as B. destruct (both W lvs cs lv st ind) as [st' succ]. apply finish_P. exact B. }
  destruct (n_rest nd) as [|r rest]; [exact Hnd|].
  assert (Hafter : forall succ indiff' st', Forall P succ -> oP indiff' ->
            step_P (fst (fst (match succ with
                              | [n] => (WS_forward n indiff', best, st')
                              | _ => match indiff' with
                                     | Some ind => let (st'', more) := both W lvs cs lv st' ind in (finish (succ ++ more), best, st'')
                                     | None => (finish succ, best, st')
                                     end
                              end)))).
  { intros succ indiff' st' Hs Hi.
    assert (Hgen : step_P (fst (fst (match indiff' with
                                     | Some ind => let (st'', more) := both W lvs cs lv st' ind in (finish (succ ++ more), best, st'')
                                     | None => (finish succ, best, st')
                                     end)))).
    { destruct indiff' as [ind|]; [|apply finish_P; exact Hs]. pose proof (both_P st' ind Hi) as B. destruct (both W lvs cs lv st' ind) as [st'' more].
      apply finish_P. apply Forall_app. split; assumption. }
    destruct succ as [|n [|n2 l']]; try exact Hgen. cbn. split; [inversion Hs; assumption|exact Hi]. }
  destruct (get_formatting_requirement _ _ _ _ _ _ _).
  - pose proof (Hpot st nd false Hnd) as Pp. destruct (potential W lvs cs lv st nd false) as [st' succ]. apply Hafter; [exact Pp|]. destruct indiff; [exact Hind|exact Hnd].
  - destruct indiff as [ind|]; [|exact I]. pose proof (both_P st ind Hind) as B. destruct (both W lvs cs lv st ind) as [st' succ]. apply finish_P. exact B.
  - pose proof (Hpot st nd true Hnd) as Pp. destruct (potential W lvs cs lv st nd true) as [st' sols]. cbn [snd] in Pp.
    pose proof (kept_P (N.to_nat (n_nli nd)) sols Pp best [] (Forall_nil _)) as K. destruct (fold_left _ sols (best, [])) as [b' kept]. apply finish_P. exact K.
  - pose proof (Hpot st nd false Hnd) as Pp. destruct (potential W lvs cs lv st nd false) as [st' succ]. apply Hafter; [exact Pp|exact Hind].
Qed.

Lemma walk_P : forall f1 f2 nd indiff best st, P nd -> oP indiff -> res_P (fst (fst (walk W lvs cs lv f1 f2 nd indiff best st))).
Proof.
  induction f1 as [|f1 IH1]; induction f2 as [|f2 IH2]; intros nd indiff best st Hnd Hind; try exact I.
  - cbn [walk]. pose proof (walk_step_P nd indiff best st Hnd Hind) as S. destruct (walk_step W lvs cs lv nd indiff best st) as [[s b] st']. cbn [fst] in S.
    destruct s as [r|n x|n]; cbn [fst]; [exact S| |exact I]. destruct S as (A & B). apply IH2; assumption.
  - cbn [walk]. pose proof (walk_step_P nd indiff best st Hnd Hind) as S. destruct (walk_step W lvs cs lv nd indiff best st) as [[s b] st']. cbn [fst] in S.
    destruct s as [r|n x|n]; cbn [fst]; [exact S| |apply IH1; [exact S|exact I]]. destruct S as (A & B). apply IH2; assumption.
Qed.

Lemma main_loop_P : forall fuel h iter best st s, heap_all P h ->
  snd (main_loop W lvs cs lv fuel h iter best st) = SR_ok s -> exists nd, P nd /\ s = solution_of_node nd.
Proof.
  induction fuel as [|f IH]; intros h iter best st s Hh E; cbn [main_loop] in E; [discriminate|].
  destruct (heap_pop h) as [[nd h']|] eqn:Ep; [|discriminate]. destruct (heap_pop_all P h nd h' Hh Ep) as (Hnd & Hh').
  destruct (w_iter W <? iter); [discriminate|]. destruct (n_rest nd) as [|r rest].
  - cbn [snd] in E. injection E as <-. exists nd. split; [exact Hnd|reflexivity].
  - destruct (best_at best _ <? n_pen nd); [exact (IH _ _ _ _ _ Hh' E)|].
    pose proof (walk_P (S (length (r :: rest))) (S (length (r :: rest))) nd None best st Hnd I) as Hw.
    destruct (walk W lvs cs lv _ _ nd None best st) as [[res b] st']. cbn [fst] in Hw. destruct res as [n|l| |].
    + apply (IH _ _ _ _ _ (heap_push_all P n h' Hh' Hw) E).
    + apply (IH _ _ _ _ _ (heap_extend_all P l h' Hh' Hw) E).
    + exact (IH _ _ _ _ _ Hh' E).
    + discriminate.
Qed.
End NodeInv.

(* the solution starts at the whitespace the search was called with *)
Theorem fos_ws W lvs fm cs lv st ws first s :
  snd (find_optimal_solution W lvs fm cs lv st ws first) = SR_ok s -> sol_ws s = ws.
Proof.
  unfold find_optimal_solution. destruct (lv_recs lv) as [|r rest]; [intros E; injection E as <-; destruct ws; reflexivity|].
  destruct (match first with FD_Break => _ | FD_Continue line_length can_break => _ end) as [[ib lll] bcb].
  destruct (bid _ && negb ib); [discriminate|].
  destruct (child_lines_solutions W lvs cs st (lv_idx lv) r _ _ _ _ _ _ _ _) as [st1 sols]. intros E.
  destruct (main_loop_P W lvs cs lv (fun nd => n_ws nd = ws)) with (fuel := fm) (h := heap_extend (map (fun _ => mkNode ws [TDec (if ib then WBreak 0 else WContinue) lll (match last_opt' sols with Some k => k | None => [] end)] 1 rest
              (dt_upd 1 (fun s0 => mkSt (s_broken s0) bcb (s_child s0) (s_oepl s0) (s_bar s0)) PLeaf) (decision_penalty W (lv_type lv) r 0 ib lll)) sols) heap_empty)
              (iter := 0) (best := repeat u64_max (length (r :: rest))) (st := st1) (s := s) as (nd & Hnd & ->).
  - intros st0 nd b Hn. unfold potential. destruct (n_rest nd); [constructor|]. destruct (child_lines_solutions _ _ _ _ _ _ _ _ _ _ _ _ _ _) as [st2 ss]. cbn [snd].
    apply Forall_forall. intros n Hin. apply in_map_iff in Hin. destruct Hin as (x & <- & _). exact Hn.
  - apply heap_extend_all; [exact I|]. apply Forall_forall. intros n Hin. apply in_map_iff in Hin. destruct Hin as (x & <- & _). reflexivity.
  - exact E.
  - unfold solution_of_node, sol_ws. rewrite <- Hnd. destruct (n_ws nd); reflexivity.
Qed.

Theorem solve_ws W lvs fm d st lv ws first st' s : solve W lvs fm d st lv ws first = (st', Some s) -> sol_ws s = ws.
Proof.
  destruct d as [|k]; cbn [solve]; [discriminate|].
  pose proof (fos_ws W lvs fm (solve W lvs fm k) lv st ws first) as H.
  destruct (find_optimal_solution W lvs fm (solve W lvs fm k) lv st ws first) as [st1 r]. cbn [snd] in H.
  intros E. destruct r as [s1| | |]; try discriminate. injection E as _ <-. apply H. reflexivity.
Qed.

(* ------------------------------------------------------------------ *)
(* the break before the first token of a solved line *)
Section Lvl.
Variable lvs : list lview.

(* child lines are not top-level lines *)
Definition not_top (k : nat) : Prop := exists lv, nth_error lvs k = Some lv /\ lv_top lv = false.
(* Pk: a property of the child lines that does not mention the views (has_parent lines) *)
Variable Pk : nat -> Prop.
Hypothesis HPk : forall k, Pk k -> not_top k.
Hypothesis Hviews : forall lv, In lv lvs -> Forall (rec_from Pk) (lv_recs lv).

Definition ev_lvl (e : event) : Prop :=
  match e with
  | Ev_D t (Some (true, ind, cont)) _ _ =>
      exists k lv, nth_error lvs k = Some lv /\ hd_error (lv_gtoks lv) = Some t /\ (lv_top lv = true -> ind = lv_level lv /\ cont = 0)
  | _ => True
  end.

Lemma sol_from_ind'' (P : solution -> Prop) :
  (forall s, (forall t k s', In t (sol_decs s) -> In (k, s') (td_kids t) -> Pk k /\ sol_from Pk s' /\ P s') -> P s) ->
  forall s, sol_from Pk s -> P s.
Proof.
  intros Hstep. refine (fix F s (H : sol_from Pk s) {struct H} : P s := _).
  destruct H as [s Hk]. apply Hstep. intros t k s' H1 H2. destruct (Hk t k s' H1 H2) as (a & b). split; [exact a|]. split; [exact b|exact (F s' b)].
Qed.

Lemma recon_go_lvl ind cont : forall ds toks first,
  (first = true -> exists k lv, nth_error lvs k = Some lv /\ hd_error (lv_gtoks lv) = hd_error toks
                                /\ (lv_top lv = true -> ind = lv_level lv /\ cont = 0 /\ forall t ds' c, ds = t :: ds' -> td_dec t = WBreak c -> c = 0)) ->
  (forall t k s', In t ds -> In (k, s') (td_kids t) ->
     Pk k /\ (forall lv', nth_error lvs k = Some lv' -> lv_top lv' = false -> Forall ev_lvl (recon_events lvs s' (lv_gtoks lv')))) ->
  Forall ev_lvl (recon_go lvs ind cont ds toks first).
Proof.
  induction ds as [|t ds IH]; intros toks first Hfirst Hkids; [constructor|].
  destruct toks as [|g toks']; [constructor|]. cbn [recon_go]. constructor; [|apply Forall_app; split].
  - destruct (td_dec t) as [c|] eqn:Ed; [|exact I]. destruct first; [|exact I]. cbn [ev_lvl].
    destruct (Hfirst eq_refl) as (k & lv & Hk & Hh & Htop). exists k, lv. split; [exact Hk|]. split; [exact Hh|].
    intros Ht. destruct (Htop Ht) as (A & B & C). rewrite (C t ds c eq_refl Ed), B. split; [exact A|reflexivity].
  - assert (Hk : forall k s', In (k, s') (td_kids t) -> Pk k /\ (forall lv', nth_error lvs k = Some lv' -> lv_top lv' = false -> Forall ev_lvl (recon_events lvs s' (lv_gtoks lv'))))
      by (intros k s' H; apply (Hkids t k s'); [left; reflexivity|exact H]).
    clear Hkids IH Hfirst. induction (td_kids t) as [|[k s'] kr IHk]; [constructor|]. cbn [recon_kids fst snd]. apply Forall_app. split.
    + destruct (Hk k s' (or_introl eq_refl)) as (HP & Hev). destruct (HPk k HP) as (lv' & Hn & Ht). unfold gtoks_of. rewrite Hn. exact (Hev lv' Hn Ht).
    + apply IHk. intros k2 s2 H. apply Hk. right; exact H.
  - apply IH; [discriminate|]. intros t0 k s' H1 H2. apply (Hkids t0 k s'); [right; exact H1|exact H2].
Qed.

Lemma recon_events_lvl_kid : forall s, sol_from Pk s ->
  forall k lv, nth_error lvs k = Some lv -> lv_top lv = false -> Forall ev_lvl (recon_events lvs s (lv_gtoks lv)).
Proof.
  apply (sol_from_ind'' (fun s => forall k lv, nth_error lvs k = Some lv -> lv_top lv = false -> Forall ev_lvl (recon_events lvs s (lv_gtoks lv)))).
  intros [ind cont decs p l] Hkids k lv Hk Ht. rewrite recon_events_eq. cbn [sol_decs] in Hkids. apply recon_go_lvl.
  - intros _. exists k, lv. split; [exact Hk|]. split; [reflexivity|]. intros H. congruence.
  - intros t k' s' H1 H2. destruct (Hkids t k' s' H1 H2) as (A & _ & C). split; [exact A|]. intros lv' Hn Hf. exact (C k' lv' Hn Hf).
Qed.

Theorem recon_events_lvl_top s k lv :
  sol_from Pk s -> nth_error lvs k = Some lv -> sol_ws s = (lv_level lv, 0) ->
  (forall t ds' c, sol_decs s = t :: ds' -> td_dec t = WBreak c -> c = 0) ->
  Forall ev_lvl (recon_events lvs s (lv_gtoks lv)).
Proof.
  intros Hs Hk Hws Hc. destruct Hs as [s Hkids]. destruct s as [ind cont decs p l]. cbn [sol_ws] in Hws. injection Hws as -> ->.
  rewrite recon_events_eq. cbn [sol_decs] in *. apply recon_go_lvl.
  - intros _. exists k, lv. split; [exact Hk|]. split; [reflexivity|]. intros _. split; [reflexivity|]. split; [reflexivity|exact Hc].
  - intros t k' s' H1 H2. destruct (Hkids t k' s' H1 H2) as (A & B). split; [exact A|]. intros lv' Hn Hf. exact (recon_events_lvl_kid s' B k' lv' Hn Hf).
Qed.

Definition st_lvl (st : sst) : Prop := cache_ok Pk st /\ Forall ev_lvl (Dlog st).

Lemma first_dec_cont first inv c : first_dec first inv = WBreak c -> c = 0.
Proof. destruct first as [|ll cb]; cbn [first_dec]; [destruct inv as [[]|]|]; intros H; try discriminate; injection H as <-; reflexivity. Qed.

Lemma format_top_lvl W fm depth st k lv : nth_error lvs k = Some lv -> st_lvl st -> st_lvl (format_top W lvs fm depth st lv).
Proof.
  intros Hk (Hc & Hl). unfold format_top. destruct (bid _); [split; assumption|].
  match goal with |- context [solve W lvs fm depth st lv ?ws ?fd] =>
    pose proof (solve_kids W lvs fm Pk Hviews depth st lv ws fd (nth_error_In _ _ Hk) Hc) as (S1 & S2);
    pose proof (state_inv_solve (fun st' => Dlog st' = Dlog st) (fun st0 l o H => H) (fun st0 k0 v H => H) (fun st0 H => H) W lvs fm depth st lv ws fd eq_refl) as S3;
    pose proof (solve_ws W lvs fm depth st lv ws fd) as S4;
    pose proof (solve_ok W lvs fm depth st lv ws fd) as S5;
    destruct (solve W lvs fm depth st lv ws fd) as [st1 r] eqn:Es end.
  cbn [fst snd] in *. destruct r as [s|]; [|split; [exact S1|rewrite S3; exact Hl]].
  destruct (sst_log_fold (recon_events lvs s (lv_gtoks lv)) st1) as (L1 & L2).
  split.
  - intros key v H. apply (S1 key v). rewrite <- L2. exact H.
  - unfold Dlog. rewrite L1, filter_app. apply Forall_app; split; [|fold (Dlog st1); rewrite S3; exact Hl].
    apply Forall_forall. intros e He. apply filter_In in He. destruct He as (He & _). apply in_rev in He.
    assert (Hall : Forall ev_lvl (recon_events lvs s (lv_gtoks lv))).
    { apply (recon_events_lvl_top s k lv (S2 s eq_refl) Hk (S4 st1 s eq_refl)).
      intros t ds' c Hd Ht. specialize (S5 st1 s eq_refl). destruct (lv_recs lv) as [|r rest]; [rewrite S5 in Hd; discriminate|].
      destruct S5 as (_ & post & Hp). rewrite Hd in Hp. cbn [map] in Hp. injection Hp as Hp _. rewrite Ht in Hp. symmetry in Hp. exact (first_dec_cont _ _ c Hp). }
    rewrite Forall_forall in Hall. exact (Hall e He).
Qed.
End Lvl.

(* ------------------------------------------------------------------ *)
(* on the views the model builds *)
From PasfmtVerif Require Import Proofs.FormatEofProofs.

Lemma mk_lviews_level infos lines k lv : nth_error (mk_lviews infos lines) k = Some lv ->
  exists l, nth_error lines k = Some l /\ lv_level lv = ll_level l.
Proof.
  unfold mk_lviews. generalize (ti_build infos 0 PLeaf) (get_line_children (map iline_of lines)) 0%nat. intros tt kids i. revert i k.
  induction lines as [|l r IH]; intros i k E; [destruct k; discriminate|]. cbn [map mk_lviews_from] in E. destruct k as [|k]; cbn [nth_error] in *.
  - injection E as <-. exists l. split; reflexivity.
  - exact (IH (S i) k E).
Qed.

Lemma has_parent_not_top infos lines k : has_parent lines k -> not_top (mk_lviews infos lines) k.
Proof.
  intros (l & Hl & Hp). assert (Hlt : (k < length (mk_lviews infos lines))%nat) by (rewrite mk_lviews_length; apply nth_error_Some; congruence).
  destruct (nth_error (mk_lviews infos lines) k) as [lv|] eqn:E; [|apply nth_error_None in E; lia].
  exists lv. split; [exact E|]. destruct (mk_lviews_nth infos lines k lv E) as (l' & Hl' & _ & _ & _ & Ht). rewrite Hl in Hl'. injection Hl' as <-.
  rewrite Ht. destruct (ll_parent l); [reflexivity|congruence].
Qed.


(* a whole phase keeps: every first-token break in the log sits at the first token of a line, with (level, 0) if the line is a top-level line *)
Theorem wrap_phase_levels W infos lines which st :
  st_lvl (mk_lviews infos lines) (has_parent lines) st -> st_lvl (mk_lviews infos lines) (has_parent lines) (wrap_phase W infos lines which st).
Proof.
  intros Hst. unfold wrap_phase. set (lvs := mk_lviews infos lines) in *.
  assert (Hgen : forall l i st0, (forall j lv, nth_error l j = Some lv -> nth_error lvs (i + j) = Some lv) -> st_lvl lvs (has_parent lines) st0 ->
            st_lvl lvs (has_parent lines) (fold_left (fun st1 lv => if which lv then format_top W lvs (main_fuel W) (S (length lines)) st1 lv else st1) l st0)).
  { induction l as [|lv r IH]; intros i st0 Hin H0; [exact H0|]. cbn [fold_left]. apply (IH (S i)).
    - intros j lv' H'. replace (S i + j)%nat with (i + S j)%nat by lia. apply Hin. exact H'.
    - destruct (which lv); [|exact H0]. apply (format_top_lvl lvs (has_parent lines) (has_parent_not_top infos lines) (mk_lviews_rec_from infos lines) W _ _ st0 i lv); [|exact H0].
      specialize (Hin O lv eq_refl). rewrite PeanoNat.Nat.add_0_r in Hin. exact Hin. }
  apply (Hgen lvs O); [intros j lv H; exact H|exact Hst].
Qed.

Corollary wrap_phase1_levels W infos lines : Forall (ev_lvl (mk_lviews infos lines)) (Dlog (wrap_phase1 W infos lines)).
Proof. apply (wrap_phase_levels W infos lines lv_top sst_init). split; [apply cache_ok_init|constructor]. Qed.

(* ------------------------------------------------------------------ *)
(* the final vector of phase 1: a token whose last decision is the break before the first token of a line *)
From PasfmtVerif Require Import Proofs.WrapReadsProofs.

Lemma clamp12_range n : 1 <= clamp12 n <= 2.
Proof. unfold clamp12. destruct (n <? 1) eqn:A; [lia|]. destruct (2 <? n) eqn:B; [lia|]. apply N.ltb_ge in A, B. lia. Qed.

Theorem olf_phase1_line_starts rs W lines l t tok f ds ind cont L :
  let lvs := mk_lviews (map tokinfo_of l) lines in
  let plan := plan_of_events (rev (ss_log (wrap_phase1 W (map tokinfo_of l) lines))) in
  nth_error (fst (fst (olf_model rs W false lines l))) t = Some (tok, f) ->
  decs_for t plan = ds ++ [DBreak true ind cont] ->
  (* every line that starts with token t is a top-level line of level L *)
  (forall k lv, nth_error lvs k = Some lv -> hd_error (lv_gtoks lv) = Some (N.of_nat t) -> lv_top lv = true /\ lv_level lv = L) ->
  f_ind f = L /\ f_cont f = 0 /\ f_sp f = 0 /\ 1 <= f_nl f <= 2.
Proof.
  intros lvs plan Hn Hd Hlines. unfold olf_model in Hn. cbn [fst] in Hn. fold plan in Hn.
  (* the event behind the decision *)
  assert (Hin : In (t, DBreak true ind cont) plan).
  { assert (H : In (DBreak true ind cont) (decs_for t plan)) by (rewrite Hd; apply in_or_app; right; left; reflexivity).
    unfold decs_for in H. apply in_map_iff in H. destruct H as ([t' d'] & Hd' & Hfl). apply filter_In in Hfl. destruct Hfl as (Hfl & Heq).
    cbn [fst snd] in *. apply PeanoNat.Nat.eqb_eq in Heq. subst. exact Hfl. }
  destruct (plan_of_events_in t _ _ Hin) as (tk & dd & lll & fs & Hev & Htk & Hdd).
  destruct dd as [[[fb i0] c0]|]; [|discriminate]. injection Hdd as <- <- <-.
  pose proof (wrap_phase1_levels W (map tokinfo_of l) lines) as Hall. rewrite Forall_forall in Hall.
  assert (Hev' : In (Ev_D tk (Some (true, ind, cont)) lll fs) (Dlog (wrap_phase1 W (map tokinfo_of l) lines)))
    by (unfold Dlog; apply filter_In; split; [apply in_rev; exact Hev|reflexivity]).
  destruct (Hall _ Hev') as (k & lv & Hk & Hh & Htop). fold lvs in Hk.
  assert (Htk' : tk = N.of_nat t) by (rewrite <- Htk, Nnat.N2Nat.id; reflexivity). rewrite Htk' in Hh.
  destruct (Hlines k lv Hk Hh) as (Ht & HL). destruct (Htop Ht) as (Ei & Ec).
  (* the counters *)
  rewrite zero_line_starts_nth', apply_plan_nth in Hn. destruct (nth_error l t) as [[tok0 f0]|]; [|discriminate].
  cbn [option_map fst snd] in Hn. rewrite Hd, fold_left_app in Hn. cbn [fold_left apply_decision f_nl] in Hn.
  pose proof (clamp12_range (f_nl (fold_left apply_decision ds f0))) as Hr.
  replace (0 <? clamp12 (f_nl (fold_left apply_decision ds f0))) with true in Hn by (symmetry; apply N.ltb_lt; lia).
  injection Hn as _ <-. cbn [f_ind f_cont f_sp f_nl]. repeat split; try lia; congruence.
Qed.


(* ------------------------------------------------------------------ *)
(* the condition on the lines, independent of the token table *)
Definition starts_top (lines : list lline) (t : nat) (L : N) : Prop :=
  forall k ln, nth_error lines k = Some ln -> hd_error (ll_toks ln) = Some t -> ll_parent ln = None /\ ll_type ln <> LLT_Eof /\ ll_level ln = L.

Lemma starts_top_views infos lines t L : starts_top lines t L ->
  forall k lv, nth_error (mk_lviews infos lines) k = Some lv -> hd_error (lv_gtoks lv) = Some (N.of_nat t) -> lv_top lv = true /\ lv_level lv = L.
Proof.
  intros H k lv Hk Hh. destruct (mk_lviews_nth infos lines k lv Hk) as (ln & Hl & _ & Hg & _ & Ht).
  destruct (mk_lviews_level infos lines k lv Hk) as (ln' & Hl' & Hlev). rewrite Hl in Hl'. injection Hl' as <-.
  assert (Hh' : hd_error (ll_toks ln) = Some t).
  { rewrite Hg in Hh. destruct (ll_toks ln) as [|x r]; [discriminate|]. cbn [map hd_error] in *. injection Hh as Hh. apply Nnat.Nat2N.inj in Hh. subst. reflexivity. }
  destruct (H k ln Hl Hh') as (Hp & Hty & HL). split; [|congruence].
  rewrite Ht, Hp. unfold bid. destruct (ll_type ln); try reflexivity. congruence.
Qed.

Corollary olf_phase1_line_starts_lines rs W lines l t tok f ds ind cont L :
  nth_error (fst (fst (olf_model rs W false lines l))) t = Some (tok, f) ->
  decs_for t (plan_of_events (rev (ss_log (wrap_phase1 W (map tokinfo_of l) lines)))) = ds ++ [DBreak true ind cont] ->
  starts_top lines t L ->
  f_ind f = L /\ f_cont f = 0 /\ f_sp f = 0 /\ 1 <= f_nl f <= 2.
Proof.
  intros Hn Hd Hs. pose proof (olf_phase1_line_starts rs W lines l t tok f ds ind cont L) as H. cbv zeta in H.
  apply H; [exact Hn|exact Hd|]. apply starts_top_views. exact Hs.
Qed.

(* ------------------------------------------------------------------ *)
(* child lines: the whitespace a child line is searched with is what its ChildLineOption carries *)
Definition option_ws (ws : N * N) (sc : N) (opt : clopt) : Prop :=
  opt = CO_ContinueAll
  \/ opt = CO_BreakAll (fst ws) (snd ws + sc) 0 \/ opt = CO_BreakAll (fst ws) (snd ws) 1 \/ opt = CO_BreakAll (fst ws) (snd ws) 0
  \/ opt = CO_ContinueThenBreak (fst ws) (snd ws) 1.

(* the options of child_lines_solutions (Proofs/WrapSimProofs.v: cls_options):
     BreakAll(child_starting_ws)       = the parent's indentation, its continuations + the continuations of the parent token
                                         (anonymous routine bodies, variant-record fields, `else` with another statement, default)
     BreakAll(parent_base_ws), deindent 1 = the parent's own whitespace (`then begin`, `else begin`, `A: begin` broken before `begin`)
     BreakAll(parent_indented_ws)      = the parent's whitespace, one level deeper (`then`/`do`/`:` with a simple statement; `else if` that must break)
     ContinueThenBreak(parent_base_ws) = the first child line continues, the others at the parent's whitespace (`else if`, `then begin`)
     ContinueAll                       = every child line continues the parent's line (whitespace (0, 0), never used for a break) *)
From PasfmtVerif Require Import Proofs.WrapSimProofs.

Lemma cls_options_ws bbb lvs stk d nli ws lc fc sc : Forall (option_ws ws sc) (cls_options bbb lvs stk d nli ws lc fc sc).
Proof.
  unfold cls_options.
  repeat match goal with |- context [match ?x with _ => _ end] => destruct x end;
    repeat apply Forall_cons; try apply Forall_nil; unfold option_ws; cbn [fst snd];
    first [left; reflexivity | right; left; reflexivity | right; right; left; reflexivity
          | right; right; right; left; reflexivity | right; right; right; right; reflexivity].
Qed.

(* a child line is searched at (indentations of the option + its own level - deindent, continuations of the option) *)
Lemma solve_children_ws W lvs fm d opt base deind : forall kids st first lll acc st' l,
  (forall k s', In (k, s') acc -> exists lv, nth_error lvs k = Some lv /\ sol_ws s' = (fst base + lv_level lv - deind, snd base)) ->
  solve_children lvs (solve W lvs fm d) st opt base deind kids first lll acc = (st', Some l) ->
  forall k s', In (k, s') l -> exists lv, nth_error lvs k = Some lv /\ sol_ws s' = (fst base + lv_level lv - deind, snd base).
Proof.
  induction kids as [|k rest IH]; intros st first lll acc st' l Hacc E; cbn [solve_children] in E.
  - injection E as _ <-. intros k s' H. apply in_rev in H. exact (Hacc k s' H).
  - destruct (nth_error lvs k) as [lv|] eqn:Ek; [|discriminate].
    match type of E with context [solve W lvs fm d st lv ?ws ?fd] => pose proof (solve_ws W lvs fm d st lv ws fd) as Hw; destruct (solve W lvs fm d st lv ws fd) as [st1 r] end.
    destruct r as [s|]; [|discriminate]. refine (IH _ _ _ _ _ _ _ E).
    intros k0 s0 [H|H]; [injection H as <- <-; exists lv; split; [exact Ek|exact (Hw st1 s eq_refl)]|exact (Hacc k0 s0 H)].
Qed.

(* ------------------------------------------------------------------ *)
(* both phases *)
From PasfmtVerif Require Import Proofs.WrapTwoPhaseProofs.

(* ev_lvl reads of the views only what comes from the lines *)
Lemma ev_lvl_transfer infos1 infos2 lines e : ev_lvl (mk_lviews infos1 lines) e -> ev_lvl (mk_lviews infos2 lines) e.
Proof.
  destruct e as [| t d lll f |]; cbn; try exact (fun x => x). destruct d as [[[fb i0] c0]|]; [|exact (fun x => x)]. destruct fb; [|exact (fun x => x)].
  intros (k & lv1 & Hk & Hg & Hw). destruct (mk_lviews_nth infos1 lines k lv1 Hk) as (ln & Hl & _ & G1 & _ & T1).
  destruct (mk_lviews_level infos1 lines k lv1 Hk) as (ln1 & Hl1 & L1). rewrite Hl in Hl1. injection Hl1 as <-.
  assert (Hlt : (k < length (mk_lviews infos2 lines))%nat) by (rewrite mk_lviews_length; apply nth_error_Some; congruence).
  destruct (nth_error (mk_lviews infos2 lines) k) as [lv2|] eqn:E2; [|apply nth_error_None in E2; lia].
  destruct (mk_lviews_nth infos2 lines k lv2 E2) as (ln' & Hl' & _ & G2 & _ & T2). rewrite Hl in Hl'. injection Hl' as <-.
  destruct (mk_lviews_level infos2 lines k lv2 E2) as (ln2 & Hl2 & L2). rewrite Hl in Hl2. injection Hl2 as <-.
  exists k, lv2. split; [exact E2|]. split; [rewrite G2, <- G1; exact Hg|]. rewrite T2, <- T1, L2, <- L1. exact Hw.
Qed.

(* a first-token break in a plan made of events with ev_lvl, at a token that starts only top-level lines of level L *)
Lemma break_event_levels infos lines evs t ind cont L :
  (forall e, In e evs -> is_D e = true -> ev_lvl (mk_lviews infos lines) e) ->
  In (t, DBreak true ind cont) (plan_of_events evs) -> starts_top lines t L -> ind = L /\ cont = 0.
Proof.
  intros Hall Hin Hs. destruct (plan_of_events_in t _ _ Hin) as (tk & dd & lll & fs & Hev & Htk & Hdd).
  destruct dd as [[[fb i0] c0]|]; [|discriminate]. injection Hdd as <- <- <-.
  destruct (Hall _ Hev eq_refl) as (k & lv & Hk & Hh & Htop).
  assert (Htk' : tk = N.of_nat t) by (rewrite <- Htk, Nnat.N2Nat.id; reflexivity). rewrite Htk' in Hh.
  destruct (starts_top_views infos lines t L Hs k lv Hk Hh) as (Ht & HL). destruct (Htop Ht) as (Ei & Ec). split; congruence.
Qed.

Lemma last_in_decs t plan ds d : decs_for t plan = ds ++ [d] -> In (t, d) plan.
Proof.
  intros Hd. assert (H : In d (decs_for t plan)) by (rewrite Hd; apply in_or_app; right; left; reflexivity).
  unfold decs_for in H. apply in_map_iff in H. destruct H as ([t' d'] & Hd' & Hfl). apply filter_In in Hfl. destruct Hfl as (Hfl & Heq).
  cbn [fst snd] in *. apply PeanoNat.Nat.eqb_eq in Heq. subst. exact Hfl.
Qed.

Lemma decs_for_app t p q : decs_for t (p ++ q) = decs_for t p ++ decs_for t q.
Proof. unfold decs_for. rewrite filter_app, map_app. reflexivity. Qed.

Lemma apply_last_break ds ind cont f0 : let f := fold_left apply_decision (ds ++ [DBreak true ind cont]) f0 in
  f_ind f = ind /\ f_cont f = cont /\ 1 <= f_nl f <= 2.
Proof. cbv zeta. rewrite fold_left_app. cbn [fold_left apply_decision f_nl f_ind f_cont]. split; [reflexivity|]. split; [reflexivity|]. apply clamp12_range. Qed.

Lemma fsim_nth : forall l l', fsim l l' -> forall t tok f, nth_error l t = Some (tok, f) -> exists tok', nth_error l' t = Some (tok', f).
Proof.
  induction 1 as [|[t1 f1] [t2 f2] r1 r2 Hxy Hr IH]; intros t tok f E; [destruct t; discriminate|]. cbn [snd] in Hxy. subst f2.
  destruct t as [|t]; cbn [nth_error] in *; [injection E as <- <-; exists t2; reflexivity|exact (IH t tok f E)].
Qed.

Lemma respace_nth : forall l sp t tok f, length sp = length l -> nth_error (respace sp l) t = Some (tok, f) ->
  exists f', nth_error l t = Some (tok, f') /\ f_ind f = f_ind f' /\ f_cont f = f_cont f' /\ f_nl f = f_nl f' /\ (0 < f_nl f' -> f_sp f = 0).
Proof.
  induction l as [|[tk g] r IH]; intros sp t tok f Hlen E; [destruct sp; cbn [respace] in E; destruct t; discriminate|]. destruct sp as [|s ss]; [discriminate|]. cbn [respace] in E.
  destruct t as [|t]; cbn [nth_error] in *.
  - injection E as <- <-. exists g. cbn [f_ind f_cont f_nl f_sp]. repeat split. intros Hp. apply N.ltb_lt in Hp. rewrite Hp. reflexivity.
  - apply (IH ss t tok f); [cbn [length] in Hlen; lia|exact E].
Qed.

Definition olf_plan1 (W : wsettings) (lines : list lline) (l : list ftoken) : list (nat * decision) :=
  plan_of_events (rev (ss_log (wrap_phase1 W (map tokinfo_of l) lines))).
Definition olf_plan2 (rs : rsettings) (W : wsettings) (lines : list lline) (l : list ftoken) : list (nat * decision) :=
  match olf_reflow rs W lines l with
  | [] => []
  | reflow =>
      let st2 := wrap_phase2 W (olf_infos2 rs W lines l) lines reflow (st_after1 W lines l) in
      plan_of_events (rev (firstn (length (ss_log st2) - length (ss_log (st_after1 W lines l))) (ss_log st2)))
  end.

Lemma apply_plan_length p : forall l, length (apply_plan p l) = length l.
Proof.
  assert (Hu : forall g l i, length (upd_ftok i g l) = length l).
  { induction l as [|[tk f] r IH]; intros i; [destruct i; reflexivity|]. destruct i; cbn [upd_ftok length]; [reflexivity|rewrite IH; reflexivity]. }
  unfold apply_plan. induction p as [|pd r IH]; intros l; [reflexivity|]. cbn [fold_left]. rewrite IH. destruct pd. apply Hu.
Qed.

Lemma fsim_length l l' : fsim l l' -> length l = length l'.
Proof. induction 1; cbn [length]; congruence. Qed.

(* the state after phase 1, seen with the token table of phase 2 *)
Lemma st_after1_lvl W lines l infos2 : st_lvl (mk_lviews infos2 lines) (has_parent lines) (st_after1 W lines l).
Proof.
  pose proof (wrap_phase_levels W (map tokinfo_of l) lines lv_top sst_init) as H.
  destruct H as (Hc & Hl); [split; [apply cache_ok_init|constructor]|].
  split; [exact Hc|]. unfold st_after1, Dlog, sst_log. cbn [ss_log filter is_D]. fold (Dlog (wrap_phase1 W (map tokinfo_of l) lines)).
  unfold wrap_phase1. revert Hl. apply Forall_impl. intros e. apply ev_lvl_transfer.
Qed.

Theorem olf_line_starts rs W fms lines l t tok f ds ind cont L :
  nth_error (fst (fst (olf_model rs W fms lines l))) t = Some (tok, f) ->
  (* the last decision about token t, over phase 1 and (with format_multiline_strings) the reflow of phase 2 *)
  decs_for t (olf_plan1 W lines l ++ (if fms then olf_plan2 rs W lines l else [])) = ds ++ [DBreak true ind cont] ->
  (* every line that starts with token t is a top-level line of level L, not the Eof line *)
  starts_top lines t L ->
  f_ind f = L /\ f_cont f = 0 /\ f_sp f = 0 /\ 1 <= f_nl f <= 2.
Proof.
  intros Hn Hd Hs. destruct fms.
  2:{ rewrite app_nil_r in Hd. exact (olf_phase1_line_starts_lines rs W lines l t tok f ds ind cont L Hn Hd Hs). }
  (* the token after phase 1 *)
  assert (HA : forall d1 i1 c1 tokA fA, decs_for t (olf_plan1 W lines l) = d1 ++ [DBreak true i1 c1] -> nth_error (olf_a W lines l) t = Some (tokA, fA) ->
               f_ind fA = L /\ f_cont fA = 0 /\ f_sp fA = 0 /\ 1 <= f_nl fA <= 2).
  { intros d1 i1 c1 tokA fA Hd1 HnA. apply (olf_phase1_line_starts_lines rs W lines l t tokA fA d1 i1 c1 L); [|exact Hd1|exact Hs].
    unfold olf_model. cbn [fst]. exact HnA. }
  (* a break of phase 2 *)
  assert (H2 : forall i2 c2, In (t, DBreak true i2 c2) (olf_plan2 rs W lines l) -> i2 = L /\ c2 = 0).
  { intros i2 c2 Hin. unfold olf_plan2 in Hin. destruct (olf_reflow rs W lines l) as [|r0 rr] eqn:Er; [destruct Hin|]. cbv zeta in Hin.
    set (st2 := wrap_phase2 W (olf_infos2 rs W lines l) lines (r0 :: rr) (st_after1 W lines l)) in *.
    pose proof (wrap_phase_levels W (olf_infos2 rs W lines l) lines (fun lv => existsb (Nat.eqb (lv_idx lv)) (r0 :: rr)) (st_after1 W lines l)
                  (st_after1_lvl W lines l _)) as (_ & Hl2). fold (wrap_phase2 W (olf_infos2 rs W lines l) lines (r0 :: rr) (st_after1 W lines l)) in Hl2. fold st2 in Hl2.
    apply (break_event_levels (olf_infos2 rs W lines l) lines _ t i2 c2 L) in Hin; [exact Hin| |exact Hs].
    intros e He HD. rewrite Forall_forall in Hl2. apply Hl2. unfold Dlog. apply filter_In. split; [|exact HD].
    apply in_rev in He. rewrite <- (firstn_skipn (length (ss_log st2) - length (ss_log (st_after1 W lines l))) (ss_log st2)). apply in_or_app. left. exact He. }
  rewrite decs_for_app in Hd. rewrite olf_model_true_unfold in Hn. unfold olf_plan2 in Hd, H2.
  pose proof (ml_lines_fsim rs lines lines 0 (olf_a W lines l) []) as Hb. fold (olf_ml rs W lines l) in Hb.
  destruct (olf_reflow rs W lines l) as [|r0 rr] eqn:Er.
  - cbn [fst] in Hn. cbn [decs_for] in Hd. unfold decs_for at 2 in Hd. cbn [filter map] in Hd. rewrite app_nil_r in Hd.
    destruct (fsim_nth _ _ Hb t tok f Hn) as (tokA & HnA). exact (HA ds ind cont tokA f Hd HnA).
  - cbv zeta in Hn, Hd, H2. cbn [fst] in Hn.
    set (plan2 := plan_of_events (rev (firstn (length (ss_log (wrap_phase2 W (olf_infos2 rs W lines l) lines (r0 :: rr) (st_after1 W lines l))) - length (ss_log (st_after1 W lines l)))
                                         (ss_log (wrap_phase2 W (olf_infos2 rs W lines l) lines (r0 :: rr) (st_after1 W lines l)))))) in *.
    assert (Hlen : length (map (fun p : ftoken => f_sp (snd p)) l) = length (apply_plan plan2 (fst (olf_ml rs W lines l)))).
    { rewrite apply_plan_length, map_length, (fsim_length _ _ Hb). unfold olf_a, zero_line_starts. rewrite map_length, apply_plan_length. reflexivity. }
    destruct (respace_nth _ _ t tok f Hlen Hn) as (f' & Hn' & Ei & Ec & Enl & Esp).
    rewrite apply_plan_nth in Hn'. destruct (nth_error (fst (olf_ml rs W lines l)) t) as [[tokB fB]|] eqn:EB; [|discriminate].
    cbn [option_map fst snd] in Hn'. injection Hn' as _ Hf'.
    destruct (fsim_nth _ _ Hb t tokB fB EB) as (tokA & HnA).
    destruct (decs_for t plan2) as [|d2 r2] eqn:E2 using rev_ind.
    + rewrite app_nil_r in Hd. cbn [fold_left] in Hf'. subst f'. destruct (HA ds ind cont tokA fB Hd HnA) as (A1 & A2 & A3 & A4).
      split; [congruence|]. split; [congruence|]. split; [apply Esp; lia|lia].
    + clear IHr2. rewrite app_assoc in Hd. apply app_inj_tail in Hd. destruct Hd as (_ & ->).
      destruct (H2 ind cont (last_in_decs t plan2 r2 _ E2)) as (-> & ->).
      pose proof (apply_last_break r2 L 0 fB) as (B1 & B2 & B3). cbv zeta in B1, B2, B3. rewrite Hf' in B1, B2, B3.
      split; [congruence|]. split; [congruence|]. split; [apply Esp; lia|lia].
Qed.
Print Assumptions olf_line_starts.
