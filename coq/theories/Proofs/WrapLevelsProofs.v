(* Proofs/WrapLevelsProofs.v — hypothesis H-W1 of C05 as a theorem about the search model:
   the first token of a top-level logical line that the wrapper solves and breaks before starts a line at exactly `level`
   indentation units, no continuation, no spaces, one or two line breaks.
     solve_ws:               the solution `solve` returns starts at the whitespace it was called with (format_line:
                             (level, 0); a child line: what its ChildLineOption carries);
     wrap_phase_levels:      every decision event `Ev_D t (Some (true, ind, cont))` — the break before the FIRST token of a
                             solved line — in the log of a phase belongs to a line that starts with t, and if that line is a
                             top-level line then ind = its level and cont = 0 (child lines: lv_top = false, their events
                             carry the whitespace of their option);
     olf_phase1_line_starts: in the final vector of phase 1, a token whose LAST decision is such a first-token break and
                             which starts only top-level lines of level L has f_ind = L, f_cont = 0, f_sp = 0, 1 <= f_nl <= 2
                             (conditional directives: a token can be decided by several lines, the last decision wins —
                             hence "last decision").
   When the first decision is not a break: format_line chooses FirstDecision::Continue {0, can_break} for the file's first
   token (token 0), and a first token whose invariant is MustNotBreak (token 0, an inline comment) continues even under
   FirstDecision::Break (first_dec); the unit `levels` skips exactly these. *)
From PasfmtVerif Require Import Model.WrapSearch Model.WrapFormat Proofs.WrapSearchProofs Proofs.WrapSearchDeepProofs Proofs.WrapDepthProofs
  Proofs.WrapEventsProofs Proofs.WrapKidsProofs.
From Coq Require Import Lia.

(* ------------------------------------------------------------------ *)
(* a node property that every successor inherits holds of the node the solution is read from *)
Section NodeInv.
Variable W : wsettings.
Variable lvs : list lview.
Variable fm : nat.
Variable cs : sst -> lview -> N * N -> first_decision -> sst * option solution.
Variable lv : lview.
Variable P : node -> Prop.
Hypothesis Hpot : forall st nd b, P nd -> Forall P (snd (potential W lvs cs lv st nd b)).

Lemma both_P st ind : P ind -> Forall P (snd (both W lvs cs lv st ind)).
Proof.
  intros H. unfold both. pose proof (Hpot st ind true H) as A. destruct (potential W lvs cs lv st ind true) as [st1 a].
  pose proof (Hpot st1 ind false H) as B. destruct (potential W lvs cs lv st1 ind false) as [st2 b]. cbn [snd] in *. apply Forall_app. split; assumption.
Qed.

Definition oP (x : option node) : Prop := match x with Some n => P n | None => True end.
Definition res_P (r : walk_res) : Prop := match r with W_push n => P n | W_extend l => Forall P l | _ => True end.
Definition step_P (s : wstep) : Prop := match s with WS_stop r => res_P r | WS_forward n x => P n /\ oP x | WS_restart n => P n end.

Lemma finish_P l : Forall P l -> step_P (finish l).
Proof. intros H. unfold finish. destruct l as [|n [|n2 l']]; cbn; try exact H. inversion H; assumption. Qed.

Lemma kept_P li sols : Forall P sols -> forall best acc, Forall P acc ->
  Forall P (snd (fold_left (fun (acc : list N * list node) (n : node) =>
                              if n_pen n <? best_at (fst acc) li then (upd_at li (fun _ => n_pen n) (fst acc), snd acc ++ [n]) else acc) sols (best, acc))).
Proof.
  induction 1 as [|n l Hn Hl IH]; intros best acc Hacc; cbn [fold_left]; [exact Hacc|]. cbn [fst snd].
  destruct (n_pen n <? best_at best li); apply IH; [apply Forall_app; split; [exact Hacc|constructor; [exact Hn|constructor]]|exact Hacc].
Qed.

Lemma walk_step_P nd indiff best st : P nd -> oP indiff -> step_P (fst (fst (walk_step W lvs cs lv nd indiff best st))).
Proof.
  intros Hnd Hind. unfold walk_step.
  destruct (if w_max W <? last_line_length_of nd then indiff else None) as [ind|] eqn:Eo.
  { assert (Hi : P ind) by (destruct (w_max W <? last_line_length_of nd); [subst indiff; exact Hind|discriminate]).
    pose proof (both_P st ind Hi) as B. destruct (both W lvs cs lv st ind) as [st' succ]. apply finish_P. exact B. }
  destruct (n_rest nd) as [|r rest]; [exact Hnd|].
  assert (Hafter : forall succ indiff' st', Forall P succ -> oP indiff' ->
            step_P (fst (fst (match succ with
                              | [n] => (WS_forward n indiff', best, st')
                              | _ => match indiff' with
                                     | Some ind => let (st'', more) := both W lvs cs lv st' ind in (finish (succ ++ more), best, st'')
                                     | None => (finish succ, best, st')
                                     end
                              end)))).
  { intros succ indiff' st' Hs Hi.
    assert (Hgen : step_P (fst (fst (match indiff' with
                                     | Some ind => let (st'', more) := both W lvs cs lv st' ind in (finish (succ ++ more), best, st'')
                                     | None => (finish succ, best, st')
                                     end)))).
    { destruct indiff' as [ind|]; [|apply finish_P; exact Hs]. pose proof (both_P st' ind Hi) as B. destruct (both W lvs cs lv st' ind) as [st'' more].
      apply finish_P. apply Forall_app. split; assumption. }
    destruct succ as [|n [|n2 l']]; try exact Hgen. cbn. split; [inversion Hs; assumption|exact Hi]. }
  destruct (get_formatting_requirement _ _ _ _ _ _ _).
  - pose proof (Hpot st nd false Hnd) as Pp. destruct (potential W lvs cs lv st nd false) as [st' succ]. apply Hafter; [exact Pp|]. destruct indiff; [exact Hind|exact Hnd].
  - destruct indiff as [ind|]; [|exact I]. pose proof (both_P st ind Hind) as B. destruct (both W lvs cs lv st ind) as [st' succ]. apply finish_P. exact B.
  - pose proof (Hpot st nd true Hnd) as Pp. destruct (potential W lvs cs lv st nd true) as [st' sols]. cbn [snd] in Pp.
    pose proof (kept_P (N.to_nat (n_nli nd)) sols Pp best [] (Forall_nil _)) as K. destruct (fold_left _ sols (best, [])) as [b' kept]. apply finish_P. exact K.
  - pose proof (Hpot st nd false Hnd) as Pp. destruct (potential W lvs cs lv st nd false) as [st' succ]. apply Hafter; [exact Pp|exact Hind].
Qed.

Lemma walk_P : forall f1 f2 nd indiff best st, P nd -> oP indiff -> res_P (fst (fst (walk W lvs cs lv f1 f2 nd indiff best st))).
Proof.
  induction f1 as [|f1 IH1]; induction f2 as [|f2 IH2]; intros nd indiff best st Hnd Hind; try exact I.
  - cbn [walk]. pose proof (walk_step_P nd indiff best st Hnd Hind) as S. destruct (walk_step W lvs cs lv nd indiff best st) as [[s b] st']. cbn [fst] in S.
    destruct s as [r|n x|n]; cbn [fst]; [exact S| |exact I]. destruct S as (A & B). apply IH2; assumption.
  - cbn [walk]. pose proof (walk_step_P nd indiff best st Hnd Hind) as S. destruct (walk_step W lvs cs lv nd indiff best st) as [[s b] st']. cbn [fst] in S.
    destruct s as [r|n x|n]; cbn [fst]; [exact S| |apply IH1; [exact S|exact I]]. destruct S as (A & B). apply IH2; assumption.
Qed.

Lemma main_loop_P : forall fuel h iter best st s, heap_all P h ->
  snd (main_loop W lvs cs lv fuel h iter best st) = SR_ok s -> exists nd, P nd /\ s = solution_of_node nd.
Proof.
  induction fuel as [|f IH]; intros h iter best st s Hh E; cbn [main_loop] in E; [discriminate|].
  destruct (heap_pop h) as [[nd h']|] eqn:Ep; [|discriminate]. destruct (heap_pop_all P h nd h' Hh Ep) as (Hnd & Hh').
  destruct (w_iter W <? iter); [discriminate|]. destruct (n_rest nd) as [|r rest].
  - cbn [snd] in E. injection E as <-. exists nd. split; [exact Hnd|reflexivity].
  - destruct (best_at best _ <? n_pen nd); [exact (IH _ _ _ _ _ Hh' E)|].
    pose proof (walk_P (S (length (r :: rest))) (S (length (r :: rest))) nd None best st Hnd I) as Hw.
    destruct (walk W lvs cs lv _ _ nd None best st) as [[res b] st']. cbn [fst] in Hw. destruct res as [n|l| |].
    + apply (IH _ _ _ _ _ (heap_push_all P n h' Hh' Hw) E).
    + apply (IH _ _ _ _ _ (heap_extend_all P l h' Hh' Hw) E).
    + exact (IH _ _ _ _ _ Hh' E).
    + discriminate.
Qed.
End NodeInv.

(* the solution starts at the whitespace the search was called with *)
Theorem fos_ws W lvs fm cs lv st ws first s :
  snd (find_optimal_solution W lvs fm cs lv st ws first) = SR_ok s -> sol_ws s = ws.
Proof.
  unfold find_optimal_solution. destruct (lv_recs lv) as [|r rest]; [intros E; injection E as <-; destruct ws; reflexivity|].
  destruct (match first with FD_Break => _ | FD_Continue line_length can_break => _ end) as [[ib lll] bcb].
  destruct (bid _ && negb ib); [discriminate|].
  destruct (child_lines_solutions W lvs cs st (lv_idx lv) r _ _ _ _ _ _ _ _) as [st1 sols]. intros E.
  destruct (main_loop_P W lvs cs lv (fun nd => n_ws nd = ws)) with (fuel := fm) (h := heap_extend (map (fun _ => mkNode ws [TDec (if ib then WBreak 0 else WContinue) lll (match last_opt' sols with Some k => k | None => [] end)] 1 rest
              (dt_upd 1 (fun s0 => mkSt (s_broken s0) bcb (s_child s0) (s_oepl s0) (s_bar s0)) PLeaf) (decision_penalty W (lv_type lv) r 0 ib lll)) sols) heap_empty)
              (iter := 0) (best := repeat u64_max (length (r :: rest))) (st := st1) (s := s) as (nd & Hnd & ->).
  - intros st0 nd b Hn. unfold potential. destruct (n_rest nd); [constructor|]. destruct (child_lines_solutions _ _ _ _ _ _ _ _ _ _ _ _ _ _) as [st2 ss]. cbn [snd].
    apply Forall_forall. intros n Hin. apply in_map_iff in Hin. destruct Hin as (x & <- & _). exact Hn.
  - apply heap_extend_all; [exact I|]. apply Forall_forall. intros n Hin. apply in_map_iff in Hin. destruct Hin as (x & <- & _). reflexivity.
  - exact E.
  - unfold solution_of_node, sol_ws. rewrite <- Hnd. destruct (n_ws nd); reflexivity.
Qed.

Theorem solve_ws W lvs fm d st lv ws first st' s : solve W lvs fm d st lv ws first = (st', Some s) -> sol_ws s = ws.
Proof.
  destruct d as [|k]; cbn [solve]; [discriminate|].
  pose proof (fos_ws W lvs fm (solve W lvs fm k) lv st ws first) as H.
  destruct (find_optimal_solution W lvs fm (solve W lvs fm k) lv st ws first) as [st1 r]. cbn [snd] in H.
  intros E. destruct r as [s1| | |]; try discriminate. injection E as _ <-. apply H. reflexivity.
Qed.
