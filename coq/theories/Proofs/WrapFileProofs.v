(* Proofs/WrapFileProofs.v — file level: C10 for a whole phase of the wrapper, with a bound computed from the input. *)
From PasfmtVerif Require Import Proofs.WrapWidthFree Proofs.WrapSearchProofs Proofs.WrapSearchDeepProofs Proofs.WrapDepthProofs Proofs.WrapEventsProofs
  Proofs.WrapSimProofs Proofs.WrapUnconstrainedProofs Proofs.WrapWidthIndependence.
From Coq Require Import Lia.

(* ------------------------------------------------------------------ *)
(* an induction principle for solutions that reaches the child solutions *)
Lemma solution_ind' (P : solution -> Prop) :
  (forall i c decs p l, (forall t k s', In t decs -> In (k, s') (td_kids t) -> P s') -> P (Sol i c decs p l)) -> forall s, P s.
Proof.
  intros H. fix F 1. intros [i c decs p l]. apply H.
  induction decs as [|[d lll kids] r IHd]; intros t k s' Ht Hk; [destruct Ht|].
  destruct Ht as [<-|Ht]; [|exact (IHd t k s' Ht Hk)]. cbn [td_kids] in Hk.
  induction kids as [|[k0 s0] kr IHk]; [destruct Hk|].
  destruct Hk as [E|Hk]; [injection E as <- <-; apply F|exact (IHk Hk)].
Qed.

(* ------------------------------------------------------------------ *)
(* the decision events depend on a solution only through its erasure *)
Definition ev_erase (e : event) : event := match e with Ev_D t d _ f => Ev_D t d 0 f | _ => e end.

Lemma recon_kids_erase lvs kids :
  (forall k s', In (k, s') kids -> forall toks, map ev_erase (recon_events lvs s' toks) = map ev_erase (recon_events lvs (erase s') toks)) ->
  map ev_erase (recon_kids lvs kids) = map ev_erase (recon_kids lvs (erase_kids kids)).
Proof.
  induction kids as [|[k s'] r IH]; intros H; [reflexivity|]. cbn [recon_kids erase_kids map fst snd]. rewrite !map_app. f_equal.
  - exact (H k s' (or_introl eq_refl) _).
  - apply IH. intros k2 s2 H2. exact (H k2 s2 (or_intror H2)).
Qed.

Theorem recon_erase lvs : forall s toks, map ev_erase (recon_events lvs s toks) = map ev_erase (recon_events lvs (erase s) toks).
Proof.
  apply (solution_ind' (fun s => forall toks, map ev_erase (recon_events lvs s toks) = map ev_erase (recon_events lvs (erase s) toks))).
  intros i c decs p l IH toks. rewrite erase_eq, !recon_events_eq. generalize true. revert toks.
  induction decs as [|t ds IHd]; intros toks first; [reflexivity|]. destruct toks as [|g toks]; [reflexivity|].
  cbn [map recon_go]. unfold erase_dec at 1 2 3. cbn [td_dec td_lll td_kids map ev_erase]. f_equal. rewrite !map_app. f_equal.
  - apply recon_kids_erase. intros k s' Hk. apply (IH t k s'); [left; reflexivity|exact Hk].
  - apply IHd. intros t' k s' Ht Hk. apply (IH t' k s'); [right; exact Ht|exact Hk].
Qed.

Corollary recon_erase_eq lvs sA sB toks : erase sA = erase sB -> map ev_erase (recon_events lvs sA toks) = map ev_erase (recon_events lvs sB toks).
Proof. intros E. rewrite (recon_erase lvs sA), (recon_erase lvs sB), E. reflexivity. Qed.

Lemma recon_all_D lvs : forall s toks, Forall (fun e => is_D e = true) (recon_events lvs s toks).
Proof.
  apply (solution_ind' (fun s => forall toks, Forall (fun e => is_D e = true) (recon_events lvs s toks))).
  intros i c decs p l IH toks. rewrite recon_events_eq.
  assert (Hgo : forall ds, (forall t k s', In t ds -> In (k, s') (td_kids t) -> forall toks0, Forall (fun e => is_D e = true) (recon_events lvs s' toks0)) ->
                forall toks0 first, Forall (fun e => is_D e = true) (recon_go lvs i c ds toks0 first)); [|exact (Hgo decs IH toks true)].
  clear. induction ds as [|t ds IHd]; intros IH toks first; [constructor|]. destruct toks as [|g toks]; [constructor|].
  cbn [recon_go]. constructor; [reflexivity|]. apply Forall_app. split.
  - assert (Hk : forall k s', In (k, s') (td_kids t) -> forall toks0, Forall (fun e => is_D e = true) (recon_events lvs s' toks0))
      by (intros k s' Hk; apply (IH t k s'); [left; reflexivity|exact Hk]).
    induction (td_kids t) as [|[k s'] r IHk]; [constructor|]. cbn [recon_kids fst snd]. apply Forall_app. split.
    + exact (Hk k s' (or_introl eq_refl) _).
    + apply IHk. intros k2 s2 H2. exact (Hk k2 s2 (or_intror H2)).
  - apply IHd. intros t' k s' Ht Hk. apply (IH t' k s'); [right; exact Ht|exact Hk].
Qed.

(* ------------------------------------------------------------------ *)
(* (b) the span list satisfies its recurrence for every well-formed list of views *)
Lemma psum_ext f g rs : (forall r lc k, In r rs -> tr_kids r = Some lc -> In k (lch_lines lc) -> f k = g k) -> psum f rs = psum g rs.
Proof.
  induction rs as [|r rest IH]; intros H; [reflexivity|].
  change (psum f (r :: rest)) with (rspan f r + psum f rest). change (psum g (r :: rest)) with (rspan g r + psum g rest).
  rewrite IH by (intros r' lc k Hr; apply H; right; exact Hr). f_equal. unfold rspan. f_equal.
  destruct (tr_kids r) as [lc|] eqn:E; [|reflexivity].
  assert (Hk : forall k, In k (lch_lines lc) -> f k = g k) by (intros k Hk; exact (H r lc k (or_introl eq_refl) E Hk)).
  induction (lch_lines lc) as [|k ks IHk]; [reflexivity|]. cbn [kspan fold_right]. fold (kspan f ks). fold (kspan g ks).
  rewrite (Hk k (or_introl eq_refl)), IHk by (intros k' Hk'; apply Hk; right; exact Hk'). reflexivity.
Qed.

Lemma span_list_rec : forall lvs s j lv, nth_error lvs j = Some lv ->
  (forall j' lv', nth_error lvs j' = Some lv' -> Forall (rec_later (s + j')) (lv_recs lv')) ->
  nth j (span_list lvs s) 0 = psum (fun k => nth (k - s) (span_list lvs s) 0) (lv_recs lv).
Proof.
  induction lvs as [|lv0 rest IH]; intros s j lv Hj Hlater; [destruct j; discriminate|]. cbn [span_list].
  set (sr := span_list rest (S s)).
  assert (Hshift : forall j' lv' r lc k, nth_error (lv0 :: rest) j' = Some lv' -> In r (lv_recs lv') -> tr_kids r = Some lc -> In k (lch_lines lc) ->
            nth (k - s) (psum (fun k0 => nth (k0 - S s) sr 0) (lv_recs lv0) :: sr) 0 = nth (k - S s) sr 0).
  { intros j' lv' r lc k Hj' Hr Hk Hin. pose proof (Hlater j' lv' Hj') as Hl. rewrite Forall_forall in Hl. specialize (Hl r Hr lc k Hk Hin).
    replace (k - s)%nat with (S (k - S s)) by lia. reflexivity. }
  destruct j as [|j]; cbn [nth_error] in Hj.
  - injection Hj as <-. cbn [nth]. symmetry. apply psum_ext. intros r lc k Hr Hk Hin. exact (Hshift O lv0 r lc k eq_refl Hr Hk Hin).
  - cbn [nth]. subst sr. rewrite (IH (S s) j lv Hj).
    + symmetry. apply psum_ext. intros r lc k Hr Hk Hin. exact (Hshift (S j) lv r lc k Hj Hr Hk Hin).
    + intros j' lv' Hj'. specialize (Hlater (S j') lv' Hj'). replace (S s + j')%nat with (s + S j')%nat by lia. exact Hlater.
Qed.

Theorem span_list_ok lvs : views_wf lvs -> forall i lv, nth_error lvs i = Some lv ->
  psum (fun k => nth k (span_list lvs 0) 0) (lv_recs lv) <= nth i (span_list lvs 0) 0.
Proof.
  intros Hwf i lv Hi. rewrite (span_list_rec lvs 0 i lv Hi) by (intros j' lv' Hj'; exact (proj2 (Hwf j' lv' Hj'))).
  rewrite (psum_ext (fun k => nth k (span_list lvs 0) 0) (fun k => nth (k - 0) (span_list lvs 0) 0)); [lia|].
  intros r lc k _ _ _. rewrite PeanoNat.Nat.sub_0_r. reflexivity.
Qed.

(* ------------------------------------------------------------------ *)
(* the bound of a file *)
Definition list_max (l : list N) : N := fold_right N.max 0 l.
Lemma list_max_in x l : In x l -> x <= list_max l.
Proof. induction l as [|y r IH]; intros []; cbn [list_max fold_right]; fold (list_max r); [subst; lia|specialize (IH H); lia]. Qed.
Lemma list_max_nth l k : nth k l 0 <= list_max l.
Proof. destruct (nth_in_or_default k l 0) as [H|H]; [apply list_max_in; exact H|rewrite H; lia]. Qed.

Definition file_m (lvs : list lview) : N :=
  list_max (flat_map (fun lv => flat_map (fun r => [tr_sp r + tr_len r; match tr_ml r with Some x => x | None => 0 end]) (lv_recs lv)) lvs).
Definition file_SW (lvs : list lview) : N := list_max (flat_map (fun lv => map (fun r => stack_weight (tr_stk r)) (lv_recs lv)) lvs).
Definition file_LV (lvs : list lview) : N := list_max (map lv_level lvs).
Definition file_IB (lvs : list lview) : N := file_LV lvs + N.of_nat (S (length lvs)) * file_LV lvs.
Definition file_CB (lvs : list lview) : N := (N.of_nat (S (length lvs)) + 1) * file_SW lvs.
Definition file_span (lvs : list lview) : nat -> N := fun k => nth k (span_list lvs 0) 0.

(* everything the search of a file can measure stays below this *)
Definition unconstrained_bound (infos : list tokinfo) (lines : list lline) (indw contw : N) : N :=
  let lvs := mk_lviews infos lines in
  file_IB lvs * indw + file_CB lvs * contw + file_m lvs * list_max (span_list lvs 0).

(* (stated with views_wf, which only needs every parent to be an EARLIER line: FormatTotalProofs.mk_lviews_wf_weak; parents_ok, which also
   asks for the parent token to be in the parent line, fails on the lines the wrapper gets once a parent line is voided) *)
Theorem run_bounds_file_wf W infos lines : views_wf (mk_lviews infos lines) ->
  let lvs := mk_lviews infos lines in
  run_bounds W lvs (file_m lvs) (file_SW lvs) (file_LV lvs) (file_IB lvs) (file_CB lvs) (file_span lvs).
Proof.
  intros Hwf lvs. constructor.
  - intros i lv r Hi Hr. apply nth_error_In in Hi. repeat split.
    + apply list_max_in. apply in_flat_map. exists lv. split; [exact Hi|]. apply in_flat_map. exists r. split; [exact Hr|left; reflexivity].
    + intros x Hx. apply list_max_in. apply in_flat_map. exists lv. split; [exact Hi|]. apply in_flat_map. exists r. split; [exact Hr|right; left; rewrite Hx; reflexivity].
    + apply list_max_in. apply in_flat_map. exists lv. split; [exact Hi|]. exact (in_map (fun r0 => stack_weight (tr_stk r0)) _ _ Hr).
  - intros i lv Hi. apply nth_error_In in Hi. apply list_max_in. apply in_map. exact Hi.
  - intros i lv Hi. apply span_list_ok; [exact Hwf|exact Hi].
  - exact Hwf.
  - exact (mk_lviews_fun infos lines).
Qed.

Corollary run_bounds_file W infos lines : parents_ok lines = true ->
  let lvs := mk_lviews infos lines in
  run_bounds W lvs (file_m lvs) (file_SW lvs) (file_LV lvs) (file_IB lvs) (file_CB lvs) (file_span lvs).
Proof. intros Hp. apply run_bounds_file_wf, mk_lviews_wf, Hp. Qed.

(* the top-level calls of a phase satisfy the precondition of solve_unc *)
Lemma cpre_top W infos lines i lv fd :
  let lvs := mk_lviews infos lines in
  nth_error lvs i = Some lv -> off fd = 0 ->
  unconstrained_bound infos lines (w_indw W) (w_contw W) <= w_max W ->
  cpre W (file_m lvs) (file_SW lvs) (file_LV lvs) (file_IB lvs) (file_CB lvs) (file_span lvs) (S (length lines)) i (lv_level lv, 0) fd.
Proof.
  intros lvs Hi Hoff Hb. pose proof (mk_lviews_length infos lines) as Hlen. fold lvs in Hlen.
  assert (Hlv : lv_level lv <= file_LV lvs) by (apply list_max_in; apply in_map; eapply nth_error_In; exact Hi).
  split; [split; cbn [fst snd]; unfold file_IB, file_CB; rewrite Hlen; lia|].
  rewrite Hoff. unfold Wb, lws_len. cbn [fst snd]. unfold unconstrained_bound in Hb. fold lvs in Hb.
  pose proof (list_max_nth (span_list lvs 0) i) as Hs. unfold file_span. nia.
Qed.

(* ------------------------------------------------------------------ *)
(* (a) one phase of the wrapper under two settings that differ in the whitespace-unit widths *)
Lemma filter_rev {A} (f : A -> bool) l : filter f (rev l) = rev (filter f l).
Proof. induction l as [|x r IH]; [reflexivity|]. cbn [rev filter]. rewrite filter_app, IH. cbn [filter]. destruct (f x); [reflexivity|rewrite app_nil_r; reflexivity]. Qed.

Lemma filter_all {A} (f : A -> bool) l : Forall (fun x => f x = true) l -> filter f l = l.
Proof. induction 1 as [|x r Hx Hr IH]; [reflexivity|]. cbn [filter]. rewrite Hx, IH. reflexivity. Qed.

Lemma plan_of_events_filter evs : plan_of_events (filter is_D evs) = plan_of_events evs.
Proof. induction evs as [|e r IH]; [reflexivity|]. destruct e as [l o|t [[[f i] c]|] lll fst|n]; cbn [filter is_D plan_of_events]; rewrite IH; reflexivity. Qed.

Lemma plan_of_events_erase evs : plan_of_events (map ev_erase evs) = plan_of_events evs.
Proof. induction evs as [|e r IH]; [reflexivity|]. destruct e as [l o|t [[[f i] c]|] lll fst|n]; cbn [map ev_erase plan_of_events]; rewrite IH; reflexivity. Qed.

Section Phase.
Variables WA WB : wsettings.
Hypothesis Hiter : w_iter WA = w_iter WB.
Hypothesis Hbbb : w_bbb WA = w_bbb WB.
Variable infos : list tokinfo.
Variable lines : list lline.
Hypothesis Hwf : views_wf (mk_lviews infos lines).
Hypothesis HbA : unconstrained_bound infos lines (w_indw WA) (w_contw WA) <= w_max WA.
Hypothesis HbB : unconstrained_bound infos lines (w_indw WB) (w_contw WB) <= w_max WB.

Let lvs := mk_lviews infos lines.
Let fm := main_fuel WA.

Lemma Hfm : main_fuel WB = fm.
Proof. unfold fm, main_fuel. rewrite Hiter. reflexivity. Qed.

Definition cbd (W : wsettings) (st : sst) : Prop := cache_bd W lvs (file_m lvs) (file_IB lvs) (file_CB lvs) (file_span lvs) st.

(* the invariant of the two runs: sound and bounded caches, decision logs equal up to the measured lengths *)
Definition PInv (stA stB : sst) : Prop :=
  sound WA lvs fm stA /\ cbd WA stA /\ sound WB lvs fm stB /\ cbd WB stB /\ map ev_erase (Dlog stA) = map ev_erase (Dlog stB).

Lemma PInv_init : PInv sst_init sst_init.
Proof. split; [apply sound_init|]. split; [intros key v []|]. split; [apply sound_init|]. split; [intros key v []|reflexivity]. Qed.

Lemma cbd_same W st st' : ss_cache st' = ss_cache st -> cbd W st -> cbd W st'.
Proof. intros E H. unfold cbd, cache_bd. rewrite E. exact H. Qed.

Lemma format_top_indep i lv stA stB : nth_error lvs i = Some lv -> PInv stA stB ->
  PInv (format_top WA lvs (main_fuel WA) (S (length lines)) stA lv) (format_top WB lvs (main_fuel WB) (S (length lines)) stB lv).
Proof.
  intros Hi (HsA & HcA & HsB & HcB & Hlog). rewrite Hfm. fold fm. unfold format_top.
  destruct (bid _); [split; [assumption|split; [assumption|split; [assumption|split; assumption]]]|].
  set (fd := match lv_gtoks lv with g :: _ => if g =? 0 then FD_Continue 0 true else FD_Break | [] => FD_Break end).
  assert (Hoff : off fd = 0) by (subst fd; destruct (lv_gtoks lv) as [|g ?]; [reflexivity|destruct (g =? 0); reflexivity]).
  assert (Hfd : fd_sim fd fd) by (subst fd; destruct (lv_gtoks lv) as [|g ?]; [exact I|destruct (g =? 0); [reflexivity|exact I]]).
  pose proof (mk_lviews_length infos lines) as Hlen. fold lvs in Hlen.
  destruct (solve_width_independent WA WB lvs lvs fm _ _ _ _ _ _ _ _ _ _ _ _ Hiter Hbbb (mk_lviews_view_sim infos infos lines eq_refl)
              (run_bounds_file_wf WA infos lines Hwf) (run_bounds_file_wf WB infos lines Hwf)
              i lv lv (S (length lines)) stA stB (lv_level lv, 0) fd fd Hi Hi ltac:(rewrite Hlen; lia) Hfd HsA HcA HsB HcB
              (cpre_top WA infos lines i lv fd Hi Hoff HbA) (cpre_top WB infos lines i lv fd Hi Hoff HbB)) as (E & S1 & C1 & S2 & C2).
  pose proof (state_inv_solve (fun st' => Dlog st' = Dlog stA) (fun st0 l o H => H) (fun st0 k v H => H) (fun st0 H => H) WA lvs fm (S (length lines)) stA lv (lv_level lv, 0) fd eq_refl) as DA.
  pose proof (state_inv_solve (fun st' => Dlog st' = Dlog stB) (fun st0 l o H => H) (fun st0 k v H => H) (fun st0 H => H) WB lvs fm (S (length lines)) stB lv (lv_level lv, 0) fd eq_refl) as DB.
  destruct (solve WA lvs fm (S (length lines)) stA lv (lv_level lv, 0) fd) as [stA1 rA].
  destruct (solve WB lvs fm (S (length lines)) stB lv (lv_level lv, 0) fd) as [stB1 rB]. cbn [fst snd] in *.
  destruct rA as [sA|]; destruct rB as [sB|]; try discriminate.
  - cbn [option_map] in E. injection E as E.
    destruct (sst_log_fold (recon_events lvs sA (lv_gtoks lv)) stA1) as (LA1 & LA2).
    destruct (sst_log_fold (recon_events lvs sB (lv_gtoks lv)) stB1) as (LB1 & LB2).
    split; [eapply sound_same_cache; [exact LA2|exact S1]|]. split; [eapply cbd_same; [exact LA2|exact C1]|].
    split; [eapply sound_same_cache; [exact LB2|exact S2]|]. split; [eapply cbd_same; [exact LB2|exact C2]|].
    unfold Dlog. rewrite LA1, LB1, !filter_app, !filter_rev, !(filter_all _ _ (recon_all_D lvs _ _)), !map_app, !map_rev.
    rewrite (recon_erase_eq lvs sA sB _ E). fold (Dlog stA1). fold (Dlog stB1). rewrite DA, DB, Hlog. reflexivity.
  - split; [assumption|split; [assumption|split; [assumption|split; [assumption|]]]]. rewrite DA, DB. exact Hlog.
Qed.

Theorem wrap_phase_indep which stA stB : PInv stA stB -> PInv (wrap_phase WA infos lines which stA) (wrap_phase WB infos lines which stB).
Proof.
  intros H. unfold wrap_phase. fold lvs.
  assert (Hgen : forall l sa sb, (forall lv, In lv l -> exists i, nth_error lvs i = Some lv) -> PInv sa sb ->
            PInv (fold_left (fun st lv => if which lv then format_top WA lvs (main_fuel WA) (S (length lines)) st lv else st) l sa)
                 (fold_left (fun st lv => if which lv then format_top WB lvs (main_fuel WB) (S (length lines)) st lv else st) l sb)).
  { induction l as [|lv r IH]; intros sa sb Hin H0; [exact H0|]. cbn [fold_left]. apply IH; [intros lv' H'; apply Hin; right; exact H'|].
    destruct (which lv); [|exact H0]. destruct (Hin lv (or_introl eq_refl)) as (i & Hi). exact (format_top_indep i lv sa sb Hi H0). }
  apply Hgen; [|exact H]. intros lv Hin. apply In_nth_error. exact Hin.
Qed.

(* phase 1: same decision events up to the measured length, hence the same plan *)
Corollary wrap_phase1_indep :
  map ev_erase (Dlog (wrap_phase1 WA infos lines)) = map ev_erase (Dlog (wrap_phase1 WB infos lines)).
Proof. exact (proj2 (proj2 (proj2 (proj2 (wrap_phase_indep lv_top sst_init sst_init PInv_init))))). Qed.

Lemma plan_of_log st : plan_of_events (rev (ss_log st)) = plan_of_events (rev (map ev_erase (Dlog st))).
Proof. unfold Dlog. rewrite <- map_rev, plan_of_events_erase, <- filter_rev, plan_of_events_filter. reflexivity. Qed.

Corollary wrap_phase1_plan_indep :
  plan_of_events (rev (ss_log (wrap_phase1 WA infos lines))) = plan_of_events (rev (ss_log (wrap_phase1 WB infos lines))).
Proof. rewrite !plan_of_log, wrap_phase1_indep. reflexivity. Qed.
End Phase.

(* OptimisingLineFormatter::format without the string stage: the final token vector (counters included) is the same *)
Theorem olf_model_phase1_indep_wf rsA rsB WA WB lines l :
  w_iter WA = w_iter WB -> w_bbb WA = w_bbb WB -> views_wf (mk_lviews (map tokinfo_of l) lines) ->
  unconstrained_bound (map tokinfo_of l) lines (w_indw WA) (w_contw WA) <= w_max WA ->
  unconstrained_bound (map tokinfo_of l) lines (w_indw WB) (w_contw WB) <= w_max WB ->
  fst (fst (olf_model rsA WA false lines l)) = fst (fst (olf_model rsB WB false lines l))
  /\ map ev_erase (filter is_D (snd (fst (olf_model rsA WA false lines l)))) = map ev_erase (filter is_D (snd (fst (olf_model rsB WB false lines l)))).
Proof.
  intros H1 H2 Hp HA HB. unfold olf_model. cbn [fst snd sst_log ss_log].
  split.
  - rewrite (wrap_phase1_plan_indep WA WB H1 H2 _ lines Hp HA HB). reflexivity.
  - cbn [rev]. rewrite !filter_app, !filter_rev. cbn [filter is_D]. rewrite !app_nil_r, !map_rev.
    fold (Dlog (wrap_phase1 WA (map tokinfo_of l) lines)). fold (Dlog (wrap_phase1 WB (map tokinfo_of l) lines)).
    rewrite (wrap_phase1_indep WA WB H1 H2 _ lines Hp HA HB). reflexivity.
Qed.

Corollary olf_model_phase1_indep rsA rsB WA WB lines l :
  w_iter WA = w_iter WB -> w_bbb WA = w_bbb WB -> parents_ok lines = true ->
  unconstrained_bound (map tokinfo_of l) lines (w_indw WA) (w_contw WA) <= w_max WA ->
  unconstrained_bound (map tokinfo_of l) lines (w_indw WB) (w_contw WB) <= w_max WB ->
  fst (fst (olf_model rsA WA false lines l)) = fst (fst (olf_model rsB WB false lines l))
  /\ map ev_erase (filter is_D (snd (fst (olf_model rsA WA false lines l)))) = map ev_erase (filter is_D (snd (fst (olf_model rsB WB false lines l)))).
Proof. intros H1 H2 Hp. apply olf_model_phase1_indep_wf; [exact H1|exact H2|apply mk_lviews_wf, Hp]. Qed.

Print Assumptions olf_model_phase1_indep.

(* non-vacuity: the variant-record file of Proofs/WrapOptimalityProofs.v as a token vector, width 10^9,
   indentation 2 / continuation 4 against indentation 8 / continuation 3 *)
From PasfmtVerif Require Import Proofs.WrapOptimalityProofs.

Definition wf_l : list ftoken :=
  map (fun ti => (mkToken [] (repeat 120 (N.to_nat (ti_len ti))) (ti_ty ti), mkFmt false 0 0 0 (ti_sp ti))) f30_infos.

Example wf_infos : map tokinfo_of wf_l = f30_infos.
Proof. vm_compute. reflexivity. Qed.

Example wf_bound : unconstrained_bound (map tokinfo_of wf_l) f30_lines 8 4 = 333.
Proof. vm_compute. reflexivity. Qed.

Example wf_phase1_indep :
  fst (fst (olf_model (mkRS [10] (repeat 32 2) (repeat 32 4)) wi_WA false f30_lines wf_l))
  = fst (fst (olf_model (mkRS [10] (repeat 32 8) (repeat 32 3)) wi_WB false f30_lines wf_l)).
Proof.
  refine (proj1 (olf_model_phase1_indep _ _ wi_WA wi_WB f30_lines wf_l eq_refl eq_refl _ _ _)).
  - vm_compute. reflexivity.
  - vm_compute. intros H; discriminate.
  - vm_compute. intros H; discriminate.
Qed.

(* the plan is not empty: 18 decisions *)
Example wf_plan_len : length (plan_of_events (rev (ss_log (wrap_phase1 wi_WA (map tokinfo_of wf_l) f30_lines)))) = 18%nat.
Proof. vm_compute. reflexivity. Qed.

(* ------------------------------------------------------------------ *)
(* both phases, for a file without multi-line string literals: the string stage changes nothing, nothing is reflowed *)
Definition no_ml (l : list ftoken) : Prop := forall p, In p l -> is_ml_string (t_ty (fst p)) = false.

Lemma ml_visit_no_ml rs l flag i : no_ml l -> ml_visit rs (l, flag) i = (l, flag).
Proof.
  intros H. unfold ml_visit. cbn [fst]. destruct (nth_error l i) as [[tok f]|] eqn:E; [|reflexivity].
  destruct (f_ignored f); [reflexivity|]. pose proof (H (tok, f) (nth_error_In _ _ E)) as Hm. cbn [fst] in Hm. rewrite Hm. reflexivity.
Qed.

Lemma ml_lines_no_ml rs all : forall rest i l acc, no_ml l -> ml_lines rs all rest i l acc = (l, acc).
Proof.
  induction rest as [|ln r IH]; intros i l acc H; [reflexivity|]. cbn [ml_lines].
  assert (Hf : forall toks flag, fold_left (ml_visit rs) toks (l, flag) = (l, flag))
    by (induction toks as [|t ts IHt]; intros flag; [reflexivity|]; cbn [fold_left]; rewrite ml_visit_no_ml by exact H; apply IHt).
  rewrite Hf. apply IH. exact H.
Qed.

Lemma no_ml_upd l : forall i g, no_ml l -> no_ml (upd_ftok i g l).
Proof.
  induction l as [|[tok f] r IH]; intros i g H; [destruct i; exact H|]. destruct i as [|i]; cbn [upd_ftok]; intros p [<-|Hp].
  - exact (H (tok, f) (or_introl eq_refl)).
  - exact (H p (or_intror Hp)).
  - exact (H (tok, f) (or_introl eq_refl)).
  - apply (IH i g); [intros q Hq; exact (H q (or_intror Hq))|exact Hp].
Qed.

Lemma no_ml_phase1 plan l : no_ml l -> no_ml (zero_line_starts (apply_plan plan l)).
Proof.
  intros H. assert (H1 : no_ml (apply_plan plan l)).
  { unfold apply_plan. revert l H. induction plan as [|pd r IH]; intros l H; [exact H|]. cbn [fold_left]. apply IH. apply no_ml_upd. exact H. }
  intros p Hp. unfold zero_line_starts in Hp. apply in_map_iff in Hp. destruct Hp as ([tok f] & <- & Hin).
  pose proof (H1 (tok, f) Hin) as Hty. destruct (0 <? f_nl f); exact Hty.
Qed.

(* with format_multiline_strings = true and no multi-line string: the vector of phase 1, two phase markers, no reflow *)
Theorem olf_model_no_ml rs W lines l : no_ml l ->
  fst (fst (olf_model rs W true lines l)) = fst (fst (olf_model rs W false lines l))
  /\ snd (fst (olf_model rs W true lines l)) = snd (fst (olf_model rs W false lines l)) ++ [Ev_Phase 2]
  /\ snd (olf_model rs W true lines l) = snd (olf_model rs W false lines l).
Proof.
  intros H. unfold olf_model.
  rewrite (ml_lines_no_ml rs lines lines 0 _ [] (no_ml_phase1 _ l H)). cbn [fold_left fst snd sst_log ss_log ss_fuel_err rev].
  repeat split.
Qed.

(* C10 at the level the reconstructor consumes, both phases, for files without multi-line strings *)
Corollary olf_model_indep_no_ml_wf rsA rsB WA WB lines l :
  w_iter WA = w_iter WB -> w_bbb WA = w_bbb WB -> views_wf (mk_lviews (map tokinfo_of l) lines) -> no_ml l ->
  unconstrained_bound (map tokinfo_of l) lines (w_indw WA) (w_contw WA) <= w_max WA ->
  unconstrained_bound (map tokinfo_of l) lines (w_indw WB) (w_contw WB) <= w_max WB ->
  fst (fst (olf_model rsA WA true lines l)) = fst (fst (olf_model rsB WB true lines l))
  /\ map ev_erase (filter is_D (snd (fst (olf_model rsA WA true lines l)))) = map ev_erase (filter is_D (snd (fst (olf_model rsB WB true lines l)))).
Proof.
  intros H1 H2 Hp Hn HA HB.
  destruct (olf_model_no_ml rsA WA lines l Hn) as (A1 & A2 & _). destruct (olf_model_no_ml rsB WB lines l Hn) as (B1 & B2 & _).
  destruct (olf_model_phase1_indep_wf rsA rsB WA WB lines l H1 H2 Hp HA HB) as (E1 & E2).
  rewrite A1, B1, A2, B2, !filter_app. cbn [filter is_D]. rewrite !app_nil_r. split; [exact E1|exact E2].
Qed.

Corollary olf_model_indep_no_ml rsA rsB WA WB lines l :
  w_iter WA = w_iter WB -> w_bbb WA = w_bbb WB -> parents_ok lines = true -> no_ml l ->
  unconstrained_bound (map tokinfo_of l) lines (w_indw WA) (w_contw WA) <= w_max WA ->
  unconstrained_bound (map tokinfo_of l) lines (w_indw WB) (w_contw WB) <= w_max WB ->
  fst (fst (olf_model rsA WA true lines l)) = fst (fst (olf_model rsB WB true lines l))
  /\ map ev_erase (filter is_D (snd (fst (olf_model rsA WA true lines l)))) = map ev_erase (filter is_D (snd (fst (olf_model rsB WB true lines l)))).
Proof. intros H1 H2 Hp. apply olf_model_indep_no_ml_wf; [exact H1|exact H2|apply mk_lviews_wf, Hp]. Qed.

Print Assumptions olf_model_indep_no_ml.
