(* Proofs/WrapFileProofs.v — file level: C10 for a whole phase of the wrapper, with a bound computed from the input. *)
From PasfmtVerif Require Import Proofs.WrapWidthFree Proofs.WrapSearchProofs Proofs.WrapSearchDeepProofs Proofs.WrapDepthProofs Proofs.WrapEventsProofs
  Proofs.WrapSimProofs Proofs.WrapUnconstrainedProofs Proofs.WrapWidthIndependence.
From Coq Require Import Lia.

(* ------------------------------------------------------------------ *)
(* an induction principle for solutions that reaches the child solutions *)
Lemma solution_ind' (P : solution -> Prop) :
  (forall i c decs p l, (forall t k s', In t decs -> In (k, s') (td_kids t) -> P s') -> P (Sol i c decs p l)) -> forall s, P s.
Proof.
  intros H. fix F 1. intros [i c decs p l]. apply H.
  induction decs as [|[d lll kids] r IHd]; intros t k s' Ht Hk; [destruct Ht|].
  destruct Ht as [<-|Ht]; [|exact (IHd t k s' Ht Hk)]. cbn [td_kids] in Hk.
  induction kids as [|[k0 s0] kr IHk]; [destruct Hk|].
  destruct Hk as [E|Hk]; [injection E as <- <-; apply F|exact (IHk Hk)].
Qed.

(* ------------------------------------------------------------------ *)
(* the decision events depend on a solution only through its erasure *)
Definition ev_erase (e : event) : event := match e with Ev_D t d _ f => Ev_D t d 0 f | _ => e end.

Lemma recon_kids_erase lvs kids :
  (forall k s', In (k, s') kids -> forall toks, map ev_erase (recon_events lvs s' toks) = map ev_erase (recon_events lvs (erase s') toks)) ->
  map ev_erase (recon_kids lvs kids) = map ev_erase (recon_kids lvs (erase_kids kids)).
Proof.
  induction kids as [|[k s'] r IH]; intros H; [reflexivity|]. cbn [recon_kids erase_kids map fst snd]. rewrite !map_app. f_equal.
  - exact (H k s' (or_introl eq_refl) _).
  - apply IH. intros k2 s2 H2. exact (H k2 s2 (or_intror H2)).
Qed.

Theorem recon_erase lvs : forall s toks, map ev_erase (recon_events lvs s toks) = map ev_erase (recon_events lvs (erase s) toks).
Proof.
  apply (solution_ind' (fun s => forall toks, map ev_erase (recon_events lvs s toks) = map ev_erase (recon_events lvs (erase s) toks))).
  intros i c decs p l IH toks. rewrite erase_eq, !recon_events_eq. generalize true. revert toks.
  induction decs as [|t ds IHd]; intros toks first; [reflexivity|]. destruct toks as [|g toks]; [reflexivity|].
  cbn [map recon_go]. unfold erase_dec at 1 2 3. cbn [td_dec td_lll td_kids map ev_erase]. f_equal. rewrite !map_app. f_equal.
  - apply recon_kids_erase. intros k s' Hk. apply (IH t k s'); [left; reflexivity|exact Hk].
  - apply IHd. intros t' k s' Ht Hk. apply (IH t' k s'); [right; exact Ht|exact Hk].
Qed.

Corollary recon_erase_eq lvs sA sB toks : erase sA = erase sB -> map ev_erase (recon_events lvs sA toks) = map ev_erase (recon_events lvs sB toks).
Proof. intros E. rewrite (recon_erase lvs sA), (recon_erase lvs sB), E. reflexivity. Qed.

Lemma recon_all_D lvs : forall s toks, Forall (fun e => is_D e = true) (recon_events lvs s toks).
Proof.
  apply (solution_ind' (fun s => forall toks, Forall (fun e => is_D e = true) (recon_events lvs s toks))).
  intros i c decs p l IH toks. rewrite recon_events_eq.
  assert (Hgo : forall ds, (forall t k s', In t ds -> In (k, s') (td_kids t) -> forall toks0, Forall (fun e => is_D e = true) (recon_events lvs s' toks0)) ->
                forall toks0 first, Forall (fun e => is_D e = true) (recon_go lvs i c ds toks0 first)); [|exact (Hgo decs IH toks true)].
  clear. induction ds as [|t ds IHd]; intros IH toks first; [constructor|]. destruct toks as [|g toks]; [constructor|].
  cbn [recon_go]. constructor; [reflexivity|]. apply Forall_app. split.
  - assert (Hk : forall k s', In (k, s') (td_kids t) -> forall toks0, Forall (fun e => is_D e = true) (recon_events lvs s' toks0))
      by (intros k s' Hk; apply (IH t k s'); [left; reflexivity|exact Hk]).
    induction (td_kids t) as [|[k s'] r IHk]; [constructor|]. cbn [recon_kids fst snd]. apply Forall_app. split.
    + exact (Hk k s' (or_introl eq_refl) _).
    + apply IHk. intros k2 s2 H2. exact (Hk k2 s2 (or_intror H2)).
  - apply IHd. intros t' k s' Ht Hk. apply (IH t' k s'); [right; exact Ht|exact Hk].
Qed.

(* ------------------------------------------------------------------ *)
(* (b) the span list satisfies its recurrence for every well-formed list of views *)
Lemma psum_ext f g rs : (forall r lc k, In r rs -> tr_kids r = Some lc -> In k (lch_lines lc) -> f k = g k) -> psum f rs = psum g rs.
Proof.
  induction rs as [|r rest IH]; intros H; [reflexivity|].
  change (psum f (r :: rest)) with (rspan f r + psum f rest). change (psum g (r :: rest)) with (rspan g r + psum g rest).
  rewrite IH by (intros r' lc k Hr; apply H; right; exact Hr). f_equal. unfold rspan. f_equal.
  destruct (tr_kids r) as [lc|] eqn:E; [|reflexivity].
  assert (Hk : forall k, In k (lch_lines lc) -> f k = g k) by (intros k Hk; exact (H r lc k (or_introl eq_refl) E Hk)).
  induction (lch_lines lc) as [|k ks IHk]; [reflexivity|]. cbn [kspan fold_right]. fold (kspan f ks). fold (kspan g ks).
  rewrite (Hk k (or_introl eq_refl)), IHk by (intros k' Hk'; apply Hk; right; exact Hk'). reflexivity.
Qed.

Lemma span_list_rec : forall lvs s j lv, nth_error lvs j = Some lv ->
  (forall j' lv', nth_error lvs j' = Some lv' -> Forall (rec_later (s + j')) (lv_recs lv')) ->
  nth j (span_list lvs s) 0 = psum (fun k => nth (k - s) (span_list lvs s) 0) (lv_recs lv).
Proof.
  induction lvs as [|lv0 rest IH]; intros s j lv Hj Hlater; [destruct j; discriminate|]. cbn [span_list].
  set (sr := span_list rest (S s)).
  assert (Hshift : forall j' lv' r lc k, nth_error (lv0 :: rest) j' = Some lv' -> In r (lv_recs lv') -> tr_kids r = Some lc -> In k (lch_lines lc) ->
            nth (k - s) (psum (fun k0 => nth (k0 - S s) sr 0) (lv_recs lv0) :: sr) 0 = nth (k - S s) sr 0).
  { intros j' lv' r lc k Hj' Hr Hk Hin. pose proof (Hlater j' lv' Hj') as Hl. rewrite Forall_forall in Hl. specialize (Hl r Hr lc k Hk Hin).
    replace (k - s)%nat with (S (k - S s)) by lia. reflexivity. }
  destruct j as [|j]; cbn [nth_error] in Hj.
  - injection Hj as <-. cbn [nth]. symmetry. apply psum_ext. intros r lc k Hr Hk Hin. exact (Hshift O lv0 r lc k eq_refl Hr Hk Hin).
  - cbn [nth]. subst sr. rewrite (IH (S s) j lv Hj).
    + symmetry. apply psum_ext. intros r lc k Hr Hk Hin. exact (Hshift (S j) lv r lc k Hj Hr Hk Hin).
    + intros j' lv' Hj'. specialize (Hlater (S j') lv' Hj'). replace (S s + j')%nat with (s + S j')%nat by lia. exact Hlater.
Qed.

Theorem span_list_ok lvs : views_wf lvs -> forall i lv, nth_error lvs i = Some lv ->
  psum (fun k => nth k (span_list lvs 0) 0) (lv_recs lv) <= nth i (span_list lvs 0) 0.
Proof.
  intros Hwf i lv Hi. rewrite (span_list_rec lvs 0 i lv Hi) by (intros j' lv' Hj'; exact (proj2 (Hwf j' lv' Hj'))).
  rewrite (psum_ext (fun k => nth k (span_list lvs 0) 0) (fun k => nth (k - 0) (span_list lvs 0) 0)); [lia|].
  intros r lc k _ _ _. rewrite PeanoNat.Nat.sub_0_r. reflexivity.
Qed.
