(* Proofs/MLStringProofs.v — theorems about Model/MLString.v (multi-line string re-indentation). *)
From PasfmtVerif Require Import Model.MLString Model.MLValue.
Import ListNotations.

(* `byte`/`bytes` are transparent synonyms of N / list N, but `rewrite` does not see through them in
   implicit arguments (@cons byte vs @cons N); normalise before rewriting. *)
Ltac nb := unfold byte, bytes in *.

(* ================================================================== *)
(* 1. generic list facts *)

Lemma forallb_rev {A} (f : A -> bool) l : forallb f (rev l) = forallb f l.
Proof.
  induction l as [|a t IH]; [reflexivity|].
  simpl. rewrite forallb_app, IH. simpl. rewrite andb_true_r. apply andb_comm.
Qed.

Lemma forallb_impl {A} (f g : A -> bool) l :
  (forall a, f a = true -> g a = true) -> forallb f l = true -> forallb g l = true.
Proof.
  intros Hfg. induction l as [|a t IH]; [reflexivity|]. simpl.
  intros H. apply andb_true_iff in H as [Ha Ht]. rewrite (Hfg a Ha), (IH Ht). reflexivity.
Qed.

Lemma drop_while_all p x y : forallb p x = true -> ml_drop_while p (x ++ y) = ml_drop_while p y.
Proof.
  induction x as [|a t IH]; [reflexivity|]. simpl. intros H.
  apply andb_true_iff in H as [Ha Ht]. rewrite Ha. exact (IH Ht).
Qed.

Lemma drop_while_none p l : forallb (fun b => negb (p b)) l = true -> ml_drop_while p l = l.
Proof.
  destruct l as [|a t]; [reflexivity|]. simpl. intros H.
  apply andb_true_iff in H as [Ha _]. apply negb_true_iff in Ha. rewrite Ha. reflexivity.
Qed.

Lemma removelast_map {A B} (f : A -> B) l : removelast (map f l) = map f (removelast l).
Proof.
  induction l as [|a t IH]; [reflexivity|].
  destruct t as [|b t']; [reflexivity|].
  change (f a :: removelast (map f (b :: t')) = f a :: map f (removelast (b :: t'))).
  rewrite IH. reflexivity.
Qed.

Lemma last_map {A B} (f : A -> B) l d d' : l <> [] -> last (map f l) d' = f (last l d).
Proof.
  induction l as [|a t IH]; [intros H; contradiction|]. intros _.
  destruct t as [|b t']; [reflexivity|].
  change (last (map f (b :: t')) d' = f (last (b :: t') d)). apply IH. discriminate.
Qed.

Lemma last_cons_ne {A} (a : A) l d : l <> [] -> last (a :: l) d = last l d.
Proof. destruct l; [intros H; contradiction|reflexivity]. Qed.

Lemma last_opt_last {A} (l : list A) d x : last_opt l = Some x -> last l d = x.
Proof.
  induction l as [|a t IH]; [discriminate|].
  destruct t as [|b t']; [intros H; injection H as ->; reflexivity|].
  intros H. change (last (b :: t') d = x). apply IH. exact H.
Qed.

Lemma last_opt_none {A} (l : list A) : last_opt l = None -> l = [].
Proof.
  induction l as [|a t IH]; [reflexivity|].
  destruct t as [|b t']; [discriminate|]. intros H. specialize (IH H). discriminate.
Qed.

Lemma last_opt_some {A} (l : list A) d : l <> [] -> last_opt l = Some (last l d).
Proof.
  induction l as [|a t IH]; [intros H; contradiction|]. intros _.
  destruct t as [|b t']; [reflexivity|].
  change (last_opt (b :: t') = Some (last (b :: t') d)). apply IH. discriminate.
Qed.

Lemma tl_removelast_last {A} (l : list A) d :
  tl l <> [] -> tl l = removelast (tl l) ++ [last l d].
Proof.
  destruct l as [|a t]; [intros H; contradiction|]. simpl tl. intros H.
  rewrite (last_cons_ne a t d H). apply app_removelast_last. exact H.
Qed.

Lemma is_prefix_app p s : is_prefix p (p ++ s) = true.
Proof. apply is_prefix_spec. exists s. reflexivity. Qed.

Lemma skipn_app_length {A} (p s : list A) : skipn (length p) (p ++ s) = s.
Proof. induction p as [|a t IH]; [reflexivity|exact IH]. Qed.

Lemma is_prefix_firstn n l : is_prefix (firstn n l) l = true.
Proof.
  apply is_prefix_spec. exists (skipn n l). symmetry. apply firstn_skipn.
Qed.

Lemma is_prefix_nil_r p : is_prefix p [] = true -> p = [].
Proof. destruct p; [reflexivity|discriminate]. Qed.

Lemma ml_strip_prefix_app p s : ml_strip_prefix p (p ++ s) = Some s.
Proof. unfold ml_strip_prefix. rewrite is_prefix_app, skipn_app_length. reflexivity. Qed.

Lemma ml_strip_prefix_some p l s : ml_strip_prefix p l = Some s -> l = p ++ s.
Proof.
  unfold ml_strip_prefix. destruct (is_prefix p l) eqn:E; [|discriminate].
  apply is_prefix_spec in E as [r ->]. rewrite skipn_app_length. intros H; injection H as ->. reflexivity.
Qed.

(* ================================================================== *)
(* 2. terminators, trimming *)

Definition no_term (l : bytes) : bool := forallb (fun b => negb (is_term b)) l.
Definition all_term (l : bytes) : bool := forallb is_term l.

Lemma is_term_cases t : is_term t = true -> t = 13 \/ t = 10.
Proof.
  unfold is_term, is_cr, is_lf. intros H. apply orb_true_iff in H as [H|H]; apply N.eqb_eq in H; auto.
Qed.

Lemma is_term_blank t : is_term t = true -> (t <=? 32) = true.
Proof. intros H. apply N.leb_le. destruct (is_term_cases t H) as [-> | ->]; lia. Qed.

Lemma is_term_ne128 t : is_term t = true -> t <> 128.
Proof. intros H. destruct (is_term_cases t H) as [-> | ->]; lia. Qed.

Lemma is_lf_term t : is_lf t = true -> is_term t = true.
Proof. unfold is_term. intros ->. apply orb_true_r. Qed.

Lemma not_term_not_lf t : is_term t = false -> is_lf t = false.
Proof. unfold is_term. intros H. apply orb_false_iff in H as [_ H]. exact H. Qed.

Lemma no_term_app x y : no_term (x ++ y) = no_term x && no_term y.
Proof. apply forallb_app. Qed.

Lemma trim_shape (pre mid post : list N) :
  all_term pre = true -> no_term mid = true -> all_term post = true ->
  trim_by is_term (pre ++ mid ++ post) = mid.
Proof.
  intros Hpre Hmid Hpost. unfold trim_by, trim_start_by, trim_end_by.
  rewrite drop_while_all by exact Hpre.
  destruct mid as [|a mid'].
  - simpl app. rewrite <- (app_nil_r post), drop_while_all by exact Hpost. reflexivity.
  - pose proof Hmid as Hmid0.
    simpl in Hmid. apply andb_true_iff in Hmid as [Ha Hm]. apply negb_true_iff in Ha.
    rewrite <- app_comm_cons. simpl ml_drop_while. rewrite Ha.
    rewrite app_comm_cons, rev_app_distr.
    rewrite drop_while_all by (rewrite forallb_rev; exact Hpost).
    rewrite drop_while_none; [apply rev_involutive|].
    rewrite forallb_rev. exact Hmid0.
Qed.

Lemma trim_no_term (m : list N) : no_term m = true -> trim_by is_term m = m.
Proof.
  intros H. pose proof (trim_shape [] m [] eq_refl H eq_refl) as E.
  rewrite app_nil_r in E. exact E.
Qed.

Lemma trim_term_snoc (m : list N) (t : N) : no_term m = true -> is_term t = true -> trim_by is_term (m ++ [t]) = m.
Proof.
  intros H Ht. apply (trim_shape [] m [t] eq_refl H). simpl. rewrite Ht. reflexivity.
Qed.

Lemma trim_term_cons (t : N) (p : list N) : is_term t = true -> trim_by is_term (t :: p) = trim_by is_term p.
Proof. intros Ht. unfold trim_by, trim_start_by. simpl. rewrite Ht. reflexivity. Qed.

(* ================================================================== *)
(* 3. the custom line splitter *)

Lemma split_custom_nil_iff skip l : split_incl_custom skip l = [] <-> l = [].
Proof.
  split; [|intros ->; reflexivity].
  destruct l as [|c t]; [reflexivity|]. simpl.
  destruct (skip && is_lf c); [|destruct (is_term c)];
    try discriminate; destruct (split_incl_custom false t); discriminate.
Qed.

Lemma split_custom_term skip (m : list N) (t : N) (r : list N) :
  no_term m = true -> is_term t = true -> skip && is_nil m && is_lf t = false ->
  split_incl_custom skip (m ++ t :: r) = (m ++ [t]) :: split_incl_custom (is_cr t) r.
Proof.
  revert skip. induction m as [|a m IH]; intros skip Hm Ht Hc.
  - simpl in *. rewrite andb_true_r in Hc. rewrite Hc, Ht. reflexivity.
  - simpl in Hm. apply andb_true_iff in Hm as [Ha Hm]. apply negb_true_iff in Ha.
    simpl. rewrite (not_term_not_lf a Ha), andb_false_r, Ha.
    rewrite (IH false Hm Ht eq_refl). reflexivity.
Qed.

Lemma split_custom_no_term skip (m : list N) :
  no_term m = true -> split_incl_custom skip m = if is_nil m then [] else [m].
Proof.
  revert skip. induction m as [|a m IH]; intros skip Hm; [reflexivity|].
  simpl in Hm. apply andb_true_iff in Hm as [Ha Hm]. apply negb_true_iff in Ha.
  simpl. rewrite (not_term_not_lf a Ha), andb_false_r, Ha, (IH false Hm).
  destruct m; reflexivity.
Qed.

Lemma span_term (l : list N) :
  no_term l = true \/ exists m t r, l = m ++ t :: r /\ no_term m = true /\ is_term t = true.
Proof.
  induction l as [|a l IH]; [left; reflexivity|].
  destruct (is_term a) eqn:Ea.
  - right. exists [], a, l. repeat split. exact Ea.
  - destruct IH as [IH | (m & t & r & -> & Hm & Ht)].
    + left. simpl. rewrite Ea. exact IH.
    + right. exists (a :: m), t, r. repeat split; [|exact Ht]. simpl. rewrite Ea. exact Hm.
Qed.

(* the trimmed lines, with the closure state exposed *)
Definition lcs (skip : bool) (l : bytes) : list bytes :=
  map (trim_by is_term) (split_incl_custom skip l).

Lemma lines_custom_lcs l : lines_custom l = lcs false l.
Proof. reflexivity. Qed.

Lemma lcs_no_term skip (m : list N) : no_term m = true -> lcs skip m = if is_nil m then [] else [m].
Proof.
  intros H. unfold lcs. rewrite (split_custom_no_term skip m H).
  destruct m; [reflexivity|]. simpl map. rewrite (trim_no_term _ H). reflexivity.
Qed.

Lemma lcs_term skip (m : list N) (t : N) (r : list N) :
  no_term m = true -> is_term t = true -> skip && is_nil m && is_lf t = false ->
  lcs skip (m ++ t :: r) = m :: lcs (is_cr t) r.
Proof.
  intros Hm Ht Hc. unfold lcs. rewrite (split_custom_term skip m t r Hm Ht Hc).
  simpl map. rewrite (trim_term_snoc m t Hm Ht). reflexivity.
Qed.

Lemma lcs_skip_lf (c : N) (r : list N) :
  is_lf c = true -> lcs true (c :: r) = if is_nil r then [[]] else lcs false r.
Proof.
  intros Hc. unfold lcs. simpl split_incl_custom. rewrite Hc. simpl andb. cbv iota.
  destruct r as [|b r'].
  { simpl. nb. rewrite (trim_term_cons c [] (is_lf_term c Hc)). reflexivity. }
  destruct (split_incl_custom false (b :: r')) as [|p ps] eqn:E.
  - apply split_custom_nil_iff in E. discriminate.
  - simpl. nb. rewrite (trim_term_cons c p (is_lf_term c Hc)). reflexivity.
Qed.

(* induction principle following the three equations above *)
Lemma lcs_ind (P : bool -> bytes -> Prop) :
  (forall skip m, no_term m = true -> P skip m) ->
  (forall (c : N) (r : list N), is_lf c = true -> P false r -> P true (c :: r)) ->
  (forall skip (m : list N) (t : N) (r : list N), no_term m = true -> is_term t = true ->
      skip && is_nil m && is_lf t = false -> P (is_cr t) r -> P skip (m ++ t :: r)) ->
  forall skip l, P skip l.
Proof.
  intros H1 H2 H3 skip l.
  remember (length l) as n eqn:Hn. revert skip l Hn.
  induction n as [n IH] using lt_wf_ind. intros skip l Hn.
  destruct (span_term l) as [Hl | (m & t & r & -> & Hm & Ht)]; [apply H1; exact Hl|].
  assert (Hr : (length r < n)%nat) by (rewrite Hn, app_length; simpl; lia).
  destruct (skip && is_nil m && is_lf t) eqn:Ec.
  - apply andb_true_iff in Ec as [Ec Elf]. apply andb_true_iff in Ec as [-> Enil].
    destruct m; [|discriminate]. simpl app. apply H2; [exact Elf|].
    apply (IH (length r) Hr). reflexivity.
  - apply H3; try assumption. apply (IH (length r) Hr). reflexivity.
Qed.

(* F1: lines contain no terminators *)
Lemma lcs_lines_no_term skip l : forallb no_term (lcs skip l) = true.
Proof.
  revert skip l. apply lcs_ind.
  - intros skip m Hm. rewrite (lcs_no_term skip m Hm). destruct m; [reflexivity|].
    simpl is_nil. cbv iota. cbn [forallb]. rewrite Hm. reflexivity.
  - intros c r Hc IH. rewrite (lcs_skip_lf c r Hc). destruct r; [reflexivity|exact IH].
  - intros skip m t r Hm Ht Hc IH. rewrite (lcs_term skip m t r Hm Ht Hc).
    cbn [forallb]. rewrite Hm, IH. reflexivity.
Qed.

Lemma lines_custom_no_term l : forallb no_term (lines_custom l) = true.
Proof. apply lcs_lines_no_term. Qed.

(* F2: the non-blank projection sees only the lines *)
Lemma lcs_strip skip l : concat (map strip (lcs skip l)) = strip l.
Proof.
  revert skip l. apply lcs_ind.
  - intros skip m Hm. rewrite (lcs_no_term skip m Hm). destruct m; [reflexivity|].
    simpl is_nil. cbv iota. cbn [map concat]. apply app_nil_r.
  - intros c r Hc IH. rewrite (lcs_skip_lf c r Hc).
    rewrite (strip_cons_blank c r (is_term_blank c (is_lf_term c Hc))).
    destruct r; [reflexivity|exact IH].
  - intros skip m t r Hm Ht Hc IH. rewrite (lcs_term skip m t r Hm Ht Hc).
    cbn [map concat]. rewrite IH.
    rewrite strip_app_no80 by (simpl; apply is_term_ne128; exact Ht).
    rewrite (strip_cons_blank t r (is_term_blank t Ht)). reflexivity.
Qed.

Lemma lines_custom_strip l : concat (map strip (lines_custom l)) = strip l.
Proof. apply lcs_strip. Qed.

Lemma lines_custom_nil_iff l : lines_custom l = [] <-> l = [].
Proof.
  unfold lines_custom. split.
  - intros H. apply map_eq_nil in H. apply split_custom_nil_iff in H. exact H.
  - intros ->. reflexivity.
Qed.

(* ================================================================== *)
(* 4. joining lines with a newline string, and splitting the result again *)

Definition join (nl : list N) (ls : list (list N)) : list N :=
  match ls with
  | [] => []
  | l0 :: rest => l0 ++ concat (map (fun l => nl ++ l) rest)
  end.

Lemma join_cons2 (nl l0 l1 : list N) (rest : list (list N)) : join nl (l0 :: l1 :: rest) = l0 ++ nl ++ join nl (l1 :: rest).
Proof. simpl. rewrite <- app_assoc. reflexivity. Qed.

Definition nl_ok (nl : list N) : Prop := nl = [10] \/ nl = [13; 10].

(* F3 *)
Lemma lines_custom_join (nl : list N) (ls : list (list N)) :
  nl_ok nl -> forallb no_term ls = true -> last ls [] <> [] ->
  lines_custom (join nl ls) = ls.
Proof.
  intros Hnl. rewrite lines_custom_lcs.
  induction ls as [|l0 rest IH]; [intros _ H; contradiction H; reflexivity|].
  intros Hnt Hlast. cbn [forallb] in Hnt. apply andb_true_iff in Hnt as [H0 Hrest].
  destruct rest as [|l1 rest'].
  - simpl join. rewrite app_nil_r. rewrite (lcs_no_term false l0 H0).
    destruct l0; [contradiction Hlast; reflexivity|reflexivity].
  - rewrite join_cons2.
    assert (IH' : lcs false (join nl (l1 :: rest')) = l1 :: rest') by (apply IH; assumption).
    destruct Hnl as [-> | ->].
    + change ([10] ++ join [10] (l1 :: rest')) with (10 :: join [10] (l1 :: rest')).
      rewrite (lcs_term false l0 10 _ H0 eq_refl eq_refl).
      change (is_cr 10) with false. rewrite IH'. reflexivity.
    + change ([13; 10] ++ join [13; 10] (l1 :: rest')) with (13 :: 10 :: join [13; 10] (l1 :: rest')).
      rewrite (lcs_term false l0 13 _ H0 eq_refl eq_refl).
      change (is_cr 13) with true. rewrite (lcs_skip_lf 10 _ eq_refl).
      destruct (join [13; 10] (l1 :: rest')) eqn:Ej; [discriminate IH'|].
      simpl is_nil. cbv iota. rewrite IH'. reflexivity.
Qed.

(* ================================================================== *)
(* 5. count_leading_whitespace *)

(* clw: see Model/MLValue.v *)
Notation clw := count_leading_whitespace.

Lemma clw_ind (P : list N -> Prop) :
  P [] ->
  (forall (a : N) (t : list N), (a <=? 32) = true -> P t -> P (a :: t)) ->
  (forall (a b c : N) (t : list N),
      (a <=? 32) = false -> is_u3000 a b c = true -> P t -> P (a :: b :: c :: t)) ->
  (forall (a : N) (t : list N), (a <=? 32) = false -> clw (a :: t) = O -> P (a :: t)) ->
  forall l, P l.
Proof.
  intros H0 H1 H2 H3 l. remember (length l) as n eqn:Hn. revert l Hn.
  induction n as [n IH] using lt_wf_ind. intros l Hn.
  destruct l as [|a t]; [exact H0|].
  destruct (a <=? 32) eqn:Ea.
  - apply H1; [exact Ea|]. apply (IH (length t)); [simpl in Hn; lia|reflexivity].
  - destruct t as [|b [|c t']].
    + apply H3; [exact Ea|]. simpl. rewrite Ea. reflexivity.
    + apply H3; [exact Ea|]. simpl. rewrite Ea. reflexivity.
    + destruct (is_u3000 a b c) eqn:Eu.
      * apply H2; [exact Ea|exact Eu|]. apply (IH (length t')); [simpl in Hn; lia|reflexivity].
      * apply H3; [exact Ea|]. simpl. rewrite Ea, Eu. reflexivity.
Qed.

Lemma clw_blank_cons (a : N) (t : list N) : (a <=? 32) = true -> clw (a :: t) = S (clw t).
Proof. intros H. simpl. rewrite H. reflexivity. Qed.

Lemma clw_u3000_cons (a b c : N) (t : list N) :
  (a <=? 32) = false -> is_u3000 a b c = true -> clw (a :: b :: c :: t) = S (S (S (clw t))).
Proof. intros H Hu. simpl. rewrite H, Hu. reflexivity. Qed.

Lemma leading_ws_blank_cons (a : N) (t : list N) :
  (a <=? 32) = true -> leading_ws (a :: t) = a :: leading_ws t.
Proof. intros H. unfold leading_ws. rewrite (clw_blank_cons a t H). reflexivity. Qed.

Lemma leading_ws_u3000_cons (a b c : N) (t : list N) :
  (a <=? 32) = false -> is_u3000 a b c = true ->
  leading_ws (a :: b :: c :: t) = a :: b :: c :: leading_ws t.
Proof. intros H Hu. unfold leading_ws. rewrite (clw_u3000_cons a b c t H Hu). reflexivity. Qed.

Lemma clw_le (l : list N) : (clw l <= length l)%nat.
Proof.
  induction l as [|a t IH|a b c t Ea Eu IH|a t Ea E0] using clw_ind.
  - simpl. lia.
  - rewrite clw_blank_cons by assumption. simpl. lia.
  - rewrite clw_u3000_cons by assumption. simpl. lia.
  - rewrite E0. lia.
Qed.

Lemma leading_ws_length (l : list N) : length (leading_ws l) = clw l.
Proof. unfold leading_ws. apply firstn_length_le. apply clw_le. Qed.

Lemma leading_ws_split (l : list N) : l = leading_ws l ++ skipn (clw l) l.
Proof. unfold leading_ws. symmetry. apply firstn_skipn. Qed.

(* the leading whitespace vanishes under the non-blank projection, whatever follows *)
Lemma leading_ws_strip (l s : list N) : strip (leading_ws l ++ s) = strip s.
Proof.
  induction l as [|a t Ea IH|a b c t Ea Eu IH|a t Ea E0] using clw_ind.
  - reflexivity.
  - rewrite leading_ws_blank_cons by assumption. rewrite <- app_comm_cons.
    rewrite strip_cons_blank by assumption. exact IH.
  - rewrite leading_ws_u3000_cons by assumption. rewrite <- !app_comm_cons.
    rewrite strip_unfold, Ea. unfold is_u3000 in Eu. rewrite Eu. exact IH.
  - unfold leading_ws. rewrite E0. reflexivity.
Qed.

Lemma leading_ws_all_blank (l : list N) : strip (leading_ws l) = [].
Proof. rewrite <- (app_nil_r (leading_ws l)). apply leading_ws_strip. Qed.

Lemma clw_skipn (l : list N) : clw (skipn (clw l) l) = O.
Proof.
  induction l as [|a t Ea IH|a b c t Ea Eu IH|a t Ea E0] using clw_ind.
  - reflexivity.
  - rewrite clw_blank_cons by assumption. exact IH.
  - rewrite clw_u3000_cons by assumption. exact IH.
  - rewrite E0. exact E0.
Qed.

Lemma clw_blank_app (x y : list N) : ascii_blank x -> clw (x ++ y) = (length x + clw y)%nat.
Proof.
  induction 1 as [|a t Ha Ht IH]; [reflexivity|].
  rewrite <- app_comm_cons, clw_blank_cons by exact Ha. rewrite IH. reflexivity.
Qed.

Lemma firstn_app_length {A} (x y : list A) : firstn (length x) (x ++ y) = x.
Proof. induction x as [|a t IH]; [reflexivity|]. simpl. rewrite IH. reflexivity. Qed.

(* leading whitespace of  (ASCII blanks) ++ (text after some leading whitespace)  is the blanks *)
Lemma leading_ws_blank_app (x l : list N) :
  ascii_blank x -> leading_ws (x ++ skipn (clw l) l) = x.
Proof.
  intros Hx. unfold leading_ws. rewrite (clw_blank_app _ _ Hx), clw_skipn, Nat.add_0_r.
  apply firstn_app_length.
Qed.

(* ================================================================== *)
(* 6. the per-line rewrite *)

Definition out_line (indent base l : list N) : list N :=
  match rewrite_line indent base l with Some x => x | None => [] end.

Lemma rewrite_line_spec (indent base l : list N) :
  rewrite_line indent base l = if line_ok base l then Some (out_line indent base l) else None.
Proof.
  unfold out_line, rewrite_line, line_ok, ml_strip_prefix.
  destruct (is_prefix base l); [reflexivity|]. destruct (is_prefix l base); reflexivity.
Qed.

Lemma rewrite_lines_spec (nl indent base : list N) (ls : list (list N)) :
  rewrite_lines nl indent base ls =
  if forallb (line_ok base) ls
  then Some (concat (map (fun l => nl ++ out_line indent base l) ls)) else None.
Proof.
  induction ls as [|l t IH]; [reflexivity|].
  cbn [rewrite_lines forallb map concat]. rewrite rewrite_line_spec.
  destruct (line_ok base l); [|reflexivity]. rewrite IH.
  destruct (forallb (line_ok base) t); [|reflexivity].
  simpl andb. cbv iota. rewrite <- app_assoc. reflexivity.
Qed.

Lemma try_rewrite_spec rs ind cont (c base : list N) :
  try_rewrite_string rs ind cont c base =
  match lines_custom c with
  | [] => Some []
  | l0 :: rest =>
      if forallb (line_ok base) rest
      then Some (join (rs_newline rs) (l0 :: map (out_line (ml_indent rs ind cont) base) rest))
      else None
  end.
Proof.
  unfold try_rewrite_string. destruct (lines_custom c) as [|l0 rest]; [reflexivity|].
  rewrite rewrite_lines_spec. destruct (forallb (line_ok base) rest); [|reflexivity].
  unfold join. rewrite map_map. reflexivity.
Qed.

Lemma out_line_eq (indent base l : list N) :
  line_ok base l = true ->
  out_line indent base l =
  if is_nil (strip_indent base l) then [] else indent ++ strip_indent base l.
Proof.
  unfold out_line, rewrite_line, line_ok, strip_indent, ml_strip_prefix.
  destruct (is_prefix base l); [reflexivity|].
  destruct (is_prefix l base); [reflexivity|discriminate].
Qed.

Lemma strip_indent_nil (indent : list N) : strip_indent indent [] = [].
Proof.
  unfold strip_indent, ml_strip_prefix. destruct (is_prefix indent []) eqn:E.
  - apply is_prefix_nil_r in E. subst indent. reflexivity.
  - reflexivity.
Qed.

Lemma strip_indent_app (indent s : list N) : strip_indent indent (indent ++ s) = s.
Proof. unfold strip_indent. rewrite ml_strip_prefix_app. reflexivity. Qed.

(* the heart of value preservation: re-indenting a line does not change it relative to its
   indentation *)
Lemma strip_indent_out_line (indent base l : list N) :
  line_ok base l = true ->
  strip_indent indent (out_line indent base l) = strip_indent base l.
Proof.
  intros Hok. rewrite (out_line_eq indent base l Hok).
  destruct (strip_indent base l) as [|a s]; [apply strip_indent_nil|].
  simpl is_nil. cbv iota. apply strip_indent_app.
Qed.

Lemma out_line_shape (indent base l : list N) :
  line_ok base l = true ->
  out_line indent base l = [] \/ exists s, s <> [] /\ out_line indent base l = indent ++ s.
Proof.
  intros Hok. rewrite (out_line_eq indent base l Hok).
  destruct (strip_indent base l) as [|a s]; [left; reflexivity|].
  right. exists (a :: s). split; [discriminate|reflexivity].
Qed.

(* a line that already has the target shape is a fixed point *)
Lemma out_line_fixed (indent l : list N) :
  (l = [] \/ exists s, s <> [] /\ l = indent ++ s) ->
  line_ok indent l = true /\ out_line indent indent l = l.
Proof.
  intros [-> | (s & Hs & ->)].
  - split; [unfold line_ok; simpl; apply orb_true_r|].
    unfold out_line, rewrite_line, ml_strip_prefix. destruct (is_prefix indent []) eqn:E.
    + apply is_prefix_nil_r in E. subst indent. reflexivity.
    + reflexivity.
  - split; [unfold line_ok; rewrite is_prefix_app; reflexivity|].
    unfold out_line, rewrite_line. rewrite ml_strip_prefix_app.
    destruct s; [contradiction Hs; reflexivity|reflexivity].
Qed.

Lemma out_line_closing (indent cl : list N) :
  Nat.ltb (clw cl) (length cl) = true ->
  line_ok (leading_ws cl) cl = true /\
  out_line indent (leading_ws cl) cl = indent ++ skipn (clw cl) cl /\
  skipn (clw cl) cl <> [].
Proof.
  intros H. apply Nat.ltb_lt in H.
  assert (Hs : skipn (clw cl) cl <> []).
  { intros E. apply (f_equal (@length _)) in E. rewrite skipn_length in E. simpl in E. lia. }
  assert (E : ml_strip_prefix (leading_ws cl) cl = Some (skipn (clw cl) cl)).
  { pose proof (ml_strip_prefix_app (leading_ws cl) (skipn (clw cl) cl)) as E.
    rewrite <- leading_ws_split in E. exact E. }
  split; [|split; [|exact Hs]].
  - unfold line_ok. unfold leading_ws. rewrite is_prefix_firstn. reflexivity.
  - unfold out_line, rewrite_line. rewrite E.
    destruct (skipn (clw cl) cl); [contradiction Hs; reflexivity|reflexivity].
Qed.

(* ================================================================== *)
(* 7. settings *)

Definition sp_tab (b : N) : bool := (b =? 32) || (b =? 9).

Definition rs_ok (rs : rsettings) : Prop :=
  nl_ok (rs_newline rs) /\
  forallb sp_tab (rs_indent rs) = true /\ forallb sp_tab (rs_cont rs) = true.

Lemma sp_tab_blank b : sp_tab b = true -> (b <=? 32) = true.
Proof.
  unfold sp_tab. intros H. apply N.leb_le.
  apply orb_true_iff in H as [H|H]; apply N.eqb_eq in H; lia.
Qed.

Lemma sp_tab_not_term b : sp_tab b = true -> negb (is_term b) = true.
Proof.
  unfold sp_tab, is_term, is_cr, is_lf. intros H. apply negb_true_iff, orb_false_iff.
  apply orb_true_iff in H as [H|H]; apply N.eqb_eq in H; subst b; split; reflexivity.
Qed.

Lemma forallb_repeat_app {A} (f : A -> bool) n (s : list A) :
  forallb f s = true -> forallb f (repeat_app n s) = true.
Proof.
  intros H. induction n as [|n IH]; [reflexivity|]. simpl. rewrite forallb_app, H, IH. reflexivity.
Qed.

Lemma ml_indent_sp_tab rs ind cont :
  rs_ok rs -> forallb sp_tab (ml_indent rs ind cont) = true.
Proof.
  intros (_ & Hi & Hc). unfold ml_indent, nrepeat. rewrite forallb_app.
  rewrite (forallb_repeat_app _ _ _ Hi), (forallb_repeat_app _ _ _ Hc). reflexivity.
Qed.

Lemma forallb_Forall {A} (f : A -> bool) l : forallb f l = true -> Forall (fun a => f a = true) l.
Proof.
  induction l as [|a t IH]; [constructor|]. simpl. intros H.
  apply andb_true_iff in H as [Ha Ht]. constructor; [exact Ha|exact (IH Ht)].
Qed.

Lemma ml_indent_blank rs ind cont : rs_ok rs -> ascii_blank (ml_indent rs ind cont).
Proof.
  intros H. unfold ascii_blank.
  eapply Forall_impl; [|apply forallb_Forall; exact (ml_indent_sp_tab rs ind cont H)].
  intros a Ha. apply sp_tab_blank. exact Ha.
Qed.

Lemma ml_indent_no_term rs ind cont : rs_ok rs -> no_term (ml_indent rs ind cont) = true.
Proof.
  intros H. unfold no_term. eapply forallb_impl; [|exact (ml_indent_sp_tab rs ind cont H)].
  apply sp_tab_not_term.
Qed.

(* ================================================================== *)
(* 8. the literal as Delphi sees it *)

(* what the rewrite does to one line after the first *)
Definition reindent_line (indent base l : list N) : list N :=
  let s := strip_indent base l in if is_nil s then [] else indent ++ s.

Lemma forallb_map_impl {A B} (f : A -> bool) (g : B -> bool) (h : A -> B) l :
  (forall a, f a = true -> g (h a) = true) -> forallb f l = true -> forallb g (map h l) = true.
Proof.
  intros Hfg. induction l as [|a t IH]; [reflexivity|]. simpl. intros H.
  apply andb_true_iff in H as [Ha Ht]. rewrite (Hfg a Ha), (IH Ht). reflexivity.
Qed.

Lemma no_term_skipn n (l : list N) : no_term l = true -> no_term (skipn n l) = true.
Proof.
  intros H. rewrite <- (firstn_skipn n l) in H. rewrite no_term_app in H.
  apply andb_true_iff in H as [_ H]. exact H.
Qed.

Lemma no_term_strip_indent (base l : list N) : no_term l = true -> no_term (strip_indent base l) = true.
Proof.
  intros H. unfold strip_indent, ml_strip_prefix.
  destruct (is_prefix base l); [apply no_term_skipn; exact H|].
  destruct (is_prefix l base); [reflexivity|exact H].
Qed.

Lemma no_term_out_line (indent base l : list N) :
  no_term indent = true -> line_ok base l = true -> no_term l = true ->
  no_term (out_line indent base l) = true.
Proof.
  intros Hi Hok Hl. rewrite (out_line_eq indent base l Hok).
  destruct (is_nil (strip_indent base l)); [reflexivity|].
  rewrite no_term_app, Hi. apply no_term_strip_indent. exact Hl.
Qed.

Lemma forallb_and {A} (f g : A -> bool) l :
  forallb f l = true -> forallb g l = true -> forallb (fun a => f a && g a) l = true.
Proof.
  induction l as [|a t IH]; [reflexivity|]. simpl. intros Hf Hg.
  apply andb_true_iff in Hf as [Hfa Hft]. apply andb_true_iff in Hg as [Hga Hgt].
  rewrite Hfa, Hga, (IH Hft Hgt). reflexivity.
Qed.

Lemma in_removelast {A} (a : A) l : In a (removelast l) -> In a l.
Proof.
  intros H. destruct l as [|b t]; [contradiction|].
  rewrite (app_removelast_last b (l:=b :: t)) by discriminate.
  apply in_or_app. left. exact H.
Qed.

(* The structure of a successful rewrite against the closing line's own indentation. *)
Lemma rewrite_structure rs ind cont (c c' : list N) :
  rs_ok rs -> closing_has_text c = true ->
  try_rewrite_string rs ind cont c (closing_indent c) = Some c' ->
  exists l0 rest,
    lines_custom c = l0 :: rest /\
    forallb (line_ok (closing_indent c)) rest = true /\
    c' = join (rs_newline rs) (l0 :: map (out_line (ml_indent rs ind cont) (closing_indent c)) rest) /\
    lines_custom c' = l0 :: map (out_line (ml_indent rs ind cont) (closing_indent c)) rest /\
    closing_line c' <> [].
Proof.
  intros Hrs Htext H. rewrite try_rewrite_spec in H.
  pose proof (lines_custom_no_term c) as Hnt.
  unfold closing_has_text in Htext.
  set (base := closing_indent c) in *. set (indent := ml_indent rs ind cont) in *.
  destruct (lines_custom c) as [|l0 rest] eqn:E.
  { unfold closing_line in Htext. rewrite E in Htext. discriminate. }
  destruct (forallb (line_ok base) rest) eqn:Eok; [|discriminate].
  injection H as <-. exists l0, rest. split; [reflexivity|]. split; [exact Eok|]. split; [reflexivity|].
  cbn [forallb] in Hnt. apply andb_true_iff in Hnt as [Hnt0 Hntr].
  nb. assert (Hlast : last (l0 :: map (out_line indent base) rest) [] <> []).
  { destruct rest as [|l1 rest'].
    + simpl. unfold closing_line in Htext. rewrite E in Htext. simpl in Htext.
      intros ->. discriminate.
    + rewrite last_cons_ne by discriminate.
      rewrite (last_map (out_line indent base) (l1 :: rest') [] []) by discriminate.
      nb. assert (Ecl : last (l1 :: rest') [] = closing_line c).
      { unfold closing_line. rewrite E. reflexivity. }
      rewrite Ecl. unfold base, closing_indent.
      destruct (out_line_closing indent (closing_line c) Htext) as (_ & -> & Hs).
      intros Habs. apply app_eq_nil in Habs as [_ Habs]. exact (Hs Habs). }
  assert (Hlc : lines_custom (join (rs_newline rs) (l0 :: map (out_line indent base) rest))
                = l0 :: map (out_line indent base) rest).
  { apply (lines_custom_join (rs_newline rs) (l0 :: map (out_line indent base) rest));
      [exact (proj1 Hrs)| |exact Hlast].
    cbn [forallb]. rewrite Hnt0. simpl andb.
    apply (forallb_map_impl (fun l => line_ok base l && no_term l)).
    + intros l Hl. apply andb_true_iff in Hl as [Hl1 Hl2].
      apply no_term_out_line; [apply ml_indent_no_term; exact Hrs|exact Hl1|exact Hl2].
    + apply forallb_and; assumption. }
  split; [exact Hlc|].
  change (last (lines_custom (join (rs_newline rs) (l0 :: map (out_line indent base) rest))) [] <> []).
  rewrite Hlc. exact Hlast.
Qed.

(* ------------------------------------------------------------------ *)
(* rewrite_reindented *)

(* After a successful rewrite:
   - c' is exactly its lines joined by rs_newline, and no line contains CR or LF
     (so every line terminator in c' is rs_newline);
   - the first line is unchanged and the number of lines is unchanged;
   - every later line is the old line re-indented: empty relative to the old indentation -> empty,
     otherwise  ind * rs_indent ++ cont * rs_cont ++ (old line relative to the old indentation);
   - the closing line's leading whitespace is exactly that new indentation. *)
Theorem rewrite_reindented rs ind cont (c c' : list N) :
  rs_ok rs -> closing_has_text c = true ->
  try_rewrite_string rs ind cont c (closing_indent c) = Some c' ->
  let indent := nrepeat ind (rs_indent rs) ++ nrepeat cont (rs_cont rs) in
  c' = join (rs_newline rs) (lines_custom c') /\
  forallb no_term (lines_custom c') = true /\
  hd [] (lines_custom c') = hd [] (lines_custom c) /\
  tl (lines_custom c') = map (reindent_line indent (closing_indent c)) (tl (lines_custom c)) /\
  Forall (fun l' => l' = [] \/ exists s, s <> [] /\ l' = indent ++ s) (tl (lines_custom c')) /\
  (tl (lines_custom c) <> [] -> closing_indent c' = indent).
Proof.
  intros Hrs Htext H indent.
  destruct (rewrite_structure rs ind cont c c' Hrs Htext H) as (l0 & rest & E & Hok & Hc' & E' & _). nb.
  change (nrepeat ind (rs_indent rs) ++ nrepeat cont (rs_cont rs)) with (ml_indent rs ind cont) in indent.
  fold indent in Hc', E'.
  split; [rewrite E'; exact Hc'|].
  split; [apply lines_custom_no_term|].
  split; [rewrite E', E; reflexivity|].
  assert (Hmap : map (out_line indent (closing_indent c)) rest =
                 map (reindent_line indent (closing_indent c)) rest).
  { apply map_ext_in. intros l Hl. apply out_line_eq.
    rewrite forallb_forall in Hok. apply Hok. exact Hl. }
  split; [rewrite E', E; exact Hmap|].
  split.
  - rewrite E'. simpl tl. apply Forall_forall. intros l' Hl'.
    apply in_map_iff in Hl' as (l & <- & Hl). apply out_line_shape.
    rewrite forallb_forall in Hok. apply Hok. exact Hl.
  - rewrite E. simpl tl. intros Hrest.
    unfold closing_indent at 1, closing_line at 1. rewrite E'. nb.
    rewrite last_cons_ne by (intros Hm; apply map_eq_nil in Hm; exact (Hrest Hm)).
    rewrite (last_map (out_line indent (closing_indent c)) rest [] [] Hrest).
    assert (Ecl : last rest [] = closing_line c).
    { unfold closing_line. rewrite E. symmetry. apply last_cons_ne. exact Hrest. }
    rewrite Ecl. unfold closing_indent.
    destruct (out_line_closing indent (closing_line c) Htext) as (_ & -> & _).
    apply leading_ws_blank_app. apply ml_indent_blank. exact Hrs.
Qed.

(* ------------------------------------------------------------------ *)
(* rewrite_value_preserved *)

Theorem rewrite_value_preserved rs ind cont (c c' : list N) :
  rs_ok rs -> closing_has_text c = true ->
  try_rewrite_string rs ind cont c (closing_indent c) = Some c' ->
  ml_value c' = ml_value c.
Proof.
  intros Hrs Htext H.
  destruct (rewrite_reindented rs ind cont c c' Hrs Htext H) as (_ & _ & _ & Htl & _ & Hci).
  destruct (rewrite_structure rs ind cont c c' Hrs Htext H) as (l0 & rest & E & Hok & _ & E' & _). nb.
  unfold ml_value, interior. rewrite E', E. simpl tl.
  destruct rest as [|l1 rest']; [reflexivity|].
  rewrite Hci by (rewrite E; discriminate).
  rewrite removelast_map, map_map. apply map_ext_in. intros l Hl.
  apply strip_indent_out_line. rewrite forallb_forall in Hok. apply Hok.
  apply in_removelast. exact Hl.
Qed.

(* ------------------------------------------------------------------ *)
(* rewrite_idempotent (string level) *)

Theorem rewrite_idempotent rs ind cont (c c' : list N) :
  rs_ok rs -> closing_has_text c = true ->
  try_rewrite_string rs ind cont c (closing_indent c) = Some c' ->
  try_rewrite_string rs ind cont c' (closing_indent c') = Some c'.
Proof.
  intros Hrs Htext H.
  destruct (rewrite_reindented rs ind cont c c' Hrs Htext H) as (Hj & _ & _ & _ & Hshape & Hci).
  destruct (rewrite_structure rs ind cont c c' Hrs Htext H) as (l0 & rest & E & Hok & _ & E' & _). nb.
  rewrite try_rewrite_spec. rewrite Hj at 2. rewrite E' in *. simpl tl in *.
  destruct rest as [|l1 rest']; [reflexivity|].
  rewrite Hci by (rewrite E; discriminate).
  change (nrepeat ind (rs_indent rs) ++ nrepeat cont (rs_cont rs)) with (ml_indent rs ind cont) in *.
  set (indent := ml_indent rs ind cont) in *.
  set (rest2 := map (out_line indent (closing_indent c)) (l1 :: rest')) in *.
  assert (Hfix : forall l, In l rest2 -> line_ok indent l = true /\ out_line indent indent l = l).
  { intros l Hl. apply out_line_fixed. rewrite Forall_forall in Hshape. apply Hshape. exact Hl. }
  assert (Hall : forallb (line_ok indent) rest2 = true).
  { apply forallb_forall. intros l Hl. apply (Hfix l Hl). }
  rewrite Hall. f_equal. f_equal. f_equal.
  rewrite <- (map_id rest2) at 2. apply map_ext_in. intros l Hl. apply (Hfix l Hl).
Qed.

(* ------------------------------------------------------------------ *)
(* rewrite_some_iff_eligible (string level) *)

Lemma try_rewrite_some_iff rs ind cont (c base : list N) :
  (exists c', try_rewrite_string rs ind cont c base = Some c') <->
  forallb (line_ok base) (tl (lines_custom c)) = true.
Proof.
  rewrite try_rewrite_spec. destruct (lines_custom c) as [|l0 rest].
  - split; [reflexivity|]. intros _. exists []. reflexivity.
  - simpl tl. destruct (forallb (line_ok base) rest).
    + split; [reflexivity|]. intros _. eexists. reflexivity.
    + split; [intros [c' H]; discriminate|discriminate].
Qed.

Lemma tl_ok_interior (c : list N) :
  forallb (line_ok (closing_indent c)) (tl (lines_custom c)) =
  forallb (line_ok (closing_indent c)) (interior c).
Proof.
  unfold interior. destruct (tl (lines_custom c)) as [|l1 rest'] eqn:E; [reflexivity|].
  assert (Hne : tl (lines_custom c) <> []) by (rewrite E; discriminate).
  rewrite <- E. rewrite (tl_removelast_last (lines_custom c) [] Hne) at 1.
  rewrite forallb_app. cbn [forallb]. fold (closing_line c).
  unfold closing_indent at 2, line_ok at 2, leading_ws. rewrite is_prefix_firstn.
  simpl. rewrite andb_true_r. reflexivity.
Qed.

Definition quote_check (cl : list N) : bool :=
  Nat.eqb (clw cl) (length (trim_end_by is_quote cl)).

(* try_rewrite_string against the closing line's indentation succeeds exactly on literals whose
   lines all fit that indentation; with the closing-line shape test this is `eligible`. *)
Theorem try_rewrite_some_iff_eligible rs ind cont (c : list N) :
  quote_check (closing_line c) = true ->
  ((exists c', try_rewrite_string rs ind cont c (closing_indent c) = Some c') <-> eligible c = true).
Proof.
  intros Hq. rewrite try_rewrite_some_iff, tl_ok_interior. unfold eligible.
  unfold quote_check in Hq. rewrite Hq. reflexivity.
Qed.

(* ================================================================== *)
(* 9. the per-token logic *)

(* `lines_custom(tok.get_content()).last().unwrap()` panics only on the empty content *)
Lemma last_custom_line_nonempty (c : list N) : c <> [] -> last_opt (lines_custom c) <> None.
Proof.
  intros Hc H. apply last_opt_none in H. apply lines_custom_nil_iff in H. exact (Hc H).
Qed.

Lemma rewrite_ml_token_nil rs ind cont : rewrite_ml_token rs ind cont [] = None.
Proof. reflexivity. Qed.

(* the base indentation computed by the token logic is the closing line's indentation *)
Lemma token_unfold rs ind cont (c : list N) :
  rewrite_ml_token rs ind cont c =
  if quote_check (closing_line c) then
    match try_rewrite_string rs ind cont c (closing_indent c) with
    | Some n => if bytes_eqb n c then None else Some n
    | None => None
    end
  else None.
Proof.
  destruct c as [|c0 ct]; [reflexivity|].
  unfold rewrite_ml_token.
  rewrite (last_opt_some (lines_custom (c0 :: ct)) [])
    by (rewrite lines_custom_nil_iff; discriminate).
  fold (closing_line (c0 :: ct)).
  unfold ml_base_of_last_line. rewrite leading_ws_length.
  unfold quote_check, closing_indent.
  destruct (Nat.eqb (clw (closing_line (c0 :: ct)))
                    (length (trim_end_by is_quote (closing_line (c0 :: ct))))); reflexivity.
Qed.

(* rewrite_some_iff_eligible: the token is rewritten exactly when it is eligible and the
   re-indented text differs from the content. *)
Theorem rewrite_some_iff_eligible rs ind cont (c c' : list N) :
  rewrite_ml_token rs ind cont c = Some c' <->
  eligible c = true /\ try_rewrite_string rs ind cont c (closing_indent c) = Some c' /\ c' <> c.
Proof.
  rewrite (token_unfold rs ind cont c).
  destruct (quote_check (closing_line c)) eqn:Hq.
  - pose proof (try_rewrite_some_iff_eligible rs ind cont c Hq) as Hel.
    destruct (try_rewrite_string rs ind cont c (closing_indent c)) as [n|] eqn:Et.
    + assert (He : eligible c = true) by (apply Hel; exists n; reflexivity).
      destruct (bytes_eqb n c) eqn:Eb.
      * apply bytes_eqb_eq in Eb. split; [discriminate|].
        intros (_ & H & Hne). injection H as <-. contradiction.
      * split.
        -- intros H. injection H as <-. split; [exact He|]. split; [reflexivity|].
           intros ->. rewrite (proj2 (bytes_eqb_eq c c) eq_refl) in Eb. discriminate.
        -- intros (_ & H & _). exact H.
    + split; [discriminate|]. intros (_ & H & _). discriminate.
  - split; [discriminate|]. intros (He & _). unfold eligible in He.
    unfold quote_check in Hq. rewrite Hq in He. discriminate.
Qed.

(* eligible_implies_rewritten: an eligible literal is left alone only when it already is in the
   target form (re-indenting it gives the same bytes). *)
Theorem eligible_implies_rewritten rs ind cont (c : list N) :
  eligible c = true ->
  (rewrite_ml_token rs ind cont c = None <->
   try_rewrite_string rs ind cont c (closing_indent c) = Some c).
Proof.
  intros He. rewrite (token_unfold rs ind cont c).
  assert (Hq : quote_check (closing_line c) = true).
  { unfold eligible in He. apply andb_true_iff in He as [He _]. exact He. }
  rewrite Hq.
  destruct (proj2 (try_rewrite_some_iff_eligible rs ind cont c Hq) He) as [n Hn]. rewrite Hn.
  destruct (bytes_eqb n c) eqn:Eb.
  - apply bytes_eqb_eq in Eb. subst n. split; reflexivity.
  - split; [discriminate|]. intros H. injection H as ->.
    rewrite (proj2 (bytes_eqb_eq c c) eq_refl) in Eb. discriminate.
Qed.

Theorem rewrite_ml_token_value_preserved rs ind cont (c c' : list N) :
  rs_ok rs -> closing_has_text c = true ->
  rewrite_ml_token rs ind cont c = Some c' -> ml_value c' = ml_value c.
Proof.
  intros Hrs Htext H. apply (rewrite_some_iff_eligible rs ind cont c c') in H.
  destruct H as (_ & H & _). exact (rewrite_value_preserved rs ind cont c c' Hrs Htext H).
Qed.

(* rewrite_idempotent (token level): a rewritten literal is left alone by a second pass *)
Theorem rewrite_ml_token_idempotent rs ind cont (c c' : list N) :
  rs_ok rs -> closing_has_text c = true ->
  rewrite_ml_token rs ind cont c = Some c' -> rewrite_ml_token rs ind cont c' = None.
Proof.
  intros Hrs Htext H. apply (rewrite_some_iff_eligible rs ind cont c c') in H.
  destruct H as (_ & H & _).
  pose proof (rewrite_idempotent rs ind cont c c' Hrs Htext H) as Hid.
  rewrite (token_unfold rs ind cont c').
  destruct (quote_check (closing_line c')); [|reflexivity].
  rewrite Hid. rewrite (proj2 (bytes_eqb_eq c' c') eq_refl). reflexivity.
Qed.

(* ------------------------------------------------------------------ *)
(* rewrite_strip_eq: the rewrite changes blanks only *)

Lemma strip_join (nl : list N) (ls : list (list N)) :
  ascii_blank nl -> nl <> [] -> strip (join nl ls) = concat (map strip ls).
Proof.
  intros Hnl Hne. induction ls as [|l0 rest IH]; [reflexivity|].
  destruct rest as [|l1 rest'].
  - simpl. rewrite !app_nil_r. reflexivity.
  - rewrite join_cons2.
    assert (H80 : no80 (nl ++ join nl (l1 :: rest'))).
    { destruct nl as [|n0 nl']; [contradiction Hne; reflexivity|]. simpl.
      inversion Hnl as [|x y Hn0 Hrest]. subst. apply N.leb_le in Hn0. lia. }
    rewrite (strip_app_no80 _ _ H80), (strip_ascii_blank_app _ _ Hnl), IH. reflexivity.
Qed.

Lemma strip_out_line (indent ll l : list N) :
  ascii_blank indent -> line_ok (leading_ws ll) l = true ->
  (is_prefix l (leading_ws ll) = true -> strip l = []) ->
  strip (out_line indent (leading_ws ll) l) = strip l.
Proof.
  intros Hi Hok Hshort. unfold out_line, rewrite_line.
  destruct (ml_strip_prefix (leading_ws ll) l) as [s|] eqn:E.
  - apply ml_strip_prefix_some in E. rewrite E, leading_ws_strip.
    destruct s; [reflexivity|]. simpl is_nil. cbv iota. apply strip_ascii_blank_app. exact Hi.
  - unfold ml_strip_prefix in E. unfold line_ok in Hok.
    destruct (is_prefix (leading_ws ll) l); [discriminate|]. simpl in Hok. rewrite Hok.
    symmetry. apply Hshort. exact Hok.
Qed.

Definition rs_blank (rs : rsettings) : Prop :=
  ascii_blank (rs_newline rs) /\ rs_newline rs <> [] /\
  ascii_blank (rs_indent rs) /\ ascii_blank (rs_cont rs).

Lemma rs_ok_blank rs : rs_ok rs -> rs_blank rs.
Proof.
  intros (Hnl & Hi & Hc). unfold rs_blank. repeat split.
  - destruct Hnl as [-> | ->]; repeat constructor.
  - destruct Hnl as [-> | ->]; discriminate.
  - eapply Forall_impl; [|apply forallb_Forall; exact Hi]. intros a Ha. apply sp_tab_blank. exact Ha.
  - eapply Forall_impl; [|apply forallb_Forall; exact Hc]. intros a Ha. apply sp_tab_blank. exact Ha.
Qed.

(* Side condition: a line that is a (proper) prefix of the indentation is dropped by the rewrite,
   so it must be blank.  On valid UTF-8 this always holds: the indentation is a sequence of code
   points <= U+0020 and U+3000, and a line cannot end in the middle of a U+3000 (see
   short_lines_blank_of_complete below). *)
Definition short_lines_blank (base : list N) (c : list N) : Prop :=
  Forall (fun l => is_prefix l base = true -> strip l = []) (lines_custom c).

Theorem try_rewrite_strip_eq rs ind cont (c ll c' : list N) :
  rs_blank rs -> short_lines_blank (leading_ws ll) c ->
  try_rewrite_string rs ind cont c (leading_ws ll) = Some c' -> strip c' = strip c.
Proof.
  intros (Hnl & Hne & Hi & Hc) Hshort H. rewrite try_rewrite_spec in H.
  unfold short_lines_blank in Hshort.
  rewrite <- (lines_custom_strip c).
  destruct (lines_custom c) as [|l0 rest].
  { injection H as <-. reflexivity. }
  destruct (forallb (line_ok (leading_ws ll)) rest) eqn:Eok; [|discriminate].
  assert (Hc' : c' = join (rs_newline rs)
                          (l0 :: map (out_line (ml_indent rs ind cont) (leading_ws ll)) rest))
    by (injection H as H'; symmetry; exact H').
  rewrite Hc', (strip_join _ _ Hnl Hne).
  cbn [map concat]. f_equal. f_equal. rewrite map_map. apply map_ext_in. intros l Hl.
  apply strip_out_line.
  - unfold ml_indent. apply ascii_blank_app; apply ascii_blank_repeat; assumption.
  - rewrite forallb_forall in Eok. apply Eok. exact Hl.
  - rewrite Forall_forall in Hshort. apply Hshort. right. exact Hl.
Qed.

(* the indentation the Rust code computes for a token is closing_indent c (token_unfold) *)
Theorem rewrite_strip_eq rs ind cont (c c' : list N) :
  rs_blank rs -> short_lines_blank (closing_indent c) c ->
  rewrite_ml_token rs ind cont c = Some c' -> strip c' = strip c.
Proof.
  intros Hrs Hshort H. apply (rewrite_some_iff_eligible rs ind cont c c') in H.
  destruct H as (_ & H & _).
  exact (try_rewrite_strip_eq rs ind cont c (closing_line c) c' Hrs Hshort H).
Qed.

(* ================================================================== *)
(* 10. contents that end with a quote (every lexed multi-line literal does) *)

Lemma lcs_nil_iff skip (l : list N) : lcs skip l = [] <-> l = [].
Proof.
  unfold lcs. split.
  - intros H. apply map_eq_nil in H. apply split_custom_nil_iff in H. exact H.
  - intros ->. reflexivity.
Qed.

Definition ends_quote (c : list N) : Prop := exists c0, c = c0 ++ [39].

Lemma in_last {A} (l : list A) d : l <> [] -> In (last l d) l.
Proof.
  intros H. rewrite (app_removelast_last d H) at 2. apply in_or_app. right. left. reflexivity.
Qed.

Lemma closing_line_ends_quote_aux :
  forall skip l, forall l0, l = l0 ++ [39] -> ends_quote (last (lcs skip l) []).
Proof.
  apply (lcs_ind (fun skip l => forall l0, l = l0 ++ [39] -> ends_quote (last (lcs skip l) []))).
  - intros skip m Hm l0 E. rewrite (lcs_no_term skip m Hm). subst m.
    assert (Hn : is_nil (l0 ++ [39]) = false) by (destruct l0; reflexivity).
    rewrite Hn. simpl. exists l0. reflexivity.
  - intros c r Hc IH l0 E. rewrite (lcs_skip_lf c r Hc). destruct l0 as [|a l0'].
    + simpl in E. injection E as Ec _. subst c. discriminate Hc.
    + simpl in E. injection E as _ Er.
      destruct r as [|b r']; [destruct l0'; discriminate Er|]. simpl is_nil. cbv iota.
      exact (IH l0' Er).
  - intros skip m t r Hm Ht Hc IH l0 E. rewrite (lcs_term skip m t r Hm Ht Hc).
    destruct r as [|b r'] using rev_ind.
    + apply app_inj_tail in E as [_ Et]. subst t. discriminate Ht.
    + clear IHr'. rewrite app_comm_cons, app_assoc in E. apply app_inj_tail in E as [_ Eb]. subst b.
      rewrite last_cons_ne.
      * apply (IH r'). reflexivity.
      * intros Hn. apply lcs_nil_iff in Hn. destruct r'; discriminate.
Qed.

Lemma closing_line_ends_quote (c : list N) : ends_quote c -> ends_quote (closing_line c).
Proof. intros [c0 ->]. apply (closing_line_ends_quote_aux false _ c0). reflexivity. Qed.

Lemma leading_ws_bytes (l : list N) b :
  In b (leading_ws l) -> (b <=? 32) = true \/ b = 227 \/ b = 128.
Proof.
  induction l as [|a t Ea IH|a x y t Ea Eu IH|a t Ea E0] using clw_ind.
  - intros [].
  - rewrite leading_ws_blank_cons by assumption. intros [<- | H]; [left; exact Ea|exact (IH H)].
  - rewrite leading_ws_u3000_cons by assumption.
    unfold is_u3000 in Eu. apply andb_true_iff in Eu as [Eu Ey]. apply andb_true_iff in Eu as [Ea' Ex].
    apply N.eqb_eq in Ea', Ex, Ey.
    intros [<- | [<- | [<- | H]]]; [right; left; exact Ea'|right; right; exact Ex|right; right; exact Ey|exact (IH H)].
  - unfold leading_ws. rewrite E0. intros [].
Qed.

Lemma ends_quote_has_text (cl : list N) : ends_quote cl -> Nat.ltb (clw cl) (length cl) = true.
Proof.
  intros [x ->]. apply Nat.ltb_lt. pose proof (clw_le (x ++ [39])) as Hle.
  destruct (Nat.eq_dec (clw (x ++ [39])) (length (x ++ [39]))) as [E|E]; [|lia].
  exfalso. assert (Hin : In 39 (leading_ws (x ++ [39]))).
  { unfold leading_ws. rewrite E, firstn_all. apply in_or_app. right. left. reflexivity. }
  apply leading_ws_bytes in Hin as [H | [H | H]]; [|lia|lia].
  apply N.leb_le in H. lia.
Qed.

Lemma ends_quote_closing_has_text (c : list N) : ends_quote c -> closing_has_text c = true.
Proof. intros H. apply ends_quote_has_text, closing_line_ends_quote, H. Qed.

(* ------------------------------------------------------------------ *)
(* The token-level results for contents that end with a quote: no other side condition.
   (ends_quote c is only used through ends_quote_closing_has_text; the rewrite_ml_token_* versions
   above need closing_has_text c only.) *)

Theorem token_value_preserved rs ind cont (c c' : list N) :
  rs_ok rs -> ends_quote c ->
  rewrite_ml_token rs ind cont c = Some c' -> ml_value c' = ml_value c.
Proof.
  intros Hrs Hq H.
  exact (rewrite_ml_token_value_preserved rs ind cont c c' Hrs (ends_quote_closing_has_text c Hq) H).
Qed.

Theorem token_idempotent rs ind cont (c c' : list N) :
  rs_ok rs -> ends_quote c ->
  rewrite_ml_token rs ind cont c = Some c' -> rewrite_ml_token rs ind cont c' = None.
Proof.
  intros Hrs Hq H.
  exact (rewrite_ml_token_idempotent rs ind cont c c' Hrs (ends_quote_closing_has_text c Hq) H).
Qed.

Theorem token_reindented rs ind cont (c c' : list N) :
  rs_ok rs -> ends_quote c ->
  rewrite_ml_token rs ind cont c = Some c' ->
  let indent := nrepeat ind (rs_indent rs) ++ nrepeat cont (rs_cont rs) in
  eligible c = true /\ c' <> c /\
  c' = join (rs_newline rs) (lines_custom c') /\
  forallb no_term (lines_custom c') = true /\
  hd [] (lines_custom c') = hd [] (lines_custom c) /\
  tl (lines_custom c') = map (reindent_line indent (closing_indent c)) (tl (lines_custom c)) /\
  Forall (fun l' => l' = [] \/ exists s, s <> [] /\ l' = indent ++ s) (tl (lines_custom c')) /\
  (tl (lines_custom c) <> [] -> closing_indent c' = indent).
Proof.
  intros Hrs Hq H indent.
  apply (rewrite_some_iff_eligible rs ind cont c c') in H. destruct H as (He & H & Hne).
  split; [exact He|]. split; [exact Hne|].
  exact (rewrite_reindented rs ind cont c c' Hrs (ends_quote_closing_has_text c Hq) H).
Qed.

Lemma token_ends_quote rs ind cont (c c' : list N) :
  rs_ok rs -> ends_quote c -> rewrite_ml_token rs ind cont c = Some c' -> ends_quote c'.
Proof.
  intros Hrs Hq H.
  apply (rewrite_some_iff_eligible rs ind cont c c') in H. destruct H as (_ & H & _).
  pose proof (ends_quote_closing_has_text c Hq) as Htext.
  destruct (rewrite_structure rs ind cont c c' Hrs Htext H) as (l0 & rest & E & Hok & Hc' & E' & _).
  destruct (closing_line_ends_quote c Hq) as [x Hx].
  destruct rest as [|l1 rest'] using rev_ind.
  - simpl in Hc'. rewrite app_nil_r in Hc'. subst c'.
    unfold closing_line in Hx. rewrite E in Hx. simpl in Hx. exists x. exact Hx.
  - clear IHrest'. rewrite map_app in Hc'. simpl map in Hc'.
    assert (Ecl : closing_line c = l1).
    { unfold closing_line. rewrite E. rewrite app_comm_cons. apply last_last. }
    destruct (out_line_closing (ml_indent rs ind cont) (closing_line c) Htext) as (_ & Ho & _).
    fold (closing_indent c) in Ho. rewrite Ecl in Ho.
    assert (Hs : exists y, skipn (clw l1) l1 = y ++ [39]).
    { rewrite <- Ecl. rewrite Hx.
      assert (Hlt : (clw (x ++ [39%N]) < length (x ++ [39%N]))%nat)
        by (apply Nat.ltb_lt, ends_quote_has_text; exists x; reflexivity).
      rewrite app_length in Hlt. simpl in Hlt.
      rewrite skipn_app. replace (clw (x ++ [39%N]) - length x)%nat with O by lia.
      exists (skipn (clw (x ++ [39])) x). reflexivity. }
    destruct Hs as [y Hy].
    unfold join in Hc'. rewrite map_app, concat_app in Hc'. simpl in Hc'.
    rewrite Ho, Hy, app_nil_r in Hc'. subst c'.
    eexists. rewrite !app_assoc. reflexivity.
Qed.

(* ------------------------------------------------------------------ *)
(* discharging short_lines_blank: lines that do not end in the middle of a U+3000 *)

(* the last byte of l is E3, or the last two bytes are E3 80 (impossible in valid UTF-8) *)
Fixpoint ends_partial_u3000 (l : list N) : bool :=
  match l with
  | [] => false
  | a :: t =>
      match t with
      | [] => a =? 227
      | b :: t' =>
          match t' with
          | [] => ((a =? 227) && (b =? 128)) || (b =? 227)
          | _ :: _ => ends_partial_u3000 t
          end
      end
  end.

Lemma ends_partial_tl (a : N) (l : list N) :
  ends_partial_u3000 (a :: l) = false -> ends_partial_u3000 l = false.
Proof.
  destruct l as [|b [|c l']]; [reflexivity| |intros H; exact H].
  simpl. intros H. apply orb_false_iff in H as [_ H]. exact H.
Qed.

Lemma clw_leading_ws (l : list N) : clw (leading_ws l) = length (leading_ws l).
Proof.
  induction l as [|a t Ea IH|a b c t Ea Eu IH|a t Ea E0] using clw_ind.
  - reflexivity.
  - rewrite leading_ws_blank_cons by assumption. rewrite clw_blank_cons by assumption.
    simpl. rewrite IH. reflexivity.
  - rewrite leading_ws_u3000_cons by assumption. rewrite clw_u3000_cons by assumption.
    simpl. rewrite IH. reflexivity.
  - unfold leading_ws. rewrite E0. reflexivity.
Qed.

Lemma prefix_of_ws_blank (b : list N) :
  clw b = length b -> forall l, is_prefix l b = true -> ends_partial_u3000 l = false -> strip l = [].
Proof.
  induction b as [|a t Ea IH|a x y t Ea Eu IH|a t Ea E0] using clw_ind.
  - intros _ l Hl _. apply is_prefix_nil_r in Hl. subst l. reflexivity.
  - intros Hb l Hl Hp. rewrite clw_blank_cons in Hb by assumption. simpl in Hb.
    destruct l as [|a' l']; [reflexivity|]. simpl in Hl. apply andb_true_iff in Hl as [Ha Hl].
    apply N.eqb_eq in Ha. subst a'. rewrite strip_cons_blank by assumption.
    apply IH; [lia|exact Hl|exact (ends_partial_tl a l' Hp)].
  - intros Hb l Hl Hp. rewrite clw_u3000_cons in Hb by assumption. simpl in Hb.
    pose proof Eu as Eu'. unfold is_u3000 in Eu'.
    apply andb_true_iff in Eu' as [Eu' Ey]. apply andb_true_iff in Eu' as [Ea' Ex].
    apply N.eqb_eq in Ea', Ex, Ey. subst a x y.
    destruct l as [|a1 l1]; [reflexivity|]. simpl in Hl. apply andb_true_iff in Hl as [H1 Hl].
    apply N.eqb_eq in H1. subst a1.
    destruct l1 as [|a2 l2]; [discriminate Hp|]. simpl in Hl. apply andb_true_iff in Hl as [H2 Hl].
    apply N.eqb_eq in H2. subst a2.
    destruct l2 as [|a3 l3]; [discriminate Hp|]. simpl in Hl. apply andb_true_iff in Hl as [H3 Hl].
    apply N.eqb_eq in H3. subst a3.
    rewrite strip_unfold. change (227 <=? 32) with false. cbv iota.
    change ((227 =? 227) && (128 =? 128) && (128 =? 128)) with true. cbv iota.
    apply IH; [lia|exact Hl|].
    apply (ends_partial_tl 128), (ends_partial_tl 128), (ends_partial_tl 227). exact Hp.
  - intros Hb. rewrite E0 in Hb. discriminate Hb.
Qed.

Definition lines_complete (c : list N) : Prop :=
  Forall (fun l => ends_partial_u3000 l = false) (lines_custom c).

Lemma short_lines_blank_of_complete (ll c : list N) :
  lines_complete c -> short_lines_blank (leading_ws ll) c.
Proof.
  unfold lines_complete, short_lines_blank. intros H.
  eapply Forall_impl; [|exact H]. intros l Hp Hl.
  exact (prefix_of_ws_blank (leading_ws ll) (clw_leading_ws ll) l Hl Hp).
Qed.

(* rewrite_strip_eq with the UTF-8-style side condition *)
Theorem token_strip_eq rs ind cont (c c' : list N) :
  rs_blank rs -> lines_complete c ->
  rewrite_ml_token rs ind cont c = Some c' -> strip c' = strip c.
Proof.
  intros Hrs Hc H. apply (rewrite_strip_eq rs ind cont c c' Hrs); [|exact H].
  apply short_lines_blank_of_complete. exact Hc.
Qed.

(* ================================================================== *)
(* 11. examples, sanity checks, witnesses *)

Definition lines_completeb (c : list N) : bool :=
  forallb (fun l => negb (ends_partial_u3000 l)) (lines_custom c).

Lemma lines_completeb_ok (c : list N) : lines_completeb c = true -> lines_complete c.
Proof.
  unfold lines_completeb, lines_complete. intros H. apply Forall_forall. intros l Hl.
  rewrite forallb_forall in H. apply negb_true_iff. apply H. exact Hl.
Qed.

(* '''<LF>    abc<LF>      def <LF>    ''' *)
Definition ex1 : list N :=
  [39;39;39;10; 32;32;32;32;97;98;99;10; 32;32;32;32;32;32;100;101;102;32;10; 32;32;32;32;39;39;39].
(* same literal with CRLF terminators, an empty interior line and a short blank line *)
Definition ex2 : list N :=
  [39;39;39;13;10; 32;32;32;32;97;98;99;13;10; 13;10; 32;32;13;10;
   32;32;32;32;32;32;100;101;102;32;13;10; 32;32;32;32;39;39;39].
(* indentation containing U+3000 *)
Definition ex3 : list N :=
  [39;39;39;10; 32;227;128;128;97;10; 32;227;128;128;39;39;39].
(* '''<LF>    abc<CR>    ''' : the last terminator is a lone CR *)
Definition ex_lone_cr : list N :=
  [39;39;39;10; 32;32;32;32;97;98;99;13; 32;32;32;32;39;39;39].

Definition rs_lf : rsettings := rs_new false false 2 2.      (* LF, 2 spaces, 2 spaces *)
Definition rs_crlf : rsettings := rs_new true true 1 1.      (* CRLF, tab, tab *)

Eval vm_compute in lines_custom ex2.
Eval vm_compute in ml_value ex1.
Eval vm_compute in rewrite_ml_token rs_lf 1 0 ex1.
Eval vm_compute in option_map ml_value (rewrite_ml_token rs_lf 1 0 ex1).
Eval vm_compute in rewrite_ml_token rs_lf 1 1 ex1.   (* already at 4 spaces: None *)
Eval vm_compute in ml_value ex2.
Eval vm_compute in rewrite_ml_token rs_crlf 2 0 ex2.
Eval vm_compute in option_map ml_value (rewrite_ml_token rs_crlf 2 0 ex2).
Eval vm_compute in rewrite_ml_token rs_lf 1 0 ex3.
Eval vm_compute in rewrite_ml_token rs_lf 1 0 ex_lone_cr.

Lemma rs_lf_ok : rs_ok rs_lf.
Proof. repeat split; vm_compute; auto. Qed.
Lemma rs_crlf_ok : rs_ok rs_crlf.
Proof. repeat split; vm_compute; auto. Qed.

Lemma ex1_ends_quote : ends_quote ex1.
Proof. exists (removelast ex1). vm_compute. reflexivity. Qed.
Lemma ex2_ends_quote : ends_quote ex2.
Proof. exists (removelast ex2). vm_compute. reflexivity. Qed.

(* non-vacuity of the hypotheses of the theorems *)
Example ex1_hyps :
  rs_ok rs_lf /\ closing_has_text ex1 = true /\ eligible ex1 = true /\
  lines_complete ex1 /\ short_lines_blank (closing_indent ex1) ex1 /\
  exists c', try_rewrite_string rs_lf 1 0 ex1 (closing_indent ex1) = Some c' /\ c' <> ex1.
Proof.
  split; [exact rs_lf_ok|]. split; [vm_compute; reflexivity|].
  split; [vm_compute; reflexivity|].
  assert (Hc : lines_complete ex1) by (apply lines_completeb_ok; vm_compute; reflexivity).
  split; [exact Hc|]. split; [apply short_lines_blank_of_complete; exact Hc|].
  eexists. split; [vm_compute; reflexivity|vm_compute; discriminate].
Qed.

Example ex2_hyps :
  rs_ok rs_crlf /\ closing_has_text ex2 = true /\ eligible ex2 = true /\
  lines_complete ex2 /\
  exists c', rewrite_ml_token rs_crlf 2 0 ex2 = Some c' /\ ml_value c' = ml_value ex2 /\
             strip c' = strip ex2 /\ rewrite_ml_token rs_crlf 2 0 c' = None.
Proof.
  split; [exact rs_crlf_ok|]. split; [vm_compute; reflexivity|].
  split; [vm_compute; reflexivity|].
  split; [apply lines_completeb_ok; vm_compute; reflexivity|].
  eexists. split; [vm_compute; reflexivity|].
  split; [vm_compute; reflexivity|]. split; vm_compute; reflexivity.
Qed.

(* the theorems instantiated on the examples *)
Example ex1_value_preserved c' :
  rewrite_ml_token rs_lf 1 0 ex1 = Some c' -> ml_value c' = ml_value ex1.
Proof. apply token_value_preserved; [exact rs_lf_ok|exact ex1_ends_quote]. Qed.

Example ex2_strip_eq c' :
  rewrite_ml_token rs_crlf 2 0 ex2 = Some c' -> strip c' = strip ex2.
Proof.
  apply token_strip_eq; [apply rs_ok_blank; exact rs_crlf_ok|].
  apply lines_completeb_ok. vm_compute. reflexivity.
Qed.

(* Regression for the repaired lone-CR quirk (pasfmt c6e6887): before the repair the closing line
   was taken from str::lines().last() = "    abc\r    '''", the quote test failed and this eligible
   literal was left untouched; now it is re-indented like any other, with LF terminators. *)
Lemma lone_cr_now_rewritten :
  eligible ex_lone_cr = true /\
  closing_line ex_lone_cr = [32;32;32;32;39;39;39] /\
  rewrite_ml_token rs_lf 1 0 ex_lone_cr =
    Some [39;39;39;10; 32;32;97;98;99;10; 32;32;39;39;39] /\
  rewrite_ml_token rs_crlf 1 1 ex_lone_cr =
    Some [39;39;39;13;10; 9;9;97;98;99;13;10; 9;9;39;39;39].
Proof. repeat split; vm_compute; reflexivity. Qed.

(* The side condition of rewrite_strip_eq is needed at byte level: on a content that is NOT valid
   UTF-8 (a line consisting of the single byte E3, indentation U+3000) the dropped line loses a
   non-blank byte. *)
Lemma strip_eq_without_side_condition_refuted :
  exists c c', rewrite_ml_token rs_lf 0 0 c = Some c' /\ strip c' <> strip c.
Proof.
  exists [39;39;39;10; 227;10; 227;128;128;39;39;39]. eexists.
  split; [vm_compute; reflexivity|]. vm_compute. discriminate.
Qed.

(* Without the closing quotes (never a lexed literal) the closing line can vanish and the value
   changes: closing_has_text is needed in rewrite_value_preserved. *)
Lemma value_preserved_without_closing_text_refuted :
  exists c c', try_rewrite_string rs_lf 1 0 c (closing_indent c) = Some c' /\ ml_value c' <> ml_value c.
Proof.
  exists [39;39;39;10; 32;32;97;10; 32;32]. eexists.
  split; [vm_compute; reflexivity|]. vm_compute. discriminate.
Qed.

Print Assumptions rewrite_value_preserved.
Print Assumptions rewrite_reindented.
Print Assumptions rewrite_idempotent.
Print Assumptions rewrite_some_iff_eligible.
Print Assumptions rewrite_strip_eq.
Print Assumptions token_value_preserved.
Print Assumptions token_idempotent.
Print Assumptions token_reindented.
Print Assumptions token_strip_eq.
Print Assumptions token_ends_quote.
Print Assumptions eligible_implies_rewritten.
Print Assumptions rewrite_ml_token_value_preserved.
Print Assumptions rewrite_ml_token_idempotent.
Print Assumptions lone_cr_now_rewritten.
