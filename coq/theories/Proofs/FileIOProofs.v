(* Proofs/FileIOProofs.v — "the three CLI modes agree and only files mode writes". *)
From PasfmtVerif Require Import Model.FileIO Proofs.EncodingProofs.

(* ------------------------------------------------------------------ *)
(* list facts *)

Lemma zeros_0 : zeros 0 = [].
Proof. reflexivity. Qed.

Lemma firstn_exact {A} (l r : list A) : firstn (length l) (l ++ r) = l.
Proof.
  rewrite firstn_app, Nat.sub_diag, firstn_all. simpl. apply app_nil_r.
Qed.

Lemma skipn_exact {A} (l r : list A) : skipn (length l) (l ++ r) = r.
Proof.
  rewrite skipn_app, Nat.sub_diag, skipn_all. reflexivity.
Qed.

Lemma skipn_add {A} a b (l : list A) : skipn a (skipn b l) = skipn (b + a) l.
Proof.
  revert l; induction b as [|b IH]; intros l; [reflexivity|].
  destruct l as [|x l]; [rewrite !skipn_nil; reflexivity|]. simpl. apply IH.
Qed.

(* ------------------------------------------------------------------ *)
(* single operations *)

(* writing inside (or at the end of) the file: no hole *)
Lemma write_all_spec d c p :
  (p <= length c)%nat ->
  write_all d (mkFile c p true)
    = Some (mkFile (firstn p c ++ d ++ skipn (p + length d) c) (p + length d) true).
Proof.
  intros Hp. destruct d as [|x d'].
  - simpl. rewrite Nat.add_0_r, firstn_skipn. reflexivity.
  - unfold write_all, overwrite. cbn [f_writable f_pos f_content].
    replace (p - length c)%nat with 0%nat by lia. reflexivity.
Qed.

(* a read-only handle cannot change the file: write_all of anything non-empty and set_len fail,
   and the only succeeding "write" (empty data, no system call) changes nothing *)
Lemma write_all_ro d c p f' :
  write_all d (mkFile c p false) = Some f' -> d = [] /\ f' = mkFile c p false.
Proof.
  destruct d as [|x d']; simpl; intros H; [|discriminate].
  injection H as <-. split; reflexivity.
Qed.

Lemma write_all_ro_fails d c p : d <> [] -> write_all d (mkFile c p false) = None.
Proof. destruct d as [|x d']; [intros H; contradiction H; reflexivity|reflexivity]. Qed.

Lemma set_len_ro n c p : set_len n (mkFile c p false) = None.
Proof. reflexivity. Qed.

Lemma read_to_end_content f buf : f_content (snd (read_to_end f buf)) = f_content f.
Proof. reflexivity. Qed.

Lemma read_to_end_open c w prev :
  read_to_end (mkFile c 0 w) prev = (prev ++ c, mkFile c (length c) w).
Proof. reflexivity. Qed.

(* ------------------------------------------------------------------ *)
(* seek 0; write_all new; set_len (length new)  ==>  content = new, whatever was there *)

Theorem write_then_truncate old pos new :
  match write_all new (seek0 (mkFile old pos true)) with
  | Some f1 => option_map f_content (set_len (length new) f1)
  | None => None
  end = Some new.
Proof.
  unfold seek0. cbn [f_content f_writable].
  rewrite write_all_spec by lia. cbn [firstn app Nat.add].
  unfold set_len. cbn [f_writable f_content f_pos option_map].
  rewrite firstn_exact. rewrite app_length.
  replace (length new - (length new + length (skipn (length new) old)))%nat with 0%nat by lia.
  rewrite zeros_0, app_nil_r. reflexivity.
Qed.

(* the three length cases are all covered; concrete instances *)
Example write_then_truncate_ex :
  let run old :=
    match write_all [1; 2; 3] (seek0 (mkFile old (length old) true)) with
    | Some f1 => option_map f_content (set_len 3 f1) | None => None end in
  run [9] = Some [1; 2; 3] /\ run [9; 9; 9] = Some [1; 2; 3] /\
  run [9; 9; 9; 9; 9] = Some [1; 2; 3] /\
  (* without set_len the stale tail stays *)
  option_map f_content (write_all [1; 2; 3] (seek0 (mkFile [9; 9; 9; 9; 9] 5 true)))
    = Some [1; 2; 3; 9; 9].
Proof. repeat split; reflexivity. Qed.

Section ModesProofs.
  Variable legacy_decode : nat -> bytes -> option text.
  Variable legacy_encode : nat -> text -> option bytes.
  Variable format : text -> text.

  Notation decode_file := (decode_file legacy_decode).
  Notation encode_with := (encode_with legacy_encode).
  Notation write_to := (@write_to legacy_encode).
  Notation files_mode := (files_mode legacy_decode legacy_encode format).
  Notation files_mode_from := (files_mode_from legacy_decode legacy_encode format).
  Notation stdin_mode := (stdin_mode legacy_decode legacy_encode format).
  Notation check_files_mode := (check_files_mode legacy_decode format).
  Notation check_stdin_mode := (check_stdin_mode legacy_decode format).
  Notation files_to_stdout_mode := (files_to_stdout_mode legacy_decode format).

  (* `write` on a file positioned at 0 (any old content): BOM then encoded text, Ok(total length) *)
  Lemma write_to_file0 old e bom data ob :
    encode_with e data = Some ob ->
    let nb := bom_bytes bom ++ ob in
    write_to write_all (mkFile old 0 true) e bom data
      = (mkFile (nb ++ skipn (length nb) old) (length nb) true, Some (length nb)).
  Proof.
    intros He nb. unfold write_to. rewrite He.
    assert (H1 : (match bom with Some b => write_all b (mkFile old 0 true)
                             | None => Some (mkFile old 0 true) end)
                 = Some (mkFile (bom_bytes bom ++ skipn (length (bom_bytes bom)) old)
                                (length (bom_bytes bom)) true)).
    { destruct bom as [b|]; [|reflexivity]. rewrite write_all_spec by lia. reflexivity. }
    rewrite H1. set (b := bom_bytes bom) in *.
    rewrite write_all_spec by (rewrite app_length; lia).
    rewrite firstn_exact.
    rewrite skipn_app, skipn_add.
    rewrite (skipn_all2 b) by lia.
    replace (length b + (length b + length ob - length b))%nat with (length b + length ob)%nat by lia.
    subst nb. rewrite app_length, <- app_assoc. reflexivity.
  Qed.

  (* `write` fails before touching the writer when the text cannot be encoded *)
  Lemma write_to_encode_error {W} (wa : bytes -> W -> option W) w e bom data :
    encode_with e data = None -> write_to wa w e bom data = (w, None).
  Proof. intros He. unfold write_to. rewrite He. reflexivity. Qed.

  (* `write` to stdout *)
  Lemma write_to_stdout e bom data ob :
    encode_with e data = Some ob ->
    write_to stdout_write_all [] e bom data
      = (bom_bytes bom ++ ob, Some (length (bom_bytes bom) + length ob)%nat).
  Proof.
    intros He. unfold write_to, stdout_write_all. rewrite He.
    destruct bom as [b|]; reflexivity.
  Qed.

  (* ---------------------------------------------------------------- *)
  (* complete case analysis of files mode (worker buffer `prev`, [] in the real program) *)

  Lemma files_mode_from_decode_error prev cfg c :
    decode_file cfg (prev ++ c) = None -> files_mode_from prev cfg c = (c, [], true).
  Proof.
    intros Hd. unfold FileIO.files_mode_from, exec_one. rewrite read_to_end_open, Hd. reflexivity.
  Qed.

  Lemma files_mode_from_unchanged prev cfg c bom e t :
    decode_file cfg (prev ++ c) = Some (bom, e, t) -> format t = t ->
    files_mode_from prev cfg c = (c, [], false).
  Proof.
    intros Hd Hf. unfold FileIO.files_mode_from, exec_one. rewrite read_to_end_open, Hd.
    unfold op_format_files. rewrite Hf.
    rewrite (proj2 (bytes_eqb_eq t t) eq_refl). reflexivity.
  Qed.

  Lemma files_mode_from_encode_error prev cfg c bom e t :
    decode_file cfg (prev ++ c) = Some (bom, e, t) -> format t <> t ->
    encode_with e (format t) = None ->
    files_mode_from prev cfg c = (c, [], true).
  Proof.
    intros Hd Hf He. unfold FileIO.files_mode_from, exec_one. rewrite read_to_end_open, Hd.
    unfold op_format_files.
    destruct (bytes_eqb t (format t)) eqn:Eq.
    { apply bytes_eqb_eq in Eq. contradiction Hf. symmetry. exact Eq. }
    rewrite write_to_encode_error by exact He. reflexivity.
  Qed.

  Lemma files_mode_from_changed prev cfg c bom e t ob :
    decode_file cfg (prev ++ c) = Some (bom, e, t) -> format t <> t ->
    encode_with e (format t) = Some ob ->
    files_mode_from prev cfg c = (bom_bytes bom ++ ob, [], false).
  Proof.
    intros Hd Hf He. unfold FileIO.files_mode_from, exec_one. rewrite read_to_end_open, Hd.
    unfold op_format_files.
    destruct (bytes_eqb t (format t)) eqn:Eq.
    { apply bytes_eqb_eq in Eq. contradiction Hf. symmetry. exact Eq. }
    unfold seek0. cbn [f_content f_writable].
    rewrite (write_to_file0 c e bom (format t) ob He). cbv zeta.
    unfold set_len. cbn [f_writable f_content f_pos].
    rewrite firstn_exact, !app_length.
    match goal with |- context[zeros ?n] => replace n with 0%nat by lia end.
    rewrite zeros_0, app_nil_r. reflexivity.
  Qed.

  (* ---------------------------------------------------------------- *)
  (* files mode = stdin->stdout mode *)

  (* The file after `pasfmt file` is byte for byte what `pasfmt < file` prints (stdout not a
     terminal), provided re-encoding unchanged text reproduces the input (Hcanon). *)
  Theorem files_mode_eq_stdout cfg c bom e t ob :
    decode_file cfg c = Some (bom, e, t) ->
    encode_with e (format t) = Some ob ->
    (format t = t -> bom_bytes bom ++ ob = c) ->
    files_mode cfg c = (bom_bytes bom ++ ob, [], false) /\
    stdin_mode false cfg c = (bom_bytes bom ++ ob, false).
  Proof.
    intros Hd He Hcanon. split.
    - unfold FileIO.files_mode.
      destruct (bytes_eqb (format t) t) eqn:Eq.
      + apply bytes_eqb_eq in Eq. rewrite (Hcanon Eq).
        apply (files_mode_from_unchanged [] cfg c bom e t); [exact Hd|exact Eq].
      + apply (files_mode_from_changed [] cfg c bom e t ob); [exact Hd| |exact He].
        intros Heq. rewrite Heq in Eq. rewrite (proj2 (bytes_eqb_eq t t) eq_refl) in Eq.
        discriminate.
    - unfold FileIO.stdin_mode. rewrite Hd. rewrite (write_to_stdout e bom (format t) ob He).
      reflexivity.
  Qed.

  (* The proviso holds for every UTF encoding (in particular whenever the file has a BOM). *)
  Theorem files_mode_eq_stdout_utf cfg c bom e t :
    decode_file cfg c = Some (bom, e, t) -> is_utf e = true ->
    exists ob, encode_with e (format t) = Some ob /\
      files_mode cfg c = (bom_bytes bom ++ ob, [], false) /\
      stdin_mode false cfg c = (bom_bytes bom ++ ob, false).
  Proof.
    intros Hd Hu.
    destruct (utf_encode_total legacy_encode e (format t) Hu) as [ob He].
    exists ob. split; [exact He|].
    apply (files_mode_eq_stdout cfg c bom e t ob Hd He).
    intros Hf.
    pose proof (utf_roundtrip_identity legacy_decode legacy_encode format cfg c bom e t Hd Hu Hf)
      as Hw.
    unfold write_bytes in Hw. rewrite He in Hw. injection Hw as Hw. exact Hw.
  Qed.

  (* For a legacy code page the proviso is a genuine hypothesis: a byte sequence that decodes but
     is not what the encoder produces for the same text (Shift_JIS 87 90, known finding F8) makes
     `pasfmt file` keep the original bytes while `pasfmt < file` prints the canonical ones.
     See legacy_noncanonical_refuted below for a witness. *)
  Theorem files_mode_eq_stdout_legacy cfg c bom id t ob :
    decode_file cfg c = Some (bom, Legacy id, t) ->
    legacy_encode id (format t) = Some ob ->
    (* Hypothesis (NOT provable, false for non-canonical input): *)
    (format t = t -> bom_bytes bom ++ ob = c) ->
    fst (fst (files_mode cfg c)) = fst (stdin_mode false cfg c).
  Proof.
    intros Hd He Hcanon.
    destruct (files_mode_eq_stdout cfg c bom (Legacy id) t ob Hd He Hcanon) as [H1 H2].
    rewrite H1, H2. reflexivity.
  Qed.

  (* ---------------------------------------------------------------- *)
  (* check mode *)

  Theorem check_iff_fixed cfg c bom e t :
    decode_file cfg c = Some (bom, e, t) ->
    (snd (check_files_mode cfg c) = true <-> t <> format t) /\
    (check_stdin_mode cfg c = true <-> t <> format t) /\
    snd (check_files_mode cfg c) = check_stdin_mode cfg c.
  Proof.
    intros Hd.
    assert (Hf : check_files_mode cfg c = (c, [], negb (bytes_eqb t (format t)))).
    { unfold FileIO.check_files_mode, exec_one. rewrite read_to_end_open. cbn [app].
      rewrite Hd. reflexivity. }
    assert (Hs : check_stdin_mode cfg c = negb (bytes_eqb t (format t))).
    { unfold FileIO.check_stdin_mode. rewrite Hd. reflexivity. }
    rewrite Hf, Hs. cbn [snd].
    assert (Hiff : negb (bytes_eqb t (format t)) = true <-> t <> format t).
    { rewrite negb_true_iff. split.
      - intros Hb Heq. apply bytes_eqb_eq in Heq. rewrite Heq in Hb. discriminate.
      - intros Hne. destruct (bytes_eqb t (format t)) eqn:Eq; [|reflexivity].
        apply bytes_eqb_eq in Eq. contradiction. }
    repeat split; try apply Hiff.
  Qed.

  (* check mode and files mode agree: check reports an error exactly when files mode would try to
     rewrite the file *)
  Theorem check_error_iff_files_mode_rewrites cfg c bom e t ob :
    decode_file cfg c = Some (bom, e, t) -> encode_with e (format t) = Some ob ->
    snd (check_files_mode cfg c) = false -> files_mode cfg c = (c, [], false).
  Proof.
    intros Hd He Hc.
    destruct (check_iff_fixed cfg c bom e t Hd) as [[_ H1] _].
    unfold FileIO.files_mode. apply (files_mode_from_unchanged [] cfg c bom e t Hd).
    destruct (bytes_eqb t (format t)) eqn:Eq.
    - apply bytes_eqb_eq in Eq. symmetry. exact Eq.
    - rewrite H1 in Hc; [discriminate|].
      intros Heq. apply bytes_eqb_eq in Heq. rewrite Heq in Eq. discriminate.
  Qed.

  (* ---------------------------------------------------------------- *)
  (* only files mode writes *)

  (* Any result operation run on a read-only handle that only uses the four file operations
     leaves the content alone; for the two read-only modes of pasfmt: *)
  Theorem ro_modes_no_write cfg c path :
    fst (fst (check_files_mode cfg c)) = c /\
    fst (fst (files_to_stdout_mode path cfg c)) = c /\
    (* and a write attempt through such a handle is an error, not a silent write *)
    (forall d p, d <> [] -> write_all d (mkFile c p false) = None) /\
    (forall n p, set_len n (mkFile c p false) = None) /\
    (forall e bom data p, fst (write_to write_all (mkFile c p false) e bom data)
                          = mkFile c p false).
  Proof.
    split; [|split; [|split; [|split]]].
    - unfold FileIO.check_files_mode, exec_one. rewrite read_to_end_open.
      destruct (decode_file cfg ([] ++ c)) as [[[bom e] t]|]; reflexivity.
    - unfold FileIO.files_to_stdout_mode, exec_one. rewrite read_to_end_open.
      destruct (decode_file cfg ([] ++ c)) as [[[bom e] t]|]; reflexivity.
    - intros d p Hd. apply write_all_ro_fails. exact Hd.
    - intros n p. reflexivity.
    - intros e bom data p. unfold write_to.
      destruct (encode_with e data) as [ob|]; [|reflexivity].
      destruct bom as [b|].
      + destruct (write_all b (mkFile c p false)) as [f1|] eqn:H1; [|reflexivity].
        apply write_all_ro in H1. destruct H1 as [_ ->].
        destruct (write_all ob (mkFile c p false)) as [f2|] eqn:H2; [|reflexivity].
        apply write_all_ro in H2. destruct H2 as [_ ->]. reflexivity.
      + destruct (write_all ob (mkFile c p false)) as [f2|] eqn:H2; [|reflexivity].
        apply write_all_ro in H2. destruct H2 as [_ ->]. reflexivity.
  Qed.

  (* stdout content of the --files-to-stdout mode: "path:\n" + UTF-8 + "\n", no BOM, not the
     file's encoding *)
  Theorem files_to_stdout_spec cfg c path bom e t :
    decode_file cfg c = Some (bom, e, t) ->
    files_to_stdout_mode path cfg c = (c, path ++ [58; 10] ++ utf8_encode (format t) ++ [10], false).
  Proof.
    intros Hd. unfold FileIO.files_to_stdout_mode, exec_one. rewrite read_to_end_open. cbn [app].
    rewrite Hd. reflexivity.
  Qed.

  (* ---------------------------------------------------------------- *)
  (* error cases *)

  Theorem decode_error_no_write cfg c path tty :
    decode_file cfg c = None ->
    files_mode cfg c = (c, [], true) /\
    files_to_stdout_mode path cfg c = (c, [], true) /\
    check_files_mode cfg c = (c, [], true) /\
    stdin_mode tty cfg c = ([], true) /\
    check_stdin_mode cfg c = true.
  Proof.
    intros Hd. repeat split.
    - apply files_mode_from_decode_error. exact Hd.
    - unfold FileIO.files_to_stdout_mode, exec_one. rewrite read_to_end_open. cbn [app].
      rewrite Hd. reflexivity.
    - unfold FileIO.check_files_mode, exec_one. rewrite read_to_end_open. cbn [app].
      rewrite Hd. reflexivity.
    - unfold FileIO.stdin_mode. rewrite Hd. reflexivity.
    - unfold FileIO.check_stdin_mode. rewrite Hd. reflexivity.
  Qed.

  (* `write` calls `encode` before the first write_all, so an unencodable result leaves the file
     byte for byte as it was (only the handle's position moved to 0) and sets the error flag;
     stdin mode prints nothing. *)
  Theorem encode_error_file_state cfg c bom e t :
    decode_file cfg c = Some (bom, e, t) -> format t <> t ->
    encode_with e (format t) = None ->
    files_mode cfg c = (c, [], true) /\ stdin_mode false cfg c = ([], true).
  Proof.
    intros Hd Hf He. split.
    - apply (files_mode_from_encode_error [] cfg c bom e t Hd Hf He).
    - unfold FileIO.stdin_mode. rewrite Hd. rewrite write_to_encode_error by exact He.
      reflexivity.
  Qed.

  (* If the text is unchanged, files mode does not even call `encode`: an unencodable-but-unchanged
     text is no error there, while stdin->stdout mode reports it. *)
  Theorem encode_error_unchanged_modes_differ cfg c bom e t :
    decode_file cfg c = Some (bom, e, t) -> format t = t ->
    encode_with e t = None ->
    files_mode cfg c = (c, [], false) /\ stdin_mode false cfg c = ([], true).
  Proof.
    intros Hd Hf He. split.
    - apply (files_mode_from_unchanged [] cfg c bom e t Hd Hf).
    - unfold FileIO.stdin_mode. rewrite Hd, Hf. rewrite write_to_encode_error by exact He.
      reflexivity.
  Qed.

  (* summary: the complete behaviour of files mode *)
  Theorem files_mode_spec cfg c :
    files_mode cfg c =
      match decode_file cfg c with
      | None => (c, [], true)
      | Some (bom, e, t) =>
        if bytes_eqb t (format t) then (c, [], false)
        else match write_bytes legacy_encode e bom (format t) with
             | Some nb => (nb, [], false)
             | None => (c, [], true)
             end
      end.
  Proof.
    unfold FileIO.files_mode.
    destruct (decode_file cfg c) as [[[bom e] t]|] eqn:Hd.
    - destruct (bytes_eqb t (format t)) eqn:Eq.
      + apply bytes_eqb_eq in Eq. apply (files_mode_from_unchanged [] cfg c bom e t Hd).
        symmetry. exact Eq.
      + assert (Hne : format t <> t).
        { intros Heq. rewrite Heq in Eq. rewrite (proj2 (bytes_eqb_eq t t) eq_refl) in Eq.
          discriminate. }
        unfold write_bytes. destruct (encode_with e (format t)) as [ob|] eqn:He.
        * apply (files_mode_from_changed [] cfg c bom e t ob Hd Hne He).
        * apply (files_mode_from_encode_error [] cfg c bom e t Hd Hne He).
    - apply files_mode_from_decode_error. exact Hd.
  Qed.
End ModesProofs.

(* exit status: FAILURE iff the handler ran at least once *)
Lemma err_handler_sets b : err_handler b = true.
Proof. destruct b; reflexivity. Qed.

Lemma exit_code_spec b : exit_code b = 0 <-> b = false.
Proof. destruct b; simpl; split; intros H; try reflexivity; discriminate. Qed.

(* ------------------------------------------------------------------ *)
(* non-vacuity and witnesses *)

Definition drop_spaces (t : text) : text := filter (fun c => negb (c =? 32)) t.

(* UTF-16LE with BOM, configured encoding irrelevant: "a b" -> "ab" *)
Example files_mode_eq_stdout_ex :
  let c := [255; 254; 97; 0; 32; 0; 98; 0] in
  decode_file no_legacy_decode (Legacy 0) c = Some (Some [255; 254], Utf16le, [97; 32; 98]) /\
  encode_with no_legacy_encode Utf16le (drop_spaces [97; 32; 98]) = Some [97; 0; 98; 0] /\
  files_mode no_legacy_decode no_legacy_encode drop_spaces (Legacy 0) c
    = ([255; 254; 97; 0; 98; 0], [], false) /\
  stdin_mode no_legacy_decode no_legacy_encode drop_spaces false (Legacy 0) c
    = ([255; 254; 97; 0; 98; 0], false) /\
  check_files_mode no_legacy_decode drop_spaces (Legacy 0) c = (c, [], true) /\
  files_to_stdout_mode no_legacy_decode drop_spaces [120] (Legacy 0) c
    = (c, [120; 58; 10; 97; 98; 10], false).
Proof. repeat split; reflexivity. Qed.

(* decode error: UTF-8 with a stray continuation byte *)
Example decode_error_no_write_ex :
  decode_file no_legacy_decode Utf8 [97; 128] = None /\
  files_mode no_legacy_decode no_legacy_encode drop_spaces Utf8 [97; 128] = ([97; 128], [], true).
Proof. split; reflexivity. Qed.

(* A toy legacy code page: bytes 1 and 2 both decode to 'A' (65), byte b>=3 decodes to itself;
   'A' encodes to 1; 'Z' (90) is unmappable.  Stands for Shift_JIS 87 90 / 81 E0 (F8). *)
Definition toy_decode (_ : nat) (b : bytes) : option text :=
  Some (map (fun x => if (x =? 1) || (x =? 2) then 65 else x) b).
Definition toy_encode (_ : nat) (t : text) : option bytes :=
  if existsb (N.eqb 90) t then None else Some (map (fun c => if c =? 65 then 1 else c) t).

(* F8: without the canonicity proviso the two modes differ (formatter = identity). *)
Theorem legacy_noncanonical_refuted :
  exists legacy_decode legacy_encode format cfg c bom id t ob,
    decode_file legacy_decode cfg c = Some (bom, Legacy id, t) /\
    legacy_encode id (format t) = Some ob /\
    format t = t /\ bom_bytes bom ++ ob <> c /\
    fst (fst (files_mode legacy_decode legacy_encode format cfg c))
      <> fst (stdin_mode legacy_decode legacy_encode format false cfg c).
Proof.
  exists toy_decode, toy_encode, (fun t => t), (Legacy 0), [2; 66], None, 0%nat, [65; 66], [1; 66].
  repeat split; try reflexivity; vm_compute; intros H; discriminate.
Qed.

(* encode_error_file_state is not vacuous: the formatter turns 'Y' into unmappable 'Z' *)
Example encode_error_file_state_ex :
  let fmt := map (fun c => if c =? 89 then 90 else c) in
  decode_file toy_decode (Legacy 0) [89; 66] = Some (None, Legacy 0, [89; 66]) /\
  fmt [89; 66] <> [89; 66] /\
  encode_with toy_encode (Legacy 0) (fmt [89; 66]) = None /\
  files_mode toy_decode toy_encode fmt (Legacy 0) [89; 66] = ([89; 66], [], true).
Proof. repeat split; try reflexivity. vm_compute. intros H; discriminate. Qed.

(* encode_error_unchanged_modes_differ is not vacuous: the `replacement` encoding on an empty file
   (decoder accepts only the empty input, there is no encoder), formatter = identity:
   `pasfmt f.pas` succeeds, `pasfmt < f.pas` fails with "No encoder for encoding replacement". *)
Definition repl_decode (_ : nat) (b : bytes) : option text :=
  match b with [] => Some [] | _ => None end.
Example replacement_encoding_ex :
  files_mode repl_decode no_legacy_encode (fun t => t) (Legacy 0) [] = ([], [], false) /\
  stdin_mode repl_decode no_legacy_encode (fun t => t) false (Legacy 0) [] = ([], true).
Proof. split; reflexivity. Qed.
