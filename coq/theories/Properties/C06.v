(* C06 — output does not depend on the input's line wrapping or spacing. Statements only.
   Stage 1: the spacing rule is layout-free outside an exactly characterised leak class. *)
From PasfmtVerif Require Import Model.Spacing Proofs.SpacingProofs.

(* where the original space count is read at all: exactly this class of (left, right) types *)
Theorem C06_reads_orig_characterised : forall tl tr pr, reads_orig tl tr pr = reads_orig_spec tl tr pr.
Proof. exact reads_orig_char. Qed.

(* … and where it is kept as is (not even clamped): after an inline `//` comment *)
Theorem C06_keeps_orig_characterised : forall tl tr pr, keeps_orig tl tr pr = keeps_orig_spec tl tr pr.
Proof. exact keeps_orig_char. Qed.

(* outside the class the result does not depend on the original count; inside, only on min 1 *)
Theorem C06_gap_equiv : forall tl tr pr o1 o2, orig_equiv tl tr pr o1 o2 -> gap_fn tl tr pr o1 = gap_fn tl tr pr o2.
Proof. exact gap_equiv. Qed.

(* two inputs with the same tokens whose original counts agree where (and as far as) they are read
   get the same spacing *)
Theorem C06_spacing_layout_free : forall l1 l2, layout_similar l1 l2 -> token_spacing l1 = token_spacing l2.
Proof. exact spacing_layout_free. Qed.

(* the literal gap is a real leak (finding F4): the count IS read there *)
Theorem C06_literal_gap_is_read :
  gap_fn (TT_TextLiteral TK_SingleLine) (TT_Op OK_LBrack) None 0 <> gap_fn (TT_TextLiteral TK_SingleLine) (TT_Op OK_LBrack) None 1.
Proof. vm_compute. discriminate. Qed.

From PasfmtVerif Require Import Model.FmtData Proofs.FmtDataProofs.

(* two layout strings give the same data iff they have the same number of line breaks and the same width after the last one: nothing else of the original layout survives *)
Theorem C06_layout_data_iff :
  forall (a b : bytes) (ign : bool),
  layout_ws a ->
  layout_ws b ->
  count_lf a <= 65535 ->
  count_lf b <= 65535 ->
  N.of_nat (length (after_last_lf a)) <= 65535 ->
  N.of_nat (length (after_last_lf b)) <= 65535 ->
  fmt_of_ws a ign = fmt_of_ws b ign <->
  count_lf a = count_lf b /\ length (after_last_lf a) = length (after_last_lf b).
Proof. exact fmt_of_ws_relayout_iff. Qed.

(* newlines_before = 0 exactly when the gap contains no LF *)
Theorem C06_no_break_iff_no_lf :
  forall (ws : bytes) (ign : bool),
  f_nl (fmt_of_ws ws ign) = 0 <-> contains_byte 10 ws = false.
Proof. exact fmt_of_ws_nl_zero_iff. Qed.

(* the grammar model reads the layout only inside asm blocks: the parse result is a function of the token types alone when the
   text has no `asm` keyword (the per-token "leading whitespace holds a line break" flags are irrelevant) - for every input *)
From PasfmtVerif Require Import Model.ParserGrammar Proofs.ParserGrammarProofs Proofs.ParserGrammarConsumedProofs Proofs.ParserGrammarConsumed2Proofs Proofs.ParserGrammarWsnlProofs.
Theorem C06_parser_layout_free_without_asm :
  forall (toks : list RawTokenType) (w w' : list bool) (passes : list (list nat)),
  (forall t : RawTokenType,
   In t toks -> t <> RTT_Keyword KK_Asm /\ t <> RTT_IdentifierOrKeyword KK_Asm) ->
  parse_file_with toks w passes = parse_file_with toks w' passes.
Proof. exact parse_file_wsnl_irrelevant'. Qed.

Theorem C06_parser_model_layout_free_without_asm :
  forall (toks : list RawTokenType) (w w' : list bool),
  no_asm toks -> parse_file_model toks w = parse_file_model toks w'.
Proof. exact parse_file_model_wsnl_irrelevant. Qed.

(* the search model reads token types, spaces_before, content lengths, last-line lengths and the logical lines only (its signature);
   beyond its first record it reads of the line only index, type and tokens; the first token's spaces are irrelevant at a line start *)
From PasfmtVerif Require Import Model.WrapContexts Model.WrapSearch Model.WrapFormat Proofs.WrapSearchProofs Proofs.WrapSearchDeepProofs.
Theorem C06_search_first_token_spaces_irrelevant :
  forall (W : wsettings) (lvs : list lview) (fm : nat)
    (cs : sst -> lview -> N * N -> first_decision -> sst * option solution) 
    (i : nat) (t : LogicalLineType) (lvl : N) (tp : bool) (g : list N) 
    (c : nat) (gi : N) (ty win fp : option TokenType) (inv : option DecisionRequirement)
    (stk : cstack) (sp1 sp2 ln : N) (ml : option N) (kids : option lchildren)
    (rest : list trec) (st : sst) (ws : N * N),
  inv <> Some DR_MustNotBreak ->
  find_optimal_solution W lvs fm cs
    {|
      lv_idx := i;
      lv_type := t;
      lv_level := lvl;
      lv_top := tp;
      lv_gtoks := g;
      lv_recs :=
        {|
          tr_gidx := gi;
          tr_ty := ty;
          tr_win := win;
          tr_fprev := fp;
          tr_inv := inv;
          tr_stk := stk;
          tr_sp := sp1;
          tr_len := ln;
          tr_ml := ml;
          tr_kids := kids
        |} :: rest;
      lv_count := c
    |} st ws FD_Break =
  find_optimal_solution W lvs fm cs
    {|
      lv_idx := i;
      lv_type := t;
      lv_level := lvl;
      lv_top := tp;
      lv_gtoks := g;
      lv_recs :=
        {|
          tr_gidx := gi;
          tr_ty := ty;
          tr_win := win;
          tr_fprev := fp;
          tr_inv := inv;
          tr_stk := stk;
          tr_sp := sp2;
          tr_len := ln;
          tr_ml := ml;
          tr_kids := kids
        |} :: rest;
      lv_count := c
    |} st ws FD_Break.
Proof. exact first_token_spaces_irrelevant. Qed.

Theorem C06_search_reads_line_index_type_tokens_only :
  forall (W : wsettings) (lvs : list lview)
    (cs : sst -> lview -> N * N -> first_decision -> sst * option solution) 
    (i : nat) (t : LogicalLineType) (lvl : N) (tp : bool) (g : list N) 
    (c1 c2 : nat) (recs1 recs2 : list trec) (fuel : nat) (h : heap) 
    (iter : N) (best : list N) (st : sst),
  main_loop W lvs cs
    {|
      lv_idx := i;
      lv_type := t;
      lv_level := lvl;
      lv_top := tp;
      lv_gtoks := g;
      lv_recs := recs1;
      lv_count := c1
    |} fuel h iter best st =
  main_loop W lvs cs
    {|
      lv_idx := i;
      lv_type := t;
      lv_level := lvl;
      lv_top := tp;
      lv_gtoks := g;
      lv_recs := recs2;
      lv_count := c2
    |} fuel h iter best st.
Proof. exact main_loop_sig. Qed.

(* what the wrapper reads of the incoming tokens (first phase): the events depend on the token vector through tokinfo_of only
   (type, spaces, content length, last-line length) and on no string of the settings; for a decided token the resulting indentation,
   continuation and spaces - and whether it starts a line - do not depend on the incoming line breaks or indentation (the number of
   line breaks does only for the first token of a line, whose blank-line grouping is kept, clamped) *)
From PasfmtVerif Require Import Model.WrapContexts Model.WrapSearch Model.WrapFormat Proofs.WrapSearchProofs Proofs.WrapWidthFree Proofs.WrapSimProofs Proofs.WrapUnconstrainedProofs Proofs.WrapWidthIndependence Proofs.WrapFileProofs Proofs.WrapReadsProofs Proofs.WrapSoundTransferProofs.
Theorem C06_search_phase1_reads_tokinfo_only :
  forall (rs rs' : rsettings) (W : wsettings) (lines : list lline) (l l' : list ftoken),
  map tokinfo_of l = map tokinfo_of l' ->
  snd (fst (olf_model rs W false lines l)) = snd (fst (olf_model rs' W false lines l')) /\
  snd (olf_model rs W false lines l) = snd (olf_model rs' W false lines l').
Proof. exact olf_phase1_events_read. Qed.

Theorem C06_decided_counters_do_not_read_incoming_layout :
  forall (rs rs' : rsettings) (W : wsettings) (lines : list lline) 
    (l l' : list ftoken) (t : nat) (tok : token) (f : fmt) (tok' : token) 
    (f' : fmt),
  same_tokens_and_spaces l l' ->
  let plan := plan_of_events (rev (ss_log (wrap_phase1 W (map tokinfo_of l) lines))) in
  nth_error (fst (fst (olf_model rs W false lines l))) t = Some (tok, f) ->
  nth_error (fst (fst (olf_model rs' W false lines l'))) t = Some (tok', f') ->
  WrapEventsProofs.decs_for t plan <> [] ->
  tok = tok' /\
  f_ind f = f_ind f' /\
  f_cont f = f_cont f' /\
  f_sp f = f_sp f' /\
  (0 <? f_nl f) = (0 <? f_nl f') /\
  (forall (ds : list decision) (d : decision),
   WrapEventsProofs.decs_for t plan = ds ++ [d] ->
   is_first_break d = false -> f_nl f = f_nl f').
Proof. exact olf_phase1_counters_read. Qed.

(* END TO END: two inputs whose tokens agree (content and raw kind) and whose layouts agree in the number of line breaks per gap and
   in the spaces where the spacing rule reads them (the F4 gap class) format identically - whatever the TEXT of the whitespace is (tabs,
   CR, U+3000, indentation) - without asm and ignored tokens; both wrapper phases, every configuration.  Exchanging a space and a
   single line break is covered for decided tokens by C06_decided_counters_do_not_read_incoming_layout; tokens the wrapper does not
   decide keep their breaks (F42), so that half stays with the metamorphic oracle *)
From PasfmtVerif Require Import Model.Format Proofs.FormatProofs Proofs.FormatTotalProofs Proofs.FormatTabsProofs Proofs.FormatWsProofs Proofs.FormatCrlfProofs Proofs.FormatRelayoutProofs Proofs.FormatFragmentProofs.
Theorem C06_format_relayout :
  forall (alnum : bytes -> bool) (cfg : fconfig) (s s' : bytes) (segs segs' : list seg),
  lex_segments s = Some segs ->
  lex_segments s' = Some segs' ->
  Forall2 seg_sim segs segs' ->
  ParserGrammarWsnlProofs.no_asm (map seg_ty segs) ->
  (forall m : bool, In m (fm_marks segs) -> m = false) ->
  lay_similar segs segs' -> format_model alnum cfg s' = format_model alnum cfg s.
Proof. exact format_relayout. Qed.

(* the spaces in front of a token whose invariant is MustBreak are never read by the search: two inputs that differ only there give
   the same events and the same counters (and the same spaces at every token that starts a line) *)
From PasfmtVerif Require Import Model.Format Proofs.FormatProofs Proofs.FormatIdemProofs Proofs.FormatIdemKindsProofs Proofs.FormatIdemSpacesProofs Proofs.WrapSpacesProofs.
Theorem C06_spaces_of_a_must_break_token_are_never_read :
  forall (rs : rsettings) (W : wsettings) (lines : list lline) (l l' : list ftoken),
  Forall2 tok_rel l l' ->
  differing_are_must_break (map tokinfo_of l) (map tokinfo_of l') lines ->
  snd (fst (olf_model rs W false lines l)) = snd (fst (olf_model rs W false lines l')) /\
  snd (olf_model rs W false lines l) = snd (olf_model rs W false lines l') /\
  Forall2 out_rel (fst (fst (olf_model rs W false lines l)))
    (fst (fst (olf_model rs W false lines l'))).
Proof. exact olf_model_sp. Qed.


