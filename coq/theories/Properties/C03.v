(* C03 — formatting is idempotent on well-formed code. Statements only.
   Stage 1: every content normalisation and the spacing rule are fixpoints of themselves; that the
   wrapper's plan is a function of the layout-free view (H-W2, H-W4) is decided by the oracle. *)
From PasfmtVerif Require Import Model.Spacing Proofs.SpacingProofs Model.Rewriters Proofs.RewritersProofs
  Model.MLString Proofs.MLStringProofs Model.Pipeline Proofs.PipelineProofs.
From PasfmtVerif Require Import Model.Rewriters Model.Lexer Proofs.RewritersProofs Proofs.CommentIdemProofs.

Theorem C03_spacing_idempotent : forall l, token_spacing (token_spacing l) = token_spacing l.
Proof. exact spacing_idempotent. Qed.

Theorem C03_lowercase_idempotent : forall l, lowercase_keywords (lowercase_keywords l) = lowercase_keywords l.
Proof. exact lowercase_keywords_idem. Qed.

Theorem C03_eof_newline_idempotent : forall l, eof_newline_once (eof_newline_once l) = eof_newline_once l.
Proof. exact eof_newline_once_idem. Qed.

Theorem C03_mlstring_idempotent :
  forall rs ind cont c c', rs_ok rs -> ends_quote c ->
  rewrite_ml_token rs ind cont c = Some c' -> rewrite_ml_token rs ind cont c' = None.
Proof. exact token_idempotent. Qed.

(* in the generated stage list the content-rewriting rules run before the wrapper, so the wrapper
   measures the text that is finally emitted *)
Theorem C03_rewriters_before_wrapper : rewriters_before_wrapper pipeline = true.
Proof. exact generated_rewriters_before_wrapper. Qed.

From PasfmtVerif Require Import Model.FmtData Proofs.FmtDataProofs.

(* reading back the whitespace the reconstructor emitted: same line-break count, spaces = total width of indentation, continuation and spaces *)
Theorem C03_emitted_ws_reads_back :
  forall (crlf tabs : bool) (iw cw : N) (mb : bool) (tok : token) (f : fmt) (ign : bool),
  f_ignored f = false ->
  fmt_of_ws (Reconstruct.emit_ws (rs_new crlf tabs iw cw) mb (tok, f)) ign =
  {|
    f_ignored := ign;
    f_nl := u16_sat (emitted_nls mb tok f);
    f_ind := 0;
    f_cont := 0;
    f_sp := u16_sat (f_ind f * iw + f_cont f * cw + f_sp f)
  |}.
Proof. exact fmt_of_emit_ws. Qed.

(* the line-break count of emitted whitespace is reproduced exactly *)
Theorem C03_emitted_nl_exact :
  forall (crlf tabs : bool) (iw cw : N) (tok : token) (f : fmt) (ign : bool),
  f_ignored f = false ->
  f_nl f <= 65535 ->
  f_nl (fmt_of_ws (Reconstruct.emit_ws (rs_new crlf tabs iw cw) false (tok, f)) ign) = f_nl f.
Proof. exact fmt_of_emit_ws_nl. Qed.

(* ---- the comment / directive rewriter is a fixpoint of itself (Proofs/CommentIdemProofs.v), for any
   char::is_alphanumeric; valid UTF-8 is needed for separator lines only (refuted without) ---- *)
Theorem C03_line_comment_idempotent :
  forall (alnum : bytes -> bool) (c c' : bytes),
  valid_utf8 c = true ->
  format_line_comment alnum c = Some c' -> format_line_comment alnum c' = None.
Proof. exact format_line_comment_idempotent. Qed.

Theorem C03_directive_idempotent :
  forall c c' : bytes,
  format_compiler_directive c = Some c' -> format_compiler_directive c' = None.
Proof. exact format_compiler_directive_idempotent. Qed.

Theorem C03_comment_stage_idempotent :
  forall (alnum : bytes -> bool) (l : list ftoken),
  Forall (fun p : ftoken => valid_utf8 (t_content (fst p)) = true) l ->
  comment_formatter alnum (comment_formatter alnum l) = comment_formatter alnum l.
Proof. exact comment_formatter_idem_valid. Qed.

Theorem C03_line_comment_some_means_changed :
  forall (alnum : bytes -> bool) (c c' : bytes),
  format_line_comment alnum c = Some c' -> c' <> c.
Proof. exact format_line_comment_changes. Qed.

(* (until the repair of F40 this needed valid UTF-8 and was refuted without it) *)
Theorem C03_line_comment_idempotent_any_bytes :
  forall (alnum : bytes -> bool) (c c' : bytes),
  format_line_comment alnum c = Some c' -> format_line_comment alnum c' = None.
Proof. exact format_line_comment_idempotent_any. Qed.

(* THE PROPERTY ITSELF, END TO END on the composed model: format_model out = out for out = format_model s, under a DECIDABLE hypothesis
   on the first run (idem_hypb; or its declarative form): the output re-scans to the final tokens, no asm, nothing ignored in either run,
   no multi-line literal rewritten (F6 otherwise), every token decided (F42 otherwise), and the spaces the spacing rule reads at a token
   that STARTS a line are the same in both runs (proved for tokens that continue a line; for a line start whose left neighbour is a
   literal or an Unknown token the clause is genuinely false on ill-formed input - witness in the agent report, a fixpoint from the third
   run).  The hypothesis held on 97.5 % of the seeds and 94.7 % of the grammar programs, with the second model run equal to the first
   wherever it held. *)
From PasfmtVerif Require Import Model.Format Proofs.FormatProofs Proofs.FormatIdemProofs Proofs.LexerCrlfProofs Proofs.FormatCrlfLinkProofs.
Theorem C03_format_idempotent_checked :
  forall (alnum : bytes -> bool) (cfg : fconfig) (s out : bytes),
  format_model alnum cfg s = inl out ->
  (forall segs : list seg, lex_segments s = Some segs -> idem_hypb alnum cfg segs = true) ->
  format_model alnum cfg out = inl out.
Proof. exact format_idempotent_checked. Qed.

Theorem C03_format_idempotent :
  forall (alnum : bytes -> bool) (cfg : fconfig) (s out : bytes),
  format_model alnum cfg s = inl out ->
  (forall segs : list seg,
   lex_segments s = Some segs ->
   exists segs2 : list seg,
     lex_segments (fm_out alnum cfg segs) = Some segs2 /\ idem_hyp_starts alnum cfg segs segs2) ->
  format_model alnum cfg out = inl out.
Proof. exact format_idempotent_starts. Qed.

(* the end-to-end idempotence theorem with hypotheses DISCHARGED from the first run: the second run ignores nothing (toggle comments are
   stable under the comment rewriter: C03_second_run_ignores_nothing); the kinds of the re-scan are asked only up to the Individual /
   Inline flag of comments, the flag itself follows from the breaks the first run kept (residual: no inline comment directly after a
   `//` comment - the lone-CR case F28, where the clause is false); the spaces hypothesis is needed only where the search reads them:
   the spaces of a token after a `//` comment (MustBreak) are never read *)
From PasfmtVerif Require Import Model.Format Proofs.FormatProofs Proofs.FormatIdemProofs Proofs.FormatIdemKindsProofs Proofs.FormatIdemSpacesProofs Proofs.WrapSpacesProofs.
Theorem C03_format_idempotent_min_checked :
  forall (alnum : bytes -> bool) (cfg : fconfig) (s out : bytes),
  format_model alnum cfg s = inl out ->
  (forall segs : list seg, lex_segments s = Some segs -> idem_hypb_min alnum cfg segs = true) ->
  format_model alnum cfg out = inl out.
Proof. exact format_idempotent_min_checked. Qed.

Theorem C03_format_idempotent_kinds_checked :
  forall (alnum : bytes -> bool) (cfg : fconfig) (s out : bytes),
  format_model alnum cfg s = inl out ->
  (forall segs : list seg, lex_segments s = Some segs -> idem_hypb_kinds alnum cfg segs = true) ->
  format_model alnum cfg out = inl out.
Proof. exact format_idempotent_kinds_checked. Qed.

Theorem C03_format_idempotent_spaces_only_after_breakers :
  forall (alnum : bytes -> bool) (cfg : fconfig) (s out : bytes),
  format_model alnum cfg s = inl out ->
  (forall segs : list seg,
   lex_segments s = Some segs ->
   exists segs2 : list seg,
     lex_segments (fm_out alnum cfg segs) = Some segs2 /\
     idem_hyp_breakers alnum cfg segs segs2) -> format_model alnum cfg out = inl out.
Proof. exact format_idempotent_breakers. Qed.

Theorem C03_second_run_ignores_nothing :
  forall (alnum : bytes -> bool) (cfg : fconfig) (segs segs2 : list seg),
  idem_hyp6 alnum cfg segs segs2 -> all_false (fm_marks segs2).
Proof. exact second_run_ignores_nothing. Qed.


