(* C03 — formatting is idempotent on well-formed code. Statements only.
   Stage 1: every content normalisation and the spacing rule are fixpoints of themselves; that the
   wrapper's plan is a function of the layout-free view (H-W2, H-W4) is decided by the oracle. *)
From PasfmtVerif Require Import Model.Spacing Proofs.SpacingProofs Model.Rewriters Proofs.RewritersProofs
  Model.MLString Proofs.MLStringProofs Model.Pipeline Proofs.PipelineProofs.

Theorem C03_spacing_idempotent : forall l, token_spacing (token_spacing l) = token_spacing l.
Proof. exact spacing_idempotent. Qed.

Theorem C03_lowercase_idempotent : forall l, lowercase_keywords (lowercase_keywords l) = lowercase_keywords l.
Proof. exact lowercase_keywords_idem. Qed.

Theorem C03_eof_newline_idempotent : forall l, eof_newline_once (eof_newline_once l) = eof_newline_once l.
Proof. exact eof_newline_once_idem. Qed.

Theorem C03_mlstring_idempotent :
  forall rs ind cont c c', rs_ok rs -> ends_quote c ->
  rewrite_ml_token rs ind cont c = Some c' -> rewrite_ml_token rs ind cont c' = None.
Proof. exact token_idempotent. Qed.

(* in the generated stage list the content-rewriting rules run before the wrapper, so the wrapper
   measures the text that is finally emitted *)
Theorem C03_rewriters_before_wrapper : rewriters_before_wrapper pipeline = true.
Proof. exact generated_rewriters_before_wrapper. Qed.
