(* C04 — formatting always terminates without aborting. Statements only.
   What a theorem can carry: no error value / enough fuel / no underflow in modelled code, and the
   linear bound on conditional-directive passes. Termination and stack depth of the real grammar
   recursion and of the wrapper's search are runtime behaviour (sampled by the watchdog oracle). *)
From PasfmtVerif Require Import Model.DirectiveTree Proofs.DirectiveTreeProofs Model.Cursor Proofs.CursorProofs.

(* parsing the directive tree never runs out of fuel *)
Theorem C04_directive_parse_total : forall l, exists t, parse_opt l = Some t /\ parse l = t.
Proof. exact parse_total. Qed.

(* the number of passes is linear in the number of conditional directives: no exponential blow-up *)
Theorem C04_passes_linear :
  forall l, (1 <= length (all_passes l))%nat /\ (length (all_passes l) <= nflat (parse l))%nat
            /\ (nflat (parse l) <= 2 * ndir l + 1)%nat.
Proof. exact passes_terminate_linear. Qed.

(* each pass makes progress: it explores a previously unexplored flat section *)
Theorem C04_pass_progress :
  forall t t' p, pass_tree t = (t', p) ->
  (unexp t' <= unexp t)%nat /\ (unexp t <> 0%nat -> (unexp t' < unexp t)%nat).
Proof. exact pass_tree_progress. Qed.

(* cursor relocation: no usize subtraction can go negative (the F1/F20 class is closed) *)
Theorem C04_cursor_no_underflow :
  forall rs toks idx p pos, nth_error toks idx = Some p ->
  Forall (fun z => (0 <= z)%Z) (relocate_subs rs toks idx p pos).
Proof. exact relocate_no_underflow. Qed.

(* a cursor on a character boundary never makes process_cursors slice inside a character *)
Theorem C04_cursor_boundary_no_panic :
  forall toks c, input_boundary (raw_text toks) c -> process_cursor_ok toks c = true.
Proof. exact process_cursor_ok_boundary. Qed.

(* the grammar model: every leaf loop of the parser terminates within (remaining tokens + 1) iterations, never lowers
   pass_index and returns an errored state unchanged; every op handed to op_until consumes a token while the loop continues;
   over the whole (mutually recursive) grammar pass_index never decreases; the arithmetic panic sites cannot fire *)
From PasfmtVerif Require Import Model.ParserGrammar Proofs.ParserKernelProofs Proofs.ParserGrammarProofs Proofs.ParserGrammarRunProofs.
Theorem C04_parser_leaves_terminate :
  forall pass : list nat,
  leaf_ok pass (next_token pass) /\
  leaf_ok pass (skip_pair pass) /\
  leaf_ok pass (take_until pass (no_more_separators pass)) /\
  leaf_ok pass (fix_next_eq pass) /\
  leaf_ok pass (parse_parameter_list pass) /\
  leaf_ok pass (parse_expression pass) /\
  leaf_ok pass (parse_routine_header pass) /\
  leaf_ok pass (finish_logical_line pass) /\
  leaf_ok pass (make_unfinished_line pass) /\
  leaf_ok pass (parse_property_declaration pass) /\
  leaf_ok pass (consolidate_portability_directives pass) /\
  (forall lvl : clevel, leaf_ok pass (take_separators_on_last_line pass lvl)) /\
  leaf_ok pass (skip_token pass) /\
  (forall wsnl : list bool, leaf_ok pass (parse_asm_instructions pass wsnl)).
Proof. exact leaves_terminate. Qed.

Theorem C04_parser_ops_consume :
  forall pass : list nat,
  op_ok pass (routine_header_op pass) /\
  op_ok pass (fun s : pstate pass => (property_op pass s, true)) /\
  op_ok pass (fun s : pstate pass => (parse_exports_op pass s, true)) /\
  op_ok pass (fun s : pstate pass => (next_token pass s, true)) /\
  (forall p : KeywordKind -> bool,
   op_ok pass (fun s : pstate pass => (keyword_consolidator pass p s, true))) /\
  op_ok pass (fun s : pstate pass => (enum_op pass s, true)) /\
  op_ok pass (fun s : pstate pass => (import_op pass s, true)).
Proof. exact grammar_ops_ok. Qed.

Theorem C04_parser_pass_index_monotone :
  forall (pass : list nat) (wsnl : list bool) (fuel : nat) (c : call) (s : pstate pass),
  (pidx pass s <= pidx pass (run pass wsnl fuel c s))%nat.
Proof. exact run_pidx_monotone. Qed.

Theorem C04_parser_error_is_final :
  forall (pass : list nat) (wsnl : list bool) (fuel : nat) (c : call) (s : pstate pass),
  ps_err pass s <> None -> run pass wsnl fuel c s = s.
Proof. exact run_error_unchanged. Qed.

Theorem C04_parser_next_token_fuel :
  forall (pass : list nat) (fuel : nat) (s : pstate pass),
  ps_err pass s = None ->
  (remaining pass s + 1 <= fuel)%nat ->
  ps_err pass (next_token_go pass fuel s) <> Some E_fuel /\
  (pidx pass s <= pidx pass (next_token_go pass fuel s))%nat.
Proof. exact next_token_go_enough_fuel. Qed.

Theorem C04_parser_skip_pair_fuel :
  forall (pass : list nat) (fuel : nat) (p b g : N) (chev : bool) (s : pstate pass),
  ps_err pass s = None ->
  (remaining pass s + 1 <= fuel)%nat ->
  ps_err pass (skip_pair_go pass fuel p b g chev s) <> Some E_fuel /\
  (pidx pass s <= pidx pass (skip_pair_go pass fuel p b g chev s))%nat.
Proof. exact skip_pair_go_enough_fuel. Qed.

Theorem C04_parser_op_until_fuel :
  forall (pass : list nat) (fuel : nat) (pred : pstate pass -> bool)
    (op : pstate pass -> pstate pass * bool) (s : pstate pass),
  op_ok pass op ->
  ps_err pass s = None ->
  (remaining pass s + 1 <= fuel)%nat ->
  ps_err pass (op_until_go pass fuel pred op s) <> Some E_fuel /\
  (pidx pass s <= pidx pass (op_until_go pass fuel pred op s))%nat.
Proof. exact op_until_go_enough_fuel. Qed.

Theorem C04_parser_parameter_list_fuel :
  forall (pass : list nat) (fuel : nat) (p0 : N) (consumed : bool) (s : pstate pass),
  ps_err pass s = None ->
  (remaining pass s + 1 <= fuel)%nat ->
  ps_err pass (parameter_list_go pass fuel p0 consumed s) <> Some E_fuel /\
  (pidx pass s <= pidx pass (parameter_list_go pass fuel p0 consumed s))%nat.
Proof. exact parameter_list_go_enough_fuel. Qed.

Theorem C04_parser_expression_fuel :
  forall (pass : list nat) (fuel : nat) (s : pstate pass),
  ps_err pass s = None ->
  (remaining pass s + 1 <= fuel)%nat ->
  ps_err pass (parse_expression_go pass fuel s) <> Some E_fuel /\
  (pidx pass s <= pidx pass (parse_expression_go pass fuel s))%nat.
Proof. exact parse_expression_go_enough_fuel. Qed.

Theorem C04_parser_directive_lookahead_no_panic :
  forall pass : list nat,
  increasing pass -> forall s : pstate pass, is_directive_before_next_token pass s <> None.
Proof. exact is_directive_before_next_token_no_panic. Qed.

Theorem C04_parser_directive_lookbehind_no_panic :
  forall pass : list nat,
  increasing pass -> forall s : pstate pass, is_directive_after_prev_token pass s <> None.
Proof. exact is_directive_after_prev_token_no_panic. Qed.

Theorem C04_parser_portability_no_panic :
  forall (pass : list nat) (s : pstate pass),
  at_start pass s = false ->
  ps_err pass s = None -> ps_err pass (consolidate_portability_directives pass s) = None.
Proof. exact consolidate_portability_directives_no_panic. Qed.

(* the search model: the main loop of find_optimal_solution pops at most iteration_max + 2 nodes; the supplied fuel is never
   exhausted, for any child solver *)
From PasfmtVerif Require Import Model.WrapContexts Model.WrapSearch Model.WrapFormat Proofs.WrapSearchProofs Proofs.WrapSearchDeepProofs.
Theorem C04_search_main_loop_bounded :
  forall (W : wsettings) (lvs : list lview)
    (child_solve : sst -> lview -> N * N -> first_decision -> sst * option solution)
    (lv : lview) (fuel : nat) (h : heap) (iter : N) (best : list N) 
    (st : sst),
  (N.to_nat iter <= N.to_nat (w_iter W) + 1)%nat ->
  (N.to_nat (w_iter W) + 2 < fuel + N.to_nat iter)%nat ->
  snd (main_loop W lvs child_solve lv fuel h iter best st) <> SR_fuel.
Proof. exact main_loop_no_fuel. Qed.

Theorem C04_search_terminates_within_iteration_limit :
  forall (W : wsettings) (lvs : list lview)
    (child_solve : sst -> lview -> N * N -> first_decision -> sst * option solution)
    (lv : lview) (st : sst) (ws : N * N) (first : first_decision),
  snd (find_optimal_solution W lvs (main_fuel W) child_solve lv st ws first) <> SR_fuel.
Proof. exact find_optimal_solution_no_fuel. Qed.

Theorem C04_search_walk_bounded :
  forall (W : wsettings) (lvs : list lview)
    (child_solve : sst -> lview -> N * N -> first_decision -> sst * option solution)
    (lv : lview) (f1 f2 : nat) (nd : node) (indiff : option node) 
    (best : list N) (st : sst),
  (len nd < f2)%nat ->
  (base nd indiff < f1)%nat ->
  (len nd <= base nd indiff)%nat ->
  fst (fst (walk W lvs child_solve lv f1 f2 nd indiff best st)) <> W_fuel.
Proof. exact walk_no_fuel. Qed.

(* the search model: child lines are later lines, so the recursion into child lines descends; with the fuel the model supplies no
   fuel error can occur in either phase when parents precede their children *)
From PasfmtVerif Require Import Model.WrapContexts Model.WrapSearch Model.WrapFormat Proofs.WrapSearchProofs Proofs.WrapSearchDeepProofs Proofs.WrapFitsProofs Proofs.WrapDepthProofs Proofs.WrapEventsProofs Proofs.WrapPhasesProofs Proofs.WrapAliasProofs.
Theorem C04_search_never_out_of_fuel :
  forall (rs : rsettings) (W : wsettings) (format_ml : bool) (lines : list lline)
    (l : list ftoken),
  parents_ok lines = true -> snd (olf_model rs W format_ml lines l) = false.
Proof. exact olf_model_no_fuel_err. Qed.

Theorem C04_search_child_lines_are_later_lines :
  forall lines : list iline,
  iparents_ok_from 0 lines -> Forall entry_later (get_line_children lines).
Proof. exact line_children_later. Qed.

Theorem C04_search_solve_no_fuel :
  forall (W : wsettings) (lvs : list lview),
  views_wf lvs ->
  forall (depth : nat) (st : sst) (lv : lview) (i : nat) (ws : N * N) (first : first_decision),
  nth_error lvs i = Some lv ->
  (length lvs - i < depth)%nat ->
  noerr st -> noerr (fst (solve W lvs (main_fuel W) depth st lv ws first)).
Proof. exact solve_no_fuel_err. Qed.

(* END TO END, on the composed model Model/Format.v: format_model (the stage models folded over the stage list GENERATED from make_formatter,
   from the input bytes to the output bytes; tied to the implementation byte for byte and stage by stage by unit e2e). Totality: the composed
   run returns an output unless the parser model's own explicit error value (grammar fuel or one of three named panic sites) is hit; lexer
   fuel, generics, the directive consolidator's underflow and the search's fuel are excluded for every input. *)
From PasfmtVerif Require Import Model.Format Proofs.FormatProofs Proofs.FormatTotalProofs Proofs.FormatWrapProofs Proofs.FormatIgnoredProofs Proofs.FormatVerbatimProofs Proofs.FormatLayoutProofs Proofs.FormatRescanProofs Proofs.FormatContentProofs Proofs.FormatMLProofs Proofs.FormatContentMLProofs Proofs.FormatEofProofs.
Theorem C04_format_total :
  forall (alnum : bytes -> bool) (cfg : fconfig) (s : bytes),
  (exists out : bytes, format_model alnum cfg s = inl out) \/
  (exists pe : perr, format_model alnum cfg s = inr (FE_parse pe)).
Proof. exact format_total. Qed.

Theorem C04_format_fails_only_in_parser :
  forall (alnum : bytes -> bool) (cfg : fconfig) (s : bytes) (e : ferr),
  format_model alnum cfg s = inr e ->
  exists (segs : list seg) (pe : perr),
    lex_segments s = Some segs /\ r_err (fm_parse segs) = Some pe /\ e = FE_parse pe.
Proof. exact format_fails_only_in_parser. Qed.

(* for every program of the fragment the composed run cannot fail *)
From PasfmtVerif Require Import Model.Format Proofs.FormatProofs Proofs.FormatTotalProofs Proofs.FormatTabsProofs Proofs.FormatWsProofs Proofs.FormatCrlfProofs Proofs.FormatRelayoutProofs Proofs.FormatFragmentProofs.
Theorem C04_format_fragment_total :
  forall (alnum : bytes -> bool) (cfg : fconfig) (s : bytes) (segs : list seg)
    (ss : Fragment.stmts),
  Fragment.wf ss = true ->
  lex_segments s = Some segs ->
  map seg_ty segs = Fragment.render_prog ss ->
  format_model alnum cfg s = inl (fm_out alnum cfg segs).
Proof. exact format_fragment_total. Qed.

(* the composed run cannot fail on programs of the fragment with declaration sections *)
From PasfmtVerif Require Import Model.Fragment Proofs.FragmentProofs Proofs.FragmentParentsProofs Proofs.FragmentUnitProofs Model.Format Proofs.FormatFragmentProofs.
Theorem C04_format_fragment_unit_total :
  forall (alnum : bytes -> bool) (cfg : fconfig) (s : bytes) (segs : list seg)
    (ds : list decl) (ss : stmts),
  wf ss = true ->
  lex_segments s = Some segs ->
  map seg_ty segs = render_unit ds ss ->
  format_model alnum cfg s = inl (fm_out alnum cfg segs).
Proof. exact format_fragment_unit_total. Qed.


