(* C04 — formatting always terminates without aborting. Statements only.
   What a theorem can carry: no error value / enough fuel / no underflow in modelled code, and the
   linear bound on conditional-directive passes. Termination and stack depth of the real grammar
   recursion and of the wrapper's search are runtime behaviour (sampled by the watchdog oracle). *)
From PasfmtVerif Require Import Model.DirectiveTree Proofs.DirectiveTreeProofs Model.Cursor Proofs.CursorProofs.

(* parsing the directive tree never runs out of fuel *)
Theorem C04_directive_parse_total : forall l, exists t, parse_opt l = Some t /\ parse l = t.
Proof. exact parse_total. Qed.

(* the number of passes is linear in the number of conditional directives: no exponential blow-up *)
Theorem C04_passes_linear :
  forall l, (1 <= length (all_passes l))%nat /\ (length (all_passes l) <= nflat (parse l))%nat
            /\ (nflat (parse l) <= 2 * ndir l + 1)%nat.
Proof. exact passes_terminate_linear. Qed.

(* each pass makes progress: it explores a previously unexplored flat section *)
Theorem C04_pass_progress :
  forall t t' p, pass_tree t = (t', p) ->
  (unexp t' <= unexp t)%nat /\ (unexp t <> 0%nat -> (unexp t' < unexp t)%nat).
Proof. exact pass_tree_progress. Qed.

(* cursor relocation: no usize subtraction can go negative (the F1/F20 class is closed) *)
Theorem C04_cursor_no_underflow :
  forall rs toks idx p pos, nth_error toks idx = Some p ->
  Forall (fun z => (0 <= z)%Z) (relocate_subs rs toks idx p pos).
Proof. exact relocate_no_underflow. Qed.

(* a cursor on a character boundary never makes process_cursors slice inside a character *)
Theorem C04_cursor_boundary_no_panic :
  forall toks c, input_boundary (raw_text toks) c -> process_cursor_ok toks c = true.
Proof. exact process_cursor_ok_boundary. Qed.
