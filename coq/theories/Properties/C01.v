(* C01 — formatting preserves every non-blank character, in order.  Statements only. *)
From Coq Require Import String.
From PasfmtVerif Require Import Model.Lexer Model.Pipeline Model.Reconstruct Proofs.ReconstructProofs
  Proofs.RewritersProofs Proofs.PipelineProofs Proofs.EndToEnd.

(* Reconstruction emits each token's content exactly once, in order, and nothing else that is not
   blank — for ALL counters, ignore marks and settings. *)
Theorem C01_reconstruct_nonblank :
  forall rs mb l, rs_wf rs -> Forall tok_ok l ->
  strip (recon rs mb l) = concat (map (fun p => strip (t_content (fst p))) l).
Proof. exact recon_strip. Qed.

(* Every configuration yields well-formed settings (so the premise above is never vacuous) *)
Theorem C01_settings_wf : forall crlf tabs tw ci, rs_wf (rs_of_config crlf tabs tw ci).
Proof. exact rs_of_config_wf. Qed.

(* The stage list regenerated from make_formatter consists of modelled pre-stages, then formatters
   of admissible kinds, then the modelled reconstructor; no TokenRemover exists. *)
Theorem C01_generated_pipeline_admissible :
  pipeline_shape pipeline = Some [FCounters; FLower; FComment; FCounters; FWrap].
Proof. exact generated_pipeline_shape. Qed.

Theorem C01_set_content_sites_are_the_modelled_ones :
  strings_eqb inv_set_content expected_set_content = true /\ inv_token_remover_impls = [].
Proof. exact (conj inventory_set_content inventory_no_token_remover). Qed.

(* For ANY chain of admissible formatting steps (whatever counters the spacing rule and the wrapper
   choose, whichever multi-line strings are re-indented), any settings: the output's non-blank
   characters are those of the token contents, up to ASCII case. *)
Theorem C01_chain_preserves_nonblank :
  forall ks rs l l', chain ks l l' -> Forall tok_ok l -> rs_wf rs ->
  fold_case (strip (reconstruct rs l')) = fold_case (contents_nonblank l).
Proof. exact chain_reconstruct_nonblank. Qed.

(* Case can change only in keywords (lower-cased) and directive names; line comments and
   multi-line strings keep their non-blank bytes exactly: the per-token relation *)
Theorem C01_lowercase_rel : forall p, c01_rel p (lowercase_tok p).
Proof. exact lowercase_tok_rel. Qed.
Theorem C01_comment_rel : forall alnum p, c01_rel p (comment_tok alnum p).
Proof. exact comment_tok_rel. Qed.
Theorem C01_line_comment_exact : forall alnum c c', format_line_comment alnum c = Some c' -> strip c' = strip c.
Proof. exact format_line_comment_strip. Qed.
Theorem C01_directive_case_only :
  forall c c', format_compiler_directive c = Some c' -> fold_case c' = fold_case c /\ length c' = length c.
Proof. exact format_compiler_directive_fold. Qed.

(* The whole statement: for EVERY valid UTF-8 input, every typing / marking / initial counters the
   parser side may produce, every chain of admissible formatting steps and all settings, the output
   has the same non-blank characters as the input, up to ASCII case. *)
Theorem C01_end_to_end :
  forall s, valid_utf8 s = true ->
  exists toks, lex s = Some toks /\
  forall l ks l' rs, carries (segments toks s) l -> chain ks l l' -> rs_wf rs ->
  fold_case (strip (reconstruct rs l')) = fold_case (strip s).
Proof. exact format_preserves_nonblank_total. Qed.

From PasfmtVerif Require Import Model.MLString Proofs.MLStringProofs Proofs.WrapStepProofs.

(* the re-indentation of a multi-line string is an admissible FWrap step (same non-blank bytes, starts with its quote) *)
Theorem C01_mlstring_rewrite_is_admissible_step :
  forall (rs : rsettings) (ind cont : N) (tok : token) (f f' : fmt) (c' : bytes),
  is_ml_string (t_ty tok) = true ->
  f_ignored f = false ->
  f_ignored f' = f_ignored f ->
  rs_blank rs ->
  lines_complete (t_content tok) ->
  (exists r : list N, t_content tok = 39 :: r) ->
  rewrite_ml_token rs ind cont (t_content tok) = Some c' ->
  PipelineProofs.wrap_tok (tok, f) (Rewriters.set_content tok c', f').
Proof. exact rewrite_is_wrap_step. Qed.

(* the whole string-formatting loop is one admissible step of the chain *)
Theorem C01_mlstring_stage_is_FWrap :
  forall (rs : rsettings) (l : list ftoken),
  rs_blank rs ->
  Forall
    (fun p : token * fmt =>
     is_ml_string (t_ty (fst p)) = true ->
     lines_complete (t_content (fst p)) /\ (exists r : list N, t_content (fst p) = 39 :: r)) l ->
  PipelineProofs.step Pipeline.FWrap l (map (ml_stage_tok rs) l).
Proof. exact ml_stage_is_FWrap_step. Qed.

(* the case clause for compiler directives: whatever the directive rewriter changes is letter case within the name - the run of
   name bytes right after the opener (r01_directive, the relation the unit r01 evaluates on every real token) *)
From PasfmtVerif Require Import Model.Rewriters Proofs.R01DirectiveProofs.
Theorem C01_directive_case_changes_only_in_its_name :
  forall c c' : bytes, format_compiler_directive c = Some c' -> r01_directive c c' = true.
Proof. exact format_compiler_directive_r01. Qed.

(* END TO END, on the composed model Model/Format.v: format_model (the stage models folded over the stage list GENERATED from make_formatter,
   from the input bytes to the output bytes; tied to the implementation byte for byte and stage by stage by unit e2e). The whole of C01's
   first sentence for the composed run, without side condition; and the stage order the model runs is the generated one. *)
From PasfmtVerif Require Import Model.Format Proofs.FormatProofs Proofs.FormatTotalProofs Proofs.FormatWrapProofs Proofs.FormatIgnoredProofs Proofs.FormatVerbatimProofs Proofs.FormatLayoutProofs Proofs.FormatRescanProofs Proofs.FormatContentProofs Proofs.FormatMLProofs Proofs.FormatContentMLProofs Proofs.FormatEofProofs.
Theorem C01_format_preserves_nonblank :
  forall (alnum : bytes -> bool) (cfg : fconfig) (s out : bytes),
  valid_utf8 s = true ->
  format_model alnum cfg s = inl out -> fold_case (strip out) = fold_case (strip s).
Proof. exact format_preserves_nonblank. Qed.

Theorem C01_format_model_runs_the_generated_stage_list :
  classify_all pipeline = Some make_formatter_kinds.
Proof. exact pipeline_kinds. Qed.


