(* C01 — formatting preserves every non-blank character, in order.  Statements only. *)
From PasfmtVerif Require Import Model.Reconstruct Proofs.ReconstructProofs.

(* Reconstruction emits each token's content exactly once, in order, and nothing else that is not
   blank — for ALL counters, ignore marks and settings. *)
Theorem C01_reconstruct_nonblank :
  forall rs mb l, rs_wf rs -> Forall tok_ok l ->
  strip (recon rs mb l) = concat (map (fun p => strip (t_content (fst p))) l).
Proof. exact recon_strip. Qed.

(* Every configuration yields well-formed settings (so the premise above is never vacuous) *)
Theorem C01_settings_wf : forall crlf tabs tw ci, rs_wf (rs_of_config crlf tabs tw ci).
Proof. exact rs_of_config_wf. Qed.
