(* C12 — multi-line string literals keep their value. Statements only. *)
From PasfmtVerif Require Import Model.MLString Model.MLValue Proofs.MLStringProofs.
From PasfmtVerif Require Import Model.WrapApply Proofs.WrapApplyProofs.

(* rs_ok: newline is LF or CRLF, indentation strings are made of spaces/tabs (always true for
   settings built from a configuration).  ends_quote: the literal ends with a quote (lexer). *)

(* whenever the formatter rewrites a literal, its VALUE (interior lines relative to the closing
   quotes' indentation, trailing blanks included) is unchanged — all indentations, terminators,
   quote counts, blank kinds *)
Theorem C12_value_preserved :
  forall rs ind cont c c', rs_ok rs -> ends_quote c ->
  rewrite_ml_token rs ind cont c = Some c' -> ml_value c' = ml_value c.
Proof. exact token_value_preserved. Qed.

(* after the rewrite: all terminators are the configured newline; the opening line is unchanged;
   every non-empty interior line and the closing line start with exactly ind x indent ++ cont x
   continuation; empty lines stay empty; and only eligible literals are rewritten *)
Theorem C12_reindented :
  forall rs ind cont c c', rs_ok rs -> ends_quote c ->
  rewrite_ml_token rs ind cont c = Some c' ->
  let indent := nrepeat ind (rs_indent rs) ++ nrepeat cont (rs_cont rs) in
  eligible c = true /\ c' <> c /\
  c' = join (rs_newline rs) (lines_custom c') /\
  forallb no_term (lines_custom c') = true /\
  hd [] (lines_custom c') = hd [] (lines_custom c) /\
  tl (lines_custom c') = map (reindent_line indent (closing_indent c)) (tl (lines_custom c)) /\
  Forall (fun l' => l' = [] \/ exists s, s <> [] /\ l' = indent ++ s) (tl (lines_custom c')) /\
  (tl (lines_custom c) <> [] -> closing_indent c' = indent).
Proof. exact token_reindented. Qed.

(* exactly the eligible literals are rewritten, and an eligible literal is left alone only when it
   already is in the target form *)
Theorem C12_rewritten_iff_eligible :
  forall rs ind cont c c',
  (rewrite_ml_token rs ind cont c = Some c' <->
   eligible c = true /\ try_rewrite_string rs ind cont c (closing_indent c) = Some c' /\ c' <> c).
Proof. exact rewrite_some_iff_eligible. Qed.

Theorem C12_eligible_implies_rewritten :
  forall rs ind cont c, eligible c = true ->
  (rewrite_ml_token rs ind cont c = None <-> try_rewrite_string rs ind cont c (closing_indent c) = Some c).
Proof. exact eligible_implies_rewritten. Qed.

(* a second pass with the same indentation leaves the literal alone (C03) *)
Theorem C12_idempotent :
  forall rs ind cont c c', rs_ok rs -> ends_quote c ->
  rewrite_ml_token rs ind cont c = Some c' -> rewrite_ml_token rs ind cont c' = None.
Proof. exact token_idempotent. Qed.

(* the non-blank bytes are untouched (C01) *)
Theorem C12_nonblank_preserved :
  forall rs ind cont c c', rs_blank rs -> lines_complete c ->
  rewrite_ml_token rs ind cont c = Some c' -> strip c' = strip c.
Proof. exact token_strip_eq. Qed.

(* ---- the wrapper changes token text only through rewrite_ml_token, on non-ignored multi-line strings ---- *)
Theorem C12_wrapper_only_rewrites_via_rewrite_ml_token :
  forall (rs : rsettings) (fm : bool) (visits : list nat)
    (plan1 plan2 : list (nat * decision)) (l : list ftoken),
  pointwise (fun p q : ftoken => ml_rewrites rs (t_content (fst p)) (t_content (fst q))) l
    (olf_effect rs fm visits plan1 plan2 l).
Proof. exact olf_effect_ml_text. Qed.

Theorem C12_wrapper_ignored_text :
  forall (rs : rsettings) (fm : bool) (visits : list nat)
    (plan1 plan2 : list (nat * decision)) (l : list (token * fmt)) 
    (j : nat) (p : token * fmt),
  nth_error l j = Some p ->
  f_ignored (snd p) = true ->
  exists q : ftoken,
    nth_error (olf_effect rs fm visits plan1 plan2 l) j = Some q /\
    fst q = fst p /\ f_ignored (snd q) = true.
Proof. exact olf_effect_ignored_text. Qed.

