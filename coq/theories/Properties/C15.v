(* C15 — cursor tracking keeps cursors on the same text and never alters the result. Statements only. *)
From PasfmtVerif Require Import Model.Reconstruct Model.Cursor Proofs.ReconstructProofs Proofs.CursorProofs.

(* offset_for_token is the byte offset of the token's content in the output — unconditionally
   since commit 65fa795 (F10 repaired: the safety-net line break is counted) *)
Theorem C15_offset_for_token_correct :
  forall rs toks i p, nth_error toks i = Some p ->
  exists pre post,
    recon rs false toks = pre ++ t_content (fst p) ++ post /\
    blen pre = offset_for_token rs toks i /\
    pre = recon rs false (firstn i toks) ++ emit_ws rs (mb_after false (firstn i toks)) p /\
    post = recon rs (is_sl_comment (t_ty (fst p))) (skipn (S i) toks).
Proof. exact offset_for_token_correct. Qed.

(* every relocated cursor of an in-range token lies within the output *)
Theorem C15_in_bounds :
  forall rs toks idx pos p, nth_error toks idx = Some p ->
  exists z, relocate rs toks idx pos = Some z /\ (0 <= z <= Z.of_N (blen (recon rs false toks)))%Z.
Proof. exact relocate_in_bounds. Qed.

(* unconditionally in bounds when no token is ignored *)
Theorem C15_in_bounds_formatted :
  forall rs raw final c, final <> [] ->
  (forall p, last_opt final = Some p -> t_content (fst p) = []) ->
  Forall (fun p => f_ignored (snd p) = false) final ->
  exists z, track_cursor rs raw final c = Some z /\ (0 <= z <= Z.of_N (blen (recon rs false final)))%Z.
Proof. exact track_cursor_in_bounds_formatted. Qed.

(* … and with verbatim regions when the configured newline is LF *)
Theorem C15_in_bounds_lf :
  forall rs raw final c, final <> [] ->
  (forall p, last_opt final = Some p -> t_content (fst p) = []) ->
  nl_len rs <= 1 ->
  Forall (fun p => f_ignored (snd p) = true -> f_nl (snd p) <= count_lf (t_ws (fst p))) final ->
  exists z, track_cursor rs raw final c = Some z /\ (0 <= z <= Z.of_N (blen (recon rs false final)))%Z.
Proof. exact track_cursor_in_bounds_lf. Qed.

(* a cursor inside or at the end of a single-line token keeps its offset inside that token, when
   that offset is a character boundary of the token's final text (F9 repaired: otherwise it is
   moved down to the nearest boundary, see C15_char_boundary) *)
Theorem C15_same_offset :
  forall rs pre t post final p off,
  is_multiline_raw (r_ty t) = false ->
  0 < off <= blen (r_content t) -> blen (r_content t) < 4294967296 ->
  nth_error final (length pre) = Some p ->
  off <= blen (t_content (fst p)) ->
  is_char_boundary (t_content (fst p)) (N.to_nat off) = true ->
  track_cursor rs (pre ++ t :: post) final (raw_len pre + blen (r_ws t) + off)
  = Some (Z.of_N (offset_for_token rs final (length pre) + off)).
Proof. exact track_cursor_content_same_offset. Qed.

(* the same inside an unchanged multi-line token of fewer than 65536 bytes *)
Theorem C15_same_offset_multiline :
  forall rs raw ridx t tp toks idx p,
  is_multiline_raw (r_ty t) = true -> (0 <= tp <= Z.of_N (blen (r_content t)))%Z ->
  is_char_boundary (r_content t) (Z.to_nat tp) = true ->
  nth_error toks idx = Some p -> t_content (fst p) = r_content t -> blen (r_content t) < 65536 ->
  relocate rs toks idx (tokpos_of raw ridx t tp) = Some (Z.of_N (offset_for_token rs toks idx) + tp)%Z.
Proof. exact multiline_roundtrip. Qed.

(* F9 repaired: a Content / MultilineContent cursor lands on a character boundary of the token's
   NEW text, whatever that text is … *)
Theorem C15_char_boundary_token :
  forall rs toks idx p pos, nth_error toks idx = Some p ->
  match pos with PWhitespace _ _ => False | _ => True end ->
  exists k, relocate rs toks idx pos = Some (Z.of_N (offset_for_token rs toks idx) + Z.of_nat k)%Z /\
            (k <= length (t_content (fst p)))%nat /\ is_char_boundary (t_content (fst p)) k = true.
Proof. exact relocate_char_boundary. Qed.

(* … and every relocated cursor is a character boundary of the output, when no piece of the
   output starts with a UTF-8 continuation byte, the settings' strings are ASCII and, in the verbatim whitespace of ignored tokens, no continuation byte
   directly follows an LF (after_lf_ok; both conditions on the text hold for valid UTF-8) *)
Theorem C15_char_boundary :
  forall rs raw final c z, final <> [] ->
  (forall p, last_opt final = Some p -> t_content (fst p) = []) ->
  pieces_ok rs final -> rs_no_cont rs ->
  Forall (fun p => f_ignored (snd p) = true -> after_lf_ok (t_ws (fst p))) final ->
  track_cursor rs raw final c = Some z ->
  is_char_boundary (recon rs false final) (Z.to_nat z) = true.
Proof. exact track_cursor_on_char_boundary. Qed.

(* Content / MultilineContent cursors need no assumption on the whitespace *)
Theorem C15_char_boundary_content :
  forall rs raw final c idx pos z,
  pieces_ok rs final ->
  process_cursor raw c = (idx, pos) -> (idx < length final)%nat ->
  match pos with PWhitespace _ _ => False | _ => True end ->
  track_cursor rs raw final c = Some z ->
  is_char_boundary (recon rs false final) (Z.to_nat z) = true.
Proof. exact track_cursor_on_char_boundary_content. Qed.

(* regression (repaired by c3b0c3f): a whitespace cursor in verbatim whitespace containing U+3000
   (`a  ;<U+3000><U+3000>// pasfmt off`, cursor 7) used to land inside the second U+3000 (byte 7);
   it is now reported at 5, the boundary between the two blanks *)
Theorem C15_regression_verbatim_whitespace_mid_char :
  exists rs raw final c idx col nla z,
    input_boundary (raw_text raw) c /\ process_cursor raw c = (idx, PWhitespace col nla) /\
    pieces_ok rs final /\ rs_no_cont rs /\
    Forall (fun p => f_ignored (snd p) = true -> after_lf_ok (t_ws (fst p))) final /\
    track_cursor rs raw final c = Some z /\ z = 5%Z /\
    is_char_boundary (recon rs false final) (Z.to_nat z) = true /\
    is_char_boundary (recon rs false final) 7 = false /\
    map (track_cursor_u32 rs raw final) [4;7;10] = [2;5;8].
Proof. exact whitespace_verbatim_mid_char_fixed_example. Qed.

(* cursors beyond the end of the input map to the end of the output *)
Theorem C15_past_end :
  forall rs raw final c p, raw_len raw < c -> (length final <= length raw)%nat ->
  last_opt final = Some p -> t_content (fst p) = [] ->
  track_cursor rs raw final c = Some (Z.of_N (blen (recon rs false final))).
Proof. exact track_cursor_past_end. Qed.

(* no usize subtraction of relocate_cursors can go negative (F1 and F20 are repaired) *)
Theorem C15_no_underflow :
  forall rs toks idx p pos, nth_error toks idx = Some p ->
  Forall (fun z => (0 <= z)%Z) (relocate_subs rs toks idx p pos).
Proof. exact relocate_no_underflow. Qed.

(* a cursor on a character boundary of the input never makes process_cursors slice inside a character *)
Theorem C15_boundary_cursor_no_panic :
  forall toks c, input_boundary (raw_text toks) c -> process_cursor_ok toks c = true.
Proof. exact process_cursor_ok_boundary. Qed.

(* refuted as stated: blank-line cursor in a verbatim region under line_ending=crlf (finding F22),
   u16 narrowing inside a multi-line token longer than 65535 bytes (finding F19) *)
Theorem C15_regression_ignored_whitespace_crlf :
  exists rs raw final c idx pos p z,
    rs_newline rs = [13; 10] /\ process_cursor raw c = (idx, pos) /\ nth_error final idx = Some p /\
    f_ignored (snd p) = true /\ f_nl (snd p) = count_lf (t_ws (fst p)) /\
    recon rs false final = concat (map r_str raw) /\
    track_cursor rs raw final c = Some z /\ (0 <= z <= Z.of_N (blen (recon rs false final)))%Z /\ z = Z.of_N c.
Proof. exact whitespace_ignored_crlf_in_bounds_example. Qed.

Theorem C15_in_bounds_all :
  forall rs raw final c, final <> [] ->
  (forall p, last_opt final = Some p -> t_content (fst p) = []) ->
  exists z, track_cursor rs raw final c = Some z /\ (0 <= z <= Z.of_N (blen (recon rs false final)))%Z.
Proof. exact track_cursor_in_bounds. Qed.

Theorem C15_refuted_u16_truncation :
  exists rs p,
    let after := skipn 0 (t_content (fst p)) in
    nth_error [p] 0 = Some p /\ first_line_len after = 65536 /\
    relocate rs [p] 0 (PMultiline (u16 (first_line_len after)) (u16 (count_lf after))) = Some 65536%Z /\
    offset_for_token rs [p] 0 = 0.
Proof. exact multiline_u16_truncation_refuted. Qed.

(* F9 regression: `a; //é`, cursor 7 (end of the comment, which becomes `// é`): reported at 6, a
   character boundary of the output; 7 would be inside `é` *)
Theorem C15_regression_mid_char :
  recon f9_rs false f9_final = [97;59;32;47;47;32;195;169;10] /\
  track_cursor f9_rs f9_raw f9_final 7 = Some 6%Z /\
  is_char_boundary (recon f9_rs false f9_final) 6 = true /\
  is_char_boundary (recon f9_rs false f9_final) 7 = false.
Proof. repeat split; apply cursor_mid_char_fixed_example. Qed.

(* F10 regression: `a; // c` CR `// y` LF `b;` — the line break added after the first comment is
   counted: cursors 3,8,9,14,15,16,100 -> 3,9,10,15,16,17,17 *)
Theorem C15_regression_safety_net :
  recon f10_rs false f10_final = [97;59;32;47;47;32;99;10;32;47;47;32;121;10;98;59;10] /\
  net_free false f10_final = false /\
  map (track_cursor_u32 f10_rs f10_raw f10_final) [3;8;9;14;15;16;100] = [3;9;10;15;16;17;17] /\
  offset_for_token f10_rs f10_final 3 = 9 /\
  track_cursor f10_rs f10_raw f10_final 100 = Some (Z.of_N (blen (recon f10_rs false f10_final))).
Proof. exact cursor_safety_net_fixed_example. Qed.
