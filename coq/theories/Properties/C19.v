(* C19 — configuration is resolved by a fixed precedence. Statements only.
   The model is thin: clap, toml, serde and the `config` crate are parameters; the real behaviour is
   decided by the differential run of the binary from nested directories. *)
From Coq Require Import String.
From PasfmtVerif Require Import Model.Config Proofs.ConfigProofs.

(* the ancestor search returns the deepest ancestor-or-self directory containing pasfmt.toml; None iff none *)
Theorem C19_find_config_nearest :
  forall has_file d,
  match find_config_file has_file d with
  | Some f => exists up, In up (suffixes (rev d)) /\ f = rev up /\ has_file f = true
              /\ (forall up', In up' (suffixes (rev d)) -> (length up < length up')%nat -> has_file (rev up') = false)
  | None => forall up, In up (suffixes (rev d)) -> has_file (rev up) = false
  end.
Proof. exact find_config_nearest. Qed.

Theorem C19_find_config_probes : forall has_file d, (1 <= probes_rev has_file (rev d) <= S (length d))%nat.
Proof. exact find_config_probes. Qed.

(* precedence: the last -C KEY=VALUE wins over the file, the file over the defaults *)
Theorem C19_override_wins :
  forall key value key_eqb, (forall a b, key_eqb a b = true <-> a = b) ->
  forall defaults file ovs (k : key) (v : value) pre post,
  ovs = pre ++ (k, v) :: post -> (forall v', ~ In (k, v') post) ->
  effective key value key_eqb defaults file ovs k = v.
Proof. exact effective_override. Qed.

Theorem C19_file_over_defaults :
  forall key value key_eqb, (forall a b, key_eqb a b = true <-> a = b) ->
  forall defaults f ovs (k : key) (v : value),
  (forall v', ~ In (k, v') ovs) -> lookup key value key_eqb k f = Some v ->
  effective key value key_eqb defaults (Some f) ovs k = v.
Proof. exact effective_file. Qed.

Theorem C19_defaults_last :
  forall key value key_eqb, (forall a b, key_eqb a b = true <-> a = b) ->
  forall defaults file ovs (k : key),
  (forall v', ~ In (k, v') ovs) ->
  (match file with Some f => lookup key value key_eqb k f = None | None => True end) ->
  effective key value key_eqb defaults file ovs k = defaults k.
Proof. exact effective_default. Qed.

(* --config-file wins over the search and must exist *)
Theorem C19_option_file_wins : forall has_file p cwd, config_source has_file true (Some p) cwd = FromOption p.
Proof. exact option_file_wins. Qed.
Theorem C19_missing_option_file_is_error : forall has_file p cwd, config_source has_file false (Some p) cwd = MissingOptionFile.
Proof. exact missing_option_file_is_error. Qed.
