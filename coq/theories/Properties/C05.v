(* C05 — block structure is rendered: one statement per line at its nesting depth. Statements only.
   Stage 1: the rendering of a logical line's level is proved; that the grammar assigns level d+1 to
   the statements of a block opened at level d, and that the wrapper starts every top-level line at
   `level` indentations, are acceptance predicates evaluated on every real trace (unit levels) and
   decided by the generator-marked oracle. *)
From PasfmtVerif Require Import Model.Reconstruct Proofs.ReconstructProofs.

(* a token that starts a line with `level` indentations and no continuation is rendered as the
   line breaks followed by exactly level * indent_width indentation characters *)
Theorem C05_level_rendering :
  forall crlf tabs iw cw tok f level,
  f_ignored f = false -> f_sp f = 0 -> 0 < f_nl f -> f_ind f = level -> f_cont f = 0 ->
  emit_ws (rs_new crlf tabs iw cw) false (tok, f)
  = nrepeat (f_nl f) (if crlf then [13; 10] else [10]) ++ nrepeat (level * iw) (if tabs then [9] else [32]).
Proof.
  intros crlf tabs iw cw tok f level I S Hn Hi Hc.
  rewrite (emit_ws_line_start crlf tabs iw cw tok f I S Hn), Hi, Hc.
  do 2 f_equal. lia.
Qed.

(* and the units: level tabs, or level * tab_width spaces *)
Theorem C05_level_units :
  forall crlf tabs tw ci level, ci * tw <= 255 ->
  nrepeat level (rs_indent (rs_of_config crlf tabs tw ci)) ++ nrepeat 0 (rs_cont (rs_of_config crlf tabs tw ci))
  = nrepeat (level + ci * 0) (if tabs then [9] else nrepeat tw [32]).
Proof. intros. apply indentation_units. assumption. Qed.

(* the grammar model: the level of a logical line (get_context_level) is the sum of the context level deltas down to the
   nearest context with a parent, clamped to 0..65535 *)
From PasfmtVerif Require Import Model.ParserGrammar Proofs.ParserKernelProofs Proofs.ParserGrammarProofs Proofs.ParserGrammarRunProofs.
Theorem C05_context_level_range :
  forall (pass : list nat) (s : pstate pass), snd (get_context_level pass s) <= 65535.
Proof. exact get_context_level_range. Qed.

Theorem C05_context_level_exact :
  forall (pass : list nat) (s : pstate pass),
  (0 <= plain_sum (ps_ctx pass s) <= 65535)%Z ->
  Z.of_N (snd (get_context_level pass s)) = plain_sum (ps_ctx pass s).
Proof. exact get_context_level_exact. Qed.

Theorem C05_context_level_parent :
  forall (pass : list nat) (s : pstate pass),
  fst (get_context_level pass s) = first_parent (ps_ctx pass s).
Proof. exact get_context_level_parent. Qed.

Theorem C05_context_level_clamped :
  forall (pass : list nat) (s : pstate pass),
  ((plain_sum (ps_ctx pass s) < 0)%Z -> snd (get_context_level pass s) = 0) /\
  ((65535 < plain_sum (ps_ctx pass s))%Z -> snd (get_context_level pass s) = 65535).
Proof. exact get_context_level_clamped. Qed.

(* UNBOUNDED, on the grammar model: for every well-formed program of the fragment `begin stmts end.` (Model/Fragment.v: call, assignment,
   begin/end, repeat/until, try/finally, try/except with statements or `on E: T do` handlers, if/then[/else], while/do, case[/else], any
   statement as a body, nested to any depth, any length; wf: the then-branch of an if/else cannot take the else for itself) the parser
   model ends without error, the tokens it hands on are the input's with `on` (and, in sections, var/const/=) re-typed (fin) and its logical lines are exactly
   one per statement / opener / closer, at the level of the nesting depth (Model/Fragment.v: expected_prog); no line has a parent *)
From PasfmtVerif Require Import Model.Fragment Proofs.FragmentProofs.
Theorem C05_fragment_statements_one_per_line_at_depth :
  forall ss : stmts,
  wf ss = true ->
  let r := parse_file_model (render_prog ss) [] in
  r_err r = None /\ r_lines r = expected_prog ss /\ r_toks r = map fin (render_prog ss).
Proof. exact fragment_parse_file. Qed.

Theorem C05_fragment_no_child_lines :
  forall ss : stmts,
  child_free ss = true ->
  Forall (fun l : lline => ll_parent l = None)
    (r_lines (parse_file_model (render_prog ss) [])).
Proof. exact fragment_no_parents. Qed.

(* the fragment now holds if/then[/else], while/do, try/except and case statements (single-statement and begin/end bodies): the
   child lines of their bodies have their parent line earlier in the list and the parent token in it *)
From PasfmtVerif Require Import Model.Fragment Proofs.FragmentProofs.
Theorem C05_fragment_child_lines_have_their_parent_earlier :
  forall ss : stmts, wf ss = true -> parents_ok (r_lines (parse_file_model (render_prog ss) [])) = true.
Proof. exact fragment_parents_ok. Qed.

(* THE HYPOTHESIS H-W1 OF THE RENDERING THEOREMS, ON THE SEARCH MODEL (it used to be monitored only: unit levels): a token whose LAST
   decision is the first-token break of a top-level, non-Eof line of level L ends - after the first phase, or after both - with exactly L
   indentation units, no continuation, no spaces, one or two line breaks; the first decision of a top-level line is that break unless
   the token is token 0 or must not break (inline comments); the first token of a child line that is broken off starts at one of the
   whitespaces the ChildLineOption arms give (cls_options_ws).  The "last decision" hypothesis is needed: with overlapping lines of
   conditional directives a token that starts a top-level line can be decided again as a continuation of another (witness). *)
From PasfmtVerif Require Import Model.WrapContexts Model.WrapSearch Model.WrapFormat Proofs.WrapSearchProofs Proofs.WrapEventsProofs Proofs.WrapLevelsProofs Proofs.WrapChildLevelsProofs.
Theorem C05_top_level_line_starts_at_its_level :
  forall (rs : rsettings) (W : wsettings) (fms : bool) (lines : list lline) 
    (l : list ftoken) (t : nat) (tok : token) (f : fmt) (ds : list decision) 
    (ind cont L : N),
  nth_error (fst (fst (olf_model rs W fms lines l))) t = Some (tok, f) ->
  decs_for t (olf_plan1 W lines l ++ (if fms then olf_plan2 rs W lines l else [])) =
  ds ++ [DBreak true ind cont] ->
  starts_top lines t L -> f_ind f = L /\ f_cont f = 0 /\ f_sp f = 0 /\ 1 <= f_nl f <= 2.
Proof. exact olf_line_starts. Qed.

Theorem C05_first_decision_of_a_top_level_line :
  forall (W : wsettings) (lvs : list lview) (fm depth : nat) (st : sst) 
    (lv : lview) (g : N) (gs : list N) (r : trec) (rs : list trec) 
    (st1 : sst) (s : solution),
  lv_gtoks lv = g :: gs ->
  lv_recs lv = r :: rs ->
  solve W lvs fm depth st lv (lv_level lv, 0) (WrapNoBreakProofs.top_first lv) = (st1, Some s) ->
  exists (lll : N) (rest : list event),
    recon_events lvs s (lv_gtoks lv) =
    Ev_D g
      (if (g =? 0) || bid match tr_inv r with
                          | Some DR_MustNotBreak => true
                          | _ => false
                          end
       then None
       else Some (true, lv_level lv, 0)) lll true :: rest.
Proof. exact top_line_first_event. Qed.

Theorem C05_child_line_starts_at_an_option_whitespace :
  forall (rs : rsettings) (W : wsettings) (lines : list lline) (l : list ftoken) 
    (t : nat) (tok : token) (f : fmt) (ds : list decision) (ind cont : N),
  let lvs := mk_lviews (map tokinfo_of l) lines in
  nth_error (fst (fst (olf_model rs W false lines l))) t = Some (tok, f) ->
  decs_for t (olf_plan1 W lines l) = ds ++ [DBreak true ind cont] ->
  f_ind f = ind /\
  f_cont f = cont /\
  f_sp f = 0 /\
  1 <= f_nl f <= 2 /\
  (exists (k : nat) (lv : lview),
     nth_error lvs k = Some lv /\
     hd_error (lv_gtoks lv) = Some (N.of_nat t) /\ line_ws lvs lv (ind, cont)).
Proof. exact olf_phase1_any_line_start. Qed.

Theorem C05_levels_need_the_last_decision_witness :
  starts_top ov_lines 25 0 /\
  decs_for 25 (olf_plan1 ov_W ov_lines ov_l) = [DBreak true 0 0; DBreak false 0 1] /\
  option_map (fun p : ftoken => (f_nl (snd p), f_ind (snd p), f_cont (snd p), f_sp (snd p)))
    (nth_error (fst (fst (olf_model WrapTwoPhaseProofs.ml2_rsA ov_W false ov_lines ov_l))) 25) =
  Some (1, 0, 1, 0).
Proof. exact levels_without_last_decision_refuted. Qed.

(* the fragment with DECLARATIONS: `var` and `const` sections in front of the main block - the section keyword on a line of level 0,
   every member on its own Declaration line one level deeper; the parser re-types var/const and `=` (r_toks = map retype ...) *)
From PasfmtVerif Require Import Model.Fragment Proofs.FragmentProofs Proofs.FragmentParentsProofs Proofs.FragmentUnitProofs Model.Format Proofs.FormatFragmentProofs.
Theorem C05_fragment_unit_declarations_one_per_line :
  forall (ds : list decl) (ss : stmts),
  wf ss = true ->
  let r := parse_file_model (render_unit ds ss) [] in
  r_err r = None /\
  r_lines r = expected_unit ds ss /\ r_toks r = map Fragment.retype (render_unit ds ss).
Proof. exact fragment_unit_parse_file. Qed.

Theorem C05_fragment_unit_sections :
  forall (ds : list decl) (ss : stmts),
  wf ss = true ->
  exists rest : list lline,
    r_lines (parse_file_model (render_unit ds ss) []) = decl_lines 0 ds ++ rest.
Proof. exact fragment_unit_sections. Qed.

(* the declaration half of C05 with TYPE sections: `Name = record fields end;` and `Name = class fields {private|public fields} end;` -
   the `type` keyword on a line of level 0, `Name = record|class` one level deeper, every field on its own line two levels deeper, the
   visibility keywords and `end;` at the level of the type name; the parser re-types private/public to keywords *)
From PasfmtVerif Require Import Model.Fragment Proofs.FragmentProofs Proofs.FragmentUnitProofs.
Theorem C05_fragment_unit_with_type_sections_one_member_per_line :
  forall (ds : list udecl) (ss : stmts),
  wf ss = true ->
  let r := parse_file_model (render_unit2 ds ss) [] in
  r_err r = None /\
  r_lines r = expected_unit2 ds ss /\ r_toks r = map retype (render_unit2 ds ss).
Proof. exact fragment_unit2_parse_file. Qed.

Theorem C05_fragment_unit_with_type_sections_starts_with_its_sections :
  forall (ds : list udecl) (ss : stmts),
  wf ss = true ->
  exists rest : list lline,
    r_lines (parse_file_model (render_unit2 ds ss) []) = udecl_lines 0 ds ++ rest.
Proof. exact fragment_unit2_sections. Qed.


