(* C13 — scanning is lossless and follows the Delphi lexical rules at any length. Statements only. *)
From PasfmtVerif Require Import Model.Lexer Proofs.LexerProofs.
From PasfmtVerif Require Import Proofs.LexerSpecProofs.

(* the lexer accepts every byte string (fuel never runs out; every token consumes at least a byte) *)
Theorem C13_total : forall s, exists toks, lex s = Some toks.
Proof. exact lex_total. Qed.

(* the recorded lengths cut the input exactly, and gluing the pieces back gives the input *)
Theorem C13_lossless : forall s toks, lex s = Some toks ->
  map seg_lens (segments toks s) = toks /\ concat (map seg_bytes (segments toks s)) = s /\ total_len toks = length s.
Proof. exact lex_lossless. Qed.

Theorem C13_fits : forall s toks, lex s = Some toks -> fits toks (length s).
Proof. exact lex_fits. Qed.

(* exactly one end-of-file token, last, with empty content *)
Theorem C13_eof_last_unique : forall s toks, lex s = Some toks ->
  exists pre w, toks = pre ++ [(w, O, RTT_Eof)] /\ Forall (fun p : tok3 => snd p <> RTT_Eof) pre.
Proof. exact lex_eof_last_unique. Qed.

(* every other token has non-empty content starting at a non-blank character *)
Theorem C13_content_nonempty_nonblank_start : forall s toks ws c ty, lex s = Some toks ->
  In (ws, c, ty) (segments toks s) -> ty <> RTT_Eof ->
  (0 < length c)%nat /\ exists b c', c = b :: c' /\ 32 < b /\ is_prefix [227; 128; 128] c = false.
Proof. exact lex_content_nonempty. Qed.

(* leading whitespace is blank *)
Theorem C13_ws_blank : forall s toks ws c ty, lex s = Some toks -> In (ws, c, ty) (segments toks s) -> strip ws = [].
Proof. exact lex_ws_blank. Qed.

(* on valid UTF-8 every boundary is a character boundary, every piece is valid UTF-8 *)
Theorem C13_char_boundaries : forall s toks, lex s = Some toks -> valid_utf8 s = true ->
  Forall (fun i => is_char_boundary s i = true) (offsets 0 toks).
Proof. exact lex_char_boundaries. Qed.

Theorem C13_pieces_valid_utf8 : forall s toks ws c ty, lex s = Some toks -> valid_utf8 s = true ->
  In (ws, c, ty) (segments toks s) -> valid_utf8 ws = true /\ valid_utf8 c = true.
Proof. exact lex_segments_valid_utf8. Qed.

(* the CPU-specific identifier scan equals the scalar one, for every input of every length *)
Theorem C13_avx2_eq_generic : forall l, ident_end_avx2 l = ident_end_generic l.
Proof. exact ident_end_avx2_eq_generic. Qed.

(* keyword recognition: the perfect hash over the GENERATED tables builds without collision and
   equals the case-insensitive linear search; recognition is case-insensitive *)
Theorem C13_keyword_hash_eq_search : forall w, get_word_token_type_hash w = Some (get_word_token_type w).
Proof. exact get_word_token_type_hash_eq. Qed.

Theorem C13_keyword_case_insensitive :
  forall w, get_word_token_type (lower w) = get_word_token_type w /\ get_word_token_type (upper w) = get_word_token_type w.
Proof. exact (fun w => conj (get_word_token_type_lower w) (get_word_token_type_upper w)). Qed.

(* ---- declarative lexical specification (Proofs/LexerSpecProofs.v): each token class is the longest
   match of its Delphi lexical rule, for every state, every text, at any length; tokens depend only on the
   suffix and the two-bit state, never on the position ---- *)
Theorem C13_every_token_is_lex_token :
  forall (s : bytes) (toks : list (nat * nat * RawTokenType)),
  lex s = Some toks -> lex_steps init_state toks s.
Proof. exact lex_steps_sound. Qed.

Theorem C13_position_independent :
  forall (st : lstate) (ws : bytes) (b : byte) (t : bytes)
    (toks : list (nat * nat * RawTokenType)),
  all_blank ws ->
  tok_start b t ->
  lex_from st (ws ++ b :: t) = Some toks ->
  exists (n : nat) (ty : RawTokenType) (a : bool) (rest : list (nat * nat * RawTokenType)),
    lex_token st (contains_byte 10 ws || ls_first st) b t = Some (n, ty, a) /\
    lex_from (next_state st ty a) (skipn n t) = Some rest /\
    toks = (length ws, S n, ty) :: rest.
Proof. exact lex_position_independent. Qed.

Theorem C13_same_suffix_same_tokens :
  forall (s1 s2 : bytes) (st : lstate) (l : bytes)
    (toks1 toks2 : list (nat * nat * RawTokenType)),
  lex s1 = Some toks1 ->
  lex s2 = Some toks2 ->
  lex_reach init_state s1 st l ->
  lex_reach init_state s2 st l ->
  exists pre1 pre2 rest : list (nat * nat * RawTokenType),
    toks1 = pre1 ++ rest /\ toks2 = pre2 ++ rest /\ lex_from st l = Some rest.
Proof. exact lex_same_suffix_same_tokens. Qed.

Theorem C13_word_maximal :
  forall (st : lstate) (nlb : bool) (b : byte) (t : list byte),
  ls_asm st = false ->
  word_start b = true ->
  is_u3000_at (b :: t) = false ->
  exists (n : nat) (ty : RawTokenType),
    lex_token st nlb b t = Some (n, ty, is_kw_asm ty) /\
    ident_run (b :: t) (S n) /\
    S n = ident_end_generic (b :: t) /\
    ty = (if prev_is_dot st then RTT_Identifier else get_word_token_type (b :: firstn n t)).
Proof. exact lex_word_maximal. Qed.

Theorem C13_keyword_iff_in_table :
  forall w : bytes,
  get_word_token_type w = RTT_Identifier <->
  (forall ty : RawTokenType, ~ In (lower w, ty) KEYWORDS_table).
Proof. exact keyword_iff_in_table. Qed.

Theorem C13_keyword_type_in_table :
  forall (w : bytes) (ty : RawTokenType),
  In (lower w, ty) KEYWORDS_table -> get_word_token_type w = ty.
Proof. exact keyword_type_in_table. Qed.

Theorem C13_number_longest :
  forall (st : lstate) (nlb : bool) (b : byte) (t : bytes),
  ls_asm st = false ->
  is_digit b = true ->
  exists n : nat,
    lex_token st nlb b t = Some (n, RTT_NumberLiteral NK_Decimal, false) /\
    (n <= length t)%nat /\
    dec_number_shape (b :: firstn n t) /\
    (forall p r : bytes, b :: t = p ++ r -> dec_number_shape p -> (length p <= S n)%nat).
Proof. exact lex_number_spec. Qed.

Theorem C13_hex :
  forall (st : lstate) (nlb : bool) (t : bytes),
  exists n : nat,
    lex_token st nlb 36 t = Some (n, RTT_NumberLiteral NK_Hex, ls_asm st) /\
    longest_run is_hex t n.
Proof. exact lex_hex_spec. Qed.

Theorem C13_binary :
  forall (st : lstate) (nlb : bool) (t : bytes),
  exists n : nat,
    lex_token st nlb 37 t = Some (n, RTT_NumberLiteral NK_Binary, ls_asm st) /\
    longest_run is_bin t n.
Proof. exact lex_binary_spec. Qed.

Theorem C13_line_comment :
  forall (st : lstate) (nlb : bool) (t : bytes),
  exists n : nat,
    lex_token st nlb 47 (47 :: t) =
    Some (S n, RTT_Comment (if nlb then CoK_IndividualLine else CoK_InlineLine), ls_asm st) /\
    longest_run not_eol t n.
Proof. exact lex_line_comment_spec. Qed.

Theorem C13_block_comment :
  forall (st : lstate) (nlb : bool) (t : bytes),
  next_is 36 t = false ->
  (exists (n : nat) (ck : CommentKind),
     lex_token st nlb 123 t = Some (n, RTT_Comment ck, ls_asm st) /\
     block_comment_spec BCK_Brace nlb t n ck) /\
  (exists (n : nat) (ck : CommentKind),
     lex_token st nlb 40 (42 :: t) = Some (S n, RTT_Comment ck, ls_asm st) /\
     block_comment_spec BCK_ParenStar nlb t n ck).
Proof. exact lex_block_comment_spec. Qed.

Theorem C13_string :
  forall (st : lstate) (nlb : bool) (t : bytes),
  (ml_opener t = false ->
   exists (n : nat) (k : TextLiteralKind),
     lex_token st nlb 39 t = Some (n, RTT_TextLiteral k, ls_asm st) /\
     (k = TK_SingleLine \/ k = TK_Unterminated) /\ sl_result (39 :: firstn n t) k (skipn n t)) /\
  (exists (n : nat) (k : TextLiteralKind),
     lex_token st nlb 35 t = Some (n, RTT_TextLiteral k, ls_asm st) /\
     (k = TK_SingleLine \/ k = TK_Unterminated) /\ sl_result (35 :: firstn n t) k (skipn n t)).
Proof. exact lex_string_spec. Qed.

Theorem C13_string_maximal :
  forall (st : lstate) (nlb : bool) (b : byte) (t p r : bytes) (n : nat) 
    (k : TextLiteralKind) (a : bool),
  b = 39 \/ b = 35 ->
  (b = 39 -> ml_opener t = false) ->
  lex_token st nlb b t = Some (n, RTT_TextLiteral k, a) ->
  b :: t = p ++ r -> pieces p -> (length p <= S n)%nat.
Proof. exact lex_string_maximal. Qed.

Theorem C13_ml_opener :
  forall t : bytes,
  ml_opener t = true <->
  (exists (m : nat) (c : byte) (r : bytes),
     t = repeat 39 m ++ c :: r /\ (c = 13 \/ c = 10) /\ (2 <= m)%nat /\ Nat.even m = true).
Proof. exact ml_opener_spec. Qed.

Theorem C13_multiline_string :
  forall (st : lstate) (nlb : bool) (t : bytes),
  ml_opener t = true ->
  let q := S (count_while (fun c : N => c =? 39) t) in
  let body := skipn (q - 1) t in
  exists (n : nat) (k : TextLiteralKind),
    lex_token st nlb 39 t = Some (n, RTT_TextLiteral k, ls_asm st) /\
    ((exists pos : nat,
        first_occurrence (repeat 39 q) body pos /\
        n = (q - 1 + pos + q)%nat /\ (n <= length t)%nat /\ k = TK_MultiLine) \/
     no_occurrence (repeat 39 q) body /\ n = length t /\ k = TK_Unterminated).
Proof. exact lex_multiline_spec. Qed.

Theorem C13_operator_sound :
  forall (st : lstate) (nlb : bool) (b : byte) (t : bytes) (n : nat) (k : OperatorKind),
  ls_asm st = false \/ b <> 64 ->
  op_spec b (hd_error t) = Some (n, k) -> lex_token st nlb b t = Some (n, RTT_Op k, ls_asm st).
Proof. exact lex_operator_spec. Qed.

Theorem C13_operator_complete :
  forall (st : lstate) (nlb : bool) (b : byte) (t : bytes) (n : nat) 
    (k : OperatorKind) (a : bool),
  ls_asm st = false ->
  lex_token st nlb b t = Some (n, RTT_Op k, a) -> op_spec b (hd_error t) = Some (n, k).
Proof. exact lex_operator_complete. Qed.

Theorem C13_unknown :
  forall (st : lstate) (nlb : bool) (b : byte) (t : bytes),
  ls_asm st = false ->
  classified b = false -> lex_token st nlb b t = Some (0%nat, RTT_Unknown, false).
Proof. exact lex_unknown_spec. Qed.

