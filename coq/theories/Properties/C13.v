(* C13 — scanning is lossless and follows the Delphi lexical rules at any length. Statements only. *)
From PasfmtVerif Require Import Model.Lexer Proofs.LexerProofs.

(* the lexer accepts every byte string (fuel never runs out; every token consumes at least a byte) *)
Theorem C13_total : forall s, exists toks, lex s = Some toks.
Proof. exact lex_total. Qed.

(* the recorded lengths cut the input exactly, and gluing the pieces back gives the input *)
Theorem C13_lossless : forall s toks, lex s = Some toks ->
  map seg_lens (segments toks s) = toks /\ concat (map seg_bytes (segments toks s)) = s /\ total_len toks = length s.
Proof. exact lex_lossless. Qed.

Theorem C13_fits : forall s toks, lex s = Some toks -> fits toks (length s).
Proof. exact lex_fits. Qed.

(* exactly one end-of-file token, last, with empty content *)
Theorem C13_eof_last_unique : forall s toks, lex s = Some toks ->
  exists pre w, toks = pre ++ [(w, O, RTT_Eof)] /\ Forall (fun p : tok3 => snd p <> RTT_Eof) pre.
Proof. exact lex_eof_last_unique. Qed.

(* every other token has non-empty content starting at a non-blank character *)
Theorem C13_content_nonempty_nonblank_start : forall s toks ws c ty, lex s = Some toks ->
  In (ws, c, ty) (segments toks s) -> ty <> RTT_Eof ->
  (0 < length c)%nat /\ exists b c', c = b :: c' /\ 32 < b /\ is_prefix [227; 128; 128] c = false.
Proof. exact lex_content_nonempty. Qed.

(* leading whitespace is blank *)
Theorem C13_ws_blank : forall s toks ws c ty, lex s = Some toks -> In (ws, c, ty) (segments toks s) -> strip ws = [].
Proof. exact lex_ws_blank. Qed.

(* on valid UTF-8 every boundary is a character boundary, every piece is valid UTF-8 *)
Theorem C13_char_boundaries : forall s toks, lex s = Some toks -> valid_utf8 s = true ->
  Forall (fun i => is_char_boundary s i = true) (offsets 0 toks).
Proof. exact lex_char_boundaries. Qed.

Theorem C13_pieces_valid_utf8 : forall s toks ws c ty, lex s = Some toks -> valid_utf8 s = true ->
  In (ws, c, ty) (segments toks s) -> valid_utf8 ws = true /\ valid_utf8 c = true.
Proof. exact lex_segments_valid_utf8. Qed.

(* the CPU-specific identifier scan equals the scalar one, for every input of every length *)
Theorem C13_avx2_eq_generic : forall l, ident_end_avx2 l = ident_end_generic l.
Proof. exact ident_end_avx2_eq_generic. Qed.

(* keyword recognition: the perfect hash over the GENERATED tables builds without collision and
   equals the case-insensitive linear search; recognition is case-insensitive *)
Theorem C13_keyword_hash_eq_search : forall w, get_word_token_type_hash w = Some (get_word_token_type w).
Proof. exact get_word_token_type_hash_eq. Qed.

Theorem C13_keyword_case_insensitive :
  forall w, get_word_token_type (lower w) = get_word_token_type w /\ get_word_token_type (upper w) = get_word_token_type w.
Proof. exact (fun w => conj (get_word_token_type_lower w) (get_word_token_type_upper w)). Qed.
