(* C14 — parsing yields well-formed logical lines that cover every token. Statements only.
   The grammar is an oracle: it is whatever sequence of line-state primitives it executes. The
   conditional-directive passes and the line-state kernel are fully modelled; the theorems hold for
   EVERY event sequence, hence for every grammar and every input. *)
From Coq Require Import Sorted.
From PasfmtVerif Require Import Model.DirectiveTree Proofs.DirectiveTreeProofs Model.ParserKernel Proofs.ParserKernelProofs
  Proofs.ParseFileProofs Model.Pipeline Proofs.PipelineProofs.
From PasfmtVerif Require Import Model.LineConsolidators Proofs.LineConsolidatorsProofs.

(* every pass is a strictly increasing list of valid indices of non-directive tokens *)
Theorem C14_pass_sorted :
  forall l p, In p (all_passes l) ->
  StronglySorted lt p /\ Forall (fun x => x < length l)%nat p /\ Forall (nondir l) p.
Proof. exact pass_sorted. Qed.

(* every token that is not a conditional directive is part of at least one pass *)
Theorem C14_passes_cover : forall l x, nondir l x -> exists p, In p (all_passes l) /\ In x p.
Proof. exact passes_cover. Qed.

(* without conditional directives there is exactly one pass, the identity *)
Theorem C14_single_identity_pass :
  forall l, Forall (fun ty => cd_kind ty = None) l -> all_passes l = [seq 0 (length l)].
Proof. exact no_directives_single_identity_pass. Qed.

(* the line-state kernel, for every sequence of primitives: every line strictly increasing, no
   token placed twice, only tokens of the pass *)
Theorem C14_kernel_lines_wf :
  forall pass evs, increasing pass ->
  Forall increasing (k_lines (k_run pass evs)) /\ NoDup (concat (k_lines (k_run pass evs)))
  /\ incl (concat (k_lines (k_run pass evs))) pass.
Proof. exact kernel_lines_wf. Qed.

(* if the pass is consumed to its end, every token of it is in a line or was skipped by skip_token *)
Theorem C14_kernel_cover :
  forall pass evs, (length pass <= k_pi (k_run pass evs))%nat ->
  forall i t, nth_error pass i = Some t -> In t (concat (k_lines (k_run pass evs))) \/ In i (k_skips evs 0).
Proof. exact kernel_cover. Qed.

(* the whole parse_file, any grammar (one arbitrary event log per pass): every final line is
   non-empty, strictly increasing and in range … *)
Theorem C14_final_lines_wf :
  forall tys evss, length evss = length (all_passes tys) ->
  Forall (fun l => l <> [] /\ increasing l /\ Forall (fun i => (i < length tys)%nat) l) (final_lines tys evss).
Proof. exact final_lines_wf. Qed.

(* … and every token of the file belongs to at least one final line, provided each pass was consumed
   to its end and skip_token only skipped compiler directives (both evaluated on every real parse) *)
Theorem C14_final_lines_cover :
  forall tys evss, length evss = length (all_passes tys) ->
  (forall pe, In pe (pass_runs tys evss) -> (length (fst pe) <= k_pi (k_run (fst pe) (snd pe)))%nat) ->
  (forall pe i t, In pe (pass_runs tys evss) -> In i (k_skips (snd pe) 0) -> nth_error (fst pe) i = Some t ->
                  is_compiler_directive tys t = true) ->
  forall i, (i < length tys)%nat -> exists l, In l (final_lines tys evss) /\ In i l.
Proof. exact final_lines_cover. Qed.

(* the five hook sites are the only code that mutates the parser's line state (generated inventory) *)
Theorem C14_kernel_sites : strings_eqb inv_kernel_mutations expected_kernel_mutations = true.
Proof. exact inventory_kernel_mutations. Qed.

(* ---- the two line consolidators that run after the parser (Model/LineConsolidators.v, bit-exact incl. the
   toolchain's binary search): cover, parents and levels survive consolidation; only ConditionalDirective lines
   are voided; DeindentPackageDirectives changes levels only ---- *)
Theorem C14_consolidation_preserves_cover :
  forall (tys : list TokenType) (lines : list lline),
  lines_cover tys lines = true ->
  conddir_lines_singleton lines = true ->
  no_voided lines = true -> lines_cover_nv tys (conddir_consolidate_std tys lines) = true.
Proof. exact conddir_std_preserves_cover. Qed.

Theorem C14_consolidation_only_voids_directive_lines :
  forall (tys : list TokenType) (lines : list lline),
  Forall2
    (fun l c : lline =>
     c = fst (expand_line tys l) \/ ll_type l = LLT_ConditionalDirective /\ c = void_line l)
    lines (conddir_consolidate_std tys lines).
Proof. exact conddir_std_only_voids_directive_lines. Qed.

Theorem C14_consolidation_parents_unchanged :
  forall (tys : list TokenType) (lines : list lline),
  map ll_parent (conddir_consolidate_std tys lines) = map ll_parent lines /\
  map ll_level (conddir_consolidate_std tys lines) = map ll_level lines.
Proof. exact conddir_std_parents_unchanged. Qed.

Theorem C14_consolidation_no_token_lost :
  forall (tys : list TokenType) (lines : list lline) (i : nat),
  conddir_lines_singleton lines = true ->
  no_voided lines = true ->
  (exists l : lline, In l lines /\ In i (ll_toks l)) ->
  exists c : lline,
    In c (conddir_consolidate tys lines) /\ is_voided_line c = false /\ In i (ll_toks c).
Proof. exact conddir_no_token_lost. Qed.

Theorem C14_expand_line_superset :
  forall (tys : list TokenType) (l l' : lline) (dirs : list nat),
  expand_line tys l = (l', dirs) ->
  ll_type l' = ll_type l /\
  ll_level l' = ll_level l /\
  ll_parent l' = ll_parent l /\
  incl (ll_toks l) (ll_toks l') /\
  hd 0%nat (ll_toks l') = hd 0%nat (ll_toks l) /\
  last (ll_toks l') 0%nat = last (ll_toks l) 0%nat /\
  (ll_toks l' = [] <-> ll_toks l = []) /\
  (strictly_increasing (ll_toks l) = true -> strictly_increasing (ll_toks l') = true) /\
  (in_range tys (ll_toks l) = true -> in_range tys (ll_toks l') = true) /\
  (forall t : nat,
   In t (ll_toks l') ->
   In t (ll_toks l) \/
   added_ok tys t = true /\ (hd 0 (ll_toks l) < t < last (ll_toks l) 0)%nat) /\
  (forall d : nat,
   In d dirs ->
   In d (ll_toks l') /\
   is_cond_directive_at tys d = true /\ (hd 0 (ll_toks l) < d < last (ll_toks l) 0)%nat) /\
  (dirs = [] -> l' = l).
Proof. exact expand_line_superset. Qed.

Theorem C14_expand_line_contiguous :
  forall (tys : list TokenType) (l l' : lline) (dirs : list nat),
  expand_line tys l = (l', dirs) ->
  dirs <> [] ->
  strictly_increasing (ll_toks l) = true ->
  ll_toks l' = seq (hd 0%nat (ll_toks l)) (last (ll_toks l) 0%nat - hd 0%nat (ll_toks l) + 1).
Proof. exact expand_line_contiguous. Qed.

Theorem C14_binary_search_eq_first_match :
  forall (tys : list TokenType) (lines : list lline),
  unique_first_tokens lines = true ->
  conddir_consolidate_std tys lines = conddir_consolidate tys lines.
Proof. exact conddir_std_eq_first. Qed.

Theorem C14_consolidation_total :
  forall (tys : list TokenType) (lines : list lline),
  lines_cover tys lines = true ->
  conddir_consolidate_chk tys lines = Some (conddir_consolidate tys lines).
Proof. exact conddir_chk_total_cover. Qed.

Theorem C14_deindent_only_levels :
  forall (tys : list TokenType) (lines : list lline),
  length (deindent_package tys lines) = length lines /\
  map ll_type (deindent_package tys lines) = map ll_type lines /\
  map ll_parent (deindent_package tys lines) = map ll_parent lines /\
  map ll_toks (deindent_package tys lines) = map ll_toks lines /\
  map ll_level (deindent_package tys lines) =
  map (fun l : lline => if is_package_file tys && is_directive_line l then 0 else ll_level l)
    lines /\
  (first_real_ty tys <> Some (TT_Keyword KK_Package) -> deindent_package tys lines = lines).
Proof. exact deindent_only_levels. Qed.

Theorem C14_deindent_preserves_cover :
  forall (tys : list TokenType) (lines : list lline),
  lines_cover tys (deindent_package tys lines) = lines_cover tys lines /\
  lines_cover_nv tys (deindent_package tys lines) = lines_cover_nv tys lines.
Proof. exact deindent_preserves_cover. Qed.

(* the grammar model (Model/ParserGrammar.v, tied to parser.rs by the unit grammar): the lines of every pass are a kernel run of
   its own event log, for every input and fuel; hence well-formed and covering *)
From PasfmtVerif Require Import Model.ParserGrammar Proofs.ParserKernelProofs Proofs.ParserGrammarProofs Proofs.ParserGrammarRunProofs.
Theorem C14_grammar_is_kernel_run :
  forall (pass : list nat) (wsnl : list bool) (fuel : nat) (c : call) (s : pstate pass),
  map ll_toks (pass_lines pass (run pass wsnl fuel c s)) =
  k_lines (k_run pass (pass_events pass (run pass wsnl fuel c s))).
Proof. exact grammar_is_kernel_run. Qed.

Theorem C14_grammar_pass_lines_wf :
  forall (pass : list nat) (wsnl : list bool) (toks : list RawTokenType) (attr : list nat),
  increasing pass ->
  let ls := map ll_toks (pass_lines pass (parse_pass pass wsnl toks attr)) in
  Forall increasing ls /\ NoDup (concat ls) /\ incl (concat ls) pass.
Proof. exact parse_pass_lines_wf. Qed.

Theorem C14_grammar_pass_cover :
  forall (pass : list nat) (wsnl : list bool) (toks : list RawTokenType) (attr : list nat),
  (length pass <= pidx pass (parse_pass pass wsnl toks attr))%nat ->
  forall i t : nat,
  nth_error pass i = Some t ->
  In t (concat (map ll_toks (pass_lines pass (parse_pass pass wsnl toks attr)))) \/
  In i (k_skips (pass_events pass (parse_pass pass wsnl toks attr)) 0).
Proof. exact parse_pass_cover. Qed.

Theorem C14_grammar_parse_file_pass_lines_wf :
  forall (toks : list RawTokenType) (wsnl : list bool) (passes : list (list nat)),
  Forall increasing passes ->
  let r := parse_file_with toks wsnl passes in
  Forall
    (fun pr : pass_result =>
     Forall increasing (map ll_toks (pr_lines pr)) /\
     NoDup (concat (map ll_toks (pr_lines pr)))) (r_passes r).
Proof. exact parse_file_pass_lines_wf. Qed.

(* the grammar model: skip_token only ever skips a compiler directive (second side condition of C14_final_lines_cover, for every
   input); the statement-list loop exits only at an ending context or at the end of the pass; with every pass consumed the final
   lines cover every token; the Eof line *)
From PasfmtVerif Require Import Model.ParserGrammar Proofs.ParserKernelProofs Proofs.ParserGrammarProofs Proofs.ParserGrammarRunProofs Proofs.ParserGrammarTypesProofs Proofs.ParserGrammarConsumedProofs Proofs.ParserGrammarCoverProofs Proofs.ParserGrammarEofProofs.
Theorem C14_grammar_skips_only_compiler_directives :
  forall (toks : list RawTokenType) (wsnl : list bool) (passes : list (list nat)),
  let r := parse_file_with toks wsnl passes in
  Forall2 (pr_skips_ok toks) (firstn (length (r_passes r)) passes) (r_passes r).
Proof. exact parse_file_skips_directives. Qed.

Theorem C14_grammar_statement_list_exit :
  forall (pass : list nat) (wsnl : list bool) (fuel : nat) (t : ctype) 
    (op : bool) (p : cpred) (s : pstate pass),
  let s' := run pass wsnl fuel (C_stmt_list t op p) s in
  ps_err pass s' = None -> is_ending pass s' = true \/ cur_tt pass s' = None.
Proof. exact stmt_list_exit. Qed.

Theorem C14_grammar_pass_consumed_or_ending :
  forall (pass : list nat) (wsnl : list bool) (toks : list RawTokenType) (attr : list nat),
  pass_in_range pass toks ->
  eof_only_last pass toks ->
  ps_err pass (parse_pass pass wsnl toks attr) = None ->
  (length pass <= pidx pass (parse_pass pass wsnl toks attr))%nat \/
  is_ending pass (top_exit pass wsnl toks attr) = true /\
  cur_tt pass (top_exit pass wsnl toks attr) <> None.
Proof. exact parse_pass_consumed_or_ending. Qed.

Theorem C14_grammar_pass_consumed_if_stack_never_ending :
  forall (pass : list nat) (wsnl : list bool) (toks : list RawTokenType) (attr : list nat),
  pass_in_range pass toks ->
  eof_only_last pass toks ->
  ps_err pass (parse_pass pass wsnl toks attr) = None ->
  never_ending_stack pass (top_exit pass wsnl toks attr) ->
  (length pass <= pidx pass (parse_pass pass wsnl toks attr))%nat.
Proof. exact parse_pass_consumed_never_ending. Qed.

Theorem C14_grammar_lines_cover :
  forall (toks : list RawTokenType) (wsnl : list bool),
  let r := parse_file_with toks wsnl (all_passes toks) in
  r_err r = None ->
  Forall2 pass_consumed (all_passes toks) (r_passes r) ->
  forall i : nat,
  (i < length toks)%nat -> exists l : lline, In l (r_lines r) /\ In i (ll_toks l).
Proof. exact parse_file_lines_cover. Qed.

Theorem C14_grammar_model_lines_cover :
  forall (toks : list RawTokenType) (wsnl : list bool),
  let r := parse_file_model toks wsnl in
  r_err r = None ->
  Forall2 pass_consumed (all_passes toks) (r_passes r) ->
  forall i : nat,
  (i < length toks)%nat -> exists l : lline, In l (r_lines r) /\ In i (ll_toks l).
Proof. exact parse_file_model_lines_cover. Qed.

Theorem C14_grammar_eof_line :
  forall (pass : list nat) (wsnl : list bool) (toks : list RawTokenType) 
    (attr : list nat) (e : nat),
  let s1 := top_exit pass wsnl toks attr in
  ps_err pass (parse_pass pass wsnl toks attr) = None ->
  nth_error pass (pidx pass s1) = Some e ->
  S (pidx pass s1) = length pass ->
  tt_at pass s1 e = Some RTT_Eof ->
  exists l : lline,
    In l (pass_lines pass (parse_pass pass wsnl toks attr)) /\
    ll_toks l = [e] /\ ll_type l = LLT_Eof.
Proof. exact parse_pass_eof_line. Qed.

Theorem C14_grammar_eof_line_unique :
  forall (pass : list nat) (wsnl : list bool) (toks : list RawTokenType) 
    (attr : list nat) (e : nat),
  increasing pass ->
  let s1 := top_exit pass wsnl toks attr in
  ps_err pass (parse_pass pass wsnl toks attr) = None ->
  nth_error pass (pidx pass s1) = Some e ->
  S (pidx pass s1) = length pass ->
  tt_at pass s1 e = Some RTT_Eof ->
  forall l' : lline,
  In l' (pass_lines pass (parse_pass pass wsnl toks attr)) ->
  In e (ll_toks l') -> ll_toks l' = [e].
Proof. exact parse_pass_eof_line_unique. Qed.

(* "the pass is consumed" under an executable condition on the context stack at the exit of the top-level loop that ordinary
   units satisfy (no counterexample to the unconditional statement in 380 000 targeted cases after the repair of F39) *)
From PasfmtVerif Require Import Model.ParserGrammar Proofs.ParserGrammarProofs Proofs.ParserGrammarConsumedProofs Proofs.ParserGrammarConsumed2Proofs Proofs.ParserGrammarWsnlProofs.
Theorem C14_grammar_pass_consumed_if_stack_harmless :
  forall (pass : list nat) (wsnl : list bool) (toks : list RawTokenType) (attr : list nat),
  pass_in_range pass toks ->
  eof_only_last pass toks ->
  ps_err pass (parse_pass pass wsnl toks attr) = None ->
  harmless_stack pass (top_exit pass wsnl toks attr) ->
  cur_tt pass (top_exit pass wsnl toks attr) <> Some (RTT_Op OK_Semicolon) ->
  (length pass <= pidx pass (parse_pass pass wsnl toks attr))%nat.
Proof. exact parse_pass_consumed_harmless. Qed.

(* UNBOUNDED, on the grammar model: for every well-formed program of the fragment (wf: the then-branch of an if/else is closed) the Eof token is alone in the last logical line, of type Eof *)
From PasfmtVerif Require Import Model.Fragment Proofs.FragmentProofs.
Theorem C14_fragment_single_eof_line :
  forall ss : stmts,
  wf ss = true ->
  let r := parse_file_model (render_prog ss) [] in
  exists pre : list lline,
    r_lines r =
    pre ++
    [{|
       ll_type := LLT_Eof;
       ll_level := 0;
       ll_parent := None;
       ll_toks := [S (S (S (length (render ss))))]
     |}] /\
    Forall (fun l : lline => ll_type l <> LLT_Eof) pre /\
    nth_error (render_prog ss) (S (S (S (length (render ss))))) = Some RTT_Eof /\
    length (render_prog ss) = S (S (S (S (length (render ss))))).
Proof. exact fragment_single_eof_line. Qed.

(* UNBOUNDED, on the grammar model: for every program of the (extended) fragment parents precede their children *)
From PasfmtVerif Require Import Model.Fragment Proofs.FragmentProofs.
Theorem C14_fragment_parents_precede_children :
  forall ss : stmts, wf ss = true -> parents_ok (r_lines (parse_file_model (render_prog ss) [])) = true.
Proof. exact fragment_parents_ok. Qed.

(* the same two clauses for programs with declaration sections *)
From PasfmtVerif Require Import Model.Fragment Proofs.FragmentProofs Proofs.FragmentParentsProofs Proofs.FragmentUnitProofs Model.Format Proofs.FormatFragmentProofs.
Theorem C14_fragment_unit_single_eof_line :
  forall (ds : list decl) (ss : stmts),
  wf ss = true ->
  let r := parse_file_model (render_unit ds ss) [] in
  let e := (length (render_decls ds) + 1 + length (render ss) + 2)%nat in
  exists pre : list lline,
    r_lines r =
    pre ++ [{| ll_type := LLT_Eof; ll_level := 0; ll_parent := None; ll_toks := [e] |}] /\
    Forall (fun l : lline => ll_type l <> LLT_Eof) pre /\
    nth_error (render_unit ds ss) e = Some RTT_Eof /\ length (render_unit ds ss) = S e.
Proof. exact fragment_unit_single_eof_line. Qed.

Theorem C14_fragment_unit_parents_precede_children :
  forall (ds : list decl) (ss : stmts),
  wf ss = true -> parents_ok (r_lines (parse_file_model (render_unit ds ss) [])) = true.
Proof. exact fragment_unit_parents_ok. Qed.

(* exactly which lines have a parent: those whose first token lies in the body of an if/while, a case arm or an exception handler;
   the parent token is the then / else / do / colon in front of that body *)
From PasfmtVerif Require Import Model.Fragment Proofs.FragmentProofs Proofs.FragmentParentsProofs Proofs.FragmentUnitProofs Model.Format Proofs.FormatFragmentProofs.
Theorem C14_fragment_line_has_a_parent_iff_in_a_body :
  forall ss : stmts,
  wf ss = true ->
  forall (l : lline) (f : nat),
  In l (r_lines (parse_file_model (render_prog ss) [])) ->
  hd_error (ll_toks l) = Some f ->
  (ll_parent l <> None <-> in_spans (body_spans ss) f = true) /\
  (forall i t : nat,
   ll_parent l = Some (i, t) -> exists a b : nat, In (t, a, b) (body_spans ss)).
Proof. exact fragment_parent_iff. Qed.

(* parents and the Eof line for units with var/const/type sections *)
From PasfmtVerif Require Import Model.Fragment Proofs.FragmentProofs Proofs.FragmentUnitProofs.
Theorem C14_fragment_unit_with_type_sections_parents_precede_children :
  forall (ds : list udecl) (ss : stmts),
  wf ss = true -> parents_ok (r_lines (parse_file_model (render_unit2 ds ss) [])) = true.
Proof. exact fragment_unit2_parents_ok. Qed.

Theorem C14_fragment_unit_with_type_sections_single_eof_line :
  forall (ds : list udecl) (ss : stmts),
  wf ss = true ->
  let r := parse_file_model (render_unit2 ds ss) [] in
  let e := (length (render_udecls ds) + 1 + length (render ss) + 2)%nat in
  exists pre : list lline,
    r_lines r =
    pre ++ [{| ll_type := LLT_Eof; ll_level := 0; ll_parent := None; ll_toks := [e] |}] /\
    Forall (fun l : lline => ll_type l <> LLT_Eof) pre /\
    nth_error (render_unit2 ds ss) e = Some RTT_Eof /\ length (render_unit2 ds ss) = S e.
Proof. exact fragment_unit2_single_eof_line. Qed.

(* which lines have a parent, for units with var/const/type sections: exactly those in a then/else/do/colon body of the main block *)
From PasfmtVerif Require Import Model.Fragment Proofs.FragmentProofs Proofs.FragmentParentsProofs Proofs.FragmentUnitProofs Proofs.FragmentUnitParentsProofs.
Theorem C14_fragment_unit_line_has_a_parent_iff_in_a_body :
  forall (ds : list udecl) (ss : stmts),
  wf ss = true ->
  forall (l : lline) (f : nat),
  In l (r_lines (parse_file_model (render_unit2 ds ss) [])) ->
  hd_error (ll_toks l) = Some f ->
  (ll_parent l <> None <-> in_spans (unit2_body_spans ds ss) f = true) /\
  (forall i t : nat,
   ll_parent l = Some (i, t) -> exists a b : nat, In (t, a, b) (unit2_body_spans ds ss)).
Proof. exact fragment_unit2_parent_iff. Qed.

Theorem C14_fragment_unit_section_lines_have_no_parent :
  forall (ds : list udecl) (ss : stmts),
  wf ss = true ->
  forall (l : lline) (f : nat),
  In l (r_lines (parse_file_model (render_unit2 ds ss) [])) ->
  hd_error (ll_toks l) = Some f -> (f <= length (render_udecls ds))%nat -> ll_parent l = None.
Proof. exact fragment_unit2_section_lines_no_parent. Qed.


