(* C14 — parsing yields well-formed logical lines that cover every token. Statements only.
   Stage 1: the conditional-directive passes (fully proved) + acceptance predicates on the real
   parse result; the grammar is an oracle (DESIGN.md §5.1). *)
From Coq Require Import Sorted.
From PasfmtVerif Require Import Model.DirectiveTree Proofs.DirectiveTreeProofs.

(* every pass is a strictly increasing list of valid indices of non-directive tokens *)
Theorem C14_pass_sorted :
  forall l p, In p (all_passes l) ->
  StronglySorted lt p /\ Forall (fun x => x < length l)%nat p /\ Forall (nondir l) p.
Proof. exact pass_sorted. Qed.

(* every token that is not a conditional directive is part of at least one pass *)
Theorem C14_passes_cover : forall l x, nondir l x -> exists p, In p (all_passes l) /\ In x p.
Proof. exact passes_cover. Qed.

(* without conditional directives there is exactly one pass, the identity *)
Theorem C14_single_identity_pass :
  forall l, Forall (fun ty => cd_kind ty = None) l -> all_passes l = [seq 0 (length l)].
Proof. exact no_directives_single_identity_pass. Qed.
