(* C14 — parsing yields well-formed logical lines that cover every token. Statements only.
   The grammar is an oracle: it is whatever sequence of line-state primitives it executes. The
   conditional-directive passes and the line-state kernel are fully modelled; the theorems hold for
   EVERY event sequence, hence for every grammar and every input. *)
From Coq Require Import Sorted.
From PasfmtVerif Require Import Model.DirectiveTree Proofs.DirectiveTreeProofs Model.ParserKernel Proofs.ParserKernelProofs
  Proofs.ParseFileProofs Model.Pipeline Proofs.PipelineProofs.

(* every pass is a strictly increasing list of valid indices of non-directive tokens *)
Theorem C14_pass_sorted :
  forall l p, In p (all_passes l) ->
  StronglySorted lt p /\ Forall (fun x => x < length l)%nat p /\ Forall (nondir l) p.
Proof. exact pass_sorted. Qed.

(* every token that is not a conditional directive is part of at least one pass *)
Theorem C14_passes_cover : forall l x, nondir l x -> exists p, In p (all_passes l) /\ In x p.
Proof. exact passes_cover. Qed.

(* without conditional directives there is exactly one pass, the identity *)
Theorem C14_single_identity_pass :
  forall l, Forall (fun ty => cd_kind ty = None) l -> all_passes l = [seq 0 (length l)].
Proof. exact no_directives_single_identity_pass. Qed.

(* the line-state kernel, for every sequence of primitives: every line strictly increasing, no
   token placed twice, only tokens of the pass *)
Theorem C14_kernel_lines_wf :
  forall pass evs, increasing pass ->
  Forall increasing (k_lines (k_run pass evs)) /\ NoDup (concat (k_lines (k_run pass evs)))
  /\ incl (concat (k_lines (k_run pass evs))) pass.
Proof. exact kernel_lines_wf. Qed.

(* if the pass is consumed to its end, every token of it is in a line or was skipped by skip_token *)
Theorem C14_kernel_cover :
  forall pass evs, (length pass <= k_pi (k_run pass evs))%nat ->
  forall i t, nth_error pass i = Some t -> In t (concat (k_lines (k_run pass evs))) \/ In i (k_skips evs 0).
Proof. exact kernel_cover. Qed.

(* the whole parse_file, any grammar (one arbitrary event log per pass): every final line is
   non-empty, strictly increasing and in range … *)
Theorem C14_final_lines_wf :
  forall tys evss, length evss = length (all_passes tys) ->
  Forall (fun l => l <> [] /\ increasing l /\ Forall (fun i => (i < length tys)%nat) l) (final_lines tys evss).
Proof. exact final_lines_wf. Qed.

(* … and every token of the file belongs to at least one final line, provided each pass was consumed
   to its end and skip_token only skipped compiler directives (both evaluated on every real parse) *)
Theorem C14_final_lines_cover :
  forall tys evss, length evss = length (all_passes tys) ->
  (forall pe, In pe (pass_runs tys evss) -> (length (fst pe) <= k_pi (k_run (fst pe) (snd pe)))%nat) ->
  (forall pe i t, In pe (pass_runs tys evss) -> In i (k_skips (snd pe) 0) -> nth_error (fst pe) i = Some t ->
                  is_compiler_directive tys t = true) ->
  forall i, (i < length tys)%nat -> exists l, In l (final_lines tys evss) /\ In i l.
Proof. exact final_lines_cover. Qed.

(* the five hook sites are the only code that mutates the parser's line state (generated inventory) *)
Theorem C14_kernel_sites : strings_eqb inv_kernel_mutations expected_kernel_mutations = true.
Proof. exact inventory_kernel_mutations. Qed.
