(* C08 — output whitespace is canonical. Statements only. *)
From PasfmtVerif Require Import Model.Pipeline Model.Reconstruct Model.Canon Proofs.ReconstructProofs Proofs.PipelineProofs.
From PasfmtVerif Require Import Model.WrapApply Proofs.WrapApplyProofs.

(* (a) a decided token that starts a line: line breaks, then a whole number of indentation units
   (tabs iff use_tabs), no spaces *)
Theorem C08_line_start :
  forall crlf tabs iw cw tok f, f_ignored f = false -> f_sp f = 0 -> 0 < f_nl f ->
  emit_ws (rs_new crlf tabs iw cw) false (tok, f)
  = nrepeat (f_nl f) (if crlf then [13; 10] else [10])
    ++ nrepeat (f_ind f * iw + f_cont f * cw) (if tabs then [9] else [32]).
Proof. exact emit_ws_line_start. Qed.

(* (b) a decided token that continues a line: spaces only (at most one under canon_tok), no tab *)
Theorem C08_continue :
  forall rs tok f, f_ignored f = false -> f_nl f = 0 -> f_ind f = 0 -> f_cont f = 0 ->
  emit_ws rs false (tok, f) = nrepeat (f_sp f) [32].
Proof. exact emit_ws_continue. Qed.

(* with spaces the unit is tab_width: indentation = (levels + ci * continuations) * tab_width spaces *)
Theorem C08_indentation_units :
  forall crlf tabs tw ci ind cont, ci * tw <= 255 ->
  nrepeat ind (rs_indent (rs_of_config crlf tabs tw ci)) ++ nrepeat cont (rs_cont (rs_of_config crlf tabs tw ci))
  = nrepeat (ind + ci * cont) (if tabs then [9] else nrepeat tw [32]).
Proof. exact indentation_units. Qed.

(* the order premise: TokenSpacing before EofNewline before the wrapper, in the generated list *)
Theorem C08_stage_order : order_ok pipeline = true.
Proof. exact generated_pipeline_order. Qed.

(* excluded class (finding F13): the u8 product saturates *)
Theorem C08_units_refuted_when_saturated :
  exists tw ci, 255 < ci * tw /\ length (rs_cont (rs_of_config false false tw ci)) = 255%nat /\ (255 mod tw <> 0).
Proof. exact indentation_units_refuted_saturation. Qed.

(* ---- the wrapper's EFFECT for ANY decisions of its search (Model/WrapApply.v, tied by the decision log):
   H-W1 for decided tokens is a theorem ---- *)
Theorem C08_wrapper_decided_tokens_canonical :
  forall (rs : rsettings) (fm : bool) (visits : list nat)
    (plan1 plan2 : list (nat * decision)) (l : list (token * fmt)) 
    (i : nat) (p : token * fmt),
  nth_error l i = Some p ->
  f_sp (snd p) <= 1 ->
  In i (map fst plan1) ->
  exists q : ftoken,
    nth_error (olf_effect rs fm visits plan1 plan2 l) i = Some q /\ canon_tok false q = true.
Proof. exact olf_effect_decided_canon. Qed.

Theorem C08_wrapper_undecided_tokens_keep_layout :
  forall (rs : rsettings) (fm : bool) (visits : list nat)
    (plan1 plan2 : list (nat * decision)) (l : list ftoken) (i : nat) 
    (p : ftoken),
  nth_error l i = Some p ->
  ~ In i (map fst plan1) ->
  ~ In i (map fst plan2) ->
  exists q : ftoken,
    nth_error (olf_effect rs fm visits plan1 plan2 l) i = Some q /\ same_layout p q.
Proof. exact olf_effect_undecided. Qed.

Theorem C08_wrapper_untouched :
  forall (rs : rsettings) (fm : bool) (visits : list nat)
    (plan1 plan2 : list (nat * decision)) (l : list ftoken),
  pointwise untouched l (olf_effect rs fm visits plan1 plan2 l).
Proof. exact olf_effect_untouched. Qed.

Theorem C08_wrapper_ignored_text :
  forall (rs : rsettings) (fm : bool) (visits : list nat)
    (plan1 plan2 : list (nat * decision)) (l : list (token * fmt)) 
    (j : nat) (p : token * fmt),
  nth_error l j = Some p ->
  f_ignored (snd p) = true ->
  exists q : ftoken,
    nth_error (olf_effect rs fm visits plan1 plan2 l) j = Some q /\
    fst q = fst p /\ f_ignored (snd q) = true.
Proof. exact olf_effect_ignored_text. Qed.

(* finding F42 as a witness theorem of the search model: a line without solution gets no decision at all *)
From PasfmtVerif Require Import Model.WrapSearch Model.WrapFormat Proofs.WrapTieProofs Proofs.WrapFindingsProofs.
Theorem C08_line_without_solution_gets_no_decision_F42 :
  ss_fuel_err f42_run = false /\
  outcome_of f42_run 0 = Some (WS_none 1) /\ decisions_of f42_run = [].
Proof. exact line_without_solution_gets_no_decision_F42. Qed.

(* END TO END, on the composed model Model/Format.v: format_model (the stage models folded over the stage list GENERATED from make_formatter,
   from the input bytes to the output bytes; tied to the implementation byte for byte and stage by stage by unit e2e). The output ends with
   the rendering of all tokens but Eof followed by exactly one configured newline, given the (decidable, monitored) shape of the Eof
   line handed to the wrapper. *)
From PasfmtVerif Require Import Model.Format Proofs.FormatProofs Proofs.FormatTotalProofs Proofs.FormatWrapProofs Proofs.FormatIgnoredProofs Proofs.FormatVerbatimProofs Proofs.FormatLayoutProofs Proofs.FormatRescanProofs Proofs.FormatContentProofs Proofs.FormatMLProofs Proofs.FormatContentMLProofs Proofs.FormatEofProofs.
Theorem C08_format_ends_with_one_newline :
  forall (alnum : bytes -> bool) (cfg : fconfig) (s out : bytes) (segs : list seg),
  format_model alnum cfg s = inl out ->
  lex_segments s = Some segs ->
  eof_lines_ok segs ->
  out =
  recon (cfg_rs cfg) false (removelast (fm_final alnum cfg segs)) ++ rs_newline (cfg_rs cfg).
Proof. exact format_ends_with_one_newline. Qed.

(* for every program of the fragment (Model/Fragment.v) the end-of-file clause holds unconditionally *)
From PasfmtVerif Require Import Model.Format Proofs.FormatProofs Proofs.FormatTotalProofs Proofs.FormatTabsProofs Proofs.FormatWsProofs Proofs.FormatCrlfProofs Proofs.FormatRelayoutProofs Proofs.FormatFragmentProofs.
Theorem C08_format_fragment_ends_with_one_newline :
  forall (alnum : bytes -> bool) (cfg : fconfig) (s out : bytes) (segs : list seg)
    (ss : Fragment.stmts),
  Fragment.wf ss = true ->
  format_model alnum cfg s = inl out ->
  lex_segments s = Some segs ->
  map seg_ty segs = Fragment.render_prog ss ->
  out =
  recon (cfg_rs cfg) false (removelast (fm_final alnum cfg segs)) ++ rs_newline (cfg_rs cfg).
Proof. exact format_fragment_ends_with_one_newline. Qed.

(* the end-of-file clause, unconditionally, for programs of the fragment with declaration sections *)
From PasfmtVerif Require Import Model.Fragment Proofs.FragmentProofs Proofs.FragmentParentsProofs Proofs.FragmentUnitProofs Model.Format Proofs.FormatFragmentProofs.
Theorem C08_format_fragment_unit_ends_with_one_newline :
  forall (alnum : bytes -> bool) (cfg : fconfig) (s out : bytes) (segs : list seg)
    (ds : list decl) (ss : stmts),
  wf ss = true ->
  format_model alnum cfg s = inl out ->
  lex_segments s = Some segs ->
  map seg_ty segs = render_unit ds ss ->
  out =
  recon (cfg_rs cfg) false (removelast (fm_final alnum cfg segs)) ++ rs_newline (cfg_rs cfg).
Proof. exact format_fragment_unit_ends_with_one_newline. Qed.


