(* C07 — regions with formatting disabled and asm bodies are kept byte for byte. Statements only. *)
From PasfmtVerif Require Import Model.Pipeline Model.Reconstruct Proofs.ReconstructProofs
  Proofs.RewritersProofs Proofs.PipelineProofs.

(* A run of ignored tokens is emitted verbatim (leading whitespace and content of each token),
   whatever the counters and settings, provided the safety net does not fire inside the run
   (no_net: a `//` comment followed by a non-Eof token whose whitespace contains neither LF nor CR). *)
Theorem C07_ignored_run_verbatim :
  forall rs mb l, Forall (fun p => f_ignored (snd p) = true) l -> no_net mb l -> recon rs mb l = verbatim l.
Proof. exact recon_ignored_verbatim. Qed.

(* The region proper starts at the content of its first token (the `pasfmt off` comment) *)
Theorem C07_region :
  forall rs mb p l, f_ignored (snd p) = true -> Forall (fun p => f_ignored (snd p) = true) l ->
  no_net (is_sl_comment (t_ty (fst p))) l ->
  exists pre, recon rs mb (p :: l) = pre ++ t_content (fst p) ++ verbatim l
              /\ (pre = t_ws (fst p) \/ pre = rs_newline rs ++ t_ws (fst p)).
Proof. exact recon_ignored_region. Qed.

(* Reconstruction of a whole file splits at any point; so a region's text is a contiguous part *)
Theorem C07_split : forall rs mb l1 l2, recon rs mb (l1 ++ l2) = recon rs mb l1 ++ recon rs (mb_after mb l1) l2.
Proof. exact recon_app. Qed.

(* No formatting stage touches an ignored token: text, whitespace and mark survive any chain *)
Theorem C07_ignored_untouched_by_stages :
  forall ks l l', chain ks l l' ->
  Forall2 (fun p q => f_ignored (snd p) = true -> fst q = fst p /\ f_ignored (snd q) = true) l l'.
Proof. exact chain_ignored_untouched. Qed.

From PasfmtVerif Require Import Model.Toggle Proofs.ToggleProofs.

(* the toggle grammar: opener (double slash, paren-star or brace), optional ASCII whitespace, `pasfmt` in any case, at least one whitespace, then exactly the word on / off (any case) ended by a non-alphanumeric byte *)
Theorem C07_toggle_grammar :
  forall (c : bytes) (t : toggle), parse_toggle c = Some t <-> toggle_comment_shape c t.
Proof. exact parse_toggle_iff. Qed.

(* recognition is case-insensitive *)
Theorem C07_toggle_case_insensitive :
  forall c1 c2 : bytes, lower c1 = lower c2 -> parse_toggle c1 = parse_toggle c2.
Proof. exact parse_toggle_case_insensitive. Qed.

(* a token is marked iff formatting is off after it was processed, or it is itself a toggle comment *)
Theorem C07_marks_spec :
  forall (b : bool) (l : list token) (i : nat) (tok : token),
  nth_error l i = Some tok ->
  nth_error (toggle_marks b l) i = Some (state_at b l i || is_toggle_tok tok).
Proof. exact toggle_marks_spec. Qed.

(* from an `off` comment to the next `on` comment (inclusive) every token is marked; the token after it is not *)
Theorem C07_marks_region :
  forall (b : bool) (l : list token) (i : nat) (ti : token) (j : nat) (tj : token),
  (i < j)%nat ->
  nth_error l i = Some ti ->
  tok_toggle ti = Some TOff ->
  nth_error l j = Some tj ->
  tok_toggle tj = Some TOn ->
  (forall (k : nat) (tk : token),
   (i < k < j)%nat -> nth_error l k = Some tk -> tok_toggle tk = None) ->
  (forall k : nat, (i <= k <= j)%nat -> nth_error (toggle_marks b l) k = Some true) /\
  (forall tn : token,
   nth_error l (S j) = Some tn ->
   tok_toggle tn = None -> nth_error (toggle_marks b l) (S j) = Some false).
Proof. exact toggle_marks_region_on. Qed.

(* only comments toggle: directives and string literals containing the words do nothing *)
Theorem C07_non_comment_never_toggles :
  forall tok : token,
  is_comment (t_ty tok) = false ->
  tok_toggle tok = None /\
  (forall ign : bool, next_state ign tok = ign) /\
  (forall (ign : bool) (r : list token),
   toggle_marks ign (tok :: r) = ign :: toggle_marks ign r).
Proof. exact toggle_non_comment_ignored. Qed.

(* the asm marks: every token of an instruction line, plus conditional directives on such a line (F33) *)
Theorem C07_asm_marks_keep_instruction_tokens_and_add_only_directives :
  forall (toks : list token) (lines : list (LogicalLineType * list nat)) 
    (i : nat) (tok : token),
  nth_error toks i = Some tok ->
  exists m : bool,
    nth_error (asm_marks toks lines) i = Some m /\
    (asm_marked lines i = true -> m = true) /\
    (m = true -> asm_marked lines i = true \/ is_cond_dir_tok tok = true).
Proof. exact asm_marks_spec. Qed.

Theorem C07_ignore_marks_spec :
  forall (toks : list token) (lines : list (LogicalLineType * list nat)) 
    (i : nat) (tok : token),
  nth_error toks i = Some tok ->
  exists am : bool,
    nth_error (asm_marks toks lines) i = Some am /\
    nth_error (ignore_marks toks lines) i =
    Some (state_at false toks i || is_toggle_tok tok || am).
Proof. exact ignore_marks_spec. Qed.

(* END TO END, on the composed model Model/Format.v: format_model (the stage models folded over the stage list GENERATED from make_formatter,
   from the input bytes to the output bytes; tied to the implementation byte for byte and stage by stage by unit e2e). The output is the
   concatenation of one part per lexed token, and the part of every token marked ignored (toggle regions, asm instruction lines) is
   its original whitespace and content, byte for byte - no exception: the safety-net newline cannot fire before an ignored token. *)
From PasfmtVerif Require Import Model.Format Proofs.FormatProofs Proofs.FormatTotalProofs Proofs.FormatWrapProofs Proofs.FormatIgnoredProofs Proofs.FormatVerbatimProofs Proofs.FormatLayoutProofs Proofs.FormatRescanProofs Proofs.FormatContentProofs Proofs.FormatMLProofs Proofs.FormatContentMLProofs Proofs.FormatEofProofs.
Theorem C07_format_ignored_exact :
  forall (alnum : bytes -> bool) (cfg : fconfig) (s out : bytes),
  format_model alnum cfg s = inl out ->
  exists (segs : list seg) (parts : list (bytes * bytes)),
    lex_segments s = Some segs /\
    concat (map seg_bytes segs) = s /\
    length parts = length segs /\
    out = flatten_parts parts /\
    (forall (i : nat) (sg : seg),
     nth_error segs i = Some sg ->
     nth_error (fm_marks segs) i = Some true ->
     nth_error parts i = Some (seg_ws sg, seg_content sg)).
Proof. exact format_ignored_exact. Qed.


