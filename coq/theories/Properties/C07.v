(* C07 — regions with formatting disabled and asm bodies are kept byte for byte. Statements only. *)
From PasfmtVerif Require Import Model.Pipeline Model.Reconstruct Proofs.ReconstructProofs
  Proofs.RewritersProofs Proofs.PipelineProofs.

(* A run of ignored tokens is emitted verbatim (leading whitespace and content of each token),
   whatever the counters and settings, provided the safety net does not fire inside the run
   (no_net: a `//` comment followed by a non-Eof token whose whitespace contains neither LF nor CR). *)
Theorem C07_ignored_run_verbatim :
  forall rs mb l, Forall (fun p => f_ignored (snd p) = true) l -> no_net mb l -> recon rs mb l = verbatim l.
Proof. exact recon_ignored_verbatim. Qed.

(* The region proper starts at the content of its first token (the `pasfmt off` comment) *)
Theorem C07_region :
  forall rs mb p l, f_ignored (snd p) = true -> Forall (fun p => f_ignored (snd p) = true) l ->
  no_net (is_sl_comment (t_ty (fst p))) l ->
  exists pre, recon rs mb (p :: l) = pre ++ t_content (fst p) ++ verbatim l
              /\ (pre = t_ws (fst p) \/ pre = rs_newline rs ++ t_ws (fst p)).
Proof. exact recon_ignored_region. Qed.

(* Reconstruction of a whole file splits at any point; so a region's text is a contiguous part *)
Theorem C07_split : forall rs mb l1 l2, recon rs mb (l1 ++ l2) = recon rs mb l1 ++ recon rs (mb_after mb l1) l2.
Proof. exact recon_app. Qed.

(* No formatting stage touches an ignored token: text, whitespace and mark survive any chain *)
Theorem C07_ignored_untouched_by_stages :
  forall ks l l', chain ks l l' ->
  Forall2 (fun p q => f_ignored (snd p) = true -> fst q = fst p /\ f_ignored (snd q) = true) l l'.
Proof. exact chain_ignored_untouched. Qed.
