(* C02 — well-formed code re-scans to the same tokens after formatting. Statements only.
   Stage 1: the spacing table never glues two tokens into a different token (reflection over all
   generated token types), with the exact list of exceptions; the remaining steps (comment breaks
   under plan_ok, locality of each sub-lexer) are monitored by the re-scan oracle. *)
From PasfmtVerif Require Import Model.Spacing Proofs.SpacingProofs Model.Generics Proofs.GenericsProofs
  Model.Requirements Proofs.RequirementsProofs.
From PasfmtVerif Require Import Model.Lexer Proofs.LexerProofs Proofs.LexerSpecProofs Proofs.LexerRelayoutProofs.

(* TokenSpacing changes nothing but the space counters *)
Theorem C02_spacing_only_counters : forall l, Forall2 same_but_sp (token_spacing l) l.
Proof. exact spacing_only_sp. Qed.

(* the final gap in front of token i+1 is a closed-form function of two types, the previous real
   type and the original count *)
Theorem C02_gap_local :
  forall l i tl fl tr fr, nth_error l i = Some (tl, fl) -> nth_error l (S i) = Some (tr, fr) ->
  nth_error (token_spacing l) (S i) = Some (tr, set_sp fr (gap_fn (t_ty tl) (t_ty tr) (prev_real_at l i) (f_sp fr))).
Proof. exact spacing_gap_local. Qed.

(* whenever the rule leaves NO space between two tokens, gluing them is safe for the lexer, or the
   input itself had no blank there and the rule kept it, or the pair is one of 23 listed exceptions
   (all impossible in well-formed code: `< >`, `( .`, `. )`, `. 5`, unterminated literal + operator) *)
Theorem C02_spacing_separates :
  forall tl tr pr o, is_sl_comment tl = false -> is_eof tl = false -> gap_fn tl tr pr o = 0 ->
  glue_safe tl tr = true \/ (o = 0 /\ reads_orig tl tr pr = true) \/ In (tl, tr) spacing_glue_exceptions.
Proof. exact spacing_separates. Qed.

(* the generics pass re-types nothing but `<` / `>` (to their Generic kind), never fails, and is a
   fixpoint of itself *)
Theorem C02_generics_only_chevrons :
  forall l i a b, nth_error l i = Some a -> nth_error (generics_consolidate l) i = Some b -> a <> b ->
  (exists k, a = TT_Op (OK_LessThan k) /\ b = TT_Op (OK_LessThan ChK_Generic)) \/
  (exists k, a = TT_Op (OK_GreaterThan k) /\ b = TT_Op (OK_GreaterThan ChK_Generic)).
Proof. exact generics_only_chevrons. Qed.

Theorem C02_generics_total : forall l, exists r, generics_run l = G_Ok r.
Proof. exact generics_total. Qed.

(* the wrapper's hard invariant, characterised exactly by reflection over all generated types *)
Theorem C02_invariant_characterised :
  forall prev cur cd, formatting_invariant prev cur cd = invariant_spec prev cur cd.
Proof. exact formatting_invariant_char. Qed.

(* whatever follows a `//` comment, a multi-line block comment or an unterminated literal must
   break (unless it is itself typed as a trailing comment): code is never absorbed into a comment *)
Theorem C02_break_after_line_ender :
  forall p cur cd, ends_its_line p = true -> trails_its_line cur = false ->
  formatting_invariant (Some p) cur cd = Some DR_MustBreak.
Proof. exact break_after_line_ender. Qed.

(* in any layout accepted by the (extracted, monitored) checker, a break follows every `//` comment *)
Theorem C02_accepted_layout_breaks_after_line_comment :
  forall cd l i p bp ty brk, plan_respects_invariants cd l = true ->
  nth_error l i = Some (p, bp) -> nth_error l (S i) = Some (ty, brk) ->
  is_sl_comment p = true -> trails_its_line (Some ty) = false -> brk = true.
Proof. exact plan_break_after_line_comment. Qed.

(* ---- the lexer half of C02 (Proofs/LexerRelayoutProofs.v): a token is determined by its own bytes once the
   right separator follows (exact side conditions per class, with counterexamples when dropped); re-scanning a
   re-spaced file yields the same token lengths and the same types up to the Individual/Inline flag, which is a
   function of the new whitespace; the documented content normalisations keep each token a token of its type ---- *)
Theorem C02_token_determined_by_own_bytes :
  forall (st : lstate) (nlb : bool) (b : byte) (t : bytes) (n : nat) 
    (ty : RawTokenType) (a : bool),
  lex_token st nlb b t = Some (n, ty, a) ->
  forall y : bytes,
  sep_ok b (firstn n t) ty (skipn n t) y ->
  lex_token st nlb b (firstn n t ++ y) = Some (n, ty, a).
Proof. exact lex_token_stable. Qed.

Theorem C02_newline_flag_only_comment_kind :
  forall (st : lstate) (nlb nlb' : bool) (b : byte) (t : bytes) (n : nat) 
    (ty : RawTokenType) (a : bool),
  lex_token st nlb b t = Some (n, ty, a) ->
  lex_token st nlb' b t = Some (n, retype nlb' ty, a).
Proof. exact lex_token_nlb. Qed.

Theorem C02_asm_flag_from_types :
  forall (st : lstate) (nlb : bool) (b : byte) (t : bytes) (n : nat) 
    (ty : RawTokenType) (a : bool),
  lex_token st nlb b t = Some (n, ty, a) -> a = asm_after (ls_asm st) ty.
Proof. exact lex_token_asm_flag. Qed.

Theorem C02_rescan_after_respacing :
  forall (s : bytes) (toks : list (nat * nat * RawTokenType)) (ws' : list bytes),
  lex s = Some toks ->
  gaps_ok PNone ws' (segments toks s) ->
  lex (flatten (respace true ws' (segments toks s))) =
  Some (map seg_lens (respace true ws' (segments toks s))).
Proof. exact lex_relayout. Qed.

Theorem C02_respace_same_types :
  forall (st : lstate) (toks : list (nat * nat * RawTokenType)) (l : bytes),
  lex_steps st toks l ->
  forall ws' : list bytes,
  same_lf ws' (segments toks l) ->
  length ws' = length toks ->
  map seg_ty (respace (ls_first st) ws' (segments toks l)) = map seg_ty (segments toks l).
Proof. exact respace_same_types. Qed.

Theorem C02_rescan_after_substitution :
  forall (st : lstate) (segs : list seg),
  relayout st segs -> lex_from st (flatten segs) = Some (map seg_lens segs).
Proof. exact relayout_lex. Qed.

Theorem C02_lowercase_keeps_token :
  forall (st : lstate) (nlb : bool) (allowed : bytes -> Prop) (c : bytes) 
    (ty : RawTokenType) (a : bool),
  is_alpha (hd 0 c) = true ->
  lexes_as st nlb allowed c ty a -> lexes_as st nlb allowed (lower c) ty a.
Proof. exact lexes_as_lower. Qed.

Theorem C02_line_comment_edits_keep_token :
  forall (st : lstate) (nlb : bool) (body : bytes),
  forallb not_eol body = true ->
  lexes_as st nlb eol_sep (47 :: 47 :: body)
    (RTT_Comment (if nlb then CoK_IndividualLine else CoK_InlineLine)) 
    (ls_asm st).
Proof. exact line_comment_lexes_as. Qed.

Theorem C02_directive_uppercase_keeps_token :
  forall (st : lstate) (nlb : bool) (allowed : bytes -> Prop) (name rest : bytes)
    (ty : RawTokenType) (a : bool),
  forallb is_ident_ascii name = true ->
  match rest with
  | [] => True
  | r :: _ => is_ident_ascii r = false
  end ->
  (lexes_as st nlb allowed (123 :: 36 :: name ++ rest) ty a ->
   lexes_as st nlb allowed (123 :: 36 :: upper name ++ rest) ty a) /\
  (lexes_as st nlb allowed (40 :: 42 :: 36 :: name ++ rest) ty a ->
   lexes_as st nlb allowed (40 :: 42 :: 36 :: upper name ++ rest) ty a).
Proof. exact lexes_as_directive_upper. Qed.

Theorem C02_closed_tokens_need_no_separator :
  forall (st : lstate) (nlb : bool) (b : byte) (q x y : bytes) (ty : RawTokenType) (a : bool),
  lex_token st nlb b (q ++ x) = Some (length q, ty, a) ->
  b = 123 \/ b = 40 /\ (exists q1 : list N, q = 42 :: q1) ->
  closed_on_right b q ty -> lex_token st nlb b (q ++ y) = Some (length q, ty, a).
Proof. exact lex_token_closed_on_right. Qed.

Theorem C02_any_blank_separator_refuted :
  exists
    (st : lstate) (nlb : bool) (b : byte) (t : bytes) (n : nat) (ty : RawTokenType) 
  (a : bool) (y : bytes),
    lex_token st nlb b t = Some (n, ty, a) /\
    sep_start y /\ lex_token st nlb b (firstn n t ++ y) <> Some (n, ty, a).
Proof. exact lex_token_stable_any_blank_refuted. Qed.

(* the grammar model: the parser only RE-TYPES tokens within their lexical class (IdentifierOrKeyword -> Identifier | Keyword; the kind
   argument of In/Const/Var/Equal/Caret) and never changes their number: it cannot turn a comment into code or the reverse *)
From PasfmtVerif Require Import Model.ParserGrammar Proofs.ParserKernelProofs Proofs.ParserGrammarProofs Proofs.ParserGrammarRunProofs Proofs.ParserGrammarTypesProofs Proofs.ParserGrammarConsumedProofs Proofs.ParserGrammarCoverProofs Proofs.ParserGrammarEofProofs.
Theorem C02_parser_only_retypes :
  forall (pass : list nat) (wsnl : list bool) (fuel : nat) (c : call) (s : pstate pass),
  Forall2 retype_ok (ps_toks pass s) (ps_toks pass (run pass wsnl fuel c s)).
Proof. exact run_retype_ok. Qed.

Theorem C02_parser_keeps_token_count :
  forall (toks : list RawTokenType) (wsnl : list bool) (passes : list (list nat)),
  length (r_toks (parse_file_with toks wsnl passes)) = length toks.
Proof. exact parse_file_token_count. Qed.

Theorem C02_parser_final_token_types :
  forall (toks : list RawTokenType) (wsnl : list bool) (passes : list (list nat)) 
    (i : nat) (t : RawTokenType),
  nth_error toks i = Some t ->
  exists ty : TokenType,
    nth_error (parsed_token_types (parse_file_with toks wsnl passes)) i = Some ty /\
    tt_retyped t ty /\ tt_class_of ty = lex_class_of t.
Proof. exact parse_file_token_types. Qed.

Theorem C02_retype_keeps_lexical_class :
  forall a b : RawTokenType, retype_ok a b -> lex_class_of a = lex_class_of b.
Proof. exact retype_ok_class. Qed.

Theorem C02_retype_fixes_other_kinds :
  forall a b : RawTokenType,
  retype_ok a b ->
  match a with
  | RTT_Op _ | RTT_Identifier | RTT_IdentifierOrKeyword _ | RTT_Keyword _ => True
  | _ => b = a
  end.
Proof. exact retype_ok_fixed. Qed.

(* the search model (Model/WrapSearch.v, tied decision by decision by the unit search): every solution has one decision per token,
   each respecting get_formatting_invariant (break after line comments, before individual comments, ...), at every nesting depth of
   child lines and for every cache content - what used to be the monitored hypothesis plan_respects *)
From PasfmtVerif Require Import Model.WrapContexts Model.WrapSearch Model.WrapFormat Proofs.WrapSearchProofs Proofs.WrapSearchDeepProofs.
Theorem C02_search_solution_respects_invariants :
  forall (W : wsettings) (lvs : list lview) (fmain : nat)
    (child_solve : sst -> lview -> N * N -> first_decision -> sst * option solution)
    (lv : lview) (st : sst) (ws : N * N) (first : first_decision) 
    (st' : sst) (s : solution),
  find_optimal_solution W lvs fmain child_solve lv st ws first = (st', SR_ok s) ->
  match lv_recs lv with
  | [] => sol_decs s = []
  | r :: _ => sol_ok lv (first_dec first (tr_inv r)) s
  end.
Proof. exact find_optimal_solution_ok. Qed.

Theorem C02_search_solve_respects_invariants :
  forall (W : wsettings) (lvs : list lview) (fmain depth : nat) (st : sst) 
    (lv : lview) (ws : N * N) (first : first_decision) (st' : sst) 
    (s : solution),
  solve W lvs fmain depth st lv ws first = (st', Some s) ->
  match lv_recs lv with
  | [] => sol_decs s = []
  | r :: _ => sol_ok lv (first_dec first (tr_inv r)) s
  end.
Proof. exact solve_ok. Qed.

Theorem C02_search_child_solutions_respect_invariants :
  forall (W : wsettings) (lvs : list lview) (fmain depth : nat) (st : sst) 
    (lv : lview) (ws : N * N) (first : first_decision),
  cache_ok lvs st ->
  cache_ok lvs (fst (solve W lvs fmain depth st lv ws first)) /\
  (forall s : solution,
   snd (solve W lvs fmain depth st lv ws first) = Some s -> sol_deep lvs lv s).
Proof. exact solve_deep. Qed.

(* the search model, lifted to the final counters (first phase; overlapping lines of conditional directives included: the last decision
   wins): every decided token breaks or continues as the formatting invariant of its position demands - after a line comment a break,
   before an individual comment a break, an inline comment never broken off *)
From PasfmtVerif Require Import Model.WrapContexts Model.WrapSearch Model.WrapFormat Proofs.WrapSearchProofs Proofs.WrapSearchDeepProofs Proofs.WrapFitsProofs Proofs.WrapDepthProofs Proofs.WrapEventsProofs Proofs.WrapPhasesProofs Proofs.WrapAliasProofs.
Theorem C02_search_final_breaks_respect_invariants :
  forall (W : wsettings) (infos : list tokinfo) (lines : list lline) 
    (l : list ftoken) (t : nat) (tok : token) (f : fmt),
  let evs := rev (ss_log (wrap_phase1 W infos lines)) in
  nth_error (zero_line_starts (apply_plan (plan_of_events evs) l)) t = Some (tok, f) ->
  decs_for t (plan_of_events evs) <> [] ->
  exists cd : bool,
    respects
      (formatting_invariant
         match t with
         | 0%nat => None
         | S p => option_map ti_ty (nth_error infos p)
         end (option_map ti_ty (nth_error infos t)) cd) (0 <? f_nl f) = true.
Proof. exact phase1_final_breaks. Qed.

Theorem C02_invariant_comment_clauses :
  forall (prev cur : option TokenType) (cd : bool),
  prev <> None ->
  (match cur with
   | Some (TT_Comment CoK_InlineBlock) | Some (TT_Comment CoK_InlineLine) => True
   | _ => False
   end -> formatting_invariant prev cur cd = Some DR_MustNotBreak) /\
  (match cur with
   | Some (TT_TextLiteral TK_MultiLine) | Some (TT_Comment CoK_IndividualBlock) |
     Some (TT_Comment CoK_MultilineBlock) | Some (TT_Comment CoK_IndividualLine) => True
   | _ => False
   end -> formatting_invariant prev cur cd = Some DR_MustBreak) /\
  (match prev with
   | Some (TT_TextLiteral TK_Unterminated) | Some (TT_Comment CoK_MultilineBlock) |
     Some (TT_Comment CoK_InlineLine) | Some (TT_Comment CoK_IndividualLine) => True
   | _ => False
   end ->
   match cur with
   | Some (TT_Comment CoK_InlineBlock) | Some (TT_Comment CoK_InlineLine) => False
   | _ => True
   end -> formatting_invariant prev cur cd = Some DR_MustBreak).
Proof. exact formatting_invariant_comment_clauses. Qed.

Theorem C02_search_phase2_events_respect_invariants :
  forall (W : wsettings) (infos1 infos2 : list tokinfo) (lines : list lline)
    (reflow : list nat),
  map ti_ty infos1 = map ti_ty infos2 ->
  Forall (ev_ok (mk_lviews infos2 lines))
    (Dlog
       (wrap_phase2 W infos2 lines reflow
          (sst_log (Ev_Phase 2) (sst_log (Ev_Phase 1) (wrap_phase1 W infos1 lines))))).
Proof. exact phase2_events_ok. Qed.

(* END TO END, on the composed model Model/Format.v: format_model (the stage models folded over the stage list GENERATED from make_formatter,
   from the input bytes to the output bytes; tied to the implementation byte for byte and stage by stage by unit e2e). One final token per
   lexed token, in order, in the same lexical class, its text the documented normalisation of the original; and re-scanning the output
   gives those tokens back under the per-gap separator condition (the missing link - that spacing and search leave a separator where one
   is needed - is false for the 23 listed gluing pairs and decided per trace by unit relex). *)
From PasfmtVerif Require Import Model.Format Proofs.FormatProofs Proofs.FormatTotalProofs Proofs.FormatWrapProofs Proofs.FormatIgnoredProofs Proofs.FormatVerbatimProofs Proofs.FormatLayoutProofs Proofs.FormatRescanProofs Proofs.FormatContentProofs Proofs.FormatMLProofs Proofs.FormatContentMLProofs Proofs.FormatEofProofs.
Theorem C02_format_tokens_kept :
  forall (alnum : bytes -> bool) (cfg : fconfig) (s out : bytes),
  format_model alnum cfg s = inl out ->
  exists segs : list seg,
    lex_segments s = Some segs /\
    out = fm_out alnum cfg segs /\
    length (fm_final alnum cfg segs) = length segs /\
    (forall (i : nat) (sg : seg),
     nth_error segs i = Some sg ->
     exists (tok0 : token) (m : bool) (tokf : token) (ff : fmt),
       nth_error (fm_toks segs) i = Some tok0 /\
       t_content tok0 = seg_content sg /\
       nth_error (fm_marks segs) i = Some m /\
       nth_error (fm_final alnum cfg segs) i = Some (tokf, ff) /\
       t_ty tokf = t_ty tok0 /\
       ParserGrammarTypesProofs.tt_class_of (t_ty tokf) =
       ParserGrammarTypesProofs.lex_class_of (seg_ty sg) /\
       WrapApplyProofs.ml_rewrites (cfg_rs cfg) (norm_content alnum tok0 m) (t_content tokf)).
Proof. exact format_tokens_kept. Qed.

Theorem C02_format_rescan :
  forall (alnum : bytes -> bool) (cfg : fconfig) (s out : bytes),
  format_model alnum cfg s = inl out ->
  exists segs : list seg,
    lex_segments s = Some segs /\
    (LexerRelayoutProofs.relayout init_state (format_osegs alnum cfg segs) ->
     lex out = Some (map seg_lens (format_osegs alnum cfg segs))).
Proof. exact format_rescan. Qed.


