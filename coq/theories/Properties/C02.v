(* C02 — well-formed code re-scans to the same tokens after formatting. Statements only.
   Stage 1: the spacing table never glues two tokens into a different token (reflection over all
   generated token types), with the exact list of exceptions; the remaining steps (comment breaks
   under plan_ok, locality of each sub-lexer) are monitored by the re-scan oracle. *)
From PasfmtVerif Require Import Model.Spacing Proofs.SpacingProofs Model.Generics Proofs.GenericsProofs
  Model.Requirements Proofs.RequirementsProofs.

(* TokenSpacing changes nothing but the space counters *)
Theorem C02_spacing_only_counters : forall l, Forall2 same_but_sp (token_spacing l) l.
Proof. exact spacing_only_sp. Qed.

(* the final gap in front of token i+1 is a closed-form function of two types, the previous real
   type and the original count *)
Theorem C02_gap_local :
  forall l i tl fl tr fr, nth_error l i = Some (tl, fl) -> nth_error l (S i) = Some (tr, fr) ->
  nth_error (token_spacing l) (S i) = Some (tr, set_sp fr (gap_fn (t_ty tl) (t_ty tr) (prev_real_at l i) (f_sp fr))).
Proof. exact spacing_gap_local. Qed.

(* whenever the rule leaves NO space between two tokens, gluing them is safe for the lexer, or the
   input itself had no blank there and the rule kept it, or the pair is one of 23 listed exceptions
   (all impossible in well-formed code: `< >`, `( .`, `. )`, `. 5`, unterminated literal + operator) *)
Theorem C02_spacing_separates :
  forall tl tr pr o, is_sl_comment tl = false -> is_eof tl = false -> gap_fn tl tr pr o = 0 ->
  glue_safe tl tr = true \/ (o = 0 /\ reads_orig tl tr pr = true) \/ In (tl, tr) spacing_glue_exceptions.
Proof. exact spacing_separates. Qed.

(* the generics pass re-types nothing but `<` / `>` (to their Generic kind), never fails, and is a
   fixpoint of itself *)
Theorem C02_generics_only_chevrons :
  forall l i a b, nth_error l i = Some a -> nth_error (generics_consolidate l) i = Some b -> a <> b ->
  (exists k, a = TT_Op (OK_LessThan k) /\ b = TT_Op (OK_LessThan ChK_Generic)) \/
  (exists k, a = TT_Op (OK_GreaterThan k) /\ b = TT_Op (OK_GreaterThan ChK_Generic)).
Proof. exact generics_only_chevrons. Qed.

Theorem C02_generics_total : forall l, exists r, generics_run l = G_Ok r.
Proof. exact generics_total. Qed.

(* the wrapper's hard invariant, characterised exactly by reflection over all generated types *)
Theorem C02_invariant_characterised :
  forall prev cur cd, formatting_invariant prev cur cd = invariant_spec prev cur cd.
Proof. exact formatting_invariant_char. Qed.

(* whatever follows a `//` comment, a multi-line block comment or an unterminated literal must
   break (unless it is itself typed as a trailing comment): code is never absorbed into a comment *)
Theorem C02_break_after_line_ender :
  forall p cur cd, ends_its_line p = true -> trails_its_line cur = false ->
  formatting_invariant (Some p) cur cd = Some DR_MustBreak.
Proof. exact break_after_line_ender. Qed.

(* in any layout accepted by the (extracted, monitored) checker, a break follows every `//` comment *)
Theorem C02_accepted_layout_breaks_after_line_comment :
  forall cd l i p bp ty brk, plan_respects_invariants cd l = true ->
  nth_error l i = Some (p, bp) -> nth_error l (S i) = Some (ty, brk) ->
  is_sl_comment p = true -> trails_its_line (Some ty) = false -> brk = true.
Proof. exact plan_break_after_line_comment. Qed.
