(* C02 — well-formed code re-scans to the same tokens after formatting. Statements only.
   Stage 1: the spacing table never glues two tokens into a different token (reflection over all
   generated token types), with the exact list of exceptions; the remaining steps (comment breaks
   under plan_ok, locality of each sub-lexer) are monitored by the re-scan oracle. *)
From PasfmtVerif Require Import Model.Spacing Proofs.SpacingProofs.

(* TokenSpacing changes nothing but the space counters *)
Theorem C02_spacing_only_counters : forall l, Forall2 same_but_sp (token_spacing l) l.
Proof. exact spacing_only_sp. Qed.

(* the final gap in front of token i+1 is a closed-form function of two types, the previous real
   type and the original count *)
Theorem C02_gap_local :
  forall l i tl fl tr fr, nth_error l i = Some (tl, fl) -> nth_error l (S i) = Some (tr, fr) ->
  nth_error (token_spacing l) (S i) = Some (tr, set_sp fr (gap_fn (t_ty tl) (t_ty tr) (prev_real_at l i) (f_sp fr))).
Proof. exact spacing_gap_local. Qed.

(* whenever the rule leaves NO space between two tokens, gluing them is safe for the lexer, or the
   input itself had no blank there and the rule kept it, or the pair is one of 23 listed exceptions
   (all impossible in well-formed code: `< >`, `( .`, `. )`, `. 5`, unterminated literal + operator) *)
Theorem C02_spacing_separates :
  forall tl tr pr o, is_sl_comment tl = false -> is_eof tl = false -> gap_fn tl tr pr o = 0 ->
  glue_safe tl tr = true \/ (o = 0 /\ reads_orig tl tr pr = true) \/ In (tl, tr) spacing_glue_exceptions.
Proof. exact spacing_separates. Qed.
