(* C11 — wrap_column is a limit, not a style switch. Statements only.
   The wrapper's search is a heuristic best-first search and is NOT modelled; the theorems below are
   supporting lemmas about the penalty and the fit test, the main clause is decided by the oracle. *)
From PasfmtVerif Require Import Model.Penalty Proofs.PenaltyProofs Model.Pipeline Proofs.PipelineProofs Model.Measure Proofs.MeasureProofs.

Theorem C11_penalty_antitone : forall W1 W2 c, W1 <= W2 -> total_penalty W2 c <= total_penalty W1 c.
Proof. exact penalty_antitone. Qed.

Theorem C11_penalty_eq_when_fits : forall W1 W2 c, W1 <= W2 -> fits W1 c = true -> total_penalty W1 c = total_penalty W2 c.
Proof. exact penalty_eq_when_fits. Qed.

Theorem C11_fits_monotone : forall W1 W2 c, W1 <= W2 -> fits W1 c = true -> fits W2 c = true.
Proof. exact fits_monotone. Qed.

Theorem C11_ideal_search_width_stable :
  forall cands W1 W2 s2, W1 <= W2 -> In s2 cands ->
  (forall c, In c cands -> total_penalty W2 s2 <= total_penalty W2 c) -> fits W1 s2 = true ->
  forall c, In c cands -> total_penalty W1 s2 <= total_penalty W1 c.
Proof. exact ideal_search_width_stable. Qed.

(* wrap_column / max_line_length is used at exactly the modelled sites (generated inventory) *)
Theorem C11_width_sites : strings_eqb inv_max_line_length_uses expected_max_line_length_uses = true.
Proof. exact inventory_max_line_length. Qed.

(* the wrapper's measure of a line (get_token_line_length) is the column the reconstructor reaches *)
Theorem C11_measured_fit_is_rendered_fit :
  forall (rs : rsettings) (col : N) (tok : token) (f : fmt) (d : decision) (W : N),
  rs_measurable rs = true ->
  tok_measurable (tok, zero_start1 (apply_decision f d)) = true ->
  token_line_length rs col d tok (f_sp f) <= W ->
  rendered_col rs false col (tok, zero_start1 (apply_decision f d)) <= W.
Proof. exact measured_fit_is_rendered_fit. Qed.

(* composed with the effect model of the wrapper: for ANY plan, a decided token ends at the column get_token_line_length gives for
   the LAST decision taken for it *)
From PasfmtVerif Require Import Proofs.MeasureApplyProofs.
Theorem C11_any_plan_end_column_is_measure :
  forall (rs : rsettings) (visits : list nat) (plan1 plan2 : list (nat * decision))
    (l : list ftoken) (i : nat) (tok : token) (f : fmt) (d : decision) 
    (col : N),
  nth_error l i = Some (tok, f) ->
  last_decision plan1 i = Some d ->
  rs_measurable rs = true ->
  exists p : ftoken,
    nth_error (olf_effect rs false visits plan1 plan2 l) i = Some p /\
    fst p = tok /\
    (tok_measurable p = true ->
     rendered_col rs false col p = token_line_length rs col d tok (f_sp f)).
Proof. exact olf_effect_end_column. Qed.

(* the search model: the penalty of a solution accounts for every token that CONTINUES a line beyond max_line_length (at every depth of
   child solutions, cached ones included): a solution cheaper than 2^20 has no such token, and any such token costs at least 2^20.
   A token that STARTS a line pays nothing however long it is (witness): "fits" can fail only there. *)
From PasfmtVerif Require Import Model.WrapContexts Model.WrapSearch Model.WrapFormat Proofs.WrapSearchProofs Proofs.WrapSearchDeepProofs Proofs.WrapFitsProofs Proofs.WrapDepthProofs Proofs.WrapEventsProofs Proofs.WrapPhasesProofs Proofs.WrapAliasProofs.
Theorem C11_cheap_solution_fits :
  forall (W : wsettings) (lvs : list lview) (fmain depth : nat) (lv : lview) 
    (ws : N * N) (first : first_decision) (st' : sst) (s : solution),
  solve W lvs fmain depth sst_init lv ws first = (st', Some s) ->
  sol_pen s < 1048576 -> fits_deep W s.
Proof. exact solve_fits. Qed.

Theorem C11_overflow_costs_a_megapenalty :
  forall (W : wsettings) (s : solution) (t : tdec),
  pen_sound W s ->
  In t (sol_decs s) -> td_dec t = WContinue -> w_max W < td_lll t -> 1048576 <= sol_pen s.
Proof. exact overflow_costs. Qed.

Theorem C11_penalty_accounts_for_every_overflow :
  forall (W : wsettings) (lvs : list lview) (fmain depth : nat) (st : sst) 
    (lv : lview) (ws : N * N) (first : first_decision),
  cache_ps W st ->
  cache_ps W (fst (solve W lvs fmain depth st lv ws first)) /\
  (forall s : solution, snd (solve W lvs fmain depth st lv ws first) = Some s -> pen_sound W s).
Proof. exact solve_pen_sound. Qed.

Theorem C11_line_start_overflow_is_free_witness :
  let infos :=
    [{| ti_ty := TT_Identifier; ti_sp := 0; ti_len := 1; ti_ml := None |};
     {| ti_ty := TT_Identifier; ti_sp := 1; ti_len := 50; ti_ml := None |};
     {| ti_ty := TT_Eof; ti_sp := 0; ti_len := 0; ti_ml := None |}] in
  let lines :=
    [{| ll_type := LLT_Unknown; ll_level := 0; ll_parent := None; ll_toks := [0%nat] |};
     {| ll_type := LLT_Unknown; ll_level := 0; ll_parent := None; ll_toks := [1%nat] |};
     {| ll_type := LLT_Eof; ll_level := 0; ll_parent := None; ll_toks := [2%nat] |}] in
  match nth_error (mk_lviews infos lines) 1 with
  | Some lv =>
      let (_, o) :=
        solve exa_W (mk_lviews infos lines) (main_fuel exa_W) 4 sst_init lv (0, 0) FD_Break in
      match o with
      | Some s => sol_pen s = 3 /\ map td_lll (sol_decs s) = [50] /\ cont_over exa_W s = false
      | None => False
      end
  | None => False
  end.
Proof. exact break_overflow_is_free'. Qed.

(* finding F43 on the search model (witness, by computation): two solutions of equal penalty, every measured length within the
   narrower limit in both runs, and the limit decides which one is returned - clause 1 of the property is false of the search *)
From PasfmtVerif Require Import Model.WrapSearch Model.WrapFormat Proofs.WrapTieProofs.
Theorem C11_equal_penalty_solutions_chosen_by_limit_F43 :
  ss_fuel_err tie_narrow = false /\
  ss_fuel_err tie_wide = false /\
  penalty_of tie_narrow 4 = Some 12 /\
  penalty_of tie_wide 4 = Some 12 /\
  forallb (fun l : N => l <=? 70) (lengths_of tie_narrow) = true /\
  forallb (fun l : N => l <=? 70) (lengths_of tie_wide) = true /\
  decs_eqb (decisions_of tie_narrow) (decisions_of tie_wide) = false.
Proof. exact equal_penalty_solutions_chosen_by_limit. Qed.

(* the listed findings F24, F26, F30 as witness theorems of the search model (by computation): clauses 2 and 3 are false of the search as it is *)
From PasfmtVerif Require Import Model.WrapSearch Model.WrapFormat Proofs.WrapTieProofs Proofs.WrapFindingsProofs.
Theorem C11_wider_limit_more_breaks_without_overflow_F26 :
  all_within 40 (f26_run 40) = true /\
  all_within 45 (f26_run 45) = true /\
  breaks_of (f26_run 40) = 3%nat /\
  breaks_of (f26_run 45) = 4%nat /\
  penalty_of (f26_run 40) 0 = Some 256 /\ penalty_of (f26_run 45) 0 = Some 6.
Proof. exact wider_limit_more_breaks_without_overflow_F26. Qed.

Theorem C11_wider_limit_more_breaks_in_overflow_regime_F24 :
  all_within 16 (f24_run 16) = false /\
  all_within 20 (f24_run 20) = true /\
  breaks_of (f24_run 16) = 5%nat /\
  breaks_of (f24_run 20) = 6%nat /\
  penalty_of (f24_run 16) 1 = Some 1048600 /\ penalty_of (f24_run 20) 1 = Some 2051.
Proof. exact wider_limit_more_breaks_in_overflow_regime_F24. Qed.

Theorem C11_fits_at_narrow_limit_not_at_wider_F30 :
  all_within 18 (f30_run 18) = true /\
  all_within 19 (f30_run 19) = false /\ penalty_of (f30_run 19) 3 = Some 2097167.
Proof. exact fits_at_narrow_limit_not_at_wider_F30. Qed.

(* the best-first search is not optimal with respect to the over-length penalty (finding F30 on the model): at limit 19 it returns a
   solution with two tokens beyond the limit, without hitting the iteration limit, although the solution it returns at limit 18 is
   admissible, respects every invariant and fits within 19 - the dearer alternative is pruned by best penalty per token before the
   closers are measured *)
From PasfmtVerif Require Import Model.WrapContexts Model.WrapSearch Model.WrapFormat Proofs.WrapSearchProofs Proofs.WrapWidthFree Proofs.WrapSimProofs Proofs.WrapUnconstrainedProofs Proofs.WrapWidthIndependence Proofs.WrapOptimalityProofs.
Theorem C11_best_first_not_optimal_F30 :
  exists (lv : lview) (s19 : solution) (st19 : sst) (s18 : solution) 
  (st18 : sst),
    nth_error f30_lvs 3 = Some lv /\
    solve (f30_W 19) f30_lvs (main_fuel (f30_W 19)) 8 sst_init lv (2, 0) FD_Break =
    (st19, Some s19) /\
    1048576 <= sol_pen s19 /\
    (forall (l : nat) (n : N), ~ In (Ev_S l (WS_limit n)) (ss_log st19)) /\
    solve (f30_W 18) f30_lvs (main_fuel (f30_W 18)) 8 sst_init lv (2, 0) FD_Break =
    (st18, Some s18) /\
    cont_within 19 s18 = true /\
    match lv_recs lv with
    | [] => True
    | r :: _ => sol_ok lv (first_dec FD_Break (tr_inv r)) s18
    end.
Proof. exact optimality_refuted. Qed.

(* THE TRUE PART OF CLAUSE 1 (clause 1 itself is false of the search: F43, F30).  A line without child lines whose all-Continue layout
   is admissible (every requirement MustNotBreak or Indifferent along the way) and measures at most the limit is returned unbroken,
   in one or two iterations, paying only its first token's break; the check is monotone in the limit; hence a FILE whose every
   top-level line passes the (executable) check line_unbroken at some limit is laid out identically - the whole result of the first
   phase, events included - at every wider limit.  (Lines with child lines that have two placement options put two nodes into the heap:
   that is where ties and pruning live.) *)
From PasfmtVerif Require Import Model.WrapContexts Model.WrapSearch Model.WrapFormat Proofs.WrapSearchProofs Proofs.WrapWidthFree Proofs.WrapSimProofs Proofs.WrapUnconstrainedProofs Proofs.WrapWidthIndependence Proofs.WrapFileProofs Proofs.WrapNoBreakProofs Proofs.WrapTwoPhaseProofs.
Theorem C11_file_that_fits_unbroken_is_stable_at_every_wider_limit :
  forall (rs : rsettings) (W W' : wsettings) (lines : list lline) (l : list ftoken),
  same_but_max W W' ->
  w_max W <= w_max W' ->
  1 <= w_iter W ->
  (forall lv : lview,
   In lv (mk_lviews (map tokinfo_of l) lines) -> lv_top lv = true -> line_unbroken W lv = true) ->
  olf_model rs W' false lines l = olf_model rs W false lines l.
Proof. exact olf_model_wider. Qed.

Theorem C11_line_that_fits_unbroken_is_left_unbroken :
  forall (W : wsettings) (lvs : list lview) (fm k : nat) (st : sst) 
    (lv : lview) (ws : N * N) (first : first_decision) (r : trec) 
    (rest : list trec) (nd0 : node),
  lv_recs lv = r :: rest ->
  Forall no_kids (r :: rest) ->
  init_node W lv ws first r rest = Some nd0 ->
  cont_ok (w_max W) lv (length rest) nd0 = true ->
  (2 <= fm)%nat ->
  1 <= w_iter W ->
  solve W lvs fm (S k) st lv ws first =
  (sst_log
     (Ev_S (lv_idx lv)
        (WS_ok (n_pen nd0) match rest with
                           | [] => 1
                           | _ :: _ => 2
                           end
           match n_decs (cont_end lv (length rest) nd0) with
           | [] => 0
           | t :: _ => td_lll t
           end)) st, Some (solution_of_node (cont_end lv (length rest) nd0))).
Proof. exact solve_all_continue. Qed.

Theorem C11_unbroken_check_is_monotone_in_the_limit :
  forall (lv : lview) (M M' : N),
  M <= M' ->
  forall (fuel : nat) (nd : node), cont_ok M lv fuel nd = true -> cont_ok M' lv fuel nd = true.
Proof. exact cont_ok_mono. Qed.


