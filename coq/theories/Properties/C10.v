(* C10 — indentation settings only re-render indentation. Statements only. *)
From PasfmtVerif Require Import Model.Reconstruct Proofs.ReconstructProofs Model.Measure Proofs.MeasureProofs.

Theorem C10_tabs_vs_spaces :
  forall crlf tw ci ind cont, ci * tw <= 255 ->
  expand_tabs tw (nrepeat ind (rs_indent (rs_of_config crlf true tw ci)) ++ nrepeat cont (rs_cont (rs_of_config crlf true tw ci)))
  = nrepeat ind (rs_indent (rs_of_config crlf false tw ci)) ++ nrepeat cont (rs_cont (rs_of_config crlf false tw ci)).
Proof. exact indentation_tabs_vs_spaces. Qed.

Theorem C10_indentation_units :
  forall crlf tabs tw ci ind cont, ci * tw <= 255 ->
  nrepeat ind (rs_indent (rs_of_config crlf tabs tw ci)) ++ nrepeat cont (rs_cont (rs_of_config crlf tabs tw ci))
  = nrepeat (ind + ci * cont) (if tabs then [9] else nrepeat tw [32]).
Proof. exact indentation_units. Qed.

Theorem C10_expand_tabs_identity_without_tabs :
  forall tw l, forallb (fun b => negb (b =? 9)) l = true -> expand_tabs tw l = l.
Proof. exact expand_tabs_no_tab. Qed.

Theorem C10_refuted_when_saturated :
  exists tw ci, 255 < ci * tw /\ length (rs_cont (rs_of_config false false tw ci)) = 255%nat /\ (255 mod tw <> 0).
Proof. exact indentation_units_refuted_saturation. Qed.

(* the wrapper's measure of a line (get_token_line_length) is the column the reconstructor reaches *)
Theorem C10_measure_is_rendered_col :
  forall (rs : rsettings) (col : N) (tok : token) (f : fmt) (d : decision),
  rs_measurable rs = true ->
  tok_measurable (tok, zero_start1 (apply_decision f d)) = true ->
  rendered_col rs false col (tok, zero_start1 (apply_decision f d)) =
  token_line_length rs col d tok (f_sp f).
Proof. exact measure_is_rendered_col. Qed.

Theorem C10_rendered_cols_are_counter_cols :
  forall (rs : rsettings) (l : list ftoken) (mb : bool) (col : N),
  rs_measurable rs = true ->
  forallb tok_measurable l = true ->
  breaks_after_sl mb l = true -> rendered_cols rs mb col l = counter_cols rs col l.
Proof. exact rendered_cols_eq_counter_cols. Qed.

Theorem C10_shipped_settings_measurable :
  forall (crlf tabs : bool) (tw ci : N), rs_measurable (rs_of_config crlf tabs tw ci) = true.
Proof. exact rs_of_config_measurable. Qed.

(* composed with the effect model of the wrapper: for ANY plan, a decided token ends at the column get_token_line_length gives for
   the LAST decision taken for it *)
From PasfmtVerif Require Import Proofs.MeasureApplyProofs.
Theorem C10_decided_token_end_column :
  forall (rs : rsettings) (plan : list (nat * decision)) (l : list ftoken) 
    (i : nat) (tok : token) (f : fmt) (d : decision) (col : N),
  nth_error l i = Some (tok, f) ->
  last_decision plan i = Some d ->
  rs_measurable rs = true ->
  exists f' : fmt,
    nth_error (zero_line_starts (apply_plan plan l)) i =
    Some (tok, zero_start1 (apply_decision f' d)) /\
    f_sp f' = f_sp f /\
    (tok_measurable (tok, zero_start1 (apply_decision f' d)) = true ->
     rendered_col rs false col (tok, zero_start1 (apply_decision f' d)) =
     token_line_length rs col d tok (f_sp f)).
Proof. exact decided_token_end_column. Qed.


