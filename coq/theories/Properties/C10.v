(* C10 — indentation settings only re-render indentation. Statements only. *)
From PasfmtVerif Require Import Model.Reconstruct Proofs.ReconstructProofs Model.Measure Proofs.MeasureProofs.

Theorem C10_tabs_vs_spaces :
  forall crlf tw ci ind cont, ci * tw <= 255 ->
  expand_tabs tw (nrepeat ind (rs_indent (rs_of_config crlf true tw ci)) ++ nrepeat cont (rs_cont (rs_of_config crlf true tw ci)))
  = nrepeat ind (rs_indent (rs_of_config crlf false tw ci)) ++ nrepeat cont (rs_cont (rs_of_config crlf false tw ci)).
Proof. exact indentation_tabs_vs_spaces. Qed.

Theorem C10_indentation_units :
  forall crlf tabs tw ci ind cont, ci * tw <= 255 ->
  nrepeat ind (rs_indent (rs_of_config crlf tabs tw ci)) ++ nrepeat cont (rs_cont (rs_of_config crlf tabs tw ci))
  = nrepeat (ind + ci * cont) (if tabs then [9] else nrepeat tw [32]).
Proof. exact indentation_units. Qed.

Theorem C10_expand_tabs_identity_without_tabs :
  forall tw l, forallb (fun b => negb (b =? 9)) l = true -> expand_tabs tw l = l.
Proof. exact expand_tabs_no_tab. Qed.

Theorem C10_refuted_when_saturated :
  exists tw ci, 255 < ci * tw /\ length (rs_cont (rs_of_config false false tw ci)) = 255%nat /\ (255 mod tw <> 0).
Proof. exact indentation_units_refuted_saturation. Qed.

(* the wrapper's measure of a line (get_token_line_length) is the column the reconstructor reaches *)
Theorem C10_measure_is_rendered_col :
  forall (rs : rsettings) (col : N) (tok : token) (f : fmt) (d : decision),
  rs_measurable rs = true ->
  tok_measurable (tok, zero_start1 (apply_decision f d)) = true ->
  rendered_col rs false col (tok, zero_start1 (apply_decision f d)) =
  token_line_length rs col d tok (f_sp f).
Proof. exact measure_is_rendered_col. Qed.

Theorem C10_rendered_cols_are_counter_cols :
  forall (rs : rsettings) (l : list ftoken) (mb : bool) (col : N),
  rs_measurable rs = true ->
  forallb tok_measurable l = true ->
  breaks_after_sl mb l = true -> rendered_cols rs mb col l = counter_cols rs col l.
Proof. exact rendered_cols_eq_counter_cols. Qed.

Theorem C10_shipped_settings_measurable :
  forall (crlf tabs : bool) (tw ci : N), rs_measurable (rs_of_config crlf tabs tw ci) = true.
Proof. exact rs_of_config_measurable. Qed.

(* composed with the effect model of the wrapper: for ANY plan, a decided token ends at the column get_token_line_length gives for
   the LAST decision taken for it *)
From PasfmtVerif Require Import Proofs.MeasureApplyProofs.
Theorem C10_decided_token_end_column :
  forall (rs : rsettings) (plan : list (nat * decision)) (l : list ftoken) 
    (i : nat) (tok : token) (f : fmt) (d : decision) (col : N),
  nth_error l i = Some (tok, f) ->
  last_decision plan i = Some d ->
  rs_measurable rs = true ->
  exists f' : fmt,
    nth_error (zero_line_starts (apply_plan plan l)) i =
    Some (tok, zero_start1 (apply_decision f' d)) /\
    f_sp f' = f_sp f /\
    (tok_measurable (tok, zero_start1 (apply_decision f' d)) = true ->
     rendered_col rs false col (tok, zero_start1 (apply_decision f' d)) =
     token_line_length rs col d tok (f_sp f)).
Proof. exact decided_token_end_column. Qed.

(* THE CLAUSE "with the line width unconstrained, the indentation settings change nothing but the rendering of indentation" ON THE SEARCH
   MODEL.  Two runs over the same lines and token types whose lengths (spaces, contents, whitespace units) are arbitrary and different:
   if in each run max_line_length is at least an explicit bound on everything the search can measure (cpre / run_bounds: the widest
   whitespace reachable plus the widest token times the number of decisions one physical line can hold), the solutions are EQUAL after
   erasing the recorded lengths: same Break/Continue per token, same indentation and continuation COUNTS, same penalty, same child
   solutions recursively - at every depth, with the child-line cache (keyed by a byte length, so a lookup may hit in one run and miss
   in the other) and across both phases (the state invariants are re-established).  Proof: the search with its two over-length tests
   removed (solve_inf, a proof device) does not depend on any length (simulation of the heap, the pruning table and the cache), and
   under the bound the real search equals it.  run_bounds_of_check makes the bound checkable by computation for a given input. *)
From PasfmtVerif Require Import Model.WrapContexts Model.WrapSearch Model.WrapFormat Proofs.WrapSearchProofs Proofs.WrapWidthFree Proofs.WrapSimProofs Proofs.WrapUnconstrainedProofs Proofs.WrapWidthIndependence Proofs.WrapOptimalityProofs.
Theorem C10_search_width_independent :
  forall (WA WB : wsettings) (lvsA lvsB : list lview) (fm : nat) (mA SWA LVA IBA CBA : N)
    (spanA : nat -> N) (mB SWB LVB IBB CBB : N) (spanB : nat -> N),
  w_iter WA = w_iter WB ->
  w_bbb WA = w_bbb WB ->
  Forall2 view_sim lvsA lvsB ->
  run_bounds WA lvsA mA SWA LVA IBA CBA spanA ->
  run_bounds WB lvsB mB SWB LVB IBB CBB spanB ->
  forall (i : nat) (lvA lvB : lview) (k : nat) (stA stB : sst) (ws : N * N)
    (fdA fdB : first_decision),
  nth_error lvsA i = Some lvA ->
  nth_error lvsB i = Some lvB ->
  (length lvsA - i < k)%nat ->
  fd_sim fdA fdB ->
  sound WA lvsA fm stA ->
  cache_bd WA lvsA mA IBA CBA spanA stA ->
  sound WB lvsB fm stB ->
  cache_bd WB lvsB mB IBB CBB spanB stB ->
  cpre WA mA SWA LVA IBA CBA spanA k i ws fdA ->
  cpre WB mB SWB LVB IBB CBB spanB k i ws fdB ->
  option_map erase (snd (solve WA lvsA fm k stA lvA ws fdA)) =
  option_map erase (snd (solve WB lvsB fm k stB lvB ws fdB)) /\
  sound WA lvsA fm (fst (solve WA lvsA fm k stA lvA ws fdA)) /\
  cache_bd WA lvsA mA IBA CBA spanA (fst (solve WA lvsA fm k stA lvA ws fdA)) /\
  sound WB lvsB fm (fst (solve WB lvsB fm k stB lvB ws fdB)) /\
  cache_bd WB lvsB mB IBB CBB spanB (fst (solve WB lvsB fm k stB lvB ws fdB)).
Proof. exact solve_width_independent. Qed.

Theorem C10_width_free_search_ignores_lengths :
  forall (WA WB : wsettings) (infosA infosB : list tokinfo) (lines : list lline) (fm : nat),
  w_iter WA = w_iter WB ->
  w_bbb WA = w_bbb WB ->
  parents_ok lines = true ->
  map ti_ty infosA = map ti_ty infosB ->
  forall (i : nat) (lvA lvB : lview) (dA dB : nat) (stA stB : sst) 
    (ws : N * N) (fdA fdB : first_decision),
  nth_error (mk_lviews infosA lines) i = Some lvA ->
  nth_error (mk_lviews infosB lines) i = Some lvB ->
  (length lines - i < dA)%nat ->
  (length lines - i < dB)%nat ->
  sound WA (mk_lviews infosA lines) fm stA ->
  sound WB (mk_lviews infosB lines) fm stB ->
  fd_sim fdA fdB ->
  sound WA (mk_lviews infosA lines) fm
    (fst (solve_inf WA (mk_lviews infosA lines) fm dA stA lvA ws fdA)) /\
  sound WB (mk_lviews infosB lines) fm
    (fst (solve_inf WB (mk_lviews infosB lines) fm dB stB lvB ws fdB)) /\
  option_map erase (snd (solve_inf WA (mk_lviews infosA lines) fm dA stA lvA ws fdA)) =
  option_map erase (snd (solve_inf WB (mk_lviews infosB lines) fm dB stB lvB ws fdB)).
Proof. exact solve_inf_sim_views. Qed.

Theorem C10_unconstrained_search_is_width_free :
  forall (W : wsettings) (lvs : list lview) (fm : nat) (m SW LV IB CB : N) (span : nat -> N),
  (forall (i : nat) (lv : lview) (r : trec),
   nth_error lvs i = Some lv ->
   In r (lv_recs lv) ->
   tr_sp r + tr_len r <= m /\
   (forall x : N, tr_ml r = Some x -> x <= m) /\ stack_weight (tr_stk r) <= SW) ->
  (forall (i : nat) (lv : lview), nth_error lvs i = Some lv -> lv_level lv <= LV) ->
  (forall (i : nat) (lv : lview),
   nth_error lvs i = Some lv -> psum span (lv_recs lv) <= span i) ->
  WrapDepthProofs.views_wf lvs ->
  (forall (k : nat) (lv : lview), nth_error lvs k = Some lv -> view_fun lv) ->
  forall (k : nat) (st : sst) (lv : lview) (j : nat) (ws : N * N) (fd : first_decision),
  nth_error lvs j = Some lv ->
  cache_bd W lvs m IB CB span st ->
  cpre W m SW LV IB CB span k j ws fd ->
  solve W lvs fm k st lv ws fd = solve_inf W lvs fm k st lv ws fd /\
  cache_bd W lvs m IB CB span (fst (solve W lvs fm k st lv ws fd)) /\
  cpost W m IB CB span j fd (snd (solve W lvs fm k st lv ws fd)).
Proof. exact solve_unc. Qed.

Theorem C10_bounds_from_check :
  forall (W : wsettings) (infos : list tokinfo) (lines : list lline) 
    (m SW LV IB CB : N) (spanl : list N),
  parents_ok lines = true ->
  bounds_check (mk_lviews infos lines) m SW LV spanl = true ->
  run_bounds W (mk_lviews infos lines) m SW LV IB CB (fun k : nat => nth k spanl 0).
Proof. exact run_bounds_of_check. Qed.

(* FILE LEVEL: for a whole token vector and line list, two settings that differ in the widths of the two whitespace units (and in
   any string of the reconstruction settings): if max_line_length is at least unconstrained_bound (an executable function of the
   file and the two widths; run_bounds_file: it always satisfies the side conditions) the final token vectors - every counter
   f_nl, f_ind, f_cont, f_sp of every token - are EQUAL, and so are the decisions up to the measured length.  First phase for every
   file; both phases for files without multi-line string literals (with them the set of reflowed lines depends on the settings
   strings: left to the pairwise oracle) *)
From PasfmtVerif Require Import Model.WrapContexts Model.WrapSearch Model.WrapFormat Proofs.WrapSearchProofs Proofs.WrapWidthFree Proofs.WrapSimProofs Proofs.WrapUnconstrainedProofs Proofs.WrapWidthIndependence Proofs.WrapFileProofs Proofs.WrapReadsProofs Proofs.WrapSoundTransferProofs.
Theorem C10_file_counters_independent_of_indentation_widths :
  forall (rsA rsB : rsettings) (WA WB : wsettings) (lines : list lline) (l : list ftoken),
  w_iter WA = w_iter WB ->
  w_bbb WA = w_bbb WB ->
  parents_ok lines = true ->
  unconstrained_bound (map tokinfo_of l) lines (w_indw WA) (w_contw WA) <= w_max WA ->
  unconstrained_bound (map tokinfo_of l) lines (w_indw WB) (w_contw WB) <= w_max WB ->
  fst (fst (olf_model rsA WA false lines l)) = fst (fst (olf_model rsB WB false lines l)) /\
  map ev_erase (filter WrapEventsProofs.is_D (snd (fst (olf_model rsA WA false lines l)))) =
  map ev_erase (filter WrapEventsProofs.is_D (snd (fst (olf_model rsB WB false lines l)))).
Proof. exact olf_model_phase1_indep. Qed.

Theorem C10_file_counters_independent_both_phases_no_ml :
  forall (rsA rsB : rsettings) (WA WB : wsettings) (lines : list lline) (l : list ftoken),
  w_iter WA = w_iter WB ->
  w_bbb WA = w_bbb WB ->
  parents_ok lines = true ->
  no_ml l ->
  unconstrained_bound (map tokinfo_of l) lines (w_indw WA) (w_contw WA) <= w_max WA ->
  unconstrained_bound (map tokinfo_of l) lines (w_indw WB) (w_contw WB) <= w_max WB ->
  fst (fst (olf_model rsA WA true lines l)) = fst (fst (olf_model rsB WB true lines l)) /\
  map ev_erase (filter WrapEventsProofs.is_D (snd (fst (olf_model rsA WA true lines l)))) =
  map ev_erase (filter WrapEventsProofs.is_D (snd (fst (olf_model rsB WB true lines l)))).
Proof. exact olf_model_indep_no_ml. Qed.

Theorem C10_file_bound_holds :
  forall (W : wsettings) (infos : list tokinfo) (lines : list lline),
  parents_ok lines = true ->
  let lvs := mk_lviews infos lines in
  run_bounds W lvs (file_m lvs) (file_SW lvs) (file_LV lvs) (file_IB lvs) 
    (file_CB lvs) (file_span lvs).
Proof. exact run_bounds_file. Qed.

(* both phases, files WITH multi-line string literals: all final counters and all decision events agree under two settings, given the
   bound for both phases' lengths and that the string stage marks the same lines for reflow under both settings (the hypothesis cannot
   be dropped: a literal already indented for one setting is reflowed only under the other) *)
From PasfmtVerif Require Import Model.WrapContexts Model.WrapSearch Model.WrapFormat Proofs.WrapSearchProofs Proofs.WrapWidthFree Proofs.WrapSimProofs Proofs.WrapUnconstrainedProofs Proofs.WrapWidthIndependence Proofs.WrapFileProofs Proofs.WrapNoBreakProofs Proofs.WrapTwoPhaseProofs.
Theorem C10_file_counters_independent_both_phases_equal_reflow_sets :
  forall (rsA rsB : rsettings) (WA WB : wsettings),
  w_iter WA = w_iter WB ->
  w_bbb WA = w_bbb WB ->
  forall lines : list lline,
  parents_ok lines = true ->
  forall (l : list ftoken) (mA mB : N),
  file_m (mk_lviews (map tokinfo_of l) lines) <= mA ->
  file_m (mk_lviews (olf_infos2 rsA WA lines l) lines) <= mA ->
  bound_m (mk_lviews (map tokinfo_of l) lines) mA (w_indw WA) (w_contw WA) <= w_max WA ->
  file_m (mk_lviews (map tokinfo_of l) lines) <= mB ->
  file_m (mk_lviews (olf_infos2 rsB WB lines l) lines) <= mB ->
  bound_m (mk_lviews (map tokinfo_of l) lines) mB (w_indw WB) (w_contw WB) <= w_max WB ->
  olf_reflow rsA WA lines l = olf_reflow rsB WB lines l ->
  map snd (fst (fst (olf_model rsA WA true lines l))) =
  map snd (fst (fst (olf_model rsB WB true lines l))) /\
  map ev_erase (filter WrapEventsProofs.is_D (snd (fst (olf_model rsA WA true lines l)))) =
  map ev_erase (filter WrapEventsProofs.is_D (snd (fst (olf_model rsB WB true lines l)))).
Proof. exact olf_model_two_phase_indep. Qed.

(* END TO END, the property itself: two configurations that differ only in use_tabs; replacing the leading tabs of every line of the
   use_tabs=true output by tab_width spaces gives exactly the use_tabs=false output - under a DECIDABLE hypothesis: ci*tw <= 255 (F13
   beyond), no multi-line literal to re-indent (or the option off), wrap_column at least unconstrained_bound for both unit widths, and
   no token text or verbatim whitespace that itself starts a line with a tab (without which the clause is false: `{<LF><TAB>x}`).
   The eleven stages in front of the wrapper do not read the settings at all. *)
From PasfmtVerif Require Import Model.Format Proofs.FormatProofs Proofs.FormatTotalProofs Proofs.FormatTabsProofs Proofs.FormatWsProofs Proofs.FormatCrlfProofs Proofs.FormatRelayoutProofs Proofs.FormatFragmentProofs.
Theorem C10_format_tabs_vs_spaces :
  forall (alnum : bytes -> bool) (cfg : fconfig) (s outT : bytes),
  format_model alnum (with_tabs cfg true) s = inl outT ->
  (forall segs : list seg, lex_segments s = Some segs -> tabs_hyp alnum cfg segs) ->
  format_model alnum (with_tabs cfg false) s = inl (expand_leading (c_tab_width cfg) outT).
Proof. exact format_tabs_vs_spaces. Qed.

Theorem C10_stages_before_the_wrapper_do_not_read_the_settings :
  forall (alnum : bytes -> bool) (cfgA cfgB : fconfig) (ks : list kstage) (st : fstate),
  incl ks pre_wrap_kinds -> run_kinds alnum cfgA ks st = run_kinds alnum cfgB ks st.
Proof. exact format_settings_not_read. Qed.


