(* C10 — indentation settings only re-render indentation. Statements only. *)
From PasfmtVerif Require Import Model.Reconstruct Proofs.ReconstructProofs.

Theorem C10_tabs_vs_spaces :
  forall crlf tw ci ind cont, ci * tw <= 255 ->
  expand_tabs tw (nrepeat ind (rs_indent (rs_of_config crlf true tw ci)) ++ nrepeat cont (rs_cont (rs_of_config crlf true tw ci)))
  = nrepeat ind (rs_indent (rs_of_config crlf false tw ci)) ++ nrepeat cont (rs_cont (rs_of_config crlf false tw ci)).
Proof. exact indentation_tabs_vs_spaces. Qed.

Theorem C10_indentation_units :
  forall crlf tabs tw ci ind cont, ci * tw <= 255 ->
  nrepeat ind (rs_indent (rs_of_config crlf tabs tw ci)) ++ nrepeat cont (rs_cont (rs_of_config crlf tabs tw ci))
  = nrepeat (ind + ci * cont) (if tabs then [9] else nrepeat tw [32]).
Proof. exact indentation_units. Qed.

Theorem C10_expand_tabs_identity_without_tabs :
  forall tw l, forallb (fun b => negb (b =? 9)) l = true -> expand_tabs tw l = l.
Proof. exact expand_tabs_no_tab. Qed.

Theorem C10_refuted_when_saturated :
  exists tw ci, 255 < ci * tw /\ length (rs_cont (rs_of_config false false tw ci)) = 255%nat /\ (255 mod tw <> 0).
Proof. exact indentation_units_refuted_saturation. Qed.
