(* C09 — the configured line ending is used everywhere. Statements only. *)
From PasfmtVerif Require Import Model.Reconstruct Proofs.ReconstructProofs.

(* reconstruct's output is a rendering of newline-independent pieces: every emitted break is
   rs_newline and nothing else in the output depends on it *)
Theorem C09_output_is_rendering :
  forall rs mb l, recon rs mb l = render (rs_newline rs) (recon_pieces rs mb l).
Proof. exact recon_render. Qed.

Theorem C09_pieces_independent_of_newline :
  forall rs nl mb l, recon_pieces (with_newline rs nl) mb l = recon_pieces rs mb l.
Proof. exact recon_pieces_newline_indep. Qed.

(* hence, for the same formatted tokens, crlf output = lf output with each emitted terminator substituted *)
Theorem C09_crlf_is_subst :
  forall rs mb l,
  recon (with_newline rs [13; 10]) mb l = render [13; 10] (recon_pieces rs mb l)
  /\ recon (with_newline rs [10]) mb l = render [10] (recon_pieces rs mb l).
Proof. exact recon_crlf_is_subst. Qed.

From PasfmtVerif Require Import Model.FmtData Proofs.FmtDataProofs.

(* the original layout is read identically whether the input's line breaks are LF or CRLF *)
Theorem C09_input_crlf_same_data :
  forall (ws : bytes) (ign : bool), fmt_of_ws (lf_to_crlf ws) ign = fmt_of_ws ws ign.
Proof. exact fmt_of_ws_crlf_any. Qed.

(* … in the other direction *)
Theorem C09_input_crlf_to_lf_same_data :
  forall (ws : bytes) (ign : bool), fmt_of_ws (crlf_to_lf ws) ign = fmt_of_ws ws ign.
Proof. exact fmt_of_ws_crlf_to_lf. Qed.

(* whitespace emitted under crlf and under lf reads back as the same data *)
Theorem C09_emitted_ws_reads_back_newline_independent :
  forall (tabs : bool) (iw cw : N) (mb : bool) (tok : token) (f : fmt) (ign : bool),
  f_ignored f = false ->
  fmt_of_ws (Reconstruct.emit_ws (rs_new true tabs iw cw) mb (tok, f)) ign =
  fmt_of_ws (Reconstruct.emit_ws (rs_new false tabs iw cw) mb (tok, f)) ign.
Proof. exact fmt_of_emit_ws_newline_indep. Qed.

(* the first phase of the wrapper reads no string of the reconstruction settings - in particular not the newline string - and the
   tokens only through tokinfo_of (the second phase compares re-indented literal text, terminators included: differential oracle) *)
From PasfmtVerif Require Import Model.WrapContexts Model.WrapSearch Model.WrapFormat Proofs.WrapSearchProofs Proofs.WrapWidthFree Proofs.WrapSimProofs Proofs.WrapUnconstrainedProofs Proofs.WrapWidthIndependence Proofs.WrapFileProofs Proofs.WrapReadsProofs Proofs.WrapSoundTransferProofs.
Theorem C09_search_phase1_independent_of_newline_and_settings_strings :
  forall (rs rs' : rsettings) (W : wsettings) (lines : list lline) (l l' : list ftoken),
  map tokinfo_of l = map tokinfo_of l' ->
  snd (fst (olf_model rs W false lines l)) = snd (fst (olf_model rs' W false lines l')) /\
  snd (olf_model rs W false lines l) = snd (olf_model rs' W false lines l').
Proof. exact olf_phase1_events_read. Qed.

(* END TO END, on the composed model Model/Format.v: format_model (the stage models folded over the stage list GENERATED from make_formatter,
   from the input bytes to the output bytes; tied to the implementation byte for byte and stage by stage by unit e2e). The glue in front of
   every decided token is a number of configured newlines followed by blanks/tabs; with string re-indentation off the crlf output is
   the lf output with each terminator substituted. *)
From PasfmtVerif Require Import Model.Format Proofs.FormatProofs Proofs.FormatTotalProofs Proofs.FormatWrapProofs Proofs.FormatIgnoredProofs Proofs.FormatVerbatimProofs Proofs.FormatLayoutProofs Proofs.FormatRescanProofs Proofs.FormatContentProofs Proofs.FormatMLProofs Proofs.FormatContentMLProofs Proofs.FormatEofProofs.
Theorem C09_format_line_breaks :
  forall (alnum : bytes -> bool) (cfg : fconfig) (s out : bytes),
  format_model alnum cfg s = inl out ->
  exists (segs : list seg) (parts : list (bytes * bytes)),
    lex_segments s = Some segs /\
    length parts = length segs /\
    out = flatten_parts parts /\
    (forall (i : nat) (sg : seg),
     nth_error segs i = Some sg ->
     (nth_error (fm_marks segs) i = Some true ->
      exists nl : list N,
        nth_error parts i = Some (nl ++ seg_ws sg, seg_content sg) /\
        (nl = [] \/ nl = rs_newline (cfg_rs cfg))) /\
     (nth_error (fm_marks segs) i = Some false ->
      exists (k : N) (blanks : list N) (body : bytes),
        nth_error parts i = Some (nrepeat k (rs_newline (cfg_rs cfg)) ++ blanks, body) /\
        sp_tabs blanks)).
Proof. exact format_line_breaks. Qed.

Theorem C09_format_crlf_is_subst :
  forall (alnum : bytes -> bool) (cfg : fconfig) (s : bytes),
  c_fms cfg = false ->
  (exists pieces : list ReconstructProofs.piece,
     format_model alnum (with_crlf cfg true) s =
     inl (ReconstructProofs.render [13; 10] pieces) /\
     format_model alnum (with_crlf cfg false) s = inl (ReconstructProofs.render [10] pieces)) \/
  (exists e : ferr,
     format_model alnum (with_crlf cfg true) s = inr e /\
     format_model alnum (with_crlf cfg false) s = inr e).
Proof. exact format_crlf_is_subst. Qed.

(* END TO END, clause 3: an input with CRLF line breaks formats exactly like the same input with LF line breaks (outputs and errors),
   when nothing is ignored and the lexer commutes with the substitution (a decidable condition on the input, true whenever no token
   holds a line break; measured true on every applicable case; deriving it from the lexer model is open) *)
From PasfmtVerif Require Import Model.Format Proofs.FormatProofs Proofs.FormatTotalProofs Proofs.FormatTabsProofs Proofs.FormatWsProofs Proofs.FormatCrlfProofs Proofs.FormatRelayoutProofs Proofs.FormatFragmentProofs.
Theorem C09_format_crlf_input :
  forall (alnum : bytes -> bool) (cfg : fconfig) (s : bytes) (segs : list seg),
  lex_segments s = Some segs ->
  lex_crlf_commutes s segs ->
  (forall m : bool, In m (fm_marks segs) -> m = false) ->
  format_model alnum cfg (FmtDataProofs.lf_to_crlf s) = format_model alnum cfg s.
Proof. exact format_crlf_input. Qed.

(* the lexer link of clause 3: the lexer commutes with LF -> CRLF when no token text holds a line break and every directive token is
   terminated (every sub-lexer stops at the first CR or LF and cannot tell them apart); with it clause 3 holds end to end under two
   boolean checks on the input *)
From PasfmtVerif Require Import Model.Format Proofs.FormatProofs Proofs.FormatIdemProofs Proofs.LexerCrlfProofs Proofs.FormatCrlfLinkProofs.
Theorem C09_format_crlf_input_checked :
  forall (alnum : bytes -> bool) (cfg : fconfig) (s : bytes) (segs : list seg),
  lex_segments s = Some segs ->
  crlf_link_okb segs = true ->
  forallb negb (fm_marks segs) = true ->
  format_model alnum cfg (FmtDataProofs.lf_to_crlf s) = format_model alnum cfg s.
Proof. exact format_crlf_input_checked. Qed.

Theorem C09_lexer_commutes_with_crlf :
  forall (s : bytes) (segs : list seg),
  lex_segments s = Some segs ->
  Forall seg_crlf_ok segs ->
  lex_segments (FmtDataProofs.lf_to_crlf s) = Some (map crlf_seg3 segs).
Proof. exact lex_crlf. Qed.


