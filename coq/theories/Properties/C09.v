(* C09 — the configured line ending is used everywhere. Statements only. *)
From PasfmtVerif Require Import Model.Reconstruct Proofs.ReconstructProofs.

(* reconstruct's output is a rendering of newline-independent pieces: every emitted break is
   rs_newline and nothing else in the output depends on it *)
Theorem C09_output_is_rendering :
  forall rs mb l, recon rs mb l = render (rs_newline rs) (recon_pieces rs mb l).
Proof. exact recon_render. Qed.

Theorem C09_pieces_independent_of_newline :
  forall rs nl mb l, recon_pieces (with_newline rs nl) mb l = recon_pieces rs mb l.
Proof. exact recon_pieces_newline_indep. Qed.

(* hence, for the same formatted tokens, crlf output = lf output with each emitted terminator substituted *)
Theorem C09_crlf_is_subst :
  forall rs mb l,
  recon (with_newline rs [13; 10]) mb l = render [13; 10] (recon_pieces rs mb l)
  /\ recon (with_newline rs [10]) mb l = render [10] (recon_pieces rs mb l).
Proof. exact recon_crlf_is_subst. Qed.
