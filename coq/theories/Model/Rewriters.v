(* Model/Rewriters.v — the content-rewriting rules and EofNewline:
   core/src/rules/lowercase_keywords.rs, comment_contents.rs, eof_newline.rs.
   Token::set_content resets ws_len to 0, so a rewritten token has empty leading whitespace. *)
From PasfmtVerif Require Export Model.Token.

Definition set_content (tok : token) (c : bytes) : token := mkToken [] c (t_ty tok).

(* ---------------- lowercase_keywords.rs ---------------- *)
Definition lowercase_tok (p : ftoken) : ftoken :=
  let (tok, f) := p in
  if f_ignored f then p
  else if is_keyword (t_ty tok) && existsb is_upper (t_content tok)
       then (set_content tok (lower (t_content tok)), f)
       else p.

Definition lowercase_keywords (l : list ftoken) : list ftoken := map lowercase_tok l.

(* ---------------- comment_contents.rs: format_line_comment ---------------- *)
Fixpoint drop_while {A} (p : A -> bool) (l : list A) : list A :=
  match l with a :: t => if p a then drop_while p t else l | [] => [] end.

Definition trim_ascii_end (l : bytes) : bytes := rev (drop_while is_ascii_ws (rev l)).

(* str::trim_end_matches(|c| c <= ' ' || c == U+3000): the lexer's blanks, from the end, char-wise.
   On valid UTF-8 a trailing byte <= 0x20 is a whole character and U+3000 is the triple E3 80 80. *)
Fixpoint drop_blank_rev (r : bytes) : bytes :=
  match r with
  | [] => []
  | z :: t =>
      if z <=? 32 then drop_blank_rev t
      else match t with
           | y :: x :: rest => if (z =? 128) && (y =? 128) && (x =? 227) then drop_blank_rev rest else r
           | _ => r
           end
  end.
Definition trim_blank_end (l : bytes) : bytes := rev (drop_blank_rev (rev l)).

Definition strip_prefix (p l : bytes) : option bytes :=
  if is_prefix p l then Some (skipn (length p) l) else None.

(* byte length of the UTF-8 character starting with lead byte b *)
Definition utf8_len (b : byte) : nat :=
  if b <? 128 then 1 else if b <? 224 then 2 else if b <? 240 then 3 else 4.

Definition first_char (l : bytes) : bytes :=
  match l with [] => [] | b :: _ => firstn (utf8_len b) l end.

(* l is a repetition of the chunk c (str.chars().all_equal() on valid UTF-8) *)
Fixpoint all_chunks_eq (fuel : nat) (c l : bytes) : bool :=
  match l with
  | [] => true
  | _ :: _ =>
      match fuel with
      | O => false
      | S k => is_prefix c l && negb (Nat.eqb (length c) 0) && all_chunks_eq k c (skipn (length c) l)
      end
  end.

Section CommentFmt.
  (* char::is_alphanumeric on the first character of the comment, given by its UTF-8 bytes.
     It only decides whether a `//` comment is a separator line; every theorem holds for ANY
     predicate.  The executable instance is supplied by the driver from a table dumped from Rust. *)
  Variable alnum : bytes -> bool.

  Definition comment_is_separator (comment : bytes) : bool :=
    let c := trim_blank_end comment in   (* since the repair of F40: the lexer's blanks, not only ASCII whitespace *)
    (10 <=? N.of_nat (length c))
    && (match c with [] => false | _ :: _ => negb (alnum (first_char c)) end)
    && all_chunks_eq (length c) (first_char c) c.

  (* doc comments have an extra slash *)
  Definition flc_comment (comment0 : bytes) : bytes :=
    match comment0 with
    | b :: r => if b =? 47 then r else comment0
    | [] => comment0
    end.

  (* the "insert one space" candidate *)
  Definition flc_new1 (content comment : bytes) : option bytes :=
    match comment with
    | b :: _ =>
        if negb (is_ascii_ws b) && negb (comment_is_separator comment)
        then Some (firstn (length content - length comment) content ++ [32] ++ comment)
        else None
    | [] => None
    end.

  (* None = token untouched; Some c = set_content c *)
  Definition format_line_comment (content : bytes) : option bytes :=
    match strip_prefix [47; 47] content with
    | None => None
    | Some comment0 =>
        let new1 := flc_new1 content (flc_comment comment0) in
        if Nat.eqb (length (trim_blank_end content)) (length content) then new1
        else Some (trim_blank_end (match new1 with Some s => s | None => content end))
    end.

  (* ---------------- comment_contents.rs: format_compiler_directive ---------------- *)
  Inductive dstate := DBefore | DAfterPlusMinus | DAfterDigit | DAfterComma | DAfterLetter | DAfterWord.

  Definition is_word_byte (b : byte) : bool := is_alpha b || is_digit b || (b =? 95).

  (* returns None when the Rust code `return`s (token untouched), Some directive_len otherwise *)
  Fixpoint dir_scan (st : dstate) (is_switch : bool) (l : bytes) (len : nat) : option nat :=
    match l with
    | [] => Some len
    | b :: t =>
        let before_or_comma := match st with DBefore | DAfterComma => true | _ => false end in
        let after_letter := match st with DAfterLetter => true | _ => false end in
        let pm_or_digit := match st with DAfterPlusMinus | DAfterDigit => true | _ => false end in
        let letter_or_digit := match st with DAfterLetter | DAfterDigit => true | _ => false end in
        let letter_or_word := match st with DAfterLetter | DAfterWord => true | _ => false end in
        let comma_or_letter := match st with DAfterComma | DAfterLetter => true | _ => false end in
        if before_or_comma && is_alpha b then dir_scan DAfterLetter is_switch t (S len)
        else if after_letter && ((b =? 43) || (b =? 45)) then dir_scan DAfterPlusMinus true t (S len)
        else if pm_or_digit && (b =? 44) then dir_scan DAfterComma is_switch t (S len)
        else if letter_or_digit && is_digit b then dir_scan DAfterDigit true t (S len)
        else if letter_or_word && is_word_byte b && negb is_switch then dir_scan DAfterWord is_switch t (S len)
        else if after_letter && (b =? 44) then None
        else if comma_or_letter then None
        else Some len
    end.

  Definition format_compiler_directive (content : bytes) : option bytes :=
    let stripped_opt :=
      match strip_prefix [123; 36] content with
      | Some s => Some s
      | None => strip_prefix [40; 42; 36] content
      end in
    match stripped_opt with
    | None => None
    | Some stripped =>
        match dir_scan DBefore false stripped 0 with
        | None => None
        | Some dlen =>
            let directive := firstn dlen stripped in
            if existsb is_lower directive then
              Some (firstn (length content - length stripped) content ++ upper directive ++ skipn dlen stripped)
            else None
        end
    end.

  Definition comment_tok (p : ftoken) : ftoken :=
    let (tok, f) := p in
    if f_ignored f then p
    else
      let r := match t_ty tok with
               | TT_CompilerDirective | TT_ConditionalDirective _ => format_compiler_directive (t_content tok)
               | TT_Comment CoK_InlineLine | TT_Comment CoK_IndividualLine => format_line_comment (t_content tok)
               | _ => None
               end in
      match r with Some c => (set_content tok c, f) | None => p end.

  Definition comment_formatter (l : list ftoken) : list ftoken := map comment_tok l.
End CommentFmt.

(* ---------------- eof_newline.rs (applied once per Eof line by the FormatterSelector) -------- *)
Definition eof_newline_once (l : list ftoken) : list ftoken :=
  match rev l with
  | (tok, f) :: r =>
      if is_eof (t_ty tok) then rev r ++ [(tok, mkFmt (f_ignored f) 1 0 0 0)] else l
  | [] => l
  end.

(* ---------------- the per-token content relation R01 of C01 ---------------- *)
Definition is_directive_ty (ty : TokenType) : bool :=
  match ty with TT_CompilerDirective | TT_ConditionalDirective _ => true | _ => false end.

(* "a case difference may occur only inside ... a compiler-directive name": the name is looked for where a name can be, right
   after the opener, and can only consist of letters, digits and `_` (a word) or `+ - ,` (a switch list) - a declarative
   over-approximation of the span the rule's state machine finds; everything else of the token is reproduced exactly *)
Definition is_dir_name_byte (b : byte) : bool := is_alpha b || is_digit b || (b =? 95) || (b =? 43) || (b =? 45) || (b =? 44).
Definition dir_open_len (c : bytes) : nat := if is_prefix [123; 36] c then 2%nat else if is_prefix [40; 42; 36] c then 3%nat else 0%nat.
Definition r01_directive (old new : bytes) : bool :=
  let p := dir_open_len old in
  let n := count_while is_dir_name_byte (skipn p old) in
  bytes_eqb (firstn p new) (firstn p old)
  && bytes_eqb (fold_case (firstn n (skipn p new))) (fold_case (firstn n (skipn p old)))
  && bytes_eqb (skipn (p + n) new) (skipn (p + n) old).

Definition r01_b (ty : TokenType) (old new : bytes) : bool :=
  bytes_eqb old new
  || (is_keyword ty && bytes_eqb new (lower old))
  || (is_directive_ty ty && r01_directive old new)
  || ((is_sl_comment ty || is_ml_string ty) && bytes_eqb (strip new) (strip old)).

Definition tok_ok_b (ws content : bytes) : bool :=
  (match strip ws with [] => true | _ => false end)
  && (match content with b :: _ => negb (b =? 128) | [] => true end).
