(* Model/Generics.v — core/src/rules/generics_consolidator.rs lines 1..139:
   DistinguishGenericTypeParamsConsolidator::consolidate.

   The Rust function only reads and writes token TYPES (get_token_type / set_token_type); contents,
   whitespace and formatting data are never touched, so the model works on `list TokenType`.

   Outer loop: `while token_idx < tokens.len()`; a token that is not `<` advances token_idx by one;
   at a `<` the inner state machine runs and afterwards `token_idx = next_idx`.
   Inner loop: `while !state.is_empty()` over next_idx = token_idx + 1, ..., with
     state          : Vec<TypeParamState{open_idx, brack_count}>   (list, TOP FIRST, pairs)
     comma_found    : bool     prev_was_string : bool     brack_count : u32 (nat here; it is bounded by
                                                          the number of tokens, so never near 2^32)
   `break` leaves next_idx where it is (the token that caused the break is looked at again by the
   outer loop); a normal iteration ends with the prev_was_string update and `next_idx += 1`.

   Where the Rust could panic (`state.pop().unwrap()`, `tokens[i]`) the model returns G_Panic;
   out of fuel is G_Fuel.  GenericsProofs.generics_total: neither is ever returned. *)
From PasfmtVerif Require Export Model.Token.
Local Open Scope nat_scope.   (* indices, counters and fuel are nat in this file *)

Definition LT_G : TokenType := TT_Op (OK_LessThan ChK_Generic).
Definition GT_G : TokenType := TT_Op (OK_GreaterThan ChK_Generic).

(* tokens[i].set_token_type(v); the caller checks the bound (a no-op here when out of range) *)
Fixpoint set_nth (i : nat) (v : TokenType) (l : list TokenType) {struct l} : list TokenType :=
  match l with
  | [] => []
  | x :: r => match i with O => v :: r | S i' => x :: set_nth i' v r end
  end.

(* the arms of the inner `match token_type`, in source order, guards included *)
Inductive arm : Set :=
  | A_Lt        (* Some(Op(LessThan(_)))                         push *)
  | A_Comma     (* Some(Op(Comma))                               comma_found = true *)
  | A_Plain     (* identifiers, . : ; directives, comments, class record constructor string array
                   set of                                         {} *)
  | A_Gt        (* Some(Op(GreaterThan(_))) *)
  | A_LBrack    (* Some(Op(LBrack)) if prev_was_string || brack_count > 0 *)
  | A_RBrack    (* Some(Op(RBrack)) if brack_count > 0 *)
  | A_InBrack   (* text / number literal / any operator / numeric operator keyword, brack_count > 0 *)
  | A_Break.    (* _ => break   (this includes None: past the last token) *)

Definition arm_of (t : option TokenType) (prev_was_string : bool) (brack_count : nat) : arm :=
  match t with
  | Some (TT_Op (OK_LessThan _)) => A_Lt
  | Some (TT_Op OK_Comma) => A_Comma
  | Some TT_Identifier
  | Some (TT_Op (OK_Dot | OK_Colon | OK_Semicolon))
  | Some TT_CompilerDirective
  | Some (TT_Comment _)
  | Some (TT_ConditionalDirective _)
  | Some (TT_Keyword (KK_Class | KK_Record | KK_Constructor | KK_String | KK_Array | KK_Set | KK_Of))
      => A_Plain
  | Some (TT_Op (OK_GreaterThan _)) => A_Gt
  | Some (TT_Op OK_LBrack) =>
      (* when the guard fails brack_count = 0, so the later `Op(_) if brack_count > 0` arm fails too *)
      if prev_was_string || (0 <? brack_count) then A_LBrack else A_Break
  | Some (TT_Op OK_RBrack) =>
      if (0 <? brack_count) then A_RBrack else A_Break
  | Some (TT_TextLiteral _) | Some (TT_NumberLiteral _) | Some (TT_Op _) =>
      if (0 <? brack_count) then A_InBrack else A_Break
  | Some (TT_Keyword kk) =>
      if (0 <? brack_count) && KeywordKind_is_numeric_operator kk then A_InBrack else A_Break
  | _ => A_Break
  end.

(* the look-ahead of the GreaterThan arm: tokens.get(next_idx + 1) is Identifier, `@` or `not` *)
Definition gt_blocked (next : option TokenType) : bool :=
  match next with
  | Some TT_Identifier | Some (TT_Op OK_AddressOf) | Some (TT_Keyword KK_Not) => true
  | _ => false
  end.

(* if token_type.is_some_and(|t| !t.is_comment_or_directive()) {
       prev_was_string = matches!(token_type, Some(Keyword(String))) } *)
Definition pws_next (t : option TokenType) (prev_was_string : bool) : bool :=
  match t with
  | Some ty =>
      if TokenType_is_comment_or_directive ty then prev_was_string
      else match ty with TT_Keyword KK_String => true | _ => false end
  | None => prev_was_string
  end.

(* while let Some(prev) = state.pop() {
       if prev.brack_count < brack_count { brack_count -= 1; state.push(prev); break; } }
   (can empty the stack; brack_count - 1 never underflows: it is guarded by prev.brack_count <
   brack_count) *)
Fixpoint rbrack_pop (st : list (nat * nat)) (brack_count : nat) : list (nat * nat) * nat :=
  match st with
  | [] => ([], brack_count)
  | p :: r =>
      if (snd p <? brack_count) then (p :: r, brack_count - 1)
      else rbrack_pop r brack_count
  end.

Inductive ires : Set :=
  | I_Done (toks : list TokenType) (next_idx : nat)
  | I_Fuel
  | I_Panic.

(* the inner `while !state.is_empty()` loop; st is top-first *)
Fixpoint generics_inner (fuel : nat) (toks : list TokenType) (st : list (nat * nat))
    (comma_found prev_was_string : bool) (brack_count next_idx : nat) : ires :=
  match st with
  | [] => I_Done toks next_idx
  | top :: rest =>
    match fuel with
    | O => I_Fuel
    | S fuel' =>
      let t := nth_error toks next_idx in
      let pws' := pws_next t prev_was_string in
      match arm_of t prev_was_string brack_count with
      | A_Lt =>
          generics_inner fuel' toks ((next_idx, brack_count) :: st)
            comma_found pws' brack_count (S next_idx)
      | A_Comma =>
          generics_inner fuel' toks st true pws' brack_count (S next_idx)
      | A_Plain | A_InBrack =>
          generics_inner fuel' toks st comma_found pws' brack_count (S next_idx)
      | A_Gt =>
          if comma_found && gt_blocked (nth_error toks (S next_idx)) then I_Done toks next_idx
          else
            (* closed_state = state.pop().unwrap()  — st is non-empty here *)
            let open_idx := fst top in
            if (open_idx <? length toks) && (next_idx <? length toks) then
              generics_inner fuel' (set_nth next_idx GT_G (set_nth open_idx LT_G toks)) rest
                comma_found pws' (snd top) (S next_idx)
            else I_Panic
      | A_LBrack =>
          generics_inner fuel' toks st comma_found pws' (S brack_count) (S next_idx)
      | A_RBrack =>
          let r := rbrack_pop st brack_count in
          generics_inner fuel' toks (fst r) comma_found pws' (snd r) (S next_idx)
      | A_Break => I_Done toks next_idx
      end
    end
  end.

Inductive gres : Set :=
  | G_Ok (toks : list TokenType)
  | G_Fuel
  | G_Panic.

Definition is_less_than (t : option TokenType) : bool :=
  match t with Some (TT_Op (OK_LessThan _)) => true | _ => false end.

(* the outer `while token_idx < tokens.len()` loop *)
Fixpoint generics_outer (fuel : nat) (toks : list TokenType) (token_idx : nat) : gres :=
  if (length toks <=? token_idx) then G_Ok toks
  else
    match fuel with
    | O => G_Fuel
    | S fuel' =>
      if is_less_than (nth_error toks token_idx) then
        match generics_inner (S (length toks)) toks [(token_idx, 0)] false false 0 (S token_idx) with
        | I_Done toks' next_idx => generics_outer fuel' toks' next_idx
        | I_Fuel => G_Fuel
        | I_Panic => G_Panic
        end
      else generics_outer fuel' toks (S token_idx)
    end.

Definition generics_run (toks : list TokenType) : gres :=
  generics_outer (S (length toks)) toks 0.

(* DistinguishGenericTypeParamsConsolidator::consolidate on the token types.  The fallback (input
   returned unchanged) is unreachable: GenericsProofs.generics_total. *)
Definition generics_consolidate (toks : list TokenType) : list TokenType :=
  match generics_run toks with G_Ok r => r | _ => toks end.
