(* Model/FmtData.v — core/src/lang.rs: impl From<(&str, bool)> for FormattingData
   (the only place where the original layout is turned into numbers) *)
From PasfmtVerif Require Export Model.Token.

Definition u16_sat (n : N) : N := N.min 65535 n.

Definition count_lf (ws : bytes) : N := N.of_nat (length (filter (N.eqb 10) ws)).

(* the part after the last LF (the whole string if there is none): split('\n').next_back() *)
Fixpoint take_until_lf (l : bytes) : bytes :=
  match l with b :: t => if b =? 10 then [] else b :: take_until_lf t | [] => [] end.
Definition after_last_lf (ws : bytes) : bytes := rev (take_until_lf (rev ws)).

Fixpoint drop_trailing_cr_rev (r : bytes) : bytes :=
  match r with b :: t => if b =? 13 then drop_trailing_cr_rev t else r | [] => [] end.
Definition trim_end_cr (l : bytes) : bytes := rev (drop_trailing_cr_rev (rev l)).

(* byte length of the prefix that str::trim_start removes, restricted to what can occur in the
   lexer's leading blanks: U+0009..U+000D, U+0020 and U+3000 are White_Space; the other control
   characters (U+0000..U+0008, U+000E..U+001F) are NOT *)
Fixpoint ws_prefix_len (l : bytes) : nat :=
  match l with
  | [] => O
  | a :: t =>
      if ((9 <=? a) && (a <=? 13)) || (a =? 32) then S (ws_prefix_len t)
      else match t with
           | b :: c :: t' => if (a =? 227) && (b =? 128) && (c =? 128) then S (S (S (ws_prefix_len t'))) else O
           | _ => O
           end
  end.

Definition fmt_of_ws (ws : bytes) (ignored : bool) : fmt :=
  let last_line := trim_end_cr (after_last_lf ws) in
  mkFmt ignored (u16_sat (count_lf ws)) 0 0 (u16_sat (N.of_nat (ws_prefix_len last_line))).
