(* Model/Spacing.v — core/src/rules/token_spacing.rs lines 1..210:
   TokenSpacing::format, max_one_either_side, spaces_before, spaces_after, one_space_either_side,
   one_space_before, space_operator.

   The Rust loop runs over token indices left to right.  At step i it computes a pair
   (spaces_before, spaces_after) of Option<u16> from the TYPES of tokens i-1, i, i+1, from the type of
   the previous "real" (non comment / directive) token, and — only in max_one_either_side — from the
   CURRENT spaces_before of tokens i and i+1.  It then writes fmt[i].spaces_before (if Some) and
   fmt[i+1].spaces_before (if Some, token i+1 exists and is not Eof).  Finally fmt[0].spaces_before = 0.
   It never reads `ignored`, never touches newlines / indentations / continuations. *)
From PasfmtVerif Require Export Model.Token.

(* ------------------------------------------------------------------ *)
(* what a step wants to do with one spaces_before cell *)

(* Keep  = None (leave the cell alone)
   SetTo n = Some(n)
   Min1  = Some(cell.min(1)) — the two reads of max_one_either_side: in the first component it is
           "Min1Own" (cell of token i, current value), in the second "Min1Next" (cell of token i+1,
           which at step i still holds its original value). *)
Inductive action : Set := Keep | SetTo (n : N) | Min1.

Definition apply_action (a : action) (v : N) : N :=
  match a with Keep => v | SetTo n => n | Min1 => N.min 1 v end.

(* fn spaces_before(token_type: Option<TokenType>, spaces: u16) -> Option<u16> *)
Definition spaces_before (prev : option TokenType) (spaces : N) : action :=
  match prev with
  | None => SetTo 0
  | Some (TT_Op (OK_LBrack | OK_LParen | OK_LessThan ChK_Generic)) => SetTo 0
  | _ => SetTo spaces
  end.

(* fn spaces_after(token_type: Option<TokenType>, spaces: u16) -> Option<u16> *)
Definition spaces_after (next : option TokenType) (spaces : N) : action :=
  match next with
  | Some (TT_Op (OK_RBrack | OK_RParen | OK_GreaterThan ChK_Generic)) => SetTo 0
  | _ => SetTo spaces
  end.

(* fn one_space_either_side *)
Definition one_space_either_side (prev next : option TokenType) : action * action :=
  (spaces_before prev 1, spaces_after next 1).

(* fn one_space_before *)
Definition one_space_before (prev : option TokenType) : action * action :=
  (spaces_before prev 1, SetTo 0).

(* fn max_one_either_side: get_formatting_data(i) always exists inside the loop;
   get_formatting_data(i+1) is None exactly when there is no next token. *)
Definition max_one_either_side (next : option TokenType) : action * action :=
  (Min1, match next with Some _ => Min1 | None => Keep end).

Definition binary_op_spacing : action * action := (SetTo 1, SetTo 1).

(* fn space_operator.  prev = type at token_index.wrapping_sub(1) (None at index 0),
   next = type at token_index + 1, prev_real = prev_real_token_type(token_index). *)
Definition space_operator (op : OperatorKind) (prev next prev_real : option TokenType)
  : action * action :=
  match op with
  | OK_Star | OK_Slash | OK_Assign | OK_Equal _ | OK_NotEqual | OK_LessEqual | OK_GreaterEqual
  | OK_LessThan ChK_Comp | OK_GreaterThan ChK_Comp => binary_op_spacing
  | OK_Plus | OK_Minus =>
      match prev_real with
      | Some (TT_Op (OK_RBrack | OK_RParen | OK_GreaterThan ChK_Generic))
      | Some (TT_Keyword (KK_Inherited | KK_Nil)) => binary_op_spacing
      | None
      | Some (TT_Op _ | TT_Keyword _ | TT_Comment _ | TT_CompilerDirective
             | TT_ConditionalDirective _) => (Keep, SetTo 0)
      | _ => binary_op_spacing
      end
  | OK_Comma | OK_Colon => (SetTo 0, SetTo 1)
  | OK_RBrack | OK_RParen =>
      match next with
      | Some (TT_Identifier | TT_Keyword _) => (SetTo 0, SetTo 1)
      | _ => (SetTo 0, SetTo 0)
      end
  | OK_LBrack | OK_LParen =>
      match prev with
      | Some TT_Identifier
      | Some (TT_Keyword (KK_Class | KK_Abstract | KK_Sealed | KK_Helper | KK_Interface
                         | KK_Function | KK_Procedure | KK_Array | KK_String)) => (SetTo 0, SetTo 0)
      | Some (TT_Keyword _) => (SetTo 1, SetTo 0)
      | _ => (Keep, SetTo 0)
      end
  | OK_Caret CaK_Deref => (SetTo 0, SetTo 0)
  | OK_Caret CaK_Type => (Keep, SetTo 0)
  | OK_Dot | OK_DotDot => (SetTo 0, SetTo 0)
  | OK_LessThan ChK_Generic => (SetTo 0, SetTo 0)
  | OK_GreaterThan ChK_Generic =>
      (SetTo 0, match next with Some (TT_Op _) => SetTo 0 | _ => SetTo 1 end)
  | OK_AddressOf => one_space_before prev
  | OK_Semicolon => (SetTo 0, SetTo 1)
  end.

(* the match at the top of the loop body: (spaces_before, spaces_after) for the token of type cur *)
Definition rule (prev : option TokenType) (cur : TokenType) (next prev_real : option TokenType)
  : action * action :=
  match cur with
  | TT_Op op => space_operator op prev next prev_real
  | TT_Comment CoK_InlineLine => (SetTo 1, Keep)
  | TT_Comment _ | TT_CompilerDirective | TT_ConditionalDirective _ | TT_Keyword _ =>
      one_space_either_side prev next
  | TT_Identifier => (Keep, SetTo 1)
  | _ => max_one_either_side next
  end.

(* ------------------------------------------------------------------ *)
(* the loop *)

Definition set_sp (f : fmt) (n : N) : fmt :=
  mkFmt (f_ignored f) (f_nl f) (f_ind f) (f_cont f) n.

Definition ty_of (p : ftoken) : TokenType := t_ty (fst p).

Definition head_ty (l : list ftoken) : option TokenType :=
  match l with [] => None | p :: _ => Some (ty_of p) end.

(* prev_real_token_type(i+1) from prev_real_token_type(i) and the type of token i *)
Definition next_prev_real (pr : option TokenType) (ty : TokenType) : option TokenType :=
  if TokenType_is_comment_or_directive ty then pr else Some ty.

(* Steps i, i+1, ... on the suffix l = tokens[i..].
   prev      = type of token i-1 (None at i = 0)
   prev_real = prev_real_token_type(i)
   pend      = the spaces_after computed by step i-1, not yet applied to the head of l
               (Keep at i = 0).  The head's f_sp is still its ORIGINAL value: that is what step i-1's
               max_one_either_side read for "next", so a pending Min1 is applied to the original value;
               the head's own Min1 then reads the value after the pending write. *)
Fixpoint spacing_go (prev prev_real : option TokenType) (pend : action) (l : list ftoken)
  : list ftoken :=
  match l with
  | [] => []
  | p :: r =>
      let ty := ty_of p in
      let f := snd p in
      (* step i-1's "after" write: skipped when this token is Eof *)
      let v1 := if is_eof ty then f_sp f else apply_action pend (f_sp f) in
      let ba := rule prev ty (head_ty r) prev_real in
      (fst p, set_sp f (apply_action (fst ba) v1))
        :: spacing_go (Some ty) (next_prev_real prev_real ty) (snd ba) r
  end.

(* if let Some(formatting_data) = get_formatting_data_mut(0) { spaces_before = 0 } *)
Definition zero_first (l : list ftoken) : list ftoken :=
  match l with [] => [] | p :: r => (fst p, set_sp (snd p) 0) :: r end.

(* TokenSpacing::format *)
Definition token_spacing (l : list ftoken) : list ftoken :=
  zero_first (spacing_go None None Keep l).

(* ------------------------------------------------------------------ *)
(* closed form for the space count in front of token i+1 *)

(* spaces_after chosen by the LEFT token (type tl) of a pair; pr_l = prev_real of the left token.
   (The after-component of `rule` never looks at prev: SpacingProofs.rule_snd_prev_irrelevant.) *)
Definition after_of (tl tr : TokenType) (pr_l : option TokenType) : action :=
  snd (rule None tl (Some tr) pr_l).

(* spaces_before chosen by the RIGHT token (type tr); its prev is tl, its prev_real is derived.
   (The before-component never looks at next: SpacingProofs.rule_fst_next_irrelevant.) *)
Definition before_of (tl tr : TokenType) (pr_l : option TokenType) : action :=
  fst (rule (Some tl) tr None (next_prev_real pr_l tl)).

(* Final spaces_before of token i+1, given
     tl   = type of token i,   tr = type of token i+1,
     pr_l = previous real token type as seen from token i (prev_real_token_type(i)),
     orig = spaces_before of token i+1 before the rule ran.
   No other neighbour is read: token i+2 only influences the after-action of token i+1, and token
   i-1 only the before-action of token i. *)
Definition gap_fn (tl tr : TokenType) (pr_l : option TokenType) (orig : N) : N :=
  apply_action (before_of tl tr pr_l)
    (if is_eof tr then orig else apply_action (after_of tl tr pr_l) orig).

(* the whole output after the first token, in closed form (proved equal in SpacingProofs) *)
Fixpoint gaps (pr : option TokenType) (tl : TokenType) (r : list ftoken) : list ftoken :=
  match r with
  | [] => []
  | p :: r' =>
      (fst p, set_sp (snd p) (gap_fn tl (ty_of p) pr (f_sp (snd p))))
        :: gaps (next_prev_real pr tl) (ty_of p) r'
  end.

Definition types (l : list ftoken) : list TokenType := map ty_of l.

(* prev_real_token_type(i) on the list l *)
Definition prev_real_at (l : list ftoken) (i : nat) : option TokenType :=
  fold_left next_prev_real (firstn i (types l)) None.

(* gap_fn returns orig itself (no min, no constant) *)
Definition keeps_orig (tl tr : TokenType) (pr_l : option TokenType) : bool :=
  match before_of tl tr pr_l with
  | Keep => is_eof tr || match after_of tl tr pr_l with Keep => true | _ => false end
  | _ => false
  end.

(* gap_fn looks at orig at all *)
Definition reads_orig (tl tr : TokenType) (pr_l : option TokenType) : bool :=
  match before_of tl tr pr_l with
  | SetTo _ => false
  | _ => is_eof tr || match after_of tl tr pr_l with SetTo _ => false | _ => true end
  end.

(* explicit descriptions of the two classes (proved equal by reflection) *)
Definition pm_unary (pr : option TokenType) : bool :=
  match pr with
  | Some (TT_Op (OK_RBrack | OK_RParen | OK_GreaterThan ChK_Generic))
  | Some (TT_Keyword (KK_Inherited | KK_Nil)) => false
  | None
  | Some (TT_Op _ | TT_Keyword _ | TT_Comment _ | TT_CompilerDirective
         | TT_ConditionalDirective _) => true
  | _ => false
  end.

Definition is_inline_line (t : TokenType) : bool :=
  match t with TT_Comment CoK_InlineLine => true | _ => false end.

(* left types whose after-action is not a constant *)
Definition left_passes (tl : TokenType) : bool :=
  match tl with
  | TT_Comment CoK_InlineLine | TT_TextLiteral _ | TT_NumberLiteral _ | TT_Eof | TT_Unknown => true
  | _ => false
  end.

Definition keeps_orig_spec (tl tr : TokenType) (pr_l : option TokenType) : bool :=
  is_inline_line tl &&
  match tr with
  | TT_Identifier | TT_Op (OK_Caret CaK_Type) | TT_Op OK_LBrack | TT_Op OK_LParen => true
  | TT_Op (OK_Plus | OK_Minus) => pm_unary pr_l
  | _ => false
  end.

Definition reads_orig_spec (tl tr : TokenType) (pr_l : option TokenType) : bool :=
  match tr with
  | TT_Eof => true
  | TT_Identifier | TT_TextLiteral _ | TT_NumberLiteral _ | TT_Unknown
  | TT_Op (OK_Caret CaK_Type) | TT_Op OK_LBrack | TT_Op OK_LParen => left_passes tl
  | TT_Op (OK_Plus | OK_Minus) => is_inline_line tl && pm_unary pr_l
  | _ => false
  end.

(* ------------------------------------------------------------------ *)
(* glue_safe tl tr: a token of type tl immediately followed (no blank) by a token of type tr is
   scanned by defaults/lexer.rs as the same two tokens.  The lexer is left-to-right with bounded
   look-ahead, so the only question is whether the LEFT token's scanner would consume or
   reinterpret the first character(s) of the right token.  Conservative: false when unsure.

   Possible first characters of the content, by type:
     Op: the operator text ("[" or "(." for LBrack, "]" or ".)" for RBrack);
     Identifier: letter, '_', >= 0x80, '&', or '@' (asm label);  Keyword: letter;
     TextLiteral: ' # (and double quote in asm);  NumberLiteral: digit, '$', '%', '&';
     directives: "{$", "(*$";  block comments: "{", "(*";  line comments: "//";
     Unknown: any other byte, or '&'.
   Characters that would change the scan of the left token ("open" on the right):
     "/": '/'       ":": '='      "<": '=' '>'     ">": '='     ".": '.' ')'     "(": '*' '.'
     Identifier / Keyword: word characters (and '@' inside an asm label);
     TextLiteral (terminated): ' # and word characters (after #nn / #$hh);
     TextLiteral Unterminated: runs to end of line / stops at a bad escape — never claimed safe;
     NumberLiteral: word characters; Decimal additionally '+' '-' (after an exponent "1e");
       Decimal followed by '.' consumes the dot only when a digit follows the dot, i.e. only if the
       token after the Dot is a NumberLiteral glued to it — so (Dot, NumberLiteral) is declared unsafe
       and (Decimal, Dot) safe; "1.." and "1.)" are scanned as number, operator;
     Unknown ("&", "&&"...): '&' '$' '%' and word characters;
     every other operator, terminated block comments and directives are closed on the right.
     Line comments run to the end of the line: never safe (the reconstructor forces a newline).
   Nothing follows Eof; gluing anything in front of Eof is harmless. *)

Definition starts_wordish (tr : TokenType) : bool :=
  match tr with
  | TT_Identifier | TT_Keyword _ | TT_NumberLiteral _ => true
  | _ => false
  end.

Definition glue_safe (tl tr : TokenType) : bool :=
  match tr with
  | TT_Eof => negb (is_eof tl)
  | _ =>
    match tl with
    | TT_Op OK_Slash =>
        match tr with
        | TT_Op OK_Slash | TT_Comment (CoK_InlineLine | CoK_IndividualLine) => false
        | _ => true
        end
    | TT_Op OK_Colon => match tr with TT_Op (OK_Equal _) => false | _ => true end
    | TT_Op (OK_LessThan _) =>
        match tr with
        | TT_Op (OK_Equal _ | OK_GreaterThan _ | OK_GreaterEqual) => false
        | _ => true
        end
    | TT_Op (OK_GreaterThan _) => match tr with TT_Op (OK_Equal _) => false | _ => true end
    | TT_Op OK_Dot =>
        match tr with
        | TT_Op (OK_Dot | OK_DotDot | OK_RBrack | OK_RParen) => false
        | TT_NumberLiteral _ => false
        | _ => true
        end
    | TT_Op OK_LParen =>
        match tr with
        | TT_Op (OK_Star | OK_Dot | OK_DotDot | OK_RBrack) => false
        | _ => true
        end
    | TT_Op _ => true
    | TT_Identifier =>
        match tr with TT_Op OK_AddressOf => false | _ => negb (starts_wordish tr) end
    | TT_Keyword _ => negb (starts_wordish tr)
    | TT_TextLiteral TK_Unterminated => false
    | TT_TextLiteral _ =>
        match tr with TT_TextLiteral _ => false | _ => negb (starts_wordish tr) end
    | TT_NumberLiteral NK_Decimal =>
        match tr with TT_Op (OK_Plus | OK_Minus) => false | _ => negb (starts_wordish tr) end
    | TT_NumberLiteral _ => negb (starts_wordish tr)
    | TT_ConditionalDirective _ | TT_CompilerDirective => true
    | TT_Comment (CoK_InlineLine | CoK_IndividualLine) => false
    | TT_Comment _ => true
    | TT_Eof => false
    | TT_Unknown => match tr with TT_Unknown => false | _ => negb (starts_wordish tr) end
    end
  end.
