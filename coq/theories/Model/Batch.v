(* Model/Batch.v — exec_format's parallel loop (orchestrator/src/file_formatter.rs):
     paths.into_par_iter().map_init(Vec::<u8>::new, |input_buf, file_path| { input_buf.clear(); ... })
          .for_each(|res| if let Err(e) = res { error_handler(e) })
   in files mode (format_files), over a shared file system, with the shared error flag of
   front-end/src/main.rs.  Two granularities:
     * atomic: a schedule is the list of (worker, path) pairs in the order rayon happens to run them;
     * fine: every file system access of a task (the read, each write_all, the set_len) is its own
       step and the steps of different tasks interleave arbitrarily.
   No proofs here. *)
From PasfmtVerif Require Export Model.FileIO.

(* file system: path (nat) -> content, None = cannot be opened *)
Definition fsys := nat -> option bytes.
Definition fs_upd (fs : fsys) (p : nat) (v : option bytes) : fsys :=
  fun q => if Nat.eqb q p then v else fs q.
Definition upd {A} (f : nat -> A) (i : nat) (v : A) : nat -> A :=
  fun j => if Nat.eqb j i then v else f j.

(* effect of one write_all / set_len through a writable handle at position pos on the shared content
   (the handle position is task-local, the content is the file system's) *)
Definition file_write (pos : nat) (d c : bytes) : bytes :=
  match write_all d (mkFile c pos true) with Some f => f_content f | None => c end.
Definition file_trunc (n : nat) (c : bytes) : bytes :=
  match set_len n (mkFile c 0 true) with Some f => f_content f | None => c end.

(* progress of one task (one element of the expanded path list) *)
Inductive phase :=
| PStart                                    (* nothing done yet *)
| PWrite (pos : nat) (chunks : list bytes)  (* handle at pos; write_all calls still to do, then set_len pos *)
| PDone.

Section Batch.
  Variable legacy_decode : nat -> bytes -> option text.
  Variable legacy_encode : nat -> text -> option bytes.
  Variable format : text -> text.
  Variable cfg : enc.

  (* ---------------------------------------------------------------- *)
  (* atomic granularity *)

  (* One call of the map_init closure by a worker whose buffer currently holds `buf`.
     clear = true is the real program (`input_buf.clear()`); clear = false is the program without
     that line.  Result: (worker buffer afterwards, file system, Err?).
     fs p = None: open fails ("failed to open"), nothing read. *)
  Definition process_file (clear : bool) (buf : bytes) (fs : fsys) (p : nat)
    : bytes * fsys * bool :=
    let buf0 := if clear then [] else buf in
    match fs p with
    | None => (buf0, fs, true)
    | Some c =>
      let '(c', _, err) := files_mode_from legacy_decode legacy_encode format buf0 cfg c in
      (buf0 ++ c, fs_upd fs p (Some c'), err)
    end.

  Record astate := mkA { a_fs : fsys; a_bufs : nat -> bytes; a_err : bool }.

  (* schedule: (worker id, path) in execution order; the error flag is a monotone OR *)
  Fixpoint run_atomic (clear : bool) (sched : list (nat * nat)) (s : astate) : astate :=
    match sched with
    | [] => s
    | (w, p) :: r =>
      let '(buf', fs', e) := process_file clear (a_bufs s w) (a_fs s) p in
      run_atomic clear r (mkA fs' (upd (a_bufs s) w buf') (a_err s || e))
    end.

  (* formatting one file alone: (content afterwards, error flag) *)
  Definition solo_result (fs : fsys) (p : nat) : option bytes * bool :=
    match fs p with
    | None => (None, true)
    | Some c =>
      let '(c', _, err) := files_mode legacy_decode legacy_encode format cfg c in (Some c', err)
    end.

  (* ---------------------------------------------------------------- *)
  (* fine granularity *)

  (* One file-system-visible step of a task on its file (content c, None = missing).
     PStart: clear, open, read_to_end, decode, format, compare, encode, seek 0 — everything up to the
             first write_all; only the read touches the file system.
     PWrite pos (d :: r): one write_all (the BOM, then the encoded text).
     PWrite pos []: set_len(new_len), new_len = pos = number of bytes written.
     Result: (content, next phase, Err reported by this step). *)
  Definition lstep (prev : bytes) (c : option bytes) (ph : phase) : option bytes * phase * bool :=
    match ph with
    | PStart =>
      match c with
      | None => (None, PDone, true)
      | Some c0 =>
        match decode_file legacy_decode cfg (prev ++ c0) with
        | None => (c, PDone, true)
        | Some (bom, e, t) =>
          let out := format t in
          if bytes_eqb t out then (c, PDone, false)
          else
            match encode_with legacy_encode e out with
            | None => (c, PDone, true)
            | Some ob =>
              (c, PWrite 0 (match bom with Some b => [b; ob] | None => [ob] end), false)
            end
        end
      end
    | PWrite pos (d :: r) => (option_map (file_write pos d) c, PWrite (pos + length d) r, false)
    | PWrite pos [] => (option_map (file_trunc pos) c, PDone, false)
    | PDone => (c, PDone, false)
    end.

  (* worker buffer after a step: read_to_end appended the file to it *)
  Definition buf_after (prev : bytes) (c : option bytes) (ph : phase) : bytes :=
    match ph, c with
    | PStart, Some c0 => prev ++ c0
    | _, _ => prev
    end.

  Record bstate := mkB { b_fs : fsys; b_ph : nat -> phase; b_bufs : nat -> bytes; b_err : bool }.

  (* tasks are the indices into `paths` (so a path listed twice is two tasks); `assign` maps a task
     to the worker that runs it; a schedule is a list of task indices, each occurrence advancing
     that task by one step (no-op once PDone, or if the index is out of range). *)
  Definition bstep (clear : bool) (paths : list nat) (assign : nat -> nat) (i : nat) (s : bstate)
    : bstate :=
    match nth_error paths i with
    | None => s
    | Some p =>
      let w := assign i in
      let ph := b_ph s i in
      let prev := match ph with
                  | PStart => if clear then [] else b_bufs s w
                  | _ => b_bufs s w
                  end in
      let '(c', ph', e) := lstep prev (b_fs s p) ph in
      mkB (fs_upd (b_fs s) p c') (upd (b_ph s) i ph')
          (upd (b_bufs s) w (buf_after prev (b_fs s p) ph)) (b_err s || e)
    end.

  Fixpoint brun (clear : bool) (paths : list nat) (assign : nat -> nat) (sched : list nat)
           (s : bstate) : bstate :=
    match sched with
    | [] => s
    | i :: r => brun clear paths assign r (bstep clear paths assign i s)
    end.

  Definition binit (fs : fsys) (bufs : nat -> bytes) : bstate :=
    mkB fs (fun _ => PStart) bufs false.
End Batch.
