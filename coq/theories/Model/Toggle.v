(* Model/Toggle.v — core/src/rules/formatting_toggle.rs, ignore_asm_instructions.rs and the voiding
   loop of formatter.rs: which tokens are marked as ignored *)
From PasfmtVerif Require Export Model.Token.

Inductive toggle := TOn | TOff.

Definition starts_with_icase (input prefix : bytes) : bool :=
  (* input.is_char_boundary(prefix.len()) && input[..len].eq_ignore_ascii_case(prefix);
     strip_prefix_icase checks input.len() >= prefix.len() first.  For an ASCII prefix that matches,
     the boundary test is implied (the byte after an ASCII byte starts a character); when the bytes
     do not match the result is false either way. *)
  (Nat.leb (length prefix) (length input)) && bytes_eqb (lower (firstn (length prefix) input)) (lower prefix).

Definition strip_prefix_icase (input prefix : bytes) : option bytes :=
  if starts_with_icase input prefix then Some (skipn (length prefix) input) else None.

Definition parse_pasfmt_toggle (input : bytes) : option toggle :=
  let word := firstn (count_while is_alnum input) input in
  if bytes_eqb (lower word) [111; 110] then Some TOn               (* "on" *)
  else if bytes_eqb (lower word) [111; 102; 102] then Some TOff    (* "off" *)
  else None.

Definition pasfmt_word : bytes := [112; 97; 115; 102; 109; 116].    (* "pasfmt" *)

Definition parse_pasfmt_directive_comment_contents (input : bytes) : option toggle :=
  let input := skipn (count_while is_ascii_ws input) input in
  match strip_prefix_icase input pasfmt_word with
  | None => None
  | Some input =>
      match count_while is_ascii_ws input with
      | O => None
      | n => parse_pasfmt_toggle (skipn n input)
      end
  end.

Definition strip_prefix_b (p l : bytes) : option bytes :=
  if is_prefix p l then Some (skipn (length p) l) else None.

Definition parse_toggle (content : bytes) : option toggle :=
  match strip_prefix_b [47; 47] content with
  | Some c => parse_pasfmt_directive_comment_contents c
  | None =>
      match strip_prefix_b [40; 42] content with
      | Some c => parse_pasfmt_directive_comment_contents c
      | None =>
          match strip_prefix_b [123] content with
          | Some c => parse_pasfmt_directive_comment_contents c
          | None => None
          end
      end
  end.

(* FormattingToggler::ignore_tokens: the marks, in token order *)
Fixpoint toggle_marks (ignored : bool) (l : list token) : list bool :=
  match l with
  | [] => []
  | tok :: r =>
      let t := if is_comment (t_ty tok) then parse_toggle (t_content tok) else None in
      let ignored' := match t with Some TOff => true | Some TOn => false | None => ignored end in
      let on_toggle := match t with Some _ => true | None => false end in
      (ignored' || on_toggle) :: toggle_marks ignored' r
  end.

(* IgnoreAsmIstructions: tokens of AsmInstruction lines; lines are (type, token indices) *)
Definition asm_marked (lines : list (LogicalLineType * list nat)) (i : nat) : bool :=
  existsb (fun ln => match fst ln with LLT_AsmInstruction => existsb (Nat.eqb i) (snd ln) | _ => false end) lines.

(* ... and (after the repair of F33) the conditional directives written on the physical line of an instruction:
   a forward pass joins a directive that does not start a line to a marked predecessor, a backward pass joins a
   directive to a marked successor that does not start a line; both read their own progress *)
Definition is_cond_dir_tok (tok : token) : bool := match t_ty tok with TT_ConditionalDirective _ => true | _ => false end.
Definition starts_line (tok : token) : bool := contains_byte 10 (t_ws tok) || contains_byte 13 (t_ws tok).

Fixpoint asm_fwd (prev : bool) (l : list (token * bool)) : list bool :=
  match l with
  | [] => []
  | (tok, m) :: r => let m' := m || (is_cond_dir_tok tok && negb (starts_line tok) && prev) in m' :: asm_fwd m' r
  end.

Fixpoint asm_bwd (l : list (token * bool)) : list bool :=
  match l with
  | [] => []
  | (tok, m) :: r =>
      let rest := asm_bwd r in
      let joins := match r, rest with
                   | (ntok, _) :: _, nm :: _ => negb (starts_line ntok) && nm
                   | _, _ => false
                   end in
      (m || (is_cond_dir_tok tok && joins)) :: rest
  end.

Definition asm_base (toks : list token) (lines : list (LogicalLineType * list nat)) : list bool :=
  map (asm_marked lines) (seq 0 (length toks)).

Definition asm_marks (toks : list token) (lines : list (LogicalLineType * list nat)) : list bool :=
  asm_bwd (combine toks (asm_fwd false (combine toks (asm_base toks lines)))).

Definition ignore_marks (toks : list token) (lines : list (LogicalLineType * list nat)) : list bool :=
  map (fun ab => fst ab || snd ab) (combine (toggle_marks false toks) (asm_marks toks lines)).

(* formatter.rs: a line all of whose tokens are ignored is voided (only when something is marked) *)
Definition void_lines (marks : list bool) (lines : list (LogicalLineType * list nat)) : list (LogicalLineType * list nat) :=
  if existsb (fun b => b) marks then
    map (fun ln => if forallb (fun i => nth i marks false) (snd ln) then (LLT_Voided, []) else ln) lines
  else lines.
